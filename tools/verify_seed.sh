#!/bin/bash
# usage: tools/verify_seed.sh <ID> <demo -run regex> "<demo pkgs>" "<pkgs whose existing tests to run>"
# Confirms in the agent's scratch worktree /tmp/seed-<ID>/wt: demo fails with patch, passes without,
# tree builds and existing tests of the touched packages pass with the patch (demo files moved away).
export PATH=/root/go/pkg/mod/golang.org/toolchain@v0.0.1-go1.25.10.linux-amd64/bin:$PATH GOPROXY=off GOSUMDB=off GOTOOLCHAIN=local
id=$1; re=$2; dpk=$3; tpk=$4
wt=/tmp/seed-$id/wt; out=/tmp/seed-$id/out; log=/tmp/seed-$id/verify.log
cd $wt || exit 3
{
echo "## demo WITH change"; go test -vet=off -count=1 -run "$re" $dpk 2>&1 | grep -E "^(--- FAIL|FAIL|ok|panic)" | head -20
git apply -R $out/patch.diff || echo "REVERT FAILED"
echo "## demo WITHOUT change"; go test -vet=off -count=1 -run "$re" $dpk 2>&1 | grep -E "^(--- FAIL|FAIL|ok|panic)" | head -20
git apply $out/patch.diff || echo "REAPPLY FAILED"
mkdir -p /tmp/seed-$id/keep; for f in $(git status --short | grep '^??' | awk '{print $2}'); do mkdir -p /tmp/seed-$id/keep/$(dirname $f); mv $f /tmp/seed-$id/keep/$f; done
echo "## build + existing tests WITH change"; go build ./... 2>&1 | tail -3; go test -vet=off -count=1 -timeout 30m $tpk 2>&1 | grep -E "^(--- FAIL|FAIL|ok|panic)" | head -30
(cd /tmp/seed-$id/keep && find . -type f) | while read f; do mv /tmp/seed-$id/keep/$f $wt/$f; done
echo "## done"
} > $log 2>&1
cat $log
