#!/usr/bin/env python3
"""Known findings detected by the shared TSDB history runner (harness/internal/tsdbrun) apply to
every property that uses it. This copies the C01 entries + replay files to the other
properties (with their part prefix). Run after changing C01's runner findings."""
import json, os, shutil
ROOT=os.path.dirname(os.path.dirname(os.path.abspath(__file__)))
RUNNER_SIGS=["sample-committed-before-series-record","delete-misses-ooo-head-samples","delete-hides-later-ooo-append",
 "wbl-sample-orphaned-by-checkpoint","head-delete-lost-after-compaction-and-restart","ooo-block-merged-raises-restart-bound",
 "stale-marker-conversion-reorders-commit","block-delete-lost-after-tombstone-cleanup-and-restart","snapshot-restart-reissues-series-ref","duplicate-series-record-drops-ooo-mmapped-chunks"]
USERS={"C02":"","C20":"hist-","C52":"","C03":""}
# C03 replays wrap the history into a crash case (kill at the last hook hits: everything acknowledged)
C03_SIGS=[x for x in RUNNER_SIGS if x!="stale-marker-conversion-reorders-commit"]
# C04 C06 C22 C23 C53 discard histories that fail the runner's own check; they list only the sigs they raise themselves.
d=json.load(open(os.path.join(ROOT,'known_findings.json')))
base={}
for f in d['findings']:
    if f['property']=='C01' and f['sig'] in RUNNER_SIGS: base[f['sig']]=f
if 'stale-marker-conversion-reorders-commit' not in base:
    base['stale-marker-conversion-reorders-commit']=[f for f in d['findings'] if f['sig']=='stale-marker-conversion-reorders-commit'][0]
keep=[f for f in d['findings'] if not (f['property'] in USERS and f['sig'] in RUNNER_SIGS)]
for prop,prefix in USERS.items():
    if not os.path.isdir(os.path.join(ROOT,'replays',prop)) and prop not in ('C02','C20'):
        continue
    for sig in (C03_SIGS if prop=="C03" else RUNNER_SIGS):
        src=os.path.join(ROOT,'replays','C01','known-%s.json'%sig)
        if not os.path.exists(src): continue
        os.makedirs(os.path.join(ROOT,'replays',prop),exist_ok=True)
        dst=os.path.join(ROOT,'replays',prop,'%sknown-%s.json'%(prefix,sig))
        if prop=="C03":
            json.dump({"H":json.load(open(src)),"Kills":[1.0,0.97]},open(dst,'w'))
        else:
            shutil.copyfile(src,dst)
        e=dict(base[sig]); e['property']=prop; e['replay']=os.path.relpath(dst,ROOT)
        keep.append(e)
d['findings']=keep
json.dump(d,open(os.path.join(ROOT,'known_findings.json'),'w'),indent=1)
print(len(keep),'entries')
