#!/bin/bash
# usage: tools/runall.sh <tier> <seed> [ids...]; writes .logs/runall-<tier>-<seed>.txt
cd "$(dirname "$0")/.."
tier=${1:-quick}; seed=${2:-1}; shift; shift
ids="$@"
if [ -z "$ids" ]; then ids=$(./check --list); fi
out=.logs/runall-$tier-$seed.txt; : > $out
for id in $ids; do
  s=$(date +%s)
  VERIF_SEED=$seed ./check $id --tier $tier > .logs/runall-$id.out 2>&1
  rc=$?
  echo "$id rc=$rc $(( $(date +%s)-s ))s $(grep -c KNOWN-FINDING .logs/runall-$id.out) known | $(tail -1 .logs/runall-$id.out)" >> $out
done
echo DONE >> $out
