#!/usr/bin/env python3
"""Sensitivity runner: applies one textual mutation to a scratch worktree of /repo and runs
the listed checks against it (VERIF_REPO). Results are appended to sensitivity/auto.md.
usage: tools/mutate.py [name ...]   (no names = all)"""
import os, subprocess, sys, time, shutil
ROOT=os.path.dirname(os.path.dirname(os.path.abspath(__file__)))
M=[
 ("ooo-window-edge", "tsdb/head_append.go", "	if oooTimeWindow > 0 && t >= headMaxt-oooTimeWindow {\n		return true, headMaxt - t, nil\n	}\n\n	// The sample cannot go in both in-order and out-of-order chunk.\n	if oooTimeWindow > 0 {\n		return true, headMaxt - t, storage.ErrTooOldSample\n	}\n	if t < minValidTime {\n		return false, headMaxt - t, storage.ErrOutOfBounds\n	}\n	return false, headMaxt - t, storage.ErrOutOfOrderSample\n}\n\n// appendableHistogram", "	if oooTimeWindow > 0 && t > headMaxt-oooTimeWindow {\n		return true, headMaxt - t, nil\n	}\n\n	// The sample cannot go in both in-order and out-of-order chunk.\n	if oooTimeWindow > 0 {\n		return true, headMaxt - t, storage.ErrTooOldSample\n	}\n	if t < minValidTime {\n		return false, headMaxt - t, storage.ErrOutOfBounds\n	}\n	return false, headMaxt - t, storage.ErrOutOfOrderSample\n}\n\n// appendableHistogram", ["C02","C01"]),
 ("float-dup-compare-by-value", "tsdb/head_append.go", "			if math.Float64bits(s.lastValue) != math.Float64bits(v) {", "			if s.lastValue != v {", ["C02"]),
 ("ooo-insert-overwrites-duplicate", "tsdb/ooo_head.go", "	if o.samples[i].t == t {\n		return false\n	}", "	if o.samples[i].t == t {\n		o.samples[i] = sample{st, t, v, h, fh}\n		return true\n	}", ["C01"]),
 ("truncate-chunks-le", "tsdb/head.go", "			if chk.maxTime < mint {", "			if chk.maxTime <= mint {", ["C01","C20"]),
 ("tombstones-skipped-in-head-iterator", "tsdb/querier.go", "			p.bufIter.Intervals = p.bufIter.Intervals.Add(interval)", "			_ = interval", ["C01","C20"]),
 ("intervals-adjacency-dropped", "tsdb/tombstones/tombstones.go", "		mini = sort.Search(len(in), func(i int) bool { return in[i].Maxt >= n.Mint-1 })", "		mini = sort.Search(len(in), func(i int) bool { return in[i].Maxt >= n.Mint })", ["C20"]),
 ("wal-crc-not-checked", "tsdb/wlog/reader.go", "		if c := crc32.Checksum(buf[:length], castagnoliTable); c != crc {", "		if c := crc32.Checksum(buf[:length], castagnoliTable); c != crc && false {", ["C04"]),
 ("close-append-before-commit", "tsdb/head_append.go", "	defer h.iso.closeAppend(a.appendID)\n", "	h.iso.closeAppend(a.appendID)\n", ["C05"]),
 ("snapshot-tombstones-not-restored", "tsdb/head_wal.go", "				h.tombstones.AddInterval(ref, ivs...)\n", "				_ = ivs\n", ["C23"]),
 ("ro-sandbox-not-removed", "tsdb/db.go", "		if err := os.RemoveAll(db.sandboxDir); err != nil {\n			db.logger.Error(\"delete sandbox dir\", \"err\", err)\n		}", "		_ = db.sandboxDir", ["C53"]),
 ("gc-keeps-histogram-buckets", "tsdb/head.go", "	h.numNativeHistogramBuckets.Sub(uint64(histogramBucketsDeleted))", "	_ = histogramBucketsDeleted", ["C52"]),
 ("last-series-id-not-restored", "tsdb/head_wal.go", "				if chunks.HeadSeriesRef(h.lastSeriesID.Load()) < walSeries.Ref {\n					h.lastSeriesID.Store(uint64(walSeries.Ref))\n				}", "				_ = walSeries.Ref", ["C22"]),
 ("checkpoint-after-truncate", "tsdb/head.go", "	if _, err = wlog.Checkpoint(h.logger, h.wal, first, last, h.keepSeriesInWALCheckpointFn(mint), mint, h.opts.EnableSTStorage.Load()); err != nil {", "	_ = h.wal.Truncate(last + 1)\n	if _, err = wlog.Checkpoint(h.logger, h.wal, first, last, h.keepSeriesInWALCheckpointFn(mint), mint, h.opts.EnableSTStorage.Load()); err != nil {", ["C03"]),
 ("reload-deletes-before-swap", "tsdb/db.go", "	// Swap new blocks first for subsequently created readers to be seen.\n	db.mtx.Lock()\n	oldBlocks := db.blocks\n	db.blocks = toLoad\n	db.mtx.Unlock()\n", "	// Swap new blocks first for subsequently created readers to be seen.\n	db.mtx.Lock()\n	oldBlocks := db.blocks\n	db.mtx.Unlock()\n	defer func() {\n		db.mtx.Lock()\n		db.blocks = toLoad\n		db.mtx.Unlock()\n	}()\n", ["C06"]),
 ("truncate-memory-no-reader-wait", "tsdb/head.go", "	if initialized {\n		h.WaitForPendingReadersInTimeRange(h.MinTime(), mint)\n	}", "	_ = initialized", ["C06"]),
]
def run(name,file,old,new,ids):
    wt="/tmp/wt-mut-"+name
    subprocess.run(["git","-C","/repo","worktree","remove","--force",wt],capture_output=True)
    subprocess.run(["git","-C","/repo","worktree","add","--detach",wt,"HEAD"],capture_output=True,check=True)
    try:
        p=os.path.join(wt,file); s=open(p).read()
        if s.count(old)<1:
            return [(i,"ANCHOR-NOT-FOUND",0) for i in ids]
        open(p,"w").write(s.replace(old,new,1))
        out=[]
        for i in ids:
            t0=time.time()
            r=subprocess.run(["./check",i],cwd=ROOT,env=dict(os.environ,VERIF_REPO=wt,VERIF_SEED="3"),capture_output=True,text=True)
            viol=[l for l in r.stdout.splitlines() if l.startswith("VIOLATION")]
            status="DETECTED" if r.returncode==1 and viol else ("inconclusive" if r.returncode==2 else "missed")
            out.append((i,status,time.time()-t0))
        return out
    finally:
        subprocess.run(["git","-C","/repo","worktree","remove","--force",wt],capture_output=True)
        for f in os.listdir(os.path.join(ROOT,".build")):
            if f.startswith("alt-"):
                pth=os.path.join(ROOT,".build",f)
                if os.path.isdir(pth) and f!="alt-evidence": shutil.rmtree(pth,ignore_errors=True)
                elif os.path.isfile(pth): os.remove(pth)
names=sys.argv[1:]
with open(os.path.join(ROOT,"sensitivity","auto.md"),"a") as f:
    for m in M:
        if names and m[0] not in names: continue
        res=run(*m)
        for i,st,dt in res:
            line="| %s | %s | `%s` | %s | %.0f s |\n"%(m[0],i,m[1],st,dt)
            f.write(line); f.flush(); print(line,end="")
