#!/bin/bash
# usage: tools/try_seed.sh <seed-dir-name> <check-id> [check-id...]
# applies seeded/<name>/patch.diff to a scratch worktree of /repo HEAD and runs the checks against it
cd "$(dirname "$0")/.."
name=$1; shift
wt=/tmp/wt-seed-$name
git -C /repo worktree remove --force $wt >/dev/null 2>&1
git -C /repo worktree add --detach $wt HEAD >/dev/null 2>&1 || exit 3
if ! git -C $wt apply --whitespace=nowarn $PWD/seeded/$name/patch.diff; then echo "PATCH DOES NOT APPLY"; git -C /repo worktree remove --force $wt; exit 3; fi
for id in "$@"; do
  s=$(date +%s)
  VERIF_REPO=$wt VERIF_SEED=${SEED:-5} ./check $id --tier ${TIER:-quick} > .logs/seed-$name-$id.out 2>&1
  rc=$?
  echo "$name $id rc=$rc $(( $(date +%s)-s ))s | $(grep -c '^VIOLATION' .logs/seed-$name-$id.out) violation lines | $(tail -1 .logs/seed-$name-$id.out)"
done
git -C /repo worktree remove --force $wt >/dev/null 2>&1
