// Package xxref is the harness-side reference for labels.StableHash: an XXH64 (seed 0)
// written from the xxHash specification, applied to name 0xff value 0xff ... in name order.
// It imports nothing from the repository under test.
package xxref

import (
	"encoding/binary"
	"math/bits"
	"sort"
)

var (
	xxP1 uint64 = 11400714785074694791
	xxP2 uint64 = 14029467366897019727
	xxP3 uint64 = 1609587929392839161
	xxP4 uint64 = 9650029242287828579
	xxP5 uint64 = 2870177450012600261
)

func xxRound(acc, in uint64) uint64 {
	acc += in * xxP2
	acc = bits.RotateLeft64(acc, 31)
	return acc * xxP1
}

func xxMerge(acc, v uint64) uint64 {
	acc ^= xxRound(0, v)
	return acc*xxP1 + xxP4
}

// XXH64 is the 64-bit xxHash with seed 0.
func XXH64(b []byte) uint64 {
	n := uint64(len(b))
	var h uint64
	if len(b) >= 32 {
		v1, v2, v3, v4 := xxP1+xxP2, xxP2, uint64(0), -xxP1
		for len(b) >= 32 {
			v1 = xxRound(v1, binary.LittleEndian.Uint64(b[0:8]))
			v2 = xxRound(v2, binary.LittleEndian.Uint64(b[8:16]))
			v3 = xxRound(v3, binary.LittleEndian.Uint64(b[16:24]))
			v4 = xxRound(v4, binary.LittleEndian.Uint64(b[24:32]))
			b = b[32:]
		}
		h = bits.RotateLeft64(v1, 1) + bits.RotateLeft64(v2, 7) + bits.RotateLeft64(v3, 12) + bits.RotateLeft64(v4, 18)
		h = xxMerge(h, v1)
		h = xxMerge(h, v2)
		h = xxMerge(h, v3)
		h = xxMerge(h, v4)
	} else {
		h = xxP5
	}
	h += n
	for len(b) >= 8 {
		h ^= xxRound(0, binary.LittleEndian.Uint64(b[:8]))
		h = bits.RotateLeft64(h, 27)*xxP1 + xxP4
		b = b[8:]
	}
	if len(b) >= 4 {
		h ^= uint64(binary.LittleEndian.Uint32(b[:4])) * xxP1
		h = bits.RotateLeft64(h, 23)*xxP2 + xxP3
		b = b[4:]
	}
	for _, c := range b {
		h ^= uint64(c) * xxP5
		h = bits.RotateLeft64(h, 11) * xxP1
	}
	h ^= h >> 33
	h *= xxP2
	h ^= h >> 29
	h *= xxP3
	h ^= h >> 32
	return h
}

// StableHash is the documented stable hash of a label set given as (name,value) pairs:
// XXH64 over the labels in name order, each name and each value followed by a 0xff byte.
func StableHash(l [][2]string) uint64 {
	c := append([][2]string(nil), l...)
	sort.Slice(c, func(i, j int) bool { return c[i][0] < c[j][0] })
	var b []byte
	for _, p := range c {
		b = append(b, p[0]...)
		b = append(b, 0xff)
		b = append(b, p[1]...)
		b = append(b, 0xff)
	}
	return XXH64(b)
}
