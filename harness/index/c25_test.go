package index

import (
	"bytes"
	"encoding/binary"
	"errors"
	"fmt"
	"os"
	"path/filepath"
	"runtime"
	"sort"
	"sync"
	"testing"
	"time"

	"github.com/prometheus/prometheus/tsdb/chunkenc"
	"github.com/prometheus/prometheus/tsdb/chunks"
	"pgregory.net/rapid"

	"verifharness/internal/ev"
)

// C25 — Head chunks on disk are readable at once and after restart.
//
// TestC25: generated sequences of WriteChunk / Chunk / CutNewFile / Truncate / close+reopen
// on a chunks.ChunkDiskMapper with and without the asynchronous write queue, against a
// list model of what was written. TestC25Torn: the newest head chunk file is torn at every
// offset (physically truncated, and zero-filled from the offset on) before a restart.

type c25Op struct {
	Op string // write | read | cut | truncate | reopen | drain
	// write
	Series uint64 `json:",omitempty"`
	Mint   int64  `json:",omitempty"`
	Maxt   int64  `json:",omitempty"`
	Enc    uint8  `json:",omitempty"`
	Len    int    `json:",omitempty"`
	Seed   uint32 `json:",omitempty"`
	OOO    bool   `json:",omitempty"`
	ReadAt int    `json:",omitempty"` // 0 none, 1 right after the write call, 2 after some yields, 3 after the queue drained
	Yields int    `json:",omitempty"`
	// read: which live chunk (from the newest backwards)
	Back int `json:",omitempty"`
	// truncate
	Pick  int  `json:",omitempty"`
	Drain bool `json:",omitempty"`
}

type c25Case struct {
	Queue int
	Ops   []c25Op
}

const c25BufSize = chunks.MinWriteBufferSize

func c25Data(seed uint32, n int) []byte {
	b := make([]byte, n)
	x := uint64(seed)*2862933555777941757 + 3037000493
	for i := range b {
		x = x*6364136223846793005 + 1442695040888963407
		b[i] = byte(x >> 56)
	}
	return b
}

func genC25Write(t *rapid.T) c25Op {
	op := c25Op{Op: "write"}
	op.Series = rapid.Uint64Range(1, 1<<40).Draw(t, "series")
	if rapid.IntRange(0, 3).Draw(t, "smallref") > 0 {
		op.Series = rapid.Uint64Range(1, 9).Draw(t, "seriessmall")
	}
	op.Mint = rapid.SampledFrom([]int64{0, 1, -5, 1000, 1_700_000_000_000, -(1 << 50)}).Draw(t, "mint")
	op.Maxt = op.Mint + int64(rapid.IntRange(0, 100000).Draw(t, "span"))
	op.Enc = uint8(rapid.IntRange(1, 6).Draw(t, "enc"))
	switch rapid.IntRange(0, 19).Draw(t, "lenclass") {
	case 0:
		op.Len = rapid.IntRange(120, 135).Draw(t, "len128")
	case 1:
		op.Len = rapid.IntRange(16378, 16390).Draw(t, "len16k")
	case 2:
		// at least as large as the write buffer: takes the flush-at-once path
		op.Len = c25BufSize - 40 + rapid.IntRange(0, 80).Draw(t, "lenbuf")
	default:
		// a chunk with one float sample is 11 bytes; smaller chunks do not exist
		op.Len = rapid.IntRange(11, 60).Draw(t, "len")
	}
	op.Seed = rapid.Uint32().Draw(t, "seed")
	op.OOO = rapid.IntRange(0, 3).Draw(t, "ooo") == 0
	op.ReadAt = rapid.SampledFrom([]int{0, 0, 1, 1, 1, 2, 3}).Draw(t, "readat")
	if op.ReadAt == 2 {
		op.Yields = rapid.IntRange(1, 50).Draw(t, "yields")
	}
	return op
}

func genC25(t *rapid.T) c25Case {
	c := c25Case{Queue: rapid.SampledFrom([]int{0, 0, 1, 4, 1000}).Draw(t, "queue")}
	n := rapid.IntRange(3, 40).Draw(t, "nops")
	for i := 0; i < n; i++ {
		switch rapid.IntRange(0, 19).Draw(t, "opclass") {
		case 0, 1:
			c.Ops = append(c.Ops, c25Op{Op: "cut"})
		case 2, 3:
			c.Ops = append(c.Ops, c25Op{Op: "truncate", Pick: rapid.IntRange(0, 20).Draw(t, "pick"), Drain: rapid.IntRange(0, 2).Draw(t, "drainfirst") > 0})
		case 4:
			c.Ops = append(c.Ops, c25Op{Op: "reopen"})
		case 5:
			c.Ops = append(c.Ops, c25Op{Op: "drain"})
		case 6, 7, 8, 9:
			c.Ops = append(c.Ops, c25Op{Op: "read", Back: rapid.SampledFrom([]int{0, 0, 0, 1, 2, 5, 17}).Draw(t, "back")})
		case 10:
			// a burst of writes without reads, then a read of the newest
			k := rapid.IntRange(3, 12).Draw(t, "burst")
			for j := 0; j < k; j++ {
				w := genC25Write(t)
				w.ReadAt = 0
				c.Ops = append(c.Ops, w)
			}
			c.Ops = append(c.Ops, c25Op{Op: "read", Back: rapid.IntRange(0, 2).Draw(t, "burstback")})
		default:
			c.Ops = append(c.Ops, genC25Write(t))
		}
	}
	return c
}

// ---- model ----

type c25Chunk struct {
	ref    chunks.ChunkDiskMapperRef
	series uint64
	mint   int64
	maxt   int64
	enc    chunkenc.Encoding
	ooo    bool
	data   []byte
	seq    int
	off    int
	size   int
}

func c25RecordSize(n int) int {
	var b [binary.MaxVarintLen64]byte
	return 8 + 8 + 8 + 1 + binary.PutUvarint(b[:], uint64(n)) + n + 4
}

type c25Model struct {
	files   map[int][]*c25Chunk // chunks of the files still on disk, in write order
	lastSeq int                 // sequence the next write continues or follows
	lastEnd int                 // end offset of the last chunk written through this mapper instance
	cur     int                 // file being written by this mapper instance, 0 before its first write
	mustCut bool
	mayCut  bool
}

func (m *c25Model) live() []*c25Chunk {
	seqs := make([]int, 0, len(m.files))
	for s := range m.files {
		seqs = append(seqs, s)
	}
	sort.Ints(seqs)
	var out []*c25Chunk
	for _, s := range seqs {
		out = append(out, m.files[s]...)
	}
	return out
}

type c25Iter struct {
	series uint64
	ref    chunks.ChunkDiskMapperRef
	mint   int64
	maxt   int64
	n      uint16
	enc    chunkenc.Encoding
	ooo    bool
}

func c25Iterate(m *chunks.ChunkDiskMapper) ([]c25Iter, error) {
	var out []c25Iter
	err := m.IterateAllChunks(func(seriesRef chunks.HeadSeriesRef, chunkRef chunks.ChunkDiskMapperRef, mint, maxt int64, numSamples uint16, encoding chunkenc.Encoding, isOOO bool) error {
		out = append(out, c25Iter{uint64(seriesRef), chunkRef, mint, maxt, numSamples, encoding, isOOO})
		return nil
	})
	return out, err
}

func (c *c25Chunk) asIter() c25Iter {
	return c25Iter{c.series, c.ref, c.mint, c.maxt, binary.BigEndian.Uint16(c.data[:2]), c.enc, c.ooo}
}

func c25CompareIter(got []c25Iter, want []*c25Chunk, what string) error {
	for i := 0; i < len(got) && i < len(want); i++ {
		if got[i] != want[i].asIter() {
			return ev.Failf("%s: iteration entry %d is %+v, written %+v", what, i, got[i], want[i].asIter())
		}
	}
	if len(got) != len(want) {
		return ev.Failf("%s: iteration yields %d chunks, %d complete chunks are in the retained files", what, len(got), len(want))
	}
	return nil
}

func c25ReadCheck(m *chunks.ChunkDiskMapper, c *c25Chunk, when string) error {
	got, err := m.Chunk(c.ref)
	if err != nil {
		return ev.Failf("Chunk(file %d offset %d) %s: error %v (chunk of %d bytes, series %d)", c.seq, c.off, when, err, len(c.data), c.series)
	}
	if got.Encoding() != c.enc || !bytes.Equal(got.Bytes(), c.data) {
		gb := got.Bytes()
		if len(gb) > 64 {
			gb = gb[:64]
		}
		wb := c.data
		if len(wb) > 64 {
			wb = wb[:64]
		}
		return ev.Failf("Chunk(file %d offset %d) %s: got encoding %v, %d bytes %x..., written encoding %v, %d bytes %x...", c.seq, c.off, when, got.Encoding(), len(got.Bytes()), gb, c.enc, len(c.data), wb)
	}
	return nil
}

func c25Drain(m *chunks.ChunkDiskMapper) bool {
	for i := 0; i < 400000; i++ {
		if m.IsQueueEmpty() {
			return true
		}
		runtime.Gosched()
		if i%64 == 63 {
			time.Sleep(50 * time.Microsecond)
		}
	}
	return false
}

type c25Errs struct {
	mu   sync.Mutex
	errs []error
}

func (e *c25Errs) add(err error) {
	if err != nil {
		e.mu.Lock()
		e.errs = append(e.errs, err)
		e.mu.Unlock()
	}
}

func (e *c25Errs) first() error {
	e.mu.Lock()
	defer e.mu.Unlock()
	if len(e.errs) > 0 {
		return e.errs[0]
	}
	return nil
}

func runC25(c c25Case, r *ev.Rec) error {
	dir, err := os.MkdirTemp("", "c25")
	if err != nil {
		return err
	}
	defer os.RemoveAll(dir)
	open := func() (*chunks.ChunkDiskMapper, error) {
		return chunks.NewChunkDiskMapper(nil, dir, chunkenc.NewPool(), c25BufSize, c.Queue)
	}
	m, err := open()
	if err != nil {
		return ev.Failf("NewChunkDiskMapper on an empty dir: %v", err)
	}
	closed := false
	defer func() {
		if !closed {
			m.Close()
		}
	}()
	if got, err := c25Iterate(m); err != nil || len(got) != 0 {
		return ev.Failf("IterateAllChunks on an empty dir: %v, %v", got, err)
	}
	if c.Queue > 0 {
		r.Class("queue:on")
	} else {
		r.Class("queue:off")
	}
	mod := &c25Model{files: map[int][]*c25Chunk{}}
	cbErrs := &c25Errs{}
	drainedKnown := true
	readWhileQueued := false
	interesting := false
	drainOrDiscard := func() bool {
		if c.Queue == 0 || drainedKnown {
			return true
		}
		if !c25Drain(m) {
			return false
		}
		drainedKnown = true
		return true
	}
	for oi, op := range c.Ops {
		switch op.Op {
		case "write":
			data := c25Data(op.Seed, op.Len)
			chk, err := chunkenc.FromData(chunkenc.Encoding(op.Enc), data)
			if err != nil {
				return err
			}
			ref := m.WriteChunk(chunks.HeadSeriesRef(op.Series), op.Mint, op.Maxt, chk, op.OOO, cbErrs.add)
			drainedKnown = c.Queue == 0
			seq, off := ref.Unpack()
			cutOK := seq == mod.lastSeq+1 && off == chunks.HeadChunkFileHeaderSize
			contOK := mod.cur != 0 && seq == mod.lastSeq && off == mod.lastEnd
			switch {
			case mod.mustCut || mod.cur == 0:
				if !cutOK {
					return ev.Failf("op %d: WriteChunk returned ref file %d offset %d; a new file %d at offset %d was due (first write after open, CutNewFile or Truncate)", oi, seq, off, mod.lastSeq+1, chunks.HeadChunkFileHeaderSize)
				}
			case mod.mayCut:
				if !cutOK && !contOK {
					return ev.Failf("op %d: WriteChunk returned ref file %d offset %d; expected file %d offset %d or a new file %d", oi, seq, off, mod.lastSeq, mod.lastEnd, mod.lastSeq+1)
				}
			default:
				if !contOK {
					return ev.Failf("op %d: WriteChunk returned ref file %d offset %d; expected file %d offset %d (previous chunk end)", oi, seq, off, mod.lastSeq, mod.lastEnd)
				}
			}
			mod.mustCut, mod.mayCut = false, false
			mc := &c25Chunk{ref: ref, series: op.Series, mint: op.Mint, maxt: op.Maxt, enc: chunkenc.Encoding(op.Enc), ooo: op.OOO, data: data, seq: seq, off: off, size: c25RecordSize(len(data))}
			mod.files[seq] = append(mod.files[seq], mc)
			mod.lastSeq, mod.cur, mod.lastEnd = seq, seq, off+mc.size
			if op.Len+chunks.MaxHeadChunkMetaSize >= c25BufSize {
				r.Class("write:chunk>=buffer")
			}
			switch op.ReadAt {
			case 1:
				before := !m.IsQueueEmpty()
				if err := c25ReadCheck(m, mc, "right after WriteChunk returned"); err != nil {
					return err
				}
				if before && !m.IsQueueEmpty() {
					readWhileQueued = true
					r.Class("read:while-queue-nonempty")
				}
			case 2:
				for i := 0; i < op.Yields; i++ {
					runtime.Gosched()
				}
				before := !m.IsQueueEmpty()
				if err := c25ReadCheck(m, mc, fmt.Sprintf("%d yields after WriteChunk returned", op.Yields)); err != nil {
					return err
				}
				if before && !m.IsQueueEmpty() {
					readWhileQueued = true
					r.Class("read:while-queue-nonempty")
				}
			case 3:
				if !drainOrDiscard() {
					r.Discard()
					return nil
				}
				if err := c25ReadCheck(m, mc, "after the write queue drained"); err != nil {
					return err
				}
			}
		case "read":
			lv := mod.live()
			if len(lv) == 0 {
				continue
			}
			mc := lv[len(lv)-1-op.Back%len(lv)]
			before := !m.IsQueueEmpty()
			if err := c25ReadCheck(m, mc, fmt.Sprintf("(op %d, %d chunks back)", oi, op.Back%len(lv))); err != nil {
				return err
			}
			if before && !m.IsQueueEmpty() {
				readWhileQueued = true
				r.Class("read:while-queue-nonempty")
			}
		case "cut":
			m.CutNewFile()
			mod.mustCut = true
		case "drain":
			if !drainOrDiscard() {
				r.Discard()
				return nil
			}
			if err := cbErrs.first(); err != nil {
				return ev.Failf("op %d: a chunk write reported an error through its callback: %v", oi, err)
			}
		case "truncate":
			deterministic := c.Queue == 0 || drainedKnown
			if !deterministic && op.Drain {
				if !drainOrDiscard() {
					r.Discard()
					return nil
				}
				deterministic = true
			}
			var fileNo int
			if deterministic {
				cands := []int{0, mod.cur, mod.cur + 1, mod.lastSeq + 5}
				for s := range mod.files {
					cands = append(cands, s)
				}
				sort.Ints(cands)
				fileNo = cands[op.Pick%len(cands)]
			} else {
				// the queue may still hold writes: nothing is known about how far the writer got, so
				// only ask for what is certainly older than every pending chunk
				fileNo = 0
				r.Class("truncate:while-queue-unknown")
			}
			if err := m.Truncate(uint32(fileNo)); err != nil {
				return ev.Failf("op %d: Truncate(%d): %v", oi, fileNo, err)
			}
			removed := 0
			for s := range mod.files {
				if s < fileNo && s != mod.cur {
					delete(mod.files, s)
					removed++
				}
			}
			if removed > 0 {
				r.Class("truncate:removed-files")
			}
			if len(mod.files) > 0 {
				interesting = true
			}
			if deterministic {
				if mod.cur != 0 {
					mod.mustCut = true
				} else if len(mod.files) == 0 {
					mod.lastSeq = 0
				}
			} else {
				mod.mayCut = true
			}
			// everything the model still holds must be readable, in particular the current file
			for _, mc := range mod.live() {
				if err := c25ReadCheck(m, mc, fmt.Sprintf("after Truncate(%d) (current file %d)", fileNo, mod.cur)); err != nil {
					return err
				}
			}
		case "reopen":
			// Close must flush everything that was accepted, drained or not.
			if err := m.Close(); err != nil {
				return ev.Failf("op %d: Close: %v", oi, err)
			}
			if err := cbErrs.first(); err != nil {
				return ev.Failf("op %d: a chunk write reported an error through its callback: %v", oi, err)
			}
			m, err = open()
			if err != nil {
				closed = true
				return ev.Failf("op %d: reopening the mapper: %v", oi, err)
			}
			drainedKnown = true
			got, err := c25Iterate(m)
			if err != nil {
				return ev.Failf("op %d: IterateAllChunks after reopen: %v", oi, err)
			}
			lv := mod.live()
			if err := c25CompareIter(got, lv, fmt.Sprintf("op %d (after reopen)", oi)); err != nil {
				return err
			}
			for _, mc := range lv {
				if err := c25ReadCheck(m, mc, "after reopen"); err != nil {
					return err
				}
			}
			mod.cur, mod.lastEnd, mod.mustCut, mod.mayCut = 0, 0, false, false
			mod.lastSeq = 0
			for s := range mod.files {
				if s > mod.lastSeq {
					mod.lastSeq = s
				}
			}
			if len(mod.files) >= 2 {
				interesting = true
			}
			r.Class("reopen")
		}
	}
	// final pass: every retained chunk readable now, and after a restart
	for _, mc := range mod.live() {
		if err := c25ReadCheck(m, mc, "at the end of the sequence"); err != nil {
			return err
		}
	}
	closed = true
	if err := m.Close(); err != nil {
		return ev.Failf("final Close: %v", err)
	}
	if err := cbErrs.first(); err != nil {
		return ev.Failf("a chunk write reported an error through its callback: %v", err)
	}
	m2, err := open()
	if err != nil {
		return ev.Failf("final reopen: %v", err)
	}
	defer m2.Close()
	got, err := c25Iterate(m2)
	if err != nil {
		return ev.Failf("IterateAllChunks after the final reopen: %v", err)
	}
	lv := mod.live()
	if err := c25CompareIter(got, lv, "final reopen"); err != nil {
		return err
	}
	for _, mc := range lv {
		if err := c25ReadCheck(m2, mc, "after the final reopen"); err != nil {
			return err
		}
	}
	// the files on disk are exactly the model's
	es, _ := os.ReadDir(dir)
	if len(es) != len(mod.files) {
		var names []string
		for _, e := range es {
			names = append(names, e.Name())
		}
		return ev.Failf("files on disk %v, model expects %d files", names, len(mod.files))
	}
	if readWhileQueued || (c.Queue == 0 && interesting && len(mod.files) >= 1) {
		r.NonTrivial()
	}
	return nil
}

func TestC25(t *testing.T) {
	ev.Check(t, "C25",
		"3-40 operations on a chunks.ChunkDiskMapper (write buffer 64 KiB, write queue size 0/1/4/1000): WriteChunk of opaque chunk data (11-60 bytes mostly, 120-135, ~16 KiB, ~64 KiB = write buffer; all six encodings; OOO flag; series refs >= 1) with a read placed right after the call, after 1-50 yields, after the queue drained, or not at all; bursts of 3-12 writes followed by a read; reads of older chunks; CutNewFile; Truncate(fileNo) with fileNo below, at and above the existing files (after draining, or fileNo 0 while the queue state is unknown); drain; close+reopen with IterateAllChunks. Model: list of written chunks per file from the returned refs (offsets recomputed from the documented record layout). Every read must return the written bytes/encoding; iteration after restart must yield exactly the chunks of the retained files in write order with series, min/max time, sample count, encoding and OOO flag; Truncate must keep the current file and everything >= fileNo; directory content must match. Non-trivial: a read overlapped a non-empty write queue, or (queue off) a truncate/reopen happened with chunks retained; distinct by hash of the case.",
		genC25, runC25)
}

// ---- torn tails ----

type c25TornCase struct {
	Queue  int
	Writes []c25Op // write and cut ops only
	Every  int     // tear at every Every-th offset (1 = all offsets), starting at Phase
	Phase  int
}

func genC25Torn(t *rapid.T) c25TornCase {
	c := c25TornCase{Queue: rapid.SampledFrom([]int{0, 0, 4}).Draw(t, "queue"), Every: 1}
	if !ev.Thorough() {
		// quick tier: a drawn residue class of offsets; the thorough tier visits every offset
		c.Every = rapid.SampledFrom([]int{5, 7, 11}).Draw(t, "every")
		c.Phase = rapid.IntRange(0, c.Every-1).Draw(t, "phase")
	}
	older := rapid.IntRange(0, 2).Draw(t, "olderfiles")
	for f := 0; f <= older; f++ {
		if f > 0 {
			c.Writes = append(c.Writes, c25Op{Op: "cut"})
		}
		k := rapid.IntRange(1, 4).Draw(t, "chunksinfile")
		for j := 0; j < k; j++ {
			w := genC25Write(t)
			w.ReadAt = 0
			if w.Len > 200 {
				w.Len = 11 + w.Len%120
			}
			c.Writes = append(c.Writes, w)
		}
	}
	return c
}

func runC25Torn(c c25TornCase, r *ev.Rec) error {
	dir, err := os.MkdirTemp("", "c25t")
	if err != nil {
		return err
	}
	defer os.RemoveAll(dir)
	open := func() (*chunks.ChunkDiskMapper, error) {
		return chunks.NewChunkDiskMapper(nil, dir, chunkenc.NewPool(), c25BufSize, c.Queue)
	}
	m, err := open()
	if err != nil {
		return ev.Failf("NewChunkDiskMapper: %v", err)
	}
	if _, err := c25Iterate(m); err != nil {
		m.Close()
		return ev.Failf("IterateAllChunks on an empty dir: %v", err)
	}
	files := map[int][]*c25Chunk{}
	cbErrs := &c25Errs{}
	for _, op := range c.Writes {
		if op.Op == "cut" {
			m.CutNewFile()
			continue
		}
		data := c25Data(op.Seed, op.Len)
		chk, _ := chunkenc.FromData(chunkenc.Encoding(op.Enc), data)
		ref := m.WriteChunk(chunks.HeadSeriesRef(op.Series), op.Mint, op.Maxt, chk, op.OOO, cbErrs.add)
		seq, off := ref.Unpack()
		files[seq] = append(files[seq], &c25Chunk{ref: ref, series: op.Series, mint: op.Mint, maxt: op.Maxt, enc: chunkenc.Encoding(op.Enc), ooo: op.OOO, data: data, seq: seq, off: off, size: c25RecordSize(len(data))})
	}
	if err := m.Close(); err != nil {
		return ev.Failf("Close: %v", err)
	}
	if err := cbErrs.first(); err != nil {
		return ev.Failf("write callback error: %v", err)
	}
	newest := 0
	for s := range files {
		if s > newest {
			newest = s
		}
	}
	var older []*c25Chunk
	for s := 1; s < newest; s++ {
		older = append(older, files[s]...)
	}
	tail := files[newest]
	path := filepath.Join(dir, fmt.Sprintf("%06d", newest))
	orig, err := os.ReadFile(path)
	if err != nil {
		return err
	}
	dataEnd := tail[len(tail)-1].off + tail[len(tail)-1].size
	if dataEnd > len(orig) {
		return ev.Failf("newest file has %d bytes, the model expects data up to %d", len(orig), dataEnd)
	}
	// sanity: the records are where the model says
	for _, mc := range tail {
		if binary.BigEndian.Uint64(orig[mc.off:]) != mc.series {
			return ev.Failf("record at offset %d of file %d does not start with series ref %d", mc.off, newest, mc.series)
		}
	}
	r.Class(fmt.Sprintf("older-files:%d", newest-1))
	trials, insideChunk := 0, 0
	if c.Every < 1 {
		c.Every = 1
	}
	if c.Every == 1 {
		r.Class("torn:every-offset")
	}
	restore := func() error {
		f, err := os.OpenFile(path, os.O_RDWR, 0)
		if err != nil {
			return os.WriteFile(path, orig, 0o666)
		}
		defer f.Close()
		if _, err := f.WriteAt(orig[:dataEnd], 0); err != nil {
			return err
		}
		return f.Truncate(int64(len(orig)))
	}
	for _, variant := range []string{"truncate", "zero"} {
		for k := 0; k <= dataEnd; k++ {
			// record boundaries and their neighbours are always visited
			boundary := k <= chunks.HeadChunkFileHeaderSize
			for _, mc := range tail {
				if d := k - mc.off; d >= -1 && d <= 1 {
					boundary = true
				}
				if d := k - (mc.off + mc.size); d >= -5 && d <= 1 {
					boundary = true
				}
			}
			if !boundary && k%c.Every != c.Phase%c.Every {
				continue
			}
			// build the torn file
			if err := restore(); err != nil {
				return err
			}
			var torn []byte
			if variant == "truncate" {
				if err := os.Truncate(path, int64(k)); err != nil {
					return err
				}
				torn = orig[:k]
			} else {
				f, err := os.OpenFile(path, os.O_RDWR, 0)
				if err != nil {
					return err
				}
				_, werr := f.WriteAt(make([]byte, dataEnd-k), int64(k))
				f.Close()
				if werr != nil {
					return werr
				}
				torn = append(append([]byte(nil), orig[:k]...), make([]byte, dataEnd-k)...)
			}
			// which chunks of the newest file are still complete
			intact := 0
			for _, mc := range tail {
				if mc.off+mc.size <= len(torn) && bytes.Equal(torn[mc.off:mc.off+mc.size], orig[mc.off:mc.off+mc.size]) {
					intact++
				} else {
					break
				}
			}
			inside := false
			for _, mc := range tail {
				if k > mc.off && k < mc.off+mc.size {
					inside = true
				}
			}
			trials++
			if inside {
				insideChunk++
			}
			what := fmt.Sprintf("newest file %d (%d chunks, data end %d) %s at offset %d", newest, len(tail), dataEnd, map[string]string{"truncate": "truncated", "zero": "zero-filled"}[variant], k)
			if err := c25TornTrial(open, dir, path, newest, older, tail, intact, k, trials%8 == 0, what, r); err != nil {
				return err
			}
			// later trials start from a clean directory state
			es, _ := os.ReadDir(dir)
			for _, e := range es {
				var s int
				fmt.Sscanf(e.Name(), "%d", &s)
				if s > newest {
					os.Remove(filepath.Join(dir, e.Name()))
				}
			}
		}
	}
	r.Count("torn-trials", trials)
	r.Count("torn-inside-chunk", insideChunk)
	if insideChunk > 0 {
		r.NonTrivial()
	}
	return nil
}

func c25TornTrial(open func() (*chunks.ChunkDiskMapper, error), dir, path string, newest int, older, tail []*c25Chunk, intact, k int, writeAfter bool, what string, r *ev.Rec) error {
	m, err := open()
	if err != nil {
		if k < chunks.HeadChunkFileHeaderSize {
			// the 8-byte file header itself is torn: the mapper refuses to start; nothing is
			// returned as data. (Counted, see the sensitivity notes.)
			r.Class("torn:header-torn-open-refused")
			return nil
		}
		return ev.Failf("%s: the mapper does not start: %v", what, err)
	}
	defer func() { m.Close() }()
	got, ierr := c25Iterate(m)
	want := append(append([]*c25Chunk{}, older...), tail[:intact]...)
	fileGone := false
	if _, serr := os.Stat(path); serr != nil {
		fileGone = true // removed by the last-file repair (shorter than the magic number / magic zero)
		want = older
	}
	if ierr == nil {
		r.Class("torn:clean-prefix")
		if err := c25CompareIter(got, want, what+": restart iteration without error"); err != nil {
			return err
		}
	} else {
		var cerr *chunks.CorruptionErr
		if !errors.As(ierr, &cerr) {
			return ev.Failf("%s: iteration failed with a non-corruption error %v", what, ierr)
		}
		if cerr.FileIndex != newest {
			return ev.Failf("%s: corruption reported for file %d", what, cerr.FileIndex)
		}
		r.Class("torn:corruption-reported")
		// everything yielded before the error must be the complete-chunk prefix
		if err := c25CompareIter(got, want, what+": chunks yielded before the corruption error"); err != nil {
			return err
		}
		// the head's repair: drop the corrupt file, iterate again
		if err := m.DeleteCorrupted(ierr); err != nil {
			return ev.Failf("%s: DeleteCorrupted: %v", what, err)
		}
		got2, err2 := c25Iterate(m)
		if err2 != nil {
			return ev.Failf("%s: iteration after DeleteCorrupted still fails: %v", what, err2)
		}
		if err := c25CompareIter(got2, older, what+": iteration after DeleteCorrupted"); err != nil {
			return err
		}
		want = older
		fileGone = true
	}
	for _, mc := range want {
		if err := c25ReadCheck(m, mc, what+": after restart"); err != nil {
			return err
		}
	}
	if !writeAfter {
		return nil
	}
	// the mapper must be usable: a new chunk goes to a fresh file and survives another restart
	data := c25Data(uint32(k)+7, 23)
	chk, _ := chunkenc.FromData(chunkenc.EncXOR, data)
	errs := &c25Errs{}
	ref := m.WriteChunk(77, 5, 9, chk, false, errs.add)
	seq, off := ref.Unpack()
	wantSeq := newest + 1
	if fileGone {
		wantSeq = newest
	}
	if seq != wantSeq || off != chunks.HeadChunkFileHeaderSize {
		return ev.Failf("%s: first write after restart got ref file %d offset %d, want file %d offset %d", what, seq, off, wantSeq, chunks.HeadChunkFileHeaderSize)
	}
	nc := &c25Chunk{ref: ref, series: 77, mint: 5, maxt: 9, enc: chunkenc.EncXOR, data: data, seq: seq, off: off, size: c25RecordSize(len(data))}
	if err := c25ReadCheck(m, nc, what+": chunk written after restart"); err != nil {
		return err
	}
	if err := m.Close(); err != nil {
		return ev.Failf("%s: Close after writing: %v", what, err)
	}
	if err := errs.first(); err != nil {
		return ev.Failf("%s: write after restart failed: %v", what, err)
	}
	m2, err := open()
	if err != nil {
		return ev.Failf("%s: second restart: %v", what, err)
	}
	m = m2
	got3, err := c25Iterate(m2)
	if err != nil {
		return ev.Failf("%s: iteration after the second restart: %v", what, err)
	}
	return c25CompareIter(got3, append(append([]*c25Chunk{}, want...), nc), what+": second restart")
}

func TestC25Torn(t *testing.T) {
	ev.Check(t, "C25",
		"1-3 head chunk files with 1-4 chunks each (11-200 byte chunks) written through the mapper and closed; the newest file is then torn at offsets from 0 to the end of its data (thorough tier: every offset; quick tier: the file header, every record boundary with its neighbours and the CRC bytes, plus a drawn residue class mod 5/7/11), once by physical truncation and once by zero-filling from the offset (file size kept, as after a crash with preallocation); for every torn state: reopen, IterateAllChunks, and when corruption is reported DeleteCorrupted + iterate again; every 8th state additionally write a chunk, close, reopen, iterate. Iteration must yield exactly the chunks of the older files plus the byte-identical complete-chunk prefix of the torn file (before any corruption error), the error must name the torn file, and the mapper must be usable afterwards. Non-trivial: at least one offset strictly inside a chunk record (all cases have them); counters give the number of torn states; distinct by hash of the case.",
		genC25Torn, runC25Torn, ev.Opts{Part: "torn"})
}
