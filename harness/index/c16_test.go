package index

import (
	"context"
	"math"
	"regexp"
	"sort"
	"strconv"
	"strings"
	"testing"

	"github.com/prometheus/prometheus/model/labels"
	"github.com/prometheus/prometheus/storage"
	"pgregory.net/rapid"

	"verifharness/internal/ev"
	"verifharness/internal/gen"
)

// C16 — Series selection and label queries follow matcher semantics.
//
// Oracle: brute force over the generated label sets with stdlib regexp; nothing of
// labels.Matcher / FastRegexMatcher is used to decide what matches.

type c16Matcher struct {
	T int // 0 "=", 1 "!=", 2 "=~", 3 "!~"
	N string
	V string
}

type c16Query struct {
	Kind   string // select | names | values
	Name   string `json:",omitempty"` // label name for "values"
	M      []c16Matcher
	Sort   bool
	Hints  string `json:",omitempty"` // select only: "" (nil hints) | range | series
	Mint   int64
	Maxt   int64
	Limit  int  `json:",omitempty"` // names/values only; 0 = no limit
	AllRng bool // informational: the range covers every stored sample
}

type c16Case struct {
	Store   ixStore
	Queries []c16Query
}

var c16Regexes = []string{
	"", ".*", ".+", "a|b", "a|b|ab", "ab|abc|0", "a.*", ".*b", ".*b.*", "a.b", "a\\.b", "[ab]+", "a?", "(a|b)?",
	"|a", "a|", "ü", ".", "..", "x y", "(?i)a", "[^a]", "[^a]*", " ", "a+", ".*a.*|0", "\\d", "u.*", "u\\d+",
	"(?i:ab)", "a|A", ".*\\s.*", "ü|0| ", "ab", "abc", "0", "A", "b", "a",
}

var c16EqValues = append(append([]string{}, ixValues...), "", "", "nope", "u3", "u7")
var c16MatcherNames = append(append([]string{}, ixNames...), "zz")

func genC16Matchers(t *rapid.T, lo, hi int) []c16Matcher {
	n := rapid.IntRange(lo, hi).Draw(t, "nmatchers")
	var out []c16Matcher
	for i := 0; i < n; i++ {
		var m c16Matcher
		if i > 0 && rapid.IntRange(0, 2).Draw(t, "samename") == 0 {
			m.N = out[i-1].N
		} else {
			m.N = rapid.SampledFrom(c16MatcherNames).Draw(t, "mname")
		}
		m.T = rapid.IntRange(0, 3).Draw(t, "mtype")
		if m.T < 2 {
			m.V = rapid.SampledFrom(c16EqValues).Draw(t, "mvalue")
		} else {
			m.V = rapid.SampledFrom(c16Regexes).Draw(t, "mregex")
		}
		out = append(out, m)
	}
	return out
}

func genRange(t *rapid.T) (int64, int64, bool) {
	switch rapid.IntRange(0, 5).Draw(t, "rangeclass") {
	case 0, 1:
		return 0, ixMaxT, true
	case 2:
		return math.MinInt64, math.MaxInt64, true
	case 3:
		a := int64(rapid.IntRange(-10, ixMaxT+100).Draw(t, "point"))
		return a, a, false
	default:
		a := int64(rapid.IntRange(-10, ixMaxT+100).Draw(t, "mint"))
		b := int64(rapid.IntRange(-10, ixMaxT+100).Draw(t, "maxt"))
		if a > b {
			a, b = b, a
		}
		return a, b, a <= 0 && b >= ixMaxT-1
	}
}

func genC16(t *rapid.T) c16Case {
	c := c16Case{Store: genIxStore(t)}
	nq := rapid.IntRange(5, 25).Draw(t, "nqueries")
	for i := 0; i < nq; i++ {
		var q c16Query
		q.Kind = rapid.SampledFrom([]string{"select", "select", "names", "values"}).Draw(t, "kind")
		q.Mint, q.Maxt, q.AllRng = genRange(t)
		switch q.Kind {
		case "select":
			q.M = genC16Matchers(t, 1, 4)
			q.Sort = rapid.Bool().Draw(t, "sort")
			q.Hints = rapid.SampledFrom([]string{"", "range", "series"}).Draw(t, "hints")
		default:
			q.M = genC16Matchers(t, 0, 3)
			if q.Kind == "values" {
				q.Name = rapid.SampledFrom(c16MatcherNames).Draw(t, "lvname")
			}
			if rapid.Bool().Draw(t, "limited") {
				q.Limit = rapid.IntRange(1, 5).Draw(t, "limit")
			}
		}
		c.Queries = append(c.Queries, q)
	}
	return c
}

var c16reCache = map[string]*regexp.Regexp{}

func c16re(v string) *regexp.Regexp {
	if re, ok := c16reCache[v]; ok {
		return re
	}
	re := regexp.MustCompile("^(?s:" + v + ")$")
	c16reCache[v] = re
	return re
}

// refMatch is the documented matcher semantics on one label value ("" for an absent label).
func (m c16Matcher) refMatch(v string) bool {
	switch m.T {
	case 0:
		return v == m.V
	case 1:
		return v != m.V
	case 2:
		return c16re(m.V).MatchString(v)
	default:
		return !c16re(m.V).MatchString(v)
	}
}

func (m c16Matcher) String() string {
	return m.N + []string{"=", "!=", "=~", "!~"}[m.T] + "\"" + m.V + "\""
}

func refMatchAll(ms []c16Matcher, l gen.Lset) bool {
	mp := l.Map()
	for _, m := range ms {
		if !m.refMatch(mp[m.N]) {
			return false
		}
	}
	return true
}

func realMatchers(ms []c16Matcher) []*labels.Matcher {
	out := make([]*labels.Matcher, 0, len(ms))
	for _, m := range ms {
		out = append(out, labels.MustNewMatcher(labels.MatchType(m.T), m.N, m.V))
	}
	return out
}

func fmtMatchers(ms []c16Matcher) string {
	var s []string
	for _, m := range ms {
		s = append(s, m.String())
	}
	return "{" + strings.Join(s, ",") + "}"
}

func strictlySorted(s []string) bool {
	for i := 1; i < len(s); i++ {
		if s[i-1] >= s[i] {
			return false
		}
	}
	return true
}

func setOf(s []string) map[string]bool {
	m := map[string]bool{}
	for _, x := range s {
		m[x] = true
	}
	return m
}

func sortedKeys(m map[string]bool) []string {
	out := make([]string, 0, len(m))
	for k := range m {
		out = append(out, k)
	}
	sort.Strings(out)
	return out
}

func interestingMatcher(ms []c16Matcher) bool {
	for _, m := range ms {
		if m.T == 1 || m.T == 3 || m.refMatch("") {
			return true
		}
	}
	return false
}

func runC16(c c16Case, r *ev.Rec) error {
	db, cleanup, err := openIxStore(c.Store, false)
	if err != nil {
		return ev.Failf("building the store failed: %v", err)
	}
	defer cleanup()
	r.Class("layout:" + c.Store.layout())
	if c.Store.Reopen {
		r.Class("reopened")
	}
	ctx := context.Background()
	nontrivial := false
	for qi, q := range c.Queries {
		r.Class("q:" + q.Kind)
		names := map[string]bool{}
		for _, m := range q.M {
			if names[m.N] {
				r.Class("dup-name-matchers")
				break
			}
			names[m.N] = true
		}
		querier, err := db.Querier(q.Mint, q.Maxt)
		if err != nil {
			return ev.Failf("query %d: Querier(%d,%d): %v", qi, q.Mint, q.Maxt, err)
		}
		verr := func() error {
			switch q.Kind {
			case "select":
				return c16Select(c, q, qi, querier, ctx, r, &nontrivial)
			default:
				return c16Labels(c, q, qi, querier, ctx, r, &nontrivial)
			}
		}()
		if cerr := querier.Close(); cerr != nil && verr == nil {
			verr = ev.Failf("query %d: querier close: %v", qi, cerr)
		}
		if verr != nil {
			return verr
		}
	}
	if nontrivial {
		r.NonTrivial()
	}
	return nil
}

func c16Select(c c16Case, q c16Query, qi int, querier storage.Querier, ctx context.Context, r *ev.Rec, nontrivial *bool) error {
	upper := map[string]bool{}
	lower := map[string]bool{}
	for _, s := range c.Store.Series {
		if refMatchAll(q.M, s.L) {
			upper[s.L.Key()] = true
			if hasSampleIn(s, q.Mint, q.Maxt) {
				lower[s.L.Key()] = true
			}
		}
	}
	var hints *storage.SelectHints
	switch q.Hints {
	case "range":
		hints = &storage.SelectHints{Start: q.Mint, End: q.Maxt}
	case "series":
		hints = &storage.SelectHints{Start: q.Mint, End: q.Maxt, Func: "series"}
	}
	got, err := drainSeriesSet(querier.Select(ctx, q.Sort, hints, realMatchers(q.M)...))
	desc := func() string {
		return "query " + itoa(qi) + " Select" + fmtMatchers(q.M) + " range [" + i64(q.Mint) + "," + i64(q.Maxt) + "] sort=" + b2s(q.Sort) + " hints=" + q.Hints + " layout=" + c.Store.layout()
	}
	if err != nil {
		return ev.Failf("%s: error %v", desc(), err)
	}
	seen := map[string]bool{}
	for i, l := range got {
		k := l.Key()
		if seen[k] {
			return ev.Failf("%s: series %v returned twice", desc(), l)
		}
		seen[k] = true
		if !upper[k] {
			return ev.Failf("%s: returned %v which does not satisfy the matchers (or was never stored)", desc(), l)
		}
		if q.Sort && i > 0 && !lsetLess(got[i-1], l) {
			return ev.Failf("%s: result not sorted: %v before %v", desc(), got[i-1], l)
		}
	}
	for _, s := range c.Store.Series {
		if lower[s.L.Key()] && !seen[s.L.Key()] {
			return ev.Failf("%s: missing %v (matches, samples at %v)", desc(), s.L, s.T)
		}
	}
	if len(lower) == len(upper) {
		r.Class("select:exact")
	}
	switch {
	case len(upper) == 0:
		r.Class("select:expect-empty")
	case len(upper) == len(c.Store.Series):
		r.Class("select:expect-all")
	default:
		r.Class("select:expect-partial")
		if interestingMatcher(q.M) {
			r.Class("select:nontrivial")
			*nontrivial = true
		}
	}
	return nil
}

func c16Labels(c c16Case, q c16Query, qi int, querier storage.Querier, ctx context.Context, r *ev.Rec, nontrivial *bool) error {
	upper := map[string]bool{}
	lower := map[string]bool{}
	all := map[string]bool{}
	for _, s := range c.Store.Series {
		match := refMatchAll(q.M, s.L)
		in := hasSampleIn(s, q.Mint, q.Maxt)
		for _, p := range s.L {
			var item string
			if q.Kind == "names" {
				item = p[0]
			} else {
				if p[0] != q.Name {
					continue
				}
				item = p[1]
			}
			all[item] = true
			if match {
				upper[item] = true
				if in {
					lower[item] = true
				}
			}
		}
	}
	call := func(h *storage.LabelHints) ([]string, error) {
		if q.Kind == "names" {
			res, _, err := querier.LabelNames(ctx, h, realMatchers(q.M)...)
			return res, err
		}
		res, _, err := querier.LabelValues(ctx, q.Name, h, realMatchers(q.M)...)
		return res, err
	}
	desc := func() string {
		what := "LabelNames"
		if q.Kind == "values" {
			what = "LabelValues(" + q.Name + ")"
		}
		return "query " + itoa(qi) + " " + what + fmtMatchers(q.M) + " range [" + i64(q.Mint) + "," + i64(q.Maxt) + "] layout=" + c.Store.layout()
	}
	unl, err := call(nil)
	if err != nil {
		return ev.Failf("%s: error %v", desc(), err)
	}
	if !strictlySorted(unl) {
		return ev.Failf("%s: result not sorted / not duplicate-free: %q", desc(), unl)
	}
	got := setOf(unl)
	for _, x := range unl {
		if !upper[x] {
			return ev.Failf("%s: returned %q which no stored matching series has (allowed: %q); full result %q", desc(), x, sortedKeys(upper), unl)
		}
	}
	for _, x := range sortedKeys(lower) {
		if !got[x] {
			return ev.Failf("%s: missing %q (a matching series with a sample in range has it); result %q", desc(), x, unl)
		}
	}
	if q.Limit > 0 {
		r.Class(q.Kind + ":limited")
		lim, err := call(&storage.LabelHints{Limit: q.Limit})
		if err != nil {
			return ev.Failf("%s limit %d: error %v", desc(), q.Limit, err)
		}
		want := q.Limit
		if len(unl) < want {
			want = len(unl)
		} else if len(unl) > q.Limit {
			r.Class(q.Kind + ":limit-bites")
		}
		if len(lim) != want {
			return ev.Failf("%s limit %d: got %d entries %q, want min(limit, %d unlimited) = %d; unlimited %q", desc(), q.Limit, len(lim), lim, len(unl), want, unl)
		}
		if !strictlySorted(lim) {
			return ev.Failf("%s limit %d: result not sorted / not duplicate-free: %q", desc(), q.Limit, lim)
		}
		for _, x := range lim {
			if !got[x] {
				return ev.Failf("%s limit %d: %q is not in the unlimited result %q", desc(), q.Limit, x, unl)
			}
		}
	}
	if len(lower) == len(upper) {
		r.Class(q.Kind + ":exact")
	}
	switch {
	case len(upper) == 0:
		r.Class(q.Kind + ":expect-empty")
	case len(upper) == len(all):
		r.Class(q.Kind + ":expect-all")
	default:
		r.Class(q.Kind + ":expect-partial")
		if interestingMatcher(q.M) {
			r.Class(q.Kind + ":nontrivial")
			*nontrivial = true
		}
	}
	return nil
}

func TestC16(t *testing.T) {
	ev.Check(t, "C16",
		"5-60 series over 4 label names x 10 values (absent labels, blank-looking and UTF-8 values, a few unique values) with 1-3 samples each in [0,3000), stored in a real tsdb.DB laid out as head only / 1-2 blocks / blocks+head (optionally reopened); 5-25 queries per case through DB.Querier: Select (1-4 matchers of all four types incl. \"\", .*, .+, set regexes, negations on absent labels, duplicate names; sort on/off; nil/range/series hints), LabelNames and LabelValues (0-3 matchers, optional limit 1-5), over full, open, point and partial time ranges. Oracle: brute force with stdlib regexp over the generated label sets (lower bound: matching series with a sample in range; upper bound: stored matching series). Non-trivial: some query has a matcher that matches the empty string or is negated and its expected result is neither empty nor everything; distinct by hash of the case.",
		genC16, runC16)
}

func itoa(i int) string { return strconv.Itoa(i) }

func i64(i int64) string {
	switch i {
	case math.MinInt64:
		return "MinInt64"
	case math.MaxInt64:
		return "MaxInt64"
	}
	return strconv.FormatInt(i, 10)
}

func b2s(b bool) string { return strconv.FormatBool(b) }
