package hash

import (
	"fmt"
	"strings"
	"testing"

	"github.com/prometheus/prometheus/model/labels"
	"pgregory.net/rapid"

	"verifharness/index/xxref"
	"verifharness/internal/ev"
	"verifharness/internal/gen"
)

// C18, part "hash": labels.StableHash against the harness reference (xxref), built once per
// labels build variant (default stringlabels, slicelabels, dedupelabels). This lives in its
// own small package so that the three variant binaries do not have to link the TSDB.

var ixNames = []string{"__name__", "a", "b", "c"}
var ixValues = []string{"a", "b", "ab", "abc", "x y", "ü", " ", "0", "a.b", "A"}

func genIxLset(t *rapid.T, i int) gen.Lset {
	var out gen.Lset
	for _, n := range ixNames {
		if rapid.IntRange(0, 9).Draw(t, "has") >= 6 {
			continue
		}
		v := rapid.SampledFrom(ixValues).Draw(t, "val")
		if rapid.IntRange(0, 14).Draw(t, "uniq") == 0 {
			v = fmt.Sprintf("u%d", i)
		}
		out = append(out, [2]string{n, v})
	}
	if len(out) == 0 {
		out = gen.Lset{{"a", fmt.Sprintf("u%d", i)}}
	}
	return out
}

func refStableHash(l gen.Lset) uint64 { return xxref.StableHash(l) }

type c18Pinned struct {
	L gen.Lset
	H uint64
}

func longString(seed string, n int) string {
	return strings.Repeat(seed, n/len(seed)+1)[:n]
}

// The first three entries are the constants pinned in model/labels/sharding_test.go; the
// others were computed once with refXXH64 and are the same for every build variant.
var c18PinnedTable = []c18Pinned{
	{gen.Lset{}, 0xef46db3751d8e999},
	{gen.Lset{{"hello", "world"}}, 0x347c8ee7a9e29708},
	{gen.Lset{{"__name__", "metric"}, {"label", "value"}}, 0xcbab40540f26097d},
	{gen.Lset{{"a", "b"}}, 0x608891b6a4fd3588},
	{gen.Lset{{"__name__", "up"}, {"instance", "localhost:9090"}, {"job", "prometheus"}}, 0xf28c8afcd224e55f},
	{gen.Lset{{"a", "x y"}, {"b", "ü"}, {"c", " "}}, 0x90a3dd4713a1bf14},
	{gen.Lset{{"l00", longString("x", 1017)}}, 0x3b51fccb3a24bfae},
	{gen.Lset{{"l00", longString("x", 1018)}}, 0x3e0fdc7904f66163},
	{gen.Lset{{"l00", longString("x", 1019)}}, 0xfd3850dca7a804fc},
	{gen.Lset{{"l00", longString("ab", 500)}, {"l01", longString("0123456789", 515)}, {"l02", "tail"}}, 0x85c3fe4ebd19b677},
	{gen.Lset{{"l00", longString("q-", 2000)}, {"l01", "after"}}, 0xdd13da44c5c3da6c},
	{gen.Lset{{"日本", "語"}, {"ÿ", "ÿ"}}, 0x6b9e378ec250a4a5},
}

type c18HashCase struct {
	Pinned int // index into the pinned table, -1 for a generated label set
	L      gen.Lset
}

// genBoundaryLset builds a label set whose serialised size crosses the 1 KiB buffer of
// StableHash at a drawn label with a drawn slack, followed by 0-2 more labels.
func genBoundaryLset(t *rapid.T) gen.Lset {
	k := rapid.IntRange(1, 4).Draw(t, "nbefore")
	tail := rapid.IntRange(0, 2).Draw(t, "nafter")
	slack := rapid.IntRange(-4, 4).Draw(t, "slack")
	fill := rapid.SampledFrom([]string{"x", "ab", "0123456789", "q-"}).Draw(t, "fill")
	var out gen.Lset
	total := 0
	for i := 0; i < k+tail; i++ {
		name := fmt.Sprintf("l%02d", i)
		var vlen int
		switch {
		case i < k-1:
			vlen = rapid.IntRange(1, 1000/k).Draw(t, "vlen")
		case i == k-1:
			// make total after this label = 1024 + slack
			vlen = 1024 + slack - total - len(name) - 2
			if vlen < 1 {
				vlen = 1
			}
		default:
			vlen = rapid.IntRange(1, 1200).Draw(t, "vlenafter")
		}
		v := longString(fill, vlen)
		out = append(out, [2]string{name, v})
		total += len(name) + len(v) + 2
	}
	return out
}

func genC18Hash(t *rapid.T) c18HashCase {
	switch rapid.IntRange(0, 9).Draw(t, "hclass") {
	case 0:
		return c18HashCase{Pinned: rapid.IntRange(0, len(c18PinnedTable)-1).Draw(t, "pinned")}
	case 1, 2, 3:
		return c18HashCase{Pinned: -1, L: genBoundaryLset(t)}
	case 4:
		return c18HashCase{Pinned: -1, L: gen.SmallLset(true, 5).Draw(t, "small")}
	case 5:
		return c18HashCase{Pinned: -1, L: genIxLset(t, rapid.IntRange(0, 60).Draw(t, "i"))}
	default:
		return c18HashCase{Pinned: -1, L: gen.AnyLset(7).Draw(t, "any")}
	}
}

func runC18Hash(c c18HashCase, r *ev.Rec) error {
	l := c.L
	if c.Pinned >= 0 {
		if c.Pinned >= len(c18PinnedTable) {
			r.Discard()
			return nil
		}
		l = c18PinnedTable[c.Pinned].L
		r.Class("pinned")
	}
	want := refStableHash(l)
	if c.Pinned >= 0 && want != c18PinnedTable[c.Pinned].H {
		return ev.Failf("harness reference hash of pinned entry %d is %#x, table says %#x (reference broken)", c.Pinned, want, c18PinnedTable[c.Pinned].H)
	}
	size := 0
	for _, p := range l {
		size += len(p[0]) + len(p[1]) + 2
	}
	switch {
	case size >= 1020 && size <= 1028:
		r.Class("size:at-1KiB-boundary")
	case size > 1028:
		r.Class("size:>1KiB")
	default:
		r.Class("size:<1KiB")
	}
	got := labels.StableHash(l.Labels())
	if got != want {
		return ev.Failf("labels.StableHash(%d labels, %d serialised bytes) = %#x, reference XXH64 = %#x; labels %.300q", len(l), size, got, want, fmt.Sprint(l))
	}
	// hashing is a pure function of the label set: a second Labels value built in another
	// order hashes the same
	if len(l) > 1 {
		rev := make(gen.Lset, len(l))
		for i := range l {
			rev[len(l)-1-i] = l[i]
		}
		if got2 := labels.StableHash(rev.Labels()); got2 != want {
			return ev.Failf("labels.StableHash differs for the same label set built in reverse order: %#x vs %#x", got2, want)
		}
	}
	if len(l) >= 2 || size >= 1020 || c.Pinned >= 0 {
		r.NonTrivial()
	}
	return nil
}

func TestC18Hash(t *testing.T) {
	ev.Check(t, "C18",
		"label sets from five classes (pinned table incl. the three constants of sharding_test.go; sets whose serialised size crosses the 1 KiB internal buffer at a drawn label with slack -4..+4 and 0-2 labels after it; small-alphabet sets; C16 sets; arbitrary strings incl. invalid UTF-8 and 0xff bytes): labels.StableHash must equal an XXH64 written from the xxHash specification over name 0xff value 0xff in name order. The same test is built with the default, slicelabels and dedupelabels tags, so equality with the tag-independent reference implies equality across variants. Non-trivial: >=2 labels, size at/over the buffer boundary, or a pinned entry; distinct by hash of the case.",
		genC18Hash, runC18Hash, ev.Opts{Part: "hash"})
}
