package index

import (
	"context"
	"fmt"
	"testing"

	"github.com/prometheus/prometheus/storage"
	"pgregory.net/rapid"

	"verifharness/index/xxref"
	"verifharness/internal/ev"
)

// C18 — Query sharding partitions series deterministically.
//
// Part "" (TestC18): the C16 stores with EnableSharding, queried unsharded and for every
// shard index of a drawn shard count; the shards must partition the unsharded result and
// every series must sit in shard xxref.StableHash(labels) % n.
// Part "hash" (./index/hash TestC18Hash, built once per labels build variant): labels.StableHash against
// an independent XXH64 written from the xxHash specification, anchored by pinned constants.

// ---- part 1: sharded selects ----

type c18Query struct {
	M      []c16Matcher
	Mint   int64
	Maxt   int64
	Sort   bool
	Shards int
}

type c18Case struct {
	Store   ixStore
	Queries []c18Query
}

func genC18(t *rapid.T) c18Case {
	c := c18Case{Store: genIxStore(t)}
	nq := rapid.IntRange(2, 8).Draw(t, "nqueries")
	for i := 0; i < nq; i++ {
		var q c18Query
		if rapid.IntRange(0, 2).Draw(t, "allseries") == 0 {
			// every series: a matcher that matches everything
			q.M = []c16Matcher{{T: 2, N: rapid.SampledFrom(c16MatcherNames).Draw(t, "anyname"), V: ".*"}}
		} else {
			q.M = genC16Matchers(t, 1, 3)
		}
		q.Mint, q.Maxt, _ = genRange(t)
		q.Sort = rapid.Bool().Draw(t, "sort")
		switch rapid.IntRange(0, 5).Draw(t, "shardclass") {
		case 0:
			q.Shards = 1
		case 1, 2:
			q.Shards = rapid.IntRange(2, 4).Draw(t, "nsmall")
		case 3:
			q.Shards = rapid.SampledFrom([]int{8, 16, 32, 64}).Draw(t, "npow2")
		default:
			q.Shards = rapid.IntRange(2, 64).Draw(t, "nany")
		}
		c.Queries = append(c.Queries, q)
	}
	return c
}

func runC18(c c18Case, r *ev.Rec) error {
	db, cleanup, err := openIxStore(c.Store, true)
	if err != nil {
		return ev.Failf("building the store failed: %v", err)
	}
	defer cleanup()
	r.Class("layout:" + c.Store.layout())
	if c.Store.Reopen {
		r.Class("reopened")
	}
	ctx := context.Background()
	nontrivial := false
	for qi, q := range c.Queries {
		querier, err := db.Querier(q.Mint, q.Maxt)
		if err != nil {
			return ev.Failf("query %d: Querier(%d,%d): %v", qi, q.Mint, q.Maxt, err)
		}
		verr := c18Query1(c, q, qi, querier, ctx, r, &nontrivial)
		if cerr := querier.Close(); cerr != nil && verr == nil {
			verr = ev.Failf("query %d: querier close: %v", qi, cerr)
		}
		if verr != nil {
			return verr
		}
	}
	if nontrivial {
		r.NonTrivial()
	}
	return nil
}

func c18Query1(c c18Case, q c18Query, qi int, querier storage.Querier, ctx context.Context, r *ev.Rec, nontrivial *bool) error {
	desc := fmt.Sprintf("query %d Select%s range [%s,%s] sort=%v shards=%d layout=%s reopen=%v", qi, fmtMatchers(q.M), i64(q.Mint), i64(q.Maxt), q.Sort, q.Shards, c.Store.layout(), c.Store.Reopen)
	un, err := drainSeriesSet(querier.Select(ctx, q.Sort, &storage.SelectHints{Start: q.Mint, End: q.Maxt}, realMatchers(q.M)...))
	if err != nil {
		return ev.Failf("%s: unsharded select failed: %v", desc, err)
	}
	want := map[string]bool{}
	for _, l := range un {
		want[l.Key()] = true
	}
	// the unsharded result itself is C16's subject; a cheap sanity bound keeps a broken
	// unsharded path from making the comparison vacuous
	for _, s := range c.Store.Series {
		if refMatchAll(q.M, s.L) && hasSampleIn(s, q.Mint, q.Maxt) && !want[s.L.Key()] {
			return ev.Failf("%s: unsharded select misses %v", desc, s.L)
		}
	}
	owner := map[string]int{}
	nonEmpty := 0
	for i := 0; i < q.Shards; i++ {
		h := &storage.SelectHints{Start: q.Mint, End: q.Maxt, ShardIndex: uint64(i), ShardCount: uint64(q.Shards)}
		got, err := drainSeriesSet(querier.Select(ctx, q.Sort, h, realMatchers(q.M)...))
		if err != nil {
			return ev.Failf("%s: shard %d failed: %v", desc, i, err)
		}
		if len(got) > 0 {
			nonEmpty++
		}
		for j, l := range got {
			k := l.Key()
			if prev, dup := owner[k]; dup {
				return ev.Failf("%s: series %v returned by shard %d and shard %d", desc, l, prev, i)
			}
			owner[k] = i
			if !want[k] {
				return ev.Failf("%s: shard %d returned %v which the unsharded select did not return", desc, i, l)
			}
			if hs := xxref.StableHash(l); hs%uint64(q.Shards) != uint64(i) {
				return ev.Failf("%s: series %v is in shard %d, but its stable hash %#x mod %d = %d", desc, l, i, hs, q.Shards, hs%uint64(q.Shards))
			}
			if q.Sort && j > 0 && !lsetLess(got[j-1], l) {
				return ev.Failf("%s: shard %d not sorted: %v before %v", desc, i, got[j-1], l)
			}
		}
	}
	for _, l := range un {
		if _, ok := owner[l.Key()]; !ok {
			return ev.Failf("%s: series %v (stable hash %#x, expected shard %d) is in the unsharded result but in no shard", desc, l, xxref.StableHash(l), xxref.StableHash(l)%uint64(q.Shards))
		}
	}
	switch {
	case q.Shards == 1:
		r.Class("shards:1")
	case q.Shards <= 4:
		r.Class("shards:2-4")
	default:
		r.Class("shards:5-64")
	}
	if len(un) == 0 {
		r.Class("result:empty")
	}
	if q.Shards >= 2 && nonEmpty >= 2 {
		r.Class("query:nontrivial")
		*nontrivial = true
	}
	return nil
}

func TestC18(t *testing.T) {
	ev.Check(t, "C18",
		"C16 series sets in a real tsdb.DB opened with EnableSharding (head only / 1-2 blocks / blocks+head, optionally reopened); 2-8 queries per case (a match-all matcher or 1-3 generated matchers, generated range, sort on/off) with a shard count from {1, 2-4, 8/16/32/64, 2-64}: the unsharded Select and one Select per shard index through DB.Querier. Shards must be pairwise disjoint, their union must equal the unsharded result, and each series must be in shard xxref.StableHash(labels) mod n, xxref.StableHash being an XXH64 written from the specification. Non-trivial: some query has n>=2 and at least two non-empty shards; distinct by hash of the case.",
		genC18, runC18)
}
