package index

import (
	"context"
	"fmt"
	"os"
	"sort"

	"github.com/prometheus/prometheus/model/labels"
	"github.com/prometheus/prometheus/storage"
	"github.com/prometheus/prometheus/tsdb"
	"pgregory.net/rapid"

	"verifharness/internal/gen"
)

// Shared by C16 and C18: a small set of series stored in a real tsdb.DB, laid out in the
// head, in one or two persisted blocks, or split across both.

// ixSeries is one stored series: a label set and the timestamps of its samples (the value
// of a sample is float64(t)).
type ixSeries struct {
	L gen.Lset
	T []int64
}

// ixStore describes the storage of one case. Time runs over [0,ixMaxT). Cuts are ascending
// boundaries; zone i is [bound[i], bound[i+1]). Every zone but the last is compacted into
// a block; the last one stays in the head when HeadLast is set, else it becomes a block too.
type ixStore struct {
	Series   []ixSeries
	Cuts     []int64 `json:",omitempty"`
	HeadLast bool
	Reopen   bool // close and reopen the DB (WAL replay, blocks reloaded) before querying
}

const ixMaxT = 3000

var ixNames = []string{"__name__", "a", "b", "c"}
var ixValues = []string{"a", "b", "ab", "abc", "x y", "ü", " ", "0", "a.b", "A"}

// genIxLset draws a label set over ixNames with values from ixValues (or, rarely, a value
// unique to the series so that the symbol table has unshared entries too).
func genIxLset(t *rapid.T, i int) gen.Lset {
	var out gen.Lset
	for _, n := range ixNames {
		if rapid.IntRange(0, 9).Draw(t, "has") >= 6 {
			continue
		}
		v := rapid.SampledFrom(ixValues).Draw(t, "val")
		if rapid.IntRange(0, 14).Draw(t, "uniq") == 0 {
			v = fmt.Sprintf("u%d", i)
		}
		out = append(out, [2]string{n, v})
	}
	if len(out) == 0 {
		out = gen.Lset{{"a", fmt.Sprintf("u%d", i)}}
	}
	return out
}

func genIxStore(t *rapid.T) ixStore {
	var s ixStore
	n := rapid.IntRange(5, 60).Draw(t, "nseries")
	seen := map[string]bool{}
	for i := 0; i < n; i++ {
		l := genIxLset(t, i)
		if seen[l.Key()] {
			continue
		}
		seen[l.Key()] = true
		k := rapid.IntRange(1, 3).Draw(t, "nsamples")
		var ts []int64
		for j := 0; j < k; j++ {
			ts = append(ts, int64(rapid.IntRange(0, ixMaxT-1).Draw(t, "t")))
		}
		sort.Slice(ts, func(a, b int) bool { return ts[a] < ts[b] })
		var dd []int64
		for j, x := range ts {
			if j == 0 || x != ts[j-1] {
				dd = append(dd, x)
			}
		}
		s.Series = append(s.Series, ixSeries{L: l, T: dd})
	}
	cutPool := []int64{500, 1000, 1500, 2000, 2500}
	drawCuts := func(k int) []int64 {
		m := map[int64]bool{}
		for i := 0; i < k; i++ {
			m[rapid.SampledFrom(cutPool).Draw(t, "cut")] = true
		}
		var out []int64
		for _, c := range cutPool {
			if m[c] {
				out = append(out, c)
			}
		}
		return out
	}
	switch rapid.SampledFrom([]string{"head", "head", "blocks", "split", "split"}).Draw(t, "layout") {
	case "head":
		s.HeadLast = true
	case "blocks":
		s.Cuts = drawCuts(rapid.IntRange(0, 1).Draw(t, "ncuts"))
	default:
		s.Cuts = drawCuts(rapid.IntRange(1, 2).Draw(t, "ncuts"))
		s.HeadLast = true
	}
	s.Reopen = rapid.IntRange(0, 3).Draw(t, "reopen") == 0
	return s
}

func (s ixStore) layout() string {
	switch {
	case s.HeadLast && len(s.Cuts) == 0:
		return "head"
	case s.HeadLast:
		return "split"
	default:
		return "blocks"
	}
}

// openIxStore builds the DB described by s in a fresh temp dir. The returned cleanup closes
// the DB and removes the directory.
func openIxStore(s ixStore, sharding bool) (*tsdb.DB, func(), error) {
	dir, err := os.MkdirTemp("", "ixstore")
	if err != nil {
		return nil, nil, err
	}
	opts := tsdb.DefaultOptions()
	opts.EnableSharding = sharding
	opts.NoLockfile = true
	opts.WALSegmentSize = 128 * 1024
	open := func() (*tsdb.DB, error) {
		db, err := tsdb.Open(dir, nil, nil, opts, nil)
		if err != nil {
			return nil, err
		}
		db.DisableCompactions()
		return db, nil
	}
	db, err := open()
	if err != nil {
		os.RemoveAll(dir)
		return nil, nil, fmt.Errorf("open: %w", err)
	}
	fail := func(err error) (*tsdb.DB, func(), error) {
		db.Close()
		os.RemoveAll(dir)
		return nil, nil, err
	}
	bounds := append([]int64{0}, s.Cuts...)
	bounds = append(bounds, ixMaxT)
	lbls := make([]labels.Labels, len(s.Series))
	for i, sr := range s.Series {
		lbls[i] = sr.L.Labels()
	}
	ctx := context.Background()
	for z := 0; z+1 < len(bounds); z++ {
		lo, hi := bounds[z], bounds[z+1]
		app := db.Appender(ctx)
		n := 0
		for i, sr := range s.Series {
			for _, ts := range sr.T {
				if ts < lo || ts >= hi {
					continue
				}
				if _, err := app.Append(0, lbls[i], ts, float64(ts)); err != nil {
					app.Rollback()
					return fail(fmt.Errorf("append %v@%d: %w", sr.L, ts, err))
				}
				n++
			}
		}
		if err := app.Commit(); err != nil {
			return fail(fmt.Errorf("commit: %w", err))
		}
		last := z+2 == len(bounds)
		if n > 0 && (!last || !s.HeadLast) {
			if err := db.CompactHead(tsdb.NewRangeHead(db.Head(), lo, hi-1)); err != nil {
				return fail(fmt.Errorf("compact head [%d,%d): %w", lo, hi, err))
			}
		}
	}
	if s.Reopen {
		if err := db.Close(); err != nil {
			os.RemoveAll(dir)
			return nil, nil, fmt.Errorf("close before reopen: %w", err)
		}
		db, err = open()
		if err != nil {
			os.RemoveAll(dir)
			return nil, nil, fmt.Errorf("reopen: %w", err)
		}
	}
	return db, func() { db.Close(); os.RemoveAll(dir) }, nil
}

// lsetLess orders label sets the way the storage documents it: pairwise by name, then by
// value, a proper prefix first. Written on the plain pair lists, not via labels.Compare.
func lsetLess(a, b gen.Lset) bool {
	for i := 0; i < len(a) && i < len(b); i++ {
		if a[i][0] != b[i][0] {
			return a[i][0] < b[i][0]
		}
		if a[i][1] != b[i][1] {
			return a[i][1] < b[i][1]
		}
	}
	return len(a) < len(b)
}

// drainSeriesSet collects the label sets returned by a Select, in order.
func drainSeriesSet(ss storage.SeriesSet) ([]gen.Lset, error) {
	var out []gen.Lset
	for ss.Next() {
		out = append(out, gen.FromLabels(ss.At().Labels()))
	}
	return out, ss.Err()
}

func hasSampleIn(sr ixSeries, mint, maxt int64) bool {
	for _, t := range sr.T {
		if t >= mint && t <= maxt {
			return true
		}
	}
	return false
}
