package index

import (
	"bytes"
	"context"
	"encoding/binary"
	"encoding/json"
	"fmt"
	"os"
	"path/filepath"
	"sort"
	"testing"
	"unicode/utf8"

	"github.com/oklog/ulid/v2"
	"github.com/prometheus/common/promslog"
	"github.com/prometheus/prometheus/model/labels"
	"github.com/prometheus/prometheus/storage"
	"github.com/prometheus/prometheus/tsdb"
	"github.com/prometheus/prometheus/tsdb/chunkenc"
	"github.com/prometheus/prometheus/tsdb/chunks"
	"github.com/prometheus/prometheus/tsdb/index"
	"pgregory.net/rapid"

	"verifharness/internal/ev"
	"verifharness/internal/gen"
)

// C24 — Persistent blocks round-trip and detect corruption.
//
// TestC24 (round trip): series with chunks of every encoding are written into a block
//   - "direct": through chunks.Writer + index.Writer exactly as the block writer drives them
//     (symbols, then per series WriteChunks + AddSeries), tiny segment size, meta.json;
//   - "compact": two such blocks with adjacent time ranges merged by LeveledCompactor.Compact
//     with a tiny MaxBlockChunkSegmentSize;
//   - "bw": samples appended through tsdb.BlockWriter and flushed;
//
// and read back through tsdb.OpenBlock. TestC24Corrupt: every byte of every chunk record and
// every series entry of a small "direct" block is altered, one at a time.

type c24Chunk struct {
	Enc  uint8     // chunkenc.Encoding 1..6
	N    int       // samples
	Gap  int64     // distance from the previous chunk's last sample (>=1)
	Step int64     // distance between samples (>=1)
	ST   bool      // pass start timestamps (only stored by the ST-capable encodings)
	V    []uint64  `json:",omitempty"` // float bit patterns, cycled
	H    *gen.Hist `json:",omitempty"`
}

type c24Series struct {
	L      gen.Lset
	Chunks []c24Chunk
}

type c24Case struct {
	Mode    string // direct | compact | bw
	Series  []c24Series
	SegSize int64
	T0      int64
	Split   int   // compact: percentage of each series' chunks that go to the first block
	Mask    uint8 `json:",omitempty"` // corruption part: extra xor mask
}

var c24Encs = []chunkenc.Encoding{chunkenc.EncXOR, chunkenc.EncHistogram, chunkenc.EncFloatHistogram, chunkenc.EncXOR2, chunkenc.EncHistogramST, chunkenc.EncFloatHistogramST}

func encKind(e chunkenc.Encoding) string {
	switch e {
	case chunkenc.EncXOR, chunkenc.EncXOR2:
		return "float"
	case chunkenc.EncHistogram, chunkenc.EncHistogramST:
		return "hist"
	default:
		return "fhist"
	}
}

func genC24Chunk(t *rapid.T, maxSamples int) c24Chunk {
	c := c24Chunk{Enc: uint8(rapid.SampledFrom(c24Encs).Draw(t, "enc"))}
	c.N = rapid.IntRange(1, maxSamples).Draw(t, "nsamples")
	c.Gap = int64(rapid.SampledFrom([]int{1, 1, 2, 15, 1000}).Draw(t, "gap"))
	c.Step = int64(rapid.SampledFrom([]int{1, 10, 15, 100}).Draw(t, "step"))
	c.ST = rapid.Bool().Draw(t, "st")
	switch encKind(chunkenc.Encoding(c.Enc)) {
	case "float":
		k := rapid.IntRange(1, 3).Draw(t, "nvals")
		for i := 0; i < k; i++ {
			c.V = append(c.V, gen.FloatBits().Draw(t, "v"))
		}
	case "hist":
		h := gen.Histogram(gen.HistOpts{AllowCustom: true, AllowGauge: true, MaxBuckets: 4}).Draw(t, "h")
		c.H = &h
	default:
		h := gen.Histogram(gen.HistOpts{Float: true, AllowCustom: true, AllowGauge: true, MaxBuckets: 4}).Draw(t, "fh")
		c.H = &h
	}
	return c
}

func genC24Series(t *rapid.T, maxSeries, maxChunks, maxSamples int) []c24Series {
	n := rapid.IntRange(1, maxSeries).Draw(t, "nseries")
	seen := map[string]bool{}
	var out []c24Series
	for i := 0; i < n; i++ {
		var l gen.Lset
		if rapid.IntRange(0, 4).Draw(t, "anylabels") == 0 {
			l = gen.AnyLset(4).Draw(t, "anyl")
			// empty label values are dropped by every labels constructor; empty names and invalid
			// UTF-8 never reach a block (scrape/ingest validation), keep to valid non-empty strings
			var f gen.Lset
			for _, p := range l {
				if p[0] != "" && p[1] != "" && utf8.ValidString(p[0]) && utf8.ValidString(p[1]) {
					f = append(f, p)
				}
			}
			l = f
		} else {
			l = genIxLset(t, i)
		}
		if len(l) == 0 || seen[l.Key()] {
			continue
		}
		seen[l.Key()] = true
		s := c24Series{L: l}
		k := 1
		switch rapid.IntRange(0, 5).Draw(t, "chunkclass") {
		case 0:
			k = rapid.IntRange(1, maxChunks).Draw(t, "nchunksbig")
		default:
			k = rapid.IntRange(1, 4).Draw(t, "nchunks")
		}
		if k > maxChunks {
			k = maxChunks
		}
		for j := 0; j < k; j++ {
			s.Chunks = append(s.Chunks, genC24Chunk(t, maxSamples))
		}
		out = append(out, s)
	}
	if len(out) == 0 {
		out = append(out, c24Series{L: gen.Lset{{"a", "b"}}, Chunks: []c24Chunk{genC24Chunk(t, maxSamples)}})
	}
	sort.Slice(out, func(i, j int) bool { return lsetLess(out[i].L, out[j].L) })
	return out
}

func genC24(t *rapid.T) c24Case {
	c := c24Case{Mode: rapid.SampledFrom([]string{"direct", "direct", "direct", "compact", "compact", "bw"}).Draw(t, "mode")}
	c.Series = genC24Series(t, 25, 30, 5)
	c.SegSize = int64(rapid.SampledFrom([]int{64, 100, 200, 512, 4096, 0}).Draw(t, "segsize"))
	c.T0 = rapid.SampledFrom([]int64{0, 1_700_000_000_000, -100_000, 1 << 40}).Draw(t, "t0")
	c.Split = rapid.SampledFrom([]int{0, 30, 50, 70, 100}).Draw(t, "split")
	return c
}

// ---- expected content ----

type c24Sample struct {
	T    int64
	Kind string // float hist fhist
	F    uint64
	H    *gen.Hist
}

type c24WantSeries struct {
	L       gen.Lset
	Samples []c24Sample
	Metas   []chunks.Meta // direct mode: what was handed to the writers (Ref filled by the chunk writer)
	Bytes   [][]byte      // direct mode: chunk bytes as written
}

// buildChunks materialises the chunks of one series from the case description, starting
// after time `from`.
func buildChunks(s c24Series, from int64) (c24WantSeries, error) {
	w := c24WantSeries{L: s.L}
	t := from
	for ci, cs := range s.Chunks {
		enc := chunkenc.Encoding(cs.Enc)
		chk, err := chunkenc.NewEmptyChunk(enc)
		if err != nil {
			return w, err
		}
		app, err := chk.Appender()
		if err != nil {
			return w, err
		}
		t += cs.Gap
		mint := t
		for j := 0; j < cs.N; j++ {
			if j > 0 {
				t += cs.Step
			}
			st := int64(0)
			if cs.ST {
				st = t - 1
			}
			switch encKind(enc) {
			case "float":
				b := cs.V[j%len(cs.V)]
				app.Append(st, t, gen.F(b))
				w.Samples = append(w.Samples, c24Sample{T: t, Kind: "float", F: b})
			case "hist":
				nc, _, napp, err := app.AppendHistogram(nil, st, t, cs.H.Int(), false)
				if err != nil || nc != nil {
					return w, fmt.Errorf("chunk %d sample %d: histogram not appendable (err %v, new chunk %v)", ci, j, err, nc != nil)
				}
				app = napp
				w.Samples = append(w.Samples, c24Sample{T: t, Kind: "hist", H: cs.H})
			default:
				nc, _, napp, err := app.AppendFloatHistogram(nil, st, t, cs.H.FloatH(), false)
				if err != nil || nc != nil {
					return w, fmt.Errorf("chunk %d sample %d: float histogram not appendable (err %v, new chunk %v)", ci, j, err, nc != nil)
				}
				app = napp
				w.Samples = append(w.Samples, c24Sample{T: t, Kind: "fhist", H: cs.H})
			}
		}
		chk.Compact()
		w.Metas = append(w.Metas, chunks.Meta{MinTime: mint, MaxTime: t, Chunk: chk})
		w.Bytes = append(w.Bytes, append([]byte(nil), chk.Bytes()...))
	}
	return w, nil
}

type zeroReader struct{}

func (zeroReader) Read(p []byte) (int, error) {
	for i := range p {
		p[i] = 0
	}
	return len(p), nil
}

// writeDirectBlock writes the given series (already sorted by labels) the way the block
// writer does and returns the block directory. Metas in ws get their Ref assigned.
func writeDirectBlock(parent string, seq uint64, ws []c24WantSeries, segSize int64) (string, error) {
	id := ulid.MustNew(seq+1, zeroReader{})
	dir := filepath.Join(parent, id.String())
	if err := os.MkdirAll(dir, 0o777); err != nil {
		return "", err
	}
	ctx := context.Background()
	cw, err := chunks.NewWriter(filepath.Join(dir, "chunks"), chunks.WithSegmentSize(segSize))
	if err != nil {
		return "", fmt.Errorf("chunk writer: %w", err)
	}
	iw, err := index.NewWriter(ctx, filepath.Join(dir, "index"))
	if err != nil {
		return "", fmt.Errorf("index writer: %w", err)
	}
	syms := map[string]bool{}
	for _, s := range ws {
		for _, p := range s.L {
			syms[p[0]] = true
			syms[p[1]] = true
		}
	}
	for _, s := range sortedKeys(syms) {
		if err := iw.AddSymbol(s); err != nil {
			return "", fmt.Errorf("AddSymbol(%q): %w", s, err)
		}
	}
	meta := tsdb.BlockMeta{ULID: id, Version: 1}
	meta.Compaction.Level = 1
	meta.Compaction.Sources = []ulid.ULID{id}
	first := true
	for i := range ws {
		s := &ws[i]
		if err := cw.WriteChunks(s.Metas...); err != nil {
			return "", fmt.Errorf("WriteChunks(series %d): %w", i, err)
		}
		if err := iw.AddSeries(storage.SeriesRef(i), s.L.Labels(), s.Metas...); err != nil {
			return "", fmt.Errorf("AddSeries(%v): %w", s.L, err)
		}
		for _, m := range s.Metas {
			if first || m.MinTime < meta.MinTime {
				meta.MinTime = m.MinTime
			}
			if first || m.MaxTime+1 > meta.MaxTime {
				meta.MaxTime = m.MaxTime + 1
			}
			first = false
			meta.Stats.NumChunks++
			meta.Stats.NumSamples += uint64(m.Chunk.NumSamples())
		}
		meta.Stats.NumSeries++
	}
	if err := cw.Close(); err != nil {
		return "", fmt.Errorf("chunk writer close: %w", err)
	}
	if err := iw.Close(); err != nil {
		return "", fmt.Errorf("index writer close: %w", err)
	}
	mb, _ := json.MarshalIndent(&meta, "", "\t")
	if err := os.WriteFile(filepath.Join(dir, "meta.json"), mb, 0o666); err != nil {
		return "", err
	}
	return dir, nil
}

// ---- reading back ----

func equalStrings(a, b []string) bool {
	if len(a) != len(b) {
		return false
	}
	for i := range a {
		if a[i] != b[i] {
			return false
		}
	}
	return true
}

func sampleEq(w c24Sample, typ chunkenc.ValueType, it chunkenc.Iterator) string {
	switch w.Kind {
	case "float":
		if typ != chunkenc.ValFloat {
			return fmt.Sprintf("value type %v, want float", typ)
		}
		t, v := it.At()
		if t != w.T || gen.B(v) != w.F {
			return fmt.Sprintf("got (%d, %#x) want (%d, %#x)", t, gen.B(v), w.T, w.F)
		}
	case "hist":
		if typ != chunkenc.ValHistogram {
			return fmt.Sprintf("value type %v, want histogram", typ)
		}
		t, h := it.AtHistogram(nil)
		if t != w.T {
			return fmt.Sprintf("got t=%d want %d", t, w.T)
		}
		if d := gen.FloatHistSemantic(w.H.FloatH(), h.ToFloat(nil), false); d != "" {
			return fmt.Sprintf("t=%d histogram differs in %s: got %v want %v", t, d, h, w.H.Int())
		}
	default:
		if typ != chunkenc.ValFloatHistogram {
			return fmt.Sprintf("value type %v, want float histogram", typ)
		}
		t, h := it.AtFloatHistogram(nil)
		if t != w.T {
			return fmt.Sprintf("got t=%d want %d", t, w.T)
		}
		if d := gen.FloatHistSemantic(w.H.FloatH(), h, false); d != "" {
			return fmt.Sprintf("t=%d float histogram differs in %s: got %v want %v", t, d, h, w.H.FloatH())
		}
	}
	return ""
}

// queryAll selects every series of the block and compares labels and samples with want.
func queryAll(b *tsdb.Block, want []c24WantSeries, what string) error {
	q, err := tsdb.NewBlockQuerier(b, b.Meta().MinTime, b.Meta().MaxTime)
	if err != nil {
		return ev.Failf("%s: NewBlockQuerier: %v", what, err)
	}
	defer q.Close()
	ss := q.Select(context.Background(), true, nil, labels.MustNewMatcher(labels.MatchRegexp, "zz_absent", ".*"))
	i := 0
	var it chunkenc.Iterator
	for ss.Next() {
		s := ss.At()
		if i >= len(want) {
			return ev.Failf("%s: query returns more than the %d written series: extra %v", what, len(want), s.Labels())
		}
		w := want[i]
		if got := gen.FromLabels(s.Labels()); got.Key() != w.L.Key() {
			return ev.Failf("%s: query series %d has labels %v, want %v", what, i, got, w.L)
		}
		it = s.Iterator(it)
		j := 0
		for typ := it.Next(); typ != chunkenc.ValNone; typ = it.Next() {
			if j >= len(w.Samples) {
				return ev.Failf("%s: series %v yields more than the %d written samples (extra at t=%d)", what, w.L, len(w.Samples), it.AtT())
			}
			if d := sampleEq(w.Samples[j], typ, it); d != "" {
				return ev.Failf("%s: series %v sample %d: %s", what, w.L, j, d)
			}
			j++
		}
		if err := it.Err(); err != nil {
			return ev.Failf("%s: series %v iterator error: %v", what, w.L, err)
		}
		if j != len(w.Samples) {
			return ev.Failf("%s: series %v yields %d samples, %d were written", what, w.L, j, len(w.Samples))
		}
		i++
	}
	if err := ss.Err(); err != nil {
		return ev.Failf("%s: select error: %v", what, err)
	}
	if i != len(want) {
		return ev.Failf("%s: query returns %d series, %d were written", what, i, len(want))
	}
	return nil
}

// checkBlock opens the block at dir and compares everything the index and chunk readers
// expose with what was written. withChunks also compares chunk metas and bytes.
func checkBlock(dir string, want []c24WantSeries, withChunks bool, what string) error {
	ctx := context.Background()
	b, err := tsdb.OpenBlock(nil, dir, nil, nil)
	if err != nil {
		return ev.Failf("%s: OpenBlock: %v", what, err)
	}
	defer b.Close()
	ir, err := b.Index()
	if err != nil {
		return ev.Failf("%s: Index(): %v", what, err)
	}
	defer ir.Close()
	cr, err := b.Chunks()
	if err != nil {
		return ev.Failf("%s: Chunks(): %v", what, err)
	}
	defer cr.Close()

	// symbols
	symSet := map[string]bool{}
	nameSet := map[string]bool{}
	valSet := map[string]map[string]bool{}
	pairIdx := map[[2]string][]int{}
	for i, s := range want {
		for _, p := range s.L {
			symSet[p[0]], symSet[p[1]] = true, true
			nameSet[p[0]] = true
			if valSet[p[0]] == nil {
				valSet[p[0]] = map[string]bool{}
			}
			valSet[p[0]][p[1]] = true
			pairIdx[p] = append(pairIdx[p], i)
		}
	}
	var gotSyms []string
	si := ir.Symbols()
	for si.Next() {
		gotSyms = append(gotSyms, si.At())
	}
	if err := si.Err(); err != nil {
		return ev.Failf("%s: symbols iterator: %v", what, err)
	}
	if !strictlySorted(gotSyms) {
		return ev.Failf("%s: symbols not strictly sorted: %q", what, gotSyms)
	}
	if ws := sortedKeys(symSet); withChunks {
		if !equalStrings(gotSyms, ws) {
			return ev.Failf("%s: symbols read %q, written %q", what, gotSyms, ws)
		}
	} else {
		// the head-based writers choose the symbol table themselves (it also carries the empty
		// string of the all-postings key): every needed symbol must be there
		have := setOf(gotSyms)
		for _, s := range ws {
			if !have[s] {
				return ev.Failf("%s: symbol %q missing from the symbol table %q", what, s, gotSyms)
			}
		}
	}

	// all postings -> series in label order
	k, v := index.AllPostingsKey()
	ap, err := ir.Postings(ctx, k, v)
	if err != nil {
		return ev.Failf("%s: all postings: %v", what, err)
	}
	refs, err := index.ExpandPostings(ir.SortedPostings(ap))
	if err != nil {
		return ev.Failf("%s: expanding all postings: %v", what, err)
	}
	if len(refs) != len(want) {
		return ev.Failf("%s: all-postings has %d series, %d were written", what, len(refs), len(want))
	}
	var bld labels.ScratchBuilder
	var chks []chunks.Meta
	for i, ref := range refs {
		if i > 0 && refs[i-1] >= ref {
			return ev.Failf("%s: sorted all-postings not increasing: %v", what, refs)
		}
		if err := ir.Series(ref, &bld, &chks); err != nil {
			return ev.Failf("%s: Series(%d): %v", what, ref, err)
		}
		got := gen.FromLabels(bld.Labels())
		if got.Key() != want[i].L.Key() {
			return ev.Failf("%s: series #%d (ref %d) has labels %v, written %v", what, i, ref, got, want[i].L)
		}
		if !withChunks {
			// chunk boundaries are the writer's business here; samples are compared by queryAll
			if len(chks) == 0 {
				return ev.Failf("%s: series %v has no chunks", what, got)
			}
			for j, m := range chks {
				c, itb, err := cr.ChunkOrIterable(m)
				if err != nil || c == nil || itb != nil {
					return ev.Failf("%s: series %v chunk %d (ref %d): err %v", what, got, j, m.Ref, err)
				}
			}
			continue
		}
		w := want[i]
		if len(chks) != len(w.Metas) {
			return ev.Failf("%s: series %v has %d chunks, %d were written", what, got, len(chks), len(w.Metas))
		}
		for j, m := range chks {
			wm := w.Metas[j]
			if m.Ref != wm.Ref || m.MinTime != wm.MinTime || m.MaxTime != wm.MaxTime {
				return ev.Failf("%s: series %v chunk %d meta read (ref %d, %d..%d), written (ref %d, %d..%d)", what, got, j, m.Ref, m.MinTime, m.MaxTime, wm.Ref, wm.MinTime, wm.MaxTime)
			}
			c, itb, err := cr.ChunkOrIterable(m)
			if err != nil {
				return ev.Failf("%s: series %v chunk %d (ref %d): read error %v", what, got, j, m.Ref, err)
			}
			if c == nil || itb != nil {
				return ev.Failf("%s: series %v chunk %d: block chunk reader returned an iterable instead of a chunk", what, got, j)
			}
			if c.Encoding() != wm.Chunk.Encoding() || !bytes.Equal(c.Bytes(), w.Bytes[j]) {
				return ev.Failf("%s: series %v chunk %d (ref %d): read encoding %v %d bytes %x, written encoding %v %d bytes %x", what, got, j, m.Ref, c.Encoding(), len(c.Bytes()), c.Bytes(), wm.Chunk.Encoding(), len(w.Bytes[j]), w.Bytes[j])
			}
		}
	}

	// postings per (name, value)
	pairs := make([][2]string, 0, len(pairIdx))
	for p := range pairIdx {
		pairs = append(pairs, p)
	}
	sort.Slice(pairs, func(i, j int) bool {
		if pairs[i][0] != pairs[j][0] {
			return pairs[i][0] < pairs[j][0]
		}
		return pairs[i][1] < pairs[j][1]
	})
	expand := func(name string, values ...string) ([]storage.SeriesRef, error) {
		p, err := ir.Postings(ctx, name, values...)
		if err != nil {
			return nil, err
		}
		return index.ExpandPostings(p)
	}
	refsOf := func(idx []int) []storage.SeriesRef {
		out := make([]storage.SeriesRef, 0, len(idx))
		for _, i := range idx {
			out = append(out, refs[i])
		}
		return out
	}
	eqRefs := func(a, b []storage.SeriesRef) bool {
		if len(a) != len(b) {
			return false
		}
		for i := range a {
			if a[i] != b[i] {
				return false
			}
		}
		return true
	}
	for pi, p := range pairs {
		got, err := expand(p[0], p[1])
		if err != nil {
			return ev.Failf("%s: Postings(%q,%q): %v", what, p[0], p[1], err)
		}
		if w := refsOf(pairIdx[p]); !eqRefs(got, w) {
			return ev.Failf("%s: Postings(%q,%q) = %v, want %v (series %v)", what, p[0], p[1], got, w, pairIdx[p])
		}
		// two values of one name at once: the merged list
		if pi+1 < len(pairs) && pairs[pi+1][0] == p[0] {
			q := pairs[pi+1]
			got, err := expand(p[0], p[1], q[1])
			if err != nil {
				return ev.Failf("%s: Postings(%q,%q,%q): %v", what, p[0], p[1], q[1], err)
			}
			merged := append(append([]int{}, pairIdx[p]...), pairIdx[q]...)
			sort.Ints(merged)
			if w := refsOf(merged); !eqRefs(got, w) {
				return ev.Failf("%s: Postings(%q,%q,%q) = %v, want %v", what, p[0], p[1], q[1], got, w)
			}
		}
	}
	if got, err := expand("zz_absent", "x"); err != nil || len(got) != 0 {
		return ev.Failf("%s: Postings of an absent pair = %v, %v", what, got, err)
	}
	if len(pairs) > 0 {
		if got, err := expand(pairs[0][0], pairs[0][1]+"\x00nope"); err != nil || len(got) != 0 {
			return ev.Failf("%s: Postings of an absent value = %v, %v", what, got, err)
		}
	}

	// label names / values
	names, err := ir.LabelNames(ctx)
	if err != nil {
		return ev.Failf("%s: LabelNames: %v", what, err)
	}
	if w := sortedKeys(nameSet); !equalStrings(names, w) {
		return ev.Failf("%s: LabelNames = %q, written %q", what, names, w)
	}
	for _, n := range sortedKeys(nameSet) {
		vals, err := ir.SortedLabelValues(ctx, n, nil)
		if err != nil {
			return ev.Failf("%s: SortedLabelValues(%q): %v", what, n, err)
		}
		if w := sortedKeys(valSet[n]); !equalStrings(vals, w) {
			return ev.Failf("%s: SortedLabelValues(%q) = %q, written %q", what, n, vals, w)
		}
		uv, err := ir.LabelValues(ctx, n, nil)
		if err != nil {
			return ev.Failf("%s: LabelValues(%q): %v", what, n, err)
		}
		uv = append([]string(nil), uv...)
		sort.Strings(uv)
		if w := sortedKeys(valSet[n]); !equalStrings(uv, w) {
			return ev.Failf("%s: LabelValues(%q) = %q (sorted), written %q", what, n, uv, w)
		}
	}
	return queryAll(b, want, what)
}

func countSegments(dir string) int {
	es, _ := os.ReadDir(filepath.Join(dir, "chunks"))
	return len(es)
}

func runC24(c c24Case, r *ev.Rec) error {
	root, err := os.MkdirTemp("", "c24")
	if err != nil {
		return err
	}
	defer os.RemoveAll(root)
	r.Class("mode:" + c.Mode)
	encs := map[uint8]bool{}
	nchunks := 0
	for _, s := range c.Series {
		for _, ch := range s.Chunks {
			encs[ch.Enc] = true
			nchunks++
		}
	}
	all := make([]c24WantSeries, 0, len(c.Series))
	for _, s := range c.Series {
		w, err := buildChunks(s, c.T0)
		if err != nil {
			r.Discard() // generator self-check: the chunk could not be built as described
			return nil
		}
		all = append(all, w)
	}
	segments := 0
	switch c.Mode {
	case "direct":
		dir, err := writeDirectBlock(root, 0, all, c.SegSize)
		if err != nil {
			return ev.Failf("writing the block failed: %v", err)
		}
		segments = countSegments(dir)
		if err := checkBlock(dir, all, true, "direct"); err != nil {
			return err
		}
		// a second, independent open must give the same answers
		if err := checkBlock(dir, all, true, "direct (reopened)"); err != nil {
			return err
		}
	case "compact":
		var a, b []c24WantSeries
		for _, w := range all {
			k := len(w.Metas) * c.Split / 100
			if k > 0 {
				a = append(a, c24WantSeries{L: w.L, Metas: w.Metas[:k]})
			}
			if k < len(w.Metas) {
				b = append(b, c24WantSeries{L: w.L, Metas: w.Metas[k:]})
			}
		}
		// the second block must start after the first one ends: shift is not possible with
		// fixed chunks, so order the blocks by time per series only when ranges are disjoint
		var dirs []string
		src := filepath.Join(root, "src")
		for i, part := range [][]c24WantSeries{a, b} {
			if len(part) == 0 {
				continue
			}
			d, err := writeDirectBlock(src, uint64(i), part, c.SegSize)
			if err != nil {
				return ev.Failf("writing source block %d failed: %v", i, err)
			}
			dirs = append(dirs, d)
		}
		seg := c.SegSize
		comp, err := tsdb.NewLeveledCompactorWithOptions(context.Background(), nil, nil, []int64{1 << 50}, nil, tsdb.LeveledCompactorOptions{
			MaxBlockChunkSegmentSize:    seg,
			EnableOverlappingCompaction: true,
		})
		if err != nil {
			return ev.Failf("compactor: %v", err)
		}
		dest := filepath.Join(root, "dest")
		if err := os.MkdirAll(dest, 0o777); err != nil {
			return err
		}
		ids, err := comp.Compact(dest, dirs, nil)
		if err != nil {
			return ev.Failf("Compact(%d blocks): %v", len(dirs), err)
		}
		if len(ids) != 1 {
			return ev.Failf("Compact(%d blocks) produced %d blocks", len(dirs), len(ids))
		}
		out := filepath.Join(dest, ids[0].String())
		segments = countSegments(out)
		if len(dirs) == 2 {
			r.Class("compact:two-sources")
		}
		if err := checkBlock(out, all, false, "compacted"); err != nil {
			return err
		}
		if err := checkBlock(out, all, false, "compacted (reopened)"); err != nil {
			return err
		}
	case "bw":
		dest := filepath.Join(root, "bw")
		if err := os.MkdirAll(dest, 0o777); err != nil {
			return err
		}
		bw, err := tsdb.NewBlockWriter(promslog.NewNopLogger(), dest, tsdb.DefaultBlockDuration)
		if err != nil {
			return ev.Failf("NewBlockWriter: %v", err)
		}
		ctx := context.Background()
		for _, w := range all {
			// A float stale marker appended to a series whose previous sample is a histogram is
			// stored by the head as a stale histogram (documented append behaviour, not the
			// block format's business): keep stale markers out of this mode.
			for j := range w.Samples {
				if w.Samples[j].Kind == "float" && w.Samples[j].F == gen.StaleNaNBits {
					w.Samples[j].F = gen.NormalNaNBits
				}
			}
			lset := w.L.Labels()
			var ref storage.SeriesRef
			app := bw.Appender(ctx)
			for j, s := range w.Samples {
				if j > 0 && s.Kind != w.Samples[j-1].Kind {
					if err := app.Commit(); err != nil {
						bw.Close()
						return ev.Failf("BlockWriter commit: %v", err)
					}
					app = bw.Appender(ctx)
				}
				var err error
				switch s.Kind {
				case "float":
					ref, err = app.Append(ref, lset, s.T, gen.F(s.F))
				case "hist":
					ref, err = app.AppendHistogram(ref, lset, s.T, s.H.Int(), nil)
				default:
					ref, err = app.AppendHistogram(ref, lset, s.T, nil, s.H.FloatH())
				}
				if err != nil {
					app.Rollback()
					bw.Close()
					return ev.Failf("BlockWriter append %v t=%d kind=%s: %v", w.L, s.T, s.Kind, err)
				}
			}
			if err := app.Commit(); err != nil {
				bw.Close()
				return ev.Failf("BlockWriter commit: %v", err)
			}
		}
		id, err := bw.Flush(ctx)
		cerr := bw.Close()
		if err != nil || cerr != nil {
			return ev.Failf("BlockWriter flush/close: %v / %v", err, cerr)
		}
		out := filepath.Join(dest, id.String())
		segments = countSegments(out)
		if err := checkBlock(out, all, false, "block writer"); err != nil {
			return err
		}
	}
	if segments >= 2 {
		r.Class("segments:>=2")
	}
	if len(encs) >= 3 {
		r.Class("encodings:>=3")
	}
	r.Count("chunks", nchunks)
	if segments >= 2 || len(encs) >= 3 {
		r.NonTrivial()
	}
	return nil
}

func TestC24(t *testing.T) {
	ev.Check(t, "C24",
		"1-25 series (C16 label alphabets with shared and per-series unique symbols, some arbitrary UTF-8 label sets) with 1-30 chunks of 1-5 samples each in all six chunk encodings (float bit patterns, integer and float native histograms incl. custom buckets), written as a block (a) directly through chunks.Writer+index.Writer in the block writer's call order with segment sizes 64 B..4 KiB/default, (b) by LeveledCompactor.Compact of two such blocks split per series with a tiny MaxBlockChunkSegmentSize, (c) through tsdb.BlockWriter; read back via tsdb.OpenBlock (twice): symbols, sorted all-postings, per-series labels, chunk metas and bytes (direct), postings per (name,value) and per value pair, label names/values, and a select-all query compared sample by sample with the case description. Non-trivial: >=2 chunk segment files or >=3 encodings; distinct by hash of the case.",
		genC24, runC24)
}

// ---- corruption sweep ----

func genC24Corrupt(t *rapid.T) c24Case {
	c := c24Case{Mode: "direct"}
	c.Series = genC24Series(t, 6, 3, 4)
	c.SegSize = int64(rapid.SampledFrom([]int{64, 200, 0}).Draw(t, "segsize"))
	c.T0 = rapid.SampledFrom([]int64{0, 1_700_000_000_000, -100_000}).Draw(t, "t0")
	c.Mask = uint8(rapid.IntRange(1, 255).Draw(t, "mask"))
	return c
}

func uvarintLen(x uint64) int {
	var b [binary.MaxVarintLen64]byte
	return binary.PutUvarint(b[:], x)
}

// flipper alters single bytes of files in place and keeps the handles open.
type flipper struct{ files map[string]*os.File }

func (fl *flipper) flip(path string, off int64, mask byte) (restore func() error, err error) {
	f := fl.files[path]
	if f == nil {
		f, err = os.OpenFile(path, os.O_RDWR, 0)
		if err != nil {
			return nil, err
		}
		fl.files[path] = f
	}
	var b [1]byte
	if _, err := f.ReadAt(b[:], off); err != nil {
		return nil, err
	}
	orig := b[0]
	b[0] ^= mask
	if _, err := f.WriteAt(b[:], off); err != nil {
		return nil, err
	}
	return func() error {
		_, err := f.WriteAt([]byte{orig}, off)
		return err
	}, nil
}

func (fl *flipper) close() {
	for _, f := range fl.files {
		f.Close()
	}
}

func runC24Corrupt(c c24Case, r *ev.Rec) error {
	root, err := os.MkdirTemp("", "c24c")
	if err != nil {
		return err
	}
	defer os.RemoveAll(root)
	all := make([]c24WantSeries, 0, len(c.Series))
	for _, s := range c.Series {
		w, err := buildChunks(s, c.T0)
		if err != nil {
			r.Discard()
			return nil
		}
		all = append(all, w)
	}
	dir, err := writeDirectBlock(root, 0, all, c.SegSize)
	if err != nil {
		return ev.Failf("writing the block failed: %v", err)
	}
	// the undamaged block must read back (also yields the series refs)
	if err := checkBlock(dir, all, true, "undamaged"); err != nil {
		return err
	}
	masks := []byte{0x01, 0x80, 0xff, 0x10, c.Mask}
	ctx := context.Background()
	faults := 0
	pos := 0
	fl := &flipper{files: map[string]*os.File{}}
	defer fl.close()
	// The readers map the files shared and read-only and keep no copy of chunk data or series
	// entries, so a byte altered in the file is what the next read sees; they are opened once.
	// Every 8th fault is additionally checked through a freshly opened block (queryDamaged).
	cr, err := chunks.NewDirReader(filepath.Join(dir, "chunks"), nil)
	if err != nil {
		return ev.Failf("chunk reader on the undamaged block: %v", err)
	}
	defer cr.Close()

	// chunk records: <len uvarint> <encoding 1> <data> <crc32 4> at the offset given by the ref
	chunkDir := filepath.Join(dir, "chunks")
	for si, s := range all {
		for j, m := range s.Metas {
			seg, off := chunks.BlockChunkRef(m.Ref).Unpack()
			file := filepath.Join(chunkDir, fmt.Sprintf("%06d", seg+1))
			recLen := uvarintLen(uint64(len(s.Bytes[j]))) + 1 + len(s.Bytes[j]) + 4
			for p := 0; p < recLen; p++ {
				pos++
				mask := masks[(pos+int(c.Mask))%len(masks)]
				restore, err := fl.flip(file, int64(off+p), mask)
				if err != nil {
					return fmt.Errorf("harness: cannot alter %s@%d: %v", file, off+p, err)
				}
				faults++
				verr := func() error {
					got, _, err := cr.ChunkOrIterable(chunks.Meta{Ref: m.Ref, MinTime: m.MinTime, MaxTime: m.MaxTime})
					if err != nil {
						r.Class("chunk:error")
						return nil
					}
					if got != nil && got.Encoding() == m.Chunk.Encoding() && bytes.Equal(got.Bytes(), s.Bytes[j]) {
						r.Class("chunk:identical-without-error")
						return nil
					}
					var gb []byte
					var ge chunkenc.Encoding
					if got != nil {
						gb, ge = got.Bytes(), got.Encoding()
					}
					return ev.Failf("chunk record of series %v chunk %d (segment %d offset %d, %d bytes): byte %d xor %#02x is not detected: reader returns encoding %v data %x, written encoding %v data %x", s.L, j, seg, off, recLen, p, mask, ge, gb, m.Chunk.Encoding(), s.Bytes[j])
				}()
				if verr == nil && pos%8 == 0 {
					verr = queryDamaged(dir, all, r, fmt.Sprintf("chunk record of series %d chunk %d byte %d xor %#02x", si, j, p, mask))
				}
				if rerr := restore(); rerr != nil {
					return fmt.Errorf("harness: cannot restore byte: %v", rerr)
				}
				if verr != nil {
					return verr
				}
			}
		}
	}

	// series entries: <len uvarint> <content> <crc32 4> at ref*16 in the index file
	indexFile := filepath.Join(dir, "index")
	raw, err := os.ReadFile(indexFile)
	if err != nil {
		return err
	}
	ir0, err := index.NewFileReader(indexFile, index.DecodePostingsRaw)
	if err != nil {
		return ev.Failf("index reader on the undamaged block: %v", err)
	}
	k, v := index.AllPostingsKey()
	ap, _ := ir0.Postings(ctx, k, v)
	refs, err := index.ExpandPostings(ap)
	defer ir0.Close()
	if err != nil || len(refs) != len(all) {
		return ev.Failf("all postings of the undamaged block: %v, %v", refs, err)
	}
	for si, ref := range refs {
		off := int(ref) * 16
		l, n := binary.Uvarint(raw[off:])
		if n <= 0 || off+n+int(l)+4 > len(raw) {
			return ev.Failf("series entry %d at offset %d does not parse in the undamaged index", si, off)
		}
		recLen := n + int(l) + 4
		want := all[si]
		for p := 0; p < recLen; p++ {
			pos++
			mask := masks[(pos+int(c.Mask))%len(masks)]
			restore, err := fl.flip(indexFile, int64(off+p), mask)
			if err != nil {
				return fmt.Errorf("harness: cannot alter index@%d: %v", off+p, err)
			}
			faults++
			verr := func() error {
				ir := ir0
				var bld labels.ScratchBuilder
				var chks []chunks.Meta
				if err := ir.Series(ref, &bld, &chks); err != nil {
					r.Class("series:error")
					return nil
				}
				got := gen.FromLabels(bld.Labels())
				same := got.Key() == want.L.Key() && len(chks) == len(want.Metas)
				if same {
					for j := range chks {
						if chks[j].Ref != want.Metas[j].Ref || chks[j].MinTime != want.Metas[j].MinTime || chks[j].MaxTime != want.Metas[j].MaxTime {
							same = false
						}
					}
				}
				if same {
					r.Class("series:identical-without-error")
					return nil
				}
				return ev.Failf("series entry of %v (ref %d, offset %d, %d bytes): byte %d xor %#02x is not detected: reader returns labels %v chunks %v, written chunks %v", want.L, ref, off, recLen, p, mask, got, metaStr(chks), metaStr(want.Metas))
			}()
			if verr == nil && pos%8 == 0 {
				verr = queryDamaged(dir, all, r, fmt.Sprintf("series entry %d byte %d xor %#02x", si, p, mask))
			}
			if rerr := restore(); rerr != nil {
				return fmt.Errorf("harness: cannot restore byte: %v", rerr)
			}
			if verr != nil {
				return verr
			}
		}
	}
	r.Count("faults", faults)
	if faults > 0 {
		r.NonTrivial()
	}
	return nil
}

func metaStr(ms []chunks.Meta) string {
	s := ""
	for _, m := range ms {
		s += fmt.Sprintf("(ref %d %d..%d)", m.Ref, m.MinTime, m.MaxTime)
	}
	return s
}

// queryDamaged runs a select-all over the damaged block: any error anywhere is fine, a
// clean answer must be the written data.
func queryDamaged(dir string, want []c24WantSeries, r *ev.Rec, what string) error {
	b, err := tsdb.OpenBlock(nil, dir, nil, nil)
	if err != nil {
		r.Class("query:open-error")
		return nil
	}
	defer b.Close()
	q, err := tsdb.NewBlockQuerier(b, b.Meta().MinTime, b.Meta().MaxTime)
	if err != nil {
		r.Class("query:error")
		return nil
	}
	defer q.Close()
	ss := q.Select(context.Background(), true, nil, labels.MustNewMatcher(labels.MatchRegexp, "zz_absent", ".*"))
	i := 0
	sawErr := false
	var mismatch string
	var it chunkenc.Iterator
	for ss.Next() {
		s := ss.At()
		if i >= len(want) {
			mismatch = fmt.Sprintf("extra series %v", s.Labels())
			break
		}
		w := want[i]
		if got := gen.FromLabels(s.Labels()); got.Key() != w.L.Key() && mismatch == "" {
			mismatch = fmt.Sprintf("series %d has labels %v, written %v", i, got, w.L)
		}
		it = s.Iterator(it)
		j := 0
		for typ := it.Next(); typ != chunkenc.ValNone; typ = it.Next() {
			if mismatch != "" {
				continue
			}
			if j >= len(w.Samples) {
				mismatch = fmt.Sprintf("series %v yields extra sample at t=%d", w.L, it.AtT())
				continue
			}
			if d := sampleEq(w.Samples[j], typ, it); d != "" {
				mismatch = fmt.Sprintf("series %v sample %d: %s", w.L, j, d)
			}
			j++
		}
		if it.Err() != nil {
			sawErr = true
		} else if j != len(w.Samples) && mismatch == "" {
			mismatch = fmt.Sprintf("series %v yields %d samples, %d written", w.L, j, len(w.Samples))
		}
		i++
	}
	if ss.Err() != nil {
		sawErr = true
	}
	if sawErr {
		r.Class("query:error")
		return nil
	}
	if mismatch == "" && i != len(want) {
		mismatch = fmt.Sprintf("%d series returned, %d written", i, len(want))
	}
	if mismatch != "" {
		return ev.Failf("%s: a select-all over the damaged block reports no error but returns different data: %s", what, mismatch)
	}
	r.Class("query:identical-without-error")
	return nil
}

func TestC24Corrupt(t *testing.T) {
	ev.Check(t, "C24",
		"a small directly written block (1-6 series, 1-3 chunks of 1-4 samples, all encodings, segment size 64/200/default); every byte of every chunk record (length, encoding, data, CRC; located via the chunk refs) and of every series entry of the index (length, content, CRC; located via the all-postings refs) is xor-ed with a mask from {0x01,0x80,0xff,0x10,drawn}, one at a time, on disk; chunks.Reader.ChunkOrIterable / index.Reader.Series must return an error or the identical chunk / entry; every 8th fault additionally OpenBlock + select-all must fail somewhere or return exactly the written samples. Non-trivial: at least one fault inside a CRC-covered record was injected (all are); classes count faults by outcome; distinct by hash of the case.",
		genC24Corrupt, runC24Corrupt, ev.Opts{Part: "corrupt"})
}
