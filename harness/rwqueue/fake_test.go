package rwqueue

import (
	"context"
	"errors"
	"fmt"
	"math"
	"runtime"
	"sort"
	"strings"
	"sync"
	"time"

	"github.com/golang/snappy"
	"github.com/prometheus/prometheus/prompb"
	writev2 "github.com/prometheus/prometheus/prompb/io/prometheus/write/v2"
	"github.com/prometheus/prometheus/storage/remote"
)

// c40Recv is one datum (float sample, histogram or exemplar) decoded from a request.
type c40Recv struct {
	G    int64  // identity carried in the value (float sample, exemplar) or in the histogram sum; 0 = not an identity
	Kind string // s h e
	T    int64
	L    string // canonical "name=value,name=value" of the series labels as received
	Bad  string `json:",omitempty"` // decoding oddity (unexpected shape of the time series)
}

// c40Req is one Store call as the fake endpoint saw it.
type c40Req struct {
	Arr     int    // event number of the arrival
	Done    int    // event number of the answer (0: never answered)
	Attempt int    // retryAttempt argument
	Outcome string // ok rec fail
	Data    []c40Recv
	Bad     string `json:",omitempty"` // request could not be decoded
	At      int64  `json:",omitempty"` // wall clock (ms) at arrival; only used by the ageing part
	Empty   bool   `json:",omitempty"` // the request body had zero bytes
}

// c40Fault is one entry of the fault script; the k-th arriving request gets Faults[k].
type c40Fault struct {
	Kind       string // ok rec fail
	RetryAfter int    // ms, rec only; 0 = no Retry-After
	Latency    int    // microseconds slept before answering; -1 = runtime.Gosched
}

type c40Fake struct {
	proto       int
	v1Confirmed bool
	faults      []c40Fault
	recFor      time.Duration // ageing part: answer 503 to everything for this long after the first arrival

	mu       sync.Mutex
	firstArr time.Time
	event    int
	reqs     []*c40Req
	finished int // data in requests answered ok or fail (they will not come again)
	finG     map[int64]bool
	drain    bool // watchdog fired: answer everything ok at once
}

func (f *c40Fake) Name() string     { return "c40" }
func (f *c40Fake) Endpoint() string { return "http://c40.invalid/write" }

func canonLabels(pairs [][2]string) string {
	sort.Slice(pairs, func(i, j int) bool { return pairs[i][0] < pairs[j][0] })
	var b strings.Builder
	for i, p := range pairs {
		if i > 0 {
			b.WriteByte(',')
		}
		b.WriteString(p[0])
		b.WriteByte('=')
		b.WriteString(p[1])
	}
	return b.String()
}

func identity(v float64) int64 {
	if v >= 1 && v < 1e9 && v == math.Trunc(v) {
		return int64(v)
	}
	return 0
}

// decode is independent of the sender: snappy block format + the generated protobuf
// Unmarshal; labels and (v2) symbol references are resolved by hand.
func (f *c40Fake) decode(req []byte) ([]c40Recv, string) {
	raw, err := snappy.Decode(nil, req)
	if err != nil {
		return nil, "snappy: " + err.Error()
	}
	var out []c40Recv
	add := func(l string, nS, nH, nE int, g int64, kind string, t int64) {
		d := c40Recv{G: g, Kind: kind, T: t, L: l}
		if nS+nH+nE != 1 {
			d.Bad = fmt.Sprintf("time series with %d samples, %d histograms, %d exemplars", nS, nH, nE)
		}
		out = append(out, d)
	}
	switch f.proto {
	case 1:
		var wr prompb.WriteRequest
		if err := wr.Unmarshal(raw); err != nil {
			return nil, "unmarshal v1: " + err.Error()
		}
		if len(wr.Metadata) != 0 {
			return nil, "v1 sample request carries metadata"
		}
		for _, ts := range wr.Timeseries {
			pairs := make([][2]string, 0, len(ts.Labels))
			for _, l := range ts.Labels {
				pairs = append(pairs, [2]string{l.Name, l.Value})
			}
			l := canonLabels(pairs)
			nS, nH, nE := len(ts.Samples), len(ts.Histograms), len(ts.Exemplars)
			if nS+nH+nE == 0 {
				add(l, 0, 0, 0, 0, "none", 0)
			}
			for _, s := range ts.Samples {
				add(l, nS, nH, nE, identity(s.Value), "s", s.Timestamp)
			}
			for _, h := range ts.Histograms {
				add(l, nS, nH, nE, identity(h.Sum), "h", h.Timestamp)
			}
			for _, e := range ts.Exemplars {
				add(l, nS, nH, nE, identity(e.Value), "e", e.Timestamp)
			}
		}
	case 2:
		var wr writev2.Request
		if err := wr.Unmarshal(raw); err != nil {
			return nil, "unmarshal v2: " + err.Error()
		}
		if len(wr.Symbols) == 0 || wr.Symbols[0] != "" {
			return nil, "v2 symbol table does not start with the empty string"
		}
		for _, ts := range wr.Timeseries {
			if len(ts.LabelsRefs)%2 != 0 {
				return nil, "v2 odd number of label refs"
			}
			pairs := make([][2]string, 0, len(ts.LabelsRefs)/2)
			for i := 0; i+1 < len(ts.LabelsRefs); i += 2 {
				a, b := ts.LabelsRefs[i], ts.LabelsRefs[i+1]
				if int(a) >= len(wr.Symbols) || int(b) >= len(wr.Symbols) {
					return nil, "v2 label ref outside the symbol table"
				}
				pairs = append(pairs, [2]string{wr.Symbols[a], wr.Symbols[b]})
			}
			l := canonLabels(pairs)
			nS, nH, nE := len(ts.Samples), len(ts.Histograms), len(ts.Exemplars)
			if nS+nH+nE == 0 {
				add(l, 0, 0, 0, 0, "none", 0)
			}
			for _, s := range ts.Samples {
				add(l, nS, nH, nE, identity(s.Value), "s", s.Timestamp)
			}
			for _, h := range ts.Histograms {
				add(l, nS, nH, nE, identity(h.Sum), "h", h.Timestamp)
			}
			for _, e := range ts.Exemplars {
				add(l, nS, nH, nE, identity(e.Value), "e", e.Timestamp)
			}
		}
	}
	return out, ""
}

func (f *c40Fake) Store(_ context.Context, req []byte, attempt int) (remote.WriteResponseStats, error) {
	now := time.Now()
	data, bad := f.decode(req) // req is reused by the sender after Store returns
	f.mu.Lock()
	f.event++
	rq := &c40Req{Arr: f.event, Attempt: attempt, Data: data, Bad: bad, Outcome: "ok", At: now.UnixMilli(), Empty: len(req) == 0}
	if f.firstArr.IsZero() {
		f.firstArr = now
	}
	if f.recFor > 0 && now.Sub(f.firstArr) < f.recFor && !f.drain {
		rq.Outcome = "rec"
	}
	k := len(f.reqs)
	f.reqs = append(f.reqs, rq)
	var flt c40Fault
	if k < len(f.faults) && !f.drain {
		flt = f.faults[k]
		if flt.Kind != "" {
			rq.Outcome = flt.Kind
		}
	}
	f.mu.Unlock()

	switch {
	case flt.Latency < 0:
		runtime.Gosched()
	case flt.Latency > 0:
		time.Sleep(time.Duration(flt.Latency) * time.Microsecond)
	}

	var rs remote.WriteResponseStats
	for _, d := range data {
		switch d.Kind {
		case "s":
			rs.Samples++
		case "h":
			rs.Histograms++
		case "e":
			rs.Exemplars++
		}
	}
	f.mu.Lock()
	f.event++
	rq.Done = f.event
	if rq.Outcome != "rec" {
		f.finished += len(data)
		if f.finG == nil {
			f.finG = map[int64]bool{}
		}
		for _, d := range data {
			f.finG[d.G] = true
		}
	}
	f.mu.Unlock()

	switch rq.Outcome {
	case "rec":
		return remote.WriteResponseStats{}, remote.VerifRecoverableError(errors.New("fake endpoint: 503"), time.Duration(flt.RetryAfter)*time.Millisecond)
	case "fail":
		return remote.WriteResponseStats{}, errors.New("fake endpoint: 400")
	}
	if f.proto == 1 && !f.v1Confirmed {
		return remote.WriteResponseStats{}, nil // a 1.0 receiver sends no written-count headers
	}
	rs.Confirmed = true
	return rs, nil
}

func (f *c40Fake) finishedData() int {
	f.mu.Lock()
	defer f.mu.Unlock()
	return f.finished
}

func (f *c40Fake) isFinished(g int64) bool {
	f.mu.Lock()
	defer f.mu.Unlock()
	return f.finG[g]
}

func (f *c40Fake) snapshot() []c40Req {
	f.mu.Lock()
	defer f.mu.Unlock()
	out := make([]c40Req, len(f.reqs))
	for i, r := range f.reqs {
		out[i] = *r
	}
	return out
}

func (f *c40Fake) setDrain() {
	f.mu.Lock()
	f.drain = true
	f.mu.Unlock()
}
