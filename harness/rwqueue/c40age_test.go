package rwqueue

import (
	"encoding/json"
	"fmt"
	"os"
	"runtime/debug"
	"testing"
	"time"

	remoteapi "github.com/prometheus/client_golang/exp/api/remote"
	"github.com/prometheus/client_golang/prometheus"
	"github.com/prometheus/common/model"
	"github.com/prometheus/prometheus/config"
	"github.com/prometheus/prometheus/model/labels"
	"github.com/prometheus/prometheus/storage/remote"
	"github.com/prometheus/prometheus/tsdb/chunks"
	"github.com/prometheus/prometheus/tsdb/record"
	"pgregory.net/rapid"

	"verifharness/internal/ev"
	"verifharness/internal/gen"
)

// C40, ageing part: samples that are inside sample_age_limit when they are queued and
// fall out of it while their request is being retried. The documented behaviour
// ("any sample that is older than sample_age_limit will not be sent") is checked with a
// very wide margin only: a sample must not ARRIVE at the endpoint when it is older than
// limit + c40aMarginMs; everything else about such samples is optional. Data with
// timestamps in the future never age and stay subject to the full invariant.

const (
	c40aLimitMs     = 300
	c40aMarginMs    = 1500 // scheduling slack between the sender's age check and the arrival at the fake endpoint
	c40aAgeAtFeedMs = 100
)

type c40aOp struct {
	Kind   string // samples pause
	S      []int  `json:",omitempty"` // series per entry
	Ageing []bool `json:",omitempty"` // per entry: timestamp = feed time - 100ms (else one hour in the future)
	N      int    `json:",omitempty"` // pause ms
}

type c40aCase struct {
	Proto       int
	V1Confirmed bool
	MaxPerSend  int
	Shards      int
	FailForMs   int // the endpoint answers 503 to everything for this long after the first request
	Refs        []uint64
	Ops         []c40aOp
	Observed    *c40Obs `json:",omitempty"`
}

func genC40A(t *rapid.T) c40aCase {
	c := c40aCase{
		Proto:       rapid.IntRange(1, 2).Draw(t, "proto"),
		V1Confirmed: rapid.Bool().Draw(t, "v1confirmed"),
		MaxPerSend:  rapid.IntRange(1, 3).Draw(t, "maxpersend"),
		Shards:      rapid.IntRange(1, 3).Draw(t, "shards"),
		FailForMs:   rapid.SampledFrom([]int{2500, 3500}).Draw(t, "failfor"),
	}
	n := rapid.IntRange(2, 4).Draw(t, "nseries")
	for i := 0; i < n; i++ {
		c.Refs = append(c.Refs, uint64(i+1))
	}
	nOps := rapid.IntRange(2, 6).Draw(t, "nops")
	for i := 0; i < nOps; i++ {
		op := c40aOp{Kind: "samples"}
		k := rapid.IntRange(1, 4).Draw(t, "n")
		mode := rapid.IntRange(0, 2).Draw(t, "mode") // all ageing / all future / mixed
		for j := 0; j < k; j++ {
			op.S = append(op.S, rapid.IntRange(0, n-1).Draw(t, "si"))
			op.Ageing = append(op.Ageing, mode == 0 || mode == 2 && rapid.Bool().Draw(t, "ageing"))
		}
		c.Ops = append(c.Ops, op)
		if i+1 < nOps {
			c.Ops = append(c.Ops, c40aOp{Kind: "pause", N: rapid.SampledFrom([]int{10, 60, 150, 400}).Draw(t, "pausems")})
		}
	}
	return c
}

func c40aLabels(i int) gen.Lset {
	return gen.Lset{{"__name__", "m1"}, {"s", fmt.Sprint(i)}}
}

// c40aBuild needs the timestamps that were actually fed (they depend on the wall clock
// at feed time); nil while feeding.
func c40aBuild(c c40aCase, feedT []int64) *c40Model {
	m := &c40Model{OpData: make([][]int, len(c.Ops))}
	for i := range c.Refs {
		l, _ := c40Relabelled(c40aLabels(i), nil, nil)
		m.Kept = append(m.Kept, true)
		m.Labels = append(m.Labels, l)
	}
	for oi, op := range c.Ops {
		if op.Kind != "samples" {
			continue
		}
		for k, si := range op.S {
			d := c40Datum{G: len(m.Data) + 1, Series: si, Kind: "s", Op: oi}
			if op.Ageing[k] {
				d.Opt = true
			} else {
				d.Must = true
			}
			if d.G-1 < len(feedT) {
				d.T = feedT[d.G-1]
			}
			m.OpData[oi] = append(m.OpData[oi], len(m.Data))
			m.Data = append(m.Data, d)
		}
	}
	return m
}

func c40aExecute(c c40aCase) (*c40Obs, string) {
	start := time.Now()
	m := c40aBuild(c, nil)
	dir, err := os.MkdirTemp("", "c40a")
	if err != nil {
		return nil, err.Error()
	}
	defer os.RemoveAll(dir)
	fake := &c40Fake{proto: c.Proto, v1Confirmed: c.V1Confirmed, recFor: time.Duration(c.FailForMs) * time.Millisecond}
	reg := keepRegistry{prometheus.NewRegistry()}
	cfg := config.DefaultQueueConfig
	cfg.MaxSamplesPerSend = c.MaxPerSend
	cfg.Capacity = 20 * c.MaxPerSend
	cfg.MinShards = c.Shards
	cfg.MaxShards = c.Shards
	cfg.BatchSendDeadline = model.Duration(20 * time.Millisecond)
	cfg.MinBackoff = model.Duration(20 * time.Millisecond)
	cfg.MaxBackoff = model.Duration(40 * time.Millisecond)
	cfg.SampleAgeLimit = model.Duration(c40aLimitMs * time.Millisecond)
	msg := remoteapi.WriteV1MessageType
	if c.Proto == 2 {
		msg = remoteapi.WriteV2MessageType
	}
	qm := remote.VerifNewQueueManager(reg, dir, cfg, labels.EmptyLabels(), nil, fake, c40FlushLimit, msg, false, false)
	obs := &c40Obs{}
	done := make(chan struct{})
	go func() {
		defer close(done)
		defer func() {
			if p := recover(); p != nil {
				obs.Panic = fmt.Sprintf("%v\n%s", p, debug.Stack())
			}
		}()
		qm.Start()
		var series []record.RefSeries
		for i, ref := range c.Refs {
			series = append(series, record.RefSeries{Ref: chunks.HeadSeriesRef(ref), Labels: c40aLabels(i).Labels()})
		}
		qm.StoreSeries(series, 0)
		future := int64(0)
		for oi, op := range c.Ops {
			switch op.Kind {
			case "pause":
				time.Sleep(time.Duration(op.N) * time.Millisecond)
			case "samples":
				now := time.Now().UnixMilli()
				var recs []record.RefSample
				for k, di := range m.OpData[oi] {
					d := m.Data[di]
					var ts int64
					if op.Ageing[k] {
						ts = now - c40aAgeAtFeedMs + int64(k)
					} else {
						future++
						ts = start.UnixMilli() + 3_600_000 + future
					}
					obs.FeedT = append(obs.FeedT, ts)
					recs = append(recs, record.RefSample{Ref: chunks.HeadSeriesRef(c.Refs[d.Series]), T: ts, V: float64(d.G)})
				}
				qm.Append(recs)
			}
		}
		// stop only after the failure window: Stop flushes, it does not cut retries short
		if rest := time.Duration(c.FailForMs)*time.Millisecond - time.Since(start); rest > 0 {
			time.Sleep(rest)
		}
		time.Sleep(100 * time.Millisecond)
		qm.Stop()
	}()
	select {
	case <-done:
	case <-time.After(c40DrainLimit):
		fake.setDrain()
		select {
		case <-done:
		case <-time.After(30 * time.Second):
		}
		return nil, "history did not drain within the bound"
	}
	obs.Reqs = fake.snapshot()
	obs.TotalMs = time.Since(start).Milliseconds()
	return obs, ""
}

func c40aOracle(c c40aCase, o *c40Obs, r *ev.Rec) error {
	m := c40aBuild(c, o.FeedT)
	name := func(si int) string { return fmt.Sprintf("%d ref %d", si, c.Refs[si]) }
	// findings specific to ageing, each with its own root-cause signature
	var reqs []c40Req
	nAgedOutSent, nFiltered := 0, 0
	for qi, q := range o.Reqs {
		if q.Empty {
			return ev.FailSig("agelimit-empty-request",
				"request %d (attempt %d, proto v%d) has a zero-byte body: every sample of the batch aged out during the retries and the queue manager sends the empty message anyway (%d shards, age limit %dms, endpoint failing for %dms)",
				qi, q.Attempt, c.Proto, c.Shards, c40aLimitMs, c.FailForMs)
		}
		for _, d := range q.Data {
			if d.G >= 1 && int(d.G) <= len(m.Data) && m.Data[d.G-1].Opt {
				age := q.At - m.Data[d.G-1].T
				if age > c40aLimitMs+c40aMarginMs && c.Shards < 2 {
					return ev.Failf("request %d (attempt %d, outcome %s) carries sample #%d of series %s that is %dms old on arrival; sample_age_limit is %dms (checked with %dms slack); single shard, proto v%d",
						qi, q.Attempt, q.Outcome, d.G, name(m.Data[d.G-1].Series), age, c40aLimitMs, c40aMarginMs, c.Proto)
				}
				if age > c40aLimitMs+c40aMarginMs {
					// root cause: the "lowest timestamp of the request" that decides about re-filtering is
					// one variable for the whole queue manager, overwritten by every shard
					return ev.FailSig("agelimit-shared-lowest-ts",
						"request %d (attempt %d, outcome %s) carries sample #%d of series %s that is %dms old on arrival; sample_age_limit is %dms (checked with %dms slack); %d shards, proto v%d",
						qi, q.Attempt, q.Outcome, d.G, name(m.Data[d.G-1].Series), age, c40aLimitMs, c40aMarginMs, c.Shards, c.Proto)
				}
				if age > c40aLimitMs {
					nAgedOutSent++
				}
			}
		}
		if q.Attempt > 0 && len(q.Data) == 0 {
			nFiltered++
		}
		reqs = append(reqs, q)
	}
	oo := *o
	oo.Reqs = reqs
	oo.Counters = nil
	if err := c40CheckHistory(m, name, &oo, false); err != nil {
		return err
	}
	r.Class(fmt.Sprintf("proto:v%d", c.Proto))
	r.Class(fmt.Sprintf("shards:%d", c.Shards))
	delivered := map[int64]bool{}
	retried := false
	for _, q := range o.Reqs {
		if q.Attempt > 0 {
			retried = true
		}
		if q.Outcome == "ok" {
			for _, d := range q.Data {
				delivered[d.G] = true
			}
		}
	}
	agedOut := false
	for _, d := range m.Data {
		if d.Opt && !delivered[int64(d.G)] {
			agedOut = true
		}
	}
	if agedOut {
		r.Class("ageing-sample-filtered-out")
	}
	if nFiltered > 0 {
		r.Class("request-emptied-by-filter")
	}
	if retried && agedOut {
		r.NonTrivial()
	}
	return nil
}

func runC40A(c c40aCase, r *ev.Rec) error {
	if len(c.Refs) == 0 || c.FailForMs == 0 {
		r.Discard() // a replay file of another part of C40
		return nil
	}
	if c.Observed != nil {
		o := c.Observed
		c.Observed = nil
		return c40aOracle(c, o, r)
	}
	obs, inconclusive := c40aExecute(c)
	if inconclusive != "" {
		fmt.Printf("C40 INCONCLUSIVE (case discarded, not a verdict): %s\n", inconclusive)
		r.Discard()
		return nil
	}
	err := c40aOracle(c, obs, r)
	if err != nil {
		cc := c
		cc.Observed = obs
		if js, jerr := json.Marshal(cc); jerr == nil {
			if p := c40SaveObserved("ageing-", js); p != "" {
				if v, ok := err.(*ev.Violation); ok {
					v.Msg += "\n(observed request history saved as " + p + ")"
				}
			}
		}
	}
	return err
}

const c40aRule = "sample_age_limit 300ms; 2-4 series on 1-3 shards; batches of samples that are either 100ms old when queued (they age out during the retries) or one hour in the future (never age), separated by pauses; the endpoint answers 503 to everything for 2.5-3.5s, then accepts. Future samples are under the full C40 invariant; an ageing sample may be dropped but must not arrive when older than limit+1.5s; no request may have an empty body. Non-trivial: a request was retried and at least one ageing sample was filtered out; distinct by hash of the case."

func TestC40Ageing(t *testing.T) {
	ev.Check(t, "C40", c40aRule, genC40A, runC40A, ev.Opts{Part: "ageing"})
}
