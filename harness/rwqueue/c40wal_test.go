package rwqueue

import (
	"context"
	"encoding/json"
	"fmt"
	"math"
	"os"
	"path/filepath"
	"runtime"
	"runtime/debug"
	"strconv"
	"testing"
	"time"

	remoteapi "github.com/prometheus/client_golang/exp/api/remote"
	"github.com/prometheus/client_golang/prometheus"
	"github.com/prometheus/common/model"
	"github.com/prometheus/common/promslog"
	"github.com/prometheus/prometheus/config"
	"github.com/prometheus/prometheus/model/exemplar"
	"github.com/prometheus/prometheus/model/labels"
	"github.com/prometheus/prometheus/storage"
	"github.com/prometheus/prometheus/storage/remote"
	"github.com/prometheus/prometheus/tsdb"
	"github.com/prometheus/prometheus/tsdb/wlog"
	"github.com/prometheus/prometheus/util/compression"
	"pgregory.net/rapid"

	"verifharness/internal/ev"
	"verifharness/internal/gen"
)

// C40, WAL-driven part: a real head writes the history into its WAL, the queue manager's
// own WAL watcher tails it (segment rotations, head truncation with checkpoints and
// series garbage collection included).

type c40wOp struct {
	Kind string // commit rotate truncate pause reshard
	S    []int  `json:",omitempty"` // commit: distinct series, one sample each, in this order
	Ex   []bool `json:",omitempty"` // commit: per entry, an exemplar is appended too
	N    int    `json:",omitempty"` // reshard: shard count; pause: ms; truncate: commits to keep
}

type c40wSeries struct {
	L    gen.Lset
	Hist bool // the series holds native histograms instead of floats
}

type c40wCase struct {
	Proto       int
	V1Confirmed bool
	MaxPerSend  int
	Capacity    int
	Shards      int
	DeadlineMs  int
	MinBackoff  int
	MaxBackoff  int
	Procs       int
	Ext         gen.Lset
	Relabel     []c40Relabel `json:",omitempty"`
	Series      []c40wSeries // Series[0] is the template of the synchronisation series (always kept by relabelling)
	Pre         []c40wOp     `json:",omitempty"` // written before the queue manager starts
	Ops         []c40wOp
	GCWait      bool       // wait > checkpointPeriod after the history, then write to every series once more
	Faults      []c40Fault `json:",omitempty"`
	Observed    *c40Obs    `json:",omitempty"`
}

func genC40W(t *rapid.T) c40wCase {
	c := c40wCase{
		Proto:       rapid.IntRange(1, 2).Draw(t, "proto"),
		V1Confirmed: rapid.Bool().Draw(t, "v1confirmed"),
		MaxPerSend:  rapid.SampledFrom([]int{1, 2, 3, 5, 8}).Draw(t, "maxpersend"),
		Shards:      rapid.IntRange(1, 4).Draw(t, "shards"),
		DeadlineMs:  rapid.SampledFrom([]int{5, 20, 20, 40}).Draw(t, "deadline"),
		MinBackoff:  rapid.SampledFrom([]int{1, 5, 10}).Draw(t, "minbackoff"),
		MaxBackoff:  rapid.SampledFrom([]int{10, 20}).Draw(t, "maxbackoff"),
		Procs:       rapid.SampledFrom([]int{2, 4, 16}).Draw(t, "procs"),
	}
	c.Capacity = c.MaxPerSend * rapid.SampledFrom([]int{1, 2, 4, 10}).Draw(t, "capfactor")
	gcEvery := 6
	if ev.Thorough() {
		gcEvery = 3
	}
	c.GCWait = rapid.IntRange(0, gcEvery-1).Draw(t, "gcwait") == 0

	if rapid.Bool().Draw(t, "hasext") {
		c.Ext = gen.Lset{{rapid.SampledFrom([]string{"job", "zz", "cluster"}).Draw(t, "extname"), "e1"}}
	}
	sync := gen.Lset{{"__name__", "m1"}, {"zzsync", "1"}}
	nRules := rapid.SampledFrom([]int{0, 1, 1, 2}).Draw(t, "nrules")
	for i := 0; i < nRules; i++ {
		src := rapid.SampledFrom(append([]string{"__name__", "cluster"}, c40Names...)).Draw(t, "src")
		regex := rapid.SampledFrom([]string{"a", "b", "a|b", "m2", "m2|m3", "e1", "x y|ü", "0|1", ".+", ".+"}).Draw(t, "regex")
		var rule c40Relabel
		switch rapid.IntRange(0, 3).Draw(t, "action") {
		case 0, 1:
			rule = c40Relabel{Action: "drop", Source: src, Regex: regex}
		case 2:
			rule = c40Relabel{Action: "labeldrop", Regex: rapid.SampledFrom([]string{"a", "b|le", "zz", "job|instance"}).Draw(t, "dropname")}
		default:
			rule = c40Relabel{Action: "replace", Source: src, Regex: regex, Target: rapid.SampledFrom([]string{"a", "job", "tgt"}).Draw(t, "target"), Repl: rapid.SampledFrom([]string{"r1", ""}).Draw(t, "repl")}
		}
		if _, keep := c40Relabelled(sync, c.Ext, append(append([]c40Relabel(nil), c.Relabel...), rule)); keep {
			c.Relabel = append(c.Relabel, rule)
		}
	}

	c.Series = append(c.Series, c40wSeries{L: sync})
	nSeries := rapid.IntRange(2, 7).Draw(t, "nseries")
	used := map[string]bool{sync.Key(): true}
	for i := 1; i <= nSeries; i++ {
		l := gen.SmallLset(true, 3).Draw(t, "labels")
		if used[l.Key()] {
			l = append(l, [2]string{"zzu", strconv.Itoa(i)})
		}
		used[l.Key()] = true
		c.Series = append(c.Series, c40wSeries{L: l, Hist: rapid.IntRange(0, 3).Draw(t, "histseries") == 0})
	}
	commit := func(label string) c40wOp {
		op := c40wOp{Kind: "commit"}
		for i := 1; i <= nSeries; i++ {
			if rapid.IntRange(0, 2).Draw(t, label+"in") > 0 {
				op.S = append(op.S, i)
				op.Ex = append(op.Ex, rapid.IntRange(0, 4).Draw(t, label+"ex") == 0)
			}
		}
		if rapid.IntRange(0, 5).Draw(t, label+"rev") == 0 {
			for i, j := 0, len(op.S)-1; i < j; i, j = i+1, j-1 {
				op.S[i], op.S[j] = op.S[j], op.S[i]
				op.Ex[i], op.Ex[j] = op.Ex[j], op.Ex[i]
			}
		}
		return op
	}
	nPre := rapid.SampledFrom([]int{0, 0, 1, 3, 6}).Draw(t, "npre")
	for i := 0; i < nPre; i++ {
		if rapid.IntRange(0, 3).Draw(t, "prerot") == 0 {
			c.Pre = append(c.Pre, c40wOp{Kind: "rotate"})
		} else {
			c.Pre = append(c.Pre, commit("pre"))
		}
	}
	nOps := rapid.IntRange(4, 24).Draw(t, "nops")
	for i := 0; i < nOps; i++ {
		switch k := rapid.IntRange(0, 19).Draw(t, "opkind"); {
		case k <= 10:
			c.Ops = append(c.Ops, commit("c"))
		case k <= 13:
			c.Ops = append(c.Ops, c40wOp{Kind: "reshard", N: rapid.IntRange(1, 8).Draw(t, "nshards")})
		case k <= 14:
			c.Ops = append(c.Ops, c40wOp{Kind: "pause", N: rapid.SampledFrom([]int{1, 5, 25, 120}).Draw(t, "pausems")})
		case k <= 17:
			c.Ops = append(c.Ops, c40wOp{Kind: "rotate"})
		default:
			c.Ops = append(c.Ops, c40wOp{Kind: "truncate", N: rapid.IntRange(0, 3).Draw(t, "keepcommits")})
		}
	}
	nF := rapid.SampledFrom([]int{0, 0, 2, 4, 8, 16}).Draw(t, "nfaults")
	for i := 0; i < nF; i++ {
		f := c40Fault{Kind: "ok"}
		switch rapid.IntRange(0, 9).Draw(t, "fault") {
		case 0, 1, 2:
			f.Kind = "rec"
			f.RetryAfter = rapid.SampledFrom([]int{0, 0, 5, 15}).Draw(t, "retryafter")
		case 3:
			f.Kind = "fail"
		}
		f.Latency = rapid.SampledFrom([]int{0, -1, 200, 2000, 10000, 20000}).Draw(t, "latency")
		c.Faults = append(c.Faults, f)
	}
	return c
}

// c40wPlan is the feed in WAL order. Steps with Sync set are synchronisation writes to
// series 0 inserted by the harness (after start, before every truncation, at the end).
type c40wStep struct {
	Kind   string // commit rotate truncate pause reshard gcwait
	Time   int    // commit: time index
	Data   []int  // commit: indexes into Model.Data
	Sync   bool
	N      int
	OpName string
}

func c40wBuild(c c40wCase, base int64) (*c40Model, []c40wStep, int, []c40wSeries) {
	m := &c40Model{}
	series := append([]c40wSeries(nil), c.Series...)
	addSeries := func(s c40wSeries) int {
		l, keep := c40Relabelled(s.L, c.Ext, c.Relabel)
		m.Kept = append(m.Kept, keep)
		m.Labels = append(m.Labels, l)
		return len(m.Kept) - 1
	}
	for _, s := range c.Series {
		addSeries(s)
	}
	var steps []c40wStep
	tick := 0
	add := func(op c40wOp, oi int, pre bool, name string) {
		st := c40wStep{Kind: op.Kind, N: op.N, OpName: name}
		if op.Kind == "commit" {
			tick++
			st.Time = tick
			for k, si := range op.S {
				kinds := []string{"s"}
				if series[si].Hist {
					kinds[0] = "h"
				}
				if k < len(op.Ex) && op.Ex[k] {
					kinds = append(kinds, "e")
				}
				for _, kind := range kinds {
					d := c40Datum{G: len(m.Data) + 1, Series: si, Kind: kind, T: base + int64(tick)*1000, Op: oi}
					switch {
					case !m.Kept[si]:
						d.Why = []string{"dropped_series"}
					case pre:
						d.Opt = true
					default:
						d.Must = true
					}
					st.Data = append(st.Data, len(m.Data))
					m.Data = append(m.Data, d)
				}
			}
		}
		steps = append(steps, st)
	}
	nSync := 0
	syncStep := func(name string) {
		// every synchronisation write goes to a brand-new series (its series record is in the
		// segment being tailed), so the wait does not depend on what is being checked
		nSync++
		l := append(gen.Lset(nil), c.Series[0].L...)
		l[len(l)-1] = [2]string{"zzsync", strconv.Itoa(nSync)}
		series = append(series, c40wSeries{L: l})
		si := addSeries(series[len(series)-1])
		add(c40wOp{Kind: "commit", S: []int{si}}, -1, false, name)
		steps[len(steps)-1].Sync = true
	}
	for i, op := range c.Pre {
		add(op, i, true, fmt.Sprintf("pre %d", i))
	}
	startAt := len(steps)
	syncStep("sync after start")
	for i, op := range c.Ops {
		if op.Kind == "truncate" {
			syncStep(fmt.Sprintf("sync before op %d", i))
		}
		add(op, i, false, fmt.Sprintf("op %d", i))
	}
	if c.GCWait {
		syncStep("sync before gc wait")
		steps = append(steps, c40wStep{Kind: "gcwait"})
		all := c40wOp{Kind: "commit"}
		for i := 1; i < len(c.Series); i++ {
			all.S = append(all.S, i)
		}
		add(all, len(c.Ops), false, "write to every series after the gc wait")
	}
	syncStep("final sync")
	return m, steps, startAt, series
}

const c40wGCWait = 6500 * time.Millisecond // the watcher polls for a new checkpoint every 5s per segment

func c40wExecute(c c40wCase) (*c40Obs, string, string) {
	start := time.Now()
	// the watcher forwards only samples newer than its start time: stay an hour ahead of the wall clock
	base := start.UnixMilli() + 3_600_000
	m, steps, startAt, series := c40wBuild(c, base)
	rcfgs, err := c40RelabelConfigs(c.Relabel)
	if err != nil {
		return nil, "generated relabel rule rejected: " + err.Error(), ""
	}
	dir, err := os.MkdirTemp("", "c40w")
	if err != nil {
		return nil, err.Error(), ""
	}
	defer os.RemoveAll(dir)
	wl, err := wlog.NewSize(nil, nil, filepath.Join(dir, "wal"), 32*1024, compression.None)
	if err != nil {
		return nil, err.Error(), ""
	}
	ho := tsdb.DefaultHeadOptions()
	ho.ChunkRange = 4000
	ho.ChunkDirRoot = dir
	ho.StripeSize = 16
	ho.SamplesPerChunk = 4
	ho.EnableExemplarStorage = true
	ho.MaxExemplars.Store(2000)
	h, err := tsdb.NewHead(nil, promslog.NewNopLogger(), wl, nil, ho, nil)
	if err != nil {
		wl.Close()
		return nil, err.Error(), ""
	}
	defer h.Close()
	if err := h.Init(math.MinInt64); err != nil {
		return nil, "Head.Init: " + err.Error(), ""
	}

	fake := &c40Fake{proto: c.Proto, v1Confirmed: c.V1Confirmed, faults: c.Faults}
	reg := keepRegistry{prometheus.NewRegistry()}
	cfg := config.DefaultQueueConfig
	cfg.MaxSamplesPerSend = c.MaxPerSend
	cfg.Capacity = c.Capacity
	cfg.MinShards = c.Shards
	cfg.MaxShards = 8
	cfg.BatchSendDeadline = model.Duration(time.Duration(c.DeadlineMs) * time.Millisecond)
	cfg.MinBackoff = model.Duration(time.Duration(c.MinBackoff) * time.Millisecond)
	cfg.MaxBackoff = model.Duration(time.Duration(c.MaxBackoff) * time.Millisecond)
	msg := remoteapi.WriteV1MessageType
	if c.Proto == 2 {
		msg = remoteapi.WriteV2MessageType
	}
	prev := runtime.GOMAXPROCS(c.Procs)
	defer runtime.GOMAXPROCS(prev)

	qm := remote.VerifNewQueueManager(reg, dir, cfg, c.Ext.Labels(), rcfgs, fake, c40FlushLimit, msg, true, true)
	obs := &c40Obs{Base: base}
	deadline := start.Add(c40DrainLimit)
	if c.GCWait {
		deadline = deadline.Add(c40wGCWait)
	}
	var classes []string
	inconclusive := ""
	harnessErr := ""
	done := make(chan struct{})
	go func() {
		defer close(done)
		defer func() {
			if p := recover(); p != nil {
				obs.Panic = fmt.Sprintf("%v\n%s", p, debug.Stack())
			}
		}()
		started := false
		defer func() {
			if started {
				t0 := time.Now()
				qm.Stop()
				obs.StopMs = time.Since(t0).Milliseconds()
			}
		}()
		mustFed := 0
		commitTimes := []int64{}
		ctx := context.Background()
		for i, st := range steps {
			if i == startAt {
				qm.Start()
				started = true
			}
			switch st.Kind {
			case "commit":
				if len(st.Data) == 0 {
					continue
				}
				app := h.Appender(ctx)
				var ref storage.SeriesRef
				refs := make([]uint64, 0, len(st.Data))
				for _, di := range st.Data {
					d := m.Data[di]
					lset := series[d.Series].L.Labels()
					var err error
					switch d.Kind {
					case "s":
						ref, err = app.Append(0, lset, d.T, float64(d.G))
					case "h":
						ref, err = app.AppendHistogram(0, lset, d.T, c40Hist(d.G, false), nil)
					case "e":
						_, err = app.AppendExemplar(ref, lset, exemplar.Exemplar{Labels: labels.FromStrings("trace_id", strconv.Itoa(d.G)), Value: float64(d.G), Ts: d.T, HasTs: true})
					}
					refs = append(refs, uint64(ref))
					if err != nil {
						_ = app.Rollback()
						harnessErr = fmt.Sprintf("%s: head rejected %s datum #%d of series %d: %v", st.OpName, d.Kind, d.G, d.Series, err)
						return
					}
				}
				if err := app.Commit(); err != nil {
					harnessErr = fmt.Sprintf("%s: Commit: %v", st.OpName, err)
					return
				}
				commitTimes = append(commitTimes, base+int64(st.Time)*1000)
				for len(obs.FeedRef) < st.Data[0] {
					obs.FeedRef = append(obs.FeedRef, 0)
				}
				obs.FeedRef = append(obs.FeedRef, refs...)
				for _, di := range st.Data {
					if m.Data[di].Must {
						mustFed++
					}
				}
				if started {
					qm.VerifNotify()
				}
				if st.Sync {
					// Liveness wait, bounded: the watcher hands records over in WAL order and each
					// hand-over returns only when the data are queued, so once this write has been
					// answered everything written before it has been queued or dropped.
					g := int64(m.Data[st.Data[0]].G)
					for !fake.isFinished(g) {
						if time.Now().After(deadline) {
							inconclusive = fmt.Sprintf("%s not answered within the bound (%d requests seen)", st.OpName, len(fake.snapshot()))
							fake.setDrain()
							return
						}
						time.Sleep(5 * time.Millisecond)
						qm.VerifNotify()
					}
				}
			case "rotate":
				if _, err := wl.NextSegment(); err != nil {
					harnessErr = "NextSegment: " + err.Error()
					return
				}
				classes = append(classes, "rotate")
			case "truncate":
				if len(commitTimes) == 0 {
					continue
				}
				k := len(commitTimes) - 1 - st.N
				if k < 0 {
					k = 0
				}
				_, cpBefore, cerr := wlog.LastCheckpoint(wl.Dir())
				if cerr != nil {
					cpBefore = -1
				}
				nBefore := h.NumSeries()
				if err := h.Truncate(commitTimes[k]); err != nil {
					harnessErr = "Head.Truncate: " + err.Error()
					return
				}
				classes = append(classes, "truncate")
				if h.NumSeries() < nBefore {
					classes = append(classes, "series-garbage-collected")
				}
				if _, cpAfter, cerr := wlog.LastCheckpoint(wl.Dir()); cerr == nil && cpAfter != cpBefore {
					classes = append(classes, "checkpoint-written")
				}
			case "reshard":
				if started && qm.VerifReshard(st.N) {
					obs.ReshardPending = append(obs.ReshardPending, mustFed-fake.finishedData())
				}
			case "pause":
				time.Sleep(time.Duration(st.N) * time.Millisecond)
			case "gcwait":
				time.Sleep(c40wGCWait)
				classes = append(classes, "gc-wait")
			}
		}
	}()
	select {
	case <-done:
	case <-time.After(time.Until(deadline) + 60*time.Second):
		fake.setDrain()
		select {
		case <-done:
		case <-time.After(30 * time.Second):
		}
		return nil, "run did not finish within the bound", ""
	}
	if harnessErr != "" {
		return nil, "", harnessErr
	}
	if inconclusive != "" {
		return nil, inconclusive, ""
	}
	obs.Reqs = fake.snapshot()
	obs.TotalMs = time.Since(start).Milliseconds()
	obs.Counters = c40Counters(reg)
	obs.Classes = classes
	return obs, "", ""
}

func c40wOracle(c c40wCase, o *c40Obs, r *ev.Rec) error {
	m, _, _, series := c40wBuild(c, o.Base)
	name := func(si int) string { return fmt.Sprintf("%d %v", si, series[si].L) }
	incarnations := map[[2]uint64]bool{}
	for i := range m.Data {
		if i < len(o.FeedRef) {
			m.Data[i].Inc = o.FeedRef[i]
			incarnations[[2]uint64{uint64(m.Data[i].Series), o.FeedRef[i]}] = true
		}
	}
	if len(incarnations) > len(series) {
		r.Class("series-rewritten-under-new-ref")
	}
	if err := c40CheckHistory(m, name, o, false); err != nil {
		return err
	}
	c40Evidence(m, o, r)
	r.Class(fmt.Sprintf("proto:v%d", c.Proto))
	for _, cl := range o.Classes {
		r.Class(cl)
	}
	if len(c.Pre) > 0 {
		r.Class("wal-written-before-start")
	}
	return nil
}

func runC40W(c c40wCase, r *ev.Rec) error {
	if len(c.Series) < 2 || len(c.Series[0].L) == 0 || c.Capacity == 0 {
		r.Discard() // a replay file of another part of C40
		return nil
	}
	for _, op := range c.Ops {
		if op.Kind != "commit" && op.Kind != "rotate" && op.Kind != "truncate" && op.Kind != "pause" && op.Kind != "reshard" {
			r.Discard()
			return nil
		}
	}
	if c.Observed != nil {
		o := c.Observed
		c.Observed = nil
		return c40wOracle(c, o, r)
	}
	obs, inconclusive, harnessErr := c40wExecute(c)
	if harnessErr != "" {
		// the head refused what the generator wrote: a generator problem, not a verdict on remote write
		fmt.Printf("C40 WAL part: harness problem (case discarded): %s\n", harnessErr)
		r.Discard()
		return nil
	}
	if inconclusive != "" {
		fmt.Printf("C40 INCONCLUSIVE (case discarded, not a verdict): %s\n", inconclusive)
		r.Discard()
		return nil
	}
	err := c40wOracle(c, obs, r)
	if err != nil {
		cc := c
		cc.Observed = obs
		if js, jerr := json.Marshal(cc); jerr == nil {
			if p := c40SaveObserved("wal-", js); p != "" {
				if v, ok := err.(*ev.Violation); ok {
					v.Msg += "\n(observed request history saved as " + p + "; replaying it re-checks the recorded history)"
				}
			}
		}
	}
	return err
}

const c40wRule = "a real tsdb head (32KiB WAL segments, explicit segment rotations, Head.Truncate with checkpoints and series garbage collection) writes a generated history of commits (float / native histogram samples, exemplars; 2-7 series, some dropped by write relabelling; optionally commits made before the queue manager starts); the queue manager's own WAL watcher tails the WAL (notified after each commit) and sends to the fake endpoint with a generated fault script; reshard requests and pauses at drawn points; the harness writes a synchronisation sample after start, before each truncation and at the end and waits (bounded) for its answer before going on; some cases wait longer than the watcher's checkpoint poll period and then write to every series again. Non-trivial: at least one reshard was accepted while written data were still unanswered AND at least one recoverably failed request was retried; distinct by hash of the case."

func TestC40WAL(t *testing.T) {
	ev.Check(t, "C40", c40wRule, genC40W, runC40W, ev.Opts{Part: "wal"})
}
