package rwqueue

import (
	"fmt"
	"regexp"
	"sort"
	"strings"

	"verifharness/internal/ev"
	"verifharness/internal/gen"
)

// ---- reference model of what is fed and what must / must not arrive -------------------------------

// c40Datum is one entry handed to the queue manager (float sample, histogram, exemplar).
type c40Datum struct {
	G      int // 1-based feed position, carried in the value / histogram sum
	Series int
	Kind   string // s h e
	Float  bool   // histogram fed through AppendFloatHistograms
	NHCB   bool
	T      int64
	Must   bool     // has to be accepted by the endpoint unless its request is answered non-recoverably
	Opt    bool     // may or may not be sent (written before the queue manager started); never set together with Must
	Why    []string // reasons it must not be sent at all (empty when Must)
	Inc    uint64   // WAL part: the head's series ref at append time. A series that was garbage collected by the
	// head and written again is a new WAL series (new ref); remote write orders per WAL series.
	Op     int
}

type c40Model struct {
	Data   []c40Datum
	OpData [][]int  // per op: indexes into Data
	Kept   []bool   // per series: survives write relabelling
	Labels []string // per series: canonical labels the endpoint must see
}

const (
	c40FixedBase   int64 = 1_700_000_000_000
	c40AgeLimitMs  int64 = 30 * 60 * 1000
	c40OldOffsetMs int64 = 3 * 60 * 60 * 1000 // "old" data lie 3h in the past: 2.5h beyond the limit
	c40FreshOffset int64 = 60 * 1000          // fresh data lie one minute in the past: 29 min inside the limit
)

// c40Relabelled applies, from the documentation of remote_write: external labels are
// attached to a series unless it already has a label of that name, then
// write_relabel_configs run in order (regex fully anchored; drop/keep decide on the
// source label value; labeldrop removes matching label names; replace with a constant
// replacement sets the target label when the source value matches, an empty value
// removing the label).
func c40Relabelled(orig, ext gen.Lset, rules []c40Relabel) (string, bool) {
	m := map[string]string{}
	for _, p := range orig {
		m[p[0]] = p[1]
	}
	for _, p := range ext {
		if m[p[0]] == "" {
			m[p[0]] = p[1]
		}
	}
	for _, r := range rules {
		re := regexp.MustCompile("^(?s:" + r.Regex + ")$")
		switch r.Action {
		case "drop":
			if re.MatchString(m[r.Source]) {
				return "", false
			}
		case "keep":
			if !re.MatchString(m[r.Source]) {
				return "", false
			}
		case "labeldrop":
			for k := range m {
				if re.MatchString(k) {
					delete(m, k)
				}
			}
		case "replace":
			if re.MatchString(m[r.Source]) {
				if r.Repl == "" {
					delete(m, r.Target)
				} else {
					m[r.Target] = r.Repl
				}
			}
		}
	}
	pairs := make([][2]string, 0, len(m))
	for k, v := range m {
		if v != "" {
			pairs = append(pairs, [2]string{k, v})
		}
	}
	return canonLabels(pairs), true
}

func c40BuildModel(c c40Case, base int64) *c40Model {
	m := &c40Model{OpData: make([][]int, len(c.Ops))}
	for _, s := range c.Series {
		l, keep := c40Relabelled(s.L, c.Ext, c.Relabel)
		m.Kept = append(m.Kept, keep)
		m.Labels = append(m.Labels, l)
	}
	known := make([]bool, len(c.Series))
	seg := make([]int, len(c.Series))
	tsSeq := make([]int64, len(c.Series))
	for oi, op := range c.Ops {
		switch op.Kind {
		case "series":
			for _, si := range op.S {
				known[si] = true
				seg[si] = op.Seg
			}
		case "reset":
			// what the WAL watcher does when it finds a new checkpoint: series present in the
			// checkpoint are re-tagged with its index, then everything tagged lower is forgotten
			for _, si := range op.S {
				if known[si] {
					seg[si] = op.Seg
				}
			}
			for si := range known {
				if known[si] && seg[si] < op.Seg {
					known[si] = false
				}
			}
		case "samples", "hist", "fhist", "exemplars":
			for k, si := range op.S {
				d := c40Datum{G: len(m.Data) + 1, Series: si, Op: oi}
				switch op.Kind {
				case "samples":
					d.Kind = "s"
				case "exemplars":
					d.Kind = "e"
				default:
					d.Kind = "h"
					d.Float = op.Kind == "fhist"
					d.NHCB = k < len(op.NHCB) && op.NHCB[k]
				}
				old := c.AgeLimit && k < len(op.Old) && op.Old[k]
				tsSeq[si]++
				switch {
				case !c.AgeLimit:
					d.T = base + tsSeq[si]*1000
				case old:
					d.T = base - c40OldOffsetMs + tsSeq[si]*10
				default:
					d.T = base - c40FreshOffset + tsSeq[si]*10
				}
				if d.Kind == "e" && !c.Exemplars || d.Kind == "h" && !c.Histograms {
					d.Why = append(d.Why, "disabled")
				} else {
					if old {
						d.Why = append(d.Why, "too_old")
					}
					if d.Kind == "h" && d.NHCB && c.Proto == 1 {
						d.Why = append(d.Why, "nhcb_in_rw1_not_supported")
					}
					switch {
					case !known[si]:
						d.Why = append(d.Why, "unintentionally_dropped_series")
					case !m.Kept[si]:
						d.Why = append(d.Why, "dropped_series")
					}
				}
				d.Must = len(d.Why) == 0
				m.OpData[oi] = append(m.OpData[oi], len(m.Data))
				m.Data = append(m.Data, d)
			}
		}
	}
	return m
}

// ---- observed history and the interleaving-independent invariant ---------------------------------

type c40Obs struct {
	Base           int64
	Reqs           []c40Req
	ReshardPending []int              // per accepted reshard: data fed as "must" and not yet answered at that moment
	Counters       map[string]float64 `json:",omitempty"`
	Panic          string             `json:",omitempty"`
	FeedT          []int64            `json:",omitempty"` // ageing part: timestamps actually fed, per datum
	FeedRef        []uint64           `json:",omitempty"` // WAL part: series ref the head returned, per datum
	Classes        []string           `json:",omitempty"` // what the driver saw happen (WAL part: truncations, checkpoints, ...)
	StopMs         int64
	TotalMs        int64
}

func class(kind string) string {
	if kind == "e" {
		return "exemplar"
	}
	return "sample"
}

func c40Oracle(c c40Case, o *c40Obs, r *ev.Rec) error {
	m := c40BuildModel(c, o.Base)
	name := func(si int) string { return fmt.Sprintf("%d ref %d", si, c.Series[si].Ref) }
	if err := c40CheckHistory(m, name, o, true); err != nil {
		return err
	}
	c40Evidence(m, o, r)
	r.Class(fmt.Sprintf("proto:v%d", c.Proto))
	if c.AgeLimit {
		r.Class("age-limit")
	}
	if c.StopNow {
		r.Class("stop-immediately")
	}
	return nil
}

// c40CheckHistory is the invariant itself: a pure function of the model of what was fed
// and of the request history recorded by the fake endpoint.
func c40CheckHistory(m *c40Model, name func(int) string, o *c40Obs, droppedCounters bool) error {
	if o.Panic != "" {
		return ev.Failf("panic on the feeding goroutine: %s", o.Panic)
	}
	reqs := append([]c40Req(nil), o.Reqs...)
	sort.Slice(reqs, func(i, j int) bool { return reqs[i].Arr < reqs[j].Arr })

	describe := func(d c40Datum) string {
		return fmt.Sprintf("#%d (op %d, %s of series %s, t=%d)", d.G, d.Op, d.Kind, name(d.Series), d.T)
	}
	anyFailure := false
	for _, q := range reqs {
		if q.Outcome != "ok" {
			anyFailure = true
		}
	}

	okCount := map[int]int{}
	allCount := map[int]int{}
	inFail := map[int]bool{}
	failed := map[string]int{}
	for qi, q := range reqs {
		if q.Bad != "" {
			return ev.Failf("request %d (attempt %d) cannot be decoded: %s", qi, q.Attempt, q.Bad)
		}
		if q.Done == 0 {
			return ev.Failf("request %d was never answered (harness error)", qi)
		}
		for _, d := range q.Data {
			if d.Bad != "" {
				return ev.Failf("request %d (outcome %s, attempt %d): %s with labels {%s}", qi, q.Outcome, q.Attempt, d.Bad, d.L)
			}
			if d.G <= 0 || int(d.G) > len(m.Data) {
				return ev.Failf("request %d: received a %s at t=%d labels {%s} whose value identifies nothing that was fed (%d data fed)", qi, d.Kind, d.T, d.L, len(m.Data))
			}
			md := m.Data[d.G-1]
			if md.Kind != d.Kind || md.T != d.T {
				return ev.Failf("request %d: fed %s but received kind %s t=%d", qi, describe(md), d.Kind, d.T)
			}
			if !md.Must && !md.Opt {
				return ev.Failf("request %d (outcome %s): %s was sent although it must not be (%s); labels on the wire {%s}",
					qi, q.Outcome, describe(md), strings.Join(md.Why, "+"), d.L)
			}
			if d.L != m.Labels[md.Series] {
				return ev.Failf("request %d: %s sent with labels {%s}, want {%s} (external labels + write relabelling applied to the series labels)",
					qi, describe(md), d.L, m.Labels[md.Series])
			}
			allCount[int(d.G)]++
			switch q.Outcome {
			case "ok":
				okCount[int(d.G)]++
			case "fail":
				inFail[int(d.G)] = true
				failed[d.Kind]++
			}
		}
	}
	for g, n := range okCount {
		if n > 1 {
			return ev.Failf("%s was accepted by the endpoint %d times", describe(m.Data[g-1]), n)
		}
	}
	if !anyFailure {
		for g, n := range allCount {
			if n > 1 {
				return ev.Failf("no request failed, yet %s was sent %d times", describe(m.Data[g-1]), n)
			}
		}
	}
	// completeness
	for _, d := range m.Data {
		if d.Must && okCount[d.G] == 0 && !inFail[d.G] {
			sent := allCount[d.G]
			return ev.Failf("%s was never accepted by the endpoint (seen in %d requests, none answered non-recoverably); %d requests in total, %d reshards",
				describe(d), sent, len(reqs), len(o.ReshardPending))
		}
	}
	// per-series order over the accepted requests, in arrival order
	type key struct {
		s   int
		inc uint64
		c   string
	}
	last := map[key]int{}
	for qi, q := range reqs {
		if q.Outcome != "ok" {
			continue
		}
		for _, d := range q.Data {
			md := m.Data[d.G-1]
			k := key{md.Series, md.Inc, class(md.Kind)}
			if prev := last[k]; prev > md.G {
				return ev.Failf("series %s: %s accepted (request %d, arrival event %d) after the later %s",
					name(md.Series), describe(md), qi, q.Arr, describe(m.Data[prev-1]))
			}
			last[k] = md.G
		}
	}
	// two requests carrying the same series must never be in flight at the same time:
	// the endpoint could not tell their order
	lastDone := map[key][2]int{}
	for qi, q := range reqs {
		seen := map[key]bool{}
		for _, d := range q.Data {
			md := m.Data[d.G-1]
			k := key{md.Series, md.Inc, class(md.Kind)}
			if seen[k] {
				continue
			}
			seen[k] = true
			if p, ok := lastDone[k]; ok && q.Arr < p[0] {
				return ev.Failf("series %s: request %d arrived (event %d) while request %d carrying the same series was still unanswered (answered at event %d)",
					name(md.Series), qi, q.Arr, p[1], p[0])
			}
		}
		for k := range seen {
			if p, ok := lastDone[k]; !ok || q.Done > p[0] {
				lastDone[k] = [2]int{q.Done, qi}
			}
		}
	}
	// counters
	if o.Counters != nil {
		for _, kc := range [][2]string{{"s", "samples"}, {"h", "histograms"}, {"e", "exemplars"}} {
			name := "prometheus_remote_storage_" + kc[1] + "_failed_total"
			if got := o.Counters[name]; int(got) != failed[kc[0]] {
				return ev.Failf("%s = %v, but the endpoint answered non-recoverably to requests carrying %d %s", name, got, failed[kc[0]], kc[1])
			}
			if !droppedCounters {
				continue
			}
			only := map[string]int{}
			has := map[string]int{}
			total := 0
			for _, d := range m.Data {
				if d.Kind != kc[0] || d.Must || d.Opt || d.Why[0] == "disabled" {
					continue
				}
				total++
				for _, w := range d.Why {
					has[w]++
				}
				if len(d.Why) == 1 {
					only[d.Why[0]]++
				}
			}
			prefix := "prometheus_remote_storage_" + kc[1] + "_dropped_total"
			sum := 0
			for n, v := range o.Counters {
				if strings.HasPrefix(n, prefix+"{") {
					reason := strings.TrimSuffix(strings.TrimPrefix(n, prefix+"{"), "}")
					sum += int(v)
					if int(v) < only[reason] || int(v) > has[reason] {
						return ev.Failf("%s{reason=%q} = %v, model expects between %d and %d", prefix, reason, v, only[reason], has[reason])
					}
				}
			}
			if sum != total {
				return ev.Failf("%s sums to %d over all reasons, but %d %s were fed that must not be sent", prefix, sum, total, kc[1])
			}
		}
	}
	return nil
}

// c40Evidence records classes and the non-trivial rule (read from the fake endpoint's
// history and the feeder's notes, not from the code under test).
func c40Evidence(m *c40Model, o *c40Obs, r *ev.Rec) {
	reqs := o.Reqs
	anyFailure, anyRetry, anyFail := false, false, false
	for _, q := range reqs {
		if q.Outcome != "ok" {
			anyFailure = true
		}
		if q.Outcome == "fail" {
			anyFail = true
		}
		if q.Attempt > 0 {
			anyRetry = true
		}
	}
	pendingReshard := false
	for _, p := range o.ReshardPending {
		if p > 0 {
			pendingReshard = true
		}
	}
	retried := false
	for _, q := range reqs {
		if q.Outcome == "rec" {
			retried = anyRetry
		}
	}
	if pendingReshard {
		r.Class("reshard-while-pending")
	}
	if len(o.ReshardPending) > 0 {
		r.Class("reshard")
	}
	if retried {
		r.Class("recoverable-retried")
	}
	if anyFail {
		r.Class("non-recoverable")
	}
	if !anyFailure {
		r.Class("no-failure")
	}
	why := map[string]bool{}
	kinds := map[string]bool{}
	for _, d := range m.Data {
		for _, w := range d.Why {
			why[w] = true
		}
		if d.Must {
			kinds[d.Kind] = true
		}
	}
	for w := range why {
		r.Class("notsent:" + w)
	}
	for k := range kinds {
		r.Class("sent-kind:" + k)
	}
	r.Count("requests", len(reqs))
	if pendingReshard && retried {
		r.NonTrivial()
	}
}
