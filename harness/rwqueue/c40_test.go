package rwqueue

import (
	"encoding/json"
	"fmt"
	"os"
	"path/filepath"
	"runtime"
	"runtime/debug"
	"strconv"
	"strings"
	"testing"
	"time"

	remoteapi "github.com/prometheus/client_golang/exp/api/remote"
	"github.com/prometheus/client_golang/prometheus"
	"github.com/prometheus/common/model"
	"github.com/prometheus/prometheus/config"
	"github.com/prometheus/prometheus/model/histogram"
	"github.com/prometheus/prometheus/model/labels"
	"github.com/prometheus/prometheus/model/relabel"
	"github.com/prometheus/prometheus/storage/remote"
	"github.com/prometheus/prometheus/tsdb/chunks"
	"github.com/prometheus/prometheus/tsdb/record"
	"pgregory.net/rapid"

	"verifharness/internal/ev"
	"verifharness/internal/gen"
)

// C40 — remote write delivers every sample, per series in order, despite resharding and
// retries (direct drive: the queue manager is fed through the WriteTo entry points the WAL
// watcher uses, from one goroutine, in WAL order).

type c40Relabel struct {
	Action string // drop keep labeldrop replace
	Source string `json:",omitempty"`
	Regex  string
	Target string `json:",omitempty"`
	Repl   string `json:",omitempty"`
}

type c40Series struct {
	Ref uint64
	L   gen.Lset
}

type c40Op struct {
	Kind string // series meta samples hist fhist exemplars reshard pause reset
	S    []int  `json:",omitempty"` // series indexes, one per record entry (reset: series retained by the checkpoint)
	Old  []bool `json:",omitempty"` // per entry: timestamp far beyond the age limit
	NHCB []bool `json:",omitempty"` // per entry (hist/fhist): custom-bucket histogram
	Seg  int    `json:",omitempty"` // series/reset: WAL segment / checkpoint index
	N    int    `json:",omitempty"` // reshard: target shard count; pause: milliseconds
}

type c40Case struct {
	Proto       int // 1: prometheus.WriteRequest, 2: io.prometheus.write.v2.Request
	V1Confirmed bool
	MaxPerSend  int
	Capacity    int
	Shards      int
	DeadlineMs  int
	MinBackoff  int // ms
	MaxBackoff  int // ms
	AgeLimit    bool
	Exemplars   bool
	Histograms  bool
	Procs       int
	StopNow     bool // Stop right after the last op instead of after a pause
	Ext         gen.Lset
	Relabel     []c40Relabel `json:",omitempty"`
	Series      []c40Series
	Ops         []c40Op
	Faults      []c40Fault `json:",omitempty"`
	// Observed, when set, makes the run a pure re-check of a recorded history (saved
	// next to a failing case because real concurrency does not replay from the seed).
	Observed *c40Obs `json:",omitempty"`
}

var c40Values = []string{"a", "b", "ab", "m1", "m2", "x y", "ü", "0", "1"}
var c40Names = []string{"a", "b", "job", "instance", "le", "zz"}

func genC40(t *rapid.T) c40Case {
	c := c40Case{
		Proto:       rapid.IntRange(1, 2).Draw(t, "proto"),
		V1Confirmed: rapid.Bool().Draw(t, "v1confirmed"),
		MaxPerSend:  rapid.SampledFrom([]int{1, 2, 3, 5, 8}).Draw(t, "maxpersend"),
		Shards:      rapid.IntRange(1, 4).Draw(t, "shards"),
		DeadlineMs:  rapid.SampledFrom([]int{5, 20, 20, 40}).Draw(t, "deadline"),
		MinBackoff:  rapid.SampledFrom([]int{1, 5, 10}).Draw(t, "minbackoff"),
		MaxBackoff:  rapid.SampledFrom([]int{10, 20}).Draw(t, "maxbackoff"),
		AgeLimit:    rapid.IntRange(0, 3).Draw(t, "agelimit") == 0,
		Exemplars:   rapid.IntRange(0, 3).Draw(t, "sendexemplars") > 0,
		Histograms:  rapid.IntRange(0, 3).Draw(t, "sendhist") > 0,
		Procs:       rapid.SampledFrom([]int{1, 2, 4, 16}).Draw(t, "procs"),
		StopNow:     rapid.Bool().Draw(t, "stopnow"),
	}
	c.Capacity = c.MaxPerSend * rapid.SampledFrom([]int{1, 1, 2, 4, 10}).Draw(t, "capfactor")

	// external labels and write relabelling
	nExt := rapid.IntRange(0, 2).Draw(t, "next")
	usedExt := map[string]bool{}
	for i := 0; i < nExt; i++ {
		n := rapid.SampledFrom([]string{"job", "zz", "cluster", "a"}).Draw(t, "extname")
		if usedExt[n] {
			continue
		}
		usedExt[n] = true
		c.Ext = append(c.Ext, [2]string{n, rapid.SampledFrom([]string{"e1", "a", "m1"}).Draw(t, "extvalue")})
	}
	nRules := rapid.SampledFrom([]int{0, 1, 1, 2, 3}).Draw(t, "nrules")
	for i := 0; i < nRules; i++ {
		src := rapid.SampledFrom(append([]string{"__name__", "cluster"}, c40Names...)).Draw(t, "src")
		regex := rapid.SampledFrom([]string{"a", "b", "a|b", "m1", "m2|m3", "e1", ".+", "", "x y|ü", "0|1"}).Draw(t, "regex")
		switch rapid.IntRange(0, 5).Draw(t, "action") {
		case 0, 1:
			c.Relabel = append(c.Relabel, c40Relabel{Action: "drop", Source: src, Regex: regex})
		case 2:
			// keep with a permissive regex, otherwise nearly everything is dropped
			c.Relabel = append(c.Relabel, c40Relabel{Action: "keep", Source: "__name__", Regex: rapid.SampledFrom([]string{"m1|m2", "m2|m3", "m.", "m1|m3"}).Draw(t, "keepregex")})
		case 3:
			c.Relabel = append(c.Relabel, c40Relabel{Action: "labeldrop", Regex: rapid.SampledFrom([]string{"a", "b|le", "zz", "job|instance", "cluster"}).Draw(t, "dropname")})
		default:
			c.Relabel = append(c.Relabel, c40Relabel{Action: "replace", Source: src, Regex: regex,
				Target: rapid.SampledFrom([]string{"a", "job", "tgt", "cluster"}).Draw(t, "target"),
				Repl:   rapid.SampledFrom([]string{"r1", "r2", ""}).Draw(t, "repl")})
		}
	}

	// series: refs collide modulo small shard counts in different ways
	nSeries := rapid.IntRange(2, 8).Draw(t, "nseries")
	refStride := rapid.SampledFrom([]uint64{1, 1, 2, 3, 4, 8}).Draw(t, "refstride")
	ref := rapid.SampledFrom([]uint64{1, 1, 7, 1000, 1 << 40}).Draw(t, "ref0")
	usedL := map[string]bool{}
	for i := 0; i < nSeries; i++ {
		l := gen.SmallLset(true, 3).Draw(t, "labels")
		if usedL[l.Key()] {
			// distinct refs have distinct label sets in a head; make it so
			l = append(l, [2]string{"zzu", strconv.Itoa(i)})
		}
		usedL[l.Key()] = true
		c.Series = append(c.Series, c40Series{Ref: ref, L: l})
		ref += refStride * uint64(rapid.IntRange(1, 2).Draw(t, "refstep"))
	}

	// history
	stored := make([]bool, nSeries)
	var storedIdx []int
	store := func(idx []int, seg int) {
		c.Ops = append(c.Ops, c40Op{Kind: "series", S: idx, Seg: seg})
		for _, i := range idx {
			if !stored[i] {
				stored[i] = true
				storedIdx = append(storedIdx, i)
			}
		}
	}
	seg := 0
	first := rapid.IntRange(1, nSeries).Draw(t, "firststored")
	var idx []int
	for i := 0; i < first; i++ {
		idx = append(idx, i)
	}
	store(idx, seg)
	nOps := rapid.IntRange(4, 24).Draw(t, "nops")
	pick := func() int {
		if rapid.IntRange(0, 14).Draw(t, "anyseries") == 0 {
			return rapid.IntRange(0, nSeries-1).Draw(t, "si")
		}
		return storedIdx[rapid.IntRange(0, len(storedIdx)-1).Draw(t, "sstored")]
	}
	for i := 0; i < nOps; i++ {
		switch k := rapid.IntRange(0, 19).Draw(t, "opkind"); {
		case k <= 8:
			kind := "samples"
			switch rapid.IntRange(0, 9).Draw(t, "datakind") {
			case 0, 1:
				kind = "hist"
			case 2:
				kind = "fhist"
			case 3, 4:
				kind = "exemplars"
			}
			n := rapid.IntRange(1, 8).Draw(t, "n")
			if rapid.IntRange(0, 9).Draw(t, "bigbatch") == 0 {
				n = rapid.IntRange(10, 30).Draw(t, "nbig")
			}
			op := c40Op{Kind: kind}
			// a WAL record usually holds one sample per series, in series order; sometimes a burst of one series
			burst := rapid.IntRange(0, 3).Draw(t, "burst") == 0
			bs := pick()
			for j := 0; j < n; j++ {
				if burst {
					op.S = append(op.S, bs)
				} else {
					op.S = append(op.S, pick())
				}
				if c.AgeLimit {
					op.Old = append(op.Old, rapid.IntRange(0, 4).Draw(t, "old") == 0)
				}
				if kind == "hist" || kind == "fhist" {
					op.NHCB = append(op.NHCB, rapid.IntRange(0, 4).Draw(t, "nhcb") == 0)
				}
			}
			c.Ops = append(c.Ops, op)
		case k <= 12:
			c.Ops = append(c.Ops, c40Op{Kind: "reshard", N: rapid.IntRange(1, 8).Draw(t, "nshards")})
		case k <= 14:
			c.Ops = append(c.Ops, c40Op{Kind: "pause", N: rapid.SampledFrom([]int{1, 5, 25, 50}).Draw(t, "pausems")})
		case k <= 16:
			// new series appear (or known ones are logged again, as after a checkpoint)
			var idx []int
			for j := 0; j < nSeries; j++ {
				if !stored[j] && rapid.Bool().Draw(t, "storenew") || stored[j] && rapid.IntRange(0, 5).Draw(t, "restore") == 0 {
					idx = append(idx, j)
				}
			}
			if len(idx) > 0 {
				store(idx, seg)
			}
		case k == 17:
			seg += rapid.IntRange(1, 2).Draw(t, "segstep")
			op := c40Op{Kind: "reset", Seg: seg}
			for _, j := range storedIdx {
				if rapid.IntRange(0, 3).Draw(t, "retained") > 0 {
					op.S = append(op.S, j)
				}
			}
			c.Ops = append(c.Ops, op)
		case k == 18:
			c.Ops = append(c.Ops, c40Op{Kind: "meta", S: []int{pick()}, N: rapid.IntRange(1, 3).Draw(t, "metaversion")})
		default:
			seg++ // segment rotation: later series records carry the new index
		}
	}

	// fault script, consumed in arrival order
	nF := rapid.SampledFrom([]int{0, 0, 2, 4, 8, 16}).Draw(t, "nfaults")
	for i := 0; i < nF; i++ {
		f := c40Fault{Kind: "ok"}
		switch rapid.IntRange(0, 9).Draw(t, "fault") {
		case 0, 1, 2:
			f.Kind = "rec"
			f.RetryAfter = rapid.SampledFrom([]int{0, 0, 5, 15}).Draw(t, "retryafter")
		case 3:
			f.Kind = "fail"
		}
		f.Latency = rapid.SampledFrom([]int{0, -1, 200, 2000, 10000, 20000}).Draw(t, "latency")
		c.Faults = append(c.Faults, f)
	}
	return c
}

// keepRegistry keeps the collectors after the queue manager unregisters them in Stop,
// so the counters can be read once everything is quiet.
type keepRegistry struct{ *prometheus.Registry }

func (keepRegistry) Unregister(prometheus.Collector) bool { return true }

func c40RelabelConfigs(rules []c40Relabel) ([]*relabel.Config, error) {
	var out []*relabel.Config
	for _, r := range rules {
		cfg := relabel.DefaultRelabelConfig
		cfg.Action = relabel.Action(r.Action)
		if r.Source != "" {
			cfg.SourceLabels = model.LabelNames{model.LabelName(r.Source)}
		}
		re, err := relabel.NewRegexp(r.Regex)
		if err != nil {
			return nil, err
		}
		cfg.Regex = re
		if r.Action == "replace" {
			cfg.TargetLabel = r.Target
			cfg.Replacement = r.Repl
		}
		cfg.NameValidationScheme = model.UTF8Validation
		if err := cfg.Validate(model.UTF8Validation); err != nil {
			return nil, err
		}
		out = append(out, &cfg)
	}
	return out, nil
}

func c40Hist(g int, nhcb bool) *histogram.Histogram {
	h := &histogram.Histogram{
		Count:           3,
		Sum:             float64(g),
		PositiveSpans:   []histogram.Span{{Offset: 0, Length: 2}},
		PositiveBuckets: []int64{1, 1},
	}
	if nhcb {
		h.Schema = histogram.CustomBucketsSchema
		h.CustomValues = []float64{1, 2}
	}
	return h
}

const (
	c40DrainLimit = 60 * time.Second
	c40FlushLimit = 5 * time.Minute // never reached: the watchdog gives up long before
)

// c40Execute runs the real queue manager against the fake endpoint. The returned string
// is non-empty when the run is inconclusive (did not become quiet within the bound).
func c40Execute(c c40Case) (*c40Obs, string) {
	start := time.Now()
	base := c40FixedBase
	if c.AgeLimit {
		// the age limit is defined against the wall clock; the generated history only
		// fixes offsets far inside / far outside the limit
		base = start.UnixMilli()
	}
	m := c40BuildModel(c, base)
	rcfgs, err := c40RelabelConfigs(c.Relabel)
	if err != nil {
		return nil, "generated relabel rule rejected: " + err.Error()
	}
	dir, err := os.MkdirTemp("", "c40")
	if err != nil {
		return nil, err.Error()
	}
	defer os.RemoveAll(dir)

	fake := &c40Fake{proto: c.Proto, v1Confirmed: c.V1Confirmed, faults: c.Faults}
	reg := keepRegistry{prometheus.NewRegistry()}
	cfg := config.DefaultQueueConfig
	cfg.MaxSamplesPerSend = c.MaxPerSend
	cfg.Capacity = c.Capacity
	cfg.MinShards = c.Shards
	cfg.MaxShards = 8
	cfg.BatchSendDeadline = model.Duration(time.Duration(c.DeadlineMs) * time.Millisecond)
	cfg.MinBackoff = model.Duration(time.Duration(c.MinBackoff) * time.Millisecond)
	cfg.MaxBackoff = model.Duration(time.Duration(c.MaxBackoff) * time.Millisecond)
	if c.AgeLimit {
		cfg.SampleAgeLimit = model.Duration(time.Duration(c40AgeLimitMs) * time.Millisecond)
	}
	msg := remoteapi.WriteV1MessageType
	if c.Proto == 2 {
		msg = remoteapi.WriteV2MessageType
	}
	prev := runtime.GOMAXPROCS(c.Procs)
	defer runtime.GOMAXPROCS(prev)

	qm := remote.VerifNewQueueManager(reg, dir, cfg, c.Ext.Labels(), rcfgs, fake, c40FlushLimit, msg, c.Exemplars, c.Histograms)
	obs := &c40Obs{Base: base}
	done := make(chan struct{})
	go func() {
		defer close(done)
		defer func() {
			if p := recover(); p != nil {
				obs.Panic = fmt.Sprintf("%v\n%s", p, debug.Stack())
			}
		}()
		qm.Start()
		mustFed := 0
		for oi, op := range c.Ops {
			ds := m.OpData[oi]
			switch op.Kind {
			case "series":
				var recs []record.RefSeries
				for _, si := range op.S {
					recs = append(recs, record.RefSeries{Ref: chunks.HeadSeriesRef(c.Series[si].Ref), Labels: c.Series[si].L.Labels()})
				}
				qm.StoreSeries(recs, op.Seg)
			case "reset":
				var recs []record.RefSeries
				for _, si := range op.S {
					recs = append(recs, record.RefSeries{Ref: chunks.HeadSeriesRef(c.Series[si].Ref), Labels: c.Series[si].L.Labels()})
				}
				qm.UpdateSeriesSegment(recs, op.Seg)
				qm.SeriesReset(op.Seg)
			case "meta":
				si := op.S[0]
				qm.StoreMetadata([]record.RefMetadata{{Ref: chunks.HeadSeriesRef(c.Series[si].Ref), Type: uint8(record.Counter), Unit: "u" + strconv.Itoa(op.N), Help: "help " + strconv.Itoa(op.N)}})
			case "samples":
				var recs []record.RefSample
				for _, di := range ds {
					d := m.Data[di]
					recs = append(recs, record.RefSample{Ref: chunks.HeadSeriesRef(c.Series[d.Series].Ref), T: d.T, V: float64(d.G)})
				}
				qm.Append(recs)
			case "exemplars":
				var recs []record.RefExemplar
				for _, di := range ds {
					d := m.Data[di]
					recs = append(recs, record.RefExemplar{Ref: chunks.HeadSeriesRef(c.Series[d.Series].Ref), T: d.T, V: float64(d.G), Labels: labels.FromStrings("trace_id", strconv.Itoa(d.G))})
				}
				qm.AppendExemplars(recs)
			case "hist":
				var recs []record.RefHistogramSample
				for _, di := range ds {
					d := m.Data[di]
					recs = append(recs, record.RefHistogramSample{Ref: chunks.HeadSeriesRef(c.Series[d.Series].Ref), T: d.T, H: c40Hist(d.G, d.NHCB)})
				}
				qm.AppendHistograms(recs)
			case "fhist":
				var recs []record.RefFloatHistogramSample
				for _, di := range ds {
					d := m.Data[di]
					recs = append(recs, record.RefFloatHistogramSample{Ref: chunks.HeadSeriesRef(c.Series[d.Series].Ref), T: d.T, FH: c40Hist(d.G, d.NHCB).ToFloat(nil)})
				}
				qm.AppendFloatHistograms(recs)
			case "reshard":
				if qm.VerifReshard(op.N) {
					obs.ReshardPending = append(obs.ReshardPending, mustFed-fake.finishedData())
				}
			case "pause":
				time.Sleep(time.Duration(op.N) * time.Millisecond)
			}
			for _, di := range ds {
				if m.Data[di].Must {
					mustFed++
				}
			}
		}
		if !c.StopNow {
			time.Sleep(time.Duration(2*c.DeadlineMs) * time.Millisecond)
		}
		t0 := time.Now()
		qm.Stop()
		obs.StopMs = time.Since(t0).Milliseconds()
	}()

	timer := time.NewTimer(c40DrainLimit)
	defer timer.Stop()
	select {
	case <-done:
	case <-timer.C:
		// Not quiet within the bound: not a verdict. Let everything through so the
		// goroutines can finish, give them a moment, and report the run as unusable.
		fake.setDrain()
		select {
		case <-done:
		case <-time.After(30 * time.Second):
		}
		return nil, fmt.Sprintf("history did not drain within %s (%d requests seen)", c40DrainLimit, len(fake.snapshot()))
	}
	obs.Reqs = fake.snapshot()
	obs.TotalMs = time.Since(start).Milliseconds()
	obs.Counters = c40Counters(reg)
	return obs, ""
}

// c40Counters reads the failed/dropped counters of the queue manager from the registry.
func c40Counters(reg prometheus.Gatherer) map[string]float64 {
	out := map[string]float64{}
	mfs, err := reg.Gather()
	if err != nil {
		return nil
	}
	for _, mf := range mfs {
		name := mf.GetName()
		if !strings.HasSuffix(name, "_failed_total") && !strings.HasSuffix(name, "_dropped_total") {
			continue
		}
		for _, mt := range mf.GetMetric() {
			key := name
			for _, lp := range mt.GetLabel() {
				if lp.GetName() == "reason" {
					key = name + "{" + lp.GetValue() + "}"
				}
			}
			if mt.GetCounter() != nil {
				out[key] += mt.GetCounter().GetValue()
			}
		}
	}
	return out
}

// c40SaveObserved keeps a failing case together with the observed request history: the
// verdict is about that history, and the schedule will not replay from the seed.
func c40SaveObserved(prefix string, js []byte) string {
	root := os.Getenv("VERIF_ROOT")
	if root == "" {
		root = "/verif"
	}
	tag := os.Getenv("VERIF_SHARD_TAG")
	if tag == "" {
		tag = "local"
	}
	p := filepath.Join(root, "replays", "C40", "fail-observed-"+prefix+tag+".json")
	if os.MkdirAll(filepath.Dir(p), 0o755) != nil || os.WriteFile(p, js, 0o644) != nil {
		return ""
	}
	return p
}

func runC40(c c40Case, r *ev.Rec) error {
	if len(c.Series) == 0 || len(c.Ops) == 0 || c.Ops[0].Kind != "series" {
		r.Discard() // a replay file of another part of C40
		return nil
	}
	if c.Observed != nil {
		o := c.Observed
		c.Observed = nil
		return c40Oracle(c, o, r)
	}
	obs, inconclusive := c40Execute(c)
	if inconclusive != "" {
		fmt.Printf("C40 INCONCLUSIVE (case discarded, not a verdict): %s\n", inconclusive)
		r.Discard()
		return nil
	}
	err := c40Oracle(c, obs, r)
	if err != nil {
		// the verdict is about this observed history; keep it, the schedule will not replay
		cc := c
		cc.Observed = obs
		if js, jerr := json.Marshal(cc); jerr == nil {
			if p := c40SaveObserved("", js); p != "" {
				if v, ok := err.(*ev.Violation); ok {
					v.Msg += "\n(observed request history saved as " + p + "; replaying it re-checks the recorded history)"
				}
			}
		}
	}
	return err
}

const c40Rule = "a queue manager (protocol 1.0 or 2.0, 1-4 initial shards, max_samples_per_send 1-8, capacity 1-10 batches, batch deadline 5-40ms, backoff 1-20ms, sample age limit on/off, external labels, 0-3 write relabel rules) is fed from one goroutine with a generated history of series/metadata records, float sample / histogram / float histogram / exemplar records (incl. data of relabel-dropped, never stored and checkpoint-forgotten series, data far beyond the age limit), reshard requests, pauses, checkpoint resets, then stopped; the fake endpoint answers by a generated script (ok / recoverable with optional Retry-After / non-recoverable / latency). Every datum carries its feed position in its value. Non-trivial: at least one reshard was accepted while fed data were still unanswered AND at least one recoverably failed request was retried; distinct by hash of the case."

func TestC40(t *testing.T) {
	ev.Check(t, "C40", c40Rule, genC40, runC40, ev.Opts{Part: "direct"})
}
