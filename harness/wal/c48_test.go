package wal

import (
	"context"
	"errors"
	"fmt"
	"math"
	"os"
	"path/filepath"
	"testing"
	"time"

	"github.com/prometheus/common/promslog"
	"github.com/prometheus/prometheus/model/exemplar"
	"github.com/prometheus/prometheus/model/histogram"
	"github.com/prometheus/prometheus/model/labels"
	"github.com/prometheus/prometheus/storage"
	"github.com/prometheus/prometheus/tsdb/agent"
	"github.com/prometheus/prometheus/tsdb/record"
	"github.com/prometheus/prometheus/tsdb/tombstones"
	"github.com/prometheus/prometheus/tsdb/wlog"
	"github.com/prometheus/prometheus/util/compression"
	"pgregory.net/rapid"

	"verifharness/internal/ev"
	"verifharness/internal/gen"
)

// ---- shared: decode a WAL directory in replay order (used by C15 and C48) -------------

type walItem struct {
	Kind  string // series float hist fhist exemplar tomb meta
	Ref   uint64
	T, ST int64
	V     uint64
	H     *histogram.Histogram
	FH    *histogram.FloatHistogram
	L     labels.Labels // series labels / exemplar labels
	Ivs   tombstones.Intervals
	Meta  record.RefMetadata
	InCP  bool // read from the checkpoint directory
	RecNo int  // ordinal of the WAL record the item came from
}

// walDump reads the last checkpoint (if any) and then every segment above it, exactly
// the order every replay uses, and decodes all records with a private decoder.
// cpIdx is -1 when there is no checkpoint.
func walDump(walDir string) (items []walItem, cpIdx int, nsegs int, err error) {
	cpDir, idx, cerr := wlog.LastCheckpoint(walDir)
	cpIdx = -1
	dec := record.NewDecoder(labels.NewSymbolTable(), promslog.NewNopLogger())
	recNo := 0
	read := func(sr wlog.SegmentRange, inCP bool) error {
		rc, err := wlog.NewSegmentsRangeReader(sr)
		if err != nil {
			return err
		}
		defer rc.Close()
		rd := wlog.NewReader(rc)
		for rd.Next() {
			rec := rd.Record()
			recNo++
			switch ty := dec.Type(rec); ty {
			case record.Series:
				s, err := dec.Series(rec, nil)
				if err != nil {
					return fmt.Errorf("decode series record: %w", err)
				}
				for _, x := range s {
					items = append(items, walItem{Kind: "series", Ref: uint64(x.Ref), L: x.Labels.Copy(), InCP: inCP, RecNo: recNo})
				}
			case record.Samples, record.SamplesV2:
				s, err := dec.Samples(rec, nil)
				if err != nil {
					return fmt.Errorf("decode samples record: %w", err)
				}
				for _, x := range s {
					items = append(items, walItem{Kind: "float", Ref: uint64(x.Ref), T: x.T, ST: x.ST, V: math.Float64bits(x.V), InCP: inCP, RecNo: recNo})
				}
			case record.HistogramSamples, record.CustomBucketsHistogramSamples, record.HistogramSamplesV2:
				s, err := dec.HistogramSamples(rec, nil)
				if err != nil {
					return fmt.Errorf("decode histogram record: %w", err)
				}
				for _, x := range s {
					items = append(items, walItem{Kind: "hist", Ref: uint64(x.Ref), T: x.T, ST: x.ST, H: x.H, InCP: inCP, RecNo: recNo})
				}
			case record.FloatHistogramSamples, record.CustomBucketsFloatHistogramSamples, record.FloatHistogramSamplesV2:
				s, err := dec.FloatHistogramSamples(rec, nil)
				if err != nil {
					return fmt.Errorf("decode float histogram record: %w", err)
				}
				for _, x := range s {
					items = append(items, walItem{Kind: "fhist", Ref: uint64(x.Ref), T: x.T, ST: x.ST, FH: x.FH, InCP: inCP, RecNo: recNo})
				}
			case record.Exemplars:
				s, err := dec.Exemplars(rec, nil)
				if err != nil {
					return fmt.Errorf("decode exemplars record: %w", err)
				}
				for _, x := range s {
					items = append(items, walItem{Kind: "exemplar", Ref: uint64(x.Ref), T: x.T, V: math.Float64bits(x.V), L: x.Labels.Copy(), InCP: inCP, RecNo: recNo})
				}
			case record.Tombstones:
				s, err := dec.Tombstones(rec, nil)
				if err != nil {
					return fmt.Errorf("decode tombstones record: %w", err)
				}
				for _, x := range s {
					items = append(items, walItem{Kind: "tomb", Ref: uint64(x.Ref), Ivs: append(tombstones.Intervals(nil), x.Intervals...), InCP: inCP, RecNo: recNo})
				}
			case record.Metadata:
				s, err := dec.Metadata(rec, nil)
				if err != nil {
					return fmt.Errorf("decode metadata record: %w", err)
				}
				for _, x := range s {
					items = append(items, walItem{Kind: "meta", Ref: uint64(x.Ref), Meta: x, InCP: inCP, RecNo: recNo})
				}
			case record.MmapMarkers:
				// written to the WBL only; harmless
			default:
				return fmt.Errorf("record of unknown type %d", ty)
			}
		}
		return rd.Err()
	}
	first := 0
	if cerr == nil {
		cpIdx = idx
		if err := read(wlog.SegmentRange{Dir: cpDir, First: -1, Last: -1}, true); err != nil {
			return nil, cpIdx, 0, fmt.Errorf("checkpoint %d: %w", idx, err)
		}
		first = idx + 1
	} else if !errors.Is(cerr, record.ErrNotFound) {
		return nil, -1, 0, cerr
	}
	lo, hi, serr := wlog.Segments(walDir)
	if serr != nil {
		return nil, cpIdx, 0, serr
	}
	if hi >= 0 {
		nsegs = hi - lo + 1
	}
	if err := read(wlog.SegmentRange{Dir: walDir, First: first, Last: -1}, false); err != nil {
		return nil, cpIdx, nsegs, fmt.Errorf("segments: %w", err)
	}
	return items, cpIdx, nsegs, nil
}

// ---- C48 — agent-mode storage logs every accepted sample ----------------------------

type c48Ex struct {
	L   gen.Lset
	V   uint64
	DT  int64 // exemplar ts = sample t - DT
	Dup bool  // repeat the previous exemplar appended to this series
}

type c48Append struct {
	S      int
	Kind   uint8 // 0 float, 1 int histogram, 2 float histogram, 3 v1 AppendSTZeroSample, 4 v1 AppendHistogramSTZeroSample (int), 5 same (float)
	T      int64
	ST     int64
	V      uint64
	H      *gen.Hist `json:",omitempty"`
	Ex     *c48Ex    `json:",omitempty"`
	UseRef bool
}

type c48Step struct {
	Op       string      // tx truncate restart
	V2       bool        `json:",omitempty"`
	Rollback bool        `json:",omitempty"`
	Appends  []c48Append `json:",omitempty"`
	Mint     int64       `json:",omitempty"`
}

type c48Case struct {
	Window    int64
	STZero    bool
	STStorage bool
	InMem     bool
	Batch     int
	Compress  string
	Series    []gen.Lset
	Steps     []c48Step
}

func genC48(t *rapid.T) c48Case { return genAgent(t, false) }

// genAgent draws an agent history; churn shifts the mix towards truncations over one or
// two series, so that collected series come back, get duplicate refs and meet checkpoints.
func genAgent(t *rapid.T, churn bool) c48Case {
	c := c48Case{
		Window:    rapid.SampledFrom([]int64{0, 0, 5, 40}).Draw(t, "window"),
		STZero:    rapid.Bool().Draw(t, "stzero"),
		STStorage: rapid.Bool().Draw(t, "ststorage"),
		InMem:     rapid.Bool().Draw(t, "inmem"),
		Batch:     rapid.SampledFrom([]int{0, 1, 2}).Draw(t, "batch"),
		Compress:  rapid.SampledFrom([]string{"none", "none", "none", "snappy", "snappy", "zstd"}).Draw(t, "compress"),
	}
	ns := rapid.IntRange(1, 4).Draw(t, "nseries")
	if churn && ns > 2 {
		ns = 2
	}
	seen := map[string]bool{}
	for len(c.Series) < ns {
		l := gen.SmallLset(true, 2).Draw(t, "lset")
		if seen[l.Key()] {
			l = append(l, [2]string{"zzidx", fmt.Sprint(len(c.Series))}) // sorts last, not in the small alphabet
		}
		seen[l.Key()] = true
		c.Series = append(c.Series, l)
	}
	now := int64(rapid.IntRange(50, 200).Draw(t, "t0"))
	last := make([]int64, ns)
	exCounter := 0
	var prevMint int64
	nsteps := rapid.IntRange(4, 26).Draw(t, "nsteps")
	for i := 0; i < nsteps; i++ {
		var s c48Step
		op := rapid.IntRange(0, 9).Draw(t, "op")
		if churn && op == 4 {
			op = 5 // one more truncation in ten steps
		}
		switch op {
		case 0, 1, 2, 3, 4:
			s.Op = "tx"
			s.V2 = rapid.Bool().Draw(t, "v2")
			s.Rollback = rapid.IntRange(0, 6).Draw(t, "rollback") == 0
			na := rapid.IntRange(1, 5).Draw(t, "nappends")
			for j := 0; j < na; j++ {
				a := c48Append{UseRef: rapid.Bool().Draw(t, "useref")}
				// series 0 is hot, the others go stale so that truncation collects them
				a.S = rapid.SampledFrom([]int{0, 0, 0, 1, 1, 2, 3}).Draw(t, "series") % ns
				a.Kind = uint8(rapid.SampledFrom([]int{0, 0, 0, 0, 1, 2, 3, 4, 5}).Draw(t, "kind"))
				if s.V2 && a.Kind > 2 {
					a.Kind -= 3
				}
				l := last[a.S]
				switch rapid.IntRange(0, 9).Draw(t, "tclass") {
				case 0:
					a.T = l
				case 1:
					a.T = l - c.Window
				case 2:
					a.T = l - c.Window + 1
				case 3:
					a.T = l - c.Window - 1
				case 4:
					a.T = int64(rapid.IntRange(1, int(now)+30).Draw(t, "tany"))
				case 5:
					a.T = now + int64(rapid.IntRange(1, 20).Draw(t, "tahead"))
				default:
					a.T = now
				}
				if a.T < 1 {
					a.T = 1
				}
				switch {
				case a.Kind >= 3:
					a.ST = a.T - int64(rapid.SampledFrom([]int{1, 2, 10, 30, 0, -1}).Draw(t, "v1st"))
				case s.V2 && rapid.IntRange(0, 2).Draw(t, "hasst") == 0:
					a.ST = a.T - int64(rapid.SampledFrom([]int{1, 2, 10, 30, 200, 0, -1}).Draw(t, "v2st"))
				}
				if a.ST < 0 {
					a.ST = 0
				}
				switch a.Kind {
				case 0:
					a.V = gen.FloatBits().Draw(t, "v")
				case 1, 4:
					h := gen.Histogram(gen.HistOpts{AllowCustom: true, AllowGauge: true, MaxBuckets: 4}).Draw(t, "h")
					a.H = &h
				case 2, 5:
					h := gen.Histogram(gen.HistOpts{Float: true, AllowCustom: true, AllowGauge: true, MaxBuckets: 4}).Draw(t, "fh")
					a.H = &h
				}
				if rapid.IntRange(0, 3).Draw(t, "hasex") == 0 {
					exCounter++
					a.Ex = &c48Ex{
						L:   gen.Lset{{"trace_id", rapid.SampledFrom([]string{"a", "b", "0123456789abcdef"}).Draw(t, "trace")}},
						V:   math.Float64bits(float64(exCounter)),
						DT:  int64(rapid.SampledFrom([]int{0, 0, 1, 5}).Draw(t, "exdt")),
						Dup: rapid.IntRange(0, 7).Draw(t, "exdup") == 0,
					}
				}
				if !s.Rollback && a.T > last[a.S] {
					last[a.S] = a.T
				}
				s.Appends = append(s.Appends, a)
			}
			now += int64(rapid.IntRange(1, 40).Draw(t, "dt"))
		case 5, 6, 7:
			s.Op = "truncate"
			var lo, hi int64 = math.MaxInt64, 0
			for _, l := range last {
				if l > 0 && l < lo {
					lo = l
				}
				if l > hi {
					hi = l
				}
			}
			if lo == math.MaxInt64 {
				lo = 0
			}
			s.Mint = rapid.SampledFrom([]int64{0, lo, lo + 1, hi, hi + 1, (lo + hi) / 2, now - 60, now - 10, now + 1}).Draw(t, "mint")
			if s.Mint < 0 {
				s.Mint = 0
			}
			// the truncation time of the running agent normally moves forward; it drops
			// back only when the remote-write watermark does (restart, new queue)
			if s.Mint < prevMint && rapid.IntRange(0, 7).Draw(t, "mintback") > 0 {
				s.Mint = prevMint + int64(rapid.IntRange(0, 3).Draw(t, "mintfwd"))
			}
			if s.Mint > prevMint {
				prevMint = s.Mint
			}
		default:
			s.Op = "restart"
		}
		c.Steps = append(c.Steps, s)
	}
	return c
}

// expected WAL entry of one series and kind
type c48Exp struct {
	T, ST    int64
	V        uint64
	H        *histogram.Histogram
	FH       *histogram.FloatHistogram
	ExL      labels.Labels
	optional bool // may legitimately be absent or present (best-effort ST zero sample, possibly de-duplicated exemplar)
	zeroOnly bool // optional zero sample: only T and "all counts zero" are compared
	k0       int  // highest segment index that existed when the commit started
	step     int
}

const c48None = math.MinInt64

// root-cause signature of the finding described in sensitivity/C48.md
const c48SigLowerMint = "agent-lower-mint-checkpoint-orphans-samples"
const c48SigDupRef = "agent-duplicate-ref-checkpoint-orphans-samples"
const c48SigDupRefExemplar = "agent-duplicate-ref-exemplar-segment-not-tracked"

type c48Series struct {
	lo, hi   int64 // see runC48
	gcd      bool  // collected by a truncation (model)
	gcdThenR bool  // ... and then a restart happened
	lastEx   *exemplar.Exemplar
}

func c48KindOf(it walItem) string {
	switch it.Kind {
	case "float":
		return "f"
	case "hist":
		if it.H.UsesCustomBuckets() {
			return "hc"
		}
		return "h"
	case "fhist":
		if it.FH.UsesCustomBuckets() {
			return "fhc"
		}
		return "fh"
	case "exemplar":
		return "ex"
	}
	return ""
}

func c48Match(it walItem, e *c48Exp, stStorage bool) bool {
	if it.T != e.T {
		return false
	}
	if e.zeroOnly {
		switch it.Kind {
		case "float":
			return it.V == 0
		case "hist":
			return it.H.Count == 0 && it.H.Sum == 0 && len(it.H.PositiveBuckets)+len(it.H.NegativeBuckets) == 0
		case "fhist":
			return it.FH.Count == 0 && it.FH.Sum == 0 && len(it.FH.PositiveBuckets)+len(it.FH.NegativeBuckets) == 0
		}
		return false
	}
	wantST := e.ST
	if !stStorage {
		wantST = 0
	}
	switch it.Kind {
	case "float":
		return it.V == e.V && it.ST == wantST
	case "hist":
		return it.ST == wantST && gen.IntHistExact(e.H, it.H) == ""
	case "fhist":
		return it.ST == wantST && gen.FloatHistExact(e.FH, it.FH) == ""
	case "exemplar":
		return it.V == e.V && labels.Equal(it.L, e.ExL)
	}
	return false
}

func c48Desc(it walItem) string {
	switch it.Kind {
	case "float":
		return fmt.Sprintf("float t=%d st=%d bits=%#x", it.T, it.ST, it.V)
	case "hist":
		return fmt.Sprintf("hist t=%d st=%d %v", it.T, it.ST, it.H)
	case "fhist":
		return fmt.Sprintf("fhist t=%d st=%d %v", it.T, it.ST, it.FH)
	case "exemplar":
		return fmt.Sprintf("exemplar t=%d v=%v %v", it.T, math.Float64frombits(it.V), it.L)
	}
	return it.Kind
}

type c48Stats struct {
	nontrivial             bool // C48 rule
	checkpointAfterCollect bool // C15 rule for the agent half
}

func runC48(c c48Case, r *ev.Rec) error {
	var st c48Stats
	if err := runAgentHistory(c, r, &st); err != nil {
		return err
	}
	if st.nontrivial {
		r.NonTrivial()
	}
	return nil
}

func runAgentHistory(c c48Case, r *ev.Rec, st *c48Stats) error {
	dir, err := os.MkdirTemp("", "c48")
	if err != nil {
		return err
	}
	defer os.RemoveAll(dir)
	walDir := filepath.Join(dir, "wal")
	open := func() (*agent.DB, error) {
		return agent.Open(promslog.NewNopLogger(), nil, nil, dir, &agent.Options{
			WALSegmentSize:               32 * 1024,
			WALCompression:               compression.Type(c.Compress),
			StripeSize:                   4,
			TruncateFrequency:            24 * time.Hour,
			NoLockfile:                   true,
			OutOfOrderTimeWindow:         c.Window,
			EnableSTAsZeroSample:         c.STZero,
			EnableSTStorage:              c.STStorage,
			CheckpointFromInMemorySeries: c.InMem,
			CheckpointBatchSize:          c.Batch,
		})
	}
	db, err := open()
	if err != nil {
		return ev.Failf("agent.Open: %v", err)
	}
	dbOpen := true
	defer func() {
		if dbOpen {
			db.Close()
		}
	}()
	if c.InMem {
		r.Class("checkpoint:in-memory")
	} else {
		r.Class("checkpoint:wlog")
	}
	if q, err := db.Querier(0, math.MaxInt64); q != nil || !errors.Is(err, agent.ErrUnsupported) {
		return ev.Failf("agent Querier returned (%v, %v), want (nil, ErrUnsupported)", q, err)
	}
	if q, err := db.ChunkQuerier(0, math.MaxInt64); q != nil || !errors.Is(err, agent.ErrUnsupported) {
		return ev.Failf("agent ChunkQuerier returned (%v, %v), want (nil, ErrUnsupported)", q, err)
	}
	if q, err := db.ExemplarQuerier(context.Background()); q != nil || !errors.Is(err, agent.ErrUnsupported) {
		return ev.Failf("agent ExemplarQuerier returned (%v, %v), want (nil, ErrUnsupported)", q, err)
	}

	// Reference model. Per label set:
	//   lo: newest committed timestamp of the current incarnation of the series (none after
	//       a truncation collected it). A sample with t <= lo-window MUST be rejected.
	//   hi: newest timestamp ever committed for these labels, or set as "last" by the v1
	//       start-timestamp calls (which update it before commit, see the NOTE in db.go).
	//       A sample with t > hi-window MUST be accepted. In between either is allowed: a
	//       restart may resurrect a collected series from records still in the WAL.
	keys := make([]string, len(c.Series))
	lsets := make([]labels.Labels, len(c.Series))
	model := map[string]*c48Series{}
	for i, l := range c.Series {
		lsets[i] = l.Labels()
		keys[i] = lsets[i].String()
		model[keys[i]] = &c48Series{lo: c48None, hi: c48None}
	}
	keyOfLabels := func(l labels.Labels) string { return l.String() }
	expected := map[string]map[string][]*c48Exp{}
	addExp := func(key, kind string, e *c48Exp) {
		if expected[key] == nil {
			expected[key] = map[string][]*c48Exp{}
		}
		expected[key][kind] = append(expected[key][kind], e)
	}
	var maxMint int64 = c48None
	lowerMint := false // some truncation used a lower mint than an earlier one
	restarts := 0
	collected := false             // some truncation collected a series (model)
	apiRefs := map[uint64]string{} // every ref an appender handed out -> label set
	refs := map[int]storage.SeriesRef{}
	nontrivial := false
	checkpoints := 0

	verify := func(when string) error {
		items, cpIdx, _, err := walDump(walDir)
		if err != nil {
			return ev.Failf("%s: WAL is not readable: %v", when, err)
		}
		refKey := map[uint64]string{}
		seriesOf := map[string]int{} // series records seen so far per label set
		got := map[string]map[string][]walItem{}
		if os.Getenv("VERIF_DEBUG") != "" {
			fmt.Printf("== %s: checkpoint %d, maxMint %d\n", when, cpIdx, maxMint)
			for _, it := range items {
				fmt.Printf("   rec %d cp=%v %s ref=%d t=%d %v\n", it.RecNo, it.InCP, it.Kind, it.Ref, it.T, it.L)
			}
		}
		for _, it := range items {
			if it.Kind == "series" {
				k := keyOfLabels(it.L)
				if _, known := model[k]; !known {
					return ev.Failf("%s: series record ref=%d with labels %v that were never appended", when, it.Ref, it.L)
				}
				if prev, ok := refKey[it.Ref]; ok && prev != k {
					return ev.Failf("%s: ref %d is used for two label sets", when, it.Ref)
				}
				if _, dup := refKey[it.Ref]; !dup {
					seriesOf[k]++
				}
				refKey[it.Ref] = k
				continue
			}
			k, ok := refKey[it.Ref]
			if !ok {
				msg := fmt.Sprintf("%s: %s with ref %d has no preceding series record in replay order (checkpoint index %d, item from checkpoint: %v, highest truncation time so far %d)", when, c48Desc(it), it.Ref, cpIdx, it.InCP, maxMint)
				if k, known := apiRefs[it.Ref]; known && it.InCP && !c.InMem && restarts > 0 && seriesOf[k] > 0 {
					// Root cause: the same label set has two refs in the WAL (collected, came
					// back, then a restart made the newer ref a "duplicate" of the older one).
					// The duplicate's series record is dropped by segment number while
					// wlog.Checkpoint keeps its samples with t >= mint.
					return ev.FailSig(c48SigDupRef, "%s; the ref was handed out for %s, which still has a series record under another ref", msg, k)
				}
				if k, known := apiRefs[it.Ref]; known && it.Kind == "exemplar" && !it.InCP && restarts > 0 && seriesOf[k] > 0 {
					// Root cause: replay ignores exemplar records, so the "last segment" kept for a
					// duplicate ref does not cover a segment that holds only exemplars of that ref;
					// the next checkpoint drops the ref's series record and the exemplar stays.
					return ev.FailSig(c48SigDupRefExemplar, "%s; the ref was handed out for %s, which still has a series record under another ref", msg, k)
				}
				if it.InCP && !c.InMem && lowerMint && it.T < maxMint {
					// Root cause: a truncation with a lower mint than an earlier one. The series
					// was collected under the higher mint and its record is dropped by segment
					// number, but wlog.Checkpoint keeps its samples because t >= the lower mint.
					return ev.FailSig(c48SigLowerMint, "%s", msg)
				}
				return ev.Failf("%s", msg)
			}
			if c.InMem && it.InCP && it.Kind == "float" {
				// last-timestamp marker written by the in-memory checkpoint; neither its value
				// nor its timestamp (MinInt64 / 0 for series without samples) is an appended sample
				continue
			}
			kind := c48KindOf(it)
			if kind == "" {
				return ev.Failf("%s: unexpected %s record in an agent WAL", when, it.Kind)
			}
			if got[k] == nil {
				got[k] = map[string][]walItem{}
			}
			got[k][kind] = append(got[k][kind], it)
		}
		required := func(e *c48Exp) bool {
			if e.optional {
				return false
			}
			if c.InMem {
				return e.k0 > cpIdx
			}
			return e.T >= maxMint || cpIdx < 0
		}
		for _, key := range keys {
			for _, kind := range []string{"f", "h", "hc", "fh", "fhc", "ex"} {
				exp, w := expected[key][kind], got[key][kind]
				// Is there an order-preserving assignment of every WAL entry to a distinct
				// acknowledged entry that covers all required ones? (values may repeat, so a
				// greedy scan is not enough)
				n, m := len(w), len(exp)
				ok := make([][]bool, n+1)
				for i := range ok {
					ok[i] = make([]bool, m+1)
				}
				ok[n][m] = true
				for j := m - 1; j >= 0; j-- {
					ok[n][j] = ok[n][j+1] && !required(exp[j])
				}
				for i := n - 1; i >= 0; i-- {
					for j := m - 1; j >= 0; j-- {
						if !required(exp[j]) && ok[i][j+1] {
							ok[i][j] = true
						} else if ok[i+1][j+1] && c48Match(w[i], exp[j], c.STStorage) {
							ok[i][j] = true
						}
					}
				}
				if ok[0][0] {
					continue
				}
				// diagnose with a greedy scan
				ei := 0
				for _, it := range w {
					for ei < len(exp) && !c48Match(it, exp[ei], c.STStorage) {
						if required(exp[ei]) {
							return ev.Failf("%s: accepted and committed %s sample t=%d of %s (step %d) is missing from the WAL; next WAL entry of that series is %s (truncation time so far %d, checkpoint %d, in-memory checkpoint %v)", when, kind, exp[ei].T, key, exp[ei].step, c48Desc(it), maxMint, cpIdx, c.InMem)
						}
						ei++
					}
					if ei == len(exp) {
						return ev.Failf("%s: WAL holds %s for %s that no committed appender was acknowledged for (or it is duplicated / out of order); %d acknowledged entries of that kind", when, c48Desc(it), key, len(exp))
					}
					ei++
				}
				for ; ei < len(exp); ei++ {
					if required(exp[ei]) {
						return ev.Failf("%s: accepted and committed %s sample t=%d of %s (step %d) is missing from the WAL (truncation time so far %d, checkpoint %d, in-memory checkpoint %v)", when, kind, exp[ei].T, key, exp[ei].step, maxMint, cpIdx, c.InMem)
					}
				}
				return ev.Failf("%s: the %d WAL entries of kind %s for %s cannot be aligned, in order, with the %d acknowledged ones", when, n, kind, key, m)
			}
		}
		return nil
	}

	for si, s := range c.Steps {
		switch s.Op {
		case "tx":
			type pend struct {
				key, kind string
				e         *c48Exp
			}
			var pending []pend
			var v1 storage.Appender
			var v2 storage.AppenderV2
			if s.V2 {
				v2 = db.AppenderV2(context.Background())
				r.Class("appender:v2")
			} else {
				v1 = db.Appender(context.Background())
				r.Class("appender:v1")
			}
			for ai, a := range s.Appends {
				key, ls, m := keys[a.S], lsets[a.S], model[keys[a.S]]
				var ref storage.SeriesRef
				if a.UseRef {
					ref = refs[a.S]
				}
				var h *histogram.Histogram
				var fh *histogram.FloatHistogram
				kind := "f"
				switch a.Kind {
				case 1, 4:
					h = a.H.Int()
					kind = "h"
					if h.UsesCustomBuckets() {
						kind = "hc"
					}
					if h.Validate() != nil {
						r.Class("skipped-invalid-histogram")
						continue
					}
				case 2, 5:
					fh = a.H.FloatH()
					kind = "fh"
					if fh.UsesCustomBuckets() {
						kind = "fhc"
					}
					if fh.Validate() != nil {
						r.Class("skipped-invalid-histogram")
						continue
					}
				}
				var ex *exemplar.Exemplar
				if a.Ex != nil {
					if a.Ex.Dup && m.lastEx != nil {
						cp := *m.lastEx
						ex = &cp
					} else {
						ex = &exemplar.Exemplar{Labels: a.Ex.L.Labels(), Value: math.Float64frombits(a.Ex.V), Ts: a.T - a.Ex.DT, HasTs: true}
					}
				}
				where := fmt.Sprintf("step %d append %d (%s t=%d st=%d, v2=%v, window %d)", si, ai, key, a.T, a.ST, s.V2, c.Window)
				if a.Kind >= 3 {
					// v1 start-timestamp zero samples: acknowledged ones must be logged; their
					// admission rule is not part of the property, but they move "last" at once.
					var got storage.SeriesRef
					var err error
					if a.Kind == 3 {
						got, err = v1.AppendSTZeroSample(ref, ls, a.T, a.ST)
					} else {
						got, err = v1.AppendHistogramSTZeroSample(ref, ls, a.T, a.ST, h, fh)
					}
					if err == nil {
						refs[a.S] = got
						apiRefs[uint64(got)] = key
						if a.ST > m.hi {
							m.hi = a.ST
						}
						zkind := kind
						if a.Kind != 3 {
							// the v1 zero histogram is the zero value: exponential schema 0
							zkind = map[string]string{"h": "h", "hc": "h", "fh": "fh", "fhc": "fh"}[kind]
						}
						pending = append(pending, pend{key, zkind, &c48Exp{T: a.ST, zeroOnly: true, step: si}})
						r.Class("accepted:v1-st-zero")
					}
					continue
				}
				mustReject := m.lo != c48None && a.T <= m.lo-c.Window
				mustAccept := m.hi == c48None || a.T > m.hi-c.Window
				var got storage.SeriesRef
				var err error
				if s.V2 {
					var opts storage.AOptions
					if ex != nil {
						opts.Exemplars = []exemplar.Exemplar{*ex}
					}
					got, err = v2.Append(ref, ls, a.ST, a.T, math.Float64frombits(a.V), h, fh, opts)
				} else if kind == "f" {
					got, err = v1.Append(ref, ls, a.T, math.Float64frombits(a.V))
				} else {
					got, err = v1.AppendHistogram(ref, ls, a.T, h, fh)
				}
				var perr *storage.AppendPartialError
				accepted := err == nil || errors.As(err, &perr)
				switch {
				case accepted && mustReject:
					return ev.Failf("%s: accepted, but the series' last written sample is at %d: t <= last-window must be rejected", where, m.lo)
				case !accepted && mustAccept:
					return ev.Failf("%s: rejected with %v, but the newest sample ever written for these labels is at %d: t > last-window must be accepted", where, err, m.hi)
				case !accepted && !errors.Is(err, storage.ErrOutOfOrderSample):
					return ev.Failf("%s: rejected with %v, want ErrOutOfOrderSample", where, err)
				}
				if !accepted {
					r.Class("rejected:out-of-order")
					if mustReject && a.T == m.lo-c.Window {
						r.Class("rejected:exactly-at-window-edge")
					}
				} else {
					refs[a.S] = got
					apiRefs[uint64(got)] = key
					if m.lo != c48None && a.T <= m.lo {
						r.Class("accepted:inside-ooo-window")
					}
					if s.V2 && c.STZero && a.ST != 0 && a.ST < a.T {
						// best effort: may or may not be there
						pending = append(pending, pend{key, kind, &c48Exp{T: a.ST, zeroOnly: true, optional: true, step: si}})
					}
					e := &c48Exp{T: a.T, V: a.V, H: h, FH: fh, step: si}
					if s.V2 {
						e.ST = a.ST
					}
					pending = append(pending, pend{key, kind, e})
					r.Class("accepted:" + kind)
				}
				// exemplars: v2 carried them in the options, v1 appends them separately
				if ex != nil {
					isDup := m.lastEx != nil && m.lastEx.Equals(*ex)
					switch {
					case s.V2 && accepted && !value48Stale(a, h, fh):
						if perr == nil {
							// silently dropped when it repeats the series' latest exemplar
							pending = append(pending, pend{key, "ex", &c48Exp{T: ex.Ts, V: math.Float64bits(ex.Value), ExL: ex.Labels, optional: isDup || a.Ex.Dup, step: si}})
							cp := *ex
							m.lastEx = &cp
						}
					case !s.V2 && refs[a.S] != 0:
						eref, eerr := v1.AppendExemplar(refs[a.S], ls, *ex)
						if eerr == nil && eref != 0 {
							pending = append(pending, pend{key, "ex", &c48Exp{T: ex.Ts, V: math.Float64bits(ex.Value), ExL: ex.Labels, step: si}})
							cp := *ex
							m.lastEx = &cp
						}
					}
				}
			}
			_, k0, serr := wlog.Segments(walDir)
			if serr != nil {
				return serr
			}
			if s.Rollback {
				var err error
				if s.V2 {
					err = v2.Rollback()
				} else {
					err = v1.Rollback()
				}
				if err != nil {
					return ev.Failf("step %d: Rollback: %v", si, err)
				}
				r.Class("rollback")
				continue
			}
			var cerr error
			if s.V2 {
				cerr = v2.Commit()
			} else {
				cerr = v1.Commit()
			}
			if cerr != nil {
				return ev.Failf("step %d: Commit: %v", si, cerr)
			}
			for _, p := range pending {
				p.e.k0 = k0
				addExp(p.key, p.kind, p.e)
				if p.e.optional {
					continue
				}
				m := model[p.key]
				if p.kind != "ex" {
					if m.gcdThenR {
						nontrivial = true
						r.Class("append-after-gc-and-restart")
					}
					if m.lo == c48None || p.e.T > m.lo {
						m.lo = p.e.T
					}
					if p.e.T > m.hi {
						m.hi = p.e.T
					}
				}
			}
		case "truncate":
			_, cpBefore, _ := wlog.LastCheckpoint(walDir)
			if err := db.VerifTruncate(s.Mint); err != nil {
				return ev.Failf("step %d: truncate(%d): %v", si, s.Mint, err)
			}
			if s.Mint > maxMint {
				maxMint = s.Mint
			} else if s.Mint < maxMint {
				lowerMint = true
				r.Class("truncate-with-lower-mint")
			}
			if _, cpAfter, err := wlog.LastCheckpoint(walDir); err == nil && cpAfter != cpBefore {
				checkpoints++
				r.Class("checkpoint-written")
				if collected {
					st.checkpointAfterCollect = true
				}
			}
			for _, key := range keys {
				m := model[key]
				if m.lo != c48None && m.lo < s.Mint {
					m.lo = c48None
					m.gcd = true
					collected = true
					r.Class("series-collected")
				}
			}
			if err := verify(fmt.Sprintf("after step %d truncate(%d)", si, s.Mint)); err != nil {
				return err
			}
		case "restart":
			if err := db.Close(); err != nil {
				dbOpen = false
				return ev.Failf("step %d: Close: %v", si, err)
			}
			dbOpen = false
			if err := verify(fmt.Sprintf("after step %d close", si)); err != nil {
				return err
			}
			if db, err = open(); err != nil {
				return ev.Failf("step %d: reopen: %v", si, err)
			}
			dbOpen = true
			restarts++
			refs = map[int]storage.SeriesRef{}
			for _, key := range keys {
				m := model[key]
				m.lastEx = nil
				if m.gcd {
					m.gcdThenR = true
				}
			}
			r.Class("restart")
		}
	}
	if err := db.Close(); err != nil {
		dbOpen = false
		return ev.Failf("final Close: %v", err)
	}
	dbOpen = false
	if err := verify("at the end"); err != nil {
		return err
	}
	st.nontrivial = nontrivial
	if nontrivial && checkpoints > 0 {
		r.Class("nontrivial-with-checkpoint")
	}
	return nil
}

func value48Stale(a c48Append, h *histogram.Histogram, fh *histogram.FloatHistogram) bool {
	const staleBits = 0x7ff0000000000002
	switch {
	case fh != nil:
		return math.Float64bits(fh.Sum) == staleBits
	case h != nil:
		return math.Float64bits(h.Sum) == staleBits
	}
	return a.V == staleBits
}

func TestC48(t *testing.T) {
	ev.Check(t, "C48",
		"agent.Open on a fresh dir (32 KiB segments, no background truncation, OOO window 0/5/40, ST zero ingestion and ST storage on/off, both checkpoint implementations, three compressions); 4-26 steps of appender transactions (v1 and v2; floats, int/float histograms incl. custom buckets, exemplars, start-timestamp zero samples; timestamps aimed at last, last-window, last-window+-1), commit or rollback, truncate(mint) through the verif shim, restart. After every truncation and close the WAL (checkpoint + segments) is decoded with a private reader and compared with the acknowledged appends; admission is compared with a two-bound reference. Non-trivial: a truncation collected a series, then a restart happened, then a committed append to the same labels; distinct by hash of the case.",
		genC48, runC48)
}
