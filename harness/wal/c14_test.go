package wal

import (
	"testing"

	"github.com/prometheus/prometheus/model/labels"
	"github.com/prometheus/prometheus/storage"
	"github.com/prometheus/prometheus/tsdb/chunks"
	"github.com/prometheus/prometheus/tsdb/record"
	"github.com/prometheus/prometheus/tsdb/tombstones"
	"pgregory.net/rapid"

	"verifharness/internal/ev"
	"verifharness/internal/gen"
)

// C14 — WAL record encoding round-trips.

type c14Sample struct {
	Ref   uint64
	ST, T int64
	V     uint64
}

type c14Hist struct {
	Ref   uint64
	ST, T int64
	H     gen.Hist
}

type c14Series struct {
	Ref uint64
	L   gen.Lset
}

type c14Meta struct {
	Ref        uint64
	Type       uint8
	Unit, Help string
}

type c14Stone struct {
	Ref        uint64
	Mint, Maxt int64
}

type c14Case struct {
	Kind      string // series samples tombstones exemplars metadata mmap hist fhist
	ST        bool   // Encoder.EnableSTStorage
	Series    []c14Series  `json:",omitempty"`
	Samples   []c14Sample  `json:",omitempty"`
	Stones    []c14Stone   `json:",omitempty"`
	Exemplars []c14Series  `json:",omitempty"` // labels per exemplar; T/V in Samples (same length)
	Meta      []c14Meta    `json:",omitempty"`
	Mmap      [][2]uint64  `json:",omitempty"`
	Hists     []c14Hist    `json:",omitempty"`
	Reuse     bool // decode into a non-empty destination slice / encode into a non-empty buffer
}

var c14Kinds = []string{"series", "samples", "tombstones", "exemplars", "metadata", "mmap", "hist", "fhist"}

func genRef(t *rapid.T, prev uint64) uint64 {
	switch rapid.IntRange(0, 6).Draw(t, "refclass") {
	case 0:
		return rapid.Uint64Range(0, 10).Draw(t, "refsmall")
	case 1:
		return prev + uint64(rapid.IntRange(0, 3).Draw(t, "refinc"))
	case 2:
		if prev > 1000 {
			return prev - uint64(rapid.IntRange(1, 1000).Draw(t, "refdec"))
		}
		return prev + 1
	case 3:
		// refs are HeadSeriesRef (uint64) but encoded via int64 deltas; real refs never exceed
		// 2^63, stay inside so that the delta arithmetic is defined.
		return rapid.Uint64Range(0, 1<<62).Draw(t, "refbig")
	default:
		return prev + 1
	}
}

func genTS(t *rapid.T, prev int64, label string) int64 {
	switch rapid.IntRange(0, 7).Draw(t, label+"class") {
	case 0:
		return prev
	case 1:
		return prev + int64(rapid.IntRange(1, 60000).Draw(t, label+"inc"))
	case 2:
		return prev - int64(rapid.IntRange(1, 60000).Draw(t, label+"dec"))
	case 3:
		return rapid.SampledFrom([]int64{0, -1, 1, 1 << 40, -(1 << 40), 1<<62 - 1, -(1 << 62)}).Draw(t, label+"const")
	case 4:
		return rapid.Int64Range(-(1 << 62), 1<<62-1).Draw(t, label+"any")
	default:
		return prev + 15000
	}
}

// st patterns: none, same as previous, explicit, mixed.
func genST(t *rapid.T, pattern int, prevST, ts int64) int64 {
	switch pattern {
	case 0:
		return 0
	case 1:
		if prevST != 0 {
			return prevST
		}
		return ts - 1000
	case 2:
		return genTS(t, ts, "st")
	default:
		switch rapid.IntRange(0, 3).Draw(t, "stmix") {
		case 0:
			return 0
		case 1:
			return prevST
		default:
			return genTS(t, ts, "st")
		}
	}
}

func genC14(t *rapid.T) c14Case {
	c := c14Case{Kind: rapid.SampledFrom(c14Kinds).Draw(t, "kind"), ST: rapid.Bool().Draw(t, "ststorage"), Reuse: rapid.Bool().Draw(t, "reuse")}
	n := rapid.IntRange(0, 12).Draw(t, "n")
	if rapid.IntRange(0, 20).Draw(t, "big") == 0 {
		n = rapid.IntRange(50, 200).Draw(t, "nbig")
	}
	var ref uint64 = rapid.Uint64Range(0, 1<<40).Draw(t, "ref0")
	ts := genTS(t, 1_700_000_000_000, "t0")
	pattern := rapid.IntRange(0, 3).Draw(t, "stpattern")
	var st int64
	for i := 0; i < n; i++ {
		ref = genRef(t, ref)
		ts = genTS(t, ts, "t")
		st = genST(t, pattern, st, ts)
		switch c.Kind {
		case "series":
			c.Series = append(c.Series, c14Series{Ref: ref, L: gen.AnyLset(6).Draw(t, "ls")})
		case "samples":
			c.Samples = append(c.Samples, c14Sample{Ref: ref, ST: st, T: ts, V: gen.FloatBits().Draw(t, "v")})
		case "tombstones":
			mint := ts
			c.Stones = append(c.Stones, c14Stone{Ref: ref, Mint: mint, Maxt: genTS(t, mint, "maxt")})
		case "exemplars":
			c.Samples = append(c.Samples, c14Sample{Ref: ref, T: ts, V: gen.FloatBits().Draw(t, "v")})
			c.Exemplars = append(c.Exemplars, c14Series{L: gen.AnyLset(3).Draw(t, "els")})
		case "metadata":
			c.Meta = append(c.Meta, c14Meta{Ref: ref, Type: uint8(rapid.IntRange(0, 7).Draw(t, "mtype")), Unit: gen.AnyString().Draw(t, "unit"), Help: gen.AnyString().Draw(t, "help")})
		case "mmap":
			c.Mmap = append(c.Mmap, [2]uint64{ref, rapid.Uint64().Draw(t, "mref")})
		case "hist":
			c.Hists = append(c.Hists, c14Hist{Ref: ref, ST: st, T: ts, H: gen.Histogram(gen.HistOpts{AllowCustom: true, AllowGauge: true, NaNSum: true}).Draw(t, "h")})
		case "fhist":
			c.Hists = append(c.Hists, c14Hist{Ref: ref, ST: st, T: ts, H: gen.Histogram(gen.HistOpts{Float: true, AllowCustom: true, AllowGauge: true, FractionalCounts: true}).Draw(t, "h")})
		}
	}
	return c
}

func junk(reuse bool) []byte {
	if reuse {
		return []byte{0xde, 0xad, 0xbe, 0xef}
	}
	return nil
}

func runC14(c c14Case, r *ev.Rec) error {
	enc := record.Encoder{EnableSTStorage: c.ST}
	dec := record.NewDecoder(labels.NewSymbolTable(), nil)
	r.Class("kind:" + c.Kind)
	pre := junk(c.Reuse)
	strip := func(b []byte) ([]byte, error) {
		if len(b) < len(pre) || string(b[:len(pre)]) != string(pre) {
			return nil, ev.Failf("%s: encoder did not append to the given buffer", c.Kind)
		}
		return b[len(pre):], nil
	}
	negDelta, stChange := 0, 0
	switch c.Kind {
	case "series":
		in := make([]record.RefSeries, len(c.Series))
		for i, s := range c.Series {
			in[i] = record.RefSeries{Ref: chunks.HeadSeriesRef(s.Ref), Labels: s.L.Labels()}
		}
		rec, err := strip(enc.Series(in, pre))
		if err != nil {
			return err
		}
		if ty := dec.Type(rec); ty != record.Series {
			return ev.Failf("series: Type=%v", ty)
		}
		var dst []record.RefSeries
		if c.Reuse {
			// every caller passes slice[:0] of a reused buffer; a non-empty destination is outside the contract
			dst = append(dst, record.RefSeries{Ref: 77})[:0]
		}
		out, derr := dec.Series(rec, dst)
		if derr != nil {
			return ev.Failf("series: decode error %v", derr)
		}
		out = out[len(dst):]
		if len(out) != len(in) {
			return ev.Failf("series: %d in, %d out", len(in), len(out))
		}
		for i := range in {
			if out[i].Ref != in[i].Ref || !labels.Equal(out[i].Labels, in[i].Labels) {
				return ev.Failf("series[%d]: in %v %v out %v %v", i, in[i].Ref, in[i].Labels, out[i].Ref, out[i].Labels)
			}
		}
		if len(in) >= 2 {
			r.NonTrivial()
		}
	case "samples":
		in := make([]record.RefSample, len(c.Samples))
		for i, s := range c.Samples {
			in[i] = record.RefSample{Ref: chunks.HeadSeriesRef(s.Ref), ST: s.ST, T: s.T, V: gen.F(s.V)}
			if !c.ST {
				in[i].ST = 0 // the V1 record has no start-timestamp field
			}
			if i > 0 {
				if s.Ref < c.Samples[i-1].Ref || s.T < c.Samples[0].T {
					negDelta++
				}
				if s.ST != c.Samples[i-1].ST {
					stChange++
				}
			}
		}
		rec, err := strip(enc.Samples(in, pre))
		if err != nil {
			return err
		}
		want := record.Samples
		if c.ST {
			want = record.SamplesV2
		}
		if ty := dec.Type(rec); ty != want {
			return ev.Failf("samples: Type=%v want %v", ty, want)
		}
		var dst []record.RefSample
		if c.Reuse {
			dst = append(dst, record.RefSample{Ref: 77, T: 5})[:0]
		}
		out, derr := dec.Samples(rec, dst)
		if derr != nil {
			return ev.Failf("samples: decode error %v", derr)
		}
		out = out[len(dst):]
		if len(out) != len(in) {
			return ev.Failf("samples: %d in, %d out", len(in), len(out))
		}
		for i := range in {
			if out[i].Ref != in[i].Ref || out[i].T != in[i].T || out[i].ST != in[i].ST || gen.B(out[i].V) != gen.B(in[i].V) {
				return ev.Failf("samples[%d] (st storage %v): in %+v (bits %x) out %+v (bits %x)", i, c.ST, in[i], gen.B(in[i].V), out[i], gen.B(out[i].V))
			}
		}
		if len(in) >= 2 && (negDelta > 0 || (c.ST && stChange > 0)) {
			r.NonTrivial()
		}
	case "tombstones":
		var in []tombstones.Stone
		for _, s := range c.Stones {
			in = append(in, tombstones.Stone{Ref: storage.SeriesRef(s.Ref), Intervals: tombstones.Intervals{{Mint: s.Mint, Maxt: s.Maxt}}})
		}
		// also exercise multi-interval stones: merge neighbours with equal ref
		rec, err := strip(enc.Tombstones(in, pre))
		if err != nil {
			return err
		}
		if ty := dec.Type(rec); ty != record.Tombstones {
			return ev.Failf("tombstones: Type=%v", ty)
		}
		out, derr := dec.Tombstones(rec, nil)
		if derr != nil {
			return ev.Failf("tombstones: decode error %v", derr)
		}
		var flat []c14Stone
		for _, s := range out {
			for _, iv := range s.Intervals {
				flat = append(flat, c14Stone{Ref: uint64(s.Ref), Mint: iv.Mint, Maxt: iv.Maxt})
			}
		}
		if len(flat) != len(c.Stones) {
			return ev.Failf("tombstones: %d in, %d out", len(c.Stones), len(flat))
		}
		for i := range flat {
			if flat[i] != c.Stones[i] {
				return ev.Failf("tombstones[%d]: in %+v out %+v", i, c.Stones[i], flat[i])
			}
		}
		if len(flat) >= 2 {
			r.NonTrivial()
		}
	case "exemplars":
		in := make([]record.RefExemplar, len(c.Samples))
		for i, s := range c.Samples {
			in[i] = record.RefExemplar{Ref: chunks.HeadSeriesRef(s.Ref), T: s.T, V: gen.F(s.V), Labels: c.Exemplars[i].L.Labels()}
			if i > 0 && (s.Ref < c.Samples[0].Ref || s.T < c.Samples[0].T) {
				negDelta++
			}
		}
		rec, err := strip(enc.Exemplars(in, pre))
		if err != nil {
			return err
		}
		if ty := dec.Type(rec); ty != record.Exemplars {
			return ev.Failf("exemplars: Type=%v", ty)
		}
		out, derr := dec.Exemplars(rec, nil)
		if derr != nil {
			return ev.Failf("exemplars: decode error %v", derr)
		}
		if len(out) != len(in) {
			return ev.Failf("exemplars: %d in, %d out", len(in), len(out))
		}
		for i := range in {
			if out[i].Ref != in[i].Ref || out[i].T != in[i].T || gen.B(out[i].V) != gen.B(in[i].V) || !labels.Equal(out[i].Labels, in[i].Labels) {
				return ev.Failf("exemplars[%d]: in %+v out %+v", i, in[i], out[i])
			}
		}
		if len(in) >= 2 && negDelta > 0 {
			r.NonTrivial()
		}
	case "metadata":
		in := make([]record.RefMetadata, len(c.Meta))
		for i, m := range c.Meta {
			in[i] = record.RefMetadata{Ref: chunks.HeadSeriesRef(m.Ref), Type: m.Type, Unit: m.Unit, Help: m.Help}
		}
		rec, err := strip(enc.Metadata(in, pre))
		if err != nil {
			return err
		}
		if ty := dec.Type(rec); ty != record.Metadata {
			return ev.Failf("metadata: Type=%v", ty)
		}
		out, derr := dec.Metadata(rec, nil)
		if derr != nil {
			return ev.Failf("metadata: decode error %v", derr)
		}
		if len(out) != len(in) {
			return ev.Failf("metadata: %d in, %d out", len(in), len(out))
		}
		for i := range in {
			if out[i] != in[i] {
				return ev.Failf("metadata[%d]: in %+v out %+v", i, in[i], out[i])
			}
		}
		if len(in) >= 2 {
			r.NonTrivial()
		}
	case "mmap":
		in := make([]record.RefMmapMarker, len(c.Mmap))
		for i, m := range c.Mmap {
			in[i] = record.RefMmapMarker{Ref: chunks.HeadSeriesRef(m[0]), MmapRef: chunks.ChunkDiskMapperRef(m[1])}
		}
		rec, err := strip(enc.MmapMarkers(in, pre))
		if err != nil {
			return err
		}
		if ty := dec.Type(rec); ty != record.MmapMarkers {
			return ev.Failf("mmap: Type=%v", ty)
		}
		out, derr := dec.MmapMarkers(rec, nil)
		if derr != nil {
			return ev.Failf("mmap: decode error %v", derr)
		}
		if len(out) != len(in) {
			return ev.Failf("mmap: %d in, %d out", len(in), len(out))
		}
		for i := range in {
			if out[i] != in[i] {
				return ev.Failf("mmap[%d]: in %+v out %+v", i, in[i], out[i])
			}
		}
		if len(in) >= 2 {
			r.NonTrivial()
		}
	case "hist":
		return runC14Hist(c, r, enc, dec, pre)
	case "fhist":
		return runC14FHist(c, r, enc, dec, pre)
	}
	return nil
}

func runC14Hist(c c14Case, r *ev.Rec, enc record.Encoder, dec record.Decoder, pre []byte) error {
	in := make([]record.RefHistogramSample, len(c.Hists))
	nCustom, nExp := 0, 0
	for i, h := range c.Hists {
		in[i] = record.RefHistogramSample{Ref: chunks.HeadSeriesRef(h.Ref), ST: h.ST, T: h.T, H: h.H.Int()}
		if !c.ST {
			in[i].ST = 0
		}
		if in[i].H.UsesCustomBuckets() {
			nCustom++
		} else {
			nExp++
		}
	}
	copies := make([]*record.RefHistogramSample, len(in))
	for i := range in {
		cp := in[i]
		cp.H = in[i].H.Copy()
		copies[i] = &cp
	}
	rec, left := enc.HistogramSamples(in, pre)
	var out []record.RefHistogramSample
	var outCustom []record.RefHistogramSample
	if len(rec) > len(pre) {
		rec = rec[len(pre):]
		ty := dec.Type(rec)
		want := record.HistogramSamples
		if c.ST {
			want = record.HistogramSamplesV2
		}
		if ty != want {
			return ev.Failf("hist: Type=%v want %v", ty, want)
		}
		var err error
		out, err = dec.HistogramSamples(rec, nil)
		if err != nil {
			return ev.Failf("hist: decode error %v", err)
		}
	}
	if len(left) > 0 {
		crec := enc.CustomBucketsHistogramSamples(left, pre)[len(pre):]
		ty := dec.Type(crec)
		want := record.CustomBucketsHistogramSamples
		if c.ST {
			want = record.HistogramSamplesV2
		}
		if ty != want {
			return ev.Failf("custom hist: Type=%v want %v", ty, want)
		}
		var err error
		outCustom, err = dec.HistogramSamples(crec, nil)
		if err != nil {
			return ev.Failf("custom hist: decode error %v", err)
		}
	}
	// Expected split: with V1 the exponential ones in order in `out`, the custom ones in
	// order in `outCustom`; with V2 everything in `out`.
	var wantOut, wantCustom []*record.RefHistogramSample
	for _, h := range copies {
		if !c.ST && h.H.UsesCustomBuckets() {
			wantCustom = append(wantCustom, h)
		} else {
			wantOut = append(wantOut, h)
		}
	}
	cmp := func(name string, want []*record.RefHistogramSample, got []record.RefHistogramSample) error {
		if len(want) != len(got) {
			return ev.Failf("%s: want %d samples, decoded %d (batch of %d: %d exponential, %d custom)", name, len(want), len(got), len(in), nExp, nCustom)
		}
		for i := range want {
			if got[i].Ref != want[i].Ref || got[i].T != want[i].T || got[i].ST != want[i].ST {
				return ev.Failf("%s[%d]: ref/t/st in (%d,%d,%d) out (%d,%d,%d)", name, i, want[i].Ref, want[i].T, want[i].ST, got[i].Ref, got[i].T, got[i].ST)
			}
			if d := gen.IntHistExact(want[i].H, got[i].H); d != "" {
				return ev.Failf("%s[%d]: histogram field %s differs: in %v out %v", name, i, d, want[i].H, got[i].H)
			}
		}
		return nil
	}
	if err := cmp("hist", wantOut, out); err != nil {
		return err
	}
	if err := cmp("custom hist", wantCustom, outCustom); err != nil {
		return err
	}
	// inputs must not have been modified by encoding
	for i := range in {
		if d := gen.IntHistExact(copies[i].H, in[i].H); d != "" {
			return ev.Failf("hist[%d]: encoder modified its input (%s)", i, d)
		}
	}
	if nCustom > 0 && nExp > 0 {
		r.Class("mixed-batch")
		r.NonTrivial()
	} else if len(in) >= 2 {
		r.NonTrivial()
	}
	return nil
}

func runC14FHist(c c14Case, r *ev.Rec, enc record.Encoder, dec record.Decoder, pre []byte) error {
	in := make([]record.RefFloatHistogramSample, len(c.Hists))
	nCustom, nExp := 0, 0
	for i, h := range c.Hists {
		in[i] = record.RefFloatHistogramSample{Ref: chunks.HeadSeriesRef(h.Ref), ST: h.ST, T: h.T, FH: h.H.FloatH()}
		if !c.ST {
			in[i].ST = 0
		}
		if in[i].FH.UsesCustomBuckets() {
			nCustom++
		} else {
			nExp++
		}
	}
	copies := make([]*record.RefFloatHistogramSample, len(in))
	for i := range in {
		cp := in[i]
		cp.FH = in[i].FH.Copy()
		copies[i] = &cp
	}
	rec, left := enc.FloatHistogramSamples(in, pre)
	var out, outCustom []record.RefFloatHistogramSample
	if len(rec) > len(pre) {
		rec = rec[len(pre):]
		ty := dec.Type(rec)
		want := record.FloatHistogramSamples
		if c.ST {
			want = record.FloatHistogramSamplesV2
		}
		if ty != want {
			return ev.Failf("fhist: Type=%v want %v", ty, want)
		}
		var err error
		out, err = dec.FloatHistogramSamples(rec, nil)
		if err != nil {
			return ev.Failf("fhist: decode error %v", err)
		}
	}
	if len(left) > 0 {
		crec := enc.CustomBucketsFloatHistogramSamples(left, pre)[len(pre):]
		ty := dec.Type(crec)
		want := record.CustomBucketsFloatHistogramSamples
		if c.ST {
			want = record.FloatHistogramSamplesV2
		}
		if ty != want {
			return ev.Failf("custom fhist: Type=%v want %v", ty, want)
		}
		var err error
		outCustom, err = dec.FloatHistogramSamples(crec, nil)
		if err != nil {
			return ev.Failf("custom fhist: decode error %v", err)
		}
	}
	var wantOut, wantCustom []*record.RefFloatHistogramSample
	for _, h := range copies {
		if !c.ST && h.FH.UsesCustomBuckets() {
			wantCustom = append(wantCustom, h)
		} else {
			wantOut = append(wantOut, h)
		}
	}
	cmp := func(name string, want []*record.RefFloatHistogramSample, got []record.RefFloatHistogramSample) error {
		if len(want) != len(got) {
			return ev.Failf("%s: want %d samples, decoded %d (batch of %d: %d exponential, %d custom)", name, len(want), len(got), len(in), nExp, nCustom)
		}
		for i := range want {
			if got[i].Ref != want[i].Ref || got[i].T != want[i].T || got[i].ST != want[i].ST {
				return ev.Failf("%s[%d]: ref/t/st in (%d,%d,%d) out (%d,%d,%d)", name, i, want[i].Ref, want[i].T, want[i].ST, got[i].Ref, got[i].T, got[i].ST)
			}
			if d := gen.FloatHistExact(want[i].FH, got[i].FH); d != "" {
				return ev.Failf("%s[%d]: histogram field %s differs: in %v out %v", name, i, d, want[i].FH, got[i].FH)
			}
		}
		return nil
	}
	if err := cmp("fhist", wantOut, out); err != nil {
		return err
	}
	if err := cmp("custom fhist", wantCustom, outCustom); err != nil {
		return err
	}
	for i := range in {
		if d := gen.FloatHistExact(copies[i].FH, in[i].FH); d != "" {
			return ev.Failf("fhist[%d]: encoder modified its input (%s)", i, d)
		}
	}
	if nCustom > 0 && nExp > 0 {
		r.Class("mixed-batch")
		r.NonTrivial()
	} else if len(in) >= 2 {
		r.NonTrivial()
	}
	return nil
}

func TestC14(t *testing.T) {
	ev.Check(t, "C14",
		"one record of a drawn type (series, samples V1/V2, tombstones, exemplars, metadata, mmap markers, int/float histogram batches incl. custom buckets) with generated refs/timestamps/ST patterns/float bit patterns/label sets; encode then decode and compare field by field. Non-trivial: >=2 entries and (samples/exemplars) a negative ref or timestamp delta or an ST marker change, or a mixed exponential/custom histogram batch; distinct by hash of the case.",
		genC14, runC14)
}
