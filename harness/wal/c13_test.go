package wal

import (
	"bytes"
	"encoding/binary"
	"errors"
	"fmt"
	"io"
	"os"
	"path/filepath"
	"sort"
	"strconv"
	"testing"

	"github.com/prometheus/common/promslog"
	"github.com/prometheus/prometheus/tsdb/wlog"
	"github.com/prometheus/prometheus/util/compression"
	"pgregory.net/rapid"

	"verifharness/internal/ev"
)

// C13 — the write-ahead log returns exactly the records written.
//
// Two parts share one case type: "read" (wlog.Reader over the whole directory) and
// "live" (wlog.LiveReader fed by a harness-owned io.Reader that exposes drawn, strictly
// growing prefixes of the segment file, so partial flushes and torn tails are decided
// by the harness and not by the OS).

const (
	c13Page   = 32 * 1024 // documented page size (tsdb/docs/format/wal.md)
	c13Header = 7         // type 1 + len 2 + crc 4
)

type c13Rec struct {
	// Mode "abs": N bytes. Mode "page": exactly fills the rest of the current page plus K
	// further full pages, plus N bytes (N may be negative). Mode "seg": the free payload
	// capacity of the current segment plus N bytes. Relative modes are resolved from the
	// segment file size right before the Log call, so they apply to the first record of
	// a batch; later records of a batch fall back to |N| bytes.
	Mode string
	N    int
	K    int    `json:",omitempty"`
	Fill uint8  // 0 zeros, 1 pseudo-random (incompressible), 2 short repeating text
	Seed uint32 // makes every record distinct
}

type c13Step struct {
	Op   string   // log | reopen | nextseg
	Recs []c13Rec `json:",omitempty"`
	// live part: where the reader is stopped inside the bytes this step added to the
	// current segment file.
	Cuts  []int `json:",omitempty"` // permille of the growth
	Dense bool  `json:",omitempty"` // every byte from 1 before to 9 after each fragment start
	All   bool  `json:",omitempty"` // every byte (only for growth up to the every-byte bound)
	Chunk int   `json:",omitempty"` // max bytes handed out per Read call (0: no limit)
}

type c13Case struct {
	Compress string
	SegPages int
	Live     bool
	Steps    []c13Step
}

func c13Content(r c13Rec, size int) []byte {
	b := make([]byte, size)
	switch r.Fill {
	case 0:
		// zeros, but keep records distinguishable
		if size >= 4 {
			binary.LittleEndian.PutUint32(b, r.Seed)
		}
	case 1:
		x := uint64(r.Seed)*0x9E3779B97F4A7C15 + 0x1234567
		for i := range b {
			x ^= x << 13
			x ^= x >> 7
			x ^= x << 17
			b[i] = byte(x >> 32)
		}
	default:
		pat := []byte(fmt.Sprintf("prometheus_tsdb_wal_%d{le=\"%d\"} ", r.Seed%97, r.Seed))
		for i := range b {
			b[i] = pat[i%len(pat)]
		}
	}
	return b
}

func genC13Rec(t *rapid.T, segPages int, budget *int) c13Rec {
	r := c13Rec{Mode: "abs", Fill: uint8(rapid.IntRange(0, 2).Draw(t, "fill")), Seed: rapid.Uint32().Draw(t, "seed")}
	cls := rapid.IntRange(0, 19).Draw(t, "sizeclass")
	if *budget <= 0 && cls > 5 {
		cls = 1
	}
	payload := c13Page - c13Header
	switch cls {
	case 0:
		r.N = 0
	case 1, 2, 3:
		r.N = rapid.IntRange(0, 64).Draw(t, "tiny")
	case 4, 5:
		r.N = rapid.IntRange(65, 2000).Draw(t, "small")
	case 6, 7, 8, 9:
		// exact fit of the current page and its neighbourhood: -7 leaves room for exactly
		// one empty fragment, -6..-1 forces padding, 0 fills the page, >0 spills over
		r.Mode = "page"
		r.N = rapid.SampledFrom([]int{-8, -7, -6, -1, 0, 1, 2, 7, 8}).Draw(t, "pagedelta")
		r.K = rapid.SampledFrom([]int{0, 0, 0, 1, 2}).Draw(t, "pagek")
	case 10, 11:
		r.Mode = "seg"
		r.N = rapid.SampledFrom([]int{-1, 0, 1, 1}).Draw(t, "segdelta")
	case 12, 13:
		r.N = payload + rapid.IntRange(-2, 2).Draw(t, "aroundpage")
	case 14, 15:
		r.N = rapid.IntRange(1, 3).Draw(t, "kpages")*c13Page + rapid.IntRange(-8, 8).Draw(t, "kpagesdelta")
	case 16:
		r.N = rapid.IntRange(1, 3).Draw(t, "kpayload")*payload + rapid.IntRange(-1, 1).Draw(t, "kpayloaddelta")
	case 17:
		// larger than a whole segment
		r.N = segPages*c13Page + rapid.IntRange(-8, 3000).Draw(t, "oversize")
	default:
		r.N = rapid.IntRange(2000, 40000).Draw(t, "medium")
	}
	est := r.N
	if r.Mode != "abs" {
		est = (r.K + 1) * c13Page
		if r.Mode == "seg" {
			est = segPages * c13Page
		}
	}
	*budget -= est
	return r
}

func genC13(live bool) func(t *rapid.T) c13Case {
	return func(t *rapid.T) c13Case {
		c := c13Case{
			Compress: rapid.SampledFrom([]string{"none", "snappy", "zstd"}).Draw(t, "compress"),
			SegPages: rapid.IntRange(1, 4).Draw(t, "segpages"),
			Live:     live,
		}
		budget := 320 * 1024
		if live {
			budget = 200 * 1024
		}
		nsteps := rapid.IntRange(1, 10).Draw(t, "nsteps")
		for i := 0; i < nsteps; i++ {
			var s c13Step
			switch rapid.IntRange(0, 9).Draw(t, "op") {
			case 0:
				s.Op = "reopen"
			case 1:
				s.Op = "nextseg"
			default:
				s.Op = "log"
				n := rapid.IntRange(1, 4).Draw(t, "batch")
				if rapid.IntRange(0, 15).Draw(t, "bigbatch") == 0 {
					n = rapid.IntRange(20, 300).Draw(t, "nbig")
				}
				for j := 0; j < n; j++ {
					if n > 4 {
						// long runs of small records
						s.Recs = append(s.Recs, c13Rec{Mode: "abs", N: rapid.IntRange(0, 300).Draw(t, "runsize"), Fill: uint8(rapid.IntRange(0, 2).Draw(t, "runfill")), Seed: rapid.Uint32().Draw(t, "runseed")})
						budget -= 300
						continue
					}
					s.Recs = append(s.Recs, genC13Rec(t, c.SegPages, &budget))
				}
			}
			if live {
				nc := rapid.IntRange(0, 4).Draw(t, "ncuts")
				for j := 0; j < nc; j++ {
					s.Cuts = append(s.Cuts, rapid.IntRange(1, 999).Draw(t, "cut"))
				}
				s.Dense = rapid.IntRange(0, 2).Draw(t, "dense") > 0
				s.All = rapid.IntRange(0, 3).Draw(t, "all") == 0
				s.Chunk = rapid.SampledFrom([]int{0, 0, 0, 1, 7, 100, 4096, c13Page - 1}).Draw(t, "chunk")
			}
			c.Steps = append(c.Steps, s)
		}
		return c
	}
}

// ---- independent description of a segment file, written from the format document ----

type c13Frag struct {
	start, end int // file offsets, end exclusive
	typ        byte
	plen       int
}

// c13Parser walks the fragments of a segment prefix. It never looks at bytes at or
// beyond `limit`.
type c13Parser struct {
	o        int  // next fragment start
	complete int  // records whose final fragment lies completely inside the prefix
	inRec    bool // a first/middle fragment was seen, the final one not yet
	frags    []c13Frag
	keep     bool // record fragments (for the layout checks)
}

func (p *c13Parser) advance(data []byte, limit int) error {
	for p.o < limit {
		left := c13Page - p.o%c13Page
		if data[p.o] == 0 {
			p.o += left // rest of page is padding
			continue
		}
		if left < c13Header {
			return fmt.Errorf("fragment header starts %d bytes before a page end at offset %d", left, p.o)
		}
		if p.o+c13Header > limit {
			return nil
		}
		l := int(binary.BigEndian.Uint16(data[p.o+1:]))
		if l > left-c13Header {
			return fmt.Errorf("fragment at offset %d with length %d crosses the page end", p.o, l)
		}
		if p.o+c13Header+l > limit {
			return nil
		}
		typ := data[p.o] & 7
		switch typ {
		case 1:
			if p.inRec {
				return fmt.Errorf("full fragment inside an open record at offset %d", p.o)
			}
			p.complete++
		case 2:
			if p.inRec {
				return fmt.Errorf("first fragment inside an open record at offset %d", p.o)
			}
			p.inRec = true
		case 3:
			if !p.inRec {
				return fmt.Errorf("middle fragment without first at offset %d", p.o)
			}
		case 4:
			if !p.inRec {
				return fmt.Errorf("last fragment without first at offset %d", p.o)
			}
			p.inRec = false
			p.complete++
		default:
			return fmt.Errorf("fragment type %d at offset %d", typ, p.o)
		}
		if p.keep {
			p.frags = append(p.frags, c13Frag{start: p.o, end: p.o + c13Header + l, typ: typ, plen: l})
		}
		p.o += c13Header + l
	}
	return nil
}

func c13Segments(dir string) ([]int, error) {
	ents, err := os.ReadDir(dir)
	if err != nil {
		return nil, err
	}
	var out []int
	for _, e := range ents {
		if k, err := strconv.Atoi(e.Name()); err == nil {
			out = append(out, k)
		}
	}
	sort.Ints(out)
	return out, nil
}

func c13SegName(dir string, i int) string { return filepath.Join(dir, fmt.Sprintf("%08d", i)) }

// ---- harness-owned reader -----------------------------------------------------------

type c13Prefix struct {
	data  []byte // bytes of the segment file known so far
	off   int    // handed to the live reader so far
	limit int    // currently visible prefix
	chunk int
}

func (p *c13Prefix) Read(b []byte) (int, error) {
	if p.off >= p.limit {
		return 0, io.EOF
	}
	n := len(b)
	if n > p.limit-p.off {
		n = p.limit - p.off
	}
	if p.chunk > 0 && n > p.chunk {
		n = p.chunk
	}
	copy(b, p.data[p.off:p.off+n])
	p.off += n
	return n, nil
}

type c13Live struct {
	dir     string
	written *[][]byte
	seg     int
	pr      *c13Prefix
	lr      *wlog.LiveReader
	ref     c13Parser
	got     int
	inside  int // stages at which the visible prefix ended inside a fragment or an open record
	stages  int
	allMax  int
}

func (l *c13Live) open(seg int) {
	l.seg = seg
	l.pr = &c13Prefix{}
	l.lr = wlog.NewLiveReader(promslog.NewNopLogger(), wlog.NewLiveReaderMetrics(nil), l.pr)
	l.ref.o, l.ref.inRec = 0, false
}

// stage exposes the first `limit` bytes and drains the live reader.
func (l *c13Live) stage(limit int, full bool) error {
	l.pr.limit = limit
	l.stages++
	for l.lr.Next() {
		rec := l.lr.Record()
		if l.got >= len(*l.written) {
			return ev.Failf("live reader returned a record (%d bytes) beyond the %d written ones (segment %d, prefix %d)", len(rec), len(*l.written), l.seg, limit)
		}
		if !bytes.Equal(rec, (*l.written)[l.got]) {
			return ev.Failf("live reader record #%d differs from what was written (segment %d, prefix %d of %d): got %d bytes %s, want %d bytes %s",
				l.got, l.seg, limit, len(l.pr.data), len(rec), c13Head(rec), len((*l.written)[l.got]), c13Head((*l.written)[l.got]))
		}
		l.got++
	}
	if err := l.lr.Err(); !errors.Is(err, io.EOF) {
		return ev.Failf("live reader stopped with %v instead of io.EOF at prefix %d of %d bytes of segment %d (records delivered so far %d)", err, limit, len(l.pr.data), l.seg, l.got)
	}
	if err := l.ref.advance(l.pr.data, limit); err != nil {
		return ev.Failf("segment %d does not follow the documented page format: %v", l.seg, err)
	}
	if l.ref.o < limit || l.ref.inRec {
		l.inside++
	}
	if l.got != l.ref.complete {
		return ev.Failf("live reader delivered %d records, but %d complete records are visible in the first %d bytes of segment %d (earlier segments fully read)", l.got, l.ref.complete, limit, l.seg)
	}
	if full && l.got != len(*l.written) {
		return ev.Failf("after Log returned, %d records were written but only %d are readable from the flushed bytes (segment %d, %d bytes)", len(*l.written), l.got, l.seg, limit)
	}
	return nil
}

// catchUp is called at quiescent points of the writer: it loads what the step added to
// the files and walks the reader through the requested cuts.
func (l *c13Live) catchUp(s c13Step) error {
	segs, err := c13Segments(l.dir)
	if err != nil {
		return err
	}
	last := segs[len(segs)-1]
	for {
		b, err := os.ReadFile(c13SegName(l.dir, l.seg))
		if err != nil {
			return err
		}
		prev := l.pr.limit
		if len(b) < prev || !bytes.Equal(b[:prev], l.pr.data[:prev]) {
			return ev.Failf("segment %d changed in its already written part (%d bytes before, %d now)", l.seg, prev, len(b))
		}
		l.pr.data = b
		size := len(b)
		l.pr.chunk = s.Chunk
		growth := size - prev
		if s.Chunk > 0 && s.Chunk < 64 && growth > 16*1024 {
			l.pr.chunk = 4096
		}
		if growth > 0 {
			cuts := map[int]bool{}
			for _, pm := range s.Cuts {
				cuts[prev+1+(growth-1)*pm/1000] = true
			}
			if s.All && growth <= l.allMax {
				for x := prev + 1; x < size; x++ {
					cuts[x] = true
				}
			}
			if s.Dense {
				probe := l.ref
				probe.keep, probe.frags = true, nil
				_ = probe.advance(b, size)
				for _, f := range probe.frags {
					for x := f.start - 1; x <= f.start+9; x++ {
						if x > prev && x < size {
							cuts[x] = true
						}
					}
					if f.end-1 > prev && f.end-1 < size {
						cuts[f.end-1] = true
					}
				}
			}
			order := make([]int, 0, len(cuts))
			for x := range cuts {
				order = append(order, x)
			}
			sort.Ints(order)
			for _, x := range order {
				if err := l.stage(x, false); err != nil {
					return err
				}
			}
		}
		if err := l.stage(size, l.seg == last); err != nil {
			return err
		}
		if l.seg == last {
			return nil
		}
		// the writer has moved on: this segment is final and must have been consumed whole
		if off := l.lr.Offset(); off != int64(size) {
			return ev.Failf("live reader consumed %d of the %d bytes of the finished segment %d", off, size, l.seg)
		}
		l.open(l.seg + 1)
	}
}

func c13Head(b []byte) string {
	if len(b) > 12 {
		return fmt.Sprintf("%x...", b[:12])
	}
	return fmt.Sprintf("%x", b)
}

// c13Resolve turns a record spec into a size using the size of the active segment file.
func c13Resolve(r c13Rec, first bool, fileSize, segPages int) int {
	n := r.N
	if r.Mode != "abs" && !first {
		if n < 0 {
			n = -n
		}
		return n
	}
	pageLeft := c13Page - fileSize%c13Page
	switch r.Mode {
	case "page":
		n = pageLeft - c13Header + r.K*(c13Page-c13Header) + r.N
	case "seg":
		done := fileSize / c13Page
		n = pageLeft - c13Header + (c13Page-c13Header)*(segPages-done-1) + r.N
	}
	if n < 0 {
		n = 0
	}
	return n
}

func runC13(c c13Case, r *ev.Rec) error {
	dir, err := os.MkdirTemp("", "c13")
	if err != nil {
		return err
	}
	defer os.RemoveAll(dir)
	segSize := c.SegPages * c13Page
	open := func() (*wlog.WL, error) {
		return wlog.NewSize(nil, nil, dir, segSize, compression.Type(c.Compress))
	}
	w, err := open()
	if err != nil {
		return ev.Failf("NewSize: %v", err)
	}
	closed := false
	defer func() {
		if !closed {
			w.Close()
		}
	}()
	r.Class("compress:" + c.Compress)
	r.Class(fmt.Sprintf("segpages:%d", c.SegPages))

	var written [][]byte
	var live *c13Live
	if c.Live {
		live = &c13Live{dir: dir, written: &written, allMax: 4096}
		if ev.Thorough() {
			live.allMax = 3 * c13Page
		}
		live.open(0)
	}
	explicitSwitches := 0
	for si, s := range c.Steps {
		switch s.Op {
		case "log":
			segs, err := c13Segments(dir)
			if err != nil {
				return err
			}
			st, err := os.Stat(c13SegName(dir, segs[len(segs)-1]))
			if err != nil {
				return err
			}
			batch := make([][]byte, 0, len(s.Recs))
			for i, rs := range s.Recs {
				batch = append(batch, c13Content(rs, c13Resolve(rs, i == 0, int(st.Size()), c.SegPages)))
				if rs.Mode != "abs" && i == 0 {
					r.Class("size:" + rs.Mode)
				}
			}
			if err := w.Log(batch...); err != nil {
				return ev.Failf("step %d: Log of %d records failed: %v", si, len(batch), err)
			}
			written = append(written, batch...)
		case "reopen":
			if err := w.Close(); err != nil {
				return ev.Failf("step %d: Close: %v", si, err)
			}
			if w, err = open(); err != nil {
				closed = true
				return ev.Failf("step %d: NewSize on existing dir: %v", si, err)
			}
			explicitSwitches++
			r.Class("reopen")
		case "nextseg":
			if _, err := w.NextSegmentSync(); err != nil {
				return ev.Failf("step %d: NextSegmentSync: %v", si, err)
			}
			explicitSwitches++
		}
		if live != nil {
			if err := live.catchUp(s); err != nil {
				return err
			}
		}
	}

	readAll := func(when string) error {
		sr, err := wlog.NewSegmentsReader(dir)
		if err != nil {
			return ev.Failf("%s: NewSegmentsReader: %v", when, err)
		}
		defer sr.Close()
		rd := wlog.NewReader(sr)
		i := 0
		for rd.Next() {
			rec := rd.Record()
			if i >= len(written) {
				return ev.Failf("%s: reader returned a record (%d bytes) beyond the %d written", when, len(rec), len(written))
			}
			if !bytes.Equal(rec, written[i]) {
				return ev.Failf("%s: record #%d of %d differs: got %d bytes %s, want %d bytes %s (compression %s, segment %d pages)", when, i, len(written), len(rec), c13Head(rec), len(written[i]), c13Head(written[i]), c.Compress, c.SegPages)
			}
			i++
		}
		if err := rd.Err(); err != nil {
			return ev.Failf("%s: reader error after %d of %d records: %v", when, i, len(written), err)
		}
		if i != len(written) {
			return ev.Failf("%s: reader returned %d records, %d were written", when, i, len(written))
		}
		return nil
	}
	if err := readAll("before Close"); err != nil {
		return err
	}
	if err := w.Close(); err != nil {
		return ev.Failf("final Close: %v", err)
	}
	closed = true
	if live != nil {
		if err := live.catchUp(c13Step{}); err != nil {
			return err
		}
		if live.inside > 0 {
			r.Class("live:stopped-inside-record")
		}
		r.Count("live:stages", live.stages)
	}
	if err := readAll("after Close"); err != nil {
		return err
	}

	// Layout facts from the format document, established with the independent parser:
	// fragments never cross pages, and a record never leaves its segment - a segment
	// grows beyond the configured size only for the record it starts with.
	segs, err := c13Segments(dir)
	if err != nil {
		return err
	}
	total, multiPage := 0, false
	for _, k := range segs {
		b, err := os.ReadFile(c13SegName(dir, k))
		if err != nil {
			return err
		}
		if len(b)%c13Page != 0 {
			return ev.Failf("segment %d has %d bytes after Close, not a multiple of the page size", k, len(b))
		}
		p := c13Parser{keep: true}
		if err := p.advance(b, len(b)); err != nil {
			return ev.Failf("segment %d does not follow the documented page format: %v", k, err)
		}
		if p.inRec {
			return ev.Failf("segment %d ends inside a record: records must not be split across segments", k)
		}
		total += p.complete
		nrec, recLen := 0, 0
		for _, f := range p.frags {
			recLen += f.plen
			if f.typ == 2 || f.typ == 3 || f.typ == 4 {
				multiPage = true
			}
			if f.typ == 1 || f.typ == 4 {
				nrec++
				if nrec > 1 && recLen > 0 && f.end > segSize {
					return ev.Failf("segment %d (configured size %d): record %d of the segment ends at offset %d; only the first record of a segment may make it larger than configured", k, segSize, nrec, f.end)
				}
				recLen = 0
			}
		}
	}
	if total != len(written) {
		return ev.Failf("segments hold %d complete records, %d were written", total, len(written))
	}
	forced := len(segs) - 1 - explicitSwitches
	if forced > 0 {
		r.Class("forced-segment-switch")
	}
	if multiPage {
		r.Class("multi-page-record")
	}
	if multiPage || forced > 0 || (live != nil && live.inside > 0) {
		r.NonTrivial()
	}
	return nil
}

const c13Rule = "record sequences (sizes tiny / exact page fit -8..+8 / k pages +-1 / segment capacity +-1 / larger than a segment; zero, random or text content) x compression none/snappy/zstd x segment size 1-4 pages x Log batch grouping x Close+NewSize x NextSegment; "

func TestC13Read(t *testing.T) {
	ev.Check(t, "C13", c13Rule+"read back with wlog.Reader before and after Close and compared byte for byte, plus page/segment layout facts from the format document via an independent fragment parser. Non-trivial: some record spans >= 2 pages or the writer was forced into a new segment; distinct by hash of the case.",
		genC13(false), runC13, ev.Opts{Part: "read"})
}

func TestC13Live(t *testing.T) {
	ev.Check(t, "C13", c13Rule+"a wlog.LiveReader per segment is fed by a harness-owned io.Reader exposing drawn growing prefixes (permille cuts, every byte around each fragment header, every byte of small flushes, short reads) after each writer step; at every stage it must have delivered exactly the records completely visible (independent parser), in order, and stop with io.EOF. Non-trivial: the reader was stopped inside a fragment/record, or a record spans pages, or a forced segment switch.",
		genC13(true), runC13, ev.Opts{Part: "live"})
}
