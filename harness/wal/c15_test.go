package wal

import (
	"context"
	"fmt"
	"io"
	"math"
	"os"
	"path/filepath"
	"sort"
	"strconv"
	"strings"
	"testing"
	"time"

	"github.com/prometheus/common/model"
	"github.com/prometheus/common/promslog"
	"github.com/prometheus/prometheus/model/exemplar"
	"github.com/prometheus/prometheus/model/histogram"
	"github.com/prometheus/prometheus/model/labels"
	"github.com/prometheus/prometheus/model/metadata"
	"github.com/prometheus/prometheus/storage"
	"github.com/prometheus/prometheus/tsdb"
	"github.com/prometheus/prometheus/tsdb/chunkenc"
	"github.com/prometheus/prometheus/tsdb/chunks"
	"github.com/prometheus/prometheus/tsdb/record"
	"github.com/prometheus/prometheus/tsdb/tombstones"
	"github.com/prometheus/prometheus/tsdb/wlog"
	"github.com/prometheus/prometheus/util/compression"
	"pgregory.net/rapid"

	"verifharness/internal/ev"
	"verifharness/internal/gen"
)

// C15 — WAL truncation keeps everything replay still needs.
//
// Part "head": a history runs on a real tsdb.DB (32 KiB WAL segments). Before every
// operation that may truncate the WAL all segment files are copied aside, so that the
// untruncated log (every segment ever written, no checkpoint) is available. After every
// truncation that wrote a checkpoint, and at the end:
//   (1) checkpoint + remaining segments are decoded record by record: every sample,
//       exemplar, metadata and tombstone entry must refer to a series record that
//       precedes it in replay order;
//   (2) two fresh heads are initialised with the same minValidTime M (the truncation
//       time), one on a copy of the truncated WAL, one on the untruncated log, and must
//       return the same samples at t >= M, the same exemplars, and react identically to
//       a metadata update carrying the newest committed metadata.
// Part "agent": the agent history machinery of C48 with C15's non-trivial rule.

type c15Append struct {
	S    int
	Kind uint8 // 0 float, 1 int histogram, 2 float histogram, 3 float staleness marker
	DT   int64 // t = step time + DT
	V    uint64
	H    *gen.Hist `json:",omitempty"`
	Ex   bool      `json:",omitempty"` // attach an exemplar (ts = t)
	Meta uint8     `json:",omitempty"` // 0 none, else metadata variant
}

type c15Step struct {
	Op       string      // tx delete truncate compacthead stale selected restart
	T        int64       `json:",omitempty"` // tx: time; truncate/compacthead: truncation time
	Rollback bool        `json:",omitempty"`
	Appends  []c15Append `json:",omitempty"`
	Sel      []int       `json:",omitempty"` // selected / delete: series indexes
	Mint     int64       `json:",omitempty"` // delete
	Maxt     int64       `json:",omitempty"`
}

type c15Case struct {
	Compress     string
	IsolationOff bool
	Series       []gen.Lset
	Steps        []c15Step
}

func genC15(t *rapid.T) c15Case {
	c := c15Case{
		Compress:     rapid.SampledFrom([]string{"none", "none", "none", "snappy", "zstd"}).Draw(t, "compress"),
		IsolationOff: rapid.Bool().Draw(t, "isooff"),
	}
	ns := rapid.IntRange(2, 5).Draw(t, "nseries")
	seen := map[string]bool{}
	for len(c.Series) < ns {
		l := gen.SmallLset(true, 2).Draw(t, "lset")
		if seen[l.Key()] {
			l = append(l, [2]string{"zzidx", fmt.Sprint(len(c.Series))})
		}
		seen[l.Key()] = true
		c.Series = append(c.Series, l)
	}
	now := int64(rapid.SampledFrom([]int{1000, 1500, 990}).Draw(t, "t0"))
	last := make([]int64, ns) // generator's guess of each series' newest sample
	var prevTrunc int64
	nsteps := rapid.IntRange(6, 30).Draw(t, "nsteps")
	for i := 0; i < nsteps; i++ {
		var s c15Step
		switch rapid.IntRange(0, 19).Draw(t, "op") {
		case 0, 1, 2, 3, 4, 5, 6, 7:
			s.Op = "tx"
			s.T = now
			s.Rollback = rapid.IntRange(0, 9).Draw(t, "rollback") == 0
			na := rapid.IntRange(1, 5).Draw(t, "nappends")
			for j := 0; j < na; j++ {
				a := c15Append{}
				// series 0 and 1 are hot, the rest get samples rarely and fall behind
				a.S = rapid.SampledFrom([]int{0, 0, 0, 1, 1, 2, 3, 4}).Draw(t, "series") % ns
				a.Kind = uint8(rapid.SampledFrom([]int{0, 0, 0, 0, 1, 2, 3, 3}).Draw(t, "kind"))
				a.DT = int64(rapid.SampledFrom([]int{0, 0, 1, 7}).Draw(t, "dt"))
				switch a.Kind {
				case 0:
					a.V = gen.FiniteFloatBits().Draw(t, "v")
				case 1:
					h := gen.Histogram(gen.HistOpts{AllowCustom: true, MaxBuckets: 4}).Draw(t, "h")
					a.H = &h
				case 2:
					h := gen.Histogram(gen.HistOpts{Float: true, AllowCustom: true, MaxBuckets: 4}).Draw(t, "fh")
					a.H = &h
				case 3:
					a.V = gen.StaleNaNBits
				}
				a.Ex = a.Kind != 3 && rapid.IntRange(0, 3).Draw(t, "ex") == 0
				if rapid.IntRange(0, 4).Draw(t, "meta") == 0 {
					a.Meta = uint8(rapid.IntRange(1, 4).Draw(t, "metav"))
				}
				if !s.Rollback && s.T+a.DT > last[a.S] {
					last[a.S] = s.T + a.DT
				}
				s.Appends = append(s.Appends, a)
			}
			now += int64(rapid.SampledFrom([]int{1, 10, 15, 100, 400, 1000}).Draw(t, "advance"))
		case 8:
			s.Op = "delete"
			s.Sel = []int{rapid.IntRange(0, ns-1).Draw(t, "delseries")}
			s.Mint = now - int64(rapid.IntRange(0, 1500).Draw(t, "delback"))
			s.Maxt = s.Mint + int64(rapid.IntRange(0, 1500).Draw(t, "dellen"))
		case 9, 10, 11, 12, 13:
			s.Op = "truncate"
			if rapid.IntRange(0, 3).Draw(t, "viablock") == 0 {
				s.Op = "compacthead"
			}
			// truncation times move forward; aim at the newest sample of some series,
			// just above it, block boundaries and "everything so far"
			var cands []int64
			for _, l := range last {
				if l > prevTrunc {
					cands = append(cands, l, l+1)
				}
			}
			cands = append(cands, (now/1000)*1000, now-100, now, now+1)
			m := rapid.SampledFrom(cands).Draw(t, "trunc")
			if m <= prevTrunc {
				m = prevTrunc + int64(rapid.IntRange(1, 50).Draw(t, "truncfwd"))
			}
			s.T = m
			prevTrunc = m
			if now < m {
				now = m // new samples below the truncation time would be rejected
			}
		case 14:
			s.Op = "stale"
		case 15:
			s.Op = "selected"
			k := rapid.IntRange(1, 2).Draw(t, "nsel")
			for j := 0; j < k; j++ {
				s.Sel = append(s.Sel, rapid.IntRange(0, ns-1).Draw(t, "selseries"))
			}
		default:
			s.Op = "restart"
		}
		c.Steps = append(c.Steps, s)
	}
	return c
}

var c15Metas = []metadata.Metadata{
	{},
	{Type: model.MetricTypeCounter, Help: "help one", Unit: ""},
	{Type: model.MetricTypeGauge, Help: "help two", Unit: "seconds"},
	{Type: model.MetricTypeCounter, Help: "help three", Unit: "bytes"},
	{Type: model.MetricTypeHistogram, Help: "", Unit: ""},
}

func c15CopyFile(src, dst string) error {
	in, err := os.Open(src)
	if err != nil {
		return err
	}
	defer in.Close()
	out, err := os.Create(dst)
	if err != nil {
		return err
	}
	if _, err := io.Copy(out, in); err != nil {
		out.Close()
		return err
	}
	return out.Close()
}

// c15CopySegments copies the numbered segment files of src into dst (overwriting).
func c15CopySegments(src, dst string) error {
	if err := os.MkdirAll(dst, 0o777); err != nil {
		return err
	}
	ents, err := os.ReadDir(src)
	if os.IsNotExist(err) {
		return nil // nothing archived yet
	}
	if err != nil {
		return err
	}
	for _, e := range ents {
		if _, err := strconv.Atoi(e.Name()); err != nil || e.IsDir() {
			continue
		}
		if err := c15CopyFile(filepath.Join(src, e.Name()), filepath.Join(dst, e.Name())); err != nil {
			return err
		}
	}
	return nil
}

// c15CopyWAL copies segments and the newest checkpoint directory.
func c15CopyWAL(src, dst string) error {
	if err := c15CopySegments(src, dst); err != nil {
		return err
	}
	cp, _, err := wlog.LastCheckpoint(src)
	if err != nil {
		return nil // no checkpoint
	}
	return c15CopySegments(cp, filepath.Join(dst, filepath.Base(cp)))
}

type c15View struct {
	samples   map[string][]string // series -> rendered samples
	exemplars map[string][]string
}

func c15HistString(h *histogram.FloatHistogram) string {
	// by meaning, not by span layout; counter-reset hints are not compared here
	return fmt.Sprintf("schema=%d zt=%x zc=%x count=%x sum=%x cv=%v pos=%v neg=%v", h.Schema, math.Float64bits(h.ZeroThreshold), math.Float64bits(h.ZeroCount),
		math.Float64bits(h.Count), math.Float64bits(h.Sum), h.CustomValues, c15Buckets(h.PositiveSpans, h.PositiveBuckets), c15Buckets(h.NegativeSpans, h.NegativeBuckets))
}

func c15Buckets(spans []histogram.Span, b []float64) string {
	m := gen.BucketMap(spans, b)
	keys := make([]int, 0, len(m))
	for k := range m {
		keys = append(keys, int(k))
	}
	sort.Ints(keys)
	var sb strings.Builder
	for _, k := range keys {
		fmt.Fprintf(&sb, "%d:%x ", k, math.Float64bits(m[int32(k)]))
	}
	return sb.String()
}

// c15Replay initialises a fresh head on walDir with the given minValidTime and reads it
// through the public query API. The returned closer releases it.
func c15Replay(walDir, scratch string, compress string, minValid int64) (*tsdb.Head, *wlog.WL, *c15View, error) {
	wl, err := wlog.NewSize(nil, nil, walDir, 32*1024, compression.Type(compress))
	if err != nil {
		return nil, nil, nil, err
	}
	ho := tsdb.DefaultHeadOptions()
	ho.ChunkRange = 20000
	ho.ChunkDirRoot = scratch
	ho.StripeSize = 16
	ho.SamplesPerChunk = 8
	ho.WALReplayConcurrency = 2
	ho.EnableExemplarStorage = true
	ho.MaxExemplars.Store(2000)
	h, err := tsdb.NewHead(nil, promslog.NewNopLogger(), wl, nil, ho, nil)
	if err != nil {
		wl.Close()
		return nil, nil, nil, err
	}
	if err := h.Init(minValid); err != nil {
		h.Close()
		return nil, nil, nil, fmt.Errorf("Head.Init: %w", err)
	}
	v := &c15View{samples: map[string][]string{}, exemplars: map[string][]string{}}
	q, err := tsdb.NewBlockQuerier(h, minValid, math.MaxInt64)
	if err != nil {
		h.Close()
		return nil, nil, nil, err
	}
	all := labels.MustNewMatcher(labels.MatchRegexp, "__name__", ".+")
	ss := q.Select(context.Background(), true, nil, all)
	var it chunkenc.Iterator
	for ss.Next() {
		s := ss.At()
		key := s.Labels().String()
		it = s.Iterator(it)
		for vt := it.Next(); vt != chunkenc.ValNone; vt = it.Next() {
			switch vt {
			case chunkenc.ValFloat:
				t, f := it.At()
				v.samples[key] = append(v.samples[key], fmt.Sprintf("%d float %x", t, math.Float64bits(f)))
			case chunkenc.ValHistogram:
				t, hh := it.AtHistogram(nil)
				v.samples[key] = append(v.samples[key], fmt.Sprintf("%d hist %s", t, c15HistString(hh.ToFloat(nil))))
			case chunkenc.ValFloatHistogram:
				t, fh := it.AtFloatHistogram(nil)
				v.samples[key] = append(v.samples[key], fmt.Sprintf("%d fhist %s", t, c15HistString(fh)))
			}
		}
		if err := it.Err(); err != nil {
			q.Close()
			h.Close()
			return nil, nil, nil, err
		}
	}
	if err := ss.Err(); err != nil {
		q.Close()
		h.Close()
		return nil, nil, nil, err
	}
	q.Close()
	eq, err := h.ExemplarQuerier(context.Background())
	if err != nil {
		h.Close()
		return nil, nil, nil, err
	}
	res, err := eq.Select(minValid, math.MaxInt64, []*labels.Matcher{all})
	if err != nil {
		h.Close()
		return nil, nil, nil, err
	}
	for _, qr := range res {
		key := qr.SeriesLabels.String()
		for _, e := range qr.Exemplars {
			v.exemplars[key] = append(v.exemplars[key], fmt.Sprintf("%d %x %s", e.Ts, math.Float64bits(e.Value), e.Labels.String()))
		}
	}
	return h, wl, v, nil
}

func c15DiffViews(what string, trunc, full map[string][]string) string {
	keys := map[string]bool{}
	for k := range trunc {
		keys[k] = true
	}
	for k := range full {
		keys[k] = true
	}
	sorted := make([]string, 0, len(keys))
	for k := range keys {
		sorted = append(sorted, k)
	}
	sort.Strings(sorted)
	for _, k := range sorted {
		a, b := trunc[k], full[k]
		if len(a) != len(b) {
			return fmt.Sprintf("%s of %s: replay of checkpoint+segments has %d, replay of the untruncated log has %d; truncated=%v untruncated=%v", what, k, len(a), len(b), c15Short(a), c15Short(b))
		}
		for i := range a {
			if a[i] != b[i] {
				return fmt.Sprintf("%s of %s differ at #%d: truncated %q, untruncated %q", what, k, i, a[i], b[i])
			}
		}
	}
	return ""
}

func c15Short(s []string) []string {
	if len(s) > 6 {
		return append(append([]string{}, s[:6]...), "...")
	}
	return s
}

// c15WriteRenumbered re-encodes the decoded untruncated log (every segment ever written,
// in order) into a fresh WAL directory in which every incarnation of a label set has
// exactly one series number. The raw concatenation cannot serve as reference itself:
//   - after the head has dropped every record of a ref and restarted, the ref number is
//     handed out again, for other or the same labels;
//   - which of several refs of one label set is the live one after a restart depends on
//     which series records survived truncation, so later entries are logged under a ref
//     that a replay of the raw concatenation would map differently.
//
// Attribution rule, written from what the records mean: an entry belongs to the label
// set named by the series record of its ref that most recently preceded it; a label set
// is one series from its first series record until a series-deletion marker (full-range
// tombstone) for one of its refs, after which the next series record starts a new one.
// It returns the number of re-issued ref numbers seen.
func c15WriteRenumbered(items []walItem, dir string) (int, error) {
	wl, err := wlog.NewSize(nil, nil, dir, 32*1024, compression.None)
	if err != nil {
		return 0, err
	}
	defer wl.Close()
	var enc record.Encoder
	refLabel := map[uint64]string{} // ref -> label set of its most recent series record
	cur := map[string]uint64{}      // label set -> number of its live incarnation (0: none)
	next := uint64(0)
	reissued := 0
	refLset := map[uint64]labels.Labels{}
	var implicit []record.RefSeries
	remap := func(ref uint64) chunks.HeadSeriesRef {
		k, ok := refLabel[ref]
		if !ok {
			return chunks.HeadSeriesRef(ref + 900_000_000) // never introduced: stays unknown
		}
		if cur[k] == 0 {
			// Entry logged after the label set was evicted, under a ref whose series record is
			// still in the log and carries no deletion marker of its own: after a restart the
			// head re-creates the series from that record and keeps logging under it without
			// a new series record. The entry starts a new incarnation.
			next++
			cur[k] = next
			implicit = append(implicit, record.RefSeries{Ref: chunks.HeadSeriesRef(next), Labels: refLset[ref]})
		}
		return chunks.HeadSeriesRef(cur[k])
	}
	isMarker := func(it walItem) bool {
		return len(it.Ivs) == 1 && it.Ivs[0].Mint == math.MinInt64 && it.Ivs[0].Maxt == math.MaxInt64
	}
	for i := 0; i < len(items); {
		j := i
		for j < len(items) && items[j].RecNo == items[i].RecNo && items[j].Kind == items[i].Kind {
			j++
		}
		group := items[i:j]
		i = j
		var rec []byte
		switch group[0].Kind {
		case "series":
			var out []record.RefSeries
			for _, it := range group {
				k := it.L.String()
				if prev, ok := refLabel[it.Ref]; ok && prev != k {
					reissued++
				}
				refLabel[it.Ref] = k
				refLset[it.Ref] = it.L
				if cur[k] == 0 {
					next++
					cur[k] = next
					out = append(out, record.RefSeries{Ref: chunks.HeadSeriesRef(next), Labels: it.L})
				}
			}
			if len(out) > 0 {
				rec = enc.Series(out, nil)
			}
		case "float":
			var out []record.RefSample
			for _, it := range group {
				out = append(out, record.RefSample{Ref: remap(it.Ref), T: it.T, V: math.Float64frombits(it.V)})
			}
			rec = enc.Samples(out, nil)
		case "hist":
			var out []record.RefHistogramSample
			for _, it := range group {
				out = append(out, record.RefHistogramSample{Ref: remap(it.Ref), T: it.T, H: it.H})
			}
			var left []record.RefHistogramSample
			rec, left = enc.HistogramSamples(out, nil)
			if len(left) > 0 {
				if len(rec) > 0 {
					if err := wl.Log(rec); err != nil {
						return 0, err
					}
				}
				rec = enc.CustomBucketsHistogramSamples(left, nil)
			}
		case "fhist":
			var out []record.RefFloatHistogramSample
			for _, it := range group {
				out = append(out, record.RefFloatHistogramSample{Ref: remap(it.Ref), T: it.T, FH: it.FH})
			}
			var left []record.RefFloatHistogramSample
			rec, left = enc.FloatHistogramSamples(out, nil)
			if len(left) > 0 {
				if len(rec) > 0 {
					if err := wl.Log(rec); err != nil {
						return 0, err
					}
				}
				rec = enc.CustomBucketsFloatHistogramSamples(left, nil)
			}
		case "exemplar":
			var out []record.RefExemplar
			for _, it := range group {
				out = append(out, record.RefExemplar{Ref: remap(it.Ref), T: it.T, V: math.Float64frombits(it.V), Labels: it.L})
			}
			rec = enc.Exemplars(out, nil)
		case "tomb":
			var out []tombstones.Stone
			for _, it := range group {
				k, ok := refLabel[it.Ref]
				if isMarker(it) {
					if ok && cur[k] != 0 {
						out = append(out, tombstones.Stone{Ref: storage.SeriesRef(cur[k]), Intervals: it.Ivs})
						cur[k] = 0
					}
					continue
				}
				out = append(out, tombstones.Stone{Ref: storage.SeriesRef(remap(it.Ref)), Intervals: it.Ivs})
			}
			if len(out) == 0 {
				continue
			}
			rec = enc.Tombstones(out, nil)
		case "meta":
			var out []record.RefMetadata
			for _, it := range group {
				m := it.Meta
				m.Ref = remap(it.Ref)
				out = append(out, m)
			}
			rec = enc.Metadata(out, nil)
		}
		if len(implicit) > 0 {
			if err := wl.Log(enc.Series(implicit, nil)); err != nil {
				return 0, err
			}
			implicit = implicit[:0]
		}
		if len(rec) > 0 {
			if err := wl.Log(rec); err != nil {
				return 0, err
			}
		}
	}
	return reissued, nil
}

func runC15Head(c c15Case, r *ev.Rec) error {
	root, err := os.MkdirTemp("", "c15")
	if err != nil {
		return err
	}
	defer os.RemoveAll(root)
	dbDir := filepath.Join(root, "db")
	walDir := filepath.Join(dbDir, "wal")
	archive := filepath.Join(root, "archive")
	open := func() (*tsdb.DB, error) {
		o := tsdb.DefaultOptions()
		o.WALSegmentSize = 32 * 1024
		o.WALCompression = compression.Type(c.Compress)
		o.MinBlockDuration = 20000
		o.MaxBlockDuration = 20000
		o.RetentionDuration = 0
		o.NoLockfile = true
		o.StripeSize = 16
		o.SamplesPerChunk = 8
		o.WALReplayConcurrency = 2
		o.EnableExemplarStorage = true
		o.MaxExemplars = 2000
		o.IsolationDisabled = c.IsolationOff
		o.BlockReloadInterval = 24 * time.Hour
		db, err := tsdb.Open(dbDir, promslog.NewNopLogger(), nil, o, nil)
		if err != nil {
			return nil, err
		}
		db.DisableCompactions()
		return db, nil
	}
	db, err := open()
	if err != nil {
		return ev.Failf("tsdb.Open: %v", err)
	}
	dbOpen := true
	defer func() {
		if dbOpen {
			db.Close()
		}
	}()
	ctx := context.Background()
	lsets := make([]labels.Labels, len(c.Series))
	keys := make([]string, len(c.Series))
	for i, l := range c.Series {
		lsets[i] = l.Labels()
		keys[i] = lsets[i].String()
	}
	// what the harness knows from the API
	refs := map[int]storage.SeriesRef{}
	newest := make([]int64, len(c.Series)) // newest committed sample time per series
	for i := range newest {
		newest[i] = math.MinInt64
	}
	latestMeta := map[int]metadata.Metadata{}
	maybeReincarnated := map[int]bool{}
	exCounter := 0
	var truncTime int64 = math.MinInt64 // M: newest truncation time
	checkpoints, removedBeforeCP, removed := 0, false, false
	nontrivial := false
	var staleOrphan error  // first occurrence of the known root cause (reported at the end)
	var dupMeta error      // same for the duplicate-ref metadata root cause
	var reissuedMeta error // same for metadata of a re-issued ref number

	// ---- oracle ----
	verify := func(when string) error {
		items, cpIdx, _, err := walDump(walDir)
		if err != nil {
			return ev.Failf("%s: WAL is not readable: %v", when, err)
		}
		// raw untruncated log: everything archived so far plus the current segments
		rawDir, err := os.MkdirTemp(root, "raw")
		if err != nil {
			return err
		}
		defer os.RemoveAll(rawDir)
		if err := c15CopySegments(archive, rawDir); err != nil {
			return err
		}
		if err := c15CopySegments(walDir, rawDir); err != nil {
			return err
		}
		fullItems, _, _, fullErr := walDump(rawDir)
		issued := map[uint64]int{}        // ref number -> series records in the whole history
		incNewest := map[uint64][]int64{} // ref number -> newest sample time of each incarnation
		for _, it := range fullItems {
			switch it.Kind {
			case "series":
				issued[it.Ref]++
				incNewest[it.Ref] = append(incNewest[it.Ref], math.MinInt64)
			case "float", "hist", "fhist":
				if l := incNewest[it.Ref]; len(l) > 0 && it.T > l[len(l)-1] {
					l[len(l)-1] = it.T
				}
			}
		}
		laterRecord := map[uint64]bool{} // refs with a series record somewhere in checkpoint+segments
		for _, it := range items {
			if it.Kind == "series" {
				laterRecord[it.Ref] = true
			}
		}
		seen := map[uint64]bool{}
		if os.Getenv("VERIF_DEBUG") != "" {
			fmt.Printf("== %s: checkpoint %d, truncation time %d\n", when, cpIdx, truncTime)
			for _, it := range items {
				fmt.Printf("   rec %d cp=%v %s ref=%d t=%d %v %v\n", it.RecNo, it.InCP, it.Kind, it.Ref, it.T, it.L, it.Ivs)
			}
		}
		for _, it := range items {
			if it.Kind == "series" {
				seen[it.Ref] = true
				continue
			}
			if seen[it.Ref] {
				continue
			}
			desc := it.Kind
			expired := false // no replay can need the entry any more
			switch it.Kind {
			case "float", "hist", "fhist", "exemplar":
				desc = fmt.Sprintf("%s t=%d", it.Kind, it.T)
				expired = it.T < truncTime
			case "tomb":
				if len(it.Ivs) == 1 && it.Ivs[0].Mint == math.MinInt64 && it.Ivs[0].Maxt == math.MaxInt64 {
					// Series-deletion marker written by stale/selected-series eviction. The replay
					// code documents that such a marker may outlive its series record ("A tombstone
					// means this ref was previously allocated, even if its series record is no
					// longer in the WAL") and ignores it then.
					continue
				}
				desc = fmt.Sprintf("tombstone %v", it.Ivs)
				expired = true
				for _, iv := range it.Ivs {
					if iv.Maxt >= truncTime {
						expired = false
					}
				}
			case "meta":
				desc = fmt.Sprintf("metadata %+v", it.Meta)
				// metadata carries no time: expired when the series it was handed out for has
				// no sample at or after the truncation time
				// (taken from the archived history: newest sample of every incarnation of the ref
				// number; the incarnation whose series record follows later in this WAL is not
				// the one the orphan belongs to)
				incs := incNewest[it.Ref]
				if laterRecord[it.Ref] && len(incs) > 0 {
					incs = incs[:len(incs)-1]
				}
				expired = len(incs) > 0
				for _, nt := range incs {
					if nt >= truncTime {
						expired = false
					}
				}
			}
			msg := fmt.Sprintf("%s: %s for ref %d has no preceding series record in replay order (checkpoint %d, entry from checkpoint: %v, truncation time %d)", when, desc, it.Ref, cpIdx, it.InCP, truncTime)
			if it.Kind == "meta" && it.InCP && issued[it.Ref] >= 2 {
				// Root cause: consequence of the expired entries above plus ref re-issue. After
				// everything was truncated and the head restarted, the ref number was handed out
				// again; keep(ref) is true for the new series, so the checkpoint copies the dead
				// series' metadata entry, which then precedes (or belongs to another label set
				// than) the new series record.
				if reissuedMeta == nil {
					reissuedMeta = ev.FailSig(c15SigReissuedMeta, "%s; ref number %d was issued %d times in this history", msg, it.Ref, issued[it.Ref])
				}
				r.Class("expired-metadata-of-reissued-ref-in-checkpoint")
				continue
			}
			if expired && !it.InCP && cpIdx >= 0 {
				// Root cause: the series was garbage-collected, its record was kept only until
				// the head's min time passed its keep-until time and was then dropped by a
				// checkpoint, while entries for the ref sit in segments above that checkpoint.
				// A replay discards them (below minValidTime) - metadata entries are reported
				// as unknown references - so no data is lost, but the statement "every entry
				// left in the log refers to a preceding series record" does not hold.
				if staleOrphan == nil {
					staleOrphan = ev.FailSig(c15SigStaleOrphan, "%s", msg)
				}
				r.Class("expired-entry-without-series-record:" + it.Kind)
				continue
			}
			return ev.Failf("%s", msg)
		}
		if cpIdx < 0 {
			return nil
		}
		// differential replay
		scratch, err := os.MkdirTemp(root, "replay")
		if err != nil {
			return err
		}
		defer os.RemoveAll(scratch)
		truncDir, fullDir := filepath.Join(scratch, "trunc", "wal"), filepath.Join(scratch, "full", "wal")
		if err := c15CopyWAL(walDir, truncDir); err != nil {
			return err
		}
		if fullErr != nil {
			// the retained copy is the harness' own artefact
			r.Class("untruncated-log-unreadable")
			return nil
		}
		reissued, err := c15WriteRenumbered(fullItems, fullDir)
		if err != nil {
			return err
		}
		if reissued > 0 {
			r.Class("ref-numbers-reissued")
		}
		ht, wt, vt, err := c15Replay(truncDir, filepath.Join(scratch, "trunc"), c.Compress, truncTime)
		if err != nil {
			return ev.Failf("%s: replay of checkpoint %d + segments failed: %v", when, cpIdx, err)
		}
		defer ht.Close()
		hf, wf, vf, err := c15Replay(fullDir, filepath.Join(scratch, "full"), c.Compress, truncTime)
		if err != nil {
			// the retained copy is the harness' own artefact
			r.Class("untruncated-replay-failed")
			return nil
		}
		defer hf.Close()
		// Exemplars of a series that was evicted by a stale/selected-series compaction are
		// restored or not depending on goroutine timing during replay (the deletion marker is
		// applied by a sample worker, exemplars by their own goroutine), on either side. They
		// are left out of the comparison; the evicted label sets are read from the
		// untruncated log itself.
		{
			refLabels := map[uint64]string{}
			if os.Getenv("VERIF_DEBUG") != "" {
				fmt.Printf("== untruncated log; truncated view %v ; untruncated view %v\n", vt.samples, vf.samples)
				for _, it := range fullItems {
					fmt.Printf("   rec %d %s ref=%d t=%d %v %v\n", it.RecNo, it.Kind, it.Ref, it.T, it.L, it.Ivs)
				}
			}
			for _, it := range fullItems {
				switch {
				case it.Kind == "series":
					refLabels[it.Ref] = it.L.String()
				case it.Kind == "tomb" && len(it.Ivs) == 1 && it.Ivs[0].Mint == math.MinInt64 && it.Ivs[0].Maxt == math.MaxInt64:
					if k, ok := refLabels[it.Ref]; ok {
						delete(vt.exemplars, k)
						delete(vf.exemplars, k)
						r.Class("exemplars-of-evicted-series-not-compared")
					}
				}
			}
		}
		if d := c15DiffViews("samples at t>="+fmt.Sprint(truncTime), vt.samples, vf.samples); d != "" {
			return ev.Failf("%s: %s", when, d)
		}
		if d := c15DiffViews("exemplars at t>="+fmt.Sprint(truncTime), vt.exemplars, vf.exemplars); d != "" {
			return ev.Failf("%s: %s", when, d)
		}
		r.Count("compared-exemplar-series", len(vf.exemplars))
		r.Count("compared-series", len(vf.samples))
		// newest metadata: an update carrying it must be a no-op (or not) on both sides
		probe := func(h *tsdb.Head, wl *wlog.WL, i int) (string, error) {
			_, before, err := wl.LastSegmentAndOffset()
			if err != nil {
				return "", err
			}
			app := h.Appender(ctx)
			if _, err := app.UpdateMetadata(0, lsets[i], latestMeta[i]); err != nil {
				app.Rollback()
				return "unknown-series", nil
			}
			if err := app.Commit(); err != nil {
				return "", err
			}
			_, after, err := wl.LastSegmentAndOffset()
			if err != nil {
				return "", err
			}
			if after != before {
				return "logged", nil
			}
			return "no-op", nil
		}
		for i := range c.Series {
			if _, has := latestMeta[i]; !has || maybeReincarnated[i] || len(vf.samples[keys[i]]) == 0 {
				continue
			}
			a, err := probe(ht, wt, i)
			if err != nil {
				return err
			}
			b, err := probe(hf, wf, i)
			if err != nil {
				return err
			}
			if a != b {
				msg := fmt.Sprintf("%s: metadata of %s: updating it to the newest committed value %+v is %q after replaying checkpoint+segments but %q after replaying the untruncated log", when, keys[i], latestMeta[i], a, b)
				// Root cause check: the label set has several refs in the log (duplicate series
				// records), its newest metadata entry was logged under a ref whose series record
				// the checkpoint dropped, while the series lives on under another ref.
				refsOf, lastMetaRef, hasMeta := map[uint64]bool{}, uint64(0), false
				lab := map[uint64]string{}
				for _, it := range fullItems {
					if it.Kind == "series" {
						lab[it.Ref] = it.L.String()
						if lab[it.Ref] == keys[i] {
							refsOf[it.Ref] = true
						}
					} else if it.Kind == "meta" && lab[it.Ref] == keys[i] {
						lastMetaRef, hasMeta = it.Ref, true
					}
				}
				present := map[uint64]bool{}
				for _, it := range items {
					if it.Kind == "series" && it.L.String() == keys[i] {
						present[it.Ref] = true
					}
				}
				if a == "logged" && b == "no-op" && hasMeta && len(refsOf) >= 2 && len(present) > 0 && !present[lastMetaRef] {
					if dupMeta == nil {
						dupMeta = ev.FailSig(c15SigDupRefMeta, "%s; the metadata entry was logged under ref %d, the series record kept by the checkpoint has another ref", msg, lastMetaRef)
					}
					r.Class("metadata-under-duplicate-ref-dropped")
					continue
				}
				return ev.Failf("%s", msg)
			}
			r.Class("metadata-probe:" + a)
		}
		return nil
	}

	saveSegments := func() error { return c15CopySegments(walDir, archive) }

	for si, s := range c.Steps {
		switch s.Op {
		case "tx":
			app := db.Appender(ctx)
			type acc struct {
				s    int
				t    int64
				meta *metadata.Metadata
			}
			var accepted []acc
			for _, a := range s.Appends {
				t := s.T + a.DT
				var ref storage.SeriesRef
				var err error
				switch a.Kind {
				case 0, 3:
					ref, err = app.Append(refs[a.S], lsets[a.S], t, math.Float64frombits(a.V))
				case 1:
					h := a.H.Int()
					if h.Validate() != nil {
						continue
					}
					ref, err = app.AppendHistogram(refs[a.S], lsets[a.S], t, h, nil)
				case 2:
					fh := a.H.FloatH()
					if fh.Validate() != nil {
						continue
					}
					ref, err = app.AppendHistogram(refs[a.S], lsets[a.S], t, nil, fh)
				}
				if err != nil {
					r.Class("append-rejected")
					continue
				}
				if old, ok := refs[a.S]; ok && old != ref {
					maybeReincarnated[a.S] = true
				}
				refs[a.S] = ref
				x := acc{s: a.S, t: t}
				if a.Ex {
					exCounter++
					_, _ = app.AppendExemplar(ref, lsets[a.S], exemplar.Exemplar{Labels: labels.FromStrings("trace_id", fmt.Sprint(exCounter%7)), Value: float64(exCounter), Ts: t, HasTs: true})
				}
				if a.Meta != 0 {
					m := c15Metas[int(a.Meta)%len(c15Metas)]
					if _, err := app.UpdateMetadata(ref, lsets[a.S], m); err == nil {
						x.meta = &m
					}
				}
				accepted = append(accepted, x)
			}
			if s.Rollback {
				if err := app.Rollback(); err != nil {
					return ev.Failf("step %d: Rollback: %v", si, err)
				}
				continue
			}
			if err := app.Commit(); err != nil {
				return ev.Failf("step %d: Commit: %v", si, err)
			}
			for _, x := range accepted {
				if x.t > newest[x.s] {
					newest[x.s] = x.t
				}
				if x.meta != nil {
					latestMeta[x.s] = *x.meta
				}
			}
		case "delete":
			var ms []*labels.Matcher
			lsets[s.Sel[0]].Range(func(l labels.Label) {
				ms = append(ms, labels.MustNewMatcher(labels.MatchEqual, l.Name, l.Value))
			})
			if err := db.Delete(ctx, s.Mint, s.Maxt, ms...); err != nil {
				return ev.Failf("step %d: Delete: %v", si, err)
			}
			r.Class("delete")
		case "truncate", "compacthead":
			if err := saveSegments(); err != nil {
				return err
			}
			_, cpBefore, cpErr := wlog.LastCheckpoint(walDir)
			if cpErr != nil {
				cpBefore = -1
			}
			before := db.Head().NumSeries()
			h := db.Head()
			if s.Op == "compacthead" && h.MinTime() != math.MaxInt64 && h.MinTime() <= s.T-1 {
				if err := db.CompactHead(tsdb.NewRangeHead(h, h.MinTime(), s.T-1)); err != nil {
					return ev.Failf("step %d: CompactHead up to %d: %v", si, s.T, err)
				}
				r.Class("truncate:via-block")
			} else {
				if err := h.Truncate(s.T); err != nil {
					return ev.Failf("step %d: Head.Truncate(%d): %v", si, s.T, err)
				}
				r.Class("truncate:head")
			}
			if s.T > truncTime {
				truncTime = s.T
			}
			if db.Head().NumSeries() < before {
				removed = true
				r.Class("series-garbage-collected")
			}
			for i := range c.Series {
				if newest[i] < s.T {
					maybeReincarnated[i] = true // may have been collected; a later append starts a new incarnation
				}
			}
			if _, cpAfter, err := wlog.LastCheckpoint(walDir); err == nil && cpAfter != cpBefore {
				checkpoints++
				r.Class("checkpoint-written")
				if removed {
					removedBeforeCP = true
				}
				if err := verify(fmt.Sprintf("after step %d %s(%d)", si, s.Op, s.T)); err != nil {
					return err
				}
			}
		case "stale", "selected":
			before := db.Head().NumSeries()
			if s.Op == "stale" {
				if err := db.CompactStaleHead(); err != nil {
					return ev.Failf("step %d: CompactStaleHead: %v", si, err)
				}
			} else {
				var sel []storage.SeriesRef
				for _, i := range s.Sel {
					if ref, ok := refs[i]; ok {
						sel = append(sel, ref)
					}
				}
				if len(sel) == 0 {
					continue
				}
				if err := db.CompactSelectedSeries(sel); err != nil {
					return ev.Failf("step %d: CompactSelectedSeries(%v): %v", si, sel, err)
				}
			}
			if db.Head().NumSeries() < before {
				removed = true
				r.Class("series-evicted:" + s.Op)
				for i := range c.Series {
					maybeReincarnated[i] = true
				}
			}
		case "restart":
			if err := db.Close(); err != nil {
				dbOpen = false
				return ev.Failf("step %d: Close: %v", si, err)
			}
			dbOpen = false
			if db, err = open(); err != nil {
				return ev.Failf("step %d: reopen: %v", si, err)
			}
			dbOpen = true
			refs = map[int]storage.SeriesRef{}
			r.Class("restart")
		}
	}
	if err := db.Close(); err != nil {
		dbOpen = false
		return ev.Failf("final Close: %v", err)
	}
	dbOpen = false
	if err := verify("at the end"); err != nil {
		return err
	}
	if checkpoints > 0 && removedBeforeCP {
		nontrivial = true
	}
	if nontrivial {
		r.NonTrivial()
	}
	if reissuedMeta != nil {
		return reissuedMeta
	}
	if dupMeta != nil {
		return dupMeta
	}
	return staleOrphan
}

// Root-cause signature used when a record without series record is found that no replay
// needs any more (its timestamp is below the truncation time).
const c15SigStaleOrphan = "head-checkpoint-leaves-expired-entries-of-dropped-series"

// Root-cause signature: newest metadata of a live series was logged under a duplicate ref
// and is dropped by the checkpoint together with that ref's series record.
const c15SigDupRefMeta = "head-checkpoint-drops-metadata-logged-under-duplicate-ref"

// Root-cause signature: an expired metadata entry of a dead series is copied into a new
// checkpoint because its ref number was handed out again after a full truncation + restart.
const c15SigReissuedMeta = "head-reissued-ref-carries-expired-metadata-into-checkpoint"

func TestC15Head(t *testing.T) {
	ev.Check(t, "C15",
		"tsdb.DB histories (32 KiB WAL segments, block range 20000, 2-5 colliding series, hot and cold): appender transactions (floats, int/float histograms, staleness markers, exemplars, metadata), rollbacks, Delete, Head.Truncate / DB.CompactHead with increasing truncation times aimed at series' newest samples, CompactStaleHead, CompactSelectedSeries, restarts; all segments are copied aside before every truncation. After each checkpoint and at the end: record-level scan of checkpoint+segments for entries without preceding series record, and differential replay (fresh head on checkpoint+segments vs fresh head on the untruncated log, same minValidTime) of samples, exemplars and a metadata-update probe. Non-trivial: a checkpoint was written after a series had been garbage-collected or evicted; distinct by hash of the case.",
		genC15, runC15Head, ev.Opts{Part: "head"})
}

// ---- agent half: the C48 machinery with C15's non-trivial rule -------------------------

func genC15Agent(t *rapid.T) c48Case {
	return genAgent(t, true)
}

func runC15Agent(c c48Case, r *ev.Rec) error {
	var st c48Stats
	if err := runAgentHistory(c, r, &st); err != nil {
		return err
	}
	if st.checkpointAfterCollect {
		r.NonTrivial()
	}
	return nil
}

func TestC15Agent(t *testing.T) {
	ev.Check(t, "C15",
		"agent.DB histories as in C48 (appender transactions v1/v2, rollbacks, truncate(mint) via the verif shim, restarts, both checkpoint implementations); after every truncation and close the checkpoint + segments are decoded: every entry must follow a series record for its ref, and every acknowledged sample at or after the highest truncation time must still be decodable (wlog checkpoint). Non-trivial: a checkpoint was written after a truncation had collected a series.",
		genC15Agent, runC15Agent, ev.Opts{Part: "agent"})
}
