package crash

import (
	"encoding/json"
	"fmt"
	"math"
	"os"
	"testing"

	"github.com/prometheus/client_golang/prometheus"
	"github.com/prometheus/common/promslog"
	"github.com/prometheus/prometheus/tsdb"

	"verifharness/internal/tsdbrun"
)

// TestDebugC03 re-runs the first kill of the case in $VERIF_DEBUG_REPLAY and prints what the
// directory returns after the first and after the second open (a development aid, not a check).
func TestDebugC03(t *testing.T) {
	f := os.Getenv("VERIF_DEBUG_REPLAY")
	if f == "" || os.Getenv("VERIF_CRASH_CHILD") != "" {
		t.Skip("development aid")
	}
	b, _ := os.ReadFile(f)
	var c c03Case
	if err := json.Unmarshal(b, &c); err != nil {
		t.Fatal(err)
	}
	var n int64
	fmt.Sscan(os.Getenv("VERIF_DEBUG_KILL"), &n)
	base, _ := os.MkdirTemp("", "c03dbg")
	defer os.RemoveAll(base)
	dir, res, err := runChild(base, c.H, n, "k")
	fmt.Println("child:", res.killed, res.exit, err, "acks", len(res.acks))
	for i := 0; i < 2; i++ {
		db, err := tsdb.Open(dir, promslog.NewNopLogger(), prometheus.NewRegistry(), c.H.Cfg.Options(), nil)
		if err != nil {
			t.Fatal(err)
		}
		db.DisableCompactions()
		for _, bl := range db.Blocks() {
			m := bl.Meta()
			fmt.Printf("open %d block %s [%d,%d) level %d parents %d ooo=%v\n", i, m.ULID, m.MinTime, m.MaxTime, m.Compaction.Level, len(m.Compaction.Parents), m.Compaction.FromOutOfOrder())
		}
		fmt.Printf("open %d head [%d,%d]\n", i, db.Head().MinTime(), db.Head().MaxTime())
		q, _ := db.Querier(math.MinInt64, math.MaxInt64)
		got, _ := tsdbrun.QuerySamples(q, tsdbrun.Matchers(nil))
		q.Close()
		for si := 0; si < c.H.Cfg.NSeries; si++ {
			fmt.Printf("open %d series %d:", i, si)
			for _, o := range got[si] {
				fmt.Printf(" %d", o.T)
			}
			fmt.Println()
		}
		ents, _ := os.ReadDir(dir)
		for _, e := range ents {
			fmt.Printf("open %d dir entry %s\n", i, e.Name())
		}
		db.Close()
	}
}
