package crash

import (
	"bufio"
	"context"
	"encoding/json"
	"errors"
	"fmt"
	"math"
	"os"
	"os/exec"
	"path/filepath"
	"sort"
	"strconv"
	"strings"
	"sync"
	"sync/atomic"
	"syscall"
	"testing"
	"time"

	"github.com/prometheus/client_golang/prometheus"
	"github.com/prometheus/common/promslog"
	"github.com/prometheus/prometheus/model/labels"
	"github.com/prometheus/prometheus/tsdb"
	"github.com/prometheus/prometheus/util/verifhook"
	"pgregory.net/rapid"

	"verifharness/internal/ev"
	tm "verifharness/internal/tsdbmodel"
	"verifharness/internal/tsdbrun"
)

// C03 — acknowledged writes survive a process crash at any point.
//
// The workload runs in a child process (this test binary re-executed). A verifhook handler
// in the child counts every hook site hit (WAL page writes, segment creation, checkpoint
// rename, block write/rename, block deletion, commit steps, truncation steps, ...) and kills
// the process with SIGKILL at the N-th hit. After every operation that returned, the child
// appends one line to an ack file with a single write(2): the operation index and a snapshot
// of the reference model. The parent rebuilds "acknowledged" and "in flight" from that file,
// reopens the directory and checks it.

type c03Case struct {
	H tsdbrun.History
	// Kills are fractions in (0,1] of the total number of hook hits of the workload.
	Kills []float64
}

func genC03(t *rapid.T) c03Case {
	f := false
	// half of the workloads contain deletions (and tombstone cleaning / out-of-order compaction)
	noDel := rapid.Bool().Draw(t, "nodeletes")
	c := c03Case{H: tsdbrun.GenHistory(t, tsdbrun.Bias{MinSteps: 15, MaxSteps: 45, NoDeletes: noDel, Deletes: 6, Compactions: 3, Simple: true, Snapshot: &f,
		// two in five workloads start after 3 to 5 head compactions, so that WAL checkpointing,
		// checkpoint deletion and block compaction are among the places the child is killed at
		Prelude: rapid.SampledFrom([]int{0, 0, 0, 3, 5}).Draw(t, "prelude")})}
	n := 6
	if ev.Thorough() {
		n = 16
	}
	for i := 0; i < n; i++ {
		c.Kills = append(c.Kills, float64(rapid.IntRange(1, 10000).Draw(t, "kill"))/10000)
	}
	return c
}

type ackPoint struct {
	S        int
	T        int64
	Required bool
	Vals     []tm.Val
}

type ackLine struct {
	I      int // index of the last operation that returned
	Pts    []ackPoint
	Risk   int64
	Total  int64 `json:",omitempty"` // set on the final line: total number of hook hits
	Closed bool  `json:",omitempty"`
}

func snapshot(r *tsdbrun.Run, i int) ackLine {
	l := ackLine{I: i, Risk: r.RiskBound()}
	for si, s := range r.M.Series {
		for _, t := range s.Times(math.MinInt64, math.MaxInt64) {
			p := s.Pts[t]
			l.Pts = append(l.Pts, ackPoint{S: si, T: t, Required: p.Required, Vals: p.Vals})
		}
	}
	return l
}

func writeAck(path string, l ackLine) {
	b, _ := json.Marshal(l)
	b = append(b, '\n')
	f, err := os.OpenFile(path, os.O_APPEND|os.O_CREATE|os.O_WRONLY, 0o644)
	if err != nil {
		os.Exit(4)
	}
	f.Write(b) // one write(2): complete or absent after SIGKILL
	f.Close()
}

// TestC03Child is the crash child; it only runs when re-executed by the parent.
func TestC03Child(t *testing.T) {
	if os.Getenv("VERIF_CRASH_CHILD") == "" {
		t.Skip("crash child only")
	}
	b, err := os.ReadFile(os.Getenv("VERIF_CRASH_CASE"))
	if err != nil {
		os.Exit(4)
	}
	var h tsdbrun.History
	if json.Unmarshal(b, &h) != nil {
		os.Exit(4)
	}
	killAt, _ := strconv.ParseInt(os.Getenv("VERIF_CRASH_N"), 10, 64)
	ack := os.Getenv("VERIF_CRASH_ACK")
	var count atomic.Int64
	var mu sync.Mutex
	var sites []string
	verifhook.Set(func(site string) {
		c := count.Add(1)
		if killAt > 0 && c == killAt {
			syscall.Kill(os.Getpid(), syscall.SIGKILL)
			select {}
		}
		if killAt == 0 {
			// counting pass: remember which site every hit belongs to (hits can come from
			// background goroutines, the order of the list is the order of the counter)
			mu.Lock()
			for int64(len(sites)) < c {
				sites = append(sites, "")
			}
			sites[c-1] = site
			mu.Unlock()
		}
	})
	r, err := tsdbrun.StartDir(h, &ev.Rec{}, os.Getenv("VERIF_CRASH_DIR"))
	if err != nil {
		os.Exit(3)
	}
	base := count.Load()
	for i, op := range h.Ops {
		if err := r.Exec(op); err != nil {
			os.Exit(3) // the workload itself misbehaved: C01/C02 business, not a crash verdict
		}
		writeAck(ack, snapshot(r, i))
	}
	for _, a := range []int{0, 1, 2} {
		_ = r.Exec(tsdbrun.Op{K: "rollback", A: a})
	}
	if err := r.DB.Close(); err != nil {
		os.Exit(3)
	}
	l := snapshot(r, len(h.Ops)-1)
	l.Total, l.Closed = count.Load(), true
	if f := os.Getenv("VERIF_CRASH_SITES"); f != "" && killAt == 0 {
		mu.Lock()
		b, _ := json.Marshal(siteList{Base: base, Sites: sites})
		mu.Unlock()
		os.WriteFile(f, b, 0o644)
	}
	writeAck(ack, l)
	os.Exit(0)
}

// siteList is what the counting pass reports: the hook site of every hit, and the number of
// hits that happened before the first operation of the workload (opening the empty database).
type siteList struct {
	Base  int64
	Sites []string
}

type childResult struct {
	killed bool
	exit   int
	acks   []ackLine
}

func runChild(base string, h tsdbrun.History, killAt int64, tag string) (string, childResult, error) {
	dir := filepath.Join(base, "db-"+tag)
	os.MkdirAll(dir, 0o755)
	casef := filepath.Join(base, "case.json")
	if _, err := os.Stat(casef); err != nil {
		b, _ := json.Marshal(h)
		os.WriteFile(casef, b, 0o644)
	}
	ack := filepath.Join(base, "ack-"+tag)
	cmd := exec.Command(os.Args[0], "-test.run", "^TestC03Child$", "-test.count", "1")
	cmd.Env = append(os.Environ(), "VERIF_CRASH_CHILD=1", "VERIF_CRASH_CASE="+casef, "VERIF_CRASH_DIR="+dir,
		"VERIF_CRASH_N="+strconv.FormatInt(killAt, 10), "VERIF_CRASH_ACK="+ack, "VERIF_CRASH_SITES="+filepath.Join(base, "sites-"+tag), "VERIF_OUT=", "VERIF_REPLAY=")
	done := make(chan error, 1)
	if err := cmd.Start(); err != nil {
		return dir, childResult{}, err
	}
	go func() { done <- cmd.Wait() }()
	var werr error
	select {
	case werr = <-done:
	case <-time.After(120 * time.Second):
		cmd.Process.Kill()
		<-done
		return dir, childResult{}, errors.New("child timed out")
	}
	res := childResult{}
	if werr != nil {
		var ee *exec.ExitError
		if errors.As(werr, &ee) {
			if ws, ok := ee.Sys().(syscall.WaitStatus); ok && ws.Signaled() {
				res.killed = true
			} else {
				res.exit = ee.ExitCode()
			}
		} else {
			return dir, res, werr
		}
	}
	if f, err := os.Open(ack); err == nil {
		sc := bufio.NewScanner(f)
		sc.Buffer(make([]byte, 1<<20), 1<<26)
		for sc.Scan() {
			var l ackLine
			if json.Unmarshal(sc.Bytes(), &l) == nil {
				res.acks = append(res.acks, l)
			}
		}
		f.Close()
	}
	return dir, res, nil
}

func obsMatches(o tsdbrun.Obs, vals []tm.Val) bool {
	for _, v := range vals {
		if o.Matches(v) {
			return true
		}
	}
	return false
}

func runC03(c c03Case, rec *ev.Rec) error {
	base, err := os.MkdirTemp("", "c03")
	if err != nil {
		return nil
	}
	defer os.RemoveAll(base)
	// pass 1: count the hook hits of the workload
	_, full, err := runChild(base, c.H, 0, "count")
	if err != nil || full.exit != 0 || full.killed || len(full.acks) == 0 || !full.acks[len(full.acks)-1].Closed {
		rec.Discard() // workload not usable (its own failure is judged by C01/C02)
		return nil
	}
	total := full.acks[len(full.acks)-1].Total
	if total < 2 {
		rec.Discard()
		return nil
	}
	rec.Count("hook-hits", int(total))
	// Kill points. Even-numbered draws are uniform over the hits of the workload proper (hits
	// while the empty database is being opened are left to one draw in eight); odd-numbered
	// draws go through the distinct hook sites the workload passed, rarest first, and pick one
	// occurrence of that site, so that sites hit once or twice per workload (checkpoint rename,
	// block rename, WAL truncation, tombstone file) are killed at as often as WAL page writes.
	var sl siteList
	if b, err := os.ReadFile(filepath.Join(base, "sites-count")); err == nil {
		_ = json.Unmarshal(b, &sl)
	}
	bySite := map[string][]int64{}
	for i, s := range sl.Sites {
		if int64(i) >= sl.Base && s != "" {
			bySite[s] = append(bySite[s], int64(i)+1)
		}
	}
	var siteNames []string
	for s := range bySite {
		siteNames = append(siteNames, s)
	}
	sort.Slice(siteNames, func(i, j int) bool {
		if len(bySite[siteNames[i]]) != len(bySite[siteNames[j]]) {
			return len(bySite[siteNames[i]]) < len(bySite[siteNames[j]])
		}
		return siteNames[i] < siteNames[j]
	})
	rec.Count("distinct-sites", len(siteNames))
	for s, occ := range bySite {
		rec.Count("hits:"+s, len(occ))
	}
	seen := map[int64]bool{}
	nontrivial := false
	for ki, frac := range c.Kills {
		var n int64
		switch {
		case ki%2 == 1 && len(siteNames) > 0:
			occ := bySite[siteNames[(ki/2)%len(siteNames)]]
			n = occ[int(frac*float64(len(occ)))%len(occ)]
			rec.Class("kill-by-site")
			rec.Class("site:" + siteNames[(ki/2)%len(siteNames)])
		case ki%8 != 0 && sl.Base > 0 && sl.Base < total:
			n = sl.Base + int64(math.Ceil(frac*float64(total-sl.Base)))
		default:
			n = int64(math.Ceil(frac * float64(total)))
		}
		if n < 1 {
			n = 1
		}
		if seen[n] {
			continue
		}
		seen[n] = true
		dir, res, err := runChild(base, c.H, n, fmt.Sprintf("k%d", ki))
		if err != nil || !res.killed {
			rec.Class("kill-not-reached")
			continue
		}
		rec.Class("crash-runs")
		acked := ackLine{I: -1}
		if len(res.acks) > 0 {
			acked = res.acks[len(res.acks)-1]
		}
		// the operation in flight and, if it is a commit, the samples it was committing
		inflight := map[string][]tm.Val{}
		inflightKind := "none"
		if acked.I+1 < len(c.H.Ops) {
			op := c.H.Ops[acked.I+1]
			inflightKind = op.K
			if op.K == "commit" {
				for j := acked.I; j >= 0; j-- {
					o := c.H.Ops[j]
					if o.K == "open" && o.A == op.A {
						break
					}
					if o.K == "add" && o.A == op.A {
						k := fmt.Sprintf("%d/%d", o.S, o.T)
						inflight[k] = append(inflight[k], o.V)
					}
				}
			}
		}
		rec.Class("inflight:" + inflightKind)
		desc := fmt.Sprintf("killed at hook hit %d of %d, %d operations acknowledged, in flight: %s", n, total, acked.I+1, inflightKind)
		// Model-based comparison: the acknowledged prefix is executed again in this process to
		// rebuild the reference model, which then adopts the directory the killed child left.
		// Deletions are judged here (a sample covered by an acknowledged deletion must not come
		// back; the range of a deletion in flight may or may not be applied).
		knownTrigger := false
		hasDelete := false
		for j := 0; j <= acked.I+1 && j < len(c.H.Ops); j++ {
			if c.H.Ops[j].K == "delete" {
				hasDelete = true
			}
		}
		if r2, err := tsdbrun.Start(c.H, &ev.Rec{}); err == nil {
			ok := true
			for j := 0; j <= acked.I; j++ {
				if err := r2.Exec(c.H.Ops[j]); err != nil {
					ok = false
					break
				}
			}
			if !ok {
				r2.Finish()
				rec.Class("prefix-not-reproducible")
				continue
			}
			var infl *tsdbrun.Op
			if acked.I+1 < len(c.H.Ops) {
				infl = &c.H.Ops[acked.I+1]
			}
			if err := r2.AdoptCrashed(dir, infl); err != nil {
				r2.DB = nil
				r2.Dir = ""
				return ev.Failf("%s: %v\nworkload: %s", desc, err, opsString(c.H, acked.I+1))
			}
			err := r2.CheckAll("crashreopen")
			cerr := r2.DB.Close()
			r2.DB, r2.Dir = nil, "" // the directory stays for the checks below
			if err != nil {
				var fe *ev.Violation
				if errors.As(err, &fe) && fe.Sig != "" {
					return ev.FailSig(fe.Sig, "%s: %v", desc, err)
				}
				return ev.Failf("%s: after the crash the database differs from the acknowledged history: %v", desc, err)
			}
			if cerr != nil {
				return ev.Failf("%s: Close after recovery: %v", desc, cerr)
			}
			if hasDelete {
				rec.Class("crash-runs-with-delete")
			}
			if r2.AnyKnownTrigger() {
				// the history contains the trigger of a listed finding of the history runner: the
				// ack-file comparison (made after one more clean restart) cannot attribute it
				knownTrigger = true
				rec.Class("ack-comparison-skipped-known-trigger")
			}
		}
		db, oerr := tsdb.Open(dir, promslog.NewNopLogger(), prometheus.NewRegistry(), c.H.Cfg.Options(), nil)
		if oerr != nil {
			return ev.Failf("%s: tsdb.Open after the crash failed: %v\nworkload: %s", desc, oerr, opsString(c.H, acked.I+1))
		}
		db.DisableCompactions()
		q, err := db.Querier(math.MinInt64, math.MaxInt64)
		if err != nil {
			db.Close()
			return ev.Failf("%s: Querier: %v", desc, err)
		}
		got, qerr := tsdbrun.QuerySamples(q, tsdbrun.Matchers(nil))
		q.Close()
		if qerr != nil {
			db.Close()
			return ev.Failf("%s: query after the crash failed: %v\nworkload: %s", desc, qerr, opsString(c.H, acked.I+1))
		}
		have := map[string]tsdbrun.Obs{}
		var maxT int64 = math.MinInt64
		for si, obs := range got {
			for _, o := range obs {
				have[fmt.Sprintf("%d/%d", si, o.T)] = o
				if o.T > maxT {
					maxT = o.T
				}
			}
		}
		// Ack-file comparison (independent of the re-execution above); it knows nothing of the
		// listed delete findings, so workloads with a delete are judged by the model alone.
		if !hasDelete && !knownTrigger {
			ackedPts := map[string]ackPoint{}
			for _, p := range acked.Pts {
				ackedPts[fmt.Sprintf("%d/%d", p.S, p.T)] = p
			}
			var keys []string
			for k := range ackedPts {
				keys = append(keys, k)
			}
			sort.Strings(keys)
			for _, k := range keys {
				p := ackedPts[k]
				o, ok := have[k]
				if p.Required && !ok {
					db.Close()
					if p.T < acked.Risk {
						return ev.FailSig(tsdbrun.SigMixedBound, "%s: acknowledged sample series %d t=%d is missing after the crash (below the bound of a merged out-of-order block)", desc, p.S, p.T)
					}
					return ev.Failf("%s: acknowledged sample series %d t=%d %v is missing after the crash\nworkload: %s", desc, p.S, p.T, p.Vals, opsString(c.H, acked.I+1))
				}
				if ok && !obsMatches(o, append(append([]tm.Val{}, p.Vals...), inflight[k]...)) {
					db.Close()
					return ev.Failf("%s: sample series %d t=%d reads back as %v, acknowledged values are %v\nworkload: %s", desc, p.S, p.T, o, p.Vals, opsString(c.H, acked.I+1))
				}
			}
			for k, o := range have {
				if _, ok := ackedPts[k]; ok {
					continue
				}
				if vals, ok := inflight[k]; ok && obsMatches(o, vals) {
					continue
				}
				db.Close()
				return ev.Failf("%s: sample %s=%v is returned after the crash but was neither acknowledged nor part of the commit in flight\nworkload: %s", desc, k, o, opsString(c.H, acked.I+1))
			}
		}
		// the database keeps working: two more commits survive a clean restart
		if hm := db.Head().MaxTime(); hm > maxT {
			maxT = hm
		}
		if maxT == math.MinInt64 {
			maxT = 0
		}
		nl := labels.FromStrings("__name__", "after_crash")
		for i := int64(1); i <= 2; i++ {
			app := db.Appender(context.Background())
			if _, err := app.Append(0, nl, maxT+i*10, float64(i)); err != nil {
				app.Rollback()
				db.Close()
				return ev.Failf("%s: append after recovery failed: %v", desc, err)
			}
			if err := app.Commit(); err != nil {
				db.Close()
				return ev.Failf("%s: commit after recovery failed: %v", desc, err)
			}
		}
		if err := db.Close(); err != nil {
			return ev.Failf("%s: Close after recovery: %v", desc, err)
		}
		db2, err := tsdb.Open(dir, promslog.NewNopLogger(), prometheus.NewRegistry(), c.H.Cfg.Options(), nil)
		if err != nil {
			return ev.Failf("%s: second open failed: %v", desc, err)
		}
		q2, _ := db2.Querier(math.MinInt64, math.MaxInt64)
		ss := q2.Select(context.Background(), false, nil, labels.MustNewMatcher(labels.MatchEqual, "__name__", "after_crash"))
		var ts []int64
		for ss.Next() {
			it := ss.At().Iterator(nil)
			for it.Next() != 0 {
				ts = append(ts, it.AtT())
			}
		}
		q2.Close()
		db2.Close()
		if len(ts) != 2 || ts[0] != maxT+10 || ts[1] != maxT+20 {
			return ev.Failf("%s: the two samples committed after recovery (t=%d,%d) read back as %v after a clean restart\nworkload: %s", desc, maxT+10, maxT+20, ts, opsString(c.H, acked.I+1))
		}
		if acked.I >= 0 && len(acked.Pts) > 0 {
			nontrivial = true
		}
		os.RemoveAll(dir)
	}
	if nontrivial {
		rec.NonTrivial()
	}
	return nil
}

func opsString(h tsdbrun.History, upto int) string {
	var sb strings.Builder
	fmt.Fprintf(&sb, "config %+v\n", h.Cfg)
	for i, op := range h.Ops {
		if i > upto {
			break
		}
		mark := " "
		if i == upto {
			mark = ">"
		}
		switch op.K {
		case "add":
			fmt.Fprintf(&sb, " %s %d add appender %d series %d t=%d %v\n", mark, i, op.A, op.S, op.T, op.V)
		default:
			fmt.Fprintf(&sb, " %s %d %s appender %d\n", mark, i, op.K, op.A)
		}
	}
	return sb.String()
}

func TestC03(t *testing.T) {
	if os.Getenv("VERIF_CRASH_CHILD") != "" {
		t.Skip("child process")
	}
	ev.Check(t, "C03",
		"a workload (one appender at a time: appends of floats and histograms in and out of order, commits, rollbacks, db.Compact, head flush, m-mapping, and in half of the workloads deletions, tombstone cleaning and out-of-order compaction; two in five workloads start after 3-5 head compactions so that WAL checkpointing is reached; WAL segment 32 KiB) runs in a child process that is killed with SIGKILL at a drawn hook hit: half of the kills uniform over the hits of the workload, half stratified by hook site, rarest first (WAL page write before/after, segment creation, checkpoint rename, block meta/rename, block deletion, commit steps, head/WAL truncation steps). Acknowledged operations are read from an ack file written with one write(2) per returned operation. After the kill the directory must open; the acknowledged prefix is executed again in-process to rebuild the reference model, which adopts the crashed directory (samples of a commit in flight and samples covered by a delete in flight are optional): every acknowledged sample must be returned with its value, nothing deleted, rejected, rolled back or never appended may be returned; without deletions the same is checked a second time from the ack file alone; two more commits must be accepted and survive a clean restart. Non-trivial: the kill happened and at least one commit was acknowledged before it.",
		genC03, runC03)
}
