package remote

import (
	"bytes"
	"context"
	"errors"
	"fmt"
	"io"
	"math"
	"net/http"
	"net/http/httptest"
	"net/url"
	"os"
	"sort"
	"testing"
	"time"

	"github.com/gogo/protobuf/proto"
	"github.com/golang/snappy"
	config_util "github.com/prometheus/common/config"
	"github.com/prometheus/common/model"
	"github.com/prometheus/common/promslog"
	"pgregory.net/rapid"

	"github.com/prometheus/prometheus/config"
	"github.com/prometheus/prometheus/model/histogram"
	"github.com/prometheus/prometheus/model/labels"
	"github.com/prometheus/prometheus/prompb"
	"github.com/prometheus/prometheus/storage"
	promremote "github.com/prometheus/prometheus/storage/remote"
	"github.com/prometheus/prometheus/tsdb"
	"github.com/prometheus/prometheus/tsdb/chunkenc"

	"verifharness/internal/ev"
	"verifharness/internal/gen"
)

// C42 — Remote read returns the same data as a local query.

type c42Series struct {
	L     gen.Lset
	Kind  int // 0 floats, 1 integer histograms, 2 float histograms, 3 floats then integer histograms
	Start int64
	Steps []int64    // timestamp increments (>=1), one per sample
	Vals  []uint64   // float values, one per sample
	Hists []gen.Hist `json:",omitempty"` // pool; sample i uses Hists[i%len]
	OOO   []int64    `json:",omitempty"` // extra timestamps appended out of order at the end (window on)
}

type c42Matcher struct {
	Type  int // labels.MatchType
	Name  string
	Value string
}

type c42Query struct {
	M          []c42Matcher
	Mint, Maxt int64
	Hints      bool
}

type c42Case struct {
	Series          []c42Series
	SamplesPerChunk int
	Cuts            []int64 // head is compacted into a block once all samples <= cut are in
	MMap            bool
	OOOWindow       bool
	OOOCompact      bool // compact the out-of-order head into blocks before reading
	Ext             gen.Lset
	Queries         []c42Query
	Streamed        bool
	Frame           int // remoteReadMaxBytesInFrame
	SeekAt          int64
	SubMint         int64 // narrower range given to the client-side chunked series set (clamped into the query range)
	SubMaxt         int64
}

// External label names are disjoint from the series label alphabet (the handler's
// documented assumption: "that label should not be present in the storage") but sort
// before, between and after the series labels.
var c42ExtNames = []string{"__a__", "aa", "cluster", "zzz"}

var c42MatchNames = []string{"__name__", "a", "b", "job", "instance", "le", "zz"}
var c42MatchValues = []string{"", "a", "b", "ab", "m1", "m2", "m3", "x y", "0", "1", "m.*", "m1|m2", ".*", ".+", "a|b", "[ab]+", "m[12]"}

func genC42Series(t *rapid.T, ooo bool) c42Series {
	s := c42Series{L: gen.SmallLset(true, 3).Draw(t, "ls"), Kind: rapid.SampledFrom([]int{0, 0, 0, 1, 2, 3}).Draw(t, "kind")}
	n := rapid.IntRange(1, 40).Draw(t, "n")
	s.Start = int64(rapid.IntRange(0, 600).Draw(t, "start"))
	stepBase := int64(rapid.SampledFrom([]int{1, 5, 15, 60}).Draw(t, "stepbase"))
	for i := 0; i < n; i++ {
		st := stepBase
		if rapid.IntRange(0, 4).Draw(t, "jit") == 0 {
			st = int64(rapid.IntRange(1, 200).Draw(t, "step"))
		}
		s.Steps = append(s.Steps, st)
		s.Vals = append(s.Vals, gen.FloatBits().Draw(t, "v"))
	}
	if s.Kind != 0 {
		np := rapid.IntRange(1, 3).Draw(t, "npool")
		schema := rapid.Int32Range(-2, 4).Draw(t, "schema")
		for i := 0; i < np; i++ {
			o := gen.HistOpts{Float: s.Kind == 2, AllowGauge: true, MaxBuckets: 5}
			if rapid.IntRange(0, 3).Draw(t, "custom") == 0 {
				o.AllowCustom = true
			} else if rapid.Bool().Draw(t, "fixschema") {
				o.Schema = &schema
			}
			s.Hists = append(s.Hists, gen.Histogram(o).Draw(t, "h"))
		}
	}
	if ooo && rapid.Bool().Draw(t, "hasooo") {
		m := rapid.IntRange(1, 6).Draw(t, "nooo")
		for i := 0; i < m; i++ {
			s.OOO = append(s.OOO, int64(rapid.IntRange(0, 3000).Draw(t, "ooot")))
		}
	}
	return s
}

func genC42Time(t *rapid.T, label string, horizon int64, anchors []int64) int64 {
	switch rapid.IntRange(0, 5).Draw(t, label+"c") {
	case 0:
		return rapid.SampledFrom([]int64{0, -1, math.MinInt64, math.MaxInt64, horizon, horizon + 1}).Draw(t, label+"edge")
	case 1, 2:
		if len(anchors) > 0 {
			return rapid.SampledFrom(anchors).Draw(t, label+"anchor") + int64(rapid.IntRange(-1, 1).Draw(t, label+"off"))
		}
		fallthrough
	default:
		return rapid.Int64Range(-10, horizon+10).Draw(t, label+"any")
	}
}

func genC42(t *rapid.T) c42Case {
	c := c42Case{
		SamplesPerChunk: rapid.IntRange(2, 12).Draw(t, "spc"),
		MMap:            rapid.Bool().Draw(t, "mmap"),
		OOOWindow:       rapid.IntRange(0, 3).Draw(t, "ooo") == 0,
		Streamed:        rapid.IntRange(0, 2).Draw(t, "streamed") > 0,
		Frame:           rapid.SampledFrom([]int{1, 60, 120, 250, 600, 1 << 20}).Draw(t, "frame"),
	}
	if c.OOOWindow {
		c.OOOCompact = rapid.IntRange(0, 3).Draw(t, "ooocompact") == 0
	}
	ns := rapid.IntRange(1, 5).Draw(t, "nseries")
	seen := map[string]bool{}
	var anchors []int64
	var horizon int64
	for i := 0; i < ns; i++ {
		s := genC42Series(t, c.OOOWindow)
		if seen[s.L.Key()] {
			continue
		}
		seen[s.L.Key()] = true
		c.Series = append(c.Series, s)
		ts := s.Start
		for _, st := range s.Steps {
			ts += st
			anchors = append(anchors, ts)
		}
		if ts > horizon {
			horizon = ts
		}
	}
	for i, n := 0, rapid.SampledFrom([]int{0, 0, 0, 1, 1, 2}).Draw(t, "ncuts"); i < n; i++ {
		c.Cuts = append(c.Cuts, rapid.Int64Range(0, horizon).Draw(t, "cut"))
	}
	sort.Slice(c.Cuts, func(i, j int) bool { return c.Cuts[i] < c.Cuts[j] })
	for i, n := 0, rapid.IntRange(0, 2).Draw(t, "next"); i < n; i++ {
		name := rapid.SampledFrom(c42ExtNames).Draw(t, "extname")
		dup := false
		for _, p := range c.Ext {
			dup = dup || p[0] == name
		}
		if !dup {
			c.Ext = append(c.Ext, [2]string{name, rapid.SampledFrom([]string{"eu", "x"}).Draw(t, "extval")})
		}
	}
	sort.Slice(c.Ext, func(i, j int) bool { return c.Ext[i][0] < c.Ext[j][0] })
	nq := rapid.IntRange(1, 2).Draw(t, "nq")
	for i := 0; i < nq; i++ {
		var q c42Query
		nm := rapid.SampledFrom([]int{1, 1, 1, 2, 2, 3}).Draw(t, "nm")
		for j := 0; j < nm; j++ {
			if len(c.Ext) > 0 && rapid.IntRange(0, 3).Draw(t, "onext") == 0 {
				// matchers on external label names: equality only (what the client side sends)
				p := rapid.SampledFrom(c.Ext).Draw(t, "extm")
				v := p[1]
				if rapid.IntRange(0, 3).Draw(t, "extother") == 0 {
					v = "other"
				}
				q.M = append(q.M, c42Matcher{Type: int(labels.MatchEqual), Name: p[0], Value: v})
				continue
			}
			m := c42Matcher{Type: rapid.IntRange(0, 3).Draw(t, "mtype"), Name: rapid.SampledFrom(c42MatchNames).Draw(t, "mname"), Value: rapid.SampledFrom(c42MatchValues).Draw(t, "mval")}
			if j == 0 && rapid.IntRange(0, 3).Draw(t, "broad") > 0 {
				m = c42Matcher{Type: int(labels.MatchRegexp), Name: "__name__", Value: rapid.SampledFrom([]string{".+", "m.*", "m1|m2"}).Draw(t, "broadv")}
			}
			q.M = append(q.M, m)
		}
		q.Mint = genC42Time(t, "mint", horizon, anchors)
		q.Maxt = genC42Time(t, "maxt", horizon, anchors)
		if q.Maxt < q.Mint {
			q.Mint, q.Maxt = q.Maxt, q.Mint
		}
		q.Hints = rapid.IntRange(0, 3).Draw(t, "hints") == 0
		c.Queries = append(c.Queries, q)
	}
	c.SubMint = genC42Time(t, "submint", horizon, anchors)
	c.SubMaxt = genC42Time(t, "submaxt", horizon, anchors)
	if c.SubMaxt < c.SubMint {
		c.SubMint, c.SubMaxt = c.SubMaxt, c.SubMint
	}
	c.SeekAt = genC42Time(t, "seek", horizon, anchors)
	if c.SeekAt == math.MinInt64 {
		// Seek(MinInt64) on a fresh chunked iterator returns ValNone (AtT of an unstarted chunk
		// iterator is MinInt64 too); no caller seeks there and Seek is outside the property.
		c.SeekAt = -1000
	}
	return c
}

// ---- building the database ----------------------------------------------------------

type c42Pt struct {
	t  int64
	f  uint64
	h  *histogram.Histogram
	fh *histogram.FloatHistogram
}

func (p c42Pt) kind() string {
	switch {
	case p.h != nil:
		return "hist"
	case p.fh != nil:
		return "floathist"
	}
	return "float"
}

func c42SeriesPoint(s c42Series, i int, t int64) c42Pt {
	useHist := s.Kind == 1 || s.Kind == 2 || (s.Kind == 3 && i >= len(s.Steps)/2)
	if !useHist || len(s.Hists) == 0 {
		return c42Pt{t: t, f: s.Vals[i%len(s.Vals)]}
	}
	h := s.Hists[i%len(s.Hists)]
	if h.Float {
		return c42Pt{t: t, fh: h.FloatH()}
	}
	return c42Pt{t: t, h: h.Int()}
}

func c42Append(app storage.Appender, ls labels.Labels, p c42Pt) error {
	var err error
	switch {
	case p.h != nil:
		_, err = app.AppendHistogram(0, ls, p.t, p.h, nil)
	case p.fh != nil:
		_, err = app.AppendHistogram(0, ls, p.t, nil, p.fh)
	default:
		_, err = app.Append(0, ls, p.t, gen.F(p.f))
	}
	return err
}

func c42Build(c c42Case, dir string) (*tsdb.DB, error) {
	opts := tsdb.DefaultOptions()
	opts.StripeSize = 64
	opts.NoLockfile = true
	opts.WALSegmentSize = 64 * 1024
	opts.HeadChunksWriteBufferSize = 64 * 1024
	opts.SamplesPerChunk = c.SamplesPerChunk
	opts.MaxBlockChunkSegmentSize = 1 << 20 // the chunk segment file is preallocated at this size for every block written
	if c.OOOWindow {
		opts.OutOfOrderTimeWindow = 1_000_000
		opts.OutOfOrderCapMax = 4
	}
	db, err := tsdb.Open(dir, promslog.NewNopLogger(), nil, opts, nil)
	if err != nil {
		return nil, err
	}
	db.DisableCompactions()
	type c42Ev struct {
		si int
		p  c42Pt
	}
	var all []c42Ev
	for si, s := range c.Series {
		ts := s.Start
		for i, st := range s.Steps {
			ts += st
			all = append(all, c42Ev{si, c42SeriesPoint(s, i, ts)})
		}
	}
	sort.SliceStable(all, func(i, j int) bool { return all[i].p.t < all[j].p.t })
	lsets := make([]labels.Labels, len(c.Series))
	for i, s := range c.Series {
		lsets[i] = s.L.Labels()
	}
	cuts := append([]int64(nil), c.Cuts...)
	var app storage.Appender
	pending := 0
	flush := func() error {
		if app == nil {
			return nil
		}
		err := app.Commit()
		app, pending = nil, 0
		return err
	}
	sinceCut := 0
	var firstT int64
	doCut := func(cut int64) error {
		if err := flush(); err != nil {
			return err
		}
		if sinceCut == 0 {
			return nil
		}
		sinceCut = 0
		return db.CompactHead(tsdb.NewRangeHead(db.Head(), firstT, cut))
	}
	for i, e := range all {
		for len(cuts) > 0 && e.p.t > cuts[0] {
			if err := doCut(cuts[0]); err != nil {
				return db, fmt.Errorf("compact head: %w", err)
			}
			cuts = cuts[1:]
		}
		if app == nil {
			app = db.Appender(context.Background())
		}
		if sinceCut == 0 {
			firstT = e.p.t
		}
		if err := c42Append(app, lsets[e.si], e.p); err != nil {
			// duplicate timestamps of one series cannot happen (steps >= 1)
			return db, fmt.Errorf("append %d: %w", i, err)
		}
		sinceCut++
		pending++
		if pending >= 17 {
			if err := flush(); err != nil {
				return db, err
			}
		}
	}
	if err := flush(); err != nil {
		return db, err
	}
	if c.MMap {
		db.ForceHeadMMap()
	}
	if c.OOOWindow {
		for si, s := range c.Series {
			// Two stored samples with one timestamp (in-order + out-of-order) make the sample
			// querier and the chunk querier pick either value; that ambiguity is the TSDB's, not
			// remote read's, so out-of-order timestamps never repeat a timestamp of the series.
			used := map[int64]bool{}
			ts := s.Start
			for _, st := range s.Steps {
				ts += st
				used[ts] = true
			}
			for j, t := range s.OOO {
				if used[t] {
					continue
				}
				used[t] = true
				app := db.Appender(context.Background())
				// errors (too old, duplicate timestamp with another value) are fine: rejected
				// samples are simply not part of the stored data
				if err := c42Append(app, lsets[si], c42SeriesPoint(s, j, t)); err != nil {
					_ = app.Rollback()
					continue
				}
				if err := app.Commit(); err != nil {
					return db, err
				}
			}
		}
		if c.OOOCompact {
			if err := db.CompactOOOHead(context.Background()); err != nil {
				return db, fmt.Errorf("compact ooo head: %w", err)
			}
		}
	}
	return db, nil
}

// ---- reading ------------------------------------------------------------------------

type c42Got struct {
	l   labels.Labels
	pts []c42Pt
}

func c42Drain(it chunkenc.Iterator, first chunkenc.ValueType) ([]c42Pt, error) {
	var out []c42Pt
	for vt := first; vt != chunkenc.ValNone; vt = it.Next() {
		switch vt {
		case chunkenc.ValFloat:
			t, v := it.At()
			out = append(out, c42Pt{t: t, f: math.Float64bits(v)})
		case chunkenc.ValHistogram:
			t, h := it.AtHistogram(nil)
			out = append(out, c42Pt{t: t, h: h.Copy()})
		case chunkenc.ValFloatHistogram:
			t, fh := it.AtFloatHistogram(nil)
			out = append(out, c42Pt{t: t, fh: fh.Copy()})
		}
	}
	return out, it.Err()
}

func c42ReadSet(ss storage.SeriesSet) ([]c42Got, error) {
	var out []c42Got
	for ss.Next() {
		s := ss.At()
		it := s.Iterator(nil)
		pts, err := c42Drain(it, it.Next())
		if err != nil {
			return nil, err
		}
		if len(pts) == 0 {
			continue // a series without samples in the range carries no data on either side
		}
		out = append(out, c42Got{l: s.Labels(), pts: pts})
	}
	return out, ss.Err()
}

func c42Matchers(ms []c42Matcher) ([]*labels.Matcher, error) {
	var out []*labels.Matcher
	for _, m := range ms {
		lm, err := labels.NewMatcher(labels.MatchType(m.Type), m.Name, m.Value)
		if err != nil {
			return nil, err
		}
		out = append(out, lm)
	}
	return out, nil
}

// c42Cmp compares two sample lists; exact selects field-by-field histogram equality
// (incl. counter-reset hint and span layout), otherwise histograms are compared by meaning.
func c42Cmp(where string, want, got []c42Pt, exact bool, known *error) error {
	if len(want) != len(got) {
		return ev.Failf("%s: local query has %d samples, remote read %d (local %s, remote %s)", where, len(want), len(got), c42Times(want), c42Times(got))
	}
	for i := range want {
		w, g := want[i], got[i]
		if w.t != g.t || w.kind() != g.kind() {
			return ev.Failf("%s sample %d: local (t=%d %s), remote (t=%d %s)", where, i, w.t, w.kind(), g.t, g.kind())
		}
		switch {
		case w.h != nil:
			d := gen.IntHistExact(w.h, g.h)
			if !exact {
				d = gen.FloatHistSemantic(w.h.ToFloat(nil), g.h.ToFloat(nil), false)
				if d == "" && (w.h.CounterResetHint == histogram.GaugeType) != (g.h.CounterResetHint == histogram.GaugeType) {
					d = "gauge flag"
				}
			}
			if d != "" {
				return ev.Failf("%s sample %d (t=%d): histogram field %s differs: local %v remote %v", where, i, w.t, d, w.h, g.h)
			}
		case w.fh != nil:
			d := gen.FloatHistExact(w.fh, g.fh)
			if !exact {
				d = gen.FloatHistSemantic(w.fh, g.fh, false)
				if d == "" && (w.fh.CounterResetHint == histogram.GaugeType) != (g.fh.CounterResetHint == histogram.GaugeType) {
					d = "gauge flag"
				}
			}
			if d != "" {
				return ev.Failf("%s sample %d (t=%d): float histogram field %s differs: local %v remote %v", where, i, w.t, d, w.fh, g.fh)
			}
		default:
			if w.f == 0x8000000000000000 && g.f == 0 && known != nil {
				// -0 == 0, so the generated prompb.Sample marshalling omits the value field
				if *known == nil {
					*known = ev.FailSig("samples-response-negative-zero-dropped", "%s sample %d (t=%d): stored value is -0, the SAMPLES response delivers +0 (the marshalled prompb.Sample omits a value that compares equal to zero)", where, i, w.t)
				}
				continue
			}
			if w.f != g.f {
				return ev.Failf("%s sample %d (t=%d): local value bits %016x, remote %016x", where, i, w.t, w.f, g.f)
			}
		}
	}
	return nil
}

func c42Times(p []c42Pt) string {
	s := "["
	for i, x := range p {
		if i > 12 {
			s += " ..."
			break
		}
		s += fmt.Sprintf(" %d", x.t)
	}
	return s + " ]"
}

// c42CmpSets compares series sets as maps keyed by label set. dupOK lets the remote side
// deliver one series in several consecutive pieces (they are concatenated); the number of
// extra pieces is returned.
func c42CmpSets(where string, want, got []c42Got, exact, dupOK bool, known *error) (int, error) {
	extra := 0
	merged := map[string]*c42Got{}
	var order []string
	lastKey := ""
	for i := range got {
		k := gen.FromLabels(got[i].l).Key()
		if m, ok := merged[k]; ok {
			if !dupOK {
				return 0, ev.Failf("%s: remote read delivered series %s twice", where, got[i].l)
			}
			if lastKey != k {
				return 0, ev.Failf("%s: pieces of series %s are not consecutive in the stream", where, got[i].l)
			}
			m.pts = append(m.pts, got[i].pts...)
			extra++
			continue
		}
		g := got[i]
		merged[k] = &g
		order = append(order, k)
		lastKey = k
	}
	if len(merged) != len(want) {
		var wl, gl []string
		for _, w := range want {
			wl = append(wl, w.l.String())
		}
		for _, k := range order {
			gl = append(gl, merged[k].l.String())
		}
		return 0, ev.Failf("%s: local query returns %d series %v, remote read %d series %v", where, len(want), wl, len(merged), gl)
	}
	for _, w := range want {
		g, ok := merged[gen.FromLabels(w.l).Key()]
		if !ok {
			return 0, ev.Failf("%s: series %s of the local query is missing from the remote read result", where, w.l)
		}
		if err := c42Cmp(fmt.Sprintf("%s series %s", where, w.l), w.pts, g.pts, exact, known); err != nil {
			return 0, err
		}
	}
	return extra, nil
}

type c42RT struct{ h http.Handler }

func (rt c42RT) RoundTrip(req *http.Request) (*http.Response, error) {
	rec := httptest.NewRecorder()
	rt.h.ServeHTTP(rec, req)
	return rec.Result(), nil
}

func c42Post(h http.Handler, rr *prompb.ReadRequest) (*httptest.ResponseRecorder, error) {
	data, err := proto.Marshal(rr)
	if err != nil {
		return nil, err
	}
	req := httptest.NewRequest(http.MethodPost, "/api/v1/read", bytes.NewReader(snappy.Encode(nil, data)))
	req.Header.Set("Content-Encoding", "snappy")
	req.Header.Set("Content-Type", "application/x-protobuf")
	rec := httptest.NewRecorder()
	h.ServeHTTP(rec, req)
	return rec, nil
}

// c42Seek checks Seek on a fresh iterator of every series of the set against the
// already verified full sample lists.
func c42Seek(where string, ss storage.SeriesSet, full map[string][]c42Pt, at int64, exact bool) error {
	for ss.Next() {
		s := ss.At()
		k := gen.FromLabels(s.Labels()).Key()
		it := s.Iterator(nil)
		pts, err := c42Drain(it, it.Seek(at))
		if err != nil {
			return ev.Failf("%s: Seek(%d) on series %s: %v", where, at, s.Labels(), err)
		}
		var want []c42Pt
		for _, p := range full[k] {
			if p.t >= at {
				want = append(want, p)
			}
		}
		if err := c42Cmp(fmt.Sprintf("%s series %s after Seek(%d)", where, s.Labels(), at), want, pts, exact, nil); err != nil {
			return err
		}
	}
	return ss.Err()
}

func runC42(c c42Case, r *ev.Rec) error {
	if len(c.Series) == 0 || len(c.Queries) == 0 {
		r.Discard()
		return nil
	}
	dir, err := c41TempDir("c42")
	if err != nil {
		return err
	}
	defer os.RemoveAll(dir)
	db, err := c42Build(c, dir)
	if db != nil {
		defer db.Close()
	}
	if err != nil {
		return fmt.Errorf("harness: build: %w", err)
	}
	ext := c.Ext.Labels()
	cfg := func() config.Config { return config.Config{GlobalConfig: config.GlobalConfig{ExternalLabels: ext}} }
	h := promremote.NewReadHandler(promslog.NewNopLogger(), nil, db, cfg, 0, 4, c.Frame)

	mode := "samples"
	accepted := []prompb.ReadRequest_ResponseType{prompb.ReadRequest_SAMPLES}
	if c.Streamed {
		mode = "streamed"
		accepted = []prompb.ReadRequest_ResponseType{prompb.ReadRequest_STREAMED_XOR_CHUNKS, prompb.ReadRequest_SAMPLES}
	}
	r.Class("mode:" + mode)
	if len(c.Cuts) > 0 {
		r.Class("with-blocks")
	}
	hasOOO := false
	hasHist := false
	for _, s := range c.Series {
		hasOOO = hasOOO || (c.OOOWindow && len(s.OOO) > 0)
		hasHist = hasHist || s.Kind != 0
	}
	if hasOOO {
		r.Class("out-of-order-data")
	}
	// The chunk querier re-encodes chunks that the range cuts or that overlap (out-of-order
	// data): counter-reset hints (other than "gauge") and span layouts of the streamed chunks
	// are then not those the sample querier reports. Hint soundness is C12's subject; the
	// streamed path is compared by meaning, the SAMPLES path field by field.
	exactStream := false

	// ---- local expectations per query
	type exp struct {
		raw     []c42Got // local Select with the query's matchers (what the client library must return)
		merged  []c42Got // all local series in range, external labels attached, filtered by the matchers
		hints   *storage.SelectHints
		ms      []*labels.Matcher
		onExt   bool
		nonTriv bool
	}
	extNames := map[string]bool{}
	var extList []string
	for _, p := range c.Ext {
		extNames[p[0]] = true
		extList = append(extList, p[0])
	}
	// stored chunk bounds per series (untrimmed: whole time range)
	chunkBounds := map[string][][2]int64{}
	{
		cq, err := db.ChunkQuerier(math.MinInt64, math.MaxInt64)
		if err != nil {
			return fmt.Errorf("harness: chunk querier: %w", err)
		}
		css := cq.Select(context.Background(), true, nil, c41All)
		for css.Next() {
			k := gen.FromLabels(css.At().Labels()).Key()
			cit := css.At().Iterator(nil)
			for cit.Next() {
				m := cit.At()
				chunkBounds[k] = append(chunkBounds[k], [2]int64{m.MinTime, m.MaxTime})
			}
		}
		cq.Close()
	}
	exps := make([]exp, len(c.Queries))
	req := &prompb.ReadRequest{AcceptedResponseTypes: accepted}
	for qi, q := range c.Queries {
		ms, err := c42Matchers(q.M)
		if err != nil {
			r.Discard()
			return nil
		}
		e := exp{ms: ms}
		if q.Hints {
			e.hints = &storage.SelectHints{Start: q.Mint, End: q.Maxt}
		}
		for _, m := range q.M {
			e.onExt = e.onExt || extNames[m.Name]
		}
		lq, err := db.Querier(q.Mint, q.Maxt)
		if err != nil {
			return fmt.Errorf("harness: querier: %w", err)
		}
		if !e.onExt {
			e.raw, err = c42ReadSet(lq.Select(context.Background(), true, e.hints, ms...))
			if err != nil {
				lq.Close()
				return fmt.Errorf("harness: local select: %w", err)
			}
		}
		all, err := c42ReadSet(lq.Select(context.Background(), true, e.hints, c41All))
		lq.Close()
		if err != nil {
			return fmt.Errorf("harness: local select: %w", err)
		}
		for _, g := range all {
			b := labels.NewBuilder(ext)
			g.l.Range(func(l labels.Label) { b.Set(l.Name, l.Value) })
			ml := b.Labels()
			ok := true
			for _, m := range ms {
				ok = ok && m.Matches(ml.Get(m.Name))
			}
			if ok {
				e.merged = append(e.merged, c42Got{l: ml, pts: g.pts})
			}
		}
		// does the range cut a chunk of a series the query returns?
		for _, g := range e.merged {
			for _, b := range chunkBounds[gen.FromLabels(labels.NewBuilder(g.l).Del(extList...).Labels()).Key()] {
				if (b[0] < q.Mint && q.Mint <= b[1]) || (b[0] <= q.Maxt && q.Maxt < b[1]) {
					e.nonTriv = true
				}
			}
		}
		if e.nonTriv {
			r.Class("range-cuts-chunk")
		}
		exps[qi] = e
		pq, err := promremote.ToQuery(q.Mint, q.Maxt, ms, e.hints)
		if err != nil {
			return fmt.Errorf("harness: ToQuery: %w", err)
		}
		req.Queries = append(req.Queries, pq)
	}

	// ---- raw protocol level
	rec, err := c42Post(h, req)
	if err != nil {
		return fmt.Errorf("harness: post: %w", err)
	}
	if rec.Code != http.StatusOK {
		return ev.Failf("read handler answered %d: %s", rec.Code, firstN(rec.Body.String(), 300))
	}
	body := rec.Body.Bytes()
	var splitKnown, zeroKnown error
	nonTrivial := false
	if !c.Streamed {
		raw, err := snappy.Decode(nil, body)
		if err != nil {
			return ev.Failf("samples response is not snappy: %v", err)
		}
		var resp prompb.ReadResponse
		if err := proto.Unmarshal(raw, &resp); err != nil {
			return ev.Failf("samples response does not unmarshal: %v", err)
		}
		if len(resp.Results) != len(c.Queries) {
			return ev.Failf("samples response has %d results for %d queries", len(resp.Results), len(c.Queries))
		}
		for qi := range c.Queries {
			where := fmt.Sprintf("SAMPLES query %d %+v", qi, c.Queries[qi])
			got, err := c42ReadSet(promremote.FromQueryResult(true, resp.Results[qi]))
			if err != nil {
				return ev.Failf("%s: decoding the result failed: %v", where, err)
			}
			if _, err := c42CmpSets(where, exps[qi].merged, got, true, false, &zeroKnown); err != nil {
				return err
			}
			full := map[string][]c42Pt{}
			for _, g := range got {
				full[gen.FromLabels(g.l).Key()] = g.pts
			}
			if err := c42Seek(where, promremote.FromQueryResult(true, resp.Results[qi]), full, c.SeekAt, true); err != nil {
				return err
			}
			if exps[qi].nonTriv && len(got) > 0 {
				nonTrivial = true
			}
		}
	} else {
		if ct := rec.Header().Get("Content-Type"); ct != "application/x-streamed-protobuf; proto=prometheus.ChunkedReadResponse" {
			return ev.Failf("streamed response has content type %q", ct)
		}
		// (a) frames decoded by hand
		cr := promremote.NewChunkedReader(bytes.NewReader(body), config.DefaultChunkedReadLimit, nil)
		perQuery := make([][]c42Got, len(c.Queries))
		frames := map[string]int{}
		for {
			var fr prompb.ChunkedReadResponse
			err := cr.NextProto(&fr)
			if errors.Is(err, io.EOF) {
				break
			}
			if err != nil {
				return ev.Failf("streamed response: reading frame: %v", err)
			}
			if fr.QueryIndex < 0 || int(fr.QueryIndex) >= len(c.Queries) {
				return ev.Failf("streamed response: frame with query index %d", fr.QueryIndex)
			}
			q := c.Queries[fr.QueryIndex]
			for _, cs := range fr.ChunkedSeries {
				b := labels.NewScratchBuilder(0)
				g := c42Got{l: cs.ToLabels(&b, nil)}
				frames[fmt.Sprintf("%d/%s", fr.QueryIndex, gen.FromLabels(g.l).Key())]++
				for _, ck := range cs.Chunks {
					ch, err := chunkenc.FromData(chunkenc.Encoding(ck.Type), ck.Data)
					if err != nil {
						return ev.Failf("streamed response: series %s: chunk of type %v does not decode: %v", g.l, ck.Type, err)
					}
					it := ch.Iterator(nil)
					pts, err := c42Drain(it, it.Next())
					if err != nil {
						return ev.Failf("streamed response: series %s: chunk iteration: %v", g.l, err)
					}
					for _, p := range pts {
						if p.t >= q.Mint && p.t <= q.Maxt {
							g.pts = append(g.pts, p)
						}
					}
				}
				if len(g.pts) > 0 {
					perQuery[fr.QueryIndex] = append(perQuery[fr.QueryIndex], g)
				}
			}
		}
		multi := false
		for _, n := range frames {
			if n >= 2 {
				multi = true
			}
		}
		if multi {
			r.Class("series-over-several-frames")
			nonTrivial = true
		}
		for qi := range c.Queries {
			where := fmt.Sprintf("STREAMED_XOR_CHUNKS (frame %d bytes) query %d %+v", c.Frame, qi, c.Queries[qi])
			// chunks hold no samples for a series whose chunks overlap the range only outside of it
			var want []c42Got
			want = append(want, exps[qi].merged...)
			got := perQuery[qi][:0:0]
			for _, g := range perQuery[qi] {
				got = append(got, g)
			}
			// series that only have samples outside the range may be streamed with zero in-range samples
			got = c42DropEmpty(got, want)
			if _, err := c42CmpSets(where, want, got, exactStream, true, nil); err != nil {
				return err
			}
			if exps[qi].nonTriv && len(want) > 0 {
				nonTrivial = true
			}
		}
		// (b) the client-side series set over the same bytes (single query: it takes one range)
		if len(c.Queries) == 1 {
			q := c.Queries[0]
			where := fmt.Sprintf("NewChunkedSeriesSet (frame %d bytes) query %+v", c.Frame, q)
			mk := func() storage.SeriesSet {
				return promremote.NewChunkedSeriesSet(promremote.NewChunkedReader(bytes.NewReader(body), config.DefaultChunkedReadLimit, nil), io.NopCloser(bytes.NewReader(nil)), q.Mint, q.Maxt, func(error) {})
			}
			got, err := c42ReadSet(mk())
			if err != nil {
				return ev.Failf("%s: %v", where, err)
			}
			got = c42DropEmpty(got, exps[0].merged)
			extra, err := c42CmpSets(where, exps[0].merged, got, exactStream, true, nil)
			if err != nil {
				return err
			}
			full := map[string][]c42Pt{}
			for _, g := range exps[0].merged {
				full[gen.FromLabels(g.l).Key()] = g.pts
			}
			// The client-side set trims to the range it is given: a server may send whole chunks
			// (other remote-read servers do), so give it a narrower range than the one queried.
			subMint, subMaxt := max(c.SubMint, q.Mint), min(c.SubMaxt, q.Maxt)
			if subMint <= subMaxt {
				var wantSub []c42Got
				for _, g := range exps[0].merged {
					var pts []c42Pt
					for _, p := range g.pts {
						if p.t >= subMint && p.t <= subMaxt {
							pts = append(pts, p)
						}
					}
					if len(pts) > 0 {
						wantSub = append(wantSub, c42Got{l: g.l, pts: pts})
					}
				}
				gotSub, err := c42ReadSet(promremote.NewChunkedSeriesSet(promremote.NewChunkedReader(bytes.NewReader(body), config.DefaultChunkedReadLimit, nil), io.NopCloser(bytes.NewReader(nil)), subMint, subMaxt, func(error) {}))
				whereSub := fmt.Sprintf("NewChunkedSeriesSet over range [%d,%d] of the response to query %+v", subMint, subMaxt, q)
				if err != nil {
					return ev.Failf("%s: %v", whereSub, err)
				}
				if _, err := c42CmpSets(whereSub, wantSub, gotSub, exactStream, true, nil); err != nil {
					return err
				}
				if subMint > q.Mint || subMaxt < q.Maxt {
					r.Class("client-trims-subrange")
				}
			}
			if extra == 0 {
				if err := c42Seek(where, mk(), full, c.SeekAt, exactStream); err != nil {
					return err
				}
			} else {
				splitKnown = ev.FailSig("chunked-client-yields-one-series-per-frame",
					"%s: a series that the server split over several frames is returned by the client-side series set as %d extra series with the same label set (samples are complete when the pieces are concatenated); the local query returns it once",
					where, extra)
			}
		}
	}

	// ---- end to end through the client library (single query, matchers not on external labels)
	if len(c.Queries) == 1 && !exps[0].onExt {
		q := c.Queries[0]
		u, _ := url.Parse("http://c42.invalid/api/v1/read")
		rc, err := promremote.NewReadClient("c42", &promremote.ClientConfig{
			URL: &config_util.URL{URL: u}, Timeout: model.Duration(30 * time.Second),
			ChunkedReadLimit: config.DefaultChunkedReadLimit, AcceptedResponseTypes: accepted,
		})
		if err != nil {
			return fmt.Errorf("harness: read client: %w", err)
		}
		cl, ok := rc.(*promremote.Client)
		if !ok {
			return fmt.Errorf("harness: read client is %T", rc)
		}
		cl.Client = &http.Client{Transport: c42RT{h}}
		qb := promremote.NewSampleAndChunkQueryableClient(rc, ext, nil, true, func() (int64, error) { return 0, nil })
		rq, err := qb.Querier(q.Mint, q.Maxt)
		if err != nil {
			return fmt.Errorf("harness: client querier: %w", err)
		}
		where := fmt.Sprintf("client library (%s, frame %d bytes) query %+v", mode, c.Frame, q)
		got, err := c42ReadSet(rq.Select(context.Background(), true, exps[0].hints, exps[0].ms...))
		if err != nil {
			return ev.Failf("%s: %v", where, err)
		}
		if c.Streamed {
			got = c42DropEmpty(got, exps[0].raw)
		}
		var e2eKnown *error
		if !c.Streamed {
			e2eKnown = &zeroKnown
		}
		extra, err := c42CmpSets(where, exps[0].raw, got, !c.Streamed || exactStream, c.Streamed, e2eKnown)
		if err != nil {
			return err
		}
		if extra > 0 && splitKnown == nil {
			splitKnown = ev.FailSig("chunked-client-yields-one-series-per-frame",
				"%s: a series split over several frames comes back as %d extra series with the same label set", where, extra)
		}
		r.Class("end-to-end-client")
	}
	if hasHist {
		r.Class("histograms")
	}
	if nonTrivial {
		r.NonTrivial()
	}
	if zeroKnown != nil {
		return zeroKnown
	}
	return splitKnown
}

// c42DropEmpty removes remote series without in-range samples that the local sample
// query does not list: a chunk overlapping the range by its bounds but holding no sample
// inside it is legitimately streamed.
func c42DropEmpty(got, want []c42Got) []c42Got {
	wk := map[string]bool{}
	for _, w := range want {
		wk[gen.FromLabels(w.l).Key()] = true
	}
	var out []c42Got
	for _, g := range got {
		if len(g.pts) == 0 && !wk[gen.FromLabels(g.l).Key()] {
			continue
		}
		out = append(out, g)
	}
	return out
}

func TestC42(t *testing.T) {
	ev.Check(t, "C42",
		"real TSDB with 1-5 series (floats over all bit patterns, int/float/custom-bucket histograms, float→histogram switches), samples-per-chunk 2-12, 0-2 head→block compactions, optional m-mapping, optional out-of-order samples (optionally compacted), external labels; 1-2 queries with 1-3 matchers and ranges anchored at sample timestamps ±1; read through NewReadHandler as SAMPLES (FromQueryResult) or STREAMED_XOR_CHUNKS with frame limits 1 B…1 MiB (frames decoded by hand, NewChunkedSeriesSet, Seek) and end to end through NewReadClient+NewSampleAndChunkQueryableClient; compared with db.Querier(mint,maxt).Select. Non-trivial: a series spans >=2 frames, or the range cuts a chunk of a returned series; distinct by hash of the case.",
		genC42, runC42)
}
