package remote

import (
	"context"
	"fmt"
	"strconv"
	"testing"

	"go.opentelemetry.io/collector/pdata/pcommon"
	"go.opentelemetry.io/collector/pdata/pmetric"
	"pgregory.net/rapid"

	"github.com/prometheus/prometheus/model/histogram"
	"github.com/prometheus/prometheus/model/labels"
	"github.com/prometheus/prometheus/storage"
	"github.com/prometheus/prometheus/storage/remote/otlptranslator/prometheusremotewrite"

	"verifharness/internal/ev"
	"verifharness/internal/gen"
)

// C43 — OTLP metrics convert to Prometheus series without distorting values.

type c43Point struct {
	Attrs      gen.Lset
	TsNs, StNs uint64
	NoRecorded bool `json:",omitempty"`
	// number points
	IsInt bool   `json:",omitempty"`
	IntV  int64  `json:",omitempty"`
	DblV  uint64 `json:",omitempty"`
	// histograms
	HasSum bool   `json:",omitempty"`
	Sum    uint64 `json:",omitempty"`
	// exponential
	Scale     int32    `json:",omitempty"`
	ZeroCount uint64   `json:",omitempty"`
	ZeroThr   uint64   `json:",omitempty"`
	PosOff    int32    `json:",omitempty"`
	Pos       []uint64 `json:",omitempty"`
	NegOff    int32    `json:",omitempty"`
	Neg       []uint64 `json:",omitempty"`
	// explicit
	Bounds  []uint64 `json:",omitempty"` // float bits, strictly increasing
	Buckets []uint64 `json:",omitempty"` // len(Bounds)+1, or empty together with Bounds
}

type c43Metric struct {
	Name        string
	Kind        string // gauge sum hist exphist
	Monotonic   bool
	Temporality int // 0 unspecified, 1 delta, 2 cumulative (pmetric.AggregationTemporality values)
	Points      []c43Point
}

type c43Case struct {
	NHCB       bool
	AllowDelta bool
	Service    string // service.name resource attribute ("" = none)
	Namespace  string // service.namespace
	Instance   string // service.instance.id
	Metrics    []c43Metric
}

var c43AttrNames = []string{"a", "b", "c", "d_e"}
var c43AttrValues = []string{"", "x", "y", "ü z", "1"}

func genC43Counts(t *rapid.T, label string) []uint64 {
	n := rapid.IntRange(0, 12).Draw(t, label+"n")
	if rapid.IntRange(0, 9).Draw(t, label+"long") == 0 {
		n = rapid.IntRange(13, 70).Draw(t, label+"nlong")
	}
	zeroP := rapid.SampledFrom([]int{0, 2, 5, 8}).Draw(t, label+"zp") // out of 10
	out := make([]uint64, 0, n)
	for len(out) < n {
		if rapid.IntRange(0, 9).Draw(t, label+"z") < zeroP {
			run := rapid.IntRange(1, 5).Draw(t, label+"run")
			for j := 0; j < run && len(out) < n; j++ {
				out = append(out, 0)
			}
			continue
		}
		out = append(out, uint64(rapid.IntRange(1, 1000).Draw(t, label+"c")))
	}
	return out
}

func genC43Offset(t *rapid.T, label string) int32 {
	switch rapid.IntRange(0, 5).Draw(t, label+"c") {
	case 0:
		return rapid.Int32Range(-(1<<28), 1<<28).Draw(t, label+"big")
	case 1:
		return rapid.Int32Range(-5000, 5000).Draw(t, label+"mid")
	case 2:
		return rapid.SampledFrom([]int32{0, -1, 1, -2, -4096, -4097, 4095, 4096, -256, 255}).Draw(t, label+"edge")
	default:
		return rapid.Int32Range(-40, 40).Draw(t, label+"small")
	}
}

func genC43Point(t *rapid.T, kind string, base uint64) c43Point {
	p := c43Point{Attrs: gen.Lset{}}
	used := map[string]bool{}
	for i, n := 0, rapid.IntRange(0, 3).Draw(t, "nattr"); i < n; i++ {
		name := rapid.SampledFrom(c43AttrNames).Draw(t, "an")
		if used[name] {
			continue
		}
		used[name] = true
		p.Attrs = append(p.Attrs, [2]string{name, rapid.SampledFrom(c43AttrValues).Draw(t, "av")})
	}
	// timestamps in ns: not multiples of a millisecond most of the time
	p.TsNs = base + uint64(rapid.Int64Range(0, 5_000_000_000).Draw(t, "tsoff"))
	if rapid.IntRange(0, 4).Draw(t, "tsround") == 0 {
		p.TsNs = p.TsNs / 1_000_000 * 1_000_000
	}
	switch rapid.IntRange(0, 3).Draw(t, "stc") {
	case 0:
		p.StNs = 0
	case 1:
		p.StNs = p.TsNs - uint64(rapid.Int64Range(0, 999_999).Draw(t, "stsub")) // same or previous millisecond
	default:
		p.StNs = base - uint64(rapid.Int64Range(0, 60_000_000_000).Draw(t, "stback"))
	}
	p.NoRecorded = rapid.IntRange(0, 7).Draw(t, "norec") == 0
	switch kind {
	case "gauge", "sum":
		p.IsInt = rapid.Bool().Draw(t, "isint")
		if p.IsInt {
			p.IntV = rapid.Int64().Draw(t, "iv")
			if rapid.Bool().Draw(t, "ivsmall") {
				p.IntV = int64(rapid.IntRange(-1000, 1000).Draw(t, "ivs"))
			}
		} else {
			p.DblV = gen.FloatBits().Draw(t, "dv")
		}
	case "exphist":
		p.Scale = rapid.Int32Range(-4, 20).Draw(t, "scale")
		if rapid.IntRange(0, 2).Draw(t, "hiscale") == 0 {
			p.Scale = rapid.Int32Range(9, 20).Draw(t, "scalehi")
		}
		p.PosOff = genC43Offset(t, "po")
		p.Pos = genC43Counts(t, "p")
		if rapid.Bool().Draw(t, "hasneg") {
			p.NegOff = genC43Offset(t, "no")
			p.Neg = genC43Counts(t, "n")
		}
		if rapid.Bool().Draw(t, "haszero") {
			p.ZeroCount = uint64(rapid.IntRange(0, 100).Draw(t, "zc"))
		}
		if rapid.IntRange(0, 4).Draw(t, "zt") == 0 {
			p.ZeroThr = gen.B(rapid.SampledFrom([]float64{1e-128, 1e-10, 0.001}).Draw(t, "ztv"))
		}
		p.HasSum = rapid.IntRange(0, 4).Draw(t, "hassum") > 0
		p.Sum = gen.FiniteFloatBits().Draw(t, "sum")
	case "hist":
		nb := rapid.IntRange(0, 8).Draw(t, "nbounds")
		v := float64(rapid.IntRange(-50, 50).Draw(t, "b0")) / 4
		for i := 0; i < nb; i++ {
			p.Bounds = append(p.Bounds, gen.B(v))
			v += float64(rapid.IntRange(1, 400).Draw(t, "bstep")) / 8
		}
		if nb > 0 || rapid.Bool().Draw(t, "infonly") {
			zp := rapid.SampledFrom([]int{0, 3, 7}).Draw(t, "bzp")
			for i := 0; i <= nb; i++ {
				c := uint64(0)
				if rapid.IntRange(0, 9).Draw(t, "bz") >= zp {
					c = uint64(rapid.IntRange(1, 500).Draw(t, "bc"))
				}
				p.Buckets = append(p.Buckets, c)
			}
		}
		p.HasSum = rapid.IntRange(0, 4).Draw(t, "hassum") > 0
		p.Sum = gen.FiniteFloatBits().Draw(t, "sum")
	}
	return p
}

func genC43(t *rapid.T) c43Case {
	c := c43Case{
		NHCB:       rapid.Bool().Draw(t, "nhcb"),
		AllowDelta: rapid.IntRange(0, 2).Draw(t, "allowdelta") > 0,
		Service:    rapid.SampledFrom([]string{"", "", "svc"}).Draw(t, "svc"),
		Instance:   rapid.SampledFrom([]string{"", "", "i-1"}).Draw(t, "inst"),
	}
	if c.Service != "" {
		c.Namespace = rapid.SampledFrom([]string{"", "ns"}).Draw(t, "ns")
	}
	base := uint64(1_700_000_000_000_000_000) + uint64(rapid.Int64Range(0, 1_000_000_000).Draw(t, "base"))
	nm := rapid.IntRange(1, 4).Draw(t, "nmetrics")
	for i := 0; i < nm; i++ {
		kind := rapid.SampledFrom([]string{"gauge", "sum", "hist", "exphist", "exphist", "exphist"}).Draw(t, "kind")
		m := c43Metric{Name: fmt.Sprintf("m%d_%s", i, kind), Kind: kind}
		if kind != "gauge" {
			m.Temporality = rapid.SampledFrom([]int{2, 2, 2, 2, 2, 1, 1, 1, 1, 0}).Draw(t, "temporality")
			m.Monotonic = rapid.Bool().Draw(t, "monotonic")
		}
		np := rapid.IntRange(1, 3).Draw(t, "npoints")
		for j := 0; j < np; j++ {
			m.Points = append(m.Points, genC43Point(t, kind, base))
		}
		c.Metrics = append(c.Metrics, m)
	}
	return c
}

// ---- recording appender ---------------------------------------------------------------

type c43Rec struct {
	ls    labels.Labels
	st, t int64
	v     float64
	h     *histogram.Histogram
	fh    *histogram.FloatHistogram
}

type c43App struct{ got []c43Rec }

func (a *c43App) Append(_ storage.SeriesRef, ls labels.Labels, st, t int64, v float64, h *histogram.Histogram, fh *histogram.FloatHistogram, _ storage.AOptions) (storage.SeriesRef, error) {
	r := c43Rec{ls: ls.Copy(), st: st, t: t, v: v}
	if h != nil {
		r.h = h.Copy()
	}
	if fh != nil {
		r.fh = fh.Copy()
	}
	a.got = append(a.got, r)
	return storage.SeriesRef(len(a.got)), nil
}
func (*c43App) Commit() error   { return nil }
func (*c43App) Rollback() error { return nil }

// ---- reference ------------------------------------------------------------------------

type c43Want struct {
	name  string            // __name__
	extra map[string]string // le for classic buckets
	leInf bool
	leVal float64
	st, t int64
	stale bool
	// float expectations
	isHist bool
	v      uint64 // float bits
	// histogram expectations
	schema   int32
	gauge    bool
	count    uint64
	sum      uint64
	zero     uint64
	pos, neg map[int64]uint64
	custom   []uint64
	// source of an exponential point (for root-cause classification only)
	srcScale       int32
	srcPos, srcNeg []uint64
}

func c43ZeroBeforeNonZero(cs []uint64) bool {
	zero := false
	for _, x := range cs {
		if x == 0 {
			zero = true
		} else if zero {
			return true
		}
	}
	return false
}

func c43Total(m map[int64]uint64) uint64 {
	var t uint64
	for _, v := range m {
		t += v
	}
	return t
}

func c43FloorDiv(a, b int64) int64 {
	q := a / b
	if (a%b != 0) && ((a < 0) != (b < 0)) {
		q--
	}
	return q
}

// c43Rebucket merges OTLP exponential buckets (index offset+i at the given scale) to the
// target schema min(scale, 8): OTLP bucket k covers (2^(k/2^s), 2^((k+1)/2^s)], the
// Prometheus bucket j at schema n covers (2^((j-1)/2^n), 2^(j/2^n)], hence j = floor(k / 2^(s-n)) + 1.
func c43Rebucket(offset int32, counts []uint64, scale int32) map[int64]uint64 {
	down := int64(1)
	if scale > 8 {
		down = int64(1) << uint(scale-8)
	}
	out := map[int64]uint64{}
	for i, c := range counts {
		if c == 0 {
			continue
		}
		out[c43FloorDiv(int64(offset)+int64(i), down)+1] += c
	}
	return out
}

func c43IntMap(spans []histogram.Span, deltas []int64) (map[int64]uint64, error) {
	m := map[int64]uint64{}
	idx := int64(0)
	bi := 0
	var cur int64
	for i, s := range spans {
		if i == 0 {
			idx = int64(s.Offset)
		} else {
			if s.Offset < 0 {
				return nil, fmt.Errorf("span %d has negative offset %d", i, s.Offset)
			}
			idx += int64(s.Offset)
		}
		for j := uint32(0); j < s.Length; j++ {
			if bi >= len(deltas) {
				return nil, fmt.Errorf("spans describe more buckets than the %d deltas", len(deltas))
			}
			cur += deltas[bi]
			if cur < 0 {
				return nil, fmt.Errorf("bucket %d has negative count %d", bi, cur)
			}
			if cur != 0 {
				if _, dup := m[idx]; dup {
					return nil, fmt.Errorf("bucket index %d appears twice", idx)
				}
				m[idx] = uint64(cur)
			}
			bi++
			idx++
		}
	}
	if bi != len(deltas) {
		return nil, fmt.Errorf("spans describe %d buckets, %d deltas given", bi, len(deltas))
	}
	return m, nil
}

func c43MapEq(a, b map[int64]uint64) bool {
	if len(a) != len(b) {
		return false
	}
	for k, v := range a {
		if b[k] != v {
			return false
		}
	}
	return true
}

func c43Ms(ns uint64) int64 { return int64(ns / 1_000_000) }

func runC43(c c43Case, r *ev.Rec) error {
	md := pmetric.NewMetrics()
	rm := md.ResourceMetrics().AppendEmpty()
	base := gen.Lset{}
	if c.Service != "" {
		rm.Resource().Attributes().PutStr("service.name", c.Service)
		job := c.Service
		if c.Namespace != "" {
			rm.Resource().Attributes().PutStr("service.namespace", c.Namespace)
			job = c.Namespace + "/" + c.Service
		}
		base = append(base, [2]string{"job", job})
	}
	if c.Instance != "" {
		rm.Resource().Attributes().PutStr("service.instance.id", c.Instance)
		base = append(base, [2]string{"instance", c.Instance})
	}
	sm := rm.ScopeMetrics().AppendEmpty()

	want := map[string][]c43Want{} // per expected series, in order
	wantTotal := 0
	wantErr := false
	add := func(attrs gen.Lset, w c43Want) {
		l := gen.Lset{{"__name__", w.name}}
		for _, p := range base {
			l = append(l, p)
		}
		for _, p := range attrs {
			if p[1] != "" {
				l = append(l, p)
			}
		}
		key := l.Key()
		if w.extra != nil {
			key += "|le"
			if w.leInf {
				key += "=+Inf"
			} else {
				key += fmt.Sprintf("=%016x", gen.B(w.leVal))
			}
		}
		want[key] = append(want[key], w)
		wantTotal++
	}
	nontrivial := false
	for _, m := range c.Metrics {
		om := sm.Metrics().AppendEmpty()
		om.SetName(m.Name)
		temp := pmetric.AggregationTemporality(m.Temporality)
		dropped := m.Kind != "gauge" && !(temp == pmetric.AggregationTemporalityCumulative || (temp == pmetric.AggregationTemporalityDelta && c.AllowDelta))
		if dropped {
			wantErr = true
			r.Class("dropped-temporality")
		}
		delta := temp == pmetric.AggregationTemporalityDelta
		r.Class("kind:" + m.Kind)
		setCommon := func(attrs pcommon.Map, p c43Point) {
			for _, a := range p.Attrs {
				attrs.PutStr(a[0], a[1])
			}
		}
		flags := func(p c43Point) pmetric.DataPointFlags {
			return pmetric.DefaultDataPointFlags.WithNoRecordedValue(p.NoRecorded)
		}
		switch m.Kind {
		case "gauge", "sum":
			var dps pmetric.NumberDataPointSlice
			if m.Kind == "gauge" {
				dps = om.SetEmptyGauge().DataPoints()
			} else {
				s := om.SetEmptySum()
				s.SetAggregationTemporality(temp)
				s.SetIsMonotonic(m.Monotonic)
				dps = s.DataPoints()
			}
			for _, p := range m.Points {
				dp := dps.AppendEmpty()
				setCommon(dp.Attributes(), p)
				dp.SetTimestamp(pcommon.Timestamp(p.TsNs))
				dp.SetStartTimestamp(pcommon.Timestamp(p.StNs))
				dp.SetFlags(flags(p))
				v := p.DblV
				if p.IsInt {
					dp.SetIntValue(p.IntV)
					v = gen.B(float64(p.IntV))
				} else {
					dp.SetDoubleValue(gen.F(p.DblV))
				}
				if !dropped {
					add(p.Attrs, c43Want{name: m.Name, st: c43Ms(p.StNs), t: c43Ms(p.TsNs), stale: p.NoRecorded, v: v})
				}
			}
		case "exphist":
			eh := om.SetEmptyExponentialHistogram()
			eh.SetAggregationTemporality(temp)
			for _, p := range m.Points {
				dp := eh.DataPoints().AppendEmpty()
				setCommon(dp.Attributes(), p)
				dp.SetTimestamp(pcommon.Timestamp(p.TsNs))
				dp.SetStartTimestamp(pcommon.Timestamp(p.StNs))
				dp.SetFlags(flags(p))
				dp.SetScale(p.Scale)
				dp.SetZeroCount(p.ZeroCount)
				dp.SetZeroThreshold(gen.F(p.ZeroThr))
				dp.Positive().SetOffset(p.PosOff)
				dp.Positive().BucketCounts().FromRaw(append([]uint64(nil), p.Pos...))
				dp.Negative().SetOffset(p.NegOff)
				dp.Negative().BucketCounts().FromRaw(append([]uint64(nil), p.Neg...))
				count := p.ZeroCount
				for _, x := range p.Pos {
					count += x
				}
				for _, x := range p.Neg {
					count += x
				}
				dp.SetCount(count)
				sum := uint64(0)
				if p.HasSum {
					dp.SetSum(gen.F(p.Sum))
					sum = p.Sum
				}
				schema := p.Scale
				if schema > 8 {
					schema = 8
				}
				w := c43Want{name: m.Name, st: c43Ms(p.StNs), t: c43Ms(p.TsNs), stale: p.NoRecorded, isHist: true, schema: schema, gauge: delta,
					count: count, sum: sum, zero: p.ZeroCount, pos: c43Rebucket(p.PosOff, p.Pos, p.Scale), neg: c43Rebucket(p.NegOff, p.Neg, p.Scale),
					srcScale: p.Scale, srcPos: p.Pos, srcNeg: p.Neg}
				if !dropped {
					add(p.Attrs, w)
					zeroRun := func(cs []uint64) bool {
						seen, gap := false, false
						for _, x := range cs {
							if x != 0 {
								if seen && gap {
									return true
								}
								seen, gap = true, false
							} else if seen {
								gap = true
							}
						}
						return false
					}
					if (p.Scale > 8 && ((len(p.Pos) > 0 && p.PosOff < 0) || (len(p.Neg) > 0 && p.NegOff < 0))) || zeroRun(p.Pos) || zeroRun(p.Neg) {
						nontrivial = true
					}
					if p.Scale > 8 {
						r.Class("scale>8")
					}
				}
			}
		case "hist":
			hh := om.SetEmptyHistogram()
			hh.SetAggregationTemporality(temp)
			for _, p := range m.Points {
				dp := hh.DataPoints().AppendEmpty()
				setCommon(dp.Attributes(), p)
				dp.SetTimestamp(pcommon.Timestamp(p.TsNs))
				dp.SetStartTimestamp(pcommon.Timestamp(p.StNs))
				dp.SetFlags(flags(p))
				bounds := make([]float64, len(p.Bounds))
				for i, b := range p.Bounds {
					bounds[i] = gen.F(b)
				}
				dp.ExplicitBounds().FromRaw(bounds)
				dp.BucketCounts().FromRaw(append([]uint64(nil), p.Buckets...))
				count := uint64(0)
				for _, x := range p.Buckets {
					count += x
				}
				dp.SetCount(count)
				sum := uint64(0)
				if p.HasSum {
					dp.SetSum(gen.F(p.Sum))
					sum = p.Sum
				}
				if dropped {
					continue
				}
				st, ts := c43Ms(p.StNs), c43Ms(p.TsNs)
				if c.NHCB {
					w := c43Want{name: m.Name, st: st, t: ts, stale: p.NoRecorded, isHist: true, schema: histogram.CustomBucketsSchema, gauge: delta,
						count: count, sum: sum, pos: map[int64]uint64{}, neg: map[int64]uint64{}, custom: p.Bounds}
					for i, x := range p.Buckets {
						if x != 0 {
							w.pos[int64(i)] = x
						}
					}
					add(p.Attrs, w)
					r.Class("nhcb")
					continue
				}
				r.Class("classic")
				if p.HasSum {
					add(p.Attrs, c43Want{name: m.Name + "_sum", st: st, t: ts, stale: p.NoRecorded, v: p.Sum})
				}
				add(p.Attrs, c43Want{name: m.Name + "_count", st: st, t: ts, stale: p.NoRecorded, v: gen.B(float64(count))})
				cum := uint64(0)
				for i := 0; i < len(p.Bounds) && i < len(p.Buckets); i++ {
					cum += p.Buckets[i]
					add(p.Attrs, c43Want{name: m.Name + "_bucket", extra: map[string]string{}, leVal: gen.F(p.Bounds[i]), st: st, t: ts, stale: p.NoRecorded, v: gen.B(float64(cum))})
				}
				add(p.Attrs, c43Want{name: m.Name + "_bucket", extra: map[string]string{}, leInf: true, st: st, t: ts, stale: p.NoRecorded, v: gen.B(float64(count))})
			}
		}
	}

	app := &c43App{}
	conv := prometheusremotewrite.NewPrometheusConverter(app)
	_, err := conv.FromMetrics(context.Background(), md, prometheusremotewrite.Settings{
		DisableTargetInfo:       true,
		AddMetricSuffixes:       false,
		ConvertHistogramsToNHCB: c.NHCB,
		AllowDeltaTemporality:   c.AllowDelta,
	})
	if wantErr != (err != nil) {
		return ev.Failf("FromMetrics error = %v, expected an error: %v (metrics with a temporality that is not accepted are rejected, everything else converts)", err, wantErr)
	}

	var known error
	// group what was appended by series, classic bucket series by their numeric le
	gotBy := map[string][]c43Rec{}
	for _, g := range app.got {
		l := gen.FromLabels(g.ls)
		key := ""
		var rest gen.Lset
		le := ""
		hasLe := false
		for _, p := range l {
			if p[0] == "le" {
				le, hasLe = p[1], true
				continue
			}
			rest = append(rest, p)
		}
		key = rest.Key()
		if hasLe {
			if le == "+Inf" {
				key += "|le=+Inf"
			} else {
				f, perr := strconv.ParseFloat(le, 64)
				if perr != nil {
					return ev.Failf("appended series %s has an le label that is not a number", g.ls)
				}
				key += fmt.Sprintf("|le=%016x", gen.B(f))
			}
		}
		gotBy[key] = append(gotBy[key], g)
	}
	if len(app.got) != wantTotal {
		return ev.Failf("converter appended %d samples, the data points describe %d (%s)", len(app.got), wantTotal, c43Summary(app.got))
	}
	for key, ws := range want {
		gs := gotBy[key]
		if len(gs) != len(ws) {
			return ev.Failf("series %q: expected %d samples, converter appended %d (%s)", key, len(ws), len(gs), c43Summary(app.got))
		}
		for i, w := range ws {
			g := gs[i]
			where := fmt.Sprintf("series %s sample %d", g.ls, i)
			if g.t != w.t || g.st != w.st {
				return ev.Failf("%s: timestamp/start %d/%d, data point has %d/%d ms", where, g.t, g.st, w.t, w.st)
			}
			if !w.isHist {
				if g.h != nil || g.fh != nil {
					return ev.Failf("%s: expected a float sample, got a histogram", where)
				}
				if w.stale {
					if gen.B(g.v) != gen.StaleNaNBits {
						return ev.Failf("%s: data point has no recorded value, appended %v (bits %x) instead of a staleness marker", where, g.v, gen.B(g.v))
					}
					continue
				}
				if gen.B(g.v) != w.v {
					return ev.Failf("%s: value bits %016x (%v), data point has %016x (%v)", where, gen.B(g.v), g.v, w.v, gen.F(w.v))
				}
				continue
			}
			if g.h == nil {
				return ev.Failf("%s: expected an integer native histogram, got float=%v fh=%v", where, g.v, g.fh)
			}
			h := g.h
			if w.stale {
				if gen.B(h.Sum) != gen.StaleNaNBits {
					return ev.Failf("%s: data point has no recorded value, histogram sum is %v instead of the staleness marker", where, h.Sum)
				}
				continue
			}
			if h.Schema != w.schema {
				return ev.Failf("%s: schema %d, expected %d", where, h.Schema, w.schema)
			}
			if (h.CounterResetHint == histogram.GaugeType) != w.gauge {
				return ev.Failf("%s: counter reset hint %v, delta temporality %v", where, h.CounterResetHint, w.gauge)
			}
			if h.Count != w.count || gen.B(h.Sum) != w.sum || h.ZeroCount != w.zero {
				return ev.Failf("%s: count/sum/zero count %d/%v/%d, data point has %d/%v/%d", where, h.Count, h.Sum, h.ZeroCount, w.count, gen.F(w.sum), w.zero)
			}
			pm, perr := c43IntMap(h.PositiveSpans, h.PositiveBuckets)
			if perr != nil {
				return ev.Failf("%s: positive buckets malformed: %v (spans %v deltas %v)", where, perr, h.PositiveSpans, h.PositiveBuckets)
			}
			nm, nerr := c43IntMap(h.NegativeSpans, h.NegativeBuckets)
			if nerr != nil {
				return ev.Failf("%s: negative buckets malformed: %v (spans %v deltas %v)", where, nerr, h.NegativeSpans, h.NegativeBuckets)
			}
			for _, side := range []struct {
				name      string
				got, want map[int64]uint64
				spans     []histogram.Span
				deltas    []int64
				src       []uint64
			}{{"positive", pm, w.pos, h.PositiveSpans, h.PositiveBuckets, w.srcPos}, {"negative", nm, w.neg, h.NegativeSpans, h.NegativeBuckets, w.srcNeg}} {
				if c43MapEq(side.got, side.want) {
					continue
				}
				if w.srcScale > 8 && c43ZeroBeforeNonZero(side.src) && c43Total(side.got) == c43Total(side.want) {
					// Root cause: when merging buckets to schema 8, convertBucketsLayout skips a
					// merged bucket whose count is zero without advancing its current target index,
					// so the next populated target bucket is flushed too early / at the wrong index.
					if known == nil {
						known = ev.FailSig("otlp-exphist-downscale-after-zero-bucket-misplaces-counts",
							"%s: %s buckets %v (spans %v deltas %v), re-bucketing the data point (scale %d, counts %v) gives %v: counts after an empty merged bucket land in the wrong target bucket",
							where, side.name, side.got, side.spans, side.deltas, w.srcScale, side.src, side.want)
					}
					continue
				}
				return ev.Failf("%s: %s buckets %v (spans %v deltas %v), re-bucketing the data point gives %v", where, side.name, side.got, side.spans, side.deltas, side.want)
			}
			if w.schema == histogram.CustomBucketsSchema {
				if len(h.CustomValues) != len(w.custom) {
					return ev.Failf("%s: custom bounds %v, explicit bounds %d", where, h.CustomValues, len(w.custom))
				}
				for j := range w.custom {
					if gen.B(h.CustomValues[j]) != w.custom[j] {
						return ev.Failf("%s: custom bound %d is %v, explicit bound %v", where, j, h.CustomValues[j], gen.F(w.custom[j]))
					}
				}
			}
			if verr := h.Validate(); verr != nil {
				return ev.Failf("%s: converted histogram is not a valid native histogram: %v", where, verr)
			}
		}
	}
	if nontrivial {
		r.NonTrivial()
	}
	return known
}

func c43Summary(got []c43Rec) string {
	s := ""
	for i, g := range got {
		if i > 12 {
			s += " ..."
			break
		}
		s += fmt.Sprintf(" %s@%d", g.ls, g.t)
	}
	return s
}

func TestC43(t *testing.T) {
	ev.Check(t, "C43",
		"pmetric.Metrics with 1-4 metrics (gauge, sum monotonic/not, explicit-bucket histogram, exponential histogram; cumulative/delta/unspecified temporality; 1-3 data points with attributes, ns timestamps, start timestamps, NoRecordedValue) — exponential points with scale -4..20, offsets from ±2^28 down to 0, 0-70 counts with zero runs, zero count; explicit points with 0-8 bounds; settings NHCB on/off, delta allowed or not — converted by PrometheusConverter.FromMetrics into a recording AppenderV2 and compared with an independent re-bucketing (target index = floor((offset+i)/2^(scale-8))+1) and de-cumulation. Non-trivial: an exponential point with scale > 8 and a negative offset, or a zero run between two populated buckets; distinct by hash of the case.",
		genC43, runC43)
}
