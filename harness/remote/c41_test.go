package remote

import (
	"bytes"
	"context"
	"fmt"
	"math"
	"net/http"
	"net/http/httptest"
	"os"
	"sort"
	"strconv"
	"strings"
	"testing"
	"unicode/utf8"

	"github.com/golang/snappy"
	remoteapi "github.com/prometheus/client_golang/exp/api/remote"
	"github.com/prometheus/common/model"
	"github.com/prometheus/common/promslog"
	"pgregory.net/rapid"

	"github.com/prometheus/prometheus/model/histogram"
	"github.com/prometheus/prometheus/model/labels"
	"github.com/prometheus/prometheus/prompb"
	writev2 "github.com/prometheus/prometheus/prompb/io/prometheus/write/v2"
	promremote "github.com/prometheus/prometheus/storage/remote"
	"github.com/prometheus/prometheus/tsdb"
	"github.com/prometheus/prometheus/tsdb/chunkenc"

	"verifharness/internal/ev"
	"verifharness/internal/gen"
)

// C41 — Remote write receivers store exactly what they report as written.
//
// Part "handler": generated protocol 1.0 / 2.0 requests through NewWriteHandler into a
// real TSDB; storage is dumped before/after every request and the diff is compared with
// a reference written from the property text (soundness / accounting / completeness /
// rejection). Part "codec" (further below): encode→decode round trips of both messages.

const (
	c41T0     int64 = 1_700_000_000_000 // well in the past: never "too far in the future"
	c41Hour   int64 = 3_600_000
	c41Future int64 = 7_000_000_000_000 // year ~2191: always rejected by the receiver's max-ahead guard
)

type c41Sample struct {
	T, ST int64
	V     uint64
}

type c41HistS struct {
	T, ST int64
	H     gen.Hist
	Bad   bool `json:",omitempty"` // span with negative offset appended => histogram validation error
}

type c41Ex struct {
	L      gen.Lset
	T      int64
	V      uint64
	BadRef bool `json:",omitempty"` // v2: label ref outside the symbol table
}

type c41Series struct {
	L      [][2]string // as sent: order, duplicates, empty names/values preserved
	LClass string
	S      []c41Sample `json:",omitempty"`
	H      []c41HistS  `json:",omitempty"`
	E      []c41Ex     `json:",omitempty"`
	MType  int32
	Help   string
	Unit   string
	BadRef int `json:",omitempty"` // v2: 1 label ref out of table, 2 odd number of refs, 3 metadata ref out of table
}

type c41Req struct {
	Series []c41Series
}

type c41Case struct {
	Proto      int // 1 or 2
	OOO        bool
	STZero     bool
	AppendMeta bool
	Reqs       []c41Req
}

var c41LabelClasses = []string{"ok", "ok", "ok", "ok", "ok", "ok", "unsorted", "emptyvalue", "utf8name", "noname", "dupname", "emptyname", "badutf8", "emptyset", "emptymetric"}

func genC41Labels(t *rapid.T) ([][2]string, string) {
	base := gen.SmallLset(true, 2).Draw(t, "ls")
	l := make([][2]string, len(base))
	copy(l, base)
	class := rapid.SampledFrom(c41LabelClasses).Draw(t, "lclass")
	switch class {
	case "unsorted":
		if len(l) >= 2 {
			l[0], l[len(l)-1] = l[len(l)-1], l[0]
		}
	case "emptyvalue":
		l = append(l, [2]string{"zzz", ""})
	case "utf8name":
		l = append(l, [2]string{"ü.x", "v"})
	case "noname":
		l = l[1:] // __name__ sorts first in SmallLset output
	case "dupname":
		v := rapid.SampledFrom([]string{"a", "b"}).Draw(t, "dupv")
		if len(l) >= 2 {
			l = append(l, [2]string{l[len(l)-1][0], v})
		} else {
			l = append(l, [2]string{"a", v}, [2]string{"a", "b"})
		}
	case "emptyname":
		l = append(l, [2]string{"", "x"})
	case "badutf8":
		if rapid.Bool().Draw(t, "badname") {
			l = append(l, [2]string{"a\xffb", "x"})
		} else {
			l = append(l, [2]string{"zz", "x\xff"})
		}
	case "emptyset":
		l = nil
	case "emptymetric":
		l[0][1] = ""
	}
	return l, class
}

func genC41TS(t *rapid.T, cur *int64, label string) int64 {
	switch rapid.IntRange(0, 60).Draw(t, label+"c") {
	case 0:
		if rapid.Bool().Draw(t, label+"old") {
			return c41T0 - 3*c41Hour
		}
		return c41Future
	case 1, 2:
		return *cur // duplicate timestamp
	case 3, 4:
		return *cur - int64(rapid.IntRange(1, 4).Draw(t, label+"back"))
	default:
		*cur += int64(rapid.IntRange(1, 3).Draw(t, label+"adv"))
		return *cur
	}
}

func genC41ST(t *rapid.T, ts, prev int64) int64 {
	switch rapid.IntRange(0, 9).Draw(t, "stc") {
	case 0, 1:
		return ts - int64(rapid.IntRange(1, 5).Draw(t, "stback"))
	case 2:
		return prev
	case 3:
		return ts + int64(rapid.IntRange(0, 2).Draw(t, "stfwd")) // not older than the sample: ignored by receivers
	default:
		return 0
	}
}

func genC41Series(t *rapid.T, proto int) c41Series {
	var s c41Series
	s.L, s.LClass = genC41Labels(t)
	cur := c41T0 + int64(rapid.IntRange(0, 12).Draw(t, "t0"))
	var prevST int64
	kind := rapid.IntRange(0, 9).Draw(t, "skind") // 0 empty, 1-5 floats, 6-7 hists, 8-9 mixed
	if kind >= 1 && kind <= 5 || kind >= 8 {
		n := rapid.IntRange(1, 5).Draw(t, "nf")
		for i := 0; i < n; i++ {
			ts := genC41TS(t, &cur, "ft")
			smp := c41Sample{T: ts, V: gen.FloatBits().Draw(t, "v")}
			if rapid.IntRange(0, 3).Draw(t, "samev") == 0 && i > 0 {
				smp.V = s.S[i-1].V
			}
			if proto == 2 {
				smp.ST = genC41ST(t, ts, prevST)
				prevST = smp.ST
			}
			s.S = append(s.S, smp)
		}
	}
	if kind >= 6 {
		n := rapid.IntRange(1, 3).Draw(t, "nh")
		float := rapid.Bool().Draw(t, "hfloat")
		for i := 0; i < n; i++ {
			ts := genC41TS(t, &cur, "ht")
			if rapid.IntRange(0, 5).Draw(t, "flip") == 0 {
				float = !float
			}
			h := c41HistS{T: ts, H: gen.Histogram(gen.HistOpts{Float: float, AllowCustom: true, AllowGauge: true, MaxBuckets: 4}).Draw(t, "h")}
			if rapid.IntRange(0, 3).Draw(t, "sameh") == 0 && i > 0 {
				h.H = s.H[i-1].H
			}
			h.Bad = rapid.IntRange(0, 14).Draw(t, "badh") == 0
			if proto == 2 {
				h.ST = genC41ST(t, ts, prevST)
				prevST = h.ST
			}
			s.H = append(s.H, h)
		}
	}
	ne := rapid.SampledFrom([]int{0, 0, 0, 1, 2, 3}).Draw(t, "ne")
	ecur := c41T0 + int64(rapid.IntRange(0, 12).Draw(t, "et0"))
	for i := 0; i < ne; i++ {
		e := c41Ex{T: genC41TS(t, &ecur, "et"), V: gen.FloatBits().Draw(t, "ev")}
		switch rapid.IntRange(0, 9).Draw(t, "elc") {
		case 0:
			e.L = gen.Lset{{"trace_id", strings.Repeat("x", 130)}} // over the 128 rune limit
		case 1:
			e.L = nil
		default:
			e.L = gen.Lset{{"trace_id", rapid.SampledFrom([]string{"a", "b", "c"}).Draw(t, "tid")}}
		}
		if i > 0 && rapid.IntRange(0, 3).Draw(t, "samee") == 0 {
			e = s.E[i-1]
		}
		if proto == 2 && rapid.IntRange(0, 19).Draw(t, "ebad") == 0 {
			e.BadRef = true
		}
		s.E = append(s.E, e)
	}
	s.MType = int32(rapid.IntRange(0, 7).Draw(t, "mtype"))
	s.Help = rapid.SampledFrom([]string{"", "help", "h2"}).Draw(t, "help")
	s.Unit = rapid.SampledFrom([]string{"", "seconds", "bytes"}).Draw(t, "unit")
	if proto == 2 {
		s.BadRef = rapid.SampledFrom([]int{0, 0, 0, 0, 0, 0, 0, 0, 0, 0, 0, 0, 0, 0, 0, 0, 1, 2, 3}).Draw(t, "badref")
	}
	return s
}

func genC41(t *rapid.T) c41Case {
	c := c41Case{
		Proto:      rapid.IntRange(1, 2).Draw(t, "proto"),
		OOO:        rapid.IntRange(0, 2).Draw(t, "ooo") == 0,
		AppendMeta: rapid.Bool().Draw(t, "appendmeta"),
	}
	if c.Proto == 2 {
		c.STZero = rapid.IntRange(0, 3).Draw(t, "stzero") == 0
	}
	nreq := rapid.IntRange(1, 3).Draw(t, "nreq")
	for i := 0; i < nreq; i++ {
		var rq c41Req
		ns := rapid.IntRange(0, 5).Draw(t, "nseries")
		for j := 0; j < ns; j++ {
			rq.Series = append(rq.Series, genC41Series(t, c.Proto))
		}
		c.Reqs = append(c.Reqs, rq)
	}
	return c
}

// ---- reference side -------------------------------------------------------------

// c41Val is the comparable form of one stored or requested value.
type c41Val struct {
	repr string // "f:<bits>", "ih:<...>", "fh:<...>", "stale"
	kind byte   // 'f' float, 'h' histogram (either flavour)
	zero bool   // float 0 or histogram with no observations (what an ST zero injection produces)
}

func c41FloatVal(bits uint64) c41Val {
	if bits == gen.StaleNaNBits {
		return c41Val{repr: "stale", kind: 'f'}
	}
	return c41Val{repr: fmt.Sprintf("f:%016x", bits), kind: 'f', zero: bits == 0}
}

func c41MapStr(m map[int32]float64) string {
	ks := make([]int, 0, len(m))
	for k := range m {
		ks = append(ks, int(k))
	}
	sort.Ints(ks)
	var sb strings.Builder
	for _, k := range ks {
		fmt.Fprintf(&sb, "%d=%x,", k, math.Float64bits(m[int32(k)]))
	}
	return sb.String()
}

func c41FHVal(flavour string, fh *histogram.FloatHistogram) c41Val {
	if math.Float64bits(fh.Sum) == gen.StaleNaNBits {
		return c41Val{repr: "stale", kind: 'h'}
	}
	var cv strings.Builder
	for _, v := range fh.CustomValues {
		fmt.Fprintf(&cv, "%x,", math.Float64bits(v))
	}
	gauge := fh.CounterResetHint == histogram.GaugeType
	r := fmt.Sprintf("%s:g%v:s%d:zt%x:zc%x:c%x:sum%x:cv[%s]:p[%s]:n[%s]", flavour, gauge, fh.Schema, math.Float64bits(fh.ZeroThreshold),
		math.Float64bits(fh.ZeroCount), math.Float64bits(fh.Count), math.Float64bits(fh.Sum), cv.String(),
		c41MapStr(gen.BucketMap(fh.PositiveSpans, fh.PositiveBuckets)), c41MapStr(gen.BucketMap(fh.NegativeSpans, fh.NegativeBuckets)))
	return c41Val{repr: r, kind: 'h', zero: fh.Count == 0 && fh.Sum == 0}
}

func c41HistVal(h gen.Hist) c41Val {
	if h.Float {
		return c41FHVal("fh", h.FloatH())
	}
	return c41FHVal("ih", h.Int().ToFloat(nil))
}

type c41Store struct {
	samples   map[string]map[int64]c41Val
	exemplars map[string]map[string]int
	exTs      map[string]map[int64]bool // series -> exemplar timestamps present
}

func c41ExKey(l labels.Labels, ts int64, hasTs bool, v float64) string {
	return fmt.Sprintf("%s|%d|%v|%016x", gen.FromLabels(l).Key(), ts, hasTs, math.Float64bits(v))
}

var c41All = labels.MustNewMatcher(labels.MatchRegexp, "__name__", ".*")

func c41Dump(db *tsdb.DB) (*c41Store, error) {
	st := &c41Store{samples: map[string]map[int64]c41Val{}, exemplars: map[string]map[string]int{}, exTs: map[string]map[int64]bool{}}
	q, err := db.Querier(math.MinInt64, math.MaxInt64)
	if err != nil {
		return nil, err
	}
	defer q.Close()
	ss := q.Select(context.Background(), true, nil, c41All)
	var it chunkenc.Iterator
	for ss.Next() {
		s := ss.At()
		key := gen.FromLabels(s.Labels()).Key()
		m := st.samples[key]
		if m == nil {
			m = map[int64]c41Val{}
			st.samples[key] = m
		}
		it = s.Iterator(it)
		for vt := it.Next(); vt != chunkenc.ValNone; vt = it.Next() {
			switch vt {
			case chunkenc.ValFloat:
				t, v := it.At()
				m[t] = c41FloatVal(math.Float64bits(v))
			case chunkenc.ValHistogram:
				t, h := it.AtHistogram(nil)
				m[t] = c41FHVal("ih", h.ToFloat(nil))
			case chunkenc.ValFloatHistogram:
				t, fh := it.AtFloatHistogram(nil)
				m[t] = c41FHVal("fh", fh)
			}
		}
		if it.Err() != nil {
			return nil, it.Err()
		}
	}
	if ss.Err() != nil {
		return nil, ss.Err()
	}
	eq, err := db.ExemplarQuerier(context.Background())
	if err != nil {
		return nil, err
	}
	res, err := eq.Select(math.MinInt64, math.MaxInt64, []*labels.Matcher{c41All})
	if err != nil {
		return nil, err
	}
	for _, r := range res {
		key := gen.FromLabels(r.SeriesLabels).Key()
		m := st.exemplars[key]
		if m == nil {
			m = map[string]int{}
			st.exemplars[key] = m
		}
		if st.exTs[key] == nil {
			st.exTs[key] = map[int64]bool{}
		}
		for _, e := range r.Exemplars {
			m[c41ExKey(e.Labels, e.Ts, e.HasTs, e.Value)]++
			st.exTs[key][e.Ts] = true
		}
	}
	return st, nil
}

// c41Decoded is what the reference understands of one TimeSeries entry.
type c41Decoded struct {
	mayStore  bool   // label set decodable and valid: storing its data is allowed
	mustStore bool   // nothing wrong with the entry at all: its acceptable samples must be stored on 2xx
	key       string // stored series identity (labels sorted, empty values dropped)
}

// c41Decode applies the validity rules of the property text (independently of the
// receiver): label names non-empty valid UTF-8 and unique, values valid UTF-8, a
// non-empty metric name; 2.0 references inside the symbol table and in pairs.
func c41Decode(s c41Series, proto int) c41Decoded {
	var d c41Decoded
	if proto == 2 && (s.BadRef == 1 || s.BadRef == 2) {
		return d
	}
	seen := map[string]bool{}
	hasName := false
	var stored gen.Lset
	for _, p := range s.L {
		if p[0] == "" || !utf8.ValidString(p[0]) || !utf8.ValidString(p[1]) || seen[p[0]] {
			return d
		}
		seen[p[0]] = true
		if p[0] == "__name__" {
			if p[1] == "" {
				return d
			}
			hasName = true
		}
		if p[1] != "" {
			stored = append(stored, p)
		}
	}
	if !hasName {
		return d
	}
	d.mayStore = true
	d.key = stored.Key()
	d.mustStore = !(proto == 2 && s.BadRef == 3)
	if proto == 2 && len(s.S) == 0 && len(s.H) == 0 {
		d.mustStore = false
	}
	return d
}

// ---- request building -----------------------------------------------------------

type c41Symbols struct {
	tab []string
	idx map[string]uint32
}

func (s *c41Symbols) ref(str string) uint32 {
	if s.idx == nil {
		s.idx = map[string]uint32{"": 0}
		s.tab = []string{""}
	}
	if r, ok := s.idx[str]; ok {
		return r
	}
	r := uint32(len(s.tab))
	s.tab = append(s.tab, str)
	s.idx[str] = r
	return r
}

// c41NoNegZero maps -0 to +0: the generated marshalling code of both messages omits a
// float field that compares equal to zero, so the sender side of this part cannot put -0
// on the wire. The loss itself is a codec matter and is checked in part "codec".
func c41NoNegZero(b uint64) uint64 {
	if b == 0x8000000000000000 {
		return 0
	}
	return b
}

func c41BadSpans(ps []histogram.Span) []histogram.Span {
	return append(append([]histogram.Span(nil), ps...), histogram.Span{Offset: 0, Length: 0}, histogram.Span{Offset: -1, Length: 0})
}

func c41BuildV1(rq c41Req, floatBits func(si int, b uint64) uint64) ([]byte, error) {
	var wr prompb.WriteRequest
	for si, s := range rq.Series {
		ts := prompb.TimeSeries{}
		for _, p := range s.L {
			ts.Labels = append(ts.Labels, prompb.Label{Name: p[0], Value: p[1]})
		}
		for _, x := range s.S {
			ts.Samples = append(ts.Samples, prompb.Sample{Timestamp: x.T, Value: gen.F(floatBits(si, x.V))})
		}
		for _, x := range s.H {
			if x.H.Float {
				fh := x.H.FloatH()
				if x.Bad {
					fh.PositiveSpans = c41BadSpans(fh.PositiveSpans)
				}
				ts.Histograms = append(ts.Histograms, prompb.FromFloatHistogram(x.T, fh))
			} else {
				h := x.H.Int()
				if x.Bad {
					h.PositiveSpans = c41BadSpans(h.PositiveSpans)
				}
				ts.Histograms = append(ts.Histograms, prompb.FromIntHistogram(x.T, h))
			}
		}
		for _, e := range s.E {
			pe := prompb.Exemplar{Timestamp: e.T, Value: gen.F(c41NoNegZero(e.V))}
			for _, p := range e.L {
				pe.Labels = append(pe.Labels, prompb.Label{Name: p[0], Value: p[1]})
			}
			ts.Exemplars = append(ts.Exemplars, pe)
		}
		wr.Timeseries = append(wr.Timeseries, ts)
	}
	return wr.Marshal()
}

func c41BuildV2(rq c41Req, floatBits func(si int, b uint64) uint64, optimized bool) ([]byte, error) {
	var sym c41Symbols
	sym.ref("")
	var wr writev2.Request
	type fix struct {
		si, kind, ei int
	}
	var fixes []fix
	for si, s := range rq.Series {
		ts := writev2.TimeSeries{}
		for _, p := range s.L {
			ts.LabelsRefs = append(ts.LabelsRefs, sym.ref(p[0]), sym.ref(p[1]))
		}
		switch s.BadRef {
		case 1:
			fixes = append(fixes, fix{si, 1, 0})
		case 2:
			if len(ts.LabelsRefs) == 0 {
				ts.LabelsRefs = append(ts.LabelsRefs, sym.ref("a"))
			} else {
				ts.LabelsRefs = ts.LabelsRefs[:len(ts.LabelsRefs)-1]
			}
		case 3:
			fixes = append(fixes, fix{si, 3, 0})
		}
		for _, x := range s.S {
			ts.Samples = append(ts.Samples, writev2.Sample{Timestamp: x.T, StartTimestamp: x.ST, Value: gen.F(floatBits(si, x.V))})
		}
		for _, x := range s.H {
			if x.H.Float {
				fh := x.H.FloatH()
				if x.Bad {
					fh.PositiveSpans = c41BadSpans(fh.PositiveSpans)
				}
				ts.Histograms = append(ts.Histograms, writev2.FromFloatHistogram(x.ST, x.T, fh))
			} else {
				h := x.H.Int()
				if x.Bad {
					h.PositiveSpans = c41BadSpans(h.PositiveSpans)
				}
				ts.Histograms = append(ts.Histograms, writev2.FromIntHistogram(x.ST, x.T, h))
			}
		}
		for ei, e := range s.E {
			pe := writev2.Exemplar{Timestamp: e.T, Value: gen.F(c41NoNegZero(e.V))}
			for _, p := range e.L {
				pe.LabelsRefs = append(pe.LabelsRefs, sym.ref(p[0]), sym.ref(p[1]))
			}
			if e.BadRef {
				fixes = append(fixes, fix{si, 4, ei})
			}
			ts.Exemplars = append(ts.Exemplars, pe)
		}
		ts.Metadata = writev2.Metadata{Type: writev2.Metadata_MetricType(s.MType), HelpRef: sym.ref(s.Help), UnitRef: sym.ref(s.Unit)}
		wr.Timeseries = append(wr.Timeseries, ts)
	}
	n := uint32(len(sym.tab))
	for _, f := range fixes {
		ts := &wr.Timeseries[f.si]
		switch f.kind {
		case 1:
			if len(ts.LabelsRefs) == 0 {
				ts.LabelsRefs = []uint32{n, 0}
			} else {
				ts.LabelsRefs[len(ts.LabelsRefs)-1] = n // first index outside the table
			}
		case 3:
			ts.Metadata.HelpRef = n + 3
		case 4:
			ts.Exemplars[f.ei].LabelsRefs = []uint32{n, 0}
		}
	}
	wr.Symbols = sym.tab
	if optimized {
		return wr.OptimizedMarshal(nil)
	}
	return wr.Marshal()
}

// ---- the check --------------------------------------------------------------------

type c41Entry struct {
	key     string
	t, st   int64
	val     c41Val
	series  int
	inReqLE bool // an earlier entry of the same stored series in this request has t' >= t
	oooLate bool // t is below the newest sample the series holds when the entry is processed
}

func c41Header(rec *httptest.ResponseRecorder, name string) (int, bool) {
	v := rec.Header().Get(name)
	if v == "" {
		return 0, false
	}
	n, err := strconv.Atoi(v)
	return n, err == nil
}

// c41TempDir makes the scratch directory of one case. A TSDB open/commit/close cycle is
// dominated by fsync; on tmpfs it is ~4x faster than on the disk behind TMPDIR, so
// /dev/shm is preferred when it exists (the directory is removed at the end of the case).
func c41TempDir(prefix string) (string, error) {
	if os.Getenv("VERIF_NO_SHM") == "" {
		if fi, err := os.Stat("/dev/shm"); err == nil && fi.IsDir() {
			if d, err := os.MkdirTemp("/dev/shm", "verif-"+prefix+"-"); err == nil {
				return d, nil
			}
		}
	}
	return os.MkdirTemp("", prefix)
}

func runC41(c c41Case, r *ev.Rec) error {
	dir, err := c41TempDir("c41")
	if err != nil {
		return err
	}
	defer os.RemoveAll(dir)
	opts := tsdb.DefaultOptions()
	opts.StripeSize = 64
	opts.EnableExemplarStorage = true
	opts.MaxExemplars = 10000
	opts.NoLockfile = true
	opts.WALSegmentSize = 64 * 1024
	opts.HeadChunksWriteBufferSize = 64 * 1024
	opts.EnableMetadataWALRecords = c.AppendMeta
	if c.OOO {
		opts.OutOfOrderTimeWindow = c41Hour
	}
	db, err := tsdb.Open(dir, promslog.NewNopLogger(), nil, opts, nil)
	if err != nil {
		return fmt.Errorf("harness: open tsdb: %w", err)
	}
	defer db.Close()
	db.DisableCompactions()

	msgs := remoteapi.MessageTypes{remoteapi.WriteV1MessageType, remoteapi.WriteV2MessageType}
	h := promremote.NewWriteHandler(promslog.NewNopLogger(), nil, db, msgs, c.STZero, false, c.AppendMeta)

	r.Class(fmt.Sprintf("proto:%d", c.Proto))
	if c.OOO {
		r.Class("ooo-window")
	}
	before, err := c41Dump(db)
	if err != nil {
		return fmt.Errorf("harness: dump: %w", err)
	}

	// A stale-marker float turns into a histogram stale marker when the series holds
	// histograms; keep the reference simple: such series get an ordinary NaN instead.
	histKeys := map[string]bool{}
	for _, rq := range c.Reqs {
		for _, s := range rq.Series {
			if d := c41Decode(s, c.Proto); d.mayStore && len(s.H) > 0 {
				histKeys[d.key] = true
			}
		}
	}

	var known error
	// Everything earlier requests offered per (series, timestamp): with an out-of-order window two
	// samples of one timestamp coexist and a later request can flip which of them queries show.
	sentBefore := map[string]map[int64]map[string]bool{}
	remember := func(key string, t int64, repr string) {
		if sentBefore[key] == nil {
			sentBefore[key] = map[int64]map[string]bool{}
		}
		if sentBefore[key][t] == nil {
			sentBefore[key][t] = map[string]bool{}
		}
		sentBefore[key][t][repr] = true
	}
	for ri, rq := range c.Reqs {
		decoded := make([]c41Decoded, len(rq.Series))
		for i, s := range rq.Series {
			decoded[i] = c41Decode(s, c.Proto)
		}
		floatBits := func(si int, b uint64) uint64 {
			if b == gen.StaleNaNBits && decoded[si].mayStore && histKeys[decoded[si].key] {
				return gen.NormalNaNBits
			}
			return c41NoNegZero(b)
		}
		var body []byte
		ctype := "application/x-protobuf"
		if c.Proto == 1 {
			body, err = c41BuildV1(rq, floatBits)
			if ri%2 == 1 {
				ctype = "application/x-protobuf;proto=prometheus.WriteRequest"
			}
		} else {
			body, err = c41BuildV2(rq, floatBits, ri%2 == 1)
			ctype = "application/x-protobuf;proto=io.prometheus.write.v2.Request"
		}
		if err != nil {
			return fmt.Errorf("harness: marshal: %w", err)
		}
		hreq := httptest.NewRequest(http.MethodPost, "/api/v1/write", bytes.NewReader(snappy.Encode(nil, body)))
		hreq.Header.Set("Content-Type", ctype)
		hreq.Header.Set("Content-Encoding", "snappy")
		rec := httptest.NewRecorder()
		h.ServeHTTP(rec, hreq)
		status := rec.Code
		after, err := c41Dump(db)
		if err != nil {
			return fmt.Errorf("harness: dump: %w", err)
		}
		r.Class(fmt.Sprintf("status:%dxx", status/100))
		where := fmt.Sprintf("request %d (proto %d, status %d, body %q)", ri, c.Proto, status, strings.TrimSpace(firstN(rec.Body.String(), 200)))

		if status/100 == 5 {
			return ev.Failf("%s: receiver answered 5xx to a request that only contains client-side problems", where)
		}

		// Entries of the request in processing order, per stored series.
		var fl, hs []c41Entry
		type exEntry struct {
			key, ek string
			t       int64
			inReqLT bool
		}
		var exs []exEntry
		lastT := map[string]int64{} // per stored series: max t seen so far in this request (samples+histograms)
		seenT := map[string]bool{}
		lastE := map[string]int64{}
		seenE := map[string]bool{}
		stZero := map[string]map[int64]bool{} // key -> ST values for which a zero sample may be injected
		nValid, nInvalid, nConflict := 0, 0, 0
		runMax := map[string]int64{} // newest timestamp per stored series while the request is processed
		runHas := map[string]bool{}
		for key, m := range before.samples {
			for t := range m {
				if !runHas[key] || t > runMax[key] {
					runMax[key] = t
				}
				runHas[key] = true
			}
		}
		late := func(key string, t int64) bool {
			l := runHas[key] && t < runMax[key]
			if t != c41Future && (!runHas[key] || t > runMax[key]) {
				runMax[key] = t
				runHas[key] = true
			}
			return l
		}
		for si, s := range rq.Series {
			d := decoded[si]
			r.Class("labels:" + s.LClass)
			if !d.mayStore {
				nInvalid++
				continue
			}
			nValid++
			note := func(t int64) bool {
				le := seenT[d.key] && lastT[d.key] >= t
				if !seenT[d.key] || t > lastT[d.key] {
					lastT[d.key] = t
				}
				seenT[d.key] = true
				if le {
					nConflict++
				}
				return le
			}
			// addST must be called before note(t) of the same entry: the zero sample is injected first
			// and takes part in the in-request ordering like any other sample.
			addST := func(st, t int64) {
				if c.STZero && st != 0 && t != 0 && st < t {
					if stZero[d.key] == nil {
						stZero[d.key] = map[int64]bool{}
					}
					stZero[d.key][st] = true
					if !seenT[d.key] || st > lastT[d.key] {
						lastT[d.key] = st
					}
					seenT[d.key] = true
				}
			}
			for _, x := range s.S {
				addST(x.ST, x.T)
				fl = append(fl, c41Entry{key: d.key, t: x.T, st: x.ST, val: c41FloatVal(floatBits(si, x.V)), series: si, inReqLE: note(x.T), oooLate: late(d.key, x.T)})
			}
			addEx := func() {
				for _, e := range s.E {
					if e.BadRef {
						continue
					}
					el := e.L.Labels()
					ek := c41ExKey(el, e.T, e.T != 0, gen.F(c41NoNegZero(e.V)))
					lt := seenE[d.key] && lastE[d.key] >= e.T // equal timestamps are ordered by value and label hash
					if !seenE[d.key] || e.T > lastE[d.key] {
						lastE[d.key] = e.T
					}
					seenE[d.key] = true
					exs = append(exs, exEntry{key: d.key, ek: ek, t: e.T, inReqLT: lt})
				}
			}
			addEx()
			for _, x := range s.H {
				// The zero sample for the start timestamp is injected before the histogram itself is
				// validated or checked against the max-ahead guard, so it may be stored for any entry.
				addST(x.ST, x.T)
				if x.Bad {
					continue // can never be stored; anything stored must be explained by another entry
				}
				hs = append(hs, c41Entry{key: d.key, t: x.T, st: x.ST, val: c41HistVal(x.H), series: si, inReqLE: note(x.T), oooLate: late(d.key, x.T)})
			}
		}
		if nValid > 0 && nInvalid > 0 {
			r.Class("mixed-valid-invalid")
			r.NonTrivial()
		}
		if nConflict > 0 {
			r.Class("in-request-dup-or-ooo")
			r.NonTrivial()
		}

		// (i) soundness + diff classification.
		explained := func(key string, t int64, v c41Val, list []c41Entry) bool {
			for _, e := range list {
				if e.key == key && e.t == t && e.val.repr == v.repr {
					return true
				}
			}
			return false
		}
		newF, newH := 0, 0 // new/changed stored samples that only a real request entry explains
		for key, m := range after.samples {
			for t, v := range m {
				if bv, ok := before.samples[key][t]; ok && bv.repr == v.repr {
					continue
				}
				real := explained(key, t, v, fl) || explained(key, t, v, hs)
				byST := v.zero && stZero[key][t]
				if _, existed := before.samples[key][t]; existed && c.OOO && !real && !byST && (sentBefore[key][t][v.repr] || (v.zero && sentBefore[key][t]["<st-zero>"])) {
					continue // the other one of two coexisting samples of this timestamp became visible
				}
				if !real && !byST {
					return ev.Failf("%s: soundness: stored %s at t=%d in series %q is not a sample of any valid series of the request", where, v.repr, t, key)
				}
				if real && !byST {
					if v.kind == 'f' {
						newF++
					} else {
						newH++
					}
				}
			}
		}
		for key, m := range before.samples {
			for t := range m {
				if _, ok := after.samples[key][t]; !ok {
					return ev.Failf("%s: sample at t=%d of series %q disappeared", where, t, key)
				}
			}
		}
		newE := 0
		for key, m := range after.exemplars {
			for ek, n := range m {
				d := n - before.exemplars[key][ek]
				if d <= 0 {
					continue
				}
				cnt := 0
				for _, e := range exs {
					if e.key == key && e.ek == ek {
						cnt++
					}
				}
				if cnt < d {
					return ev.Failf("%s: soundness: %d new stored exemplar(s) %q in series %q, the valid series of the request carry %d", where, d, ek, key, cnt)
				}
				newE += d
			}
		}

		// (iv) rejection: a failed 1.0 request stores nothing at all.
		if c.Proto == 1 && status/100 != 2 {
			if newF+newH+newE > 0 || !c41SameStore(before, after) {
				return ev.Failf("%s: protocol 1.0 request was answered with an error but changed the storage", where)
			}
		}

		// (ii) accounting (2.0 only).
		if c.Proto == 2 {
			present := func(list []c41Entry) (n, conflictMissing int) {
				for _, e := range list {
					av, ok := after.samples[e.key][e.t]
					if ok && (av.repr == e.val.repr || c.OOO) {
						// With an out-of-order window a late sample is stored in the out-of-order
						// chunk next to an in-order sample of the same timestamp (of this or an
						// earlier request); queries then show one of the two, so any value at that
						// timestamp counts as "present".
						n++
					} else if e.inReqLE {
						conflictMissing++
					}
				}
				return
			}
			presF, missF := present(fl)
			presH, missH := present(hs)
			presE, missE := 0, 0
			for _, e := range exs {
				if after.exemplars[e.key][e.ek] > 0 || (c.OOO && after.exTs[e.key][e.t]) {
					// with an out-of-order window an older exemplar whose timestamp is already
					// present is taken for a duplicate by the exemplar storage (documented no-op)
					presE++
				} else if e.inReqLT {
					missE++
				}
			}
			check := func(what, hdr string, lo, hi, conflictMissing int) error {
				n, ok := c41Header(rec, hdr)
				if !ok {
					return ev.Failf("%s: accounting: response header %s missing or malformed (%q)", where, hdr, rec.Header().Get(hdr))
				}
				if n < lo {
					return ev.Failf("%s: accounting: %s=%d but %d new %s were stored", where, hdr, n, lo, what)
				}
				if n > hi {
					if n-hi <= conflictMissing {
						// Root cause: the receiver counts a sample as written when Append succeeds, but
						// ordering inside one request is only checked at Commit, which drops silently.
						if known == nil {
							known = ev.FailSig("rw2-counts-in-request-ooo-dropped-at-commit",
								"%s: accounting: %s=%d but only %d of the request's %s are in storage afterwards; %d %s of the request are at or before an earlier entry of the same series in the same request and were dropped at commit although counted as written",
								where, hdr, n, hi, what, conflictMissing, what)
						}
						return nil
					}
					return ev.Failf("%s: accounting: %s=%d but only %d of the request's %s are in storage afterwards", where, hdr, n, hi, what)
				}
				return nil
			}
			if err := check("float samples", "X-Prometheus-Remote-Write-Samples-Written", newF, presF, missF); err != nil {
				return err
			}
			if err := check("histograms", "X-Prometheus-Remote-Write-Histograms-Written", newH, presH, missH); err != nil {
				return err
			}
			if err := check("exemplars", "X-Prometheus-Remote-Write-Exemplars-Written", newE, presE, missE); err != nil {
				return err
			}
		}

		// (iii) completeness on 2xx: replay the request in order against the stored state.
		if status/100 == 2 {
			maxT := map[string]int64{}
			has := map[string]bool{}
			for key, m := range before.samples {
				for t := range m {
					if !has[key] || t > maxT[key] {
						maxT[key] = t
					}
					has[key] = true
				}
			}
			// merge float and histogram entries back into per-series request order: series by
			// series, floats before histograms (the order every receiver must process them in).
			var ordered []c41Entry
			fi, hi := 0, 0
			for si := range rq.Series {
				for fi < len(fl) && fl[fi].series == si {
					ordered = append(ordered, fl[fi])
					fi++
				}
				for hi < len(hs) && hs[hi].series == si {
					ordered = append(ordered, hs[hi])
					hi++
				}
			}
			for _, e := range ordered {
				if !decoded[e.series].mustStore {
					continue
				}
				if e.t < c41T0 || e.t > c41T0+c41Hour/2 {
					continue // deliberately too old / too far in the future
				}
				av, ok := after.samples[e.key][e.t]
				switch {
				case !has[e.key] || e.t > maxT[e.key]:
					shadowed := c.OOO && stZero[e.key][e.t] // an injected start-timestamp zero sample of a later entry
					if c.OOO {
						// a later out-of-order entry with the same timestamp lands in the out-of-order
						// chunk; queries may show either of the two values
						for _, o := range ordered {
							if o.key == e.key && o.t == e.t && o.val.repr != e.val.repr {
								shadowed = true
							}
						}
					}
					if !ok || (av.repr != e.val.repr && !shadowed) {
						got := "nothing"
						if ok {
							got = av.repr
						}
						return ev.Failf("%s: completeness: in-order sample %s at t=%d of valid series %q (entry %d) was acknowledged but storage holds %s", where, e.val.repr, e.t, e.key, e.series, got)
					}
					maxT[e.key] = e.t
					has[e.key] = true
				case e.t < maxT[e.key] && c.OOO:
					if !ok {
						return ev.Failf("%s: completeness: out-of-order sample at t=%d of valid series %q inside the out-of-order window was acknowledged but storage holds nothing at that time", where, e.t, e.key)
					}
				}
			}
		}
		for _, e := range fl {
			remember(e.key, e.t, e.val.repr)
		}
		for _, e := range hs {
			remember(e.key, e.t, e.val.repr)
		}
		for key, m := range stZero {
			for t := range m {
				remember(key, t, "<st-zero>")
			}
		}
		before = after
	}
	return known
}

func c41SameStore(a, b *c41Store) bool {
	if len(a.samples) != len(b.samples) {
		// series without samples do not appear in a dump, so the key sets are comparable
		return false
	}
	for k, m := range a.samples {
		if len(m) != len(b.samples[k]) {
			return false
		}
		for t, v := range m {
			if bv, ok := b.samples[k][t]; !ok || bv.repr != v.repr {
				return false
			}
		}
	}
	for k, m := range b.exemplars {
		for ek, n := range m {
			if a.exemplars[k][ek] != n {
				return false
			}
		}
	}
	return true
}

func firstN(s string, n int) string {
	if len(s) > n {
		return s[:n] + "..."
	}
	return s
}

func TestC41Handler(t *testing.T) {
	ev.Check(t, "C41",
		"1-3 remote-write requests (protocol 1.0 or 2.0 with symbol table, 0-5 series each: floats, int/float/custom-bucket histograms, exemplars, metadata, start timestamps; label sets valid/unsorted/empty-valued/UTF-8 or invalid: no metric name, duplicate, empty or non-UTF-8 names, bad symbol refs; timestamps advancing, repeated, going back, too old, far future) sent through NewWriteHandler into a real TSDB (out-of-order window off/1h); storage dumped before/after each request and compared with a reference (soundness, written-count headers, completeness on 2xx, rollback of failed 1.0 requests). Non-trivial: a request mixing valid and invalid series, or containing an in-request duplicate/out-of-order sample; distinct by hash of the case.",
		genC41, runC41)
}

// ---- part "codec": encode → decode round trips ---------------------------------------

type c41CodecSeries struct {
	L     gen.Lset
	S     []c41Sample
	H     []c41HistS
	E     []c41Ex
	MType string // model.MetricType
	Help  string
	Unit  string
}

type c41CodecCase struct {
	Proto     int
	Optimized bool // 2.0: OptimizedMarshal instead of Marshal
	Series    []c41CodecSeries
}

var c41MetricTypes = []string{"counter", "gauge", "histogram", "gaugehistogram", "summary", "info", "stateset", "unknown"}

func genC41Codec(t *rapid.T) c41CodecCase {
	c := c41CodecCase{Proto: rapid.IntRange(1, 2).Draw(t, "proto"), Optimized: rapid.Bool().Draw(t, "opt")}
	n := rapid.IntRange(0, 6).Draw(t, "nseries")
	for i := 0; i < n; i++ {
		var s c41CodecSeries
		if rapid.Bool().Draw(t, "small") {
			s.L = gen.SmallLset(true, 3).Draw(t, "sl")
		} else {
			s.L = gen.AnyLset(5).Draw(t, "al")
		}
		for j, m := 0, rapid.IntRange(0, 4).Draw(t, "nf"); j < m; j++ {
			s.S = append(s.S, c41Sample{T: rapid.Int64().Draw(t, "t"), ST: rapid.SampledFrom([]int64{0, 0, 1, -5, 1 << 40}).Draw(t, "st"), V: gen.FloatBits().Draw(t, "v")})
		}
		for j, m := 0, rapid.IntRange(0, 3).Draw(t, "nh"); j < m; j++ {
			fl := rapid.Bool().Draw(t, "hf")
			s.H = append(s.H, c41HistS{T: rapid.Int64().Draw(t, "ht"), ST: rapid.SampledFrom([]int64{0, 7, -9}).Draw(t, "hst"),
				H: gen.Histogram(gen.HistOpts{Float: fl, AllowCustom: true, AllowGauge: true, FractionalCounts: true, NaNSum: !fl}).Draw(t, "h")})
		}
		for j, m := 0, rapid.IntRange(0, 3).Draw(t, "ne"); j < m; j++ {
			s.E = append(s.E, c41Ex{L: gen.AnyLset(3).Draw(t, "el"), T: rapid.SampledFrom([]int64{0, 1, -1, 1 << 41, 12345}).Draw(t, "et"), V: gen.FloatBits().Draw(t, "ev")})
		}
		s.MType = rapid.SampledFrom(c41MetricTypes).Draw(t, "mt")
		s.Help = gen.AnyString().Draw(t, "help")
		s.Unit = gen.AnyString().Draw(t, "unit")
		c.Series = append(c.Series, s)
	}
	return c
}

func c41CmpHist(where string, x c41HistS, isFloat bool, gotInt *histogram.Histogram, gotFloat *histogram.FloatHistogram) error {
	if x.H.Float != isFloat {
		return ev.Failf("%s: flavour changed: sent float=%v, decoded float=%v", where, x.H.Float, isFloat)
	}
	if x.H.Float {
		if gotInt != nil {
			return ev.Failf("%s: ToIntHistogram of a float histogram is not nil", where)
		}
		if d := gen.FloatHistExact(x.H.FloatH(), gotFloat); d != "" {
			return ev.Failf("%s: float histogram field %s differs: sent %v got %v", where, d, x.H.FloatH(), gotFloat)
		}
		return nil
	}
	if d := gen.IntHistExact(x.H.Int(), gotInt); d != "" {
		return ev.Failf("%s: integer histogram field %s differs: sent %v got %v", where, d, x.H.Int(), gotInt)
	}
	if d := gen.FloatHistExact(x.H.Int().ToFloat(nil), gotFloat); d != "" {
		return ev.Failf("%s: ToFloatHistogram of an integer histogram differs in %s: want %v got %v", where, d, x.H.Int().ToFloat(nil), gotFloat)
	}
	return nil
}

// c41FloatField compares one float field bitwise. A -0 that comes back as +0 is reported
// with its own root-cause signature (the generated Marshal code omits float fields that
// compare equal to zero, so the sign of a zero is lost on the wire); the first such
// error is remembered in *known and the comparison goes on.
func c41FloatField(known *error, where string, sent, got uint64) error {
	if sent == got {
		return nil
	}
	if sent == 0x8000000000000000 && got == 0 {
		if *known == nil {
			*known = ev.FailSig("prompb-negative-zero-dropped", "%s: sent -0 (bits 8000000000000000), decoded +0: the marshalled message omits the field because -0 == 0", where)
		}
		return nil
	}
	return ev.Failf("%s: sent bits %016x decoded bits %016x", where, sent, got)
}

func runC41Codec(c c41CodecCase, r *ev.Rec) error {
	var known error
	r.Class(fmt.Sprintf("proto:%d", c.Proto))
	b := labels.NewScratchBuilder(0)
	shared := false
	seenStr := map[string]int{}
	for _, s := range c.Series {
		for _, p := range s.L {
			seenStr[p[0]]++
			seenStr[p[1]]++
		}
	}
	for _, n := range seenStr {
		if n > 1 {
			shared = true
		}
	}
	nh := 0
	if c.Proto == 1 {
		var wr prompb.WriteRequest
		for _, s := range c.Series {
			ts := prompb.TimeSeries{Labels: prompb.FromLabels(s.L.Labels(), nil)}
			for _, x := range s.S {
				ts.Samples = append(ts.Samples, prompb.Sample{Timestamp: x.T, Value: gen.F(x.V)})
			}
			for _, x := range s.H {
				if x.H.Float {
					ts.Histograms = append(ts.Histograms, prompb.FromFloatHistogram(x.T, x.H.FloatH()))
				} else {
					ts.Histograms = append(ts.Histograms, prompb.FromIntHistogram(x.T, x.H.Int()))
				}
			}
			for _, e := range s.E {
				ts.Exemplars = append(ts.Exemplars, prompb.Exemplar{Labels: prompb.FromLabels(e.L.Labels(), nil), Timestamp: e.T, Value: gen.F(e.V)})
			}
			wr.Timeseries = append(wr.Timeseries, ts)
			wr.Metadata = append(wr.Metadata, prompb.MetricMetadata{Type: prompb.FromMetadataType(model.MetricType(s.MType)), MetricFamilyName: s.L.Labels().Get("__name__"), Help: s.Help, Unit: s.Unit})
		}
		raw, err := wr.Marshal()
		if err != nil {
			return fmt.Errorf("harness: marshal: %w", err)
		}
		got, err := promremote.DecodeWriteRequest(bytes.NewReader(snappy.Encode(nil, raw)))
		if err != nil {
			return ev.Failf("DecodeWriteRequest of a valid request failed: %v", err)
		}
		if len(got.Timeseries) != len(c.Series) || len(got.Metadata) != len(c.Series) {
			return ev.Failf("1.0: sent %d series, decoded %d series and %d metadata", len(c.Series), len(got.Timeseries), len(got.Metadata))
		}
		for i, s := range c.Series {
			ts := got.Timeseries[i]
			where := fmt.Sprintf("1.0 series %d", i)
			if ls := ts.ToLabels(&b, nil); !labels.Equal(ls, s.L.Labels()) {
				return ev.Failf("%s: labels sent %v decoded %v", where, s.L.Labels(), ls)
			}
			if len(ts.Samples) != len(s.S) || len(ts.Histograms) != len(s.H) || len(ts.Exemplars) != len(s.E) {
				return ev.Failf("%s: counts sent %d/%d/%d decoded %d/%d/%d", where, len(s.S), len(s.H), len(s.E), len(ts.Samples), len(ts.Histograms), len(ts.Exemplars))
			}
			for j, x := range s.S {
				if ts.Samples[j].Timestamp != x.T {
					return ev.Failf("%s sample %d: sent t=%d decoded t=%d", where, j, x.T, ts.Samples[j].Timestamp)
				}
				if err := c41FloatField(&known, fmt.Sprintf("%s sample %d value", where, j), x.V, gen.B(ts.Samples[j].Value)); err != nil {
					return err
				}
			}
			for j, x := range s.H {
				hp := ts.Histograms[j]
				if hp.Timestamp != x.T {
					return ev.Failf("%s histogram %d: timestamp sent %d decoded %d", where, j, x.T, hp.Timestamp)
				}
				if err := c41CmpHist(fmt.Sprintf("%s histogram %d", where, j), x, hp.IsFloatHistogram(), hp.ToIntHistogram(), hp.ToFloatHistogram()); err != nil {
					return err
				}
				nh++
			}
			for j, e := range s.E {
				ex := ts.Exemplars[j].ToExemplar(&b, nil)
				if !labels.Equal(ex.Labels, e.L.Labels()) || ex.Ts != e.T || ex.HasTs != (e.T != 0) {
					return ev.Failf("%s exemplar %d: sent %v t=%d v=%x decoded %+v", where, j, e.L, e.T, e.V, ex)
				}
				if err := c41FloatField(&known, fmt.Sprintf("%s exemplar %d value", where, j), e.V, gen.B(ex.Value)); err != nil {
					return err
				}
			}
			md := got.Metadata[i]
			wantType := strings.ToUpper(s.MType)
			if md.Type.String() != wantType || md.Help != s.Help || md.Unit != s.Unit {
				return ev.Failf("%s metadata: sent %s/%q/%q decoded %s/%q/%q", where, wantType, s.Help, s.Unit, md.Type, md.Help, md.Unit)
			}
		}
	} else {
		st := writev2.NewSymbolTable()
		var wr writev2.Request
		var buf []uint32
		for _, s := range c.Series {
			buf = st.SymbolizeLabels(s.L.Labels(), buf)
			ts := writev2.TimeSeries{LabelsRefs: append([]uint32(nil), buf...)}
			for _, x := range s.S {
				ts.Samples = append(ts.Samples, writev2.Sample{Timestamp: x.T, StartTimestamp: x.ST, Value: gen.F(x.V)})
			}
			for _, x := range s.H {
				if x.H.Float {
					ts.Histograms = append(ts.Histograms, writev2.FromFloatHistogram(x.ST, x.T, x.H.FloatH()))
				} else {
					ts.Histograms = append(ts.Histograms, writev2.FromIntHistogram(x.ST, x.T, x.H.Int()))
				}
			}
			for _, e := range s.E {
				buf = st.SymbolizeLabels(e.L.Labels(), buf)
				ts.Exemplars = append(ts.Exemplars, writev2.Exemplar{LabelsRefs: append([]uint32(nil), buf...), Timestamp: e.T, Value: gen.F(e.V)})
			}
			ts.Metadata = writev2.Metadata{Type: writev2.FromMetadataType(model.MetricType(s.MType)), HelpRef: st.Symbolize(s.Help), UnitRef: st.Symbolize(s.Unit)}
			wr.Timeseries = append(wr.Timeseries, ts)
		}
		wr.Symbols = st.Symbols()
		// symbol table: first entry empty, no duplicates, every string reachable
		if len(wr.Symbols) == 0 || wr.Symbols[0] != "" {
			return ev.Failf("2.0 symbol table does not start with the empty string: %q", wr.Symbols)
		}
		dup := map[string]bool{}
		for _, s := range wr.Symbols {
			if dup[s] {
				return ev.Failf("2.0 symbol table holds %q twice", s)
			}
			dup[s] = true
		}
		var raw []byte
		var err error
		if c.Optimized {
			raw, err = wr.OptimizedMarshal(nil)
		} else {
			raw, err = wr.Marshal()
		}
		if err != nil {
			return fmt.Errorf("harness: marshal: %w", err)
		}
		got, err := promremote.DecodeWriteV2Request(bytes.NewReader(snappy.Encode(nil, raw)))
		if err != nil {
			return ev.Failf("DecodeWriteV2Request of a valid request failed (optimized marshal %v): %v", c.Optimized, err)
		}
		if len(got.Timeseries) != len(c.Series) {
			return ev.Failf("2.0: sent %d series, decoded %d", len(c.Series), len(got.Timeseries))
		}
		for i, s := range c.Series {
			ts := got.Timeseries[i]
			where := fmt.Sprintf("2.0 series %d (optimized marshal %v)", i, c.Optimized)
			ls, err := ts.ToLabels(&b, got.Symbols)
			if err != nil || !labels.Equal(ls, s.L.Labels()) {
				return ev.Failf("%s: labels sent %v decoded %v err %v", where, s.L.Labels(), ls, err)
			}
			if len(ts.Samples) != len(s.S) || len(ts.Histograms) != len(s.H) || len(ts.Exemplars) != len(s.E) {
				return ev.Failf("%s: counts sent %d/%d/%d decoded %d/%d/%d", where, len(s.S), len(s.H), len(s.E), len(ts.Samples), len(ts.Histograms), len(ts.Exemplars))
			}
			for j, x := range s.S {
				g := ts.Samples[j]
				if g.Timestamp != x.T || g.StartTimestamp != x.ST {
					return ev.Failf("%s sample %d: sent (t=%d st=%d) decoded (t=%d st=%d)", where, j, x.T, x.ST, g.Timestamp, g.StartTimestamp)
				}
				if err := c41FloatField(&known, fmt.Sprintf("%s sample %d value", where, j), x.V, gen.B(g.Value)); err != nil {
					return err
				}
			}
			for j, x := range s.H {
				hp := ts.Histograms[j]
				if hp.Timestamp != x.T || hp.StartTimestamp != x.ST {
					return ev.Failf("%s histogram %d: sent t=%d st=%d decoded t=%d st=%d", where, j, x.T, x.ST, hp.Timestamp, hp.StartTimestamp)
				}
				if err := c41CmpHist(fmt.Sprintf("%s histogram %d", where, j), x, hp.IsFloatHistogram(), hp.ToIntHistogram(), hp.ToFloatHistogram()); err != nil {
					return err
				}
				nh++
			}
			for j, e := range s.E {
				ex, err := ts.Exemplars[j].ToExemplar(&b, got.Symbols)
				if err != nil || !labels.Equal(ex.Labels, e.L.Labels()) || ex.Ts != e.T || ex.HasTs != (e.T != 0) {
					return ev.Failf("%s exemplar %d: sent %v t=%d v=%x decoded %+v err %v", where, j, e.L, e.T, e.V, ex, err)
				}
				if err := c41FloatField(&known, fmt.Sprintf("%s exemplar %d value", where, j), e.V, gen.B(ex.Value)); err != nil {
					return err
				}
			}
			md, err := ts.ToMetadata(got.Symbols)
			if err != nil || string(md.Type) != s.MType || md.Help != s.Help || md.Unit != s.Unit {
				return ev.Failf("%s metadata: sent %s/%q/%q decoded %+v err %v", where, s.MType, s.Help, s.Unit, md, err)
			}
		}
	}
	if len(c.Series) >= 2 && (shared || nh > 0) {
		r.NonTrivial()
	}
	if nh > 0 {
		r.Class("histograms")
	}
	if shared {
		r.Class("shared-symbols")
	}
	return known
}

func TestC41Codec(t *testing.T) {
	ev.Check(t, "C41",
		"0-6 series with arbitrary label sets (UTF-8, long, shared strings), float samples over all bit-pattern classes, start timestamps, int/float/custom-bucket/gauge histograms, exemplars and metadata, encoded as prompb.WriteRequest or writev2.Request (SymbolsTable; Marshal or OptimizedMarshal) + snappy, decoded with DecodeWriteRequest/DecodeWriteV2Request and ToLabels/ToMetadata/ToIntHistogram/ToFloatHistogram/ToExemplar; every field compared with what was sent. Non-trivial: >=2 series that share a symbol or carry a histogram; distinct by hash of the case.",
		genC41Codec, runC41Codec, ev.Opts{Part: "codec"})
}
