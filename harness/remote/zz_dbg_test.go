package remote

import (
	"encoding/json"
	"fmt"
	"os"
	"testing"

	"verifharness/internal/ev"
)

func TestC41Dbg(t *testing.T) {
	b, _ := os.ReadFile(os.Getenv("DBG_FILE"))
	var c c41Case
	if err := json.Unmarshal(b, &c); err != nil {
		t.Fatal(err)
	}
	c41Debug = true
	fmt.Println(runC41(c, &ev.Rec{}))
}
