package expo

import (
	"fmt"
	"math"
	"runtime/debug"
	"strconv"
	"strings"
	"testing"

	dto "github.com/prometheus/client_model/go"
	"github.com/prometheus/common/model"
	"pgregory.net/rapid"

	"github.com/prometheus/prometheus/model/histogram"
	"github.com/prometheus/prometheus/model/labels"
	"github.com/prometheus/prometheus/model/textparse"

	"verifharness/internal/ev"
	"verifharness/internal/gen"
)

// C35 — exposition formats are parsed faithfully and consistently.

type c35Case struct {
	Fams        []xFam
	Created     bool // OpenMetrics encoder writes _created lines
	SkipST      bool // OpenMetricsSkipSTSeries + the caller asks for StartTimestamp (the two go together in scrape)
	TypeUnit    bool // EnableTypeAndUnitLabels
	IgnoreNH    bool // IgnoreNativeHistograms (protobuf)
	KeepClassic bool // KeepClassicOnClassicAndNativeHistograms (protobuf)
	Trig        bool // generator was allowed to produce the shapes of the listed known findings
	Avoided     int  `json:",omitempty"` // trigger shapes rewritten by the generator (Trig == false)
	Convert     bool `json:",omitempty"` // set by C36 only: ConvertClassicHistogramsToNHCB is on
}

// ---------------------------------------------------------------- generator

type famGenOpts struct {
	trig       bool
	allowUTF8  bool
	allowNH    bool
	forceNH    bool
	allowFloat bool // float classic counts (not expressible in OpenMetrics)
	typeUnit   bool
	types      []dto.MetricType
	avoided    *int
}

func omTsSafe(ts int64) bool {
	f := float64(ts) / 1000
	lo, hi := omMillis(f)
	g := omTruncMillis(f)
	return g == lo || g == hi
}

func protoTsSafe(sec int64, nanos int32) bool {
	f := unixNanoSeconds(sec, nanos)
	lo, hi := omMillis(f)
	g := omTruncMillis(f)
	return g == lo || g == hi
}

func escFree(l gen.Lset) bool {
	for _, p := range l {
		if hasEscapable(p[0]) || hasEscapable(p[1]) {
			return false
		}
	}
	return true
}

// untrigger rewrites the trigger shapes of the listed findings out of a metric.
func (o famGenOpts) fixTs(ts int64) int64 {
	if o.trig {
		return ts
	}
	if ts < 0 {
		ts = -ts
		*o.avoided++
	}
	for i := 0; !omTsSafe(ts) && i < 2000; i++ {
		ts++
		if i == 0 {
			*o.avoided++
		}
	}
	return ts
}

func (o famGenOpts) fixProtoTs(sec int64, nanos int32) (int64, int32) {
	if o.trig || protoTsSafe(sec, nanos) {
		return sec, nanos
	}
	*o.avoided++
	for i := 0; i < 2000; i++ {
		nanos += 1_000_000
		if nanos >= 1_000_000_000 {
			nanos = 0
			sec++
		}
		if protoTsSafe(sec, nanos) {
			return sec, nanos
		}
	}
	return sec, 0
}

func (o famGenOpts) fixEx(e *xEx) *xEx {
	if e == nil {
		return nil
	}
	if !o.trig {
		if !escFree(e.L) {
			*o.avoided++
			for i := range e.L {
				if hasEscapable(e.L[i][0]) {
					e.L[i][0] = fmt.Sprintf("l%d", i)
				}
				if hasEscapable(e.L[i][1]) {
					e.L[i][1] = strings.NewReplacer("\\", "/", "\"", "'", "\n", " ").Replace(e.L[i][1])
				}
			}
		}
		if e.HasTs {
			e.Sec, e.Nanos = o.fixProtoTs(e.Sec, e.Nanos)
		}
	}
	return e
}

func genBounds(t *rapid.T) []uint64 {
	n := rapid.IntRange(0, 8).Draw(t, "nb")
	var out []uint64
	var cur float64
	switch rapid.IntRange(0, 3).Draw(t, "b0") {
	case 0:
		cur = float64(rapid.IntRange(-10, 10).Draw(t, "b0i"))
	case 1:
		cur = rapid.SampledFrom([]float64{0.005, 0.01, 0.025, 0.1, 0.25, 1, 1e-9, -1e6}).Draw(t, "b0c")
	default:
		cur = float64(rapid.IntRange(-1000, 1000).Draw(t, "b0q")) / 8
	}
	for i := 0; i < n; i++ {
		if cur == 0 {
			cur = 0 // never -0
		}
		if len(out) > 0 && !(cur > gen.F(out[len(out)-1])) {
			cur = math.Nextafter(gen.F(out[len(out)-1]), math.Inf(1)) // strictly increasing even when a step is absorbed
		}
		if math.IsInf(cur, 0) {
			break
		}
		out = append(out, gen.B(cur))
		switch rapid.IntRange(0, 3).Draw(t, "bs") {
		case 0:
			cur += float64(rapid.IntRange(1, 10).Draw(t, "bsi"))
		case 1:
			cur += float64(rapid.IntRange(1, 64).Draw(t, "bsq")) / 16
		case 2:
			if cur > 0 {
				cur *= rapid.SampledFrom([]float64{2, 2.5, 10, 1000, 1e6}).Draw(t, "bsm")
			} else {
				cur += 1
			}
		default:
			cur += rapid.SampledFrom([]float64{0.1, 0.001, 1e5, 1e15, 123456.789}).Draw(t, "bsc")
		}
	}
	return out
}

func genMetric(t *rapid.T, o famGenOpts, ty dto.MetricType, i int) xMetric {
	var extra []string
	switch ty {
	case dto.MetricType_HISTOGRAM, dto.MetricType_GAUGE_HISTOGRAM:
		extra = []string{"quantile"}
	case dto.MetricType_SUMMARY:
		extra = []string{"le"}
	default:
		extra = []string{"le", "quantile"}
	}
	if rapid.IntRange(0, 7).Draw(t, "metal") == 0 {
		extra = append(extra, "__type__", "__unit__")
	}
	m := xMetric{L: metricLabels(t, 3, o.allowUTF8, extra)}
	// distinct metrics inside a family: a discriminating label
	m.L = append(m.L, [2]string{"idx", strconv.Itoa(i)})
	if rapid.IntRange(0, 2).Draw(t, "hasts") == 0 {
		m.HasTs = true
		m.Ts = o.fixTs(sampleTs(t))
	}
	hasST := func() {
		if rapid.IntRange(0, 2).Draw(t, "hasst") == 0 {
			m.HasST = true
			m.STSec, m.STNanos = protoTs(t)
			m.STSec, m.STNanos = o.fixProtoTs(m.STSec, m.STNanos)
		}
	}
	switch ty {
	case dto.MetricType_COUNTER, dto.MetricType_GAUGE, dto.MetricType_UNTYPED:
		m.V = gen.FloatBits().Draw(t, "v")
		if rapid.IntRange(0, 9).Draw(t, "vunset") == 0 {
			m.VUnset = true
			m.V = 0
		}
		if ty == dto.MetricType_COUNTER {
			if rapid.IntRange(0, 2).Draw(t, "hasex") == 0 {
				m.Ex = o.fixEx(genExemplar(t, o.allowUTF8, rapid.IntRange(0, 4).Draw(t, "exneedl") > 0))
			}
			hasST()
		}
	case dto.MetricType_SUMMARY:
		m.Count = countValue(t)
		m.Sum = gen.FloatBits().Draw(t, "sum")
		nq := rapid.IntRange(0, 4).Draw(t, "nq")
		q := 0.0
		for j := 0; j < nq; j++ {
			q += rapid.SampledFrom([]float64{0, 0.01, 0.1, 0.25, 0.5, 0.049, 1e-5}).Draw(t, "qstep")
			if j == nq-1 && rapid.Bool().Draw(t, "qone") {
				q = 1
			}
			m.Q = append(m.Q, xQ{Q: gen.B(q), V: gen.FloatBits().Draw(t, "qv")})
			if q >= 1 {
				break
			}
			q += 0.001
		}
		hasST()
	case dto.MetricType_HISTOGRAM, dto.MetricType_GAUGE_HISTOGRAM:
		m.Sum = gen.FloatBits().Draw(t, "sum")
		float := o.allowFloat && rapid.IntRange(0, 4).Draw(t, "fcounts") == 0
		native := o.allowNH && (rapid.IntRange(0, 2).Draw(t, "native") == 0 || o.forceNH)
		var total uint64
		if native {
			fl := float
			h := gen.Histogram(gen.HistOpts{Float: fl, NaNSum: !fl, FractionalCounts: true}).Draw(t, "nh")
			if h.Float && !(gen.F(h.Count) > 0) && o.forceNH {
				h = gen.Histogram(gen.HistOpts{NaNSum: true}).Draw(t, "nhint")
			}
			if h.Float && !(gen.F(h.Count) > 0) {
				native = false
			} else {
				if len(h.PS)+len(h.NS) == 0 {
					h.PS = []gen.Span{{Off: 0, Len: 0}}
				}
				m.NH = &h
				m.Sum = h.Sum
				if h.Float {
					m.CountF = h.Count
					total = uint64(math.Floor(gen.F(h.Count)))
				} else {
					m.Count = h.Count
					total = h.Count
				}
				float = h.Float
				nex := rapid.IntRange(0, 3).Draw(t, "nnhex")
				for j := 0; j < nex; j++ {
					m.NHEx = append(m.NHEx, *o.fixEx(genExemplar(t, o.allowUTF8, false)))
				}
			}
		}
		bounds := genBounds(t)
		if native && rapid.Bool().Draw(t, "nobuckets") {
			bounds = nil
		}
		var cum uint64
		for _, b := range bounds {
			inc := uint64(rapid.IntRange(0, 20).Draw(t, "binc"))
			if rapid.IntRange(0, 3).Draw(t, "bzero") == 0 {
				inc = 0
			}
			if native && cum+inc > total {
				inc = total - cum
			}
			cum += inc
			xb := xBucket{Bound: b, Cum: cum}
			if float && cum > 0 {
				xb.CumF = gen.B(float64(cum) - 0.5*float64(rapid.IntRange(0, 1).Draw(t, "bhalf")))
				if cum == 1 && gen.F(xb.CumF) < 1 {
					xb.CumF = gen.B(0.5)
				}
			}
			if rapid.IntRange(0, 3).Draw(t, "bex") == 0 {
				xb.Ex = o.fixEx(genExemplar(t, o.allowUTF8, rapid.IntRange(0, 4).Draw(t, "bexneedl") > 0))
			}
			m.B = append(m.B, xb)
		}
		// float cumulative counts must stay non-decreasing
		if float {
			prev := 0.0
			for j := range m.B {
				v := float64(m.B[j].Cum)
				if m.B[j].CumF != 0 {
					v = gen.F(m.B[j].CumF)
				}
				if v < prev {
					m.B[j].CumF = gen.B(prev)
					v = prev
				}
				prev = v
			}
		}
		if !native {
			extra := uint64(0)
			if rapid.IntRange(0, 2).Draw(t, "over") == 0 {
				extra = uint64(rapid.IntRange(0, 9).Draw(t, "overn"))
			}
			m.Count = cum + extra
			if float {
				m.CountF = gen.B(float64(m.Count) + 0.5)
			}
		}
		if rapid.IntRange(0, 2).Draw(t, "infbucket") == 0 {
			xb := xBucket{Bound: gen.B(math.Inf(1)), Cum: m.Count}
			if m.CountF != 0 {
				xb.CumF = m.CountF
				xb.Cum = 0
			}
			if rapid.IntRange(0, 3).Draw(t, "infex") == 0 {
				xb.Ex = o.fixEx(genExemplar(t, o.allowUTF8, true))
			}
			m.B = append(m.B, xb)
		}
		hasST()
	}
	return m
}

func countValue(t *rapid.T) uint64 {
	switch rapid.IntRange(0, 5).Draw(t, "cntc") {
	case 0:
		return 0
	case 1:
		return rapid.Uint64().Draw(t, "cntany")
	case 2:
		return 1<<53 + uint64(rapid.IntRange(0, 3).Draw(t, "cnt53"))
	default:
		return uint64(rapid.IntRange(0, 100000).Draw(t, "cnt"))
	}
}

var unitPool = []string{"seconds", "bytes", "s", "ratio", "celsius"}

func genFam(t *rapid.T, o famGenOpts, used map[string]bool, prevUnit bool) xFam {
	ty := rapid.SampledFrom(o.types).Draw(t, "type")
	utf := o.allowUTF8
	f := xFam{Type: int32(ty)}
	name := famName(t, used, utf)
	if !o.trig && hasEscapable(name) {
		*o.avoided++
		name = strings.NewReplacer("\\", ".", "\"", ".", "\n", ".").Replace(name)
		for used[name] {
			name += "x"
		}
		used[name] = true
	}
	switch rapid.IntRange(0, 3).Draw(t, "unitc") {
	case 0:
		f.HasUnit = true
		f.Unit = rapid.SampledFrom(unitPool).Draw(t, "unit")
		name += "_" + f.Unit
	case 1:
		if rapid.Bool().Draw(t, "emptyunit") {
			f.HasUnit = true // "# UNIT name " with an empty unit
		}
	}
	if !f.HasUnit && prevUnit && o.typeUnit && !o.trig {
		// om-unit-leak shape (a family without UNIT after one with a unit, type-and-unit labels on)
		f.HasUnit = true
		*o.avoided++
	}
	if ty == dto.MetricType_COUNTER && rapid.IntRange(0, 3).Draw(t, "total") > 0 {
		name += "_total"
	}
	used[name] = true
	f.Name = name
	if rapid.IntRange(0, 3).Draw(t, "hashelp") > 0 {
		f.HasHelp = true
		f.Help = helpText(t)
	}
	nm := rapid.IntRange(1, 4).Draw(t, "nm")
	for i := 0; i < nm; i++ {
		oo := o
		if !o.trig && isHistType(ty) && i > 0 {
			// proto-mixed-histogram-family shape: all histograms of a family are of the kind of the first
			oo.allowNH = f.M[0].NH != nil
			oo.forceNH = oo.allowNH
		}
		m := genMetric(t, oo, ty, i)
		if !o.trig && i > 0 && m.NH != nil {
			// proto-native-exemplar-cursor shape: only the first native histogram of a family
			// carries exemplars that the native entry exposes
			if len(m.NHEx) > 0 {
				*o.avoided++
				m.NHEx = nil
			}
			for j := range m.B {
				if m.B[j].Ex != nil && m.B[j].Ex.HasTs {
					*o.avoided++
					m.B[j].Ex.HasTs, m.B[j].Ex.Sec, m.B[j].Ex.Nanos = false, 0, 0
				}
			}
		}
		f.M = append(f.M, m)
	}
	return f
}

var allTypes = []dto.MetricType{dto.MetricType_COUNTER, dto.MetricType_GAUGE, dto.MetricType_UNTYPED, dto.MetricType_SUMMARY,
	dto.MetricType_HISTOGRAM, dto.MetricType_HISTOGRAM, dto.MetricType_GAUGE_HISTOGRAM}

func genC35(t *rapid.T) c35Case {
	c := c35Case{
		Created:     rapid.Bool().Draw(t, "created"),
		SkipST:      rapid.Bool().Draw(t, "skipst"),
		TypeUnit:    rapid.IntRange(0, 3).Draw(t, "typeunit") == 0,
		IgnoreNH:    rapid.IntRange(0, 3).Draw(t, "ignorenh") == 0,
		KeepClassic: rapid.Bool().Draw(t, "keepclassic"),
		Trig:        rapid.IntRange(0, 9).Draw(t, "trig") == 0,
	}
	avoided := 0
	o := famGenOpts{trig: c.Trig, allowUTF8: rapid.IntRange(0, 3).Draw(t, "utf8") > 0, allowNH: true,
		allowFloat: rapid.IntRange(0, 5).Draw(t, "floatcounts") == 0, typeUnit: c.TypeUnit, types: allTypes, avoided: &avoided}
	n := rapid.IntRange(1, 8).Draw(t, "nfam")
	used := map[string]bool{}
	prevUnit := false
	for i := 0; i < n; i++ {
		f := genFam(t, o, used, prevUnit)
		if f.HasUnit && f.Unit != "" {
			prevUnit = true
		} else if f.HasUnit {
			prevUnit = false
		}
		c.Fams = append(c.Fams, f)
	}
	c.Avoided = avoided
	return c
}

// ---------------------------------------------------------------- expected views

// xobs is an expected record. Timestamps that travel through the OpenMetrics seconds
// representation carry the float that was written, the accepted millisecond values
// being omMillis(float).
type xobs struct {
	obs
	omTs  bool // Ts/ST/exemplar timestamps are OpenMetrics floats (TsF etc.)
	TsF   float64
	STF   float64
	ExTsF []float64
	fam   int
	met   int
	unset bool  // value of an UNTYPED metric left unset
	raw   *xobs // C36: first payload series of the group this converted histogram stands for
}

func typeText(k fmtKind, f xFam) string {
	switch f.typ() {
	case dto.MetricType_COUNTER:
		if k == fOM && !strings.HasSuffix(f.Name, "_total") {
			return "unknown"
		}
		return "counter"
	case dto.MetricType_GAUGE:
		return "gauge"
	case dto.MetricType_SUMMARY:
		return "summary"
	case dto.MetricType_UNTYPED:
		return "unknown"
	case dto.MetricType_HISTOGRAM:
		return "histogram"
	case dto.MetricType_GAUGE_HISTOGRAM:
		if k == fText {
			return "histogram"
		}
		return "gaugehistogram"
	}
	return "?"
}

func metaName(k fmtKind, f xFam) string {
	if k == fOM && f.typ() == dto.MetricType_COUNTER {
		return strings.TrimSuffix(f.Name, "_total")
	}
	return f.Name
}

// textValue is what a text or OpenMetrics reader sees for an encoded float: every NaN
// is written as "NaN" (read back as the canonical NaN), zero is written without sign.
func textValue(bits uint64) uint64 {
	f := gen.F(bits)
	switch {
	case math.IsNaN(f):
		return normalNaN
	case f == 0:
		return 0
	}
	return bits
}

func (m xMetric) isNative() bool { return m.NH != nil }

type expander struct {
	k    fmtKind
	c    c35Case
	out  []xobs
	fi   int
	mi   int
	f    xFam
	unit string // unit visible to the parser of this format for the current family
}

func (e *expander) labelsFor(name string, m xMetric, extraName, extraVal string) gen.Lset {
	ty := typeText(e.k, e.f)
	var l gen.Lset
	l = append(l, [2]string{"__name__", name})
	for _, p := range m.L {
		if e.c.TypeUnit {
			if p[0] == "__type__" && ty != "unknown" {
				continue
			}
			if p[0] == "__unit__" && e.unit != "" {
				continue
			}
		}
		l = append(l, p)
	}
	if e.c.TypeUnit {
		if ty != "unknown" {
			l = append(l, [2]string{"__type__", ty})
		}
		if e.unit != "" {
			l = append(l, [2]string{"__unit__", e.unit})
		}
	}
	if extraName != "" {
		l = append(l, [2]string{extraName, extraVal})
	}
	return normLset(l)
}

func (e *expander) exemplar(x *xEx) (obsEx, float64, bool) {
	if x == nil {
		return obsEx{}, 0, false
	}
	switch e.k {
	case fText:
		return obsEx{}, 0, false
	case fOM:
		if len(x.L) == 0 {
			return obsEx{}, 0, false // the encoder writes exemplars only when they have labels
		}
		o := obsEx{L: normLset(x.L), V: textValue(x.V), HasTs: x.HasTs}
		var f float64
		if x.HasTs {
			f = unixNanoSeconds(x.Sec, x.Nanos)
			o.Ts, _ = omMillis(f)
		}
		return o, f, true
	default:
		o := obsEx{L: normLset(x.L), V: x.V, HasTs: x.HasTs}
		if x.HasTs {
			o.Ts = protoMillis(x.Sec, x.Nanos)
		}
		return o, 0, true
	}
}

// series appends one float series of the current metric.
func (e *expander) series(m xMetric, name string, extraName, extraVal string, v uint64, ex *xEx, stApplies bool) {
	x := xobs{fam: e.fi, met: e.mi}
	x.Kind = "series"
	x.L = e.labelsFor(name, m, extraName, extraVal)
	if e.k == fProto {
		x.V = v
	} else {
		x.V = textValue(v)
	}
	e.stamp(&x, m, stApplies)
	if oe, f, ok := e.exemplar(ex); ok {
		x.Ex = append(x.Ex, oe)
		x.ExTsF = append(x.ExTsF, f)
	}
	e.out = append(e.out, x)
}

func (e *expander) stamp(x *xobs, m xMetric, stApplies bool) {
	switch e.k {
	case fText:
		x.HasTs, x.Ts = m.HasTs, m.Ts
	case fOM:
		x.omTs = true
		x.HasTs = m.HasTs
		if m.HasTs {
			x.TsF = float64(m.Ts) / 1000
			x.Ts, _ = omMillis(x.TsF)
		}
		if stApplies && m.HasST && e.c.Created && e.c.SkipST && omTypeHasST(typeText(fOM, e.f)) {
			x.STF = unixNanoSeconds(m.STSec, m.STNanos)
			x.ST, _ = omMillis(x.STF)
		}
	default:
		// protobuf: a zero timestamp cannot be told from an absent one (documented)
		x.HasTs, x.Ts = m.HasTs && m.Ts != 0, m.Ts
		if stApplies && m.HasST {
			x.ST = protoMillis(m.STSec, m.STNanos)
		}
	}
	if !x.HasTs {
		x.Ts = 0
	}
}

func omTypeHasST(t string) bool { return t == "counter" || t == "summary" || t == "histogram" }

// createdLine models the OpenMetrics "_created" sample of a metric.
func (e *expander) createdLine(m xMetric) {
	if e.k != fOM || !e.c.Created || !m.HasST {
		return
	}
	if e.c.SkipST && omTypeHasST(typeText(fOM, e.f)) {
		return // consumed as start timestamp, not exposed as a series
	}
	base := e.f.Name
	if e.f.typ() == dto.MetricType_COUNTER {
		base = strings.TrimSuffix(base, "_total")
	}
	f := unixNanoSeconds(m.STSec, m.STNanos)
	// the encoder writes the timestamp of the metric on the _created line too? No: only the value.
	x := xobs{fam: e.fi, met: e.mi}
	x.Kind = "series"
	x.L = e.labelsFor(base+"_created", m, "", "")
	x.V = textValue(gen.B(f))
	x.omTs = true
	e.out = append(e.out, x)
}

func classicCount(m xMetric) uint64 {
	if m.CountF != 0 && gen.F(m.CountF) != 0 {
		return m.CountF
	}
	return gen.B(float64(m.Count))
}

func bucketValue(b xBucket) uint64 {
	if b.CumF != 0 && gen.F(b.CumF) != 0 {
		return b.CumF
	}
	return gen.B(float64(b.Cum))
}

func (e *expander) classicHistogram(m xMetric) {
	name := e.f.Name
	buckets := func() {
		inf := false
		for i := range m.B {
			b := m.B[i]
			e.series(m, name+"_bucket", "le", omFloat(gen.F(b.Bound)), bucketValue(b), b.Ex, true)
			if math.IsInf(gen.F(b.Bound), 1) {
				inf = true
			}
		}
		if !inf {
			e.series(m, name+"_bucket", "le", "+Inf", classicCount(m), nil, true)
		}
	}
	if e.k == fProto {
		e.series(m, name+"_count", "", "", classicCount(m), nil, true)
		e.series(m, name+"_sum", "", "", m.Sum, nil, true)
		buckets()
		return
	}
	buckets()
	e.series(m, name+"_sum", "", "", m.Sum, nil, true)
	e.series(m, name+"_count", "", "", classicCount(m), nil, true)
	e.createdLine(m)
}

func (e *expander) nativeHistogram(m xMetric) {
	x := xobs{fam: e.fi, met: e.mi}
	x.Kind = "hist"
	x.L = e.labelsFor(e.f.Name, m, "", "")
	e.stamp(&x, m, true)
	if m.NH.Float {
		x.FH = m.NH.FloatH()
		x.FH.CounterResetHint = histogram.UnknownCounterReset
		if e.f.typ() == dto.MetricType_GAUGE_HISTOGRAM {
			x.FH.CounterResetHint = histogram.GaugeType
		}
	} else {
		x.H = m.NH.Int()
		x.H.CounterResetHint = histogram.UnknownCounterReset
		if e.f.typ() == dto.MetricType_GAUGE_HISTOGRAM {
			x.H.CounterResetHint = histogram.GaugeType
		}
	}
	// exemplars: the native list when present, else those of the classic buckets; only
	// exemplars with a timestamp are exposed for native histograms
	if len(m.NHEx) > 0 {
		for i := range m.NHEx {
			if m.NHEx[i].HasTs {
				oe, _, _ := e.exemplar(&m.NHEx[i])
				x.Ex = append(x.Ex, oe)
			}
		}
	} else {
		for i := range m.B {
			if m.B[i].Ex != nil && m.B[i].Ex.HasTs {
				oe, _, _ := e.exemplar(m.B[i].Ex)
				x.Ex = append(x.Ex, oe)
			}
		}
	}
	e.out = append(e.out, x)
}

func expectC35(k fmtKind, c c35Case) []xobs {
	e := &expander{k: k, c: c}
	for fi, f := range c.Fams {
		e.fi, e.f = fi, f
		mn := metaName(k, f)
		meta := func(kind, text string) {
			x := xobs{fam: fi, met: -1}
			x.Kind, x.Name, x.Text = kind, mn, text
			e.out = append(e.out, x)
		}
		e.unit = ""
		switch k {
		case fText:
			if f.HasHelp {
				meta("help", f.Help)
			}
			meta("type", typeText(k, f))
		case fOM:
			if f.HasHelp {
				meta("help", f.Help)
			}
			meta("type", typeText(k, f))
			if f.HasUnit {
				meta("unit", f.Unit)
				e.unit = f.Unit
			}
		default:
			meta("help", f.Help)
			if f.HasUnit && f.Unit != "" {
				meta("unit", f.Unit)
				e.unit = f.Unit
			}
			meta("type", typeText(k, f))
		}
		for mi, m := range f.M {
			e.mi = mi
			switch f.typ() {
			case dto.MetricType_COUNTER, dto.MetricType_GAUGE, dto.MetricType_UNTYPED:
				v := m.V
				if m.VUnset {
					v = 0
				}
				var ex *xEx
				if f.typ() == dto.MetricType_COUNTER {
					ex = m.Ex
				}
				e.series(m, f.Name, "", "", v, ex, f.typ() == dto.MetricType_COUNTER)
				e.out[len(e.out)-1].unset = m.VUnset && f.typ() == dto.MetricType_UNTYPED
				if f.typ() == dto.MetricType_COUNTER {
					e.createdLine(m)
				}
			case dto.MetricType_SUMMARY:
				quantiles := func() {
					for _, q := range m.Q {
						e.series(m, f.Name, "quantile", omFloat(gen.F(q.Q)), q.V, nil, true)
					}
				}
				if k == fProto {
					e.series(m, f.Name+"_count", "", "", gen.B(float64(m.Count)), nil, true)
					e.series(m, f.Name+"_sum", "", "", m.Sum, nil, true)
					quantiles()
				} else {
					quantiles()
					e.series(m, f.Name+"_sum", "", "", m.Sum, nil, true)
					e.series(m, f.Name+"_count", "", "", gen.B(float64(m.Count)), nil, true)
					e.createdLine(m)
				}
			case dto.MetricType_HISTOGRAM, dto.MetricType_GAUGE_HISTOGRAM:
				if k == fProto && m.isNative() && !c.IgnoreNH {
					e.nativeHistogram(m)
					if c.KeepClassic && len(m.B) > 0 {
						e.classicHistogram(m)
					}
				} else {
					e.classicHistogram(m)
				}
			}
		}
	}
	return e.out
}

// ---------------------------------------------------------------- comparison

type diff struct {
	sig string
	msg string
}

var quotedEscaper = strings.NewReplacer("\\", `\\`, "\n", `\n`, "\"", `\"`)

func escapedLset(l gen.Lset) gen.Lset {
	var out gen.Lset
	for _, p := range l {
		out = append(out, [2]string{quotedEscaper.Replace(p[0]), quotedEscaper.Replace(p[1])})
	}
	return normLset(out)
}

func tsOK(omTs bool, f float64, want, got int64) (ok bool, truncBug bool) {
	if !omTs {
		return want == got, false
	}
	lo, hi := omMillis(f)
	if got == lo || got == hi {
		return true, false
	}
	return false, got == omTruncMillis(f)
}

func histDiff(w xobs, g obs) string {
	switch {
	case w.H != nil:
		if g.H == nil {
			return "expected an integer histogram"
		}
		if g.H.Count != w.H.Count || g.H.ZeroCount != w.H.ZeroCount {
			return "Count/ZeroCount"
		}
		return gen.FloatHistSemantic(w.H.ToFloat(nil), g.H.ToFloat(nil), true)
	case w.FH != nil:
		if g.FH == nil {
			return "expected a float histogram"
		}
		return gen.FloatHistSemantic(w.FH, g.FH, true)
	}
	return ""
}

// compareObs compares a parse with its expectation and returns the differences, the
// ones explained by a listed finding carrying its signature.
func compareObs(k fmtKind, c c35Case, want []xobs, got []obs, perr error) []diff {
	var ds []diff
	add := func(sig, format string, a ...any) {
		ds = append(ds, diff{sig, k.String() + ": " + fmt.Sprintf(format, a...)})
	}
	n := len(got)
	if perr != nil {
		sig := ""
		if k == fText && strings.Contains(perr.Error(), "expected timestamp or new record") && n < len(want) {
			// the failing line is the one that would have produced want[n]
			w := want[n]
			if w.Kind == "series" && w.HasTs && w.Ts < 0 {
				sig = "text-negative-timestamp"
			}
		}
		add(sig, "parser rejects the payload written by the reference encoder after %d entries: %v", n, perr)
		if n > len(want) {
			n = len(want)
		}
	} else if n > len(want) {
		n = len(want)
	}
	structural := perr != nil
	lastUntyped := uint64(0) // last explicitly encoded untyped value (protobuf stale value)
	lastUnit := ""           // last non-empty OpenMetrics unit (unit leak)
	lastUnitFam := -1
	for i := 0; i < n; i++ {
		w, g := want[i], got[i]
		if w.Kind != g.Kind {
			sig := ""
			if k == fProto && !c.IgnoreNH && w.met > 0 && (c.Fams[w.fam].M[w.met-1].NH == nil) != (c.Fams[w.fam].M[w.met].NH == nil) &&
				(i == 0 || want[i-1].met != w.met) {
				// first entry of a histogram whose kind (classic-only / native) differs from the
				// previous metric of the same family
				sig = "proto-mixed-histogram-family"
			}
			add(sig, "entry %d: kind %s, expected %s (got %v, expected %v)", i, g.Kind, w.Kind, g, w.obs)
			structural = true
			break // everything after is misaligned
		}
		switch w.Kind {
		case "help", "type", "unit":
			if w.Name != g.Name {
				sig := ""
				if k != fProto && hasEscapable(w.Name) && g.Name == quotedEscaper.Replace(w.Name) {
					sig = "meta-name-unescape"
				}
				add(sig, "entry %d: %s name %q, expected %q", i, w.Kind, g.Name, w.Name)
			}
			if w.Text != g.Text {
				add("", "entry %d: %s of %q is %q, expected %q", i, w.Kind, w.Name, g.Text, w.Text)
			}
			if w.Kind == "unit" && k == fOM {
				if w.Text != "" {
					lastUnit, lastUnitFam = w.Text, w.fam
				} else {
					lastUnit, lastUnitFam = "", -1
				}
			}
			continue
		}
		f := c.Fams[w.fam]
		if !lsetEq(w.L, g.L) {
			sig := ""
			if k == fOM && c.TypeUnit && lastUnit != "" && lastUnitFam != w.fam && !f.HasUnit && lsetEq(leakVariant(w, lastUnit), g.L) {
				// expected labels plus the unit of an earlier family
				sig = "om-unit-leak"
			}
			add(sig, "entry %d: labels %v, expected %v", i, [][2]string(g.L), [][2]string(w.L))
		}
		if w.Kind == "series" {
			if w.V != g.V {
				sig := ""
				if k == fProto && w.unset && lastUntyped != 0 && g.V == lastUntyped {
					sig = "proto-untyped-stale-value"
				}
				add(sig, "entry %d %v: value %v (%#x), expected %v (%#x)", i, [][2]string(w.L), gen.F(g.V), g.V, gen.F(w.V), w.V)
			}
			if k == fProto && f.typ() == dto.MetricType_UNTYPED && !w.unset {
				lastUntyped = w.V
			}
		} else if d := histDiff(w, g); d != "" {
			add("", "entry %d %v: histogram differs in %s: got %v / %v, expected %v / %v", i, [][2]string(w.L), d, g.H, g.FH, w.H, w.FH)
		}
		if w.HasTs != g.HasTs {
			sig := ""
			if nextSeriesTs(k, want, i, g) {
				sig = "nhcb-timestamp-of-next-series"
			}
			add(sig, "entry %d %v: has timestamp %v (%d), expected %v (%d)", i, [][2]string(w.L), g.HasTs, g.Ts, w.HasTs, w.Ts)
		} else if w.HasTs {
			if ok, bug := tsOK(w.omTs, w.TsF, w.Ts, g.Ts); !ok {
				sig := ""
				if bug {
					sig = "om-timestamp-float-truncation"
				}
				if nextSeriesTs(k, want, i, g) {
					sig = "nhcb-timestamp-of-next-series"
				}
				add(sig, "entry %d %v: timestamp %d, expected %d", i, [][2]string(w.L), g.Ts, w.Ts)
			}
		}
		if w.ST != g.ST {
			ok, bug := false, false
			if w.omTs && w.ST != 0 {
				ok, bug = tsOK(true, w.STF, w.ST, g.ST)
			}
			if !ok {
				sig := ""
				if bug {
					sig = "om-timestamp-float-truncation"
				}
				add(sig, "entry %d %v: start timestamp %d, expected %d", i, [][2]string(w.L), g.ST, w.ST)
			}
		}
		if len(w.Ex) != len(g.Ex) {
			sig := ""
			if k == fProto && w.Kind == "hist" && w.met > 0 && f.M[w.met-1].NH != nil && len(g.Ex) < len(w.Ex) && exSuffix(w.Ex, g.Ex) {
				// exemplars of a native histogram that follows another native histogram of the
				// same family: a leading part is missing
				sig = "proto-native-exemplar-cursor"
			}
			if k == fOM && c.Convert && c.KeepClassic && w.Kind == "series" && len(g.Ex) == 0 && strings.HasSuffix(lsetName(w.L), "_bucket") && converted(k, f) {
				// kept classic bucket series of a converted histogram: its exemplar went to the NHCB only
				sig = "nhcb-keep-classic-exemplar-consumed"
			}
			add(sig, "entry %d %v: %d exemplars %v, expected %d %v", i, [][2]string(w.L), len(g.Ex), g.Ex, len(w.Ex), w.Ex)
			continue
		}
		for j := range w.Ex {
			we, ge := w.Ex[j], g.Ex[j]
			if !lsetEq(we.L, ge.L) {
				sig := ""
				if k == fOM && !escFree(we.L) && lsetEq(escapedLset(we.L), ge.L) {
					sig = "om-exemplar-label-unescape"
				}
				add(sig, "entry %d %v: exemplar %d labels %v, expected %v", i, [][2]string(w.L), j, [][2]string(ge.L), [][2]string(we.L))
			}
			if we.V != ge.V {
				add("", "entry %d %v: exemplar %d value %v (%#x), expected %v (%#x)", i, [][2]string(w.L), j, gen.F(ge.V), ge.V, gen.F(we.V), we.V)
			}
			if we.HasTs != ge.HasTs {
				sig := ""
				if k == fOM && c.Convert && w.Kind == "hist" && !we.HasTs && ge.HasTs {
					// exemplar without timestamp inside a converted histogram that reports one
					sig = "nhcb-exemplar-stale-timestamp"
				}
				add(sig, "entry %d %v: exemplar %d has timestamp %v (%d), expected %v", i, [][2]string(w.L), j, ge.HasTs, ge.Ts, we.HasTs)
			} else if we.HasTs {
				f := 0.0
				if w.omTs && j < len(w.ExTsF) {
					f = w.ExTsF[j]
				}
				if ok, bug := tsOK(w.omTs, f, we.Ts, ge.Ts); !ok {
					sig := ""
					if bug {
						sig = "om-timestamp-float-truncation"
					}
					add(sig, "entry %d %v: exemplar %d timestamp %d, expected %d", i, [][2]string(w.L), j, ge.Ts, we.Ts)
				}
			}
		}
	}
	if !structural && len(got) != len(want) {
		add("", "%d entries parsed, %d expected (first surplus/missing: got %v, expected %v)", len(got), len(want), tailObs(got, n), tailX(want, n))
	}
	return ds
}

// nextSeriesTs: entry i is a histogram converted by the NHCB wrapper of a text format (the
// only histogram entries those formats have), the next entry of the payload is a series
// with another timestamp, and the converted histogram carries that one.
func nextSeriesTs(k fmtKind, want []xobs, i int, g obs) bool {
	if k == fProto || want[i].Kind != "hist" || i+1 >= len(want) {
		return false
	}
	n := want[i+1]
	if n.Kind != "series" && n.Kind != "hist" {
		return false
	}
	if n.raw != nil {
		n = *n.raw // with keep-classic off the next payload line is the first classic series of the next group
	}
	if n.HasTs != g.HasTs {
		return false
	}
	if !n.HasTs {
		return true
	}
	ok, _ := tsOK(n.omTs, n.TsF, n.Ts, g.Ts)
	return ok
}

func exSuffix(want, got []obsEx) bool {
	off := len(want) - len(got)
	for i := range got {
		a, b := want[off+i], got[i]
		if !lsetEq(a.L, b.L) || a.V != b.V || a.HasTs != b.HasTs || a.Ts != b.Ts {
			return false
		}
	}
	return true
}

func tailObs(o []obs, n int) any {
	if n < len(o) {
		return o[n]
	}
	return "-"
}

func tailX(o []xobs, n int) any {
	if n < len(o) {
		return o[n].obs
	}
	return "-"
}

func dropLabel(l gen.Lset, name string) gen.Lset {
	var out gen.Lset
	for _, p := range l {
		if p[0] != name {
			out = append(out, p)
		}
	}
	return out
}

// leakVariant is the label set of w when the unit of an earlier family is still active:
// __unit__ injected, a user-provided __unit__ label dropped.
func leakVariant(w xobs, unit string) gen.Lset {
	l := dropLabel(w.L, "__unit__")
	l = append(append(gen.Lset(nil), l...), [2]string{"__unit__", unit})
	return normLset(l)
}

// pickDiff prefers differences that no listed finding explains.
func pickDiff(ds []diff) error {
	if len(ds) == 0 {
		return nil
	}
	for _, d := range ds {
		if d.sig == "" {
			return ev.Failf("%s", d.msg)
		}
	}
	return ev.FailSig(ds[0].sig, "%s", ds[0].msg)
}

// ---------------------------------------------------------------- run

func (c c35Case) parserOpts() textparse.ParserOptions {
	return textparse.ParserOptions{
		EnableTypeAndUnitLabels:                 c.TypeUnit,
		IgnoreNativeHistograms:                  c.IgnoreNH,
		KeepClassicOnClassicAndNativeHistograms: c.KeepClassic,
		OpenMetricsSkipSTSeries:                 c.SkipST,
	}
}

func (c c35Case) omEncodable() bool {
	for _, f := range c.Fams {
		for _, m := range f.M {
			if m.CountF != 0 {
				return false
			}
			for _, b := range m.B {
				if b.CumF != 0 {
					return false
				}
			}
		}
	}
	return true
}

func validateFams(fams []xFam) error {
	for _, f := range fams {
		if len(f.M) == 0 {
			return fmt.Errorf("family %q has no metric", f.Name)
		}
		for _, m := range f.M {
			if m.NH != nil {
				var err error
				if m.NH.Float {
					err = m.NH.FloatH().Validate()
				} else {
					err = m.NH.Int().Validate()
				}
				if err != nil {
					return err
				}
			}
		}
	}
	return nil
}

func runC35(c c35Case, r *ev.Rec) error {
	if len(c.Fams) == 0 || validateFams(c.Fams) != nil {
		r.Discard()
		return nil
	}
	formats := []fmtKind{fText, fOM, fProto}
	if !c.omEncodable() {
		formats = []fmtKind{fText, fProto}
		r.Class("no-openmetrics(float classic counts)")
	}
	var all []diff
	for _, k := range formats {
		payload, err := encode(k, c.Fams, c.Created)
		if err != nil {
			// the encoder refuses the input: generator problem, not a parser property
			r.Discard()
			r.Class("encoder-refused")
			return nil
		}
		p, err := textparse.New(payload, k.contentType(), labels.NewSymbolTable(), c.parserOpts())
		if p == nil || err != nil {
			return ev.Failf("%s: textparse.New: parser %v, error %v", k, p != nil, err)
		}
		callST := k == fProto || (k == fOM && c.SkipST)
		got, perr := drain(p, drainOpts{CallST: callST, MaxNext: 8*len(payload) + 64})
		want := expectC35(k, c)
		ds := compareObs(k, c, want, got, perr)
		if len(ds) > 0 && k != fProto {
			ds[0].msg += "\npayload:\n" + string(payload)
		}
		all = append(all, ds...)
	}
	classifyC35(c, r)
	return pickDiff(all)
}

func classifyC35(c c35Case, r *ev.Rec) {
	complex, escaped, exemplars, native, utf8names, ts, st := 0, 0, 0, 0, 0, 0, 0
	for _, f := range c.Fams {
		r.Class("type:" + f.typ().String())
		if f.typ() == dto.MetricType_SUMMARY || isHistType(f.typ()) {
			complex++
		}
		if !isLegacyName(f.Name) {
			utf8names++
		}
		for _, m := range f.M {
			for _, p := range m.L {
				if hasEscapable(p[1]) || !model.LegacyValidation.IsValidLabelName(p[0]) || !isASCII(p[1]) {
					escaped++
				}
			}
			if m.Ex != nil || len(m.NHEx) > 0 {
				exemplars++
			}
			for _, b := range m.B {
				if b.Ex != nil {
					exemplars++
				}
			}
			if m.NH != nil {
				native++
			}
			if m.HasTs {
				ts++
			}
			if m.HasST {
				st++
			}
		}
	}
	flag := func(name string, n int) {
		if n > 0 {
			r.Class(name)
		}
	}
	flag("has-escaped-or-utf8-label", escaped)
	flag("has-exemplar", exemplars)
	flag("has-native-histogram", native)
	flag("has-utf8-family-name", utf8names)
	flag("has-timestamp", ts)
	flag("has-created-timestamp", st)
	if c.Trig {
		r.Class("trigger-shapes-allowed")
	}
	if c.Avoided > 0 {
		r.Count("avoided-trigger-shapes", c.Avoided)
	}
	if c.TypeUnit {
		r.Class("opt:type-and-unit-labels")
	}
	if c.SkipST {
		r.Class("opt:skip-st-series+StartTimestamp")
	}
	if c.IgnoreNH {
		r.Class("opt:ignore-native")
	}
	if len(c.Fams) >= 2 && (complex > 0 || escaped > 0 || exemplars > 0) {
		r.NonTrivial()
	}
}

func isASCII(s string) bool {
	for i := 0; i < len(s); i++ {
		if s[i] >= 0x80 {
			return false
		}
	}
	return true
}

func TestC35(t *testing.T) {
	ev.Check(t, "C35",
		"1-8 generated metric families (counter, gauge, untyped, summary, classic/gauge/native histogram; UTF-8 and escaped names and label values, explicit timestamps, created timestamps, exemplars, help/unit, special floats, unset values) encoded by prometheus/common/expfmt as text 0.0.4, OpenMetrics 1.0 (+_created lines) and delimited protobuf, parsed by textparse.New under drawn ParserOptions; every entry (metadata, labels, value bits, timestamp, start timestamp, exemplars, native histogram) must equal the expansion of the input by the documented naming rules of that format. Non-trivial: >= 2 families with >= 1 histogram/summary or an escaped/UTF-8 label or an exemplar; distinct by hash of the case.",
		genC35, runC35)
}

// ---------------------------------------------------------------- totality on mutated payloads

type c35Mut struct {
	Op  int // 0 flip bit, 1 set byte, 2 delete range, 3 insert token, 4 truncate, 5 duplicate range, 6 swap with token
	Pos int // position, taken modulo the current length
	Arg int
	Tok int
}

type c35TotalCase struct {
	Base   c35Case
	Format int
	Muts   []c35Mut
	Opts   [4]bool // type-and-unit, ignore native, keep classic, convert NHCB
	SkipST bool
	// Raw: when non-empty this payload is parsed as is (regression replays)
	Raw string `json:",omitempty"`
}

var mutTokens = []string{
	"\n", "# ", "# HELP ", "# TYPE ", "# UNIT ", "# EOF\n", "# EOF", "{", "}", "\"", "\\", "=", ",", " ", "  ", "\t", "#", " # {", "le=\"", "quantile=\"",
	"+Inf", "-Inf", "NaN", "1e309", "0x1p3", "1_0", "-", "+", ".", "e", "\x00", "\xff", "\xc3", "histogram", "summary", "counter", "gauge", "unknown", "info", "stateset", "gaugehistogram",
	"_total", "_created", "_bucket", "_sum", "_count", "{\"", "\"}", "a{", "a ", "1 ", " 1", " 1 1\n", "{} ", "{,}", "{a=\"b\",}", "{\"a\"}", "\"=\"",
	"\x80\x80\x80\x80\x80\x80\x80\x80\x80\x80\x01", "\x0a", "\x12", "\x22", "\x3a", "\x1a", "\x00\x00", "\x7f", "\x08", "\x10", "\x18", "\xff\xff\xff\xff\x0f",
}

func genC35Total(t *rapid.T) c35TotalCase {
	c := c35TotalCase{Format: rapid.IntRange(0, 2).Draw(t, "format"), SkipST: rapid.Bool().Draw(t, "skipst")}
	avoided := 0
	o := famGenOpts{trig: rapid.IntRange(0, 4).Draw(t, "trig") == 0, allowUTF8: rapid.Bool().Draw(t, "utf8"), allowNH: true, allowFloat: c.Format != 1 && rapid.IntRange(0, 4).Draw(t, "fl") == 0,
		types: allTypes, avoided: &avoided}
	used := map[string]bool{}
	n := rapid.IntRange(1, 3).Draw(t, "nfam")
	for i := 0; i < n; i++ {
		c.Base.Fams = append(c.Base.Fams, genFam(t, o, used, false))
	}
	c.Base.Created = rapid.Bool().Draw(t, "created")
	for i := range c.Opts {
		c.Opts[i] = rapid.Bool().Draw(t, "opt")
	}
	nm := rapid.IntRange(1, 6).Draw(t, "nmut")
	for i := 0; i < nm; i++ {
		c.Muts = append(c.Muts, c35Mut{
			Op:  rapid.IntRange(0, 6).Draw(t, "op"),
			Pos: rapid.IntRange(0, 1<<20).Draw(t, "pos"),
			Arg: rapid.IntRange(0, 255).Draw(t, "arg"),
			Tok: rapid.IntRange(0, len(mutTokens)-1).Draw(t, "tok"),
		})
	}
	return c
}

func applyMuts(b []byte, muts []c35Mut) []byte {
	b = append([]byte(nil), b...)
	for _, m := range muts {
		if len(b) == 0 {
			b = append(b, mutTokens[m.Tok%len(mutTokens)]...)
			continue
		}
		p := m.Pos % len(b)
		switch m.Op {
		case 0:
			b[p] ^= 1 << (m.Arg % 8)
		case 1:
			b[p] = byte(m.Arg)
		case 2:
			e := p + 1 + m.Arg%16
			if e > len(b) {
				e = len(b)
			}
			b = append(b[:p], b[e:]...)
		case 3:
			tok := mutTokens[m.Tok%len(mutTokens)]
			b = append(b[:p], append([]byte(tok), b[p:]...)...)
		case 4:
			b = b[:p]
		case 5:
			e := p + 1 + m.Arg%32
			if e > len(b) {
				e = len(b)
			}
			b = append(b[:e], append(append([]byte(nil), b[p:e]...), b[e:]...)...)
		default:
			tok := mutTokens[m.Tok%len(mutTokens)]
			e := p + len(tok)
			if e > len(b) {
				e = len(b)
			}
			b = append(b[:p], append([]byte(tok), b[e:]...)...)
		}
	}
	return b
}

// drainRecover is drain with a panic of the parser turned into text (value + stack).
func drainRecover(p textparse.Parser, o drainOpts) (got []obs, err error, pan string) {
	defer func() {
		if r := recover(); r != nil {
			pan = fmt.Sprintf("panic: %v\n%s", r, debug.Stack())
		}
	}()
	got, err = drain(p, o)
	return got, err, ""
}

func runC35Total(c c35TotalCase, r *ev.Rec) error {
	if c.Format < 0 || c.Format > 2 || (c.Raw == "" && (len(c.Base.Fams) == 0 || validateFams(c.Base.Fams) != nil)) {
		r.Discard()
		return nil
	}
	k := fmtKind(c.Format)
	var valid, payload []byte
	if c.Raw != "" {
		payload = []byte(c.Raw)
		r.Class("raw-regression-payload")
	} else {
		var err error
		valid, err = encode(k, c.Base.Fams, c.Base.Created)
		if err != nil {
			r.Discard()
			return nil
		}
		payload = applyMuts(valid, c.Muts)
	}
	opts := textparse.ParserOptions{
		EnableTypeAndUnitLabels:                 c.Opts[0],
		IgnoreNativeHistograms:                  c.Opts[1],
		KeepClassicOnClassicAndNativeHistograms: c.Opts[2],
		ConvertClassicHistogramsToNHCB:          c.Opts[3],
		OpenMetricsSkipSTSeries:                 c.SkipST,
	}
	// the parsers may keep references into (and PromParser appends to) the slice
	in := append(make([]byte, 0, len(payload)+8), payload...)
	p, nerr := textparse.New(in, k.contentType(), labels.NewSymbolTable(), opts)
	if p == nil {
		return ev.Failf("%s: textparse.New returned no parser for a supported content type: %v", k, nerr)
	}
	// plain pass: Next + the accessors of the entry, no StartTimestamp
	got, perr, pan := drainRecover(p, drainOpts{MaxNext: 8*len(payload) + 64})
	if pan != "" {
		return ev.Failf("%s: panic while parsing %.400q\n%s", k, payload, pan)
	}
	if perr == errTooManyEntries {
		return ev.Failf("%s: more than %d entries from a %d byte payload %.300q", k, 8*len(payload)+64, len(payload), payload)
	}
	// second pass with StartTimestamp, in the order the scrape loop uses
	if k == fProto || c.SkipST {
		in2 := append(make([]byte, 0, len(payload)+8), payload...)
		p2, _ := textparse.New(in2, k.contentType(), labels.NewSymbolTable(), opts)
		if p2 != nil {
			_, perr2, pan2 := drainRecover(p2, drainOpts{CallST: true, MaxNext: 8*len(payload) + 64})
			if pan2 != "" {
				return ev.Failf("%s (with StartTimestamp): panic while parsing %.400q\n%s", k, payload, pan2)
			}
			if perr2 == errTooManyEntries {
				return ev.Failf("%s (with StartTimestamp): more than %d entries from a %d byte payload %.300q", k, 8*len(payload)+64, len(payload), payload)
			}
			if (perr == nil) != (perr2 == nil) {
				return ev.Failf("%s: calling StartTimestamp changes the outcome: plain pass ended with %v, with StartTimestamp %v; payload %.300q", k, perr, perr2, payload)
			}
			r.Class("st-pass")
		}
	}
	_ = got // entries are only required to exist or an error to be returned; their content is the round-trip part's business
	r.Class("format:" + k.String())
	switch {
	case perr != nil && len(got) > 0:
		r.Class("entries-then-error")
	case perr != nil:
		r.Class("error-at-once")
	default:
		r.Class("accepted")
	}
	if string(payload) != string(valid) {
		r.NonTrivial()
	}
	return nil
}

func TestC35Total(t *testing.T) {
	ev.Check(t, "C35",
		"totality: a valid payload (1-3 generated families, any of the three formats) damaged by 1-6 generated byte mutations (bit flip, byte set, delete, token insert from a format dictionary, truncate, duplicate, overwrite), parsed under drawn ParserOptions incl. NHCB conversion with every accessor that is legal for the returned entry called: Next must end with entries or an error within 8*len+64 calls, no panic, no histogram entry without histogram. Non-trivial: the mutated payload differs from the valid one; distinct by hash of the case.",
		genC35Total, runC35Total, ev.Opts{Part: "total"})
}
