package expo

import (
	"bytes"
	"fmt"
	"math"
	"sort"
	"strings"
	"testing"

	dto "github.com/prometheus/client_model/go"
	"pgregory.net/rapid"

	"github.com/prometheus/prometheus/model/histogram"
	"github.com/prometheus/prometheus/model/labels"
	"github.com/prometheus/prometheus/model/textparse"

	"verifharness/internal/ev"
	"verifharness/internal/gen"
)

// C36 — classic histograms convert to custom-bucket native histograms (NHCB) without loss.

type c36Case struct {
	Fams     []xFam
	Format   int    // fmtKind
	Keep     bool   // KeepClassicOnClassicAndNativeHistograms
	IgnoreNH bool   // IgnoreNativeHistograms (protobuf)
	Created  bool   // OpenMetrics _created lines
	SkipST   bool   // OpenMetricsSkipSTSeries (+ StartTimestamp is asked for)
	Perm     uint32 // != 0: bucket lines of text/OpenMetrics payloads are written in a permuted order
	// DropInf lists histogram metrics (index over all histogram metrics of the payload, in
	// order) whose le="+Inf" line is removed from a text/OpenMetrics payload; for protobuf the
	// +Inf bucket is simply absent from the message when the generator left it out.
	DropInf []int `json:",omitempty"`
	// Trig: the shapes of the listed C36 findings are allowed: label sets of one histogram family
	// with different timestamps / a _created line without timestamp after a timestamped group
	// (nhcb-timestamp-of-next-series); OpenMetrics bucket exemplars together with keep-classic
	// (nhcb-keep-classic-exemplar-consumed)
	Trig    bool `json:",omitempty"`
	Avoided int  `json:",omitempty"`
}

// ---------------------------------------------------------------- generator

var c36Types = []dto.MetricType{dto.MetricType_HISTOGRAM, dto.MetricType_HISTOGRAM, dto.MetricType_HISTOGRAM, dto.MetricType_HISTOGRAM,
	dto.MetricType_GAUGE_HISTOGRAM, dto.MetricType_COUNTER, dto.MetricType_GAUGE, dto.MetricType_SUMMARY, dto.MetricType_UNTYPED}

func genC36(t *rapid.T) c36Case {
	c := c36Case{
		Format:   rapid.IntRange(0, 2).Draw(t, "format"),
		Keep:     rapid.Bool().Draw(t, "keep"),
		IgnoreNH: rapid.IntRange(0, 2).Draw(t, "ignorenh") == 0,
		Created:  rapid.Bool().Draw(t, "created"),
		SkipST:   rapid.Bool().Draw(t, "skipst"),
		Trig:     rapid.IntRange(0, 7).Draw(t, "trig") == 0,
	}
	if rapid.IntRange(0, 2).Draw(t, "perm") == 0 {
		c.Perm = rapid.Uint32Range(1, 1<<30).Draw(t, "permseed")
	}
	avoided := 0
	k := fmtKind(c.Format)
	o := famGenOpts{trig: false, allowUTF8: rapid.IntRange(0, 2).Draw(t, "utf8") == 0, allowNH: k == fProto,
		allowFloat: k != fOM && rapid.IntRange(0, 3).Draw(t, "floatcounts") == 0, types: c36Types, avoided: &avoided}
	n := rapid.IntRange(1, 5).Draw(t, "nfam")
	used := map[string]bool{}
	hm := 0
	exWithTs := false
	for i := 0; i < n; i++ {
		f := genFam(t, o, used, false)
		if isHistType(f.typ()) && k == fProto && c.IgnoreNH {
			// With native parts ignored it is not specified which exemplar list (native list or
			// classic buckets) a converted histogram carries: keep exemplars on the buckets only.
			for mi := range f.M {
				if len(f.M[mi].NHEx) > 0 {
					f.M[mi].NHEx = nil
					avoided++
				}
			}
		}
		if isHistType(f.typ()) && !c.Trig && k == fOM {
			// nhcb-exemplar-stale-timestamp shape: an exemplar without timestamp after one with
			for mi := range f.M {
				for bi := range f.M[mi].B {
					if e := f.M[mi].B[bi].Ex; e != nil && !e.HasTs && exWithTs {
						e.HasTs, e.Sec, e.Nanos = true, 1_700_000_000, 0
						avoided++
					} else if e != nil && e.HasTs {
						exWithTs = true
					}
				}
			}
		}
		if isHistType(f.typ()) && !c.Trig {
			for mi := range f.M {
				if k == fOM && c.Keep {
					for bi := range f.M[mi].B {
						if f.M[mi].B[bi].Ex != nil {
							f.M[mi].B[bi].Ex = nil
							avoided++
						}
					}
				}
				if mi > 0 && (f.M[mi].HasTs != f.M[0].HasTs || f.M[mi].Ts != f.M[0].Ts) {
					f.M[mi].HasTs, f.M[mi].Ts = f.M[0].HasTs, f.M[0].Ts
					avoided++
				}
				if k == fOM && c.Created && !c.SkipST && f.M[mi].HasTs && f.M[mi].HasST {
					f.M[mi].HasST, f.M[mi].STSec, f.M[mi].STNanos = false, 0, 0
					avoided++
				}
			}
		}
		if isHistType(f.typ()) {
			for range f.M {
				if k != fProto && rapid.IntRange(0, 3).Draw(t, "dropinf") == 0 {
					c.DropInf = append(c.DropInf, hm)
				}
				hm++
			}
		}
		c.Fams = append(c.Fams, f)
	}
	c.Avoided = avoided
	return c
}

// ---------------------------------------------------------------- reference conversion

type nhcbWant struct {
	Float  bool
	Bounds []uint64          // finite upper bounds, ascending (float64 bits)
	Counts map[int32]float64 // bucket index -> count (non-zero only); index len(Bounds) is the +Inf bucket
	Count  float64
	Sum    uint64
	Gauge  bool
}

func isWhole(f float64) bool { return f == math.Trunc(f) && !math.IsInf(f, 0) }

// convertClassic is the independent conversion of one classic histogram: custom bounds =
// finite le values, de-cumulated counts, count, sum.
func convertClassic(m xMetric, dropInf, textual bool) nhcbWant {
	type bk struct{ le, v float64 }
	var bs []bk
	vinf := math.NaN()
	for _, b := range m.B {
		le := gen.F(b.Bound)
		v := gen.F(bucketValue(b))
		if math.IsInf(le, 1) {
			if !dropInf {
				vinf = v
			}
			continue
		}
		bs = append(bs, bk{le, v})
	}
	sort.Slice(bs, func(i, j int) bool { return bs[i].le < bs[j].le })
	count := gen.F(classicCount(m))
	if math.IsNaN(vinf) {
		vinf = count // no +Inf bucket: everything above the last bound
	}
	w := nhcbWant{Counts: map[int32]float64{}, Count: count, Sum: m.Sum}
	if textual {
		w.Sum = textValue(m.Sum)
	}
	whole := isWhole(count) && isWhole(vinf)
	prev := 0.0
	for i, b := range bs {
		w.Bounds = append(w.Bounds, gen.B(b.le))
		if d := b.v - prev; d != 0 {
			w.Counts[int32(i)] = d
		}
		prev = b.v
		whole = whole && isWhole(b.v)
	}
	if d := vinf - prev; d != 0 {
		w.Counts[int32(len(bs))] = d
	}
	w.Float = !whole
	return w
}

func nhcbDiff(w *nhcbWant, g obs) string {
	var (
		schema  int32
		cv      []float64
		count   float64
		sum     uint64
		zero    float64
		pos     map[int32]float64
		negs    int
		isFloat bool
		hint    histogram.CounterResetHint
	)
	switch {
	case g.H != nil:
		h := g.H
		schema, cv, count, sum, zero, hint = h.Schema, h.CustomValues, float64(h.Count), gen.B(h.Sum), float64(h.ZeroCount), h.CounterResetHint
		pos = map[int32]float64{}
		for k, v := range gen.IntBucketMap(h.PositiveSpans, h.PositiveBuckets) {
			pos[k] = float64(v)
		}
		negs = len(h.NegativeSpans) + len(h.NegativeBuckets)
		if err := h.Validate(); err != nil {
			return "Validate: " + err.Error()
		}
	case g.FH != nil:
		h := g.FH
		isFloat = true
		schema, cv, count, sum, zero, hint = h.Schema, h.CustomValues, h.Count, gen.B(h.Sum), h.ZeroCount, h.CounterResetHint
		pos = gen.BucketMap(h.PositiveSpans, h.PositiveBuckets)
		negs = len(h.NegativeSpans) + len(h.NegativeBuckets)
		if err := h.Validate(); err != nil {
			return "Validate: " + err.Error()
		}
	default:
		return "no histogram returned"
	}
	switch {
	case isFloat != w.Float:
		return fmt.Sprintf("flavour (float=%v, expected float=%v)", isFloat, w.Float)
	case schema != histogram.CustomBucketsSchema:
		return fmt.Sprintf("schema %d", schema)
	case negs != 0 || zero != 0:
		return "negative or zero buckets present"
	case count != w.Count:
		return fmt.Sprintf("count %v, expected %v", count, w.Count)
	case sum != w.Sum:
		return fmt.Sprintf("sum %v (%#x), expected %v (%#x)", gen.F(sum), sum, gen.F(w.Sum), w.Sum)
	case len(cv) != len(w.Bounds):
		return fmt.Sprintf("custom bounds %v, expected %v", cv, floats(w.Bounds))
	case (hint == histogram.GaugeType) != w.Gauge:
		return fmt.Sprintf("counter reset hint %v, expected gauge=%v", hint, w.Gauge)
	}
	for i := range cv {
		if gen.B(cv[i]) != w.Bounds[i] {
			return fmt.Sprintf("custom bounds %v, expected %v", cv, floats(w.Bounds))
		}
	}
	if len(pos) != len(w.Counts) {
		return fmt.Sprintf("bucket counts %v, expected %v", pos, w.Counts)
	}
	for k, v := range w.Counts {
		if pos[k] != v {
			return fmt.Sprintf("bucket counts %v, expected %v", pos, w.Counts)
		}
	}
	return ""
}

func floats(b []uint64) []float64 {
	var o []float64
	for _, x := range b {
		o = append(o, gen.F(x))
	}
	return o
}

// ---------------------------------------------------------------- payload and expectation

// permuted returns the families with the bucket order of every classic histogram permuted
// (deterministically from seed): text formats put no order on the bucket lines of a group.
func permuted(fams []xFam, seed uint32) []xFam {
	if seed == 0 {
		return fams
	}
	out := make([]xFam, len(fams))
	x := uint64(seed)
	next := func(n int) int {
		x = x*6364136223846793005 + 1442695040888963407
		return int((x >> 33) % uint64(n))
	}
	for i, f := range fams {
		nf := f
		nf.M = append([]xMetric(nil), f.M...)
		for j := range nf.M {
			b := append([]xBucket(nil), nf.M[j].B...)
			for k := len(b) - 1; k > 0; k-- {
				r := next(k + 1)
				b[k], b[r] = b[r], b[k]
			}
			nf.M[j].B = b
		}
		out[i] = nf
	}
	return out
}

var infLineMark = []byte(`le="+Inf"} `)

// dropInfLines removes the le="+Inf" bucket line of the listed histogram metrics (numbered
// in order of appearance). A label value cannot contain the marker because the encoder
// escapes double quotes inside values; comment lines are skipped.
func dropInfLines(payload []byte, drop []int) []byte {
	if len(drop) == 0 {
		return payload
	}
	want := map[int]bool{}
	for _, d := range drop {
		want[d] = true
	}
	var out []byte
	n := 0
	for _, line := range bytes.SplitAfter(payload, []byte("\n")) {
		if len(line) > 0 && line[0] != '#' {
			body := line
			if i := bytes.Index(line, []byte(" # {")); i >= 0 {
				body = line[:i+1]
			}
			if bytes.Contains(body, infLineMark) {
				n++
				if want[n-1] {
					continue
				}
			}
		}
		out = append(out, line...)
	}
	return out
}

func (c c36Case) asC35() c35Case {
	return c35Case{Fams: c.Fams, Created: c.Created, SkipST: c.SkipST, IgnoreNH: c.IgnoreNH, KeepClassic: c.Keep, Convert: true}
}

// converted reports whether the parser of format k converts classic histograms of family f.
func converted(k fmtKind, f xFam) bool {
	switch f.typ() {
	case dto.MetricType_HISTOGRAM:
		return true
	case dto.MetricType_GAUGE_HISTOGRAM:
		// text renders it as "histogram"; the OpenMetrics type "gaugehistogram" is documented
		// as not considered by the NHCB wrapper; protobuf converts it with the gauge hint
		return k != fOM
	}
	return false
}

type x36 struct {
	xobs
	nhcb *nhcbWant
}

func isClassicName(name, base string) bool {
	return name == base+"_bucket" || name == base+"_sum" || name == base+"_count"
}

func lsetName(l gen.Lset) string {
	for _, p := range l {
		if p[0] == "__name__" {
			return p[1]
		}
	}
	return ""
}

// expectC36 derives the expected entry sequence: the unconverted expansion of the input
// (as in C35) in which every classic histogram group is replaced by (keep: followed by)
// one NHCB entry placed after the last series of the group.
func expectC36(k fmtKind, c c36Case, fams []xFam) []x36 {
	cc := c.asC35()
	cc.Fams = fams
	base := expectC35(k, cc)
	dropped := map[[2]int]bool{}
	hm := 0
	dropSet := map[int]bool{}
	for _, d := range c.DropInf {
		dropSet[d] = true
	}
	for fi, f := range fams {
		if isHistType(f.typ()) {
			for mi := range f.M {
				if k != fProto && dropSet[hm] {
					dropped[[2]int{fi, mi}] = true
				}
				hm++
			}
		}
	}
	// lines removed from the payload are gone for converted and unconverted families alike
	kept := base[:0:0]
	for _, b := range base {
		if b.Kind == "series" && dropped[[2]int{b.fam, b.met}] && lsetName(b.L) == fams[b.fam].Name+"_bucket" && labelValue(b.L, "le") == "+Inf" {
			continue
		}
		kept = append(kept, b)
	}
	base = kept
	var out []x36
	emit := func(fi, mi int, first, last xobs, exs []obsEx, exF []float64) {
		f, m := fams[fi], fams[fi].M[mi]
		w := convertClassic(m, dropped[[2]int{fi, mi}], k != fProto)
		w.Gauge = k == fProto && f.typ() == dto.MetricType_GAUGE_HISTOGRAM
		x := xobs{fam: fi, met: mi, omTs: last.omTs, TsF: last.TsF, STF: last.STF}
		x.Kind = "hist"
		x.L = dropLabel(dropLabel(last.L, "le"), "__name__")
		x.L = normLset(append(append(gen.Lset(nil), x.L...), [2]string{"__name__", f.Name}))
		x.HasTs, x.Ts, x.ST = last.HasTs, last.Ts, last.ST
		x.Ex, x.ExTsF = exs, exF
		fc := first
		x.raw = &fc
		out = append(out, x36{xobs: x, nhcb: &w})
	}
	i := 0
	for i < len(base) {
		x := base[i]
		f := xFam{}
		if x.fam >= 0 && x.fam < len(fams) {
			f = fams[x.fam]
		}
		name := lsetName(x.L)
		// a series that already has an exponential histogram (protobuf, native parts not
		// ignored) gets no NHCB: its classic series, if kept, pass through unchanged
		hasNative := k == fProto && !c.IgnoreNH && x.met >= 0 && x.met < len(f.M) && f.M[x.met].NH != nil
		if x.Kind != "series" || !converted(k, f) || !isClassicName(name, f.Name) || hasNative {
			out = append(out, x36{xobs: x})
			i++
			continue
		}
		// a classic group: consecutive classic series of the same metric
		fi, mi := x.fam, x.met
		var exs []obsEx
		var exF []float64
		var first, last xobs
		seen := false
		for i < len(base) && base[i].Kind == "series" && base[i].fam == fi && base[i].met == mi && isClassicName(lsetName(base[i].L), f.Name) {
			b := base[i]
			i++
			last = b
			if !seen {
				first, seen = b, true
			}
			if k == fProto {
				// protobuf: exemplars of a native histogram entry must carry a timestamp
				for j, e := range b.Ex {
					if e.HasTs {
						exs = append(exs, e)
						exF = append(exF, b.ExTsF[j])
					}
				}
			} else {
				exs = append(exs, b.Ex...)
				exF = append(exF, b.ExTsF...)
			}
			if c.Keep {
				out = append(out, x36{xobs: b})
			}
		}
		emit(fi, mi, first, last, exs, exF)
	}
	return out
}

func labelValue(l gen.Lset, name string) string {
	for _, p := range l {
		if p[0] == name {
			return p[1]
		}
	}
	return ""
}

// ---------------------------------------------------------------- run

func runC36(c c36Case, r *ev.Rec) error {
	if c.Format < 0 || c.Format > 2 || len(c.Fams) == 0 || validateFams(c.Fams) != nil {
		r.Discard()
		return nil
	}
	k := fmtKind(c.Format)
	fams := c.Fams
	if k != fProto {
		fams = permuted(c.Fams, c.Perm)
	}
	payload, err := encode(k, fams, c.Created)
	if err != nil {
		r.Discard()
		r.Class("encoder-refused")
		return nil
	}
	if k != fProto {
		payload = dropInfLines(payload, c.DropInf)
	}
	opts := textparse.ParserOptions{
		ConvertClassicHistogramsToNHCB:          true,
		KeepClassicOnClassicAndNativeHistograms: c.Keep,
		IgnoreNativeHistograms:                  c.IgnoreNH,
		OpenMetricsSkipSTSeries:                 c.SkipST,
	}
	in := append(make([]byte, 0, len(payload)+8), payload...)
	p, nerr := textparse.New(in, k.contentType(), labels.NewSymbolTable(), opts)
	if p == nil || nerr != nil {
		return ev.Failf("%s: textparse.New: parser %v, error %v", k, p != nil, nerr)
	}
	callST := k == fProto || (k == fOM && c.SkipST)
	got, perr := drain(p, drainOpts{CallST: callST, MaxNext: 8*len(payload) + 64})
	want := expectC36(k, c, fams)

	// entry-by-entry comparison (shared with C35), then the NHCB content
	flat := make([]xobs, len(want))
	for i := range want {
		flat[i] = want[i].xobs // for NHCB entries H/FH are nil here: content is compared by nhcbDiff below
	}
	cc := c.asC35()
	cc.Fams = fams
	ds := compareObs(k, cc, flat, got, perr)
	for i := 0; i < len(want) && i < len(got); i++ {
		if want[i].nhcb == nil || got[i].Kind != "hist" {
			continue
		}
		if d := nhcbDiff(want[i].nhcb, got[i]); d != "" {
			m := fams[want[i].fam].M[want[i].met]
			ds = append(ds, diff{"", fmt.Sprintf("%s: entry %d %v: converted histogram differs: %s; got %v / %v; classic input: buckets %s sum %v count %v",
				k, i, [][2]string(want[i].L), d, got[i].H, got[i].FH, bucketsString(m), gen.F(m.Sum), gen.F(classicCount(m)))})
		}
	}
	if len(ds) > 0 && k != fProto {
		ds[0].msg += "\npayload:\n" + string(payload)
	}

	// classes
	r.Class("format:" + k.String())
	nGroups, maxSets, missingInf, exemplars, nativeToo, mixedTs := 0, 0, 0, 0, 0, 0
	for fi, f := range fams {
		if !isHistType(f.typ()) {
			continue
		}
		if len(f.M) > maxSets {
			maxSets = len(f.M)
		}
		for mi, m := range f.M {
			nGroups++
			hasInf := false
			for _, b := range m.B {
				if math.IsInf(gen.F(b.Bound), 1) {
					hasInf = true
				}
				if b.Ex != nil {
					exemplars++
				}
			}
			if (k == fProto && !hasInf) || (k != fProto && droppedIdx(c, fams, fi, mi)) {
				missingInf++
			}
			if m.NH != nil {
				nativeToo++
			}
			if mi > 0 && (m.HasTs != f.M[mi-1].HasTs || m.Ts != f.M[mi-1].Ts) {
				mixedTs++
			}
		}
	}
	flag := func(name string, n int) {
		if n > 0 {
			r.Class(name)
		}
	}
	flag("missing-inf-bucket", missingInf)
	flag("bucket-exemplars", exemplars)
	flag("native-and-classic", nativeToo)
	flag("label-sets-with-different-timestamps", mixedTs)
	flag(">=2-label-sets", maxSets-1)
	if c.Keep {
		r.Class("keep-classic")
	}
	if c.Trig {
		r.Class("trigger-shapes-allowed")
	}
	if c.Avoided > 0 {
		r.Count("avoided-trigger-shapes", c.Avoided)
	}
	if c.Perm != 0 && k != fProto {
		r.Class("bucket-lines-permuted")
	}
	if nGroups > 0 && (maxSets >= 2 || missingInf > 0) {
		r.NonTrivial()
	}
	return pickDiff(ds)
}

func droppedIdx(c c36Case, fams []xFam, fi, mi int) bool {
	hm := 0
	for i, f := range fams {
		if !isHistType(f.typ()) {
			continue
		}
		for j := range f.M {
			if i == fi && j == mi {
				for _, d := range c.DropInf {
					if d == hm {
						return true
					}
				}
				return false
			}
			hm++
		}
	}
	return false
}

func bucketsString(m xMetric) string {
	var sb strings.Builder
	for _, b := range m.B {
		fmt.Fprintf(&sb, "[le=%v:%v]", gen.F(b.Bound), gen.F(bucketValue(b)))
	}
	return sb.String()
}

func TestC36(t *testing.T) {
	ev.Check(t, "C36",
		"1-5 generated families, mostly classic histograms (1-4 label sets, 0-8 finite bounds, +Inf bucket present/absent/line removed, integer or float counts, bucket exemplars, created timestamps, per-label-set timestamps, bucket lines in permuted order, optional exponential histogram on the same series in protobuf) next to counters/gauges/summaries, encoded by expfmt as text, OpenMetrics or protobuf and parsed with ConvertClassicHistogramsToNHCB, keep-classic on/off; the entry sequence must be the unconverted expansion with every classic group replaced (keep: followed) by one NHCB whose bounds, de-cumulated counts, count, sum, timestamp, start timestamp and exemplars are converted independently from the generated family. Non-trivial: a histogram family with >= 2 label sets or a missing +Inf bucket; distinct by hash of the case.",
		genC36, runC36)
}
