package expo

import (
	"context"
	"crypto/sha1"
	"encoding/hex"
	"errors"
	"fmt"
	"io"
	"math"
	"os"
	"os/exec"
	"path/filepath"
	"sort"
	"strconv"
	"strings"
	"sync"
	"syscall"
	"testing"
	"time"

	"pgregory.net/rapid"

	"github.com/prometheus/prometheus/model/labels"
	"github.com/prometheus/prometheus/tsdb"
	"github.com/prometheus/prometheus/tsdb/chunkenc"

	"verifharness/internal/ev"
	"verifharness/internal/gen"
)

// C50 — backfilled blocks contain exactly the input samples.
//
// The user-facing interface is the promtool binary, so the check builds it from the
// repository under test (VERIF_REPO when set, else /repo) and runs
// `promtool tsdb create-blocks-from openmetrics <in> <out>` on generated input.

const (
	goToolchainBin = "/root/go/pkg/mod/golang.org/toolchain@v0.0.1-go1.25.10.linux-amd64/bin"
	blockWindow    = int64(2 * 60 * 60 * 1000)
)

var (
	promtoolOnce sync.Once
	promtoolPath string
	promtoolErr  error
	promtoolDir  string
)

func repoDir() string {
	if r := strings.TrimRight(os.Getenv("VERIF_REPO"), "/"); r != "" {
		return r
	}
	return "/repo"
}

func copyFile(src, dst string, mode os.FileMode) error {
	in, err := os.Open(src)
	if err != nil {
		return err
	}
	defer in.Close()
	tmp := dst + ".tmp"
	out, err := os.OpenFile(tmp, os.O_CREATE|os.O_TRUNC|os.O_WRONLY, mode)
	if err != nil {
		return err
	}
	if _, err := io.Copy(out, in); err != nil {
		out.Close()
		return err
	}
	if err := out.Close(); err != nil {
		return err
	}
	return os.Rename(tmp, dst)
}

// promtool builds cmd/promtool of the repository under test once per test process and
// returns the path of a private copy of the binary. The build runs `go build -o
// <cache>/promtool ./cmd/promtool` inside the repository with a copy of go.mod/go.sum
// passed via -modfile, so the repository's own go.mod/go.sum are never written. The cache
// directory is keyed by the repository path and guarded by a file lock: the go tool
// decides whether anything has to be recompiled or relinked, concurrent shards only wait.
func promtool() (string, error) {
	promtoolOnce.Do(func() {
		repo := repoDir()
		sum := sha1.Sum([]byte(repo))
		cache := filepath.Join("/tmp", "verif-c50-promtool", hex.EncodeToString(sum[:6]))
		if err := os.MkdirAll(cache, 0o755); err != nil {
			promtoolErr = err
			return
		}
		lock, err := os.OpenFile(filepath.Join(cache, "lock"), os.O_CREATE|os.O_RDWR, 0o644)
		if err != nil {
			promtoolErr = err
			return
		}
		defer lock.Close()
		if err := syscall.Flock(int(lock.Fd()), syscall.LOCK_EX); err != nil {
			promtoolErr = err
			return
		}
		defer syscall.Flock(int(lock.Fd()), syscall.LOCK_UN)
		for _, f := range []string{"go.mod", "go.sum"} {
			if err := copyFile(filepath.Join(repo, f), filepath.Join(cache, f), 0o644); err != nil {
				promtoolErr = err
				return
			}
		}
		ctx, cancel := context.WithTimeout(context.Background(), 40*time.Minute)
		defer cancel()
		cmd := exec.CommandContext(ctx, filepath.Join(goToolchainBin, "go"), "build", "-modfile="+filepath.Join(cache, "go.mod"),
			"-o", filepath.Join(cache, "promtool"), "./cmd/promtool")
		cmd.Dir = repo
		env := []string{}
		for _, e := range os.Environ() {
			if strings.HasPrefix(e, "GOFLAGS=") || strings.HasPrefix(e, "GOWORK=") || strings.HasPrefix(e, "PATH=") || strings.HasPrefix(e, "TMPDIR=") {
				continue
			}
			env = append(env, e)
		}
		env = append(env, "PATH="+goToolchainBin+":"+os.Getenv("PATH"), "GOFLAGS=-mod=mod", "GOPROXY=off", "GOSUMDB=off", "GOTOOLCHAIN=local", "GOWORK=off", "TMPDIR=/tmp")
		cmd.Env = env
		out, err := cmd.CombinedOutput()
		if err != nil {
			promtoolErr = fmt.Errorf("go build ./cmd/promtool in %s: %v\n%s", repo, err, out)
			return
		}
		dir, err := os.MkdirTemp("", "c50bin")
		if err != nil {
			promtoolErr = err
			return
		}
		promtoolDir = dir
		promtoolPath = filepath.Join(dir, "promtool")
		promtoolErr = copyFile(filepath.Join(cache, "promtool"), promtoolPath, 0o755)
	})
	return promtoolPath, promtoolErr
}

func TestMain(m *testing.M) {
	code := m.Run()
	if promtoolDir != "" {
		os.RemoveAll(promtoolDir)
	}
	os.Exit(code)
}

// ---------------------------------------------------------------- case

type c50Series struct {
	Name string
	L    gen.Lset `json:",omitempty"`
}

type c50Line struct {
	S    int    // series index
	Ts   int64  // milliseconds
	NoTs bool   `json:",omitempty"`
	V    uint64 // float64 bits
}

type c50Case struct {
	Series []c50Series
	Lines  []c50Line
	Typed  []bool `json:",omitempty"` // per series: a "# TYPE <name> gauge" line precedes its first sample
	Quiet  bool   `json:",omitempty"`
	Trig   bool   `json:",omitempty"` // timestamps of the listed om-timestamp-float-truncation shape are allowed
	Avoid  int    `json:",omitempty"`
}

// omSeconds writes a millisecond timestamp as the exact decimal number of seconds.
func omSeconds(ts int64) string {
	neg := ts < 0
	a := ts
	if neg {
		a = -ts
	}
	s := strconv.FormatInt(a/1000, 10)
	if a%1000 != 0 {
		s += fmt.Sprintf(".%03d", a%1000)
	}
	if neg {
		s = "-" + s
	}
	return s
}

// tsSurvivesFloat: int64(seconds*1000) in float arithmetic gives the millisecond value
// back (the listed OpenMetrics parser finding loses one millisecond otherwise).
func tsSurvivesFloat(ts int64) bool {
	f, err := strconv.ParseFloat(omSeconds(ts), 64)
	return err == nil && int64(f*1000) == ts
}

var c50Names = []string{"m1", "m2", "cpu_seconds", "up", "x:y"}

func genC50(t *rapid.T) c50Case {
	c := c50Case{Quiet: rapid.Bool().Draw(t, "quiet"), Trig: rapid.IntRange(0, 9).Draw(t, "trig") == 0}
	ns := rapid.IntRange(1, 20).Draw(t, "nseries")
	if rapid.IntRange(0, 2).Draw(t, "few") > 0 {
		ns = rapid.IntRange(1, 5).Draw(t, "nfew")
	}
	seen := map[string]bool{}
	for len(c.Series) < ns {
		s := c50Series{Name: rapid.SampledFrom(c50Names).Draw(t, "name")}
		nl := rapid.IntRange(0, 3).Draw(t, "nl")
		used := map[string]bool{}
		for i := 0; i < nl; i++ {
			ln := rapid.SampledFrom([]string{"a", "b", "job", "le", "instance"}).Draw(t, "ln")
			if used[ln] {
				continue
			}
			used[ln] = true
			lv := rapid.SampledFrom([]string{"a", "b", "1", "x y", "ü", "q\"t", "b\\s", "n\nl", "0.5"}).Draw(t, "lv")
			s.L = append(s.L, [2]string{ln, lv})
		}
		sort.Slice(s.L, func(i, j int) bool { return s.L[i][0] < s.L[j][0] })
		key := s.Name + "\xff" + s.L.Key()
		if seen[key] {
			s.L = append(s.L, [2]string{"zz", strconv.Itoa(len(c.Series))})
			key = s.Name + "\xff" + s.L.Key()
		}
		seen[key] = true
		c.Series = append(c.Series, s)
		c.Typed = append(c.Typed, rapid.Bool().Draw(t, "typed"))
	}
	// time layout: first window and number of windows
	w0 := rapid.SampledFrom([]int64{0, -1, -2, -3, 1, 236111, 236112, -236111, 5}).Draw(t, "w0")
	nw := int64(rapid.IntRange(1, 5).Draw(t, "nw"))
	drawTs := func() int64 {
		w := w0 + int64(rapid.IntRange(0, int(nw)-1).Draw(t, "w"))
		base := w * blockWindow
		switch rapid.IntRange(0, 5).Draw(t, "tsc") {
		case 0:
			return base // exactly on the boundary
		case 1:
			return base + blockWindow - 1 // last millisecond of the window
		case 2:
			return base + 1
		case 3:
			return base + 1000*int64(rapid.IntRange(0, 7199).Draw(t, "sec"))
		default:
			return base + rapid.Int64Range(0, blockWindow-1).Draw(t, "off")
		}
	}
	per := make([][]c50Line, len(c.Series))
	total := 0
	for si := range c.Series {
		k := rapid.IntRange(1, 6).Draw(t, "k")
		var tss []int64
		for i := 0; i < k; i++ {
			tss = append(tss, drawTs())
		}
		sort.Slice(tss, func(i, j int) bool { return tss[i] < tss[j] })
		prev := int64(math.MinInt64)
		for _, ts := range tss {
			if ts <= prev {
				if rapid.Bool().Draw(t, "dupdrop") {
					continue
				}
				ts = prev + 1
			}
			if !c.Trig {
				for n := 0; !tsSurvivesFloat(ts) && n < 5000; n++ {
					ts++
					if n == 0 {
						c.Avoid++
					}
				}
			}
			prev = ts
			per[si] = append(per[si], c50Line{S: si, Ts: ts, V: gen.FloatBits().Draw(t, "v")})
			total++
		}
	}
	// interleave the per-series queues
	idx := make([]int, len(per))
	for total > 0 {
		si := rapid.IntRange(0, len(per)-1).Draw(t, "pick")
		for idx[si] >= len(per[si]) {
			si = (si + 1) % len(per)
		}
		c.Lines = append(c.Lines, per[si][idx[si]])
		idx[si]++
		total--
	}
	if rapid.IntRange(0, 6).Draw(t, "nots") == 0 && len(c.Lines) > 0 {
		i := rapid.IntRange(0, len(c.Lines)-1).Draw(t, "notsidx")
		if rapid.IntRange(0, 2).Draw(t, "notslast") == 0 {
			i = len(c.Lines) - 1
		}
		c.Lines[i].NoTs = true
	}
	return c
}

var omLabelEscaper = strings.NewReplacer("\\", `\\`, "\n", `\n`, "\"", `\"`)

func omValue(bits uint64) string {
	f := gen.F(bits)
	switch {
	case math.IsNaN(f):
		return "NaN"
	case math.IsInf(f, 1):
		return "+Inf"
	case math.IsInf(f, -1):
		return "-Inf"
	}
	return strconv.FormatFloat(f, 'g', -1, 64)
}

func (c c50Case) text() string {
	var sb strings.Builder
	typed := map[string]bool{}
	for _, l := range c.Lines {
		s := c.Series[l.S]
		if l.S < len(c.Typed) && c.Typed[l.S] && !typed[s.Name] {
			typed[s.Name] = true
			fmt.Fprintf(&sb, "# HELP %s generated\n# TYPE %s gauge\n", s.Name, s.Name)
		}
		sb.WriteString(s.Name)
		if len(s.L) > 0 {
			sb.WriteByte('{')
			for i, p := range s.L {
				if i > 0 {
					sb.WriteByte(',')
				}
				fmt.Fprintf(&sb, `%s="%s"`, p[0], omLabelEscaper.Replace(p[1]))
			}
			sb.WriteByte('}')
		}
		sb.WriteByte(' ')
		sb.WriteString(omValue(l.V))
		if !l.NoTs {
			sb.WriteByte(' ')
			sb.WriteString(omSeconds(l.Ts))
		}
		sb.WriteByte('\n')
	}
	sb.WriteString("# EOF\n")
	return sb.String()
}

// ---------------------------------------------------------------- run

func floorDiv(a, b int64) int64 {
	q := a / b
	if a%b != 0 && (a < 0) != (b < 0) {
		q--
	}
	return q
}

type c50Sample struct {
	key string
	ts  int64
}

func blockDirs(out string) []string {
	ents, _ := os.ReadDir(out)
	var dirs []string
	for _, e := range ents {
		if e.IsDir() {
			if _, err := os.Stat(filepath.Join(out, e.Name(), "meta.json")); err == nil {
				dirs = append(dirs, e.Name())
			}
		}
	}
	return dirs
}

func runC50(c c50Case, r *ev.Rec) error {
	if len(c.Series) == 0 || len(c.Lines) == 0 {
		r.Discard()
		return nil
	}
	bin, err := promtool()
	if err != nil {
		// never a property violation: the test function reports it as a harness error
		r.Discard()
		return nil
	}
	dir, err := os.MkdirTemp("", "c50")
	if err != nil {
		r.Discard()
		return nil
	}
	defer os.RemoveAll(dir)
	in := filepath.Join(dir, "in.om")
	out := filepath.Join(dir, "out")
	text := c.text()
	if err := os.WriteFile(in, []byte(text), 0o644); err != nil {
		r.Discard()
		return nil
	}
	args := []string{"tsdb", "create-blocks-from", "openmetrics"}
	if c.Quiet {
		args = append(args, "-q")
	}
	args = append(args, in, out)
	ctx, cancel := context.WithTimeout(context.Background(), 10*time.Minute)
	defer cancel()
	cmd := exec.CommandContext(ctx, bin, args...)
	cmd.Dir = dir
	cmd.Env = append(os.Environ(), "TMPDIR="+dir, "GOMAXPROCS=4")
	output, runErr := cmd.CombinedOutput()
	if ctx.Err() != nil {
		r.Discard() // slowness is never a violation
		return nil
	}
	exit := 0
	if runErr != nil {
		var ee *exec.ExitError
		if !errors.As(runErr, &ee) {
			r.Discard()
			return nil
		}
		exit = ee.ExitCode()
	}

	// expected content
	want := map[c50Sample]uint64{}
	missingTs := false
	windows := map[int64]bool{}
	boundary, negative := false, false
	for _, l := range c.Lines {
		if l.NoTs {
			missingTs = true
			continue
		}
		s := c.Series[l.S]
		ls := labels.NewBuilder(s.L.Labels()).Set("__name__", s.Name).Labels()
		v := l.V
		if math.IsNaN(gen.F(v)) {
			v = normalNaN
		}
		want[c50Sample{gen.FromLabels(ls).Key(), l.Ts}] = v
		windows[floorDiv(l.Ts, blockWindow)] = true
		if floorDiv(l.Ts, blockWindow)*blockWindow == l.Ts {
			boundary = true
		}
		if l.Ts < 0 {
			negative = true
		}
	}
	r.Class(fmt.Sprintf("windows:%d", len(windows)))
	if boundary {
		r.Class("sample-on-window-boundary")
	}
	if negative {
		r.Class("negative-timestamps")
	}
	if missingTs {
		r.Class("sample-without-timestamp")
	}
	if len(c.Series) > 5 {
		r.Class("many-series")
	}
	if c.Avoid > 0 {
		r.Count("avoided-trigger-shapes", c.Avoid)
	}
	if len(windows) >= 2 || boundary {
		r.NonTrivial()
	}
	tail := func() string {
		o := string(output)
		if len(o) > 600 {
			o = o[len(o)-600:]
		}
		return o
	}

	if missingTs {
		if exit == 0 {
			return ev.Failf("input with a sample without timestamp was accepted (exit 0); blocks written: %v\ninput:\n%s", blockDirs(out), text)
		}
		if b := blockDirs(out); len(b) > 0 {
			return ev.Failf("input with a sample without timestamp was rejected (exit %d) but blocks %v were written\ninput:\n%s", exit, b, text)
		}
		return nil
	}
	if exit != 0 {
		return ev.Failf("promtool exit %d on a valid input: %s\ninput:\n%s", exit, tail(), text)
	}

	db, err := tsdb.OpenDBReadOnly(out, "", nil)
	if err != nil {
		return ev.Failf("OpenDBReadOnly(%s): %v\ninput:\n%s", out, err, text)
	}
	defer db.Close()
	blocks, err := db.Blocks()
	if err != nil {
		return ev.Failf("Blocks(): %v\ninput:\n%s", err, text)
	}
	got := map[c50Sample]uint64{}
	var problems []string
	truncHit := false
	moved := map[c50Sample]bool{}
	for _, b := range blocks {
		meta := b.Meta()
		if meta.MinTime >= meta.MaxTime || floorDiv(meta.MinTime, blockWindow) != floorDiv(meta.MaxTime-1, blockWindow) {
			problems = append(problems, fmt.Sprintf("block %s [%d,%d) is not inside one aligned 2h window", meta.ULID, meta.MinTime, meta.MaxTime))
		}
		q, err := tsdb.NewBlockQuerier(b, math.MinInt64, math.MaxInt64)
		if err != nil {
			return ev.Failf("NewBlockQuerier: %v", err)
		}
		ss := q.Select(context.Background(), true, nil, labels.MustNewMatcher(labels.MatchRegexp, "__name__", ".+"))
		for ss.Next() {
			s := ss.At()
			key := gen.FromLabels(s.Labels()).Key()
			it := s.Iterator(nil)
			for vt := it.Next(); vt != chunkenc.ValNone; vt = it.Next() {
				if vt != chunkenc.ValFloat {
					problems = append(problems, fmt.Sprintf("series %s: non-float sample", s.Labels()))
					continue
				}
				ts, v := it.At()
				if ts < meta.MinTime || ts >= meta.MaxTime {
					problems = append(problems, fmt.Sprintf("block %s [%d,%d) holds sample %s t=%d outside its range", meta.ULID, meta.MinTime, meta.MaxTime, s.Labels(), ts))
				}
				k := c50Sample{key, ts}
				if _, dup := got[k]; dup {
					problems = append(problems, fmt.Sprintf("sample %s t=%d is present in more than one block", s.Labels(), ts))
				}
				got[k] = gen.B(v)
			}
			if err := it.Err(); err != nil {
				problems = append(problems, fmt.Sprintf("iterator: %v", err))
			}
		}
		if err := ss.Err(); err != nil {
			problems = append(problems, fmt.Sprintf("select: %v", err))
		}
		q.Close()
	}
	pretty := func(k c50Sample) string {
		return strings.NewReplacer("\xff", "=", "\xfe", ",").Replace(k.key)
	}
	var keys []c50Sample
	for k := range want {
		keys = append(keys, k)
	}
	sort.Slice(keys, func(i, j int) bool {
		if keys[i].key != keys[j].key {
			return keys[i].key < keys[j].key
		}
		return keys[i].ts < keys[j].ts
	})
	for _, k := range keys {
		g, ok := got[k]
		switch {
		case !ok:
			// the listed OpenMetrics timestamp finding moves such a sample one millisecond
			if f, _ := strconv.ParseFloat(omSeconds(k.ts), 64); !tsSurvivesFloat(k.ts) {
				mk := c50Sample{k.key, int64(f * 1000)}
				if _, isInput := want[mk]; !isInput {
					if g, ok := got[mk]; ok && g == want[k] {
						moved[mk] = true
						truncHit = true
						continue
					}
				}
			}
			problems = append(problems, fmt.Sprintf("input sample {%s} t=%d is in no block", pretty(k), k.ts))
		case g != want[k]:
			problems = append(problems, fmt.Sprintf("sample {%s} t=%d has value %v (%#x), input %v (%#x)", pretty(k), k.ts, gen.F(g), g, gen.F(want[k]), want[k]))
		}
	}
	var gkeys []c50Sample
	for k := range got {
		gkeys = append(gkeys, k)
	}
	sort.Slice(gkeys, func(i, j int) bool {
		if gkeys[i].key != gkeys[j].key {
			return gkeys[i].key < gkeys[j].key
		}
		return gkeys[i].ts < gkeys[j].ts
	})
	for _, k := range gkeys {
		if _, ok := want[k]; !ok {
			if moved[k] {
				continue // the moved copy of a sample counted above
			}
			problems = append(problems, fmt.Sprintf("block sample {%s} t=%d is not in the input", pretty(k), k.ts))
		}
	}
	if len(problems) > 0 {
		if len(problems) > 6 {
			problems = append(problems[:6], fmt.Sprintf("... %d more", len(problems)-6))
		}
		return ev.Failf("%s\n%d blocks; promtool output: %s\ninput:\n%s", strings.Join(problems, "\n"), len(blocks), tail(), text)
	}
	if truncHit {
		return ev.FailSig("om-timestamp-float-truncation", "a sample whose timestamp in seconds times 1000 falls just below the integer is stored one millisecond early\ninput:\n%s", text)
	}
	return nil
}

func TestC50(t *testing.T) {
	if _, err := promtool(); err != nil {
		// build problem: inconclusive for the driver (non-zero exit without a VIOLATION line)
		t.Fatalf("HARNESS-ERROR cannot build promtool: %v", err)
	}
	ev.Check(t, "C50",
		"OpenMetrics text with 1-20 series (small colliding label alphabets, escaped values), per-series increasing timestamps laid out over 1-5 aligned two-hour windows around 0, negative times and 1.7e12 incl. samples exactly on / one millisecond around window boundaries, interleaved lines, NaN/Inf/special values, optionally one sample without timestamp; the promtool binary built from the tree under test runs `tsdb create-blocks-from openmetrics`; the blocks are opened read-only and every block is queried: union of block samples == input samples (bitwise values, no sample in two blocks), every block inside one aligned 2h window and containing its samples; a sample without timestamp => non-zero exit and no block. Non-trivial: samples in >= 2 windows or exactly on a boundary; distinct by hash of the case.",
		genC50, runC50)
}
