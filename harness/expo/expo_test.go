package expo

// Shared exposition model for C35/C36: JSON-serialisable metric families, conversion to
// the client_model dto types, encoding with prometheus/common/expfmt (the trusted
// reference encoder) and a generic "drain" of a textparse.Parser into plain records.

import (
	"bytes"
	"errors"
	"fmt"
	"io"
	"math"
	"math/big"
	"sort"
	"strconv"
	"strings"

	dto "github.com/prometheus/client_model/go"
	"github.com/prometheus/common/expfmt"
	"github.com/prometheus/common/model"
	"google.golang.org/protobuf/proto"
	"google.golang.org/protobuf/types/known/timestamppb"
	"pgregory.net/rapid"

	"github.com/prometheus/prometheus/model/exemplar"
	"github.com/prometheus/prometheus/model/histogram"
	"github.com/prometheus/prometheus/model/labels"
	"github.com/prometheus/prometheus/model/textparse"

	"verifharness/internal/gen"
)

const normalNaN uint64 = 0x7ff8000000000001

// ---------------------------------------------------------------- case model

type xEx struct {
	L     gen.Lset `json:",omitempty"`
	V     uint64
	HasTs bool  `json:",omitempty"`
	Sec   int64 `json:",omitempty"`
	Nanos int32 `json:",omitempty"`
}

type xBucket struct {
	Bound uint64 // float64 bits of the upper bound
	Cum   uint64
	CumF  uint64 `json:",omitempty"` // float64 bits of cumulative_count_float, 0 = unset
	Ex    *xEx   `json:",omitempty"`
}

type xQ struct{ Q, V uint64 }

type xMetric struct {
	L     gen.Lset `json:",omitempty"`
	HasTs bool     `json:",omitempty"`
	Ts    int64    `json:",omitempty"`

	// counter / gauge / untyped
	V      uint64 `json:",omitempty"`
	VUnset bool   `json:",omitempty"` // value field left unset (reads as 0)
	Ex     *xEx   `json:",omitempty"` // counter only

	// created timestamp (counter, summary, histogram)
	HasST   bool  `json:",omitempty"`
	STSec   int64 `json:",omitempty"`
	STNanos int32 `json:",omitempty"`

	// summary / histogram
	Count  uint64    `json:",omitempty"`
	CountF uint64    `json:",omitempty"` // float64 bits of sample_count_float, 0 = unset
	Sum    uint64    `json:",omitempty"`
	Q      []xQ      `json:",omitempty"`
	B      []xBucket `json:",omitempty"`
	// native histogram part (protobuf only); Count/CountF/Sum above are derived from it
	NH   *gen.Hist `json:",omitempty"`
	NHEx []xEx     `json:",omitempty"`
}

type xFam struct {
	Name    string
	HasHelp bool   `json:",omitempty"`
	Help    string `json:",omitempty"`
	HasUnit bool   `json:",omitempty"`
	Unit    string `json:",omitempty"`
	Type    int32  // dto.MetricType
	M       []xMetric
}

func (f xFam) typ() dto.MetricType { return dto.MetricType(f.Type) }

func isHistType(t dto.MetricType) bool {
	return t == dto.MetricType_HISTOGRAM || t == dto.MetricType_GAUGE_HISTOGRAM
}

// ---------------------------------------------------------------- dto conversion

func lpairs(l gen.Lset) []*dto.LabelPair {
	var out []*dto.LabelPair
	for _, p := range l {
		out = append(out, &dto.LabelPair{Name: proto.String(p[0]), Value: proto.String(p[1])})
	}
	return out
}

func (e *xEx) dto() *dto.Exemplar {
	if e == nil {
		return nil
	}
	o := &dto.Exemplar{Label: lpairs(e.L), Value: proto.Float64(gen.F(e.V))}
	if e.HasTs {
		o.Timestamp = &timestamppb.Timestamp{Seconds: e.Sec, Nanos: e.Nanos}
	}
	return o
}

func (m xMetric) created() *timestamppb.Timestamp {
	if !m.HasST {
		return nil
	}
	return &timestamppb.Timestamp{Seconds: m.STSec, Nanos: m.STNanos}
}

func (f xFam) dto() *dto.MetricFamily {
	t := f.typ()
	mf := &dto.MetricFamily{Name: proto.String(f.Name), Type: t.Enum()}
	if f.HasHelp {
		mf.Help = proto.String(f.Help)
	}
	if f.HasUnit {
		mf.Unit = proto.String(f.Unit)
	}
	for _, m := range f.M {
		dm := &dto.Metric{Label: lpairs(m.L)}
		if m.HasTs {
			dm.TimestampMs = proto.Int64(m.Ts)
		}
		var val *float64
		if !m.VUnset {
			val = proto.Float64(gen.F(m.V))
		}
		switch t {
		case dto.MetricType_COUNTER:
			dm.Counter = &dto.Counter{Value: val, Exemplar: m.Ex.dto(), CreatedTimestamp: m.created()}
		case dto.MetricType_GAUGE:
			dm.Gauge = &dto.Gauge{Value: val}
		case dto.MetricType_UNTYPED:
			dm.Untyped = &dto.Untyped{Value: val}
		case dto.MetricType_SUMMARY:
			s := &dto.Summary{SampleCount: proto.Uint64(m.Count), SampleSum: proto.Float64(gen.F(m.Sum)), CreatedTimestamp: m.created()}
			for _, q := range m.Q {
				s.Quantile = append(s.Quantile, &dto.Quantile{Quantile: proto.Float64(gen.F(q.Q)), Value: proto.Float64(gen.F(q.V))})
			}
			dm.Summary = s
		case dto.MetricType_HISTOGRAM, dto.MetricType_GAUGE_HISTOGRAM:
			h := &dto.Histogram{SampleSum: proto.Float64(gen.F(m.Sum)), CreatedTimestamp: m.created()}
			if m.CountF != 0 {
				h.SampleCountFloat = proto.Float64(gen.F(m.CountF))
			} else {
				h.SampleCount = proto.Uint64(m.Count)
			}
			for _, b := range m.B {
				db := &dto.Bucket{UpperBound: proto.Float64(gen.F(b.Bound)), Exemplar: b.Ex.dto()}
				if b.CumF != 0 {
					db.CumulativeCountFloat = proto.Float64(gen.F(b.CumF))
				} else {
					db.CumulativeCount = proto.Uint64(b.Cum)
				}
				h.Bucket = append(h.Bucket, db)
			}
			if nh := m.NH; nh != nil {
				h.Schema = proto.Int32(nh.Schema)
				h.ZeroThreshold = proto.Float64(gen.F(nh.ZT))
				if nh.Float {
					h.ZeroCountFloat = proto.Float64(gen.F(nh.ZC))
				} else {
					h.ZeroCount = proto.Uint64(nh.ZC)
				}
				for _, s := range nh.PS {
					h.PositiveSpan = append(h.PositiveSpan, &dto.BucketSpan{Offset: proto.Int32(s.Off), Length: proto.Uint32(s.Len)})
				}
				for _, s := range nh.NS {
					h.NegativeSpan = append(h.NegativeSpan, &dto.BucketSpan{Offset: proto.Int32(s.Off), Length: proto.Uint32(s.Len)})
				}
				if nh.Float {
					for _, c := range nh.PB {
						h.PositiveCount = append(h.PositiveCount, gen.F(uint64(c)))
					}
					for _, c := range nh.NB {
						h.NegativeCount = append(h.NegativeCount, gen.F(uint64(c)))
					}
				} else {
					h.PositiveDelta = append(h.PositiveDelta, nh.PB...)
					h.NegativeDelta = append(h.NegativeDelta, nh.NB...)
				}
				for i := range m.NHEx {
					h.Exemplars = append(h.Exemplars, m.NHEx[i].dto())
				}
			}
			dm.Histogram = h
		}
		mf.Metric = append(mf.Metric, dm)
	}
	return mf
}

// ---------------------------------------------------------------- encoding

type fmtKind int

const (
	fText fmtKind = iota
	fOM
	fProto
)

func (k fmtKind) String() string { return [...]string{"text", "openmetrics", "protobuf"}[k] }

func (k fmtKind) contentType() string {
	return [...]string{"text/plain", "application/openmetrics-text", "application/vnd.google.protobuf"}[k]
}

// encode renders the families with the reference encoder. UTF-8 names are kept
// (escaping=allow-utf-8). created selects expfmt.WithCreatedLines for OpenMetrics.
func encode(k fmtKind, fams []xFam, created bool) ([]byte, error) {
	var ft expfmt.FormatType
	switch k {
	case fText:
		ft = expfmt.TypeTextPlain
	case fOM:
		ft = expfmt.TypeOpenMetrics
	default:
		ft = expfmt.TypeProtoDelim
	}
	format := expfmt.NewFormat(ft).WithEscapingScheme(model.NoEscaping)
	var buf bytes.Buffer
	var opts []expfmt.EncoderOption
	if created {
		opts = append(opts, expfmt.WithCreatedLines())
	}
	enc := expfmt.NewEncoder(&buf, format, opts...)
	for _, f := range fams {
		if err := enc.Encode(f.dto()); err != nil {
			return nil, err
		}
	}
	if c, ok := enc.(expfmt.Closer); ok {
		if err := c.Close(); err != nil {
			return nil, err
		}
	}
	return buf.Bytes(), nil
}

// ---------------------------------------------------------------- observed records

type obsEx struct {
	L     gen.Lset
	V     uint64
	HasTs bool
	Ts    int64
}

type obs struct {
	Kind  string // help type unit series hist comment
	Name  string // help/type/unit: family name
	Text  string // help text, unit, type
	L     gen.Lset
	V     uint64
	HasTs bool
	Ts    int64
	ST    int64
	Ex    []obsEx
	H     *histogram.Histogram
	FH    *histogram.FloatHistogram
	Bytes string // first return value of Series()/Histogram()
}

func (o obs) String() string {
	switch o.Kind {
	case "help", "unit", "type":
		return fmt.Sprintf("%s(%q,%q)", o.Kind, o.Name, o.Text)
	case "comment":
		return fmt.Sprintf("comment(%q)", o.Text)
	}
	s := fmt.Sprintf("%s%v", o.Kind, [][2]string(o.L))
	if o.Kind == "series" {
		s += fmt.Sprintf(" v=%v(%#x)", gen.F(o.V), o.V)
	} else if o.H != nil {
		s += " " + o.H.String()
	} else if o.FH != nil {
		s += " " + o.FH.String()
	}
	if o.HasTs {
		s += fmt.Sprintf(" ts=%d", o.Ts)
	}
	if o.ST != 0 {
		s += fmt.Sprintf(" st=%d", o.ST)
	}
	for _, e := range o.Ex {
		s += fmt.Sprintf(" ex{%v v=%v(%#x)", [][2]string(e.L), gen.F(e.V), e.V)
		if e.HasTs {
			s += fmt.Sprintf(" ts=%d", e.Ts)
		}
		s += "}"
	}
	return s
}

// lsetOf converts labels to a sorted pair list; labels with an empty value are dropped
// (an empty label value is the same as an absent label in the Prometheus data model).
func lsetOf(ls labels.Labels) gen.Lset {
	var out gen.Lset
	ls.Range(func(l labels.Label) {
		if l.Value != "" {
			out = append(out, [2]string{l.Name, l.Value})
		}
	})
	sort.SliceStable(out, func(i, j int) bool { return out[i][0] < out[j][0] })
	return out
}

func normLset(l gen.Lset) gen.Lset {
	var out gen.Lset
	for _, p := range l {
		if p[1] != "" {
			out = append(out, p)
		}
	}
	sort.SliceStable(out, func(i, j int) bool { return out[i][0] < out[j][0] })
	return out
}

func lsetEq(a, b gen.Lset) bool {
	if len(a) != len(b) {
		return false
	}
	for i := range a {
		if a[i] != b[i] {
			return false
		}
	}
	return true
}

type drainOpts struct {
	// CallST: call StartTimestamp on series/histogram entries, in the order every caller in
	// the repository uses: Series/Histogram, Labels, StartTimestamp, Exemplar. (Calling
	// StartTimestamp before Labels makes OpenMetricsParser.Labels panic; no caller does.)
	CallST  bool
	STFirst bool // unused by the checks, see above
	MaxNext int  // bound on Next calls (0: none)
}

var errTooManyEntries = errors.New("parser did not terminate within the entry bound")

// drain runs the parser to the end calling every accessor that is legal for the
// returned entry type. It returns the records, and the terminating error (nil for io.EOF).
func drain(p textparse.Parser, o drainOpts) ([]obs, error) {
	var out []obs
	for n := 0; ; n++ {
		if o.MaxNext > 0 && n > o.MaxNext {
			return out, errTooManyEntries
		}
		e, err := p.Next()
		if err != nil {
			if errors.Is(err, io.EOF) {
				return out, nil
			}
			return out, err
		}
		switch e {
		case textparse.EntryHelp:
			n, h := p.Help()
			out = append(out, obs{Kind: "help", Name: string(n), Text: string(h)})
		case textparse.EntryType:
			n, t := p.Type()
			out = append(out, obs{Kind: "type", Name: string(n), Text: string(t)})
		case textparse.EntryUnit:
			n, u := p.Unit()
			out = append(out, obs{Kind: "unit", Name: string(n), Text: string(u)})
		case textparse.EntryComment:
			out = append(out, obs{Kind: "comment", Text: string(p.Comment())})
		case textparse.EntrySeries, textparse.EntryHistogram:
			var r obs
			if e == textparse.EntrySeries {
				b, ts, v := p.Series()
				r = obs{Kind: "series", V: gen.B(v), Bytes: string(b)}
				if ts != nil {
					r.HasTs, r.Ts = true, *ts
				}
			} else {
				b, ts, h, fh := p.Histogram()
				r = obs{Kind: "hist", Bytes: string(b)}
				if ts != nil {
					r.HasTs, r.Ts = true, *ts
				}
				if h != nil {
					r.H = h.Copy()
				}
				if fh != nil {
					r.FH = fh.Copy()
				}
			}
			if o.CallST && o.STFirst {
				r.ST = p.StartTimestamp()
			}
			var l labels.Labels
			p.Labels(&l)
			r.L = lsetOf(l)
			if o.CallST && !o.STFirst {
				r.ST = p.StartTimestamp()
			}
			var ex exemplar.Exemplar
			for k := 0; p.Exemplar(&ex); k++ {
				if k > 10000 {
					return out, errors.New("Exemplar() keeps returning true")
				}
				r.Ex = append(r.Ex, obsEx{L: lsetOf(ex.Labels), V: gen.B(ex.Value), HasTs: ex.HasTs, Ts: ex.Ts})
				ex = exemplar.Exemplar{}
			}
			out = append(out, r)
		default:
			return out, fmt.Errorf("Next returned entry %d without error", e)
		}
	}
}

// ---------------------------------------------------------------- reference formatting

// omFloat formats a float the way the OpenMetrics specification asks for canonical
// numbers in le/quantile label values: shortest representation that round-trips, with
// a ".0" when it would otherwise look like an integer; +Inf/-Inf/NaN spelled out.
func omFloat(f float64) string {
	switch {
	case math.IsNaN(f):
		return "NaN"
	case math.IsInf(f, 1):
		return "+Inf"
	case math.IsInf(f, -1):
		return "-Inf"
	case f == 0:
		return "0.0"
	}
	s := strconv.FormatFloat(f, 'g', -1, 64)
	if !strings.ContainsAny(s, ".e") {
		s += ".0"
	}
	return s
}

// omMillis returns the millisecond values a reader may derive from the OpenMetrics
// timestamp the reference encoder writes for the float f (seconds): the decimal string
// is evaluated exactly; both truncation toward -inf and rounding to nearest of
// seconds*1000 are accepted (they coincide whenever the string has <= 3 decimals,
// which is the case for every millisecond value below 10^15).
func omMillis(f float64) (lo, hi int64) {
	s := strconv.FormatFloat(f, 'g', -1, 64)
	r, ok := new(big.Rat).SetString(s)
	if !ok {
		panic("omMillis: " + s)
	}
	r.Mul(r, big.NewRat(1000, 1))
	fl := new(big.Int).Div(r.Num(), r.Denom()) // Div is Euclidean: floor for positive denominators
	lo = fl.Int64()
	hi = lo
	// round to nearest
	twice := new(big.Rat).Sub(r, new(big.Rat).SetInt(fl))
	if twice.Cmp(big.NewRat(1, 2)) >= 0 {
		hi = lo + 1
	}
	return lo, hi
}

// omTruncMillis is what `int64(seconds*1000)` in float arithmetic yields (root cause of
// the om-timestamp-float-truncation finding).
func omTruncMillis(f float64) int64 { return int64(f * 1000) }

func protoMillis(sec int64, nanos int32) int64 { return sec*1000 + int64(nanos)/1_000_000 }

func unixNanoSeconds(sec int64, nanos int32) float64 {
	// what expfmt writes for a timestamppb value: float64(UnixNano)/1e9
	return float64(sec*1_000_000_000+int64(nanos)) / 1e9
}

// ---------------------------------------------------------------- string generators

var specialRunes = []string{`"`, `\`, "\n", `\n`, `\\`, `\"`, " ", "\t", "ü", "日本", "{", "}", "=", ",", "#", "'", "é"}

// utf8String draws a valid UTF-8 string with boosted escape-relevant characters.
func utf8String(maxParts int) *rapid.Generator[string] {
	return rapid.Custom(func(t *rapid.T) string {
		n := rapid.IntRange(0, maxParts).Draw(t, "parts")
		var sb strings.Builder
		for i := 0; i < n; i++ {
			switch rapid.IntRange(0, 5).Draw(t, "pc") {
			case 0, 1:
				sb.WriteString(rapid.SampledFrom(specialRunes).Draw(t, "sp"))
			case 2:
				sb.WriteString(rapid.StringMatching(`[a-zA-Z0-9_:./+-]{1,6}`).Draw(t, "w"))
			case 3:
				sb.WriteString(rapid.SampledFrom([]string{"a", "b", "x", "1", "1.0", "+Inf", "0.5", "NaN", "1e3"}).Draw(t, "c"))
			case 4:
				r := rapid.Rune().Draw(t, "r")
				if r == 0 || r == 0xFFFD {
					r = 'z'
				}
				sb.WriteRune(r)
			default:
				sb.WriteString(rapid.SampledFrom([]string{"v", "val"}).Draw(t, "v"))
			}
		}
		return sb.String()
	})
}

func hasEscapable(s string) bool { return strings.ContainsAny(s, "\\\"\n") }

func isLegacyName(s string) bool { return model.LegacyValidation.IsValidMetricName(s) }

var reservedSuffixes = []string{"_total", "_created", "_sum", "_count", "_bucket", "_gsum", "_gcount", "_info"}

func hasReservedSuffix(s string) bool {
	for _, r := range reservedSuffixes {
		if strings.HasSuffix(s, r) {
			return true
		}
	}
	return false
}

var baseNames = []string{"a", "b", "m1", "http_requests", "x:y", "rpc", "go_gc", "up", "ü.x", "sp ace", "日本", "dotted.name", `q"t`, `b\s`, "nl\nx", "_x", "a1"}

// famName draws a distinct family base name (no reserved suffix).
func famName(t *rapid.T, used map[string]bool, allowUTF8 bool) string {
	for i := 0; ; i++ {
		n := rapid.SampledFrom(baseNames).Draw(t, "base")
		if rapid.IntRange(0, 3).Draw(t, "tail") == 0 || i > 3 {
			n += "_" + rapid.StringMatching(`[a-z][a-z0-9]{0,3}`).Draw(t, "tailw")
		}
		if i > 8 {
			n = fmt.Sprintf("fam%d", len(used))
		}
		if !allowUTF8 && !isLegacyName(n) {
			n = "l_" + strings.Map(func(r rune) rune {
				if (r >= 'a' && r <= 'z') || (r >= '0' && r <= '9') || r == '_' {
					return r
				}
				return '_'
			}, n)
		}
		if hasReservedSuffix(n) || used[n] {
			continue
		}
		// keep expanded names of different families apart (a vs a_x is fine; a vs a_sum excluded above)
		used[n] = true
		return n
	}
}

var labelNames = []string{"a", "b", "job", "instance", "code", "zz", "l1", "_u", "ü", "dot.ted", "sp ace", `q"t`, `b\s`, "nl\nx", "日本"}

// metricLabels draws distinct label names (never __name__, le, quantile unless allowed)
// with arbitrary UTF-8 values.
func metricLabels(t *rapid.T, max int, allowUTF8 bool, extra []string) gen.Lset {
	n := rapid.IntRange(0, max).Draw(t, "nl")
	used := map[string]bool{}
	var out gen.Lset
	pool := append(append([]string(nil), labelNames...), extra...)
	for i := 0; i < n; i++ {
		name := rapid.SampledFrom(pool).Draw(t, "ln")
		if !allowUTF8 && !model.LegacyValidation.IsValidLabelName(name) {
			continue
		}
		if used[name] {
			continue
		}
		used[name] = true
		var v string
		switch rapid.IntRange(0, 5).Draw(t, "lvc") {
		case 0:
			v = rapid.SampledFrom([]string{"1", "1.0", "0.5", "+Inf", "x", "", "5e-1", "01"}).Draw(t, "lvconst")
		case 1, 2:
			v = rapid.SampledFrom([]string{"a", "b", "c", "GET", "200"}).Draw(t, "lvsmall")
		default:
			v = utf8String(4).Draw(t, "lv")
		}
		out = append(out, [2]string{name, v})
	}
	return out
}

// helpText: valid UTF-8 without leading/trailing blanks (the text format tokenises on
// blanks, so those are not significant there).
func helpText(t *rapid.T) string {
	s := utf8String(5).Draw(t, "help")
	return strings.Trim(s, " \t")
}

// ---------------------------------------------------------------- timestamps

func sampleTs(t *rapid.T) int64 {
	switch rapid.IntRange(0, 9).Draw(t, "tsc") {
	case 0:
		return 0
	case 1:
		return int64(rapid.IntRange(1, 5000).Draw(t, "tssmall"))
	case 2:
		return -int64(rapid.IntRange(1, 100000).Draw(t, "tsneg"))
	case 3:
		return rapid.Int64Range(-(1<<46), 1<<46).Draw(t, "tsany")
	case 4:
		return 1_700_000_000_000 + 1000*int64(rapid.IntRange(0, 100000).Draw(t, "tssec"))
	default:
		return 1_700_000_000_000 + rapid.Int64Range(0, 1_000_000_000).Draw(t, "tsms")
	}
}

// protoTs draws a (seconds, nanos) pair with millisecond resolution.
func protoTs(t *rapid.T) (int64, int32) {
	switch rapid.IntRange(0, 5).Draw(t, "ptc") {
	case 0:
		return rapid.Int64Range(-9_000_000, 9_000_000).Draw(t, "psec"), int32(rapid.IntRange(0, 999).Draw(t, "pms")) * 1_000_000
	case 1:
		return rapid.Int64Range(0, 4_000_000_000).Draw(t, "psecw"), 0
	case 2:
		return int64(rapid.IntRange(0, 3).Draw(t, "psmall")), int32(rapid.IntRange(0, 999).Draw(t, "pms")) * 1_000_000
	default:
		return 1_700_000_000 + rapid.Int64Range(0, 1_000_000).Draw(t, "pnow"), int32(rapid.IntRange(0, 999).Draw(t, "pms")) * 1_000_000
	}
}

func genExemplar(t *rapid.T, allowUTF8, needLabels bool) *xEx {
	e := &xEx{V: gen.FloatBits().Draw(t, "exv")}
	n := rapid.IntRange(0, 2).Draw(t, "exnl")
	if needLabels && n == 0 {
		n = 1
	}
	used := map[string]bool{}
	for i := 0; i < n; i++ {
		name := rapid.SampledFrom([]string{"trace_id", "span_id", "a", "ü", `q"t`, "dot.ted"}).Draw(t, "exln")
		if (!allowUTF8 && !model.LegacyValidation.IsValidLabelName(name)) || used[name] {
			name = fmt.Sprintf("l%d", i)
		}
		used[name] = true
		var v string
		if rapid.IntRange(0, 2).Draw(t, "exvc") == 0 {
			v = utf8String(3).Draw(t, "exlv")
		} else {
			v = rapid.StringMatching(`[a-f0-9]{1,8}`).Draw(t, "exhex")
		}
		if v == "" {
			v = "e"
		}
		e.L = append(e.L, [2]string{name, v})
	}
	if rapid.IntRange(0, 3).Draw(t, "exhasts") > 0 {
		e.HasTs = true
		e.Sec, e.Nanos = protoTs(t)
	}
	return e
}
