package cfg

import (
	"fmt"
	"net/url"
	"reflect"
	"regexp"
	"strconv"
	"strings"
	"testing"

	"github.com/prometheus/common/promslog"
	"github.com/prometheus/prometheus/config"
	_ "github.com/prometheus/prometheus/discovery/dns"
	_ "github.com/prometheus/prometheus/discovery/file"
	_ "github.com/prometheus/prometheus/discovery/http"
	"github.com/prometheus/prometheus/model/labels"
	"pgregory.net/rapid"

	"verifharness/internal/ev"
)

// C49 — Printing a configuration and loading it back is lossless.
//
// A structural generator draws a configuration (global, scrape configs with static / file /
// http / dns service discovery and relabeling, remote write / read, alerting, rule files,
// storage, tracing, runtime, otlp; no secrets) and renders it to YAML y0. Cases are the
// y0 that config.Load accepts. Oracle: c1 = Load(y0); y1 = c1.String(); c2 = Load(y1) must
// succeed and equal c1 field by field (regular expressions and URLs by their string
// form); c2.String() must equal y1.

// ---- a tiny ordered YAML builder -------------------------------------------------------

type ykv struct {
	k string
	v any
}
type ymap []ykv
type ylist []any
type yraw string // emitted verbatim (durations, sizes)

var ySimple = regexp.MustCompile(`^[A-Za-z_/][A-Za-z0-9_./-]*$`)
var yKeyword = map[string]bool{"true": true, "false": true, "null": true, "yes": true, "no": true, "on": true, "off": true, "y": true, "n": true, "nan": true, "inf": true}

func yscalar(v any) string {
	switch x := v.(type) {
	case string:
		if ySimple.MatchString(x) && !yKeyword[strings.ToLower(x)] {
			return x
		}
		return strconv.Quote(x)
	case yraw:
		return string(x)
	case bool:
		return strconv.FormatBool(x)
	case int:
		return strconv.Itoa(x)
	case float64:
		return strconv.FormatFloat(x, 'g', -1, 64)
	}
	panic(fmt.Sprintf("yscalar: %T", v))
}

func yemit(b *strings.Builder, v any, indent int) {
	pad := strings.Repeat("  ", indent)
	switch x := v.(type) {
	case ymap:
		for _, kv := range x {
			switch c := kv.v.(type) {
			case ymap:
				if len(c) == 0 {
					fmt.Fprintf(b, "%s%s: {}\n", pad, yscalar(kv.k))
					continue
				}
				fmt.Fprintf(b, "%s%s:\n", pad, yscalar(kv.k))
				yemit(b, c, indent+1)
			case ylist:
				if len(c) == 0 {
					fmt.Fprintf(b, "%s%s: []\n", pad, yscalar(kv.k))
					continue
				}
				fmt.Fprintf(b, "%s%s:\n", pad, yscalar(kv.k))
				yemit(b, c, indent)
			default:
				fmt.Fprintf(b, "%s%s: %s\n", pad, yscalar(kv.k), yscalar(kv.v))
			}
		}
	case ylist:
		for _, e := range x {
			switch c := e.(type) {
			case ymap:
				if len(c) == 0 {
					fmt.Fprintf(b, "%s- {}\n", pad)
					continue
				}
				var sb strings.Builder
				yemit(&sb, c, indent+1)
				s := sb.String()
				// replace the first indentation by "- "
				fmt.Fprintf(b, "%s- %s", pad, strings.TrimPrefix(s, pad+"  "))
			case ylist:
				panic("nested list")
			default:
				fmt.Fprintf(b, "%s- %s\n", pad, yscalar(e))
			}
		}
	}
}

// ---- generator ---------------------------------------------------------------------------

type c49Case struct {
	YAML      string
	Sections  int  // top-level sections present
	Relabels  int  // relabel rules
	NonDefDur bool // a non-default duration somewhere
}

type c49Gen struct {
	t        *rapid.T
	relabels int
	durs     bool
	legacy   bool // global metric_name_validation_scheme: legacy
}

func (g *c49Gen) chance(label string, n int) bool {
	return rapid.IntRange(0, n-1).Draw(g.t, label) == 0
}

// lossy decides whether a field gets the explicit zero value that is known not to survive
// printing (see c49OmitemptyDefaulted): kept rare so that the known finding stays a small
// fraction of the cases.
func (g *c49Gen) lossy(label string) bool { return rapid.IntRange(0, 23).Draw(g.t, label+"zero") == 17 } // rapid favours small values: 17 of 0..23 is rarer than 1/24

// zdur draws a duration for a field whose zero value is lossy.
func (g *c49Gen) zdur(label string) yraw {
	if g.lossy(label) {
		g.durs = true
		return yraw("0s")
	}
	return g.dur(label, true)
}

func (g *c49Gen) pick(label string, xs ...string) string {
	return rapid.SampledFrom(xs).Draw(g.t, label)
}

var c49Durations = []string{"1s", "5s", "10s", "15s", "30s", "45s", "1m", "90s", "1m30s", "2m", "5m", "10m", "1h", "2h45m", "36h", "1d", "1w", "500ms", "1500ms", "1y", "1ms", "61s", "100m", "25h", "8d", "3w", "2y", "1h1ms", "0s"}

func (g *c49Gen) dur(label string, nonzero bool) yraw {
	g.durs = true
	for {
		d := g.pick(label, c49Durations...)
		if nonzero && d == "0s" {
			d = "7s"
		}
		return yraw(d)
	}
}

var c49DurMs = map[string]int64{"1s": 1000, "5s": 5000, "10s": 10000, "15s": 15000, "30s": 30000, "45s": 45000, "1m": 60000, "90s": 90000, "1m30s": 90000, "2m": 120000, "5m": 300000, "10m": 600000, "1h": 3600000, "2h45m": 9900000, "36h": 129600000, "1d": 86400000, "1w": 604800000, "500ms": 500, "1500ms": 1500, "1y": 31536000000, "0s": 0, "7s": 7000, "1ms": 1, "61s": 61000, "100m": 6000000, "25h": 90000000, "8d": 691200000, "3w": 1814400000, "2y": 63072000000, "1h1ms": 3600001}

// intervalTimeout draws a scrape interval and a timeout not above it.
func (g *c49Gen) intervalTimeout(m *ymap, globalInterval, globalTimeout int64) {
	interval, timeout := globalInterval, int64(0)
	if g.chance("hasinterval", 2) {
		d := g.dur("interval", true)
		interval = c49DurMs[string(d)]
		*m = append(*m, ykv{"scrape_interval", d})
	}
	if g.chance("hastimeout", 2) {
		for i := 0; i < 5; i++ {
			d := g.dur("timeout", true)
			if c49DurMs[string(d)] <= interval {
				timeout = c49DurMs[string(d)]
				*m = append(*m, ykv{"scrape_timeout", d})
				break
			}
		}
	}
	_ = timeout
	_ = globalTimeout
}

func (g *c49Gen) size(label string) yraw {
	return yraw(g.pick(label, "1MB", "512KB", "1500B", "10MiB", "1GB", "1536KiB", "2TiB", "1KB", "100", "1025B"))
}

func (g *c49Gen) labelName(label string) string {
	if !g.legacy && g.chance(label+"utf8", 8) {
		return g.pick(label+"u", "label.with.dots", "http.status", "ünicode", "with space", "a-b")
	}
	return g.pick(label, "job", "instance", "env", "team", "__address__", "__name__", "__meta_foo", "region", "le", "pod_name", "__tmp_x", "cluster")
}

func (g *c49Gen) orEmpty(label, v string) string {
	if g.lossy(label) {
		return ""
	}
	return v
}

func (g *c49Gen) orZero(label string, v int) int {
	if g.lossy(label) {
		return 0
	}
	return v
}

func (g *c49Gen) labelValue(label string) string {
	return g.pick(label, "a", "${C49_UNSET_VAR}x", "a${C49_UNSET_VAR}b", "prod", "eu-west-1", "x y", "", "ünï", "a\"b", "10", "true", "0x1F", "line\nbreak", "trailing ", "- dash", "k: v", "#hash", "1e3", "~", "null", "é", "{{ .Foo }}", "50%")
}

func (g *c49Gen) labelMap(label string, max int) ymap {
	var m ymap
	used := map[string]bool{}
	for i, n := 0, rapid.IntRange(1, max).Draw(g.t, label+"n"); i < n; i++ {
		k := g.labelName(label + "k")
		if used[k] || strings.HasPrefix(k, "__") {
			continue
		}
		used[k] = true
		m = append(m, ykv{k, g.labelValue(label + "v")})
	}
	return m
}

func (g *c49Gen) regex(label string) string {
	return g.pick(label, "(.*)", ".*", "(.+)", "foo|bar", "prod-.*", "(.*):(\\d+)", "", "__meta_(.+)", "a.b", "[a-z]+", "(?i)warn", "up|process_.*", ".+;.+", "^anchored$", "\\d{2,3}", "a\\.b")
}

func (g *c49Gen) sourceLabels(label string) ylist {
	var l ylist
	for i, n := 0, rapid.IntRange(1, 3).Draw(g.t, label+"n"); i < n; i++ {
		l = append(l, g.labelName(label))
	}
	return l
}

func (g *c49Gen) relabel() ymap {
	g.relabels++
	var m ymap
	action := g.pick("action", "replace", "replace", "keep", "drop", "hashmod", "labelmap", "labeldrop", "labelkeep", "lowercase", "uppercase", "keepequal", "dropequal", "Replace", "KEEP", "")
	lower := strings.ToLower(action)
	switch lower {
	case "", "replace":
		if g.chance("hassrc", 4) == false {
			m = append(m, ykv{"source_labels", g.sourceLabels("src")})
		}
		if g.chance("hassep", 3) {
			m = append(m, ykv{"separator", g.pick("sep", ";", "", ",", "@", " ", ":")})
		}
		if g.chance("hasregex", 2) {
			m = append(m, ykv{"regex", g.regex("regex")})
		}
		tl := g.labelName("target")
		if g.chance("tmpltarget", 6) {
			tl = g.pick("tmpltargetv", "${1}", "foo_${1}", "$1")
		}
		m = append(m, ykv{"target_label", tl})
		if g.chance("hasrepl", 2) {
			m = append(m, ykv{"replacement", g.pick("repl", "$1", "${1}:9100", "", "static", "$1-$2", "$$", "a b")})
		}
	case "keep", "drop":
		m = append(m, ykv{"source_labels", g.sourceLabels("src")})
		m = append(m, ykv{"regex", g.regex("regex")})
		if g.chance("hassep", 4) {
			m = append(m, ykv{"separator", g.pick("sep", ";", "", ",")})
		}
	case "hashmod":
		m = append(m, ykv{"source_labels", g.sourceLabels("src")})
		m = append(m, ykv{"modulus", rapid.IntRange(1, 64).Draw(g.t, "modulus")})
		m = append(m, ykv{"target_label", g.labelName("target")})
	case "labelmap":
		m = append(m, ykv{"regex", g.regex("regex")})
		if g.chance("hasrepl", 2) {
			m = append(m, ykv{"replacement", g.pick("lmrepl", "$1", "${1}", "k8s_${1}", "x_$1")})
		}
	case "labeldrop", "labelkeep":
		m = append(m, ykv{"regex", g.regex("regex")})
	case "lowercase", "uppercase", "keepequal", "dropequal":
		m = append(m, ykv{"source_labels", g.sourceLabels("src")})
		m = append(m, ykv{"target_label", g.labelName("target")})
	}
	if action != "" {
		m = append(m, ykv{"action", action})
	}
	return m
}

func (g *c49Gen) relabels_(label string, p int) ylist {
	var l ylist
	if !g.chance(label, p) {
		return nil
	}
	for i, n := 0, rapid.IntRange(1, 3).Draw(g.t, label+"n"); i < n; i++ {
		l = append(l, g.relabel())
	}
	return l
}

func (g *c49Gen) tls() ymap {
	var m ymap
	if g.chance("tlsca", 2) {
		m = append(m, ykv{"ca_file", g.pick("cafile", "ca.pem", "/etc/ssl/ca.crt", "certs/ca with space.pem")})
	}
	if g.chance("tlscert", 3) {
		m = append(m, ykv{"cert_file", "client.crt"}, ykv{"key_file", "client.key"})
	}
	if g.chance("tlssn", 3) {
		m = append(m, ykv{"server_name", g.pick("sn", "example.org", "internal.svc")})
	}
	if g.chance("tlsskip", 3) {
		m = append(m, ykv{"insecure_skip_verify", rapid.Bool().Draw(g.t, "skip")})
	}
	if g.chance("tlsmin", 4) {
		m = append(m, ykv{"min_version", g.pick("minv", "TLS12", "TLS13", "TLS10")})
	}
	return m
}

// httpClient adds generic HTTP client settings (no inline secrets: files only).
func (g *c49Gen) httpClient(m *ymap, allowAuth bool) {
	if allowAuth {
		switch rapid.IntRange(0, 7).Draw(g.t, "auth") {
		case 0:
			*m = append(*m, ykv{"basic_auth", ymap{{"username", g.pick("user", "admin", "scrape user", "ü")}, {"password_file", "pass.txt"}}})
		case 1:
			a := ymap{{"credentials_file", "/var/run/token"}}
			if g.chance("authtype", 2) {
				a = append(ymap{{"type", g.pick("authtypev", "Bearer", "Token", "bearer")}}, a...)
			}
			*m = append(*m, ykv{"authorization", a})
		case 2:
			o := ymap{{"client_id", "prom"}, {"client_secret_file", "secret.txt"}, {"token_url", "https://auth.example.org/token"}}
			if g.chance("scopes", 2) {
				o = append(o, ykv{"scopes", ylist{"read", "metrics.write"}})
			}
			if g.chance("eparams", 2) {
				o = append(o, ykv{"endpoint_params", ymap{{"audience", "x y"}}})
			}
			*m = append(*m, ykv{"oauth2", o})
		}
	}
	if g.chance("tls", 3) {
		*m = append(*m, ykv{"tls_config", g.tls()})
	}
	if g.chance("follow", 4) {
		*m = append(*m, ykv{"follow_redirects", rapid.Bool().Draw(g.t, "followv")})
	}
	if g.chance("http2", 4) {
		*m = append(*m, ykv{"enable_http2", rapid.Bool().Draw(g.t, "http2v")})
	}
	switch rapid.IntRange(0, 9).Draw(g.t, "proxy") {
	case 0:
		*m = append(*m, ykv{"proxy_url", g.pick("proxyurl", "http://proxy.local:3128", "http://user@proxy:8080/path?q=1")})
		if g.chance("noproxy", 2) {
			*m = append(*m, ykv{"no_proxy", "10.0.0.0/8,localhost"})
		}
	case 1:
		*m = append(*m, ykv{"proxy_from_environment", true})
	}
	if g.chance("httpheaders", 8) {
		*m = append(*m, ykv{"http_headers", ymap{{"X-Scope", ymap{{"values", ylist{"a", "b c"}}}}, {"X-From-File", ymap{{"files", ylist{"hdr.txt"}}}}}})
	}
}

func (g *c49Gen) target() string {
	return g.pick("target", "localhost:9090", "10.0.0.1:9100", "example.org:443", "host", "[::1]:9090", "node-ü:80", "a.b.c:1")
}

func (g *c49Gen) sd(m *ymap) {
	any := false
	if g.chance("static", 2) {
		any = true
		var l ylist
		for i, n := 0, rapid.IntRange(1, 2).Draw(g.t, "nstatic"); i < n; i++ {
			var ts ylist
			for j, k := 0, rapid.IntRange(0, 3).Draw(g.t, "ntargets"); j < k; j++ {
				ts = append(ts, g.target())
			}
			e := ymap{{"targets", ts}}
			if g.chance("staticlabels", 2) {
				e = append(e, ykv{"labels", g.labelMap("sl", 3)})
			}
			l = append(l, e)
		}
		*m = append(*m, ykv{"static_configs", l})
	}
	if g.chance("filesd", 4) {
		any = true
		e := ymap{{"files", ylist{g.pick("sdfile", "targets/*.json", "sd.yml", "/etc/prom/t-*.yaml", "dir with space/x.json")}}}
		if g.chance("filesdri", 2) {
			e = append(e, ykv{"refresh_interval", g.dur("ri", true)})
		}
		*m = append(*m, ykv{"file_sd_configs", ylist{e}})
	}
	if g.chance("httpsd", 5) {
		any = true
		e := ymap{{"url", g.pick("sdurl", "http://sd.local/targets", "https://sd.example.org:8443/v1/t?x=1&y=a%20b")}}
		if g.chance("httpsdri", 2) {
			e = append(e, ykv{"refresh_interval", g.dur("ri", true)})
		}
		g.httpClient(&e, true)
		*m = append(*m, ykv{"http_sd_configs", ylist{e}})
	}
	if g.chance("dnssd", 6) {
		any = true
		ty := g.pick("dnstype", "SRV", "A", "AAAA", "MX", "")
		e := ymap{{"names", ylist{"_prom._tcp.example.org", "svc.local"}}}
		if ty != "" {
			e = append(e, ykv{"type", ty})
		}
		if ty != "" && ty != "SRV" || g.chance("dnsport", 2) {
			e = append(e, ykv{"port", rapid.IntRange(1, 65535).Draw(g.t, "port")})
		}
		if g.chance("dnsri", 2) {
			e = append(e, ykv{"refresh_interval", g.dur("ri", true)})
		}
		*m = append(*m, ykv{"dns_sd_configs", ylist{e}})
	}
	_ = any
}

var c49Protocols = []string{"PrometheusProto", "OpenMetricsText1.0.0", "OpenMetricsText0.0.1", "PrometheusText1.0.0", "PrometheusText0.0.4"}

func (g *c49Gen) protocols(label string) ylist {
	perm := rapid.Permutation(c49Protocols).Draw(g.t, label)
	n := rapid.IntRange(1, len(perm)).Draw(g.t, label+"n")
	var l ylist
	for _, p := range perm[:n] {
		l = append(l, p)
	}
	return l
}

func (g *c49Gen) limits(m *ymap) {
	for _, k := range []string{"sample_limit", "target_limit", "label_limit", "label_name_length_limit", "label_value_length_limit", "keep_dropped_targets"} {
		if g.chance(k, 6) {
			*m = append(*m, ykv{k, rapid.IntRange(0, 100000).Draw(g.t, k+"v")})
		}
	}
	if g.chance("body_size_limit", 5) {
		*m = append(*m, ykv{"body_size_limit", g.size("bsl")})
	}
}

func (g *c49Gen) global() (ymap, int64, int64) {
	var m ymap
	interval, timeout := int64(60000), int64(10000)
	if g.chance("ginterval", 2) {
		d := g.dur("gintervalv", true)
		interval = c49DurMs[string(d)]
		m = append(m, ykv{"scrape_interval", d})
	}
	if timeout > interval {
		timeout = interval
	}
	if g.chance("gtimeout", 2) {
		for i := 0; i < 5; i++ {
			d := g.dur("gtimeoutv", true)
			if c49DurMs[string(d)] <= interval {
				timeout = c49DurMs[string(d)]
				m = append(m, ykv{"scrape_timeout", d})
				break
			}
		}
	}
	if g.chance("geval", 2) {
		m = append(m, ykv{"evaluation_interval", g.dur("gevalv", true)})
	}
	if g.chance("gqoffset", 4) {
		m = append(m, ykv{"rule_query_offset", g.dur("gqoffsetv", false)})
	}
	if g.chance("gqlog", 5) {
		m = append(m, ykv{"query_log_file", g.pick("qlog", "query.log", "/var/log/prom/q.log", "")})
	}
	if g.chance("gsflog", 6) {
		m = append(m, ykv{"scrape_failure_log_file", "fail.log"})
	}
	if g.chance("gvalidation", 4) {
		v := g.pick("gvalidationv", "utf8", "legacy")
		g.legacy = v == "legacy"
		m = append(m, ykv{"metric_name_validation_scheme", v})
	}
	if g.chance("gescaping", 5) {
		opts := []string{"underscores", "dots", "values"}
		if !g.legacy {
			opts = append(opts, "allow-utf-8")
		}
		m = append(m, ykv{"metric_name_escaping_scheme", g.pick("gescapingv", opts...)})
	}
	if g.chance("gext", 2) {
		l := g.labelMap("ext", 4)
		if g.lossy("gextdollar") {
			l = append(l, ykv{"price", g.pick("dollar", "$$5", "a$$b")})
		}
		m = append(m, ykv{"external_labels", l})
	}
	if g.chance("gprotocols", 5) {
		m = append(m, ykv{"scrape_protocols", g.protocols("gprotocolsv")})
	}
	for _, k := range []string{"scrape_native_histograms", "convert_classic_histograms_to_nhcb", "always_scrape_classic_histograms", "extra_scrape_metrics"} {
		if g.chance("g"+k, 6) {
			m = append(m, ykv{k, rapid.Bool().Draw(g.t, "g"+k+"v")})
		}
	}
	g.limits(&m)
	return m, interval, timeout
}

func (g *c49Gen) scrapeConfig(name string, ginterval, gtimeout int64) ymap {
	m := ymap{{"job_name", name}}
	for _, k := range []string{"honor_labels", "honor_timestamps", "track_timestamps_staleness", "enable_compression"} {
		if g.chance(k, 4) {
			m = append(m, ykv{k, rapid.Bool().Draw(g.t, k+"v")})
		}
	}
	if g.chance("params", 5) {
		m = append(m, ykv{"params", ymap{{"module", ylist{"http_2xx"}}, {"match[]", ylist{"{job=\"a\"}", "up"}}}})
	}
	// interval / timeout: the timeout (explicit or inherited) must not exceed the interval
	interval := ginterval
	if g.chance("hasinterval", 2) {
		d := g.dur("interval", true)
		if c49DurMs[string(d)] >= gtimeout || true {
			interval = c49DurMs[string(d)]
			m = append(m, ykv{"scrape_interval", d})
		}
	}
	if g.chance("hastimeout", 2) {
		for i := 0; i < 5; i++ {
			d := g.dur("timeout", true)
			if c49DurMs[string(d)] <= interval {
				m = append(m, ykv{"scrape_timeout", d})
				break
			}
		}
	}
	if g.chance("protocols", 5) {
		m = append(m, ykv{"scrape_protocols", g.protocols("protocolsv")})
	}
	if g.chance("fallback", 6) {
		m = append(m, ykv{"fallback_scrape_protocol", g.pick("fallbackv", c49Protocols...)})
	}
	for _, k := range []string{"scrape_native_histograms", "always_scrape_classic_histograms", "convert_classic_histograms_to_nhcb", "extra_scrape_metrics"} {
		if g.chance(k, 6) {
			m = append(m, ykv{k, rapid.Bool().Draw(g.t, k+"v")})
		}
	}
	if g.chance("metrics_path", 3) {
		m = append(m, ykv{"metrics_path", g.orEmpty("metrics_path", g.pick("metrics_pathv", "/metrics", "/probe", "/federate", "/a b/metrics", "/x", "/y/z", "/-/m"))})
	}
	if g.chance("scheme", 3) {
		m = append(m, ykv{"scheme", g.orEmpty("scheme", g.pick("schemev", "http", "https"))})
	}
	if g.chance("sflog", 8) {
		m = append(m, ykv{"scrape_failure_log_file", "job-fail.log"})
	}
	g.limits(&m)
	if g.chance("nhbl", 6) {
		m = append(m, ykv{"native_histogram_bucket_limit", rapid.IntRange(0, 500).Draw(g.t, "nhblv")})
	}
	if g.chance("nhmbf", 6) {
		m = append(m, ykv{"native_histogram_min_bucket_factor", rapid.SampledFrom([]float64{0, 1.1, 1.0625, 2, 1e-3, 1.0000001}).Draw(g.t, "nhmbfv")})
	}
	if g.chance("validation", 6) {
		v := g.pick("validationv", "utf8", "legacy")
		m = append(m, ykv{"metric_name_validation_scheme", v})
		if v == "legacy" && g.chance("escaping", 2) {
			m = append(m, ykv{"metric_name_escaping_scheme", g.pick("escapingv", "underscores", "dots", "values")})
		}
	}
	g.httpClient(&m, true)
	g.sd(&m)
	if l := g.relabels_("relabel", 2); l != nil {
		m = append(m, ykv{"relabel_configs", l})
	}
	if l := g.relabels_("metricrelabel", 3); l != nil {
		m = append(m, ykv{"metric_relabel_configs", l})
	}
	return m
}

func (g *c49Gen) headers() ymap {
	return ymap{{g.pick("hdr", "X-Scope-OrgID", "x-tenant", "User-Agent-Extra"), g.pick("hdrv", "tenant-1", "a b", "ü", "")}}
}

func (g *c49Gen) remoteWrite(name string) ymap {
	m := ymap{{"url", g.pick("rwurl", "http://remote:9201/write", "https://mimir.example.org/api/v1/push?x=1", "http://[::1]:9201/w", "http://h/a%20b")}}
	if name != "" {
		m = append(m, ykv{"name", name})
	}
	if g.chance("rwtimeout", 3) {
		m = append(m, ykv{"remote_timeout", g.zdur("rwtimeoutv")})
	}
	if g.chance("rwheaders", 4) {
		m = append(m, ykv{"headers", g.headers()})
	}
	if l := g.relabels_("rwrelabel", 3); l != nil {
		m = append(m, ykv{"write_relabel_configs", l})
	}
	for _, k := range []string{"send_exemplars", "send_native_histograms", "round_robin_dns", "failed_request_logging"} {
		if g.chance(k, 5) {
			m = append(m, ykv{k, rapid.Bool().Draw(g.t, k+"v")})
		}
	}
	if g.chance("rwproto", 4) {
		m = append(m, ykv{"protobuf_message", g.pick("rwprotov", "prometheus.WriteRequest", "io.prometheus.write.v2.Request")})
	}
	g.httpClient(&m, true)
	if g.chance("rwqueue", 2) {
		var q ymap
		minShards, maxShards := 1, 50
		if g.chance("qmax", 2) {
			maxShards = rapid.IntRange(1, 200).Draw(g.t, "qmaxv")
			q = append(q, ykv{"max_shards", maxShards})
		}
		if g.chance("qmin", 2) {
			minShards = rapid.IntRange(1, maxShards).Draw(g.t, "qminv")
			q = append(q, ykv{"min_shards", minShards})
		}
		if g.chance("qcap", 3) {
			q = append(q, ykv{"capacity", rapid.IntRange(1, 100000).Draw(g.t, "qcapv")})
		}
		if g.chance("qmsps", 3) {
			q = append(q, ykv{"max_samples_per_send", rapid.IntRange(1, 10000).Draw(g.t, "qmspsv")})
		}
		if g.chance("qbsd", 3) {
			q = append(q, ykv{"batch_send_deadline", g.zdur("qbsdv")})
		}
		if g.chance("qbackoff", 3) {
			lo := g.zdur("qminb")
			hi := g.dur("qmaxb", true)
			if c49DurMs[string(lo)] > c49DurMs[string(hi)] {
				lo, hi = hi, lo
			}
			if g.chance("qminbonly", 3) && c49DurMs[string(lo)] <= 5000 {
				q = append(q, ykv{"min_backoff", lo})
			} else {
				q = append(q, ykv{"min_backoff", lo}, ykv{"max_backoff", hi})
			}
		}
		if g.chance("q429", 4) {
			q = append(q, ykv{"retry_on_http_429", rapid.Bool().Draw(g.t, "q429v")})
		}
		if g.chance("qage", 4) {
			q = append(q, ykv{"sample_age_limit", g.dur("qagev", false)})
		}
		m = append(m, ykv{"queue_config", q})
	}
	if g.chance("rwmeta", 3) {
		var md ymap
		if g.chance("mdsend", 2) {
			md = append(md, ykv{"send", rapid.Bool().Draw(g.t, "mdsendv")})
		}
		if g.chance("mdint", 2) {
			md = append(md, ykv{"send_interval", g.dur("mdintv", false)})
		}
		if g.chance("mdmsps", 2) {
			md = append(md, ykv{"max_samples_per_send", g.orZero("mdmsps", rapid.SampledFrom([]int{1, 500, 2000, 5000, 100, 64}).Draw(g.t, "mdmspsv"))})
		}
		m = append(m, ykv{"metadata_config", md})
	}
	return m
}

func (g *c49Gen) remoteRead(name string) ymap {
	m := ymap{{"url", g.pick("rrurl", "http://remote:9201/read", "https://thanos.example.org/api/v1/read")}}
	if name != "" {
		m = append(m, ykv{"name", name})
	}
	if g.chance("rrtimeout", 3) {
		m = append(m, ykv{"remote_timeout", g.zdur("rrtimeoutv")})
	}
	if g.chance("rrchunked", 4) {
		m = append(m, ykv{"chunked_read_limit", g.orZero("rrchunked", rapid.SampledFrom([]int{1, 1000000, 50000000, 1024, 4096, 65536, 7}).Draw(g.t, "rrchunkedv"))})
	}
	if g.chance("rrheaders", 4) {
		m = append(m, ykv{"headers", g.headers()})
	}
	if g.chance("rrrecent", 3) {
		m = append(m, ykv{"read_recent", rapid.Bool().Draw(g.t, "rrrecentv")})
	}
	if g.chance("rrmatchers", 3) {
		m = append(m, ykv{"required_matchers", g.labelMap("rm", 2)})
	}
	if g.chance("rrfilter", 3) {
		m = append(m, ykv{"filter_external_labels", !g.lossy("rrfilter")})
	}
	g.httpClient(&m, true)
	return m
}

func (g *c49Gen) alerting() ymap {
	var m ymap
	if l := g.relabels_("alertrelabel", 2); l != nil {
		m = append(m, ykv{"alert_relabel_configs", l})
	}
	if g.chance("ams", 4) == false {
		var ams ylist
		for i, n := 0, rapid.IntRange(1, 2).Draw(g.t, "nams"); i < n; i++ {
			var am ymap
			if g.chance("amscheme", 2) {
				am = append(am, ykv{"scheme", g.orEmpty("amscheme", g.pick("amschemev", "http", "https"))})
			}
			if g.chance("amprefix", 3) {
				am = append(am, ykv{"path_prefix", g.pick("amprefixv", "/", "/alertmanager", "/a b", "")})
			}
			if g.chance("amtimeout", 3) {
				am = append(am, ykv{"timeout", g.zdur("amtimeoutv")})
			}
			if g.chance("amapi", 3) {
				am = append(am, ykv{"api_version", "v2"})
			}
			g.httpClient(&am, true)
			g.sd(&am)
			if l := g.relabels_("amrelabel", 3); l != nil {
				am = append(am, ykv{"relabel_configs", l})
			}
			if l := g.relabels_("amalertrelabel", 4); l != nil {
				am = append(am, ykv{"alert_relabel_configs", l})
			}
			ams = append(ams, am)
		}
		m = append(m, ykv{"alertmanagers", ams})
	}
	return m
}

func (g *c49Gen) storage() ymap {
	var m ymap
	if g.chance("tsdb", 2) == false {
		var t ymap
		if g.chance("ooo", 2) {
			t = append(t, ykv{"out_of_order_time_window", g.dur("ooov", false)})
		}
		if g.chance("stalethr", 4) {
			t = append(t, ykv{"stale_series_compaction_threshold", rapid.SampledFrom([]float64{0, 0.5, 0.25, 1, 0.1}).Draw(g.t, "stalethrv")})
		}
		if g.chance("chunkenc", 4) {
			t = append(t, ykv{"chunk_encoding", ymap{{"floats", g.pick("floatsenc", "xor", "xor2", "")}}})
		}
		if g.chance("retention", 2) {
			var r ymap
			if g.chance("rettime", 2) {
				r = append(r, ykv{"time", g.dur("rettimev", false)})
			}
			if g.chance("retsize", 2) {
				r = append(r, ykv{"size", g.size("retsizev")})
			}
			if g.chance("retpct", 3) {
				r = append(r, ykv{"percentage", rapid.SampledFrom([]float64{0, 50, 12.5, 100, 0.1}).Draw(g.t, "retpctv")})
			}
			t = append(t, ykv{"retention", r})
		}
		m = append(m, ykv{"tsdb", t})
	}
	if g.chance("exemplars", 2) {
		var e ymap
		if g.chance("maxex", 4) == false {
			e = append(e, ykv{"max_exemplars", rapid.SampledFrom([]int{0, 1, 100000, 5000, -1}).Draw(g.t, "maxexv")})
		}
		m = append(m, ykv{"exemplars", e})
	}
	return m
}

func (g *c49Gen) tracing() ymap {
	m := ymap{{"endpoint", g.pick("trep", "localhost:4317", "otel.example.org:4318", "https://tempo/api")}}
	if g.chance("trct", 2) {
		m = append(m, ykv{"client_type", g.pick("trctv", "grpc", "http")})
	}
	if g.chance("trsf", 2) {
		m = append(m, ykv{"sampling_fraction", rapid.SampledFrom([]float64{0, 1, 0.5, 0.001, 0.3333333333333333}).Draw(g.t, "trsfv")})
	}
	if g.chance("trins", 3) {
		m = append(m, ykv{"insecure", rapid.Bool().Draw(g.t, "trinsv")})
	}
	if g.chance("trtls", 3) {
		m = append(m, ykv{"tls_config", g.tls()})
	}
	if g.chance("trhdr", 3) {
		m = append(m, ykv{"headers", g.headers()})
	}
	if g.chance("trcomp", 3) {
		m = append(m, ykv{"compression", g.pick("trcompv", "gzip", "")})
	}
	if g.chance("trto", 3) {
		m = append(m, ykv{"timeout", g.dur("trtov", false)})
	}
	return m
}

func (g *c49Gen) otlp() ymap {
	var m ymap
	all := g.chance("otlpall", 3)
	if all {
		m = append(m, ykv{"promote_all_resource_attributes", true})
		if g.chance("otlpign", 2) {
			m = append(m, ykv{"ignore_resource_attributes", ylist{"k8s.pod.uid", g.pick("otlpignv", "host.name", " padded ", "ü.attr")}})
		}
	} else if g.chance("otlppromote", 2) {
		m = append(m, ykv{"promote_resource_attributes", ylist{"service.name", g.pick("otlppromotev", "k8s.cluster.name", " padded ", "ü.attr")}})
	}
	if g.chance("otlpts", 2) {
		opts := []string{"UnderscoreEscapingWithSuffixes", "UnderscoreEscapingWithoutSuffixes"}
		if !g.legacy {
			opts = append(opts, "NoUTF8EscapingWithSuffixes", "NoTranslation")
		}
		m = append(m, ykv{"translation_strategy", g.pick("otlptsv", opts...)})
	}
	for _, k := range []string{"keep_identifying_resource_attributes", "convert_histograms_to_nhcb", "promote_scope_metadata"} {
		if g.chance(k, 4) {
			m = append(m, ykv{k, rapid.Bool().Draw(g.t, k+"v")})
		}
	}
	for _, k := range []string{"label_name_underscore_sanitization", "label_name_preserve_multiple_underscores"} {
		if g.chance(k, 4) {
			m = append(m, ykv{k, !g.lossy(k)}) // false (the non-default) only now and then: see c49OmitemptyDefaulted
		}
	}
	return m
}

func genC49(t *rapid.T) c49Case {
	g := &c49Gen{t: t}
	var top ymap
	sections := 0
	ginterval, gtimeout := int64(60000), int64(10000)
	if g.chance("hasglobal", 4) == false {
		var gm ymap
		gm, ginterval, gtimeout = g.global()
		top = append(top, ykv{"global", gm})
		sections++
	}
	if g.chance("hasruntime", 5) {
		top = append(top, ykv{"runtime", ymap{{"gogc", rapid.SampledFrom([]int{75, 100, 50, 1, 0, -1}).Draw(t, "gogc")}}})
		sections++
	}
	if g.chance("hasalerting", 3) {
		top = append(top, ykv{"alerting", g.alerting()})
		sections++
	}
	if g.chance("hasrulefiles", 3) {
		var l ylist
		for i, n := 0, rapid.IntRange(1, 3).Draw(t, "nrulefiles"); i < n; i++ {
			l = append(l, g.pick("rulefile", "rules/*.yml", "first.rules", "/etc/prometheus/alerts.yaml", "my rules/a.yml", "rules/ü.yml"))
		}
		top = append(top, ykv{"rule_files", l})
		sections++
	}
	if g.chance("hasscrapefiles", 6) {
		top = append(top, ykv{"scrape_config_files", ylist{g.pick("scrapefile", "scrape/*.yml", "more.yaml")}})
		sections++
	}
	if g.chance("hasscrape", 4) == false {
		var l ylist
		for i, n := 0, rapid.IntRange(1, 3).Draw(t, "nscrape"); i < n; i++ {
			name := g.pick("jobname", "prometheus", "node", "blackbox http", "ünï", "k8s/pods") + strconv.Itoa(i)
			l = append(l, g.scrapeConfig(name, ginterval, gtimeout))
		}
		top = append(top, ykv{"scrape_configs", l})
		sections++
	}
	if g.chance("hasstorage", 3) {
		top = append(top, ykv{"storage", g.storage()})
		sections++
	}
	if g.chance("hastracing", 4) {
		top = append(top, ykv{"tracing", g.tracing()})
		sections++
	}
	if g.chance("hasrw", 3) {
		var l ylist
		for i, n := 0, rapid.IntRange(1, 2).Draw(t, "nrw"); i < n; i++ {
			name := ""
			if g.chance("rwname", 2) {
				name = g.pick("rwnamev", "primary", "long term", "ü") + strconv.Itoa(i)
			}
			l = append(l, g.remoteWrite(name))
		}
		top = append(top, ykv{"remote_write", l})
		sections++
	}
	if g.chance("hasrr", 4) {
		var l ylist
		for i, n := 0, rapid.IntRange(1, 2).Draw(t, "nrr"); i < n; i++ {
			name := ""
			if g.chance("rrname", 2) {
				name = "read" + strconv.Itoa(i)
			}
			l = append(l, g.remoteRead(name))
		}
		top = append(top, ykv{"remote_read", l})
		sections++
	}
	if g.chance("hasotlp", 4) {
		top = append(top, ykv{"otlp", g.otlp()})
		sections++
	}
	var b strings.Builder
	yemit(&b, top, 0)
	return c49Case{YAML: b.String(), Sections: sections, Relabels: g.relabels, NonDefDur: g.durs}
}

// ---- structural comparison ------------------------------------------------------------------

var (
	c49RegexpType = reflect.TypeOf((*regexp.Regexp)(nil))
	c49URLType    = reflect.TypeOf((*url.URL)(nil))
	c49LabelsType = reflect.TypeOf(labels.Labels{})
)

// c49Diff returns the path of the first difference between a and b, or "".
func c49Diff(a, b reflect.Value, path string) string {
	if a.IsValid() != b.IsValid() {
		return path + " (one side invalid)"
	}
	if !a.IsValid() {
		return ""
	}
	if a.Type() != b.Type() {
		return fmt.Sprintf("%s (type %s vs %s)", path, a.Type(), b.Type())
	}
	if a.Type() == c49LabelsType && a.CanInterface() {
		la, lb := a.Interface().(labels.Labels), b.Interface().(labels.Labels)
		if !labels.Equal(la, lb) {
			return fmt.Sprintf("%s (%s vs %s)", path, la, lb)
		}
		return ""
	}
	switch a.Kind() {
	case reflect.Ptr:
		if a.IsNil() || b.IsNil() {
			if a.IsNil() != b.IsNil() {
				return fmt.Sprintf("%s (nil: %v vs %v)", path, a.IsNil(), b.IsNil())
			}
			return ""
		}
		if (a.Type() == c49RegexpType || a.Type() == c49URLType) && a.CanInterface() {
			sa, sb := fmt.Sprint(a.Interface()), fmt.Sprint(b.Interface())
			if sa != sb {
				return fmt.Sprintf("%s (%q vs %q)", path, sa, sb)
			}
			return ""
		}
		return c49Diff(a.Elem(), b.Elem(), path)
	case reflect.Interface:
		if a.IsNil() || b.IsNil() {
			if a.IsNil() != b.IsNil() {
				return fmt.Sprintf("%s (nil interface: %v vs %v)", path, a.IsNil(), b.IsNil())
			}
			return ""
		}
		return c49Diff(a.Elem(), b.Elem(), path)
	case reflect.Struct:
		for i := 0; i < a.NumField(); i++ {
			if d := c49Diff(a.Field(i), b.Field(i), path+"."+a.Type().Field(i).Name); d != "" {
				return d
			}
		}
		return ""
	case reflect.Slice:
		if a.IsNil() != b.IsNil() && (a.Len() != 0 || b.Len() != 0) {
			return fmt.Sprintf("%s (nil slice: %v vs %v)", path, a.IsNil(), b.IsNil())
		}
		fallthrough
	case reflect.Array:
		if a.Len() != b.Len() {
			return fmt.Sprintf("%s (length %d vs %d)", path, a.Len(), b.Len())
		}
		for i := 0; i < a.Len(); i++ {
			if d := c49Diff(a.Index(i), b.Index(i), fmt.Sprintf("%s[%d]", path, i)); d != "" {
				return d
			}
		}
		return ""
	case reflect.Map:
		if a.Len() != b.Len() {
			return fmt.Sprintf("%s (map size %d vs %d)", path, a.Len(), b.Len())
		}
		for _, k := range a.MapKeys() {
			bv := b.MapIndex(k)
			if !bv.IsValid() {
				return fmt.Sprintf("%s[%v] (missing)", path, k)
			}
			if d := c49Diff(a.MapIndex(k), bv, fmt.Sprintf("%s[%v]", path, k)); d != "" {
				return d
			}
		}
		return ""
	case reflect.Func, reflect.Chan:
		if a.IsNil() != b.IsNil() {
			return path + " (func/chan nil-ness)"
		}
		return ""
	case reflect.Bool:
		if a.Bool() != b.Bool() {
			return fmt.Sprintf("%s (%v vs %v)", path, a.Bool(), b.Bool())
		}
	case reflect.Int, reflect.Int8, reflect.Int16, reflect.Int32, reflect.Int64:
		if a.Int() != b.Int() {
			return fmt.Sprintf("%s (%d vs %d)", path, a.Int(), b.Int())
		}
	case reflect.Uint, reflect.Uint8, reflect.Uint16, reflect.Uint32, reflect.Uint64, reflect.Uintptr:
		if a.Uint() != b.Uint() {
			return fmt.Sprintf("%s (%d vs %d)", path, a.Uint(), b.Uint())
		}
	case reflect.Float32, reflect.Float64:
		if a.Float() != b.Float() {
			return fmt.Sprintf("%s (%v vs %v)", path, a.Float(), b.Float())
		}
	case reflect.String:
		if a.String() != b.String() {
			return fmt.Sprintf("%s (%q vs %q)", path, a.String(), b.String())
		}
	default:
		return fmt.Sprintf("%s (unhandled kind %s)", path, a.Kind())
	}
	return ""
}

// ---- run ------------------------------------------------------------------------------------

var c49Logger = promslog.NewNopLogger()

func c49FirstLineDiff(a, b string) string {
	la, lb := strings.Split(a, "\n"), strings.Split(b, "\n")
	for i := 0; i < len(la) || i < len(lb); i++ {
		var x, y string
		if i < len(la) {
			x = la[i]
		}
		if i < len(lb) {
			y = lb[i]
		}
		if x != y {
			return fmt.Sprintf("line %d: %q vs %q", i+1, x, y)
		}
	}
	return ""
}

func runC49(c c49Case, r *ev.Rec) error {
	c1, err := config.Load(c.YAML, c49Logger)
	if err != nil {
		r.Discard() // not a valid configuration: not a case
		return nil
	}
	y1 := c1.String()
	if strings.HasPrefix(y1, "<error") {
		return ev.Failf("printing the loaded configuration failed: %s\ninput:\n%s", y1, c.YAML)
	}
	c2, err := config.Load(y1, c49Logger)
	if err != nil {
		// root cause 1 again: an explicit min_backoff of 0 is not printed, the default (30ms) comes
		// back and may exceed the configured max_backoff
		if strings.Contains(err.Error(), "max_backoff must not be less than min_backoff") {
			for _, rw := range c1.RemoteWriteConfigs {
				if rw.QueueConfig.MinBackoff == 0 && rw.QueueConfig.MaxBackoff < config.DefaultQueueConfig.MinBackoff {
					r.Class("known-loss:Config.RemoteWriteConfigs[].QueueConfig.MinBackoff (reload error)")
					return ev.FailSig(c49SigOmitempty, "the printed configuration does not load: %v (min_backoff: 0s was not printed)\ninput:\n%s\nprinted:\n%s", err, c.YAML, y1)
				}
			}
		}
		return ev.Failf("the printed configuration does not load: %v\ninput:\n%s\nprinted:\n%s", err, c.YAML, y1)
	}
	if d := c49Diff(reflect.ValueOf(c1).Elem(), reflect.ValueOf(c2).Elem(), "Config"); d != "" {
		if sig := c49KnownLoss(d, c1); sig != "" {
			r.Class("known-loss:" + c49IndexRe.ReplaceAllString(strings.SplitN(d, " ", 2)[0], "[]"))
			return ev.FailSig(sig, "reloading the printed configuration changes %s\ninput:\n%s\nprinted:\n%s", d, c.YAML, y1)
		}
		return ev.Failf("reloading the printed configuration changes %s\ninput:\n%s\nprinted:\n%s", d, c.YAML, y1)
	}
	if y2 := c2.String(); y2 != y1 {
		return ev.Failf("printing is not stable: second print differs at %s\ninput:\n%s", c49FirstLineDiff(y1, y2), c.YAML)
	}
	r.Count("sections", c.Sections)
	if c.Relabels > 0 {
		r.Class("has-relabel")
	}
	for _, s := range []string{"global", "scrape_configs", "remote_write", "remote_read", "alerting", "storage", "tracing", "otlp", "rule_files", "runtime"} {
		if strings.Contains(c.YAML, "\n"+s+":") || strings.HasPrefix(c.YAML, s+":") {
			r.Class("section:" + s)
		}
	}
	if c.Sections >= 2 && (c.Relabels > 0 || c.NonDefDur) {
		r.NonTrivial()
	}
	return nil
}

// Confirmed round-trip losses (reported; see replays/C49/known-*.json).
//
// Root cause 1, "omitempty-drops-explicit-zero-of-defaulted-field": the field has a non-zero
// default that UnmarshalYAML installs before decoding, and an `omitempty` YAML tag; a
// configuration that sets it explicitly to the zero value (false / 0s / 0 / "") is
// printed without the field, so loading the printed text brings the default back.
// The predicate is on the loaded input: the differing field is one of the listed ones
// and its value in the first load is the zero value.
var c49OmitemptyDefaulted = map[string]bool{
	"Config.OTLPConfig.LabelNameUnderscoreSanitization":            true, // default true
	"Config.OTLPConfig.LabelNamePreserveMultipleUnderscores":       true, // default true
	"Config.RemoteReadConfigs[].FilterExternalLabels":              true, // default true
	"Config.RemoteReadConfigs[].ChunkedReadLimit":                  true, // default 5e7
	"Config.RemoteReadConfigs[].RemoteTimeout":                     true, // default 1m
	"Config.RemoteWriteConfigs[].RemoteTimeout":                    true, // default 30s
	"Config.RemoteWriteConfigs[].MetadataConfig.MaxSamplesPerSend": true, // default 2000
	"Config.RemoteWriteConfigs[].MetadataConfig.Send":              true, // default true; lost when the whole metadata_config block is zero-valued (omitempty on the block)
	"Config.RemoteWriteConfigs[].QueueConfig.BatchSendDeadline":    true, // default 5s
	"Config.RemoteWriteConfigs[].QueueConfig.MinBackoff":           true, // default 30ms
	"Config.AlertingConfig.AlertmanagerConfigs[].Scheme":           true, // default http
	"Config.AlertingConfig.AlertmanagerConfigs[].Timeout":          true, // default 10s
	"Config.ScrapeConfigs[].MetricsPath":                           true, // default /metrics
	"Config.ScrapeConfigs[].Scheme":                                true, // default http
}

// Root cause 2, "external-label-dollar-reexpanded": Load expands ${VAR} / $VAR in external
// label values and turns "$$" into "$"; String prints the expanded value, so a literal "$"
// is expanded a second time when the printed text is loaded. Predicate: the difference is
// in the external labels and a loaded external label value contains "$".
const c49SigDollar = "external-label-dollar-reexpanded"

var c49DiffRe = regexp.MustCompile(`(?s)^(\S+) \((.*) vs (.*)\)$`)
var c49IndexRe = regexp.MustCompile(`\[[^\]]*\]`)

const c49SigOmitempty = "omitempty-drops-explicit-zero-of-defaulted-field"

func c49KnownLoss(diff string, c1 *config.Config) string {
	m := c49DiffRe.FindStringSubmatch(diff)
	if m == nil {
		return ""
	}
	if strings.HasPrefix(m[1], "Config.GlobalConfig.ExternalLabels") {
		dollar := false
		c1.GlobalConfig.ExternalLabels.Range(func(l labels.Label) { dollar = dollar || strings.Contains(l.Value, "$") })
		if dollar {
			return c49SigDollar
		}
		return ""
	}
	path := c49IndexRe.ReplaceAllString(m[1], "[]")
	zero := m[2] == "false" || m[2] == "0" || m[2] == `""`
	if zero && c49OmitemptyDefaulted[path] {
		return c49SigOmitempty
	}
	return ""
}

func TestC49(t *testing.T) {
	ev.Check(t, "C49",
		"a structurally generated configuration (global incl. limits / protocols / validation scheme / external labels, 1-3 scrape configs with static, file, http, dns SD, HTTP client settings without inline secrets and relabeling, remote write with queue and metadata config, remote read, alerting with alertmanagers and relabeling, rule files, storage tsdb/exemplars, tracing, runtime, otlp) rendered to YAML; only inputs config.Load accepts count (others are discards). Load -> String -> Load must give a field-by-field equal Config (regexps and URLs by string) and a second String must equal the first. Non-trivial: >= 2 top-level sections and >= 1 relabel rule or an explicit duration; distinct by hash of the case.",
		genC49, runC49)
}
