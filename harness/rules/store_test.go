package rules

import (
	"context"
	"math"
	"sort"

	"github.com/prometheus/prometheus/model/labels"
	"github.com/prometheus/prometheus/storage"
	"github.com/prometheus/prometheus/tsdb"
	"github.com/prometheus/prometheus/tsdb/chunkenc"
	"github.com/prometheus/prometheus/util/teststorage"

	"verifharness/internal/ev"
)

// helpers shared by C44 (restore part) and C45: a real TSDB in a temp dir and a reader
// returning every stored float sample (stale markers included) per series.

func newC45Storage() (*teststorage.TestStorage, error) {
	return teststorage.NewWithError(func(o *tsdb.Options) {
		// no WAL (no fsyncs) and no exemplar ring: the cases never restart the TSDB itself
		o.WALSegmentSize = -1
		o.EnableExemplarStorage = false
		o.MaxExemplars = 0
	})
}

func readAllSeries(st storage.Queryable, ms ...*labels.Matcher) (c44Store, error) {
	q, err := st.Querier(math.MinInt64, math.MaxInt64)
	if err != nil {
		return nil, err
	}
	defer q.Close()
	out := c44Store{}
	ss := q.Select(context.Background(), true, nil, ms...)
	var it chunkenc.Iterator
	for ss.Next() {
		s := ss.At()
		key := s.Labels().String()
		it = s.Iterator(it)
		for vt := it.Next(); vt != chunkenc.ValNone; vt = it.Next() {
			if vt != chunkenc.ValFloat {
				return nil, ev.Failf("series %s: unexpected non-float sample stored", key)
			}
			t, v := it.At()
			out[key] = append(out[key], c44Sample{L: key, T: t, V: math.Float64bits(v)})
		}
		if it.Err() != nil {
			return nil, it.Err()
		}
	}
	return out, ss.Err()
}

func cmpStores(where string, want, got c44Store) error {
	keys := map[string]bool{}
	for k, v := range want {
		if len(v) > 0 {
			keys[k] = true
		}
	}
	for k := range got {
		keys[k] = true
	}
	var ks []string
	for k := range keys {
		ks = append(ks, k)
	}
	sort.Strings(ks)
	for _, k := range ks {
		w, g := want[k], got[k]
		same := len(w) == len(g)
		if same {
			for i := range w {
				if w[i].T != g[i].T || w[i].V != g[i].V {
					same = false
					break
				}
			}
		}
		if !same {
			return ev.Failf("%s: series %s\n    want:%s\n    got:%s", where, k, c44FmtSamples(w), c44FmtSamples(g))
		}
	}
	return nil
}
