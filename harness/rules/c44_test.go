package rules

import (
	"context"
	"fmt"
	"math"
	"sort"
	"strconv"
	"strings"
	"testing"
	"time"

	"github.com/prometheus/common/promslog"
	"github.com/prometheus/prometheus/model/exemplar"
	"github.com/prometheus/prometheus/model/histogram"
	"github.com/prometheus/prometheus/model/labels"
	"github.com/prometheus/prometheus/model/metadata"
	"github.com/prometheus/prometheus/model/value"
	"github.com/prometheus/prometheus/promql"
	"github.com/prometheus/prometheus/promql/parser"
	"github.com/prometheus/prometheus/rules"
	"github.com/prometheus/prometheus/storage"
	"pgregory.net/rapid"

	"verifharness/internal/ev"
	"verifharness/internal/gen"
)

// C44 — Alert states follow the for / keep_firing_for semantics.
//
// Part "tl": one alerting rule inside a rules.Group, evaluated through Group.Eval with an
// injected QueryFunc, a capturing Appendable and a capturing NotifyFunc, against a
// reference state machine per label set.
// Part "restore": ALERTS_FOR_STATE written to a real TSDB by a first group, then a fresh
// rule/group (a restart), Group.RestoreForState and further evaluations.

const c44Unset = math.MinInt64

const c44Retention = int64(15 * 60 * 1000) // resolved alerts are retained 15 minutes

var (
	c44Parser  = parser.NewParser(parser.Options{})
	c44Metrics = rules.NewGroupMetrics(nil)
	c44Logger  = promslog.NewNopLogger()
)

func c44Time(ms int64) time.Time { return time.UnixMilli(ms).UTC() }

type c44Step struct {
	Dt      int64 // ms since the previous evaluation (>0)
	Present []int // indices into Universe, ascending
	Vals    []int // value*2 per present element (values are k/2)
	Reload  bool  `json:",omitempty"` // a new rule (NewFor/NewKF) takes over through Group.CopyState before this evaluation
	NewFor  int64 `json:",omitempty"`
	NewKF   int64 `json:",omitempty"`
}

type c44Case struct {
	Base        int64 // ms of "time zero"
	For, KF     int64 // ms
	Limit       int
	ResendDelay int64 // ms
	QueryOffset int64 // ms
	Interval    int64 // ms (group interval, only feeds ValidUntil)
	ValueLabel  bool  // rule label val="{{ $value }}": the identity depends on the value
	OverrideJob bool  // rule label job="ov" overriding a result label
	Universe    []gen.Lset
	Steps       []c44Step
}

var c44Durations = []int64{0, 0, 1, 30_000, 60_000, 60_000, 120_000, 300_000, 600_000, 1_200_000}
var c44Dts = []int64{1000, 15_000, 30_000, 30_000, 60_000, 60_000, 60_000, 120_000, 300_000, 450_000, 899_999, 900_000, 900_001, 1_000_000}

func c44Universe(t *rapid.T, overrideJob bool) []gen.Lset {
	n := rapid.IntRange(1, 4).Draw(t, "nsets")
	var out []gen.Lset
	seen := map[string]bool{}
	for i := 0; i < n; i++ {
		l := gen.SmallLset(rapid.Bool().Draw(t, "named"), 3).Draw(t, "lset")
		// identity of the alert: result labels without the metric name, with rule labels applied
		var id gen.Lset
		for _, p := range l {
			if p[0] == "__name__" || (overrideJob && p[0] == "job") {
				continue
			}
			id = append(id, p)
		}
		if seen[id.Key()] {
			continue
		}
		seen[id.Key()] = true
		out = append(out, l)
	}
	return out
}

func genC44(t *rapid.T) c44Case {
	c := c44Case{
		Base:        rapid.SampledFrom([]int64{0, 1_000, 1_700_000_000_000, 1_700_000_000_123}).Draw(t, "base"),
		For:         rapid.SampledFrom(c44Durations).Draw(t, "for"),
		KF:          rapid.SampledFrom(c44Durations).Draw(t, "kf"),
		ResendDelay: rapid.SampledFrom([]int64{0, 0, 60_000, 300_000}).Draw(t, "resend"),
		QueryOffset: rapid.SampledFrom([]int64{0, 0, 0, 60_000}).Draw(t, "qoffset"),
		Interval:    rapid.SampledFrom([]int64{1000, 60_000}).Draw(t, "interval"),
		ValueLabel:  rapid.IntRange(0, 5).Draw(t, "valuelabel") == 0,
		OverrideJob: rapid.IntRange(0, 4).Draw(t, "overridejob") == 0,
	}
	if rapid.IntRange(0, 3).Draw(t, "haslimit") == 0 {
		c.Limit = rapid.IntRange(1, 3).Draw(t, "limit")
	}
	c.Universe = c44Universe(t, c.OverrideJob)
	n := len(c.Universe)
	nsteps := rapid.IntRange(5, 60).Draw(t, "nsteps")
	flip := rapid.SampledFrom([]int{1, 2, 3, 5}).Draw(t, "flip")
	jitter := rapid.IntRange(0, 3).Draw(t, "jitter") == 0
	reloads := rapid.IntRange(0, 2).Draw(t, "reloads") == 0
	state := make([]bool, n)
	vals := make([]int, n)
	for i := range vals {
		state[i] = rapid.Bool().Draw(t, "s0")
		vals[i] = rapid.IntRange(1, 6).Draw(t, "v0")
	}
	for s := 0; s < nsteps; s++ {
		st := c44Step{Dt: rapid.SampledFrom(c44Dts).Draw(t, "dt")}
		if jitter {
			st.Dt += int64(rapid.IntRange(-999, 999).Draw(t, "dtjitter"))
			if st.Dt <= 0 {
				st.Dt = 1
			}
		}
		for i := 0; i < n; i++ {
			if rapid.IntRange(0, 9).Draw(t, "flipdraw") < flip {
				state[i] = !state[i]
			}
			if rapid.IntRange(0, 5).Draw(t, "vchange") == 0 {
				vals[i] = rapid.IntRange(1, 6).Draw(t, "v")
			}
			if state[i] {
				st.Present = append(st.Present, i)
				st.Vals = append(st.Vals, vals[i])
			}
		}
		if reloads && rapid.IntRange(0, 7).Draw(t, "reload") == 0 {
			st.Reload = true
			st.NewFor = rapid.SampledFrom(c44Durations).Draw(t, "newfor")
			st.NewKF = rapid.SampledFrom(c44Durations).Draw(t, "newkf")
		}
		c.Steps = append(c.Steps, st)
	}
	return c
}

// ---- capturing appender -------------------------------------------------------------

type c44Sample struct {
	L string
	T int64
	V uint64
}

type c44Appendable struct{ got []c44Sample }

func (a *c44Appendable) Appender(context.Context) storage.Appender { return &c44Appender{to: a} }

type c44Appender struct {
	to   *c44Appendable
	pend []c44Sample
}

func (a *c44Appender) Append(_ storage.SeriesRef, l labels.Labels, t int64, v float64) (storage.SeriesRef, error) {
	a.pend = append(a.pend, c44Sample{L: l.String(), T: t, V: math.Float64bits(v)})
	return 0, nil
}
func (a *c44Appender) Commit() error {
	a.to.got = append(a.to.got, a.pend...)
	a.pend = nil
	return nil
}
func (a *c44Appender) Rollback() error                   { a.pend = nil; return nil }
func (a *c44Appender) SetOptions(*storage.AppendOptions) {}
func (a *c44Appender) AppendExemplar(storage.SeriesRef, labels.Labels, exemplar.Exemplar) (storage.SeriesRef, error) {
	return 0, nil
}
func (a *c44Appender) AppendHistogram(storage.SeriesRef, labels.Labels, int64, *histogram.Histogram, *histogram.FloatHistogram) (storage.SeriesRef, error) {
	return 0, fmt.Errorf("unexpected histogram append")
}
func (a *c44Appender) AppendHistogramSTZeroSample(storage.SeriesRef, labels.Labels, int64, int64, *histogram.Histogram, *histogram.FloatHistogram) (storage.SeriesRef, error) {
	return 0, nil
}
func (a *c44Appender) UpdateMetadata(storage.SeriesRef, labels.Labels, metadata.Metadata) (storage.SeriesRef, error) {
	return 0, nil
}
func (a *c44Appender) AppendSTZeroSample(storage.SeriesRef, labels.Labels, int64, int64) (storage.SeriesRef, error) {
	return 0, nil
}

// ---- reference state machine ----------------------------------------------------------

const (
	c44Pending  = 1
	c44Firing   = 2
	c44Resolved = 3
)

func c44StateName(s int) string {
	switch s {
	case c44Pending:
		return "pending"
	case c44Firing:
		return "firing"
	case c44Resolved:
		return "inactive"
	}
	return "?"
}

type c44Alert struct {
	labels     labels.Labels // alert labels (no metric name, with alertname and rule labels)
	state      int
	activeAt   int64
	firedAt    int64
	resolvedAt int64
	kfSince    int64
	lastSent   int64
	val        float64
	ann        string
	// progress towards the non-trivial pattern: 1 created, 2 fired, 3 kept firing while absent, 4 resolved
	stage int
}

type c44Present struct {
	labels labels.Labels
	val    float64
	ann    string
}

type c44Model struct {
	hold, kf int64
	alerts   map[string]*c44Alert
	// series written by the last successful evaluation
	prev map[string]labels.Labels
	// evidence
	nontrivial                              bool
	sawDemotion, sawKeepFiring, sawResolved bool
	sawRetentionDrop, sawRefire             bool
}

func newC44Model(hold, kf int64) *c44Model {
	return &c44Model{hold: hold, kf: kf, alerts: map[string]*c44Alert{}, prev: map[string]labels.Labels{}}
}

// eval advances the reference to the evaluation at ts with the given result set.
// It returns limitErr=true when the rule limit is exceeded (all state cleared), and the
// keys of resolved alerts that sit exactly on the retention boundary (their presence
// is not demanded either way).
func (m *c44Model) eval(ts int64, present map[string]c44Present, limit int) (limitErr bool, boundary map[string]*c44Alert) {
	boundary = map[string]*c44Alert{}
	for k, p := range present {
		a := m.alerts[k]
		if a == nil || a.state == c44Resolved {
			stage := 1
			if a != nil && a.stage == 4 {
				m.nontrivial = true
			}
			if a != nil {
				m.sawRefire = true
			}
			m.alerts[k] = &c44Alert{labels: p.labels, state: c44Pending, activeAt: ts, firedAt: c44Unset, resolvedAt: c44Unset,
				kfSince: c44Unset, lastSent: c44Unset, val: p.val, ann: p.ann, stage: stage}
			continue
		}
		a.val, a.ann = p.val, p.ann
	}
	n := 0
	for k, a := range m.alerts {
		if _, ok := present[k]; !ok {
			keep := false
			switch a.state {
			case c44Pending:
				delete(m.alerts, k) // a pending alert that is absent is dropped
				continue
			case c44Firing:
				if m.kf > 0 {
					if a.kfSince == c44Unset {
						a.kfSince = ts
					}
					keep = ts-a.kfSince < m.kf
				}
				if !keep {
					a.state = c44Resolved
					a.resolvedAt = ts
					m.sawResolved = true
					if a.stage == 3 {
						a.stage = 4
					}
				}
			case c44Resolved:
				switch d := ts - a.resolvedAt; {
				case d > c44Retention:
					delete(m.alerts, k)
					m.sawRetentionDrop = true
				case d == c44Retention:
					boundary[k] = a
					delete(m.alerts, k)
				}
			}
			if !keep {
				continue
			}
			m.sawKeepFiring = true
			if a.stage == 2 {
				a.stage = 3
			}
		} else {
			a.kfSince = c44Unset
		}
		n++
		if a.state == c44Pending && ts-a.activeAt >= m.hold {
			a.state = c44Firing
			a.firedAt = ts
			if a.stage == 1 {
				a.stage = 2
			}
		}
		// After a hold-duration increase (reload) an alert that has not been active for the new
		// duration counts as pending again (TestFiringAlertResetToPendingOnHoldDurationIncrease).
		if a.state == c44Firing && ts-a.activeAt < m.hold {
			a.state = c44Pending
			a.firedAt, a.lastSent, a.kfSince = c44Unset, c44Unset, c44Unset
			m.sawDemotion = true
		}
	}
	if limit > 0 && n > limit {
		m.alerts = map[string]*c44Alert{}
		return true, nil
	}
	return false, boundary
}

func c44ForStateLabels(ruleLabels labels.Labels, name string, a labels.Labels) labels.Labels {
	lb := labels.NewBuilder(ruleLabels)
	a.Range(func(l labels.Label) { lb.Set(l.Name, l.Value) })
	lb.Set("__name__", "ALERTS_FOR_STATE")
	lb.Set("alertname", name)
	return lb.Labels()
}

func c44AlertsLabels(ruleLabels labels.Labels, name string, a labels.Labels, state string) labels.Labels {
	lb := labels.NewBuilder(ruleLabels)
	a.Range(func(l labels.Label) { lb.Set(l.Name, l.Value) })
	lb.Set("__name__", "ALERTS")
	lb.Set("alertname", name)
	lb.Set("alertstate", state)
	return lb.Labels()
}

// expectedSeries returns the samples the evaluation at sample time t must write and
// updates prev. floor(activeAt/1000) is the ALERTS_FOR_STATE value.
func (m *c44Model) expectedSeries(t int64, ruleLabels labels.Labels, name string) []c44Sample {
	cur := map[string]labels.Labels{}
	var out []c44Sample
	for _, a := range m.alerts {
		if a.state != c44Pending && a.state != c44Firing {
			continue
		}
		l1 := c44AlertsLabels(ruleLabels, name, a.labels, c44StateName(a.state))
		l2 := c44ForStateLabels(ruleLabels, name, a.labels)
		cur[l1.String()], cur[l2.String()] = l1, l2
		out = append(out, c44Sample{L: l1.String(), T: t, V: math.Float64bits(1)})
		out = append(out, c44Sample{L: l2.String(), T: t, V: math.Float64bits(float64(floorDiv(a.activeAt, 1000)))})
	}
	for k := range m.prev {
		if _, ok := cur[k]; !ok {
			out = append(out, c44Sample{L: k, T: t, V: value.StaleNaN})
		}
	}
	m.prev = cur
	return out
}

func floorDiv(a, b int64) int64 {
	q := a / b
	if a%b != 0 && (a < 0) != (b < 0) {
		q--
	}
	return q
}

func c44SortSamples(s []c44Sample) {
	sort.Slice(s, func(i, j int) bool {
		if s[i].L != s[j].L {
			return s[i].L < s[j].L
		}
		if s[i].T != s[j].T {
			return s[i].T < s[j].T
		}
		return s[i].V < s[j].V
	})
}

func c44FmtSamples(s []c44Sample) string {
	var b strings.Builder
	for _, x := range s {
		v := math.Float64frombits(x.V)
		vs := strconv.FormatFloat(v, 'g', -1, 64)
		if x.V == value.StaleNaN {
			vs = "STALE"
		}
		fmt.Fprintf(&b, "\n      %s @%d = %s", x.L, x.T, vs)
	}
	return b.String()
}

func c44CmpSamples(where string, want, got []c44Sample) error {
	c44SortSamples(want)
	c44SortSamples(got)
	same := len(want) == len(got)
	if same {
		for i := range want {
			if want[i] != got[i] {
				same = false
				break
			}
		}
	}
	if !same {
		return ev.Failf("%s: written series differ\n    want:%s\n    got:%s", where, c44FmtSamples(want), c44FmtSamples(got))
	}
	return nil
}

func c44FmtT(ms int64) string {
	if ms == c44Unset {
		return "-"
	}
	return strconv.FormatInt(ms, 10)
}

func c44RealT(t time.Time) int64 {
	if t.IsZero() {
		return c44Unset
	}
	return t.UnixMilli()
}

func (a *c44Alert) String() string {
	return fmt.Sprintf("%s %s activeAt=%s firedAt=%s resolvedAt=%s value=%g", a.labels, c44StateName(a.state), c44FmtT(a.activeAt), c44FmtT(a.firedAt), c44FmtT(a.resolvedAt), a.val)
}

func c44RealString(a *rules.Alert) string {
	return fmt.Sprintf("%s %s activeAt=%s firedAt=%s resolvedAt=%s value=%g keepFiringSince=%s", a.Labels, a.State, c44FmtT(c44RealT(a.ActiveAt)), c44FmtT(c44RealT(a.FiredAt)), c44FmtT(c44RealT(a.ResolvedAt)), a.Value, c44FmtT(c44RealT(a.KeepFiringSince)))
}

func c44RealState(s rules.AlertState) int {
	switch s {
	case rules.StatePending:
		return c44Pending
	case rules.StateFiring:
		return c44Firing
	case rules.StateInactive:
		return c44Resolved
	}
	return 0
}

// cmpAlert compares a real alert with the model alert (exact nanosecond equality of the
// instants: every instant in a case is a whole millisecond).
func c44CmpAlert(where string, m *c44Alert, a *rules.Alert, withAnn bool) error {
	bad := c44RealState(a.State) != m.state || c44RealT(a.ActiveAt) != m.activeAt || c44RealT(a.FiredAt) != m.firedAt ||
		c44RealT(a.ResolvedAt) != m.resolvedAt || a.Value != m.val
	if !bad && m.activeAt != c44Unset && !a.ActiveAt.Equal(c44Time(m.activeAt)) {
		bad = true
	}
	if !bad && withAnn && a.Annotations.Get("summary") != m.ann {
		return ev.Failf("%s: alert %s annotation summary=%q, want %q", where, a.Labels, a.Annotations.Get("summary"), m.ann)
	}
	if bad {
		return ev.Failf("%s: alert differs\n    want: %s\n    got:  %s", where, m, c44RealString(a))
	}
	return nil
}

func (m *c44Model) dump() string {
	var ks []string
	for k := range m.alerts {
		ks = append(ks, k)
	}
	sort.Strings(ks)
	var b strings.Builder
	for _, k := range ks {
		fmt.Fprintf(&b, "\n      %s", m.alerts[k])
	}
	return b.String()
}

func c44FmtVal(v2 int) (float64, string) {
	f := float64(v2) / 2
	return f, strconv.FormatFloat(f, 'g', -1, 64)
}

// ---- part "tl" ------------------------------------------------------------------------

const c44AlertName = "HighThing"

func c44RuleLabels(c c44Case) labels.Labels {
	ls := []string{"severity", "page"}
	if c.ValueLabel {
		ls = append(ls, "val", "{{ $value }}")
	}
	if c.OverrideJob {
		ls = append(ls, "job", "ov")
	}
	return labels.FromStrings(ls...)
}

func c44PresentSet(c c44Case, st c44Step) (promql.Vector, map[string]c44Present) {
	var vec promql.Vector
	present := map[string]c44Present{}
	for j, idx := range st.Present {
		l := c.Universe[idx]
		v, vs := c44FmtVal(st.Vals[j])
		vec = append(vec, promql.Sample{Metric: l.Labels(), F: v})
		lb := labels.NewBuilder(l.Labels())
		lb.Del("__name__")
		lb.Set("severity", "page")
		if c.ValueLabel {
			lb.Set("val", vs)
		}
		if c.OverrideJob {
			lb.Set("job", "ov")
		}
		lb.Set("alertname", c44AlertName)
		al := lb.Labels()
		present[al.String()] = c44Present{labels: al, val: v, ann: "v=" + vs}
	}
	return vec, present
}

func runC44(c c44Case, r *ev.Rec) error {
	if len(c.Universe) == 0 || len(c.Steps) == 0 {
		r.Discard()
		return nil
	}
	expr, err := c44Parser.ParseExpr(`some_metric > 0`)
	if err != nil {
		return err
	}
	ruleLabels := c44RuleLabels(c)
	ann := labels.FromStrings("summary", "v={{ $value }}")

	var curVec promql.Vector
	var curQueryT int64
	var queryErr error
	app := &c44Appendable{}
	var sent []*rules.Alert
	opts := &rules.ManagerOptions{
		QueryFunc: func(_ context.Context, q string, t time.Time) (promql.Vector, error) {
			if t.UnixMilli() != curQueryT {
				queryErr = ev.Failf("query %q evaluated at %d, want evaluation time minus query offset = %d", q, t.UnixMilli(), curQueryT)
			}
			out := make(promql.Vector, len(curVec))
			copy(out, curVec)
			for i := range out {
				out[i].T = t.UnixMilli()
			}
			return out, nil
		},
		NotifyFunc: func(_ context.Context, _ string, alerts ...*rules.Alert) {
			sent = append(sent, alerts...)
		},
		Appendable:  app,
		Context:     context.Background(),
		Logger:      c44Logger,
		Metrics:     c44Metrics,
		ResendDelay: time.Duration(c.ResendDelay) * time.Millisecond,
	}
	qo := time.Duration(c.QueryOffset) * time.Millisecond
	newGroup := func(hold, kf int64) (*rules.Group, *rules.AlertingRule) {
		rule := rules.NewAlertingRule(c44AlertName, expr, time.Duration(hold)*time.Millisecond, time.Duration(kf)*time.Millisecond,
			ruleLabels, ann, labels.EmptyLabels(), "", true, c44Logger)
		g := rules.NewGroup(rules.GroupOptions{Name: "g", File: "f", Interval: time.Duration(c.Interval) * time.Millisecond, Limit: c.Limit,
			Rules: []rules.Rule{rule}, Opts: opts, QueryOffset: &qo})
		return g, rule
	}
	group, rule := newGroup(c.For, c.KF)
	m := newC44Model(c.For, c.KF)
	ts := c.Base
	nLimitErr := 0
	for i, st := range c.Steps {
		ts += st.Dt
		if st.Reload {
			ng, nr := newGroup(st.NewFor, st.NewKF)
			ng.CopyState(group)
			group, rule = ng, nr
			m.hold, m.kf = st.NewFor, st.NewKF
		}
		where := fmt.Sprintf("step %d (t=%d, for=%d keep_firing_for=%d limit=%d)", i, ts, m.hold, m.kf, c.Limit)
		vec, present := c44PresentSet(c, st)
		curVec, curQueryT = vec, ts-c.QueryOffset
		app.got, sent = nil, nil
		group.Eval(context.Background(), c44Time(ts))
		if queryErr != nil {
			return queryErr
		}
		limitErr, boundary := m.eval(ts, present, c.Limit)

		// 1. evaluation outcome
		if limitErr {
			nLimitErr++
			if rule.LastError() == nil {
				return ev.Failf("%s: more active alerts than the limit but the evaluation reported no error", where)
			}
			if len(app.got) != 0 || len(sent) != 0 {
				return ev.Failf("%s: limit exceeded, yet %d samples were written and %d alerts sent (want none; no stale markers on a failed evaluation)%s", where, len(app.got), len(sent), c44FmtSamples(app.got))
			}
			if n := len(rule.ActiveAlerts()); n != 0 {
				return ev.Failf("%s: limit exceeded, all alerts must be cleared, %d still active", where, n)
			}
			continue
		}
		if e := rule.LastError(); e != nil {
			return ev.Failf("%s: unexpected evaluation error %v", where, e)
		}

		// 2. active alerts
		got := rule.ActiveAlerts()
		wantActive := 0
		for _, a := range m.alerts {
			if a.state != c44Resolved {
				wantActive++
			}
		}
		seen := map[string]bool{}
		for _, a := range got {
			k := a.Labels.String()
			ma := m.alerts[k]
			if ma == nil || ma.state == c44Resolved || seen[k] {
				return ev.Failf("%s: unexpected active alert %s\n    reference:%s", where, c44RealString(a), m.dump())
			}
			seen[k] = true
			if err := c44CmpAlert(where, ma, a, true); err != nil {
				return err
			}
		}
		if len(got) != wantActive {
			var gs []string
			for _, a := range got {
				gs = append(gs, "\n      "+c44RealString(a))
			}
			sort.Strings(gs)
			return ev.Failf("%s: %d active alerts, want %d\n    reference:%s\n    got:%s", where, len(got), wantActive, m.dump(), strings.Join(gs, ""))
		}

		// 3. written series (ALERTS, ALERTS_FOR_STATE, stale markers)
		if err := c44CmpSamples(where, m.expectedSeries(ts-c.QueryOffset, ruleLabels, c44AlertName), app.got); err != nil {
			return err
		}

		// 4. notifications
		sentKeys := map[string]bool{}
		for _, a := range sent {
			k := a.Labels.String()
			if sentKeys[k] {
				return ev.Failf("%s: alert %s handed to the notifier twice in one evaluation", where, a.Labels)
			}
			sentKeys[k] = true
			ma := m.alerts[k]
			if ma == nil {
				ma = boundary[k]
			}
			if ma == nil {
				return ev.Failf("%s: notifier got an alert the reference does not hold: %s\n    reference:%s", where, c44RealString(a), m.dump())
			}
			if ma.state == c44Pending {
				return ev.Failf("%s: pending alert handed to the notifier: %s", where, c44RealString(a))
			}
			if err := c44CmpAlert(where+" notification", ma, a, false); err != nil {
				return err
			}
		}
		for k, ma := range m.alerts {
			if ma.state == c44Pending {
				continue
			}
			must, may := false, false
			switch {
			case ma.lastSent == c44Unset:
				must = true
			case ma.resolvedAt != c44Unset && ma.resolvedAt > ma.lastSent:
				must = true
			case ma.lastSent+c.ResendDelay < ts:
				must = true
			case ma.lastSent+c.ResendDelay == ts:
				may = true
			}
			switch {
			case sentKeys[k] && !must && !may:
				return ev.Failf("%s: alert %s re-sent after %d ms, resend delay is %d ms", where, ma, ts-ma.lastSent, c.ResendDelay)
			case !sentKeys[k] && must:
				return ev.Failf("%s: alert not handed to the notifier: %s (last sent %s, resend delay %d)", where, ma, c44FmtT(ma.lastSent), c.ResendDelay)
			}
			if sentKeys[k] {
				ma.lastSent = ts
			}
		}
	}

	r.Class(fmt.Sprintf("for:%s", c44DurClass(c.For)))
	r.Class(fmt.Sprintf("kf:%s", c44DurClass(c.KF)))
	if m.sawDemotion {
		r.Class("demoted-on-hold-increase")
	}
	if m.sawKeepFiring {
		r.Class("kept-firing-while-absent")
	}
	if m.sawResolved {
		r.Class("resolved")
	}
	if m.sawRetentionDrop {
		r.Class("resolved-dropped-after-retention")
	}
	if m.sawRefire {
		r.Class("resolved-reappeared")
	}
	if nLimitErr > 0 {
		r.Class("limit-exceeded")
	}
	if m.nontrivial {
		r.NonTrivial()
	}
	return nil
}

func c44DurClass(d int64) string {
	switch {
	case d == 0:
		return "0"
	case d <= 60_000:
		return "short"
	}
	return "long"
}

func TestC44(t *testing.T) {
	ev.Check(t, "C44",
		"timeline of 5-60 Group.Eval calls at irregular intervals over one alerting rule (for/keep_firing_for in {0,1ms,30s..20m}, optional limit, resend delay, query offset, templated value label, hold/keep-firing change through Group.CopyState) with 1-4 flapping label sets and changing values; ActiveAlerts, written ALERTS/ALERTS_FOR_STATE samples incl. stale markers and notifier hand-offs compared with a reference state machine per label set. Non-trivial: one label set goes pending -> firing -> firing while absent (keep_firing_for) -> resolved -> pending again; distinct by hash of the case.",
		genC44, runC44, ev.Opts{Part: "tl"})
}

// ---- part "restore" -------------------------------------------------------------------

type c44rStep struct {
	Dt      int64 // whole seconds since the previous event
	Present []int
}

type c44rCase struct {
	Base         int64 // seconds
	For          int64 // seconds
	Grace        int64 // seconds (--rules.alert.for-grace-period)
	Tolerance    int64 // seconds (--rules.alert.for-outage-tolerance)
	Universe     []gen.Lset
	Pre          []c44rStep // evaluations before the restart (state written to storage)
	Outage       int64      // seconds between the last evaluation before and the first after the restart
	FirstPresent []int
	Second       *c44rStep `json:",omitempty"` // optional second evaluation before the restore, as Group.run does
	RestoreDelay int64     // seconds between the last evaluation and the restore instant (>= 0)
	Post         []c44rStep
}

func c44Subset(t *rapid.T, n int, label string) []int {
	var out []int
	for i := 0; i < n; i++ {
		if rapid.IntRange(0, 3).Draw(t, label) > 0 {
			out = append(out, i)
		}
	}
	return out
}

func genC44R(t *rapid.T) c44rCase {
	c := c44rCase{
		Base:         rapid.SampledFrom([]int64{0, 1_700_000_000}).Draw(t, "base"),
		For:          rapid.SampledFrom([]int64{0, 60, 120, 300, 300, 600, 600, 1500}).Draw(t, "for"),
		Tolerance:    rapid.SampledFrom([]int64{60, 600, 3600, 3600, 3600}).Draw(t, "tolerance"),
		Outage:       rapid.SampledFrom([]int64{1, 15, 15, 30, 30, 60, 61, 300, 300, 600, 601, 3600, 4000}).Draw(t, "outage"),
		RestoreDelay: rapid.SampledFrom([]int64{0, 0, 1, 15, 60}).Draw(t, "restoredelay"),
	}
	switch rapid.IntRange(0, 7).Draw(t, "gracemode") {
	case 0:
		c.Grace = 0
	case 1, 2, 3:
		c.Grace = c.For / 2
	case 4, 5, 6:
		if c.For > 30 {
			c.Grace = c.For - 30
		}
	default:
		c.Grace = c.For + 60 // 'for' below the grace period: no restoration
	}
	c.Universe = c44Universe(t, false)
	n := len(c.Universe)
	dts := []int64{15, 30, 60, 60, 120, 300}
	for i, k := 0, rapid.IntRange(1, 8).Draw(t, "npre"); i < k; i++ {
		c.Pre = append(c.Pre, c44rStep{Dt: rapid.SampledFrom(dts).Draw(t, "dt"), Present: c44Subset(t, n, "pre")})
	}
	c.FirstPresent = c44Subset(t, n, "first")
	if rapid.Bool().Draw(t, "second") {
		c.Second = &c44rStep{Dt: rapid.SampledFrom(dts).Draw(t, "dt2"), Present: c44Subset(t, n, "second")}
	}
	for i, k := 0, rapid.IntRange(1, 8).Draw(t, "npost"); i < k; i++ {
		c.Post = append(c.Post, c44rStep{Dt: rapid.SampledFrom(dts).Draw(t, "dtpost"), Present: c44Subset(t, n, "post")})
	}
	return c
}

type c44Store map[string][]c44Sample

func (s c44Store) add(samples []c44Sample) {
	for _, x := range samples {
		s[x.L] = append(s[x.L], x)
	}
}

func runC44R(c c44rCase, r *ev.Rec) error {
	if len(c.Universe) == 0 || len(c.Pre) == 0 || c.For == c.Grace && c.Grace != 0 {
		// for == grace period: the flag documentation ("greater than") and the boundary are at odds; not demanded
		r.Discard()
		return nil
	}
	st, err := newC45Storage()
	if err != nil {
		return err
	}
	defer st.Close()
	expr, err := c44Parser.ParseExpr(`some_metric > 0`)
	if err != nil {
		return err
	}
	tc := c44Case{Universe: c.Universe}
	ruleLabels := c44RuleLabels(tc)
	var curVec promql.Vector
	opts := &rules.ManagerOptions{
		QueryFunc: func(_ context.Context, _ string, t time.Time) (promql.Vector, error) {
			out := make(promql.Vector, len(curVec))
			copy(out, curVec)
			for i := range out {
				out[i].T = t.UnixMilli()
			}
			return out, nil
		},
		NotifyFunc:      func(context.Context, string, ...*rules.Alert) {},
		Appendable:      st,
		Queryable:       st,
		Context:         context.Background(),
		Logger:          c44Logger,
		Metrics:         c44Metrics,
		OutageTolerance: time.Duration(c.Tolerance) * time.Second,
		ForGracePeriod:  time.Duration(c.Grace) * time.Second,
	}
	hold := c.For * 1000
	newGroup := func(restored bool) (*rules.Group, *rules.AlertingRule) {
		rule := rules.NewAlertingRule(c44AlertName, expr, time.Duration(hold)*time.Millisecond, 0,
			ruleLabels, labels.EmptyLabels(), labels.EmptyLabels(), "", restored, c44Logger)
		g := rules.NewGroup(rules.GroupOptions{Name: "g", File: "f", Interval: time.Minute, Rules: []rules.Rule{rule}, Opts: opts, ShouldRestore: !restored})
		return g, rule
	}
	store := c44Store{}
	step := func(g *rules.Group, ts int64, present []int) map[string]c44Present {
		vec, p := c44PresentSet(tc, c44Step{Present: present, Vals: make2(len(present))})
		curVec = vec
		g.Eval(context.Background(), c44Time(ts))
		return p
	}
	cmpActive := func(where string, rule *rules.AlertingRule, m *c44Model) error {
		got := rule.ActiveAlerts()
		want := 0
		for _, a := range m.alerts {
			if a.state != c44Resolved {
				want++
			}
		}
		for _, a := range got {
			ma := m.alerts[a.Labels.String()]
			if ma == nil || ma.state == c44Resolved {
				return ev.Failf("%s: unexpected active alert %s\n    reference:%s", where, c44RealString(a), m.dump())
			}
			if err := c44CmpAlert(where, ma, a, false); err != nil {
				return err
			}
		}
		if len(got) != want {
			return ev.Failf("%s: %d active alerts, want %d\n    reference:%s", where, len(got), want, m.dump())
		}
		return nil
	}

	// before the restart
	g1, rule1 := newGroup(true)
	m1 := newC44Model(hold, 0)
	ts := c.Base * 1000
	for i, s := range c.Pre {
		ts += s.Dt * 1000
		p := step(g1, ts, s.Present)
		m1.eval(ts, p, 0)
		if err := cmpActive(fmt.Sprintf("before restart, step %d (t=%d)", i, ts), rule1, m1); err != nil {
			return err
		}
		store.add(m1.expectedSeries(ts, ruleLabels, c44AlertName))
	}

	// restart: fresh rule and group, restoration pending
	g2, rule2 := newGroup(false)
	m2 := newC44Model(hold, 0)
	ts += c.Outage * 1000
	m2.eval(ts, step(g2, ts, c.FirstPresent), 0)
	if c.Second != nil {
		ts += c.Second.Dt * 1000
		m2.eval(ts, step(g2, ts, c.Second.Present), 0)
	}
	if rule2.Restored() {
		return ev.Failf("rule reports restored before RestoreForState ran")
	}
	if err := cmpActive(fmt.Sprintf("after restart before restore (t=%d)", ts), rule2, m2); err != nil {
		return err
	}
	tr := ts + c.RestoreDelay*1000
	g2.RestoreForState(c44Time(tr))
	if !rule2.Restored() {
		return ev.Failf("rule not marked restored after RestoreForState")
	}
	// reference restore (flag documentation + the rule documented at Group.RestoreForState)
	restoredAny := false
	if !(c.For < c.Grace) { // only alerts whose 'for' is not below the grace period are restored
		for _, a := range m2.alerts {
			key := c44ForStateLabels(ruleLabels, c44AlertName, a.labels).String()
			var last *c44Sample
			for i := range store[key] {
				x := &store[key][i]
				if x.T >= tr-c.Tolerance*1000 && x.T <= tr {
					last = x
				}
			}
			switch {
			case last == nil:
				if len(store[key]) > 0 {
					r.Class("outcome:outside-tolerance")
				} else {
					r.Class("outcome:no-series")
				}
				continue
			case last.V == value.StaleNaN:
				r.Class("outcome:was-inactive")
				continue
			}
			downAt := last.T
			origActiveAt := int64(math.Float64frombits(last.V)) * 1000
			remaining := hold - (downAt - origActiveAt)
			switch {
			case remaining <= 0:
				a.activeAt = origActiveAt // was firing: fires again at once
				r.Class("outcome:was-firing")
			case remaining < c.Grace*1000:
				a.activeAt = tr + c.Grace*1000 - hold // fires one grace period after the restore
				r.Class("outcome:grace-period")
			default:
				a.activeAt = origActiveAt + (tr - downAt) // the outage does not count as pending time
				r.Class("outcome:shifted-by-outage")
			}
			restoredAny = true
		}
	} else {
		r.Class("outcome:for-below-grace")
	}
	if err := cmpActive(fmt.Sprintf("after restore at %d (for=%ds grace=%ds tolerance=%ds, outage=%ds)", tr, c.For, c.Grace, c.Tolerance, c.Outage), rule2, m2); err != nil {
		return err
	}
	ts = tr
	fired := false
	for i, s := range c.Post {
		ts += s.Dt * 1000
		p := step(g2, ts, s.Present)
		m2.eval(ts, p, 0)
		if err := cmpActive(fmt.Sprintf("after restore, step %d (t=%d, restore at %d, for=%ds grace=%ds)", i, ts, tr, c.For, c.Grace), rule2, m2); err != nil {
			return err
		}
		for _, a := range m2.alerts {
			if a.state == c44Firing {
				fired = true
			}
		}
		store.add(m2.expectedSeries(ts, ruleLabels, c44AlertName))
	}
	// storage contents: ALERTS and ALERTS_FOR_STATE of both incarnations
	got, err := readAllSeries(st, labels.MustNewMatcher(labels.MatchRegexp, "__name__", "ALERTS.*"))
	if err != nil {
		return err
	}
	if err := cmpStores("stored ALERTS/ALERTS_FOR_STATE series", store, got); err != nil {
		return err
	}
	if restoredAny {
		r.NonTrivial()
		if fired {
			r.Class("fired-after-restore")
		}
	}
	return nil
}

func make2(n int) []int {
	out := make([]int, n)
	for i := range out {
		out[i] = 2
	}
	return out
}

func TestC44Restore(t *testing.T) {
	ev.Check(t, "C44",
		"restart history on a real TSDB: 1-8 evaluations writing ALERTS_FOR_STATE, an outage of 1s..4000s, a fresh rule and group (restored=false), one or two evaluations, Group.RestoreForState at a generated instant with generated for / grace period / outage tolerance, then 1-8 more evaluations; ActiveAt after the restore, later state transitions and the stored series compared with the reference. Non-trivial: at least one alert had its activation time restored from a stored sample; distinct by hash of the case.",
		genC44R, runC44R, ev.Opts{Part: "restore"})
}
