package rules

import (
	"context"
	"fmt"
	"math"
	"os"
	"path/filepath"
	"regexp"
	"sort"
	"strconv"
	"strings"
	"sync"
	"testing"
	"time"

	"github.com/prometheus/prometheus/model/labels"
	"github.com/prometheus/prometheus/model/value"
	"github.com/prometheus/prometheus/promql"
	"github.com/prometheus/prometheus/rules"
	"pgregory.net/rapid"

	"verifharness/internal/ev"
	"verifharness/internal/gen"
)

// C45 — Recording rules write their results and staleness markers.
//
// Part "eval": rule groups loaded with Manager.LoadGroups from a generated rule file,
// evaluated with Group.Eval at harness-chosen timestamps on a real TSDB + PromQL engine,
// reloads carried out the way Manager.Update does (LoadGroups, Equals, CopyState).
// The expected storage contents are computed by a small reference that evaluates the
// restricted expression family (selector with matchers, optional sum/count/max by,
// optional scalar arithmetic or comparison filter) on a model of the storage.
// Part "update": a running Manager with a 10 ms interval; groups and rules removed
// through Manager.Update must end with a staleness marker.

const c45Lookback = int64(5 * 60 * 1000)

var c45Engine = promql.NewEngine(promql.EngineOpts{Logger: c44Logger, MaxSamples: 1_000_000, Timeout: time.Minute, LookbackDelta: 5 * time.Minute})

type c45Expr struct {
	Metric string
	Match  [][3]string `json:",omitempty"` // name, op (= != =~), value
	Agg    string      `json:",omitempty"` // "", sum, count, max
	By     []string    `json:",omitempty"`
	Op     string      `json:",omitempty"` // "", * + > <=
	K      int         `json:",omitempty"`
}

func (e c45Expr) String() string {
	var b strings.Builder
	b.WriteString(e.Metric)
	if len(e.Match) > 0 {
		b.WriteString("{")
		for i, m := range e.Match {
			if i > 0 {
				b.WriteString(",")
			}
			b.WriteString(m[0] + m[1] + strconv.Quote(m[2]))
		}
		b.WriteString("}")
	}
	s := b.String()
	if e.Agg != "" {
		s = fmt.Sprintf("%s by (%s) (%s)", e.Agg, strings.Join(e.By, ","), s)
	}
	if e.Op != "" {
		s = fmt.Sprintf("%s %s %d", s, e.Op, e.K)
	}
	return s
}

type c45Rule struct {
	Name   string
	Expr   c45Expr
	Labels gen.Lset `json:",omitempty"`
}

type c45Group struct {
	Name   string
	Limit  int      `json:",omitempty"`
	Labels gen.Lset `json:",omitempty"`
	Rules  []c45Rule
}

type c45Step struct {
	Dt     int64    // ms
	Base   []int    // per base series: -1 absent, otherwise the value
	Reload int      // -1: none; otherwise index into Configs, loaded before this step's evaluations
	Skip   []string `json:",omitempty"` // groups not evaluated in this step (a missed iteration)
}

type c45Case struct {
	Concurrent bool
	BaseSeries []gen.Lset
	Configs    [][]c45Group
	Steps      []c45Step
}

// ---- generator -----------------------------------------------------------------------

var c45BaseUniverse = func() []gen.Lset {
	var out []gen.Lset
	for _, m := range []string{"b1", "b2"} {
		for _, a := range []string{"x", "y", "z"} {
			for _, j := range []string{"j1", "j2"} {
				out = append(out, gen.Lset{{"__name__", m}, {"a", a}, {"job", j}})
			}
		}
	}
	return out
}()

func genC45Expr(t *rapid.T, metrics []string) c45Expr {
	e := c45Expr{Metric: rapid.SampledFrom(metrics).Draw(t, "metric")}
	switch rapid.IntRange(0, 5).Draw(t, "matchkind") {
	case 0:
		e.Match = [][3]string{{"a", "=", rapid.SampledFrom([]string{"x", "y"}).Draw(t, "mv")}}
	case 1:
		e.Match = [][3]string{{"a", "!=", rapid.SampledFrom([]string{"x", "y"}).Draw(t, "mv")}}
	case 2:
		e.Match = [][3]string{{"a", "=~", rapid.SampledFrom([]string{"x|y", "y|z", ".+"}).Draw(t, "mv")}}
	case 3:
		e.Match = [][3]string{{"job", "=", rapid.SampledFrom([]string{"j1", "j2"}).Draw(t, "mv")}}
	}
	switch rapid.IntRange(0, 5).Draw(t, "aggkind") {
	case 0:
		e.Agg, e.By = "sum", []string{"job"}
	case 1:
		e.Agg, e.By = rapid.SampledFrom([]string{"count", "max"}).Draw(t, "agg"), []string{"a"}
	case 2:
		e.Agg, e.By = "sum", []string{}
	}
	switch rapid.IntRange(0, 6).Draw(t, "opkind") {
	case 0:
		e.Op, e.K = "*", rapid.IntRange(2, 3).Draw(t, "k")
	case 1:
		e.Op, e.K = "+", rapid.IntRange(1, 5).Draw(t, "k")
	case 2, 3:
		e.Op, e.K = ">", rapid.IntRange(1, 8).Draw(t, "k")
	case 4:
		e.Op, e.K = "<=", rapid.IntRange(1, 8).Draw(t, "k")
	}
	return e
}

func genC45Labels(t *rapid.T) gen.Lset {
	switch rapid.IntRange(0, 9).Draw(t, "rlabels") {
	case 0:
		return gen.Lset{{"tier", "t1"}}
	case 1:
		return gen.Lset{{"job", "fixed"}} // overrides a result label; may collapse series (duplicate error)
	case 2:
		return gen.Lset{{"a", "fixed"}}
	}
	return nil
}

type c45NameGen struct{ n int }

func (g *c45NameGen) next() string {
	g.n++
	if g.n%3 == 0 {
		return fmt.Sprintf("lvl:r%d:sum", g.n)
	}
	return fmt.Sprintf("r%d", g.n)
}

// metricChoices lists what the rule at (gi, ri) may read.
func c45MetricChoices(cfg []c45Group, gi, ri int, concurrent bool) []string {
	out := []string{"b1", "b1", "b2"}
	for g := range cfg {
		for r := range cfg[g].Rules {
			switch {
			case g == gi && r < ri:
				// chained: an earlier rule of the same group (twice: boost)
				out = append(out, cfg[g].Rules[r].Name, cfg[g].Rules[r].Name)
			case g == gi && !concurrent:
				// itself or a later rule: sees the previous evaluation (sequential mode only)
				out = append(out, cfg[g].Rules[r].Name)
			case g != gi:
				out = append(out, cfg[g].Rules[r].Name)
			}
		}
	}
	return out
}

func c45Clone(cfg []c45Group) []c45Group {
	out := make([]c45Group, len(cfg))
	for i, g := range cfg {
		out[i] = g
		out[i].Rules = append([]c45Rule(nil), g.Rules...)
	}
	return out
}

// In concurrent mode a rule must not read its own or a later rule's output (the engine gives
// no ordering guarantee for that); fix up references after structural edits.
func c45FixRefs(t *rapid.T, cfg []c45Group, concurrent bool) {
	names := map[string]bool{"b1": true, "b2": true}
	for _, g := range cfg {
		for _, r := range g.Rules {
			names[r.Name] = true
		}
	}
	for gi := range cfg {
		for ri := range cfg[gi].Rules {
			r := &cfg[gi].Rules[ri]
			ok := names[r.Expr.Metric]
			if ok && concurrent {
				for rj := ri; rj < len(cfg[gi].Rules); rj++ {
					if cfg[gi].Rules[rj].Name == r.Expr.Metric {
						ok = false
					}
				}
			}
			if !ok {
				r.Expr.Metric = rapid.SampledFrom([]string{"b1", "b2"}).Draw(t, "fixmetric")
			}
		}
	}
}

func genC45(t *rapid.T) c45Case {
	c := c45Case{Concurrent: rapid.IntRange(0, 2).Draw(t, "concurrent") == 0}
	nb := rapid.IntRange(3, 6).Draw(t, "nbase")
	used := map[int]bool{}
	for len(c.BaseSeries) < nb {
		i := rapid.IntRange(0, len(c45BaseUniverse)-1).Draw(t, "baseidx")
		if !used[i] {
			used[i] = true
			c.BaseSeries = append(c.BaseSeries, c45BaseUniverse[i])
		}
	}
	names := &c45NameGen{}
	ng := rapid.IntRange(1, 3).Draw(t, "ngroups")
	cfg := make([]c45Group, ng)
	for gi := range cfg {
		cfg[gi].Name = fmt.Sprintf("g%d", gi)
		if rapid.IntRange(0, 3).Draw(t, "haslimit") == 0 {
			cfg[gi].Limit = rapid.IntRange(1, 3).Draw(t, "limit")
		}
		if rapid.IntRange(0, 5).Draw(t, "hasglabels") == 0 {
			cfg[gi].Labels = gen.Lset{{"grp", cfg[gi].Name}}
		}
		nr := rapid.IntRange(1, 5).Draw(t, "nrules")
		for ri := 0; ri < nr; ri++ {
			cfg[gi].Rules = append(cfg[gi].Rules, c45Rule{Name: names.next()})
		}
	}
	for gi := range cfg {
		for ri := range cfg[gi].Rules {
			cfg[gi].Rules[ri].Expr = genC45Expr(t, c45MetricChoices(cfg, gi, ri, c.Concurrent))
			cfg[gi].Rules[ri].Labels = genC45Labels(t)
		}
	}
	c45FixRefs(t, cfg, c.Concurrent)
	c.Configs = append(c.Configs, cfg)
	nre := rapid.IntRange(0, 3).Draw(t, "nreloads")
	for k := 0; k < nre; k++ {
		cfg = c45Clone(cfg)
		for e, ne := 0, rapid.IntRange(1, 2).Draw(t, "nedits"); e < ne; e++ {
			gi := rapid.IntRange(0, len(cfg)-1).Draw(t, "editgroup")
			g := &cfg[gi]
			switch rapid.IntRange(0, 6).Draw(t, "edit") {
			case 0: // remove a rule (never the last one: group removal is the "update" part)
				if len(g.Rules) > 1 {
					ri := rapid.IntRange(0, len(g.Rules)-1).Draw(t, "ri")
					g.Rules = append(g.Rules[:ri:ri], g.Rules[ri+1:]...)
				}
			case 1: // add a rule
				ri := rapid.IntRange(0, len(g.Rules)).Draw(t, "ri")
				nr := c45Rule{Name: names.next(), Labels: genC45Labels(t)}
				g.Rules = append(g.Rules[:ri:ri], append([]c45Rule{nr}, g.Rules[ri:]...)...)
				g.Rules[ri].Expr = genC45Expr(t, c45MetricChoices(cfg, gi, ri, c.Concurrent))
			case 2, 3: // move a rule to another (possibly new) group
				if len(g.Rules) > 1 {
					ri := rapid.IntRange(0, len(g.Rules)-1).Draw(t, "ri")
					mv := g.Rules[ri]
					g.Rules = append(g.Rules[:ri:ri], g.Rules[ri+1:]...)
					var cands []int
					for x := range cfg {
						if x != gi {
							cands = append(cands, x)
						}
					}
					if len(cfg) < 4 {
						cands = append(cands, len(cfg))
					}
					to := rapid.SampledFrom(cands).Draw(t, "to")
					if to == len(cfg) {
						cfg = append(cfg, c45Group{Name: fmt.Sprintf("g%d", len(cfg))})
					}
					pos := rapid.IntRange(0, len(cfg[to].Rules)).Draw(t, "pos")
					cfg[to].Rules = append(cfg[to].Rules[:pos:pos], append([]c45Rule{mv}, cfg[to].Rules[pos:]...)...)
				}
			case 4: // swap two rules
				if len(g.Rules) > 1 {
					i := rapid.IntRange(0, len(g.Rules)-2).Draw(t, "swap")
					g.Rules[i], g.Rules[i+1] = g.Rules[i+1], g.Rules[i]
				}
			case 5: // change an expression, identity (name+labels) unchanged
				ri := rapid.IntRange(0, len(g.Rules)-1).Draw(t, "ri")
				g.Rules[ri].Expr = genC45Expr(t, c45MetricChoices(cfg, gi, ri, c.Concurrent))
			case 6: // change the labels of a rule: a different rule as far as state is concerned
				ri := rapid.IntRange(0, len(g.Rules)-1).Draw(t, "ri")
				g.Rules[ri].Labels = gen.Lset{{"tier", fmt.Sprintf("t%d", k+2)}}
			}
		}
		c45FixRefs(t, cfg, c.Concurrent)
		c.Configs = append(c.Configs, cfg)
	}
	nsteps := rapid.IntRange(3, 15).Draw(t, "nsteps")
	// reload positions
	reloadAt := map[int]int{}
	for k := 1; k < len(c.Configs); k++ {
		reloadAt[rapid.IntRange(1, nsteps-1).Draw(t, "reloadat")] = 0
	}
	var pos []int
	for p := range reloadAt {
		pos = append(pos, p)
	}
	sort.Ints(pos)
	for i, p := range pos {
		reloadAt[p] = i + 1
	}
	c.Configs = c.Configs[:len(pos)+1]
	state := make([]int, nb)
	for i := range state {
		state[i] = -1
		if rapid.IntRange(0, 3).Draw(t, "b0") > 0 {
			state[i] = rapid.IntRange(0, 9).Draw(t, "bv0")
		}
	}
	maxGroups := 0
	for _, cf := range c.Configs {
		if len(cf) > maxGroups {
			maxGroups = len(cf)
		}
	}
	for s := 0; s < nsteps; s++ {
		st := c45Step{Dt: rapid.SampledFrom([]int64{15_000, 30_000, 60_000, 60_000, 120_000, 240_000, 300_000, 330_000}).Draw(t, "dt"), Reload: -1}
		if k, ok := reloadAt[s]; ok {
			st.Reload = k
		}
		for i := range state {
			switch rapid.IntRange(0, 9).Draw(t, "bchange") {
			case 0, 1:
				if state[i] >= 0 {
					state[i] = -1
				} else {
					state[i] = rapid.IntRange(0, 9).Draw(t, "bv")
				}
			case 2, 3, 4:
				if state[i] >= 0 {
					state[i] = rapid.IntRange(0, 9).Draw(t, "bv")
				}
			}
		}
		st.Base = append([]int(nil), state...)
		for g := 0; g < maxGroups; g++ {
			if rapid.IntRange(0, 7).Draw(t, "skip") == 0 {
				st.Skip = append(st.Skip, fmt.Sprintf("g%d", g))
			}
		}
		c.Steps = append(c.Steps, st)
	}
	return c
}

// ---- reference ---------------------------------------------------------------------------

type c45Series struct {
	l labels.Labels
	s []c44Sample
}

type c45Model struct {
	store     map[string]*c45Series
	conflicts int
}

// append applies the storage's ordering rule: a sample older than the newest one of its
// series, or at the same time with another value, is rejected.
func (m *c45Model) append(l labels.Labels, t int64, v uint64) bool {
	k := l.String()
	s := m.store[k]
	if s == nil {
		s = &c45Series{l: l}
		m.store[k] = s
	}
	if n := len(s.s); n > 0 {
		last := s.s[n-1]
		if t < last.T || (t == last.T && v != last.V) {
			m.conflicts++
			return false
		}
		if t == last.T {
			return true
		}
	}
	s.s = append(s.s, c44Sample{L: k, T: t, V: v})
	return true
}

type c45Point struct {
	l labels.Labels
	v float64
}

// instant selection: newest sample in (ts-5m, ts], unless it is a staleness marker.
func (m *c45Model) sel(metric string, match [][3]string, ts int64) []c45Point {
	var out []c45Point
	for _, s := range m.store {
		if s.l.Get("__name__") != metric {
			continue
		}
		ok := true
		for _, mt := range match {
			v := s.l.Get(mt[0])
			switch mt[1] {
			case "=":
				ok = ok && v == mt[2]
			case "!=":
				ok = ok && v != mt[2]
			case "=~":
				ok = ok && regexp.MustCompile("^(?:"+mt[2]+")$").MatchString(v)
			}
		}
		if !ok {
			continue
		}
		i := sort.Search(len(s.s), func(i int) bool { return s.s[i].T > ts }) - 1
		if i < 0 || s.s[i].T <= ts-c45Lookback || s.s[i].V == value.StaleNaN {
			continue
		}
		out = append(out, c45Point{l: s.l, v: math.Float64frombits(s.s[i].V)})
	}
	return out
}

func (m *c45Model) eval(e c45Expr, ts int64) []c45Point {
	pts := m.sel(e.Metric, e.Match, ts)
	if e.Agg != "" {
		type acc struct {
			l     labels.Labels
			sum   float64
			max   float64
			count int
		}
		groups := map[string]*acc{}
		for _, p := range pts {
			lb := labels.NewBuilder(labels.EmptyLabels())
			for _, b := range e.By {
				if v := p.l.Get(b); v != "" {
					lb.Set(b, v)
				}
			}
			gl := lb.Labels()
			a := groups[gl.String()]
			if a == nil {
				a = &acc{l: gl, max: math.Inf(-1)}
				groups[gl.String()] = a
			}
			a.sum += p.v
			a.count++
			a.max = math.Max(a.max, p.v)
		}
		pts = pts[:0:0]
		for _, a := range groups {
			switch e.Agg {
			case "sum":
				pts = append(pts, c45Point{a.l, a.sum})
			case "count":
				pts = append(pts, c45Point{a.l, float64(a.count)})
			case "max":
				pts = append(pts, c45Point{a.l, a.max})
			}
		}
	}
	switch e.Op {
	case "*":
		for i := range pts {
			pts[i].v *= float64(e.K)
		}
	case "+":
		for i := range pts {
			pts[i].v += float64(e.K)
		}
	case ">", "<=":
		var keep []c45Point
		for _, p := range pts {
			if (e.Op == ">" && p.v > float64(e.K)) || (e.Op == "<=" && p.v <= float64(e.K)) {
				keep = append(keep, p)
			}
		}
		pts = keep
	}
	return pts
}

type c45MRule struct {
	key  string // name + labels, the identity CopyState uses
	rule c45Rule
	lbls labels.Labels // group labels overridden by rule labels
	prev map[string]labels.Labels
}

type c45MGroup struct {
	limit int
	rules []*c45MRule
	stale []labels.Labels
}

func c45MergedLabels(g c45Group, r c45Rule) labels.Labels {
	m := map[string]string{}
	for _, p := range g.Labels {
		m[p[0]] = p[1]
	}
	for _, p := range r.Labels {
		m[p[0]] = p[1]
	}
	return labels.FromMap(m)
}

// reload mirrors what the documentation of Group.CopyState promises: rules are matched by
// name and labels (first with first), the series of unmatched old rules become stale.
func c45Reload(old map[string]*c45MGroup, cfg []c45Group) (map[string]*c45MGroup, int) {
	out := map[string]*c45MGroup{}
	for _, g := range cfg {
		ng := &c45MGroup{limit: g.Limit}
		for _, r := range g.Rules {
			l := c45MergedLabels(g, r)
			ng.rules = append(ng.rules, &c45MRule{key: r.Name + l.String(), rule: r, lbls: l, prev: map[string]labels.Labels{}})
		}
		out[g.Name] = ng
	}
	unmatched := 0
	for name, og := range old {
		ng := out[name]
		if ng == nil {
			continue // group removal is not part of this part
		}
		used := make([]bool, len(og.rules))
		for _, nr := range ng.rules {
			for i, or := range og.rules {
				if !used[i] && or.key == nr.key {
					used[i] = true
					nr.prev = or.prev
					break
				}
			}
		}
		ng.stale = append(ng.stale, og.stale...)
		for i, or := range og.rules {
			if !used[i] {
				if len(or.prev) > 0 {
					unmatched++
				}
				var ks []string
				for k := range or.prev {
					ks = append(ks, k)
				}
				sort.Strings(ks)
				for _, k := range ks {
					ng.stale = append(ng.stale, or.prev[k])
				}
			}
		}
	}
	return out, unmatched
}

type c45Stats struct {
	vanished, limitErr, dupErr, chainedSeen, results int
}

func (m *c45Model) evalGroup(g *c45MGroup, ts int64, st *c45Stats) {
	for _, r := range g.rules {
		pts := m.eval(r.rule.Expr, ts)
		out := map[string]c45Point{}
		dup := false
		for _, p := range pts {
			lb := labels.NewBuilder(p.l)
			lb.Set("__name__", r.rule.Name)
			r.lbls.Range(func(l labels.Label) { lb.Set(l.Name, l.Value) })
			l := lb.Labels()
			if _, ok := out[l.String()]; ok {
				dup = true
			}
			out[l.String()] = c45Point{l, p.v}
		}
		if dup {
			st.dupErr++
			continue // evaluation error: nothing written, no stale markers, previous series kept
		}
		if g.limit > 0 && len(pts) > g.limit {
			st.limitErr++
			continue
		}
		returned := map[string]labels.Labels{}
		for k, p := range out {
			if m.append(p.l, ts, math.Float64bits(p.v)) {
				returned[k] = p.l
				st.results++
			}
		}
		for k, l := range r.prev {
			if _, ok := returned[k]; !ok {
				m.append(l, ts, value.StaleNaN)
				st.vanished++
			}
		}
		r.prev = returned
	}
	for _, l := range g.stale {
		m.append(l, ts, value.StaleNaN)
	}
	g.stale = nil
}

// ---- rule file -----------------------------------------------------------------------------

func c45RuleFile(cfg []c45Group) string {
	var b strings.Builder
	b.WriteString("groups:\n")
	for _, g := range cfg {
		fmt.Fprintf(&b, "- name: %s\n", g.Name)
		if g.Limit > 0 {
			fmt.Fprintf(&b, "  limit: %d\n", g.Limit)
		}
		if len(g.Labels) > 0 {
			b.WriteString("  labels:\n")
			for _, p := range g.Labels {
				fmt.Fprintf(&b, "    %s: %s\n", p[0], strconv.Quote(p[1]))
			}
		}
		b.WriteString("  rules:\n")
		for _, r := range g.Rules {
			fmt.Fprintf(&b, "  - record: %s\n    expr: %s\n", strconv.Quote(r.Name), strconv.Quote(r.Expr.String()))
			if len(r.Labels) > 0 {
				b.WriteString("    labels:\n")
				for _, p := range r.Labels {
					fmt.Fprintf(&b, "      %s: %s\n", p[0], strconv.Quote(p[1]))
				}
			}
		}
	}
	return b.String()
}

func c45GroupOffset(name string) int64 {
	n, _ := strconv.Atoi(strings.TrimPrefix(name, "g"))
	return int64(n+1) * 1000
}

func c45Features(c c45Case) (dependent, moved, forward, cross bool) {
	where := func(cfg []c45Group) map[string][2]int {
		m := map[string][2]int{}
		for gi, g := range cfg {
			for ri, r := range g.Rules {
				m[r.Name] = [2]int{gi, ri}
			}
		}
		return m
	}
	var prev map[string][2]int
	var prevNames []string
	for _, cfg := range c.Configs {
		w := where(cfg)
		for gi, g := range cfg {
			for ri, r := range g.Rules {
				if p, ok := w[r.Expr.Metric]; ok {
					switch {
					case p[0] == gi && p[1] < ri:
						dependent = true
					case p[0] == gi:
						forward = true
					default:
						cross = true
					}
				}
			}
		}
		if prev != nil {
			for n, p := range w {
				if q, ok := prev[n]; ok && cfg[p[0]].Name != prevNames[q[0]] {
					moved = true
				}
			}
		}
		prev = w
		prevNames = nil
		for _, g := range cfg {
			prevNames = append(prevNames, g.Name)
		}
	}
	return
}

// ---- run -----------------------------------------------------------------------------------

func runC45(c c45Case, r *ev.Rec) error {
	if len(c.Configs) == 0 || len(c.Steps) == 0 {
		r.Discard()
		return nil
	}
	st, err := newC45Storage()
	if err != nil {
		return err
	}
	defer st.Close()
	dir, err := os.MkdirTemp("", "c45")
	if err != nil {
		return err
	}
	defer os.RemoveAll(dir)
	file := filepath.Join(dir, "rules.yml")

	mgr := rules.NewManager(&rules.ManagerOptions{
		QueryFunc:              rules.EngineQueryFunc(c45Engine, st),
		Appendable:             st,
		Queryable:              st,
		Context:                context.Background(),
		Logger:                 c44Logger,
		Metrics:                c44Metrics,
		NotifyFunc:             func(context.Context, string, ...*rules.Alert) {},
		ConcurrentEvalsEnabled: c.Concurrent,
		MaxConcurrentEvals:     4,
	})
	m := &c45Model{store: map[string]*c45Series{}}
	var groups map[string]*rules.Group
	var mgroups map[string]*c45MGroup
	stats := &c45Stats{}
	removedWithSeries := 0
	load := func(k int) error {
		if err := os.WriteFile(file, []byte(c45RuleFile(c.Configs[k])), 0o644); err != nil {
			return err
		}
		ng, errs := mgr.LoadGroups(time.Minute, labels.EmptyLabels(), "", nil, false, file)
		if len(errs) > 0 {
			return fmt.Errorf("generated rule file rejected: %v\n%s", errs, c45RuleFile(c.Configs[k]))
		}
		// what Manager.Update does with each loaded group
		for key, g := range ng {
			if old, ok := groups[key]; ok {
				if old.Equals(g) {
					ng[key] = old
				} else {
					g.CopyState(old)
				}
			}
		}
		groups = ng
		var n int
		mgroups, n = c45Reload(mgroups, c.Configs[k])
		removedWithSeries += n
		return nil
	}
	if err := load(0); err != nil {
		return err
	}
	cur := 0
	ts := int64(1_700_000_000_000)
	was := make([]bool, len(c.BaseSeries))
	for _, s := range c.Steps {
		ts += s.Dt
		app := st.Appender(context.Background())
		for i, v := range s.Base {
			if i >= len(c.BaseSeries) {
				break
			}
			l := c.BaseSeries[i].Labels()
			switch {
			case v >= 0:
				if _, err := app.Append(0, l, ts, float64(v)); err != nil {
					return err
				}
				m.append(l, ts, math.Float64bits(float64(v)))
				was[i] = true
			case was[i]:
				if _, err := app.Append(0, l, ts, math.Float64frombits(value.StaleNaN)); err != nil {
					return err
				}
				m.append(l, ts, value.StaleNaN)
				was[i] = false
			}
		}
		if err := app.Commit(); err != nil {
			return err
		}
		if s.Reload >= 0 && s.Reload < len(c.Configs) {
			if err := load(s.Reload); err != nil {
				return err
			}
			cur = s.Reload
		}
		skip := map[string]bool{}
		for _, n := range s.Skip {
			skip[n] = true
		}
		for _, g := range c.Configs[cur] { // group names are g0.. in ascending offset order
			if skip[g.Name] {
				continue
			}
			rg := groups[rules.GroupKey(file, g.Name)]
			if rg == nil {
				return fmt.Errorf("group %s not loaded", g.Name)
			}
			gts := ts + c45GroupOffset(g.Name)
			rg.Eval(context.Background(), c44Time(gts))
			m.evalGroup(mgroups[g.Name], gts, stats)
		}
	}
	got, err := readAllSeries(st, labels.MustNewMatcher(labels.MatchRegexp, "__name__", ".+"))
	if err != nil {
		return err
	}
	want := c44Store{}
	for k, s := range m.store {
		want[k] = s.s
	}
	if err := cmpStores("storage contents after the last evaluation", want, got); err != nil {
		return err
	}
	dependent, moved, forward, cross := c45Features(c)
	if c.Concurrent {
		r.Class("concurrent-evals")
	}
	if dependent {
		r.Class("dependent-rule")
	}
	if forward {
		r.Class("reads-later-rule")
	}
	if cross {
		r.Class("reads-other-group")
	}
	if moved {
		r.Class("rule-moved-between-groups")
	}
	if stats.vanished > 0 {
		r.Class("series-vanished")
	}
	if removedWithSeries > 0 {
		r.Class("rule-removed-with-series")
	}
	if stats.limitErr > 0 {
		r.Class("limit-error")
	}
	if stats.dupErr > 0 {
		r.Class("duplicate-labelset-error")
	}
	if m.conflicts > 0 {
		r.Class("append-conflict")
	}
	if stats.results == 0 {
		r.Class("no-results-at-all")
	}
	r.Count("reloads", len(c.Configs)-1)
	if stats.results > 0 && (stats.vanished > 0 || moved || dependent) {
		r.NonTrivial()
	}
	return nil
}

func TestC45(t *testing.T) {
	ev.Check(t, "C45",
		"1-3 (after reloads up to 4) groups of 1-5 recording rules from a generated rule file (selector with matchers, optional sum/count/max by, optional scalar arithmetic or comparison filter; reading base metrics, earlier rules of the group, rules of other groups and - sequential mode - later rules), optional group limit / group labels / overriding rule labels, 3-6 churning base series, 3-15 steps with Group.Eval at generated timestamps (groups at distinct offsets, some iterations skipped), 0-3 reloads that add / remove / move / swap / re-label rules via LoadGroups + Equals + CopyState, concurrent evaluation on or off; full storage contents compared with the reference. Non-trivial: results were written and an output series vanished between two evaluations, or a rule moved between groups, or a rule reads an earlier rule of its group; distinct by hash of the case.",
		genC45, runC45, ev.Opts{Part: "eval"})
}

// ---- part "update": removal through a running Manager ---------------------------------------

type c45uCase struct {
	Groups       []c45Group
	RemoveGroups []string    `json:",omitempty"` // groups dropped by the second configuration
	RemoveRules  [][2]string `json:",omitempty"` // (group, rule name) dropped by the second configuration; the group survives
}

var c45uBase = []struct {
	l gen.Lset
	v float64
}{
	{gen.Lset{{"__name__", "b1"}, {"a", "x"}, {"job", "j1"}}, 1},
	{gen.Lset{{"__name__", "b1"}, {"a", "y"}, {"job", "j1"}}, 2},
	{gen.Lset{{"__name__", "b1"}, {"a", "x"}, {"job", "j2"}}, 3},
	{gen.Lset{{"__name__", "b2"}, {"a", "z"}, {"job", "j1"}}, 4},
}

func genC45U(t *rapid.T) c45uCase {
	var c c45uCase
	names := &c45NameGen{}
	ng := rapid.IntRange(1, 3).Draw(t, "ngroups")
	for gi := 0; gi < ng; gi++ {
		g := c45Group{Name: fmt.Sprintf("g%d", gi)}
		nr := rapid.IntRange(1, 3).Draw(t, "nrules")
		read := map[string]bool{}
		for ri := 0; ri < nr; ri++ {
			metrics := []string{"b1", "b2"}
			for _, pr := range g.Rules {
				metrics = append(metrics, pr.Name)
			}
			e := c45Expr{Metric: rapid.SampledFrom(metrics).Draw(t, "metric")}
			if ri == 0 {
				e.Metric = rapid.SampledFrom([]string{"b1", "b2"}).Draw(t, "metric0")
			}
			switch rapid.IntRange(0, 4).Draw(t, "form") {
			case 0:
				e.Agg, e.By = "sum", []string{"job"}
			case 1:
				e.Op, e.K = "*", 2
			case 2:
				if ri > 0 {
					e.Match = [][3]string{{"job", "=", "j1"}}
				}
			}
			read[e.Metric] = true
			g.Rules = append(g.Rules, c45Rule{Name: names.next(), Expr: e})
		}
		switch rapid.IntRange(0, 3).Draw(t, "action") {
		case 0: // unchanged
		case 1:
			c.RemoveGroups = append(c.RemoveGroups, g.Name)
		default:
			var leaves []string
			for _, rl := range g.Rules {
				if !read[rl.Name] {
					leaves = append(leaves, rl.Name)
				}
			}
			if len(g.Rules) > 1 && len(leaves) > 0 {
				c.RemoveRules = append(c.RemoveRules, [2]string{g.Name, rapid.SampledFrom(leaves).Draw(t, "leaf")})
			}
		}
		c.Groups = append(c.Groups, g)
	}
	return c
}

func c45Wait(timeout time.Duration, cond func() bool) bool {
	deadline := time.Now().Add(timeout)
	for {
		if cond() {
			return true
		}
		if time.Now().After(deadline) {
			return false
		}
		time.Sleep(3 * time.Millisecond)
	}
}

func runC45U(c c45uCase, r *ev.Rec) error {
	if len(c.Groups) == 0 {
		r.Discard()
		return nil
	}
	rmGroup := map[string]bool{}
	for _, g := range c.RemoveGroups {
		rmGroup[g] = true
	}
	rmRule := map[string]bool{}
	for _, p := range c.RemoveRules {
		rmRule[p[0]+"/"+p[1]] = true
	}
	var cfg2 []c45Group
	changed := map[string]bool{}
	for _, g := range c.Groups {
		if rmGroup[g.Name] {
			continue
		}
		ng := g
		ng.Rules = nil
		for _, rl := range g.Rules {
			if rmRule[g.Name+"/"+rl.Name] {
				changed[g.Name] = true
				continue
			}
			ng.Rules = append(ng.Rules, rl)
		}
		cfg2 = append(cfg2, ng)
	}

	st, err := newC45Storage()
	if err != nil {
		return err
	}
	defer st.Close()
	dir, err := os.MkdirTemp("", "c45u")
	if err != nil {
		return err
	}
	defer os.RemoveAll(dir)
	file := filepath.Join(dir, "rules.yml")

	// constant base data, visible through the lookback window for the whole (sub-second) run
	t0 := time.Now().UnixMilli() - 2000
	ref := &c45Model{store: map[string]*c45Series{}}
	app := st.Appender(context.Background())
	for _, b := range c45uBase {
		if _, err := app.Append(0, b.l.Labels(), t0, b.v); err != nil {
			return err
		}
		ref.append(b.l.Labels(), t0, math.Float64bits(b.v))
	}
	if err := app.Commit(); err != nil {
		return err
	}
	// expected constant output of every rule (rules read base data or earlier rules of their group)
	type outPoint struct {
		key string
		v   uint64
	}
	expected := map[string][]outPoint{} // group/rule -> series
	for _, g := range c.Groups {
		mg, _ := c45Reload(nil, []c45Group{g})
		scratch := &c45Model{store: map[string]*c45Series{}}
		for k, s := range ref.store {
			scratch.store[k] = &c45Series{l: s.l, s: append([]c44Sample(nil), s.s...)}
		}
		scratch.evalGroup(mg[g.Name], t0+1, &c45Stats{})
		for _, mr := range mg[g.Name].rules {
			for k := range mr.prev {
				s := scratch.store[k]
				expected[g.Name+"/"+mr.rule.Name] = append(expected[g.Name+"/"+mr.rule.Name], outPoint{k, s.s[len(s.s)-1].V})
			}
		}
	}

	type iter struct {
		ts   int64
		done bool
	}
	var mu sync.Mutex
	iters := map[*rules.Group][]*iter{}
	iterFn := func(ctx context.Context, g *rules.Group, ts time.Time) {
		it := &iter{ts: ts.UnixMilli()}
		mu.Lock()
		iters[g] = append(iters[g], it)
		mu.Unlock()
		rules.DefaultEvalIterationFunc(ctx, g, ts)
		time.Sleep(2 * time.Millisecond) // an evaluation takes time: the group never stops in the millisecond of its last sample
		mu.Lock()
		it.done = true
		mu.Unlock()
	}
	doneCount := func(g *rules.Group, from int) int {
		mu.Lock()
		defer mu.Unlock()
		n := 0
		for i, it := range iters[g] {
			if i >= from && it.done {
				n++
			}
		}
		return n
	}
	mgr := rules.NewManager(&rules.ManagerOptions{
		QueryFunc:  rules.EngineQueryFunc(c45Engine, st),
		Appendable: st,
		Queryable:  st,
		Context:    context.Background(),
		Logger:     c44Logger,
		NotifyFunc: func(context.Context, string, ...*rules.Alert) {},
	})
	go mgr.Run()
	stopped := false
	stop := func() {
		if !stopped {
			stopped = true
			mgr.Stop()
			time.Sleep(5 * time.Millisecond)
		}
	}
	defer stop()
	const interval = 10 * time.Millisecond
	if err := os.WriteFile(file, []byte(c45RuleFile(c.Groups)), 0o644); err != nil {
		return err
	}
	if err := mgr.Update(interval, []string{file}, labels.EmptyLabels(), "", iterFn); err != nil {
		return fmt.Errorf("generated rule file rejected: %v\n%s", err, c45RuleFile(c.Groups))
	}
	inst1 := map[string]*rules.Group{}
	for _, g := range mgr.RuleGroups() {
		inst1[g.Name()] = g
	}
	if !c45Wait(20*time.Second, func() bool {
		for _, g := range inst1 {
			if doneCount(g, 0) < 3 {
				return false
			}
		}
		return true
	}) {
		r.Discard() // machine too slow: not a verdict
		return nil
	}
	if err := os.WriteFile(file, []byte(c45RuleFile(cfg2)), 0o644); err != nil {
		return err
	}
	before := map[*rules.Group]int{}
	mu.Lock()
	for g, its := range iters {
		before[g] = len(its)
	}
	mu.Unlock()
	if err := mgr.Update(interval, []string{file}, labels.EmptyLabels(), "", iterFn); err != nil {
		return fmt.Errorf("second rule file rejected: %v\n%s", err, c45RuleFile(cfg2))
	}
	inst2 := map[string]*rules.Group{}
	for _, g := range mgr.RuleGroups() {
		inst2[g.Name()] = g
	}
	for _, g := range cfg2 {
		switch {
		case inst2[g.Name] == nil:
			return ev.Failf("group %s missing after the update", g.Name)
		case changed[g.Name] && inst2[g.Name] == inst1[g.Name]:
			return ev.Failf("group %s changed but the old instance kept running", g.Name)
		}
	}
	if !c45Wait(20*time.Second, func() bool {
		for _, g := range inst2 {
			if doneCount(g, before[g]+1) < 3 {
				return false
			}
		}
		return true
	}) {
		r.Discard()
		return nil
	}
	// every series of a removed group must end with a staleness marker; the marker is written
	// asynchronously two intervals after the group stopped: poll (bounded), never sleep-and-hope.
	removedSeries := map[string]string{}
	for _, g := range c.Groups {
		if rmGroup[g.Name] {
			for _, rl := range g.Rules {
				for _, p := range expected[g.Name+"/"+rl.Name] {
					removedSeries[p.key] = g.Name + "/" + rl.Name
				}
			}
		}
	}
	var got c44Store
	var rerr error
	staleOK := c45Wait(30*time.Second, func() bool {
		got, rerr = readAllSeries(st, labels.MustNewMatcher(labels.MatchRegexp, "__name__", "r.+|lvl.+"))
		if rerr != nil {
			return true
		}
		for k := range removedSeries {
			if s := got[k]; len(s) > 0 && s[len(s)-1].V != value.StaleNaN {
				return false
			}
		}
		return true
	})
	if rerr != nil {
		return rerr
	}
	stop()
	if !staleOK {
		for k, who := range removedSeries {
			if s := got[k]; len(s) > 0 && s[len(s)-1].V != value.StaleNaN {
				return ev.Failf("group of rule %s was removed by the reload, 30s later its series %s still has no staleness marker:%s", who, k, c45Tail(s))
			}
		}
	}
	got, err = readAllSeries(st, labels.MustNewMatcher(labels.MatchRegexp, "__name__", "r.+|lvl.+"))
	if err != nil {
		return err
	}

	// verdicts from the recorded iteration timestamps
	mu.Lock()
	defer mu.Unlock()
	find := func(s []c44Sample, t int64) *c44Sample {
		for i := range s {
			if s[i].T == t {
				return &s[i]
			}
		}
		return nil
	}
	sawRemovedGroupSeries, sawRemovedRuleSeries := false, false
	check := func(g *rules.Group, cg c45Group, what string) error {
		its := iters[g]
		for i, it := range its {
			if i == len(its)-1 || !it.done {
				break // the last iteration may have been interrupted by the stop
			}
			for _, rl := range cg.Rules {
				for _, p := range expected[cg.Name+"/"+rl.Name] {
					x := find(got[p.key], it.ts)
					if x == nil || x.V != p.v {
						return ev.Failf("%s group %s evaluated at %d: rule %s must have stored %s = %g at that time; stored:%s", what, cg.Name, it.ts, rl.Name, p.key, math.Float64frombits(p.v), c45Tail(got[p.key]))
					}
				}
			}
		}
		return nil
	}
	for _, g := range c.Groups {
		if err := check(inst1[g.Name], g, "first configuration,"); err != nil {
			return err
		}
	}
	for _, g := range cfg2 {
		if inst2[g.Name] != inst1[g.Name] {
			if err := check(inst2[g.Name], g, "second configuration,"); err != nil {
				return err
			}
		}
	}
	for _, g := range c.Groups {
		for _, rl := range g.Rules {
			for _, p := range expected[g.Name+"/"+rl.Name] {
				s := got[p.key]
				nstale := 0
				for _, x := range s {
					if x.V == value.StaleNaN {
						nstale++
					} else if x.V != p.v {
						return ev.Failf("series %s of rule %s: stored value %g, the rule can only produce %g", p.key, rl.Name, math.Float64frombits(x.V), math.Float64frombits(p.v))
					}
				}
				switch {
				case rmGroup[g.Name]:
					sawRemovedGroupSeries = true
					if len(s) == 0 || s[len(s)-1].V != value.StaleNaN || nstale != 1 {
						return ev.Failf("removed group %s: series %s must end with exactly one staleness marker:%s", g.Name, p.key, c45Tail(s))
					}
				case rmRule[g.Name+"/"+rl.Name]:
					sawRemovedRuleSeries = true
					first := iters[inst2[g.Name]][0]
					x := find(s, first.ts)
					if x == nil || x.V != value.StaleNaN || s[len(s)-1].T != first.ts || nstale != 1 {
						return ev.Failf("rule %s removed from group %s: series %s must get its staleness marker at the first evaluation of the reloaded group (%d) and nothing later:%s", rl.Name, g.Name, p.key, first.ts, c45Tail(s))
					}
				default:
					if nstale != 0 {
						return ev.Failf("rule %s of group %s survived the reload, yet its series %s has a staleness marker:%s", rl.Name, g.Name, p.key, c45Tail(s))
					}
				}
			}
		}
	}
	for _, g := range cfg2 {
		if !changed[g.Name] {
			if inst2[g.Name] != inst1[g.Name] {
				return ev.Failf("group %s is unchanged but was restarted by the update", g.Name)
			}
			r.Class("unchanged-group-kept")
		}
	}
	if sawRemovedGroupSeries {
		r.Class("group-removed")
	}
	if sawRemovedRuleSeries {
		r.Class("rule-removed")
	}
	if sawRemovedGroupSeries || sawRemovedRuleSeries {
		r.NonTrivial()
	}
	return nil
}

func c45Tail(s []c44Sample) string {
	if len(s) > 6 {
		return " ..." + c44FmtSamples(s[len(s)-6:])
	}
	if len(s) == 0 {
		return " (nothing)"
	}
	return c44FmtSamples(s)
}

func TestC45Update(t *testing.T) {
	ev.Check(t, "C45",
		"a running rules.Manager (10 ms interval, harness GroupEvalIterationFunc recording the timestamps the run loop hands out) over 1-3 groups of 1-3 recording rules on constant base data; after three iterations a second rule file drops whole groups and/or leaf rules through Manager.Update. Every completed iteration must have stored every rule's result at the iteration timestamp; series of removed groups must end with one staleness marker, series of removed rules get it at the first evaluation of the reloaded group, surviving rules get none. Non-trivial: a removed group or rule had produced series; distinct by hash of the case.",
		genC45U, runC45U, ev.Opts{Part: "update"})
}
