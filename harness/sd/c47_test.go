package sd

import (
	"context"
	"errors"
	"fmt"
	"runtime"
	"sort"
	"strings"
	"sync"
	"testing"
	"time"

	"github.com/prometheus/client_golang/prometheus"
	dto "github.com/prometheus/client_model/go"
	"github.com/prometheus/common/model"
	"github.com/prometheus/common/promslog"
	"github.com/prometheus/prometheus/discovery"
	"github.com/prometheus/prometheus/discovery/targetgroup"
	"pgregory.net/rapid"

	"verifharness/internal/ev"
)

// C47 — Service discovery converges to the latest target groups.
//
// A real discovery.Manager is driven by harness-owned discoverers. Every harness SD
// config k has a "truth" (source -> target list, like the content of an SD backend)
// that the driver mutates; a discoverer instance started by the manager first emits
// the full truth and afterwards what changed (delta or full re-emission, empty groups
// for vanished sources). The driver interleaves truth changes, configuration reloads
// (jobs x providers: added, removed, shared, renamed) and phases in which the consumer
// of SyncCh does not read. The oracle is interleaving independent: once the driver has
// stopped (reloads returned, every live discoverer handed its last update over), the
// last map delivered on SyncCh must equal the reference fold of the emitted streams of
// the providers serving each configured job.

type c47Step struct {
	Kind  string  // change reload busy pause
	Cfg   int     `json:",omitempty"` // change: harness config id
	Src   int     `json:",omitempty"` // change: source index
	N     int     `json:",omitempty"` // change: number of targets afterwards (0: source emptied)
	Jobs  [][]int `json:",omitempty"` // reload: job index -> provider ids; nil entry: job not configured
	Async bool    `json:",omitempty"` // reload: ApplyConfig runs concurrently with the following steps
	Ms    int     `json:",omitempty"` // busy: consumer does not read for Ms; pause: driver sleeps Ms
}

type c47Case struct {
	Procs      int
	UpdatertMs int
	Modes      []int // per harness config: 0 delta, 1 full re-emission, 2 delta with nil entries
	RecvDelay  []int // ms the consumer stays away after the i-th received map (cycled)
	Steps      []c47Step
}

const (
	c47NCfg       = 4
	c47NJobs      = 4
	c47StaticBase = 100 // 100..102: discovery.StaticConfig variants
	c47FailID     = 200 // config whose NewDiscoverer fails
)

// genC47Reload draws the next job set: either fresh, or an edit of the previous one
// (drop a job, drop a provider, let another job share a job's providers, rename a job).
func genC47Reload(t *rapid.T, prev [][]int) [][]int {
	if prev == nil || rapid.IntRange(0, 2).Draw(t, "fresh") == 0 {
		return genC47Jobs(t)
	}
	jobs := make([][]int, c47NJobs)
	for i := range prev {
		if prev[i] != nil {
			jobs[i] = append([]int{}, prev[i]...)
		}
	}
	nedit := rapid.IntRange(1, 2).Draw(t, "nedit")
	for e := 0; e < nedit; e++ {
		j := rapid.IntRange(0, c47NJobs-1).Draw(t, "editJob")
		o := rapid.IntRange(0, c47NJobs-1).Draw(t, "otherJob")
		switch rapid.IntRange(0, 4).Draw(t, "edit") {
		case 0: // job removed
			jobs[j] = nil
		case 1: // provider removed from a job
			if len(jobs[j]) > 0 {
				jobs[j] = jobs[j][:len(jobs[j])-1]
			}
		case 2: // another job starts sharing the providers
			if jobs[j] != nil {
				jobs[o] = append([]int{}, jobs[j]...)
			}
		case 3: // job renamed
			if jobs[j] != nil && o != j {
				jobs[o] = jobs[j]
				jobs[j] = nil
			}
		default: // provider added
			if jobs[j] == nil {
				jobs[j] = []int{}
			}
			jobs[j] = append(jobs[j], rapid.IntRange(0, c47NCfg-1).Draw(t, "addCfg"))
		}
	}
	return jobs
}

func genC47Jobs(t *rapid.T) [][]int {
	jobs := make([][]int, c47NJobs)
	any := false
	for j := range jobs {
		if rapid.IntRange(0, 3).Draw(t, "jobPresent") == 0 {
			continue
		}
		any = true
		n := rapid.IntRange(0, 3).Draw(t, "nprov")
		l := []int{}
		for i := 0; i < n; i++ {
			switch rapid.IntRange(0, 9).Draw(t, "provKind") {
			case 0:
				l = append(l, c47StaticBase+rapid.IntRange(0, 2).Draw(t, "static"))
			case 1:
				l = append(l, c47FailID)
			default:
				// few ids so that providers are shared between jobs and survive reloads
				l = append(l, rapid.IntRange(0, c47NCfg-1).Draw(t, "cfg"))
			}
		}
		jobs[j] = l
	}
	if !any && rapid.IntRange(0, 3).Draw(t, "allowEmpty") > 0 {
		jobs[0] = []int{0}
	}
	return jobs
}

func genC47(t *rapid.T) c47Case {
	c := c47Case{
		Procs:      rapid.SampledFrom([]int{1, 2, 4, 8}).Draw(t, "procs"),
		UpdatertMs: rapid.SampledFrom([]int{5, 5, 20, 60}).Draw(t, "updatert"),
	}
	for i := 0; i < c47NCfg; i++ {
		c.Modes = append(c.Modes, rapid.IntRange(0, 2).Draw(t, "mode"))
	}
	nd := rapid.IntRange(1, 4).Draw(t, "ndelay")
	for i := 0; i < nd; i++ {
		c.RecvDelay = append(c.RecvDelay, rapid.SampledFrom([]int{0, 0, 1, 20, 120, 250}).Draw(t, "recvDelay"))
	}
	// the SD backends usually hold something before Prometheus starts
	ninit := rapid.IntRange(0, 5).Draw(t, "ninit")
	for i := 0; i < ninit; i++ {
		c.Steps = append(c.Steps, c47Step{Kind: "change",
			Cfg: rapid.IntRange(0, c47NCfg-1).Draw(t, "icfg"),
			Src: rapid.IntRange(0, 2).Draw(t, "isrc"),
			N:   rapid.IntRange(1, 3).Draw(t, "in")})
	}
	prev := genC47Jobs(t)
	c.Steps = append(c.Steps, c47Step{Kind: "reload", Jobs: prev})
	n := rapid.IntRange(2, 14).Draw(t, "nsteps")
	for i := 0; i < n; i++ {
		switch k := rapid.IntRange(0, 11).Draw(t, "stepKind"); {
		case k <= 5:
			c.Steps = append(c.Steps, c47Step{Kind: "change",
				Cfg: rapid.IntRange(0, c47NCfg-1).Draw(t, "ccfg"),
				Src: rapid.IntRange(0, 2).Draw(t, "csrc"),
				N:   rapid.SampledFrom([]int{0, 0, 1, 2, 3}).Draw(t, "cn")})
		case k <= 7:
			prev = genC47Reload(t, prev)
			c.Steps = append(c.Steps, c47Step{Kind: "reload", Jobs: prev, Async: rapid.Bool().Draw(t, "async")})
		case k <= 9:
			// long enough to span at least one sender tick (<= 150 ms) in most runs
			c.Steps = append(c.Steps, c47Step{Kind: "busy", Ms: rapid.SampledFrom([]int{60, 200, 300, 400}).Draw(t, "busyMs")})
		default:
			// 250: long enough for the pending state to be delivered (settle) in most runs
			c.Steps = append(c.Steps, c47Step{Kind: "pause", Ms: rapid.SampledFrom([]int{0, 1, 5, 30, 130, 250, 250}).Draw(t, "pauseMs")})
		}
	}
	// Boost the interesting endings: the consumer is away while the last updates arrive;
	// a reload is the very last event (nothing but the reload itself can announce it).
	ending := rapid.IntRange(0, 5).Draw(t, "ending")
	if ending >= 1 && ending <= 4 {
		c.Steps = append(c.Steps, c47Step{Kind: "busy", Ms: rapid.SampledFrom([]int{250, 400}).Draw(t, "endBusyMs")})
		m := rapid.IntRange(1, 3).Draw(t, "nend")
		for i := 0; i < m; i++ {
			c.Steps = append(c.Steps, c47Step{Kind: "change",
				Cfg: rapid.IntRange(0, c47NCfg-1).Draw(t, "ecfg"),
				Src: rapid.IntRange(0, 2).Draw(t, "esrc"),
				N:   rapid.SampledFrom([]int{0, 1, 2}).Draw(t, "en")})
		}
	}
	if ending >= 4 {
		if rapid.Bool().Draw(t, "settleBeforeLast") {
			c.Steps = append(c.Steps, c47Step{Kind: "pause", Ms: 300})
		}
		c.Steps = append(c.Steps, c47Step{Kind: "reload", Jobs: genC47Reload(t, prev), Async: rapid.Bool().Draw(t, "lastAsync")})
	}
	return c
}

// ---- the harness-owned SD world ----

type c47Src struct{ ver, n int }

type c47Inc struct { // one discoverer instance started by the manager
	cfg     int
	ctx     context.Context
	notify  chan struct{}
	emitted int            // truth version fully handed over to the manager
	stream  [][]*c47GroupV // updates handed over, in order
	started bool
}

type c47GroupV struct {
	nilEntry bool
	src      int
	ver, n   int
}

type c47World struct {
	mu      sync.Mutex
	truth   []map[int]c47Src
	version []int
	incs    [][]*c47Inc
	modes   []int
}

type c47Config struct {
	ID int
	W  *c47World
}

func (c47Config) Name() string { return "verif47" }
func (c c47Config) NewDiscovererMetrics(prometheus.Registerer, discovery.RefreshMetricsInstantiator) discovery.DiscovererMetrics {
	return &discovery.NoopDiscovererMetrics{}
}

func (c c47Config) NewDiscoverer(discovery.DiscovererOptions) (discovery.Discoverer, error) {
	if c.ID == c47FailID {
		return nil, errors.New("verif: this SD config cannot be instantiated")
	}
	if c.ID < 0 || c.ID >= c47NCfg {
		return nil, errors.New("verif: unknown SD config id")
	}
	inc := &c47Inc{cfg: c.ID, notify: make(chan struct{}, 1)}
	c.W.mu.Lock()
	c.W.incs[c.ID] = append(c.W.incs[c.ID], inc)
	c.W.mu.Unlock()
	return &c47Disc{w: c.W, inc: inc}, nil
}

type c47Disc struct {
	w   *c47World
	inc *c47Inc
}

func c47Source(cfg, src int) string { return fmt.Sprintf("c%d/s%d", cfg, src) }

func c47Group(cfg int, g *c47GroupV) *targetgroup.Group {
	if g.nilEntry {
		return nil
	}
	tg := &targetgroup.Group{Source: c47Source(cfg, g.src)}
	for i := 0; i < g.n; i++ {
		tg.Targets = append(tg.Targets, model.LabelSet{model.AddressLabel: model.LabelValue(fmt.Sprintf("c%d-s%d-v%d-%d:80", cfg, g.src, g.ver, i))})
	}
	if g.n > 0 {
		tg.Labels = model.LabelSet{"ver": model.LabelValue(fmt.Sprint(g.ver))}
	}
	return tg
}

func (d *c47Disc) Run(ctx context.Context, up chan<- []*targetgroup.Group) {
	w, inc := d.w, d.inc
	w.mu.Lock()
	inc.ctx = ctx
	inc.started = true
	mode := w.modes[inc.cfg]
	w.mu.Unlock()
	sent := map[int]int{} // source -> version last sent as a non-empty group
	first := true
	for {
		w.mu.Lock()
		v := w.version[inc.cfg]
		var upd []*c47GroupV
		srcs := make([]int, 0, 4)
		for s := range w.truth[inc.cfg] {
			srcs = append(srcs, s)
		}
		sort.Ints(srcs)
		for _, s := range srcs {
			st := w.truth[inc.cfg][s]
			if mode == 1 || sent[s] != st.ver {
				upd = append(upd, &c47GroupV{src: s, ver: st.ver, n: st.n})
			}
		}
		gone := []int{}
		for s := range sent {
			if _, ok := w.truth[inc.cfg][s]; !ok {
				gone = append(gone, s)
			}
		}
		sort.Ints(gone)
		for _, s := range gone {
			upd = append(upd, &c47GroupV{src: s, n: 0})
		}
		w.mu.Unlock()
		if mode == 2 && len(upd) > 0 {
			upd = append([]*c47GroupV{{nilEntry: true}}, upd...)
		}
		if first || len(upd) > 0 {
			tgs := make([]*targetgroup.Group, 0, len(upd))
			for _, g := range upd {
				tgs = append(tgs, c47Group(inc.cfg, g))
			}
			select {
			case up <- tgs:
			case <-ctx.Done():
				return
			}
			for _, g := range upd {
				if g.nilEntry {
					continue
				}
				if g.n > 0 {
					sent[g.src] = g.ver
				} else {
					delete(sent, g.src)
				}
			}
		}
		first = false
		w.mu.Lock()
		if len(upd) > 0 {
			inc.stream = append(inc.stream, upd)
		}
		inc.emitted = v
		w.mu.Unlock()
		select {
		case <-inc.notify:
		case <-ctx.Done():
			return
		}
	}
}

func c47Static(v int) discovery.StaticConfig {
	mk := func(src string, addrs ...string) *targetgroup.Group {
		g := &targetgroup.Group{Source: src}
		for _, a := range addrs {
			g.Targets = append(g.Targets, model.LabelSet{model.AddressLabel: model.LabelValue(a)})
		}
		return g
	}
	switch v {
	case 0:
		return discovery.StaticConfig{mk("st0")}
	case 1:
		return discovery.StaticConfig{mk("st1", "static1:80")}
	default:
		return discovery.StaticConfig{mk("st2a", "static2a:80", "static2b:80"), mk("st2b"), mk("st2c", "static2c:80")}
	}
}

func c47Canon(g *targetgroup.Group) string {
	if g == nil {
		return "<nil group>"
	}
	ts := make([]string, 0, len(g.Targets))
	for _, t := range g.Targets {
		ts = append(ts, t.String())
	}
	sort.Strings(ts)
	return g.Source + "|" + strings.Join(ts, ",") + "|" + g.Labels.String()
}

func c47CanonMap(m map[string][]*targetgroup.Group) map[string][]string {
	out := map[string][]string{}
	for job, gs := range m {
		l := make([]string, 0, len(gs))
		for _, g := range gs {
			l = append(l, c47Canon(g))
		}
		sort.Strings(l)
		out[job] = l
	}
	return out
}

func c47Show(m map[string][]string) string {
	if m == nil {
		return "<nothing received>"
	}
	jobs := make([]string, 0, len(m))
	for j := range m {
		jobs = append(jobs, j)
	}
	sort.Strings(jobs)
	var b strings.Builder
	b.WriteString("{")
	for i, j := range jobs {
		if i > 0 {
			b.WriteString("; ")
		}
		fmt.Fprintf(&b, "%s: [%s]", j, strings.Join(m[j], "  "))
	}
	b.WriteString("}")
	return b.String()
}

func c47Equal(a, b map[string][]string) bool {
	if a == nil || b == nil || len(a) != len(b) {
		return false
	}
	for k, va := range a {
		vb, ok := b[k]
		if !ok || len(va) != len(vb) {
			return false
		}
		for i := range va {
			if va[i] != vb[i] {
				return false
			}
		}
	}
	return true
}

type c47Consumer struct {
	mu       sync.Mutex
	received []map[string][]string
	poke     chan int
	ready    bool // final phase: read without any delay
}

func counterValue(reg *prometheus.Registry, name string) float64 {
	mfs, err := reg.Gather()
	if err != nil {
		return -1
	}
	var v float64
	for _, mf := range mfs {
		if mf.GetName() != name {
			continue
		}
		for _, m := range mf.GetMetric() {
			switch mf.GetType() {
			case dto.MetricType_COUNTER:
				v += m.GetCounter().GetValue()
			case dto.MetricType_GAUGE:
				v += m.GetGauge().GetValue()
			}
		}
	}
	return v
}

const (
	c47HandoverBound = 20 * time.Second // producers' hand-over / ApplyConfig: beyond this the run is inconclusive
	c47QuietPolls    = 120              // consecutive polls without a new map ...
	c47QuietMin      = 5 * time.Second  // ... and at least this long: the channel is quiet
	c47TotalBound    = 40 * time.Second
)

func runC47(c c47Case, r *ev.Rec) error {
	if c.Procs > 0 {
		old := runtime.GOMAXPROCS(c.Procs)
		defer runtime.GOMAXPROCS(old)
	}
	w := &c47World{modes: c.Modes}
	for i := 0; i < c47NCfg; i++ {
		w.truth = append(w.truth, map[int]c47Src{})
		w.version = append(w.version, 0)
		w.incs = append(w.incs, nil)
	}

	ctx, cancel := context.WithCancel(context.Background())
	reg := prometheus.NewRegistry()
	refresh := discovery.NewRefreshMetrics(reg)
	mgr := discovery.NewManager(ctx, promslog.NewNopLogger(), reg,
		&discovery.SDMetrics{RefreshManager: refresh, MechanismMetrics: map[string]discovery.DiscovererMetrics{}},
		discovery.Name("verif47"), discovery.Updatert(time.Duration(c.UpdatertMs)*time.Millisecond))
	if mgr == nil {
		cancel()
		r.Discard()
		return nil
	}
	runDone := make(chan struct{})
	go func() { _ = mgr.Run(); close(runDone) }()

	cons := &c47Consumer{poke: make(chan int, 16)}
	consDone := make(chan struct{})
	go func() {
		defer close(consDone)
		ch := mgr.SyncCh()
		i := 0
		for {
			select {
			case m, ok := <-ch:
				if !ok {
					return
				}
				cm := c47CanonMap(m)
				cons.mu.Lock()
				cons.received = append(cons.received, cm)
				ready := cons.ready
				cons.mu.Unlock()
				if !ready && len(c.RecvDelay) > 0 {
					if d := c.RecvDelay[i%len(c.RecvDelay)]; d > 0 {
						time.Sleep(time.Duration(d) * time.Millisecond)
					}
					i++
				}
			case ms := <-cons.poke:
				cons.mu.Lock()
				ready := cons.ready
				cons.mu.Unlock()
				if !ready {
					time.Sleep(time.Duration(ms) * time.Millisecond)
				}
			}
		}
	}()
	defer func() {
		cancel()
		select {
		case <-runDone:
		case <-time.After(c47HandoverBound):
		}
		select {
		case <-consDone:
		case <-time.After(c47HandoverBound):
		}
	}()

	inconclusive := func(why string) error {
		r.Discard()
		fmt.Printf("C47 INCONCLUSIVE: %s\n", why)
		return nil
	}

	// ---- drive ----
	var finalJobs [][]int
	var reloadDone chan struct{}
	joinReload := func() bool {
		if reloadDone == nil {
			return true
		}
		select {
		case <-reloadDone:
			reloadDone = nil
			return true
		case <-time.After(c47HandoverBound):
			return false
		}
	}
	lastChangeStep := map[int]int{} // cfg -> index of the last change step
	reloadBetween := false
	lastReloadStep := -1
	nChanges := 0
	for si, st := range c.Steps {
		switch st.Kind {
		case "change":
			if st.Cfg < 0 || st.Cfg >= c47NCfg {
				continue
			}
			w.mu.Lock()
			if st.N == 0 {
				delete(w.truth[st.Cfg], st.Src)
			} else {
				w.version[st.Cfg]++ // version doubles as group content version
				w.truth[st.Cfg][st.Src] = c47Src{ver: w.version[st.Cfg], n: st.N}
			}
			w.version[st.Cfg]++
			for _, inc := range w.incs[st.Cfg] {
				select {
				case inc.notify <- struct{}{}:
				default:
				}
			}
			w.mu.Unlock()
			nChanges++
			if p, ok := lastChangeStep[st.Cfg]; ok && lastReloadStep > p {
				reloadBetween = true
			}
			lastChangeStep[st.Cfg] = si
		case "reload":
			if !joinReload() {
				return inconclusive("ApplyConfig did not return within the bound")
			}
			cfg := map[string]discovery.Configs{}
			for j, ids := range st.Jobs {
				if ids == nil {
					continue
				}
				cs := discovery.Configs{}
				for _, id := range ids {
					switch {
					case id >= c47StaticBase && id < c47FailID:
						cs = append(cs, c47Static(id-c47StaticBase))
					default:
						cs = append(cs, c47Config{ID: id, W: w})
					}
				}
				cfg[fmt.Sprintf("j%d", j)] = cs
			}
			finalJobs = st.Jobs
			lastReloadStep = si
			done := make(chan struct{})
			go func() { _ = mgr.ApplyConfig(cfg); close(done) }()
			reloadDone = done
			if !st.Async && !joinReload() {
				return inconclusive("ApplyConfig did not return within the bound")
			}
		case "busy":
			select {
			case cons.poke <- st.Ms:
			default:
			}
		case "pause":
			if st.Ms == 0 {
				runtime.Gosched()
			} else {
				time.Sleep(time.Duration(st.Ms) * time.Millisecond)
			}
		}
	}
	if !joinReload() {
		return inconclusive("ApplyConfig did not return within the bound")
	}

	// ---- producers finished: every running discoverer has handed over the latest truth ----
	deadline := time.Now().Add(c47HandoverBound)
	for {
		pending := ""
		w.mu.Lock()
		for k := 0; k < c47NCfg; k++ {
			for _, inc := range w.incs[k] {
				if !inc.started || inc.ctx.Err() != nil {
					continue
				}
				if inc.emitted != w.version[k] {
					pending = fmt.Sprintf("discoverer of config %d handed over version %d of %d", k, inc.emitted, w.version[k])
				}
			}
		}
		w.mu.Unlock()
		if pending == "" {
			break
		}
		if time.Now().After(deadline) {
			return inconclusive("producers did not finish: " + pending)
		}
		time.Sleep(5 * time.Millisecond)
	}

	// ---- reference fold of the emitted streams ----
	expected := map[string][]string{}
	w.mu.Lock()
	fold := make([]map[string]string, c47NCfg) // per config: source -> canonical group (latest instance)
	for k := 0; k < c47NCfg; k++ {
		if len(w.incs[k]) == 0 {
			continue
		}
		inc := w.incs[k][len(w.incs[k])-1]
		f := map[string]string{}
		for _, upd := range inc.stream {
			for _, g := range upd {
				if g.nilEntry {
					continue
				}
				if g.n > 0 {
					f[c47Source(k, g.src)] = c47Canon(c47Group(k, g))
				} else {
					delete(f, c47Source(k, g.src))
				}
			}
		}
		fold[k] = f
	}
	// generator self-check: the fold of a running instance equals the truth it mirrors
	selfCheck := ""
	usedCfg := map[int]bool{}
	for _, ids := range finalJobs {
		for _, id := range ids {
			if id >= 0 && id < c47NCfg {
				usedCfg[id] = true
			}
		}
	}
	for k := range usedCfg {
		if len(w.incs[k]) == 0 {
			continue // never instantiated although configured: shows up as a mismatch below
		}
		inc := w.incs[k][len(w.incs[k])-1]
		if !inc.started || inc.ctx.Err() != nil {
			continue // not running although configured: mismatch below (its targets are expected)
		}
		want := map[string]string{}
		for s, st := range w.truth[k] {
			want[c47Source(k, s)] = c47Canon(c47Group(k, &c47GroupV{src: s, ver: st.ver, n: st.n}))
		}
		if len(want) != len(fold[k]) {
			selfCheck = fmt.Sprintf("config %d: fold %v, truth %v", k, fold[k], want)
		}
		for s, g := range want {
			if fold[k][s] != g {
				selfCheck = fmt.Sprintf("config %d source %s: fold %q, truth %q", k, s, fold[k][s], g)
			}
		}
	}
	// expected uses the truth (what the backend holds now) for configured providers
	for j, ids := range finalJobs {
		if ids == nil {
			continue
		}
		seen := map[int]bool{}
		l := []string{}
		for _, id := range ids {
			if seen[id] {
				continue
			}
			seen[id] = true
			switch {
			case id == c47FailID:
			case id >= c47StaticBase:
				for _, g := range c47Static(id - c47StaticBase) {
					if len(g.Targets) > 0 {
						l = append(l, c47Canon(g))
					}
				}
			default:
				for s, st := range w.truth[id] {
					l = append(l, c47Canon(c47Group(id, &c47GroupV{src: s, ver: st.ver, n: st.n})))
				}
			}
		}
		sort.Strings(l)
		expected[fmt.Sprintf("j%d", j)] = l
	}
	w.mu.Unlock()
	if selfCheck != "" {
		fmt.Printf("C47 HARNESS SELF-CHECK FAILED: %s\n", selfCheck)
		r.Discard()
		return nil
	}

	// ---- the consumer now reads without delay; wait for the final state ----
	cons.mu.Lock()
	cons.ready = true
	cons.mu.Unlock()
	start := time.Now()
	lastN, quietPolls := -1, 0
	quietSince := time.Now()
	var last map[string][]string
	converged := false
	for {
		cons.mu.Lock()
		n := len(cons.received)
		if n > 0 {
			last = cons.received[n-1]
		}
		cons.mu.Unlock()
		// Nothing was ever delivered and nothing is configured: the consumer holds no
		// targets, which is the expected final state.
		if c47Equal(last, expected) || (n == 0 && len(expected) == 0) {
			converged = true
			break
		}
		if n != lastN {
			lastN, quietPolls, quietSince = n, 0, time.Now()
		} else {
			quietPolls++
		}
		if quietPolls >= c47QuietPolls && time.Since(quietSince) >= c47QuietMin {
			break // quiet and wrong
		}
		if time.Since(start) > c47TotalBound {
			return inconclusive("the sync channel never became quiet")
		}
		time.Sleep(40 * time.Millisecond)
	}
	nRecvAtConv := 0
	if converged {
		// the state is final: every later map must show it as well
		cons.mu.Lock()
		nRecvAtConv = len(cons.received)
		cons.mu.Unlock()
		for i := 0; i < 6; i++ {
			time.Sleep(40 * time.Millisecond)
		}
		cons.mu.Lock()
		for i := nRecvAtConv; i < len(cons.received); i++ {
			if !c47Equal(cons.received[i], expected) {
				got := cons.received[i]
				cons.mu.Unlock()
				return ev.Failf("after the final state had been delivered (all producers finished, no reload running) a later map differs from it\n  expected: %s\n  got:      %s\n  steps: %+v",
					c47Show(expected), c47Show(got), c.Steps)
			}
		}
		cons.mu.Unlock()
	}

	delayed := counterValue(reg, "prometheus_sd_updates_delayed_total")
	nReload := 0
	for _, st := range c.Steps {
		if st.Kind == "reload" {
			nReload++
		}
	}
	if delayed >= 1 {
		r.Class("consumer-blocked-at-send")
	}
	if reloadBetween {
		r.Class("reload-between-updates")
	}
	if nReload > 1 {
		r.Class("reloads>1")
	}
	if len(expected) == 0 {
		r.Class("final-empty-map")
	}
	if lastReloadStep == len(c.Steps)-1 {
		r.Class("reload-is-last-event")
	}
	for _, l := range expected {
		if len(l) == 0 {
			r.Class("final-job-without-targets")
			break
		}
	}
	ng := 0
	for _, l := range expected {
		ng += len(l)
	}
	switch {
	case ng == 0:
		r.Class("final-groups:0")
	case ng <= 3:
		r.Class("final-groups:1-3")
	default:
		r.Class("final-groups:>3")
	}
	if (delayed >= 1 && nChanges >= 2) || reloadBetween {
		r.NonTrivial()
	}
	if !converged {
		cons.mu.Lock()
		nrecv := len(cons.received)
		cons.mu.Unlock()
		headline := "final target state never delivered"
		if nrecv > 0 {
			headline = "the last delivered target state is not the final one"
		}
		return ev.Failf(headline+": all producers finished and every ApplyConfig returned, the consumer was reading for %.1fs (%d polls) without receiving anything new\n  expected last map: %s\n  last map received (%d received in total): %s\n  delayed sends: %v\n  steps: %+v",
			time.Since(quietSince).Seconds(), quietPolls, c47Show(expected), nrecv, c47Show(last), delayed, c.Steps)
	}
	return nil
}

func TestC47(t *testing.T) {
	ev.Check(t, "C47",
		"a real discovery.Manager with harness discoverers mirroring a mutable per-config truth (delta / full / nil-entry emission), generated histories of truth changes (incl. emptied sources), reloads (providers added, removed, shared between jobs, static and failing configs, jobs without providers; sync or concurrent with later steps), consumer-away phases and per-receive consumer delays, GOMAXPROCS drawn. After all producers finished the last map on SyncCh must equal the reference fold. Non-trivial: the consumer was not reading when the manager tried to send (delayed_total>=1) while >=2 changes happened, or a reload happened between two updates of the same config; distinct by hash of the case.",
		genC47, runC47)
}
