package compact

import (
	"context"
	"fmt"
	"math"
	"os"
	"path/filepath"
	"sort"
	"testing"

	"github.com/oklog/ulid/v2"
	"github.com/prometheus/prometheus/model/histogram"
	"github.com/prometheus/prometheus/model/labels"
	"github.com/prometheus/prometheus/storage"
	"github.com/prometheus/prometheus/tsdb"
	"github.com/prometheus/prometheus/tsdb/chunkenc"
	"github.com/prometheus/prometheus/tsdb/chunks"
	"github.com/prometheus/prometheus/tsdb/index"
	"pgregory.net/rapid"

	"verifharness/internal/ev"
	"verifharness/internal/gen"
)

// C07 — compaction preserves the union of its inputs minus tombstones; stats recount.
//
// A case describes 1-5 heads. Every head is filled through the real appender (in-order
// data committed in timestamp order, then optional out-of-order samples) and written to
// blocks with LeveledCompactor.Write: the in-order range either like BlockWriter.Flush
// (whole head) or through a RangeHead cutting through chunks, the out-of-order data through
// OOOCompactionHead.CloneForTimeRange as DB.compactOOO does. Every written block is
// compared with the samples the head accepted (Write half of the property). Tombstones are
// added with Block.Delete, all blocks are compacted with LeveledCompactor.Compact and the
// output is compared with the union of what the input blocks contain minus the deleted
// intervals (Compact half).

type c07Sample struct {
	T int64
	K uint8  `json:",omitempty"` // 0 float, 1 integer histogram, 2 float histogram
	V uint64 `json:",omitempty"` // float64 bits (K==0)
	H int    `json:",omitempty"` // index into Hists (K>0)
	M int64  `json:",omitempty"` // multiplier applied to all counts of the histogram (K>0)
}

type c07SeriesData struct {
	S       int // index into Series
	Samples []c07Sample
	OOO     []c07Sample `json:",omitempty"`
}

type c07Head struct {
	ChunkRange      int64
	SamplesPerChunk int
	XOR2            bool  `json:",omitempty"`
	OOOCap          int64 `json:",omitempty"`
	Data            []c07SeriesData
	Full            bool  // write [head.MinTime, head.MaxTime+1) as BlockWriter.Flush does
	Mint, Maxt      int64 // otherwise write RangeHead(Mint, Maxt-1) as block [Mint, Maxt)
	OOOBlock        int64 `json:",omitempty"` // block size used to slice the out-of-order data
}

type c07Del struct {
	Block      int // index into the written blocks (modulo)
	Mint, Maxt int64
	M          [][2]string // equality matchers
}

type c07Case struct {
	Series   []gen.Lset
	Hists    []gen.Hist
	Heads    []c07Head
	Dels     []c07Del `json:",omitempty"`
	Concat   bool     `json:",omitempty"` // concatenating merger (used only when the inputs do not overlap)
	PassOpen bool     `json:",omitempty"` // hand the already open blocks to Compact
	OutXOR2  bool     `json:",omitempty"` // float encoding for re-encoded chunks
}

func genC07(t *rapid.T) c07Case {
	var c c07Case
	ns := rapid.IntRange(1, 5).Draw(t, "nseries")
	seen := map[string]bool{}
	for i := 0; i < ns; i++ {
		l := gen.SmallLset(true, 3).Draw(t, "lset")
		if seen[l.Key()] {
			continue
		}
		seen[l.Key()] = true
		c.Series = append(c.Series, l)
	}
	nh := rapid.IntRange(1, 3).Draw(t, "nhists")
	for i := 0; i < nh; i++ {
		c.Hists = append(c.Hists, gen.Histogram(gen.HistOpts{AllowCustom: true, AllowGauge: true, MaxBuckets: 5}).Draw(t, "hist"))
	}
	// preferred sample kind of each series
	pref := make([]uint8, len(c.Series))
	for i := range pref {
		pref[i] = uint8(rapid.SampledFrom([]int{0, 0, 0, 1, 2}).Draw(t, "prefkind"))
	}
	step := rapid.SampledFrom([]int64{1, 5, 10, 1000}).Draw(t, "step")
	nheads := rapid.SampledFrom([]int{1, 2, 2, 2, 3, 3, 4, 5}).Draw(t, "nheads")
	type win struct{ lo, n int64 }
	var wins []win
	for hi := 0; hi < nheads; hi++ {
		var h c07Head
		h.ChunkRange = step * rapid.SampledFrom([]int64{4, 16, 64, 100000}).Draw(t, "chunkrange")
		h.SamplesPerChunk = rapid.SampledFrom([]int{4, 8, 120}).Draw(t, "spc")
		h.XOR2 = rapid.IntRange(0, 3).Draw(t, "xor2") == 0
		var lo, n int64
		n = int64(rapid.IntRange(1, 50).Draw(t, "len"))
		placement := rapid.IntRange(0, 5).Draw(t, "placement")
		switch {
		case hi > 0 && placement == 0: // starts exactly on the last timestamp of an earlier window
			w := wins[rapid.IntRange(0, len(wins)-1).Draw(t, "touch")]
			lo = w.lo + w.n - 1
		case hi > 0 && placement == 1: // ends exactly on the first timestamp of an earlier window
			w := wins[rapid.IntRange(0, len(wins)-1).Draw(t, "touch")]
			lo = max(0, w.lo-n+1)
		case hi > 0 && placement == 2: // same window as an earlier head
			w := wins[rapid.IntRange(0, len(wins)-1).Draw(t, "same")]
			lo, n = w.lo, w.n
		case hi > 0 && placement == 3: // right after an earlier window (disjoint)
			w := wins[rapid.IntRange(0, len(wins)-1).Draw(t, "after")]
			lo = w.lo + w.n + int64(rapid.IntRange(0, 3).Draw(t, "aftergap"))
		default:
			lo = int64(rapid.IntRange(0, 80).Draw(t, "lo"))
		}
		wins = append(wins, win{lo, n})
		clone := -1
		if hi > 0 && rapid.IntRange(0, 7).Draw(t, "clone") == 0 {
			clone = rapid.IntRange(0, hi-1).Draw(t, "cloneof")
		}
		withOOO := rapid.IntRange(0, 3).Draw(t, "withooo") == 0
		if withOOO {
			h.OOOCap = rapid.SampledFrom([]int64{1, 2, 4, 32}).Draw(t, "ooocap")
			bs := h.ChunkRange
			for (n+12)*step/bs > 2 {
				bs *= 4
			}
			h.OOOBlock = bs
		}
		if clone >= 0 {
			// the same data as an earlier head (identical chunks when the options match too)
			src := c.Heads[clone]
			h.Data = src.Data
			wins[hi] = wins[clone]
			lo, n = wins[hi].lo, wins[hi].n
			if rapid.Bool().Draw(t, "cloneopts") {
				h.ChunkRange, h.SamplesPerChunk, h.XOR2 = src.ChunkRange, src.SamplesPerChunk, src.XOR2
			}
			if !withOOO {
				// drop the out-of-order part of the copy
				h.Data = nil
				for _, d := range src.Data {
					d.OOO = nil
					h.Data = append(h.Data, d)
				}
			} else if h.OOOBlock < src.OOOBlock {
				h.OOOBlock = src.OOOBlock
			}
		} else {
			for si := range c.Series {
				if rapid.IntRange(0, 9).Draw(t, "inhead") >= 7 && !(si == len(c.Series)-1 && len(h.Data) == 0) {
					continue
				}
				d := c07SeriesData{S: si}
				off := int64(rapid.IntRange(0, int(n)-1).Draw(t, "off"))
				if rapid.IntRange(0, 2).Draw(t, "off0") > 0 {
					off = 0
				}
				stride := int64(rapid.SampledFrom([]int{1, 1, 1, 2, 3}).Draw(t, "stride"))
				cnt := (n - off + stride - 1) / stride
				if rapid.IntRange(0, 3).Draw(t, "short") == 0 {
					cnt = int64(rapid.IntRange(1, int(cnt)).Draw(t, "cnt"))
				}
				canonical := rapid.Bool().Draw(t, "canonical")
				kind := pref[si]
				run := 0
				hidx := rapid.IntRange(0, len(c.Hists)-1).Draw(t, "hidx")
				mul := int64(1)
				for k := int64(0); k < cnt; k++ {
					if run == 0 {
						run = rapid.SampledFrom([]int{1, 3, 10, 200, 200, 200}).Draw(t, "run")
						if k > 0 {
							kind = uint8(rapid.IntRange(0, 2).Draw(t, "kind"))
							if kind > 0 && rapid.Bool().Draw(t, "newhist") {
								hidx = rapid.IntRange(0, len(c.Hists)-1).Draw(t, "hidx")
								mul = 1
							}
						}
					}
					run--
					ts := (lo + off + k*stride) * step
					s := c07Sample{T: ts, K: kind}
					if kind == 0 {
						if canonical {
							s.V = math.Float64bits(float64(ts + int64(si)))
						} else {
							s.V = gen.FloatBits().Draw(t, "v")
						}
						// a float stale marker following a histogram is stored as a stale histogram by
						// the appender; keep the case description equal to what is stored
						if s.V == gen.StaleNaNBits && len(d.Samples) > 0 && d.Samples[len(d.Samples)-1].K != 0 {
							s.V = gen.NormalNaNBits
						}
					} else {
						s.H, s.M = hidx, mul
						if rapid.IntRange(0, 5).Draw(t, "mulstep") > 0 {
							mul++
						}
					}
					d.Samples = append(d.Samples, s)
				}
				if withOOO && len(d.Samples) >= 2 {
					last := d.Samples[len(d.Samples)-1].T
					no := rapid.IntRange(0, 6).Draw(t, "nooo")
					for k := 0; k < no; k++ {
						ts := (lo-10)*step + rapid.Int64Range(0, last-1-(lo-10)*step).Draw(t, "ooot")
						if rapid.Bool().Draw(t, "ooogrid") {
							ts = ts / step * step
						}
						if ts >= last {
							ts = last - 1
						}
						s := c07Sample{T: ts, K: d.Samples[0].K}
						if rapid.IntRange(0, 4).Draw(t, "oookindswitch") == 0 {
							s.K = uint8(rapid.IntRange(0, 2).Draw(t, "oookind"))
						}
						if s.K == 0 {
							s.V = gen.FloatBits().Draw(t, "ooov")
							if s.V == gen.StaleNaNBits {
								s.V = gen.NormalNaNBits
							}
						} else {
							s.H, s.M = rapid.IntRange(0, len(c.Hists)-1).Draw(t, "ooohidx"), int64(rapid.IntRange(1, 5).Draw(t, "ooomul"))
						}
						d.OOO = append(d.OOO, s)
					}
				}
				h.Data = append(h.Data, d)
			}
		}
		h.Full = rapid.IntRange(0, 9).Draw(t, "full") < 6
		if !h.Full {
			h.Mint = (lo + int64(rapid.IntRange(-2, int(n)/2).Draw(t, "mint"))) * step
			h.Maxt = (lo + int64(rapid.IntRange(int(n)/2, int(n)+2).Draw(t, "maxt"))) * step
			if step > 1 && rapid.IntRange(0, 3).Draw(t, "maxtoff") == 0 {
				h.Maxt += rapid.Int64Range(1, step-1).Draw(t, "maxtoffv")
			}
			if h.Maxt <= h.Mint {
				h.Maxt = h.Mint + 1
			}
		}
		c.Heads = append(c.Heads, h)
	}
	nd := rapid.SampledFrom([]int{0, 0, 0, 1, 1, 2, 3, 4}).Draw(t, "ndels")
	for i := 0; i < nd; i++ {
		d := c07Del{Block: rapid.IntRange(0, 7).Draw(t, "delblock")}
		ls := c.Series[rapid.IntRange(0, len(c.Series)-1).Draw(t, "delseries")]
		switch rapid.IntRange(0, 3).Draw(t, "delmatch") {
		case 0:
			d.M = [][2]string{ls[0]} // ls is sorted by name; __name__ sorts first
		case 1:
			d.M = [][2]string{ls[rapid.IntRange(0, len(ls)-1).Draw(t, "dellabel")]}
		default:
			d.M = append(d.M, ls...)
		}
		w := wins[rapid.IntRange(0, len(wins)-1).Draw(t, "delwin")]
		switch rapid.IntRange(0, 5).Draw(t, "delrange") {
		case 0:
			d.Mint, d.Maxt = math.MinInt64, math.MaxInt64
		case 1: // everything from a point on
			d.Mint, d.Maxt = (w.lo+int64(rapid.IntRange(0, int(w.n)).Draw(t, "delfrom")))*step, math.MaxInt64
		default:
			a := w.lo + int64(rapid.IntRange(-1, int(w.n)).Draw(t, "dela"))
			b := a + int64(rapid.SampledFrom([]int{0, 0, 1, 2, 3, 5, 8, 20, 60}).Draw(t, "dellen"))
			d.Mint, d.Maxt = a*step, b*step
			if step > 1 && rapid.Bool().Draw(t, "deloff") {
				d.Mint += rapid.Int64Range(0, step-1).Draw(t, "deloffa")
				d.Maxt += rapid.Int64Range(0, step-1).Draw(t, "deloffb")
				if d.Maxt < d.Mint {
					d.Maxt = d.Mint
				}
			}
		}
		c.Dels = append(c.Dels, d)
	}
	c.Concat = rapid.IntRange(0, 2).Draw(t, "concat") == 0
	c.PassOpen = rapid.Bool().Draw(t, "passopen")
	c.OutXOR2 = rapid.IntRange(0, 3).Draw(t, "outxor2") == 0
	return c
}

// ---- values ---------------------------------------------------------------------------

type c07Val struct {
	K  uint8
	F  uint64
	FH *histogram.FloatHistogram
}

func (a c07Val) eq(b c07Val) bool {
	if a.K != b.K {
		return false
	}
	if a.K == 0 {
		return a.F == b.F
	}
	return gen.FloatHistSemantic(a.FH, b.FH, false) == ""
}

func (a c07Val) String() string {
	switch a.K {
	case 0:
		return fmt.Sprintf("float(%v bits %#x)", math.Float64frombits(a.F), a.F)
	case 1:
		return fmt.Sprintf("hist(%v)", a.FH)
	default:
		return fmt.Sprintf("floathist(%v)", a.FH)
	}
}

func c07ScaledHist(h gen.Hist, m int64) *histogram.Histogram {
	x := h.Int()
	if m > 1 {
		for i := range x.PositiveBuckets {
			x.PositiveBuckets[i] *= m
		}
		for i := range x.NegativeBuckets {
			x.NegativeBuckets[i] *= m
		}
		x.ZeroCount *= uint64(m)
		x.Count *= uint64(m)
		x.Sum *= float64(m)
	}
	return x
}

func (c *c07Case) val(s c07Sample) c07Val {
	if s.K == 0 {
		return c07Val{F: s.V}
	}
	return c07Val{K: s.K, FH: c07ScaledHist(c.Hists[s.H], s.M).ToFloat(nil)}
}

// c07Model: series key -> timestamp -> candidate values.
type c07Model map[string]map[int64][]c07Val

func (m c07Model) add(key string, t int64, v c07Val) {
	if m[key] == nil {
		m[key] = map[int64][]c07Val{}
	}
	for _, o := range m[key][t] {
		if o.eq(v) {
			return
		}
	}
	m[key][t] = append(m[key][t], v)
}

// ---- reading a block ------------------------------------------------------------------

type c07TS struct {
	T int64
	V c07Val
}

type c07Chunk struct {
	Min, Max int64
	Samples  []c07TS
}

type c07SeriesOut struct {
	L      labels.Labels
	Key    string
	Chunks []c07Chunk
}

type c07Stats struct{ series, chunks, samples, floats, hists uint64 }

func c07Decode(chk chunkenc.Chunk) ([]c07TS, error) {
	var out []c07TS
	it := chk.Iterator(nil)
	for vt := it.Next(); vt != chunkenc.ValNone; vt = it.Next() {
		switch vt {
		case chunkenc.ValFloat:
			t, f := it.At()
			out = append(out, c07TS{t, c07Val{F: math.Float64bits(f)}})
		case chunkenc.ValHistogram:
			t, h := it.AtHistogram(nil)
			out = append(out, c07TS{t, c07Val{K: 1, FH: h.ToFloat(nil)}})
		case chunkenc.ValFloatHistogram:
			t, fh := it.AtFloatHistogram(nil)
			out = append(out, c07TS{t, c07Val{K: 2, FH: fh.Copy()}})
		}
	}
	return out, it.Err()
}

// c07ReadBlock reads every series of the block through its index and chunk readers and
// checks the structural half of the property: chunk metas agree with the chunk contents,
// the chunks of a series are time-ordered and do not overlap, series are sorted and unique.
func c07ReadBlock(b tsdb.BlockReader, what string) (out []c07SeriesOut, st c07Stats, err error) {
	ir, err := b.Index()
	if err != nil {
		return nil, st, ev.Failf("%s: open index: %v", what, err)
	}
	defer ir.Close()
	cr, err := b.Chunks()
	if err != nil {
		return nil, st, ev.Failf("%s: open chunks: %v", what, err)
	}
	defer cr.Close()
	k, v := index.AllPostingsKey()
	p, err := ir.Postings(context.Background(), k, v)
	if err != nil {
		return nil, st, ev.Failf("%s: postings: %v", what, err)
	}
	p = ir.SortedPostings(p)
	var builder labels.ScratchBuilder
	var chks []chunks.Meta
	for p.Next() {
		if err := ir.Series(p.At(), &builder, &chks); err != nil {
			return nil, st, ev.Failf("%s: index series %d: %v", what, p.At(), err)
		}
		s := c07SeriesOut{L: builder.Labels().Copy()}
		s.Key = gen.FromLabels(s.L).Key()
		if len(out) > 0 && labels.Compare(out[len(out)-1].L, s.L) >= 0 {
			return nil, st, ev.Failf("%s: series not sorted/unique: %v then %v", what, out[len(out)-1].L, s.L)
		}
		if len(chks) == 0 {
			return nil, st, ev.Failf("%s: series %v has no chunks", what, s.L)
		}
		for i, m := range chks {
			chk, iterable, err := cr.ChunkOrIterable(m)
			if err != nil {
				return nil, st, ev.Failf("%s: series %v chunk %d: %v", what, s.L, i, err)
			}
			if chk == nil || iterable != nil {
				return nil, st, ev.Failf("%s: series %v chunk %d: block chunk reader returned an iterable", what, s.L, i)
			}
			smp, err := c07Decode(chk)
			if err != nil {
				return nil, st, ev.Failf("%s: series %v chunk %d: decode: %v", what, s.L, i, err)
			}
			if len(smp) == 0 || len(smp) != chk.NumSamples() {
				return nil, st, ev.Failf("%s: series %v chunk %d: %d samples decoded, NumSamples()=%d", what, s.L, i, len(smp), chk.NumSamples())
			}
			for j := 1; j < len(smp); j++ {
				if smp[j].T <= smp[j-1].T {
					return nil, st, ev.Failf("%s: series %v chunk %d: timestamps not increasing (%d then %d)", what, s.L, i, smp[j-1].T, smp[j].T)
				}
			}
			if m.MinTime != smp[0].T || m.MaxTime != smp[len(smp)-1].T {
				return nil, st, ev.Failf("%s: series %v chunk %d: meta [%d,%d] but samples span [%d,%d]", what, s.L, i, m.MinTime, m.MaxTime, smp[0].T, smp[len(smp)-1].T)
			}
			if i > 0 && m.MinTime <= chks[i-1].MaxTime {
				return nil, st, ev.Failf("%s: series %v: chunk %d [%d,%d] not after chunk %d [%d,%d] (chunks must be time-ordered and non-overlapping)", what, s.L, i, m.MinTime, m.MaxTime, i-1, chks[i-1].MinTime, chks[i-1].MaxTime)
			}
			s.Chunks = append(s.Chunks, c07Chunk{Min: m.MinTime, Max: m.MaxTime, Samples: smp})
			st.chunks++
			for _, x := range smp {
				st.samples++
				if x.V.K == 0 {
					st.floats++
				} else {
					st.hists++
				}
			}
		}
		st.series++
		out = append(out, s)
	}
	if p.Err() != nil {
		return nil, st, ev.Failf("%s: postings: %v", what, p.Err())
	}
	return out, st, nil
}

func (s c07SeriesOut) flat() []c07TS {
	var o []c07TS
	for _, c := range s.Chunks {
		o = append(o, c.Samples...)
	}
	return o
}

// c07CheckQuerier: the block querier must return what the chunks hold.
func c07CheckQuerier(b tsdb.BlockReader, ser []c07SeriesOut, what string) error {
	q, err := tsdb.NewBlockQuerier(b, math.MinInt64, math.MaxInt64)
	if err != nil {
		return ev.Failf("%s: querier: %v", what, err)
	}
	defer q.Close()
	ss := q.Select(context.Background(), true, nil, labels.MustNewMatcher(labels.MatchEqual, "", ""))
	i := 0
	var it chunkenc.Iterator
	for ss.Next() {
		s := ss.At()
		if i >= len(ser) {
			return ev.Failf("%s: querier returns more series than the index lists: %v", what, s.Labels())
		}
		if !labels.Equal(s.Labels(), ser[i].L) {
			return ev.Failf("%s: querier series %d is %v, index has %v", what, i, s.Labels(), ser[i].L)
		}
		want := ser[i].flat()
		it = s.Iterator(it)
		j := 0
		for vt := it.Next(); vt != chunkenc.ValNone; vt = it.Next() {
			var got c07TS
			switch vt {
			case chunkenc.ValFloat:
				t, f := it.At()
				got = c07TS{t, c07Val{F: math.Float64bits(f)}}
			case chunkenc.ValHistogram:
				t, h := it.AtHistogram(nil)
				got = c07TS{t, c07Val{K: 1, FH: h.ToFloat(nil)}}
			case chunkenc.ValFloatHistogram:
				t, fh := it.AtFloatHistogram(nil)
				got = c07TS{t, c07Val{K: 2, FH: fh.Copy()}}
			}
			if j >= len(want) || want[j].T != got.T || !want[j].V.eq(got.V) {
				return ev.Failf("%s: querier sample %d of %v is t=%d %v, chunks hold %d samples", what, j, s.Labels(), got.T, got.V, len(want))
			}
			j++
		}
		if it.Err() != nil {
			return ev.Failf("%s: querier iterator: %v", what, it.Err())
		}
		if j != len(want) {
			return ev.Failf("%s: querier returns %d samples for %v, chunks hold %d", what, j, s.Labels(), len(want))
		}
		i++
	}
	if ss.Err() != nil {
		return ev.Failf("%s: querier: %v", what, ss.Err())
	}
	if i != len(ser) {
		return ev.Failf("%s: querier returns %d series, index has %d", what, i, len(ser))
	}
	return nil
}

// c07Compare: block content against a model restricted to [mint, maxt).
func c07Compare(ser []c07SeriesOut, m c07Model, mint, maxt int64, what string) error {
	got := map[string]bool{}
	for _, s := range ser {
		got[s.Key] = true
		want := m[s.Key]
		n := 0
		for _, x := range s.flat() {
			cands := want[x.T]
			if x.T < mint || x.T >= maxt {
				return ev.Failf("%s: series %v has a sample at t=%d outside the block range [%d,%d)", what, s.L, x.T, mint, maxt)
			}
			if len(cands) == 0 {
				return ev.Failf("%s: series %v has a sample at t=%d (%v) that no input holds (or that was deleted)", what, s.L, x.T, x.V)
			}
			ok := false
			for _, cv := range cands {
				ok = ok || cv.eq(x.V)
			}
			if !ok {
				return ev.Failf("%s: series %v t=%d: got %v, inputs hold %v", what, s.L, x.T, x.V, cands)
			}
			n++
		}
		for t := range want {
			if t >= mint && t < maxt {
				n--
			}
		}
		if n != 0 {
			var missing []int64
			have := map[int64]bool{}
			for _, x := range s.flat() {
				have[x.T] = true
			}
			for t := range want {
				if t >= mint && t < maxt && !have[t] {
					missing = append(missing, t)
				}
			}
			sort.Slice(missing, func(i, j int) bool { return missing[i] < missing[j] })
			return ev.Failf("%s: series %v lacks %d samples, first missing timestamps %v", what, s.L, len(missing), missing[:min(len(missing), 8)])
		}
	}
	for key, ts := range m {
		if got[key] {
			continue
		}
		for t := range ts {
			if t >= mint && t < maxt {
				return ev.Failf("%s: series %q with a sample at t=%d is missing from the block", what, key, t)
			}
		}
	}
	return nil
}

func c07CheckStats(meta tsdb.BlockMeta, st c07Stats, what string) error {
	s := meta.Stats
	if s.NumSeries != st.series || s.NumChunks != st.chunks || s.NumSamples != st.samples || s.NumFloatSamples != st.floats || s.NumHistogramSamples != st.hists || s.NumTombstones != 0 {
		return ev.Failf("%s: meta stats %+v, recount from the block's chunks: series=%d chunks=%d samples=%d float=%d histogram=%d tombstones=0", what, s, st.series, st.chunks, st.samples, st.floats, st.hists)
	}
	return nil
}

// ---- building the inputs --------------------------------------------------------------

type c07Input struct {
	dir   string
	block *tsdb.Block
	meta  tsdb.BlockMeta
	ser   []c07SeriesOut
	ooo   bool
}

func c07Append(app storage.Appender, l labels.Labels, s c07Sample, c *c07Case) error {
	var err error
	switch s.K {
	case 0:
		_, err = app.Append(0, l, s.T, math.Float64frombits(s.V))
	case 1:
		_, err = app.AppendHistogram(0, l, s.T, c07ScaledHist(c.Hists[s.H], s.M), nil)
	default:
		_, err = app.AppendHistogram(0, l, s.T, nil, c07ScaledHist(c.Hists[s.H], s.M).ToFloat(nil))
	}
	return err
}

var errC07Discard = fmt.Errorf("discard")

// c07WriteHead fills one head and writes its blocks into dir. It returns the directories of
// the written blocks (in-order block first) after checking each against the accepted samples.
func c07WriteHead(c *c07Case, hi int, dir string, r *ev.Rec) ([]*c07Input, error) {
	h := c.Heads[hi]
	ctx := context.Background()
	opts := tsdb.DefaultHeadOptions()
	opts.ChunkRange = h.ChunkRange
	opts.SamplesPerChunk = h.SamplesPerChunk
	opts.StripeSize = 16
	opts.ChunkDirRoot = filepath.Join(dir, fmt.Sprintf("head%d", hi))
	if h.XOR2 {
		opts.FloatChunkEncoding.Store(uint32(chunkenc.EncXOR2))
	}
	hasOOO := false
	for _, d := range h.Data {
		hasOOO = hasOOO || len(d.OOO) > 0
	}
	if hasOOO {
		opts.OutOfOrderTimeWindow.Store(1 << 40)
		opts.OutOfOrderCapMax.Store(max(h.OOOCap, 1))
	}
	if err := os.MkdirAll(opts.ChunkDirRoot, 0o777); err != nil {
		return nil, err
	}
	head, err := tsdb.NewHead(nil, nil, nil, nil, opts, tsdb.NewHeadStats())
	if err != nil {
		return nil, err
	}
	closed := false
	defer func() {
		if !closed {
			head.Close()
		}
		os.RemoveAll(opts.ChunkDirRoot)
	}()
	if err := head.Init(math.MinInt64); err != nil {
		return nil, err
	}
	// in-order data, one commit per timestamp so that every append stays inside the
	// appendable window whatever the chunk range is
	type ent struct {
		d int
		s c07Sample
	}
	var ents []ent
	for di, d := range h.Data {
		for _, s := range d.Samples {
			ents = append(ents, ent{di, s})
		}
	}
	sort.SliceStable(ents, func(i, j int) bool { return ents[i].s.T < ents[j].s.T })
	inorder, ooo := c07Model{}, c07Model{}
	for i := 0; i < len(ents); {
		app := head.Appender(ctx)
		j := i
		for ; j < len(ents) && ents[j].s.T == ents[i].s.T; j++ {
			d := h.Data[ents[j].d]
			if err := c07Append(app, c.Series[d.S].Labels(), ents[j].s, c); err != nil {
				// generator self-check: in-order data is always appendable
				app.Rollback()
				r.Class("discard:inorder-append-error")
				return nil, errC07Discard
			}
		}
		if err := app.Commit(); err != nil {
			return nil, err
		}
		for ; i < j; i++ {
			inorder.add(c.Series[h.Data[ents[i].d].S].Key(), ents[i].s.T, c.val(ents[i].s))
		}
	}
	for _, d := range h.Data {
		for _, s := range d.OOO {
			app := head.Appender(ctx)
			if err := c07Append(app, c.Series[d.S].Labels(), s, c); err != nil {
				app.Rollback()
				r.Class("ooo-append-rejected")
				continue
			}
			if err := app.Commit(); err != nil {
				return nil, err
			}
			ooo.add(c.Series[d.S].Key(), s.T, c.val(s))
		}
	}

	// small chunk segments: the writer preallocates a whole segment, which a tmpfs backs with real pages
	comp, err := tsdb.NewLeveledCompactorWithOptions(ctx, nil, nil, []int64{h.ChunkRange}, nil, tsdb.LeveledCompactorOptions{EnableOverlappingCompaction: true, MaxBlockChunkSegmentSize: 1 << 20})
	if err != nil {
		return nil, err
	}
	var inputs []*c07Input
	open := func(ids []ulid.ULID, m c07Model, mint, maxt int64, isOOO bool, what string) error {
		if len(ids) > 1 {
			return ev.Failf("%s: Write returned %d blocks", what, len(ids))
		}
		if len(ids) == 0 {
			// no block must mean no sample in range
			for key, ts := range m {
				for t := range ts {
					if t >= mint && t < maxt {
						return ev.Failf("%s: Write produced no block although series %q has a sample at t=%d inside [%d,%d)", what, key, t, mint, maxt)
					}
				}
			}
			r.Class("write:empty")
			return nil
		}
		bdir := filepath.Join(dir, ids[0].String())
		b, err := tsdb.OpenBlock(nil, bdir, nil, nil)
		if err != nil {
			return ev.Failf("%s: cannot open written block: %v", what, err)
		}
		in := &c07Input{dir: bdir, block: b, meta: b.Meta(), ooo: isOOO}
		inputs = append(inputs, in)
		if in.meta.MinTime != mint || in.meta.MaxTime != maxt || in.meta.ULID != ids[0] || in.meta.Compaction.Level != 1 || in.meta.Compaction.FromOutOfOrder() != isOOO {
			return ev.Failf("%s: meta %+v, want range [%d,%d) level 1 ooo=%v", what, in.meta, mint, maxt, isOOO)
		}
		ser, st, err := c07ReadBlock(b, what)
		if err != nil {
			return err
		}
		in.ser = ser
		if err := c07Compare(ser, m, mint, maxt, what); err != nil {
			return err
		}
		if err := c07CheckStats(in.meta, st, what); err != nil {
			return err
		}
		return c07CheckQuerier(b, ser, what)
	}
	fail := func(err error) ([]*c07Input, error) {
		for _, in := range inputs {
			in.block.Close()
		}
		return nil, err
	}
	if len(ents) > 0 {
		what := fmt.Sprintf("head %d in-order block", hi)
		var ids []ulid.ULID
		mint, maxt := h.Mint, h.Maxt
		if h.Full {
			mint, maxt = head.MinTime(), head.MaxTime()+1
			if hasOOO {
				ids, err = comp.Write(dir, tsdb.NewRangeHead(head, mint, maxt-1), mint, maxt, nil)
			} else {
				ids, err = comp.Write(dir, head, mint, maxt, nil)
			}
			r.Class("write:full-head")
		} else {
			ids, err = comp.Write(dir, tsdb.NewRangeHead(head, mint, maxt-1), mint, maxt, nil)
			r.Class("write:range-head")
			// does the range cut through a chunk's samples?
			for _, ts := range inorder {
				lo, hiT := false, false
				for t := range ts {
					lo = lo || t < maxt
					hiT = hiT || t >= maxt
				}
				if lo && hiT {
					r.Class("write:range-cuts-series")
					if _, at := ts[maxt]; at {
						r.Class("write:sample-at-maxt")
					}
					break
				}
			}
		}
		if err != nil {
			return fail(ev.Failf("%s: Write error: %v", what, err))
		}
		if err := open(ids, inorder, mint, maxt, false, what); err != nil {
			return fail(err)
		}
	}
	if len(ooo) > 0 {
		oh, err := tsdb.NewOOOCompactionHead(ctx, head)
		if err != nil {
			return fail(ev.Failf("head %d: NewOOOCompactionHead: %v", hi, err))
		}
		bs := max(h.OOOBlock, h.ChunkRange)
		base := &tsdb.BlockMeta{}
		base.Compaction.SetOutOfOrder()
		if oh.MinTime() <= oh.MaxTime() {
			for t := bs * floorDiv(oh.MinTime(), bs); t <= oh.MaxTime(); t += bs {
				what := fmt.Sprintf("head %d out-of-order block [%d,%d)", hi, t, t+bs)
				ids, err := comp.Write(dir, oh.CloneForTimeRange(t, t+bs-1), t, t+bs, base)
				if err != nil {
					return fail(ev.Failf("%s: Write error: %v", what, err))
				}
				if err := open(ids, ooo, t, t+bs, true, what); err != nil {
					return fail(err)
				}
				r.Class("write:ooo-block")
			}
		}
		// every accepted out-of-order sample must be inside the range the compaction head reports
		for key, ts := range ooo {
			for t := range ts {
				if t < oh.MinTime() || t > oh.MaxTime() {
					return fail(ev.Failf("head %d: accepted out-of-order sample of %q at t=%d outside the OOO compaction head range [%d,%d]", hi, key, t, oh.MinTime(), oh.MaxTime()))
				}
			}
		}
	}
	closed = true
	if err := head.Close(); err != nil {
		return fail(err)
	}
	return inputs, nil
}

func c07Matches(l labels.Labels, ms [][2]string) bool {
	for _, m := range ms {
		if l.Get(m[0]) != m[1] {
			return false
		}
	}
	return true
}

func runC07(c c07Case, r *ev.Rec) error {
	if len(c.Series) == 0 || len(c.Hists) == 0 || len(c.Heads) == 0 {
		r.Discard()
		return nil
	}
	dir, err := caseDir("c07")
	if err != nil {
		return err
	}
	defer os.RemoveAll(dir)
	ctx := context.Background()
	var inputs []*c07Input
	defer func() {
		for _, in := range inputs {
			in.block.Close()
		}
	}()
	for hi := range c.Heads {
		ins, err := c07WriteHead(&c, hi, dir, r)
		if err == errC07Discard {
			r.Discard()
			return nil
		}
		if err != nil {
			return err
		}
		inputs = append(inputs, ins...)
	}
	if len(inputs) == 0 {
		r.Class("no-input-block")
		return nil
	}
	// tombstones
	type iv struct{ a, b int64 }
	dels := make([]map[string][]iv, len(inputs))
	cutsChunk := false
	for _, d := range c.Dels {
		bi := d.Block % len(inputs)
		in := inputs[bi]
		if len(d.M) == 0 || d.Maxt < d.Mint {
			continue
		}
		var ms []*labels.Matcher
		for _, m := range d.M {
			ms = append(ms, labels.MustNewMatcher(labels.MatchEqual, m[0], m[1]))
		}
		if err := in.block.Delete(ctx, d.Mint, d.Maxt, ms...); err != nil {
			return ev.Failf("Block.Delete(%d,%d,%v) on input %d: %v", d.Mint, d.Maxt, d.M, bi, err)
		}
		if dels[bi] == nil {
			dels[bi] = map[string][]iv{}
		}
		for _, s := range in.ser {
			if !c07Matches(s.L, d.M) {
				continue
			}
			dels[bi][s.Key] = append(dels[bi][s.Key], iv{d.Mint, d.Maxt})
			for _, ch := range s.Chunks {
				inside, outside := 0, 0
				for _, x := range ch.Samples {
					if x.T >= d.Mint && x.T <= d.Maxt {
						inside++
					} else {
						outside++
					}
				}
				if inside > 0 && outside > 0 {
					cutsChunk = true
				}
			}
		}
		r.Class("delete")
	}
	// expected union
	want := c07Model{}
	type span struct{ lo, hi int64 }
	spans := map[string][]span{}      // per series: surviving range per input block
	kinds := map[string][]map[int64]uint8{} // per series per block: t -> kind
	allKeys := map[string]bool{}
	spansAll := map[string]int{} // number of input blocks holding the series
	for bi, in := range inputs {
		for _, s := range in.ser {
			allKeys[s.Key] = true
			spansAll[s.Key]++
			sp := span{math.MaxInt64, math.MinInt64}
			km := map[int64]uint8{}
			for _, x := range s.flat() {
				deleted := false
				for _, d := range dels[bi][s.Key] {
					if x.T >= d.a && x.T <= d.b {
						deleted = true
					}
				}
				if deleted {
					continue
				}
				want.add(s.Key, x.T, x.V)
				sp.lo, sp.hi = min(sp.lo, x.T), max(sp.hi, x.T)
				km[x.T] = x.V.K
			}
			if sp.lo <= sp.hi {
				spans[s.Key] = append(spans[s.Key], sp)
				kinds[s.Key] = append(kinds[s.Key], km)
			}
		}
	}
	// classes / non-triviality
	overlapDepth, typeSwitch := 1, false
	for key, sp := range spans {
		for i := range sp {
			depth := 1
			for j := range sp {
				if i == j || sp[j].lo > sp[i].lo || sp[j].hi < sp[i].lo {
					continue
				}
				depth++ // block j covers the start of block i's range
				lo, hi := max(sp[i].lo, sp[j].lo), min(sp[i].hi, sp[j].hi)
				ks := map[uint8]bool{}
				for _, km := range []map[int64]uint8{kinds[key][i], kinds[key][j]} {
					for t, k := range km {
						if t >= lo && t <= hi {
							ks[k] = true
						}
					}
				}
				if len(ks) > 1 {
					typeSwitch = true
				}
			}
			overlapDepth = max(overlapDepth, depth)
		}
	}
	fullyDeleted := false
	for key := range allKeys {
		if len(want[key]) == 0 {
			fullyDeleted = true
		}
	}
	if overlapDepth >= 2 {
		r.Class("overlap:shared-series")
	}
	if overlapDepth >= 3 {
		r.Class("overlap:3+-way")
	}
	if typeSwitch {
		r.Class("overlap:type-switch")
	}
	if cutsChunk {
		r.Class("tombstone-cuts-chunk")
	}
	if fullyDeleted {
		r.Class("series-fully-deleted")
	}
	r.Class(fmt.Sprintf("inputs:%d", min(len(inputs), 8)))
	if overlapDepth >= 2 || cutsChunk {
		r.NonTrivial()
	}

	// compaction
	order := make([]*c07Input, len(inputs))
	copy(order, inputs)
	sort.SliceStable(order, func(i, j int) bool { return order[i].meta.MinTime < order[j].meta.MinTime })
	disjoint := true
	mint, maxt := order[0].meta.MinTime, order[0].meta.MaxTime
	var dirs []string
	var open []*tsdb.Block
	var metas []*tsdb.BlockMeta
	for i, in := range order {
		if i > 0 && in.meta.MinTime < maxt {
			disjoint = false
		}
		mint, maxt = min(mint, in.meta.MinTime), max(maxt, in.meta.MaxTime)
		dirs = append(dirs, in.dir)
		open = append(open, in.block)
		m := in.meta
		metas = append(metas, &m)
	}
	copts := tsdb.LeveledCompactorOptions{EnableOverlappingCompaction: true, MaxBlockChunkSegmentSize: 1 << 20}
	if c.OutXOR2 {
		copts.FloatChunkEncoding = func() chunkenc.Encoding { return chunkenc.EncXOR2 }
	}
	merger := "compacting"
	// The concatenating merger documents that its chunk stream "might be overlapping and
	// unsorted" (the series of one label set reach it in heap order, not block order), so it
	// can only write a block when no series is shared between the inputs.
	shared := false
	for _, sp := range spansAll {
		shared = shared || sp > 1
	}
	if c.Concat && disjoint && !shared {
		copts.MergeFunc = storage.NewConcatenatingChunkSeriesMerger()
		merger = "concatenating"
	}
	r.Class("merger:" + merger)
	comp, err := tsdb.NewLeveledCompactorWithOptions(ctx, nil, nil, []int64{1 << 40}, nil, copts)
	if err != nil {
		return err
	}
	if !c.PassOpen {
		open = nil
	}
	what := fmt.Sprintf("Compact(%d blocks, %s merger)", len(dirs), merger)
	ids, err := comp.Compact(dir, dirs, open)
	if err != nil {
		return ev.Failf("%s: error %v", what, err)
	}
	empty := true
	for _, ts := range want {
		if len(ts) > 0 {
			empty = false
		}
	}
	if empty {
		r.Class("result:empty")
		if len(ids) != 0 {
			return ev.Failf("%s: all samples were deleted but a block %v was produced", what, ids)
		}
		for _, in := range order {
			// "The source dirs are marked Deletable."
			rb, err := tsdb.OpenBlock(nil, in.dir, nil, nil)
			if err != nil {
				return ev.Failf("%s: reopening source %s: %v", what, in.dir, err)
			}
			del := rb.Meta().Compaction.Deletable
			rb.Close()
			if !del {
				return ev.Failf("%s: empty result but source block %s is not marked deletable", what, in.meta.ULID)
			}
		}
		return nil
	}
	if len(ids) != 1 {
		return ev.Failf("%s: %d blocks produced, the inputs hold samples", what, len(ids))
	}
	ob, err := tsdb.OpenBlock(nil, filepath.Join(dir, ids[0].String()), nil, nil)
	if err != nil {
		return ev.Failf("%s: cannot open the result: %v", what, err)
	}
	defer ob.Close()
	om := ob.Meta()
	if om.MinTime != mint || om.MaxTime != maxt {
		return ev.Failf("%s: result range [%d,%d), inputs cover [%d,%d)", what, om.MinTime, om.MaxTime, mint, maxt)
	}
	if err := c08CheckMerged(&om, ids[0], metas, false); err != nil {
		return err
	}
	ser, st, err := c07ReadBlock(ob, what)
	if err != nil {
		return err
	}
	if err := c07Compare(ser, want, mint, maxt, what); err != nil {
		return err
	}
	if err := c07CheckStats(om, st, what); err != nil {
		return err
	}
	return c07CheckQuerier(ob, ser, what)
}

func TestC07(t *testing.T) {
	ev.Check(t, "C07",
		"1-5 heads over 1-5 colliding label sets, filled through the real appender with float / integer-histogram / float-histogram runs (type switches, stale and other NaNs, identical copies of earlier heads, windows that touch or equal earlier ones) and optional out-of-order samples, each written with LeveledCompactor.Write (whole head, RangeHead cutting through chunks, OOO compaction head slices) and compared with the accepted samples; then Block.Delete tombstones with equality matchers and LeveledCompactor.Compact over all blocks (compacting merger, or concatenating merger when the inputs are disjoint; open blocks passed or not) compared with the union of the inputs' contents minus deleted intervals (value at a timestamp must be one of the inputs' values), chunk order/overlap, meta stats recounted from the chunks, meta range/parents/sources, querier vs chunks. Non-trivial: two inputs overlap in time on a shared series or a tombstone cuts through a chunk; distinct by hash of the case.",
		genC07, runC07)
}
