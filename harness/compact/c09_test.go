package compact

import (
	"context"
	"encoding/json"
	"fmt"
	"math"
	"os"
	"path/filepath"
	"sort"
	"strings"
	"testing"

	"github.com/oklog/ulid/v2"
	"github.com/prometheus/prometheus/model/labels"
	"github.com/prometheus/prometheus/tsdb"
	"github.com/prometheus/prometheus/tsdb/chunkenc"
	"pgregory.net/rapid"

	"verifharness/internal/ev"
)

// C09 — retention removes only whole expired blocks, oldest first.
//
// A case lays out 1-10 small real blocks (equal and distinct max times, overlapping ranges,
// partial-view / out-of-order hints, children whose parents are still on disk as after an
// interrupted compaction, *.tmp-for-deletion / *.tmp-for-creation leftovers) next to a WAL
// with head data newer than every block, then opens the directory with generated
// RetentionDuration / MaxBytes / MaxPercentage (+ injected FsSizeFunc). The surviving block
// set is observed after tsdb.Open, after a head compaction (new newest block, reload) and
// after a reopen, and validated against the rules of the statement computed from the metas
// and from sizes measured by walking the directory.

type c09Block struct {
	Min, Max int64
	Series   int
	Samples  int
	OOO      bool  `json:",omitempty"`
	Stale    bool  `json:",omitempty"`
	Selected bool  `json:",omitempty"`
	Parents  []int `json:",omitempty"` // indices of blocks this one was compacted from (still on disk)
	Tmp      int   `json:",omitempty"` // 1: <ulid>.tmp-for-deletion, 2: <ulid>.tmp-for-creation
}

type c09Case struct {
	Blocks []c09Block

	HeadSeries  int   // 0: empty head
	HeadSamples int   // per series, at Tmax+HeadStep*k
	HeadStep    int64 `json:",omitempty"`
	SmallChunks bool  `json:",omitempty"` // 4 samples per chunk so that head chunks get m-mapped (chunks_head files)
	OOOWindow   bool  `json:",omitempty"` // out-of-order window on, one out-of-order sample (wbl directory)

	// time retention: 0 disabled, 1 = |Max[I]-Max[J]|+TimeDelta (at least 1), 2 = TimeAbs
	TimeMode  int
	TimeI     int   `json:",omitempty"`
	TimeJ     int   `json:",omitempty"`
	TimeDelta int64 `json:",omitempty"`
	TimeAbs   int64 `json:",omitempty"`

	// size retention: 0 disabled, 1 MaxBytes, 2 MaxPercentage, 3 both (percentage prevails),
	// 4 percentage set but the filesystem size is unknown (0): MaxBytes applies.
	// The limit is head size + the K newest blocks (max-time order) + SizeDelta.
	SizeMode    int
	SizeK       int   `json:",omitempty"`
	SizeDelta   int64 `json:",omitempty"`
	SizeOverAll bool  `json:",omitempty"` // count superseded parents when locating K
	OtherK      int   `json:",omitempty"` // the limit that must NOT apply in modes 3 (MaxBytes) and 4 (percentage)
	PctQ        int   `json:",omitempty"` // percentage in quarters of a percent

	Grow    int  `json:",omitempty"` // >0: compact the first Grow head timestamps into a new newest block
	Reopen  bool `json:",omitempty"`
	Reapply bool `json:",omitempty"` // reopen with the limits disabled: nothing more may disappear
}

var c09PctQ = []int{2, 4, 40, 50, 100, 200, 400} // 0.5% 1% 10% 12.5% 25% 50% 100%: 400/q is integral

func genC09(t *rapid.T) c09Case {
	var c c09Case
	n := rapid.IntRange(1, 8).Draw(t, "nblocks")
	tieHeavy := rapid.IntRange(0, 2).Draw(t, "tieheavy") == 0
	for i := 0; i < n; i++ {
		slots := 8
		if tieHeavy {
			slots = 3
		}
		max := int64(100 * (1 + rapid.IntRange(0, slots-1).Draw(t, "slot")))
		if rapid.IntRange(0, 5).Draw(t, "offgrid") == 0 {
			max += int64(rapid.IntRange(-2, 2).Draw(t, "maxoff"))
		}
		l := rapid.SampledFrom([]int64{50, 100, 100, 250}).Draw(t, "len")
		b := c09Block{Min: max - l, Max: max, Series: rapid.IntRange(1, 3).Draw(t, "series"), Samples: rapid.SampledFrom([]int{1, 2, 5, 20, 50}).Draw(t, "samples")}
		switch rapid.IntRange(0, 11).Draw(t, "hint") {
		case 0:
			b.OOO = true
		case 1:
			b.Stale = true
		case 2:
			b.Selected = true
		}
		c.Blocks = append(c.Blocks, b)
	}
	// interrupted compaction: a child covering 1-3 existing blocks that are still on disk
	nfam := rapid.SampledFrom([]int{0, 0, 0, 1, 1, 2}).Draw(t, "nfamilies")
	for f := 0; f < nfam && len(c.Blocks) < 10; f++ {
		k := rapid.IntRange(1, 3).Draw(t, "nparents")
		var ps []int
		min, max := int64(math.MaxInt64), int64(math.MinInt64)
		for j := 0; j < k; j++ {
			p := rapid.IntRange(0, len(c.Blocks)-1).Draw(t, "parent")
			dup := false
			for _, q := range ps {
				dup = dup || q == p
			}
			if dup {
				continue
			}
			ps = append(ps, p)
			if c.Blocks[p].Min < min {
				min = c.Blocks[p].Min
			}
			if c.Blocks[p].Max > max {
				max = c.Blocks[p].Max
			}
		}
		c.Blocks = append(c.Blocks, c09Block{Min: min, Max: max, Series: rapid.IntRange(1, 3).Draw(t, "series"), Samples: rapid.SampledFrom([]int{2, 20, 50, 100}).Draw(t, "samples"), Parents: ps})
	}
	if rapid.IntRange(0, 4).Draw(t, "tmpdirs") == 0 {
		c.Blocks = append(c.Blocks, c09Block{Min: 0, Max: 100, Series: 1, Samples: 3, Tmp: rapid.IntRange(1, 2).Draw(t, "tmpkind")})
	}
	if rapid.IntRange(0, 3).Draw(t, "head") > 0 {
		c.HeadSeries = rapid.IntRange(1, 3).Draw(t, "headseries")
		c.HeadSamples = rapid.SampledFrom([]int{1, 3, 10, 30}).Draw(t, "headsamples")
		c.HeadStep = rapid.SampledFrom([]int64{1, 10, 40}).Draw(t, "headstep")
		c.SmallChunks = rapid.Bool().Draw(t, "smallchunks")
		c.OOOWindow = rapid.IntRange(0, 3).Draw(t, "ooowindow") == 0
	}
	nb := len(c.Blocks)
	switch rapid.IntRange(0, 9).Draw(t, "timemode") {
	case 0, 1, 2:
		c.TimeMode = 0
	case 3:
		c.TimeMode, c.TimeAbs = 2, rapid.SampledFrom([]int64{1, 50, 100, 101, 1000, 1 << 40}).Draw(t, "timeabs")
	default:
		c.TimeMode = 1
		c.TimeI, c.TimeJ = rapid.IntRange(0, nb-1).Draw(t, "timei"), rapid.IntRange(0, nb-1).Draw(t, "timej")
		c.TimeDelta = int64(rapid.IntRange(-1, 1).Draw(t, "timedelta"))
	}
	switch rapid.IntRange(0, 9).Draw(t, "sizemode") {
	case 0, 1, 2:
		c.SizeMode = 0
	case 3, 4, 5:
		c.SizeMode = 1
	case 6:
		c.SizeMode = 2
	case 7, 8:
		c.SizeMode = 3
	default:
		c.SizeMode = 4
	}
	if c.SizeMode != 0 {
		c.SizeK = rapid.IntRange(0, nb).Draw(t, "sizek")
		c.SizeDelta = rapid.SampledFrom([]int64{-1, 0, 0, 1, 100}).Draw(t, "sizedelta")
		c.SizeOverAll = rapid.IntRange(0, 3).Draw(t, "sizeoverall") == 0
		c.OtherK = rapid.IntRange(0, nb).Draw(t, "otherk")
		c.PctQ = rapid.SampledFrom(c09PctQ).Draw(t, "pctq")
	}
	if c.HeadSeries > 0 && c.HeadSamples >= 3 && rapid.IntRange(0, 2).Draw(t, "grow") == 0 {
		c.Grow = rapid.IntRange(1, c.HeadSamples-1).Draw(t, "growcut")
	}
	c.Reopen = rapid.IntRange(0, 2).Draw(t, "reopen") > 0
	c.Reapply = rapid.IntRange(0, 3).Draw(t, "reapply") == 0
	return c
}

// ---- reference ------------------------------------------------------------------------

type c09Blk struct {
	id       string
	min, max int64
	size     int64
	parents  []string
}

func c09DirSize(dir string) int64 {
	var n int64
	filepath.Walk(dir, func(_ string, info os.FileInfo, err error) error {
		if err == nil && !info.IsDir() {
			n += info.Size()
		}
		return nil
	})
	return n
}

func c09HeadSize(dir string) int64 {
	return c09DirSize(filepath.Join(dir, "wal")) + c09DirSize(filepath.Join(dir, "wbl")) + c09DirSize(filepath.Join(dir, "chunks_head"))
}

// c09SizeDeletions enumerates every deletion set the size rule allows for the candidate
// blocks: walk them newest first by MaxTime (blocks with equal MaxTime in any order), keep
// while head+cumulative size <= limit, delete the first one that does not fit and everything after.
func c09SizeDeletions(cand []c09Blk, head, limit int64) []map[string]bool {
	if limit <= 0 {
		return []map[string]bool{{}}
	}
	s := append([]c09Blk(nil), cand...)
	sort.SliceStable(s, func(i, j int) bool { return s[i].max > s[j].max })
	cum := head
	for i := 0; i < len(s); {
		j := i
		var gsize int64
		for ; j < len(s) && s[j].max == s[i].max; j++ {
			gsize += s[j].size
		}
		if cum+gsize <= limit {
			cum += gsize
			i = j
			continue
		}
		// the cut falls inside group s[i:j]
		var out []map[string]bool
		g := s[i:j]
		for mask := 0; mask < 1<<len(g); mask++ {
			k := cum
			for b := range g {
				if mask&(1<<b) != 0 {
					k += g[b].size
				}
			}
			if mask != 0 && k > limit {
				continue // the kept blocks themselves must fit (an empty run always "fits")
			}
			first := false // some excluded block does not fit after the kept ones
			for b := range g {
				if mask&(1<<b) == 0 && k+g[b].size > limit {
					first = true
				}
			}
			if !first {
				continue
			}
			d := map[string]bool{}
			for b := range g {
				if mask&(1<<b) == 0 {
					d[g[b].id] = true
				}
			}
			for _, x := range s[j:] {
				d[x.id] = true
			}
			out = append(out, d)
		}
		return out
	}
	return []map[string]bool{{}}
}

// c09Explain reports whether the observed deleted set is exactly superseded ∪ time rule ∪ one
// admissible size-rule set, the rules being evaluated over cand.
func c09Explain(all, cand []c09Blk, superseded, deleted map[string]bool, heads []int64, retention, limit int64) bool {
	if len(cand) == 0 {
		for _, b := range all {
			if deleted[b.id] != superseded[b.id] {
				return false
			}
		}
		return true
	}
	newest := cand[0].max
	for _, b := range cand {
		newest = max(newest, b.max)
	}
	timeDel := map[string]bool{}
	for _, b := range cand {
		if retention > 0 && newest-b.max >= retention {
			timeDel[b.id] = true
		}
	}
	for _, h := range heads {
		for _, sd := range c09SizeDeletions(cand, h, limit) {
			ok := true
			for _, b := range all {
				want := superseded[b.id] || timeDel[b.id] || sd[b.id]
				if want != deleted[b.id] {
					ok = false
					break
				}
			}
			if ok {
				return true
			}
		}
	}
	return false
}

type c09Limits struct {
	retention int64
	limit     int64 // effective byte limit (<=0 disabled)
}

// c09Validate checks one observation: `all` are the blocks that were on disk before the
// reload, `kept` the ULIDs db.Blocks() reports afterwards.
func c09Validate(stage string, all []c09Blk, kept map[string]bool, heads []int64, lim c09Limits) (string, error) {
	superseded := map[string]bool{}
	for _, b := range all {
		for _, p := range b.parents {
			superseded[p] = true
		}
	}
	deleted := map[string]bool{}
	var cand []c09Blk
	for _, b := range all {
		deleted[b.id] = !kept[b.id]
		if !superseded[b.id] {
			cand = append(cand, b)
		}
	}
	desc := func() string {
		s := fmt.Sprintf("retention=%d sizeLimit=%d headSize=%v\n", lim.retention, lim.limit, heads)
		bs := append([]c09Blk(nil), all...)
		sort.SliceStable(bs, func(i, j int) bool { return bs[i].max > bs[j].max })
		for _, b := range bs {
			st := "kept"
			if deleted[b.id] {
				st = "DELETED"
			}
			sup := ""
			if superseded[b.id] {
				sup = " superseded"
			}
			s += fmt.Sprintf("    %s [%d,%d) size=%d%s parents=%d -> %s\n", b.id[20:], b.min, b.max, b.size, sup, len(b.parents), st)
		}
		return s
	}
	// the statement's absolute clauses first (better messages)
	for _, b := range all {
		if superseded[b.id] && !deleted[b.id] {
			return "", ev.Failf("%s: block %s was superseded by a loaded block (listed as its parent) but is still loaded\n  %s", stage, b.id, desc())
		}
	}
	for _, d := range cand {
		if !deleted[d.id] {
			continue
		}
		for _, k := range cand {
			if !deleted[k.id] && k.max < d.max {
				return "", ev.Failf("%s: block %s (max %d) was deleted although the strictly older block %s (max %d) is retained\n  %s", stage, d.id, d.max, k.id, k.max, desc())
			}
		}
	}
	if c09Explain(all, cand, superseded, deleted, heads, lim.retention, lim.limit) {
		return "ok", nil
	}
	// the same rules evaluated over every block on disk, superseded parents included
	if len(cand) != len(all) && c09Explain(all, all, superseded, deleted, heads, lim.retention, lim.limit) {
		return "", ev.FailSig("retention-counts-superseded-parents",
			"%s: the surviving set is not the longest newest-first run that fits: the size/time rule was evaluated with the superseded parents (removed in the same reload) still counted, so more blocks were deleted than the limit requires\n  %s", stage, desc())
	}
	return "", ev.Failf("%s: surviving blocks do not follow the retention rules (delete iff newestMax-max >= retention; keep the longest newest-first run with head+blocks <= limit; superseded parents removed)\n  %s", stage, desc())
}

// ---- running ----------------------------------------------------------------------------

func c09WriteBlock(dir string, b c09Block, idx int) (ulid.ULID, error) {
	ctx := context.Background()
	opts := tsdb.DefaultHeadOptions()
	opts.ChunkRange = 1 << 40
	opts.StripeSize = 16
	opts.ChunkDirRoot = filepath.Join(dir, fmt.Sprintf(".blockhead%d", idx))
	if err := os.MkdirAll(opts.ChunkDirRoot, 0o777); err != nil {
		return ulid.ULID{}, err
	}
	defer os.RemoveAll(opts.ChunkDirRoot)
	h, err := tsdb.NewHead(nil, nil, nil, nil, opts, tsdb.NewHeadStats())
	if err != nil {
		return ulid.ULID{}, err
	}
	defer h.Close()
	if err := h.Init(math.MinInt64); err != nil {
		return ulid.ULID{}, err
	}
	app := h.Appender(ctx)
	n := max(b.Samples, 1)
	for s := 0; s < max(b.Series, 1); s++ {
		l := labels.FromStrings("__name__", "blk", "s", fmt.Sprint(s), "b", fmt.Sprint(idx))
		span := b.Max - 1 - b.Min
		last := int64(math.MinInt64)
		for k := 0; k < n; k++ {
			ts := b.Min
			if n > 1 {
				ts = b.Min + span*int64(k)/int64(n-1)
			}
			if ts == last {
				continue
			}
			last = ts
			if _, err := app.Append(0, l, ts, float64(k)); err != nil {
				return ulid.ULID{}, err
			}
		}
	}
	if err := app.Commit(); err != nil {
		return ulid.ULID{}, err
	}
	comp, err := tsdb.NewLeveledCompactorWithOptions(ctx, nil, nil, []int64{1 << 40}, nil, tsdb.LeveledCompactorOptions{MaxBlockChunkSegmentSize: 1 << 20, EnableOverlappingCompaction: true})
	if err != nil {
		return ulid.ULID{}, err
	}
	ids, err := comp.Write(dir, h, b.Min, b.Max, nil)
	if err != nil {
		return ulid.ULID{}, err
	}
	if len(ids) != 1 {
		return ulid.ULID{}, fmt.Errorf("no block written")
	}
	return ids[0], nil
}

func c09ReadMeta(bdir string) (*tsdb.BlockMeta, error) {
	raw, err := os.ReadFile(filepath.Join(bdir, "meta.json"))
	if err != nil {
		return nil, err
	}
	var m tsdb.BlockMeta
	if err := json.Unmarshal(raw, &m); err != nil {
		return nil, err
	}
	return &m, nil
}

func c09DiskBlocks(dir string) (map[string]bool, []string, error) {
	ents, err := os.ReadDir(dir)
	if err != nil {
		return nil, nil, err
	}
	blocks := map[string]bool{}
	var tmp []string
	for _, e := range ents {
		if !e.IsDir() {
			continue
		}
		if _, err := ulid.ParseStrict(e.Name()); err == nil {
			blocks[e.Name()] = true
		} else if strings.Contains(e.Name(), ".tmp") {
			tmp = append(tmp, e.Name())
		}
	}
	return blocks, tmp, nil
}

type c09HeadSample struct {
	s int
	t int64
	v float64
}

func c09QueryHead(db *tsdb.DB, from int64) ([]c09HeadSample, error) {
	q, err := db.Querier(from, math.MaxInt64)
	if err != nil {
		return nil, err
	}
	defer q.Close()
	ss := q.Select(context.Background(), true, nil, labels.MustNewMatcher(labels.MatchEqual, "__name__", "head"))
	var out []c09HeadSample
	var it chunkenc.Iterator
	for ss.Next() {
		s := ss.At()
		var si int
		fmt.Sscan(s.Labels().Get("s"), &si)
		it = s.Iterator(it)
		for it.Next() == chunkenc.ValFloat {
			t, v := it.At()
			out = append(out, c09HeadSample{si, t, v})
		}
		if it.Err() != nil {
			return nil, it.Err()
		}
	}
	return out, ss.Err()
}

func runC09(c c09Case, r *ev.Rec) error {
	if len(c.Blocks) == 0 {
		r.Discard()
		return nil
	}
	dir, err := caseDir("c09")
	if err != nil {
		return err
	}
	defer os.RemoveAll(dir)
	ctx := context.Background()

	var tmax int64
	for _, b := range c.Blocks {
		if b.Max <= b.Min || b.Series < 1 || b.Samples < 1 {
			r.Discard()
			return nil
		}
		tmax = max(tmax, b.Max)
	}
	baseOpts := func() *tsdb.Options {
		o := tsdb.DefaultOptions()
		o.RetentionDuration = 0
		o.MinBlockDuration, o.MaxBlockDuration = 1<<40, 1<<40
		o.StripeSize = 16
		o.NoLockfile = true
		o.WALSegmentSize = 32 * 1024
		o.MaxBlockChunkSegmentSize = 1 << 20
		o.EnableOverlappingCompaction = false
		o.BlockReloadInterval = 24 * 3600 * 1e9
		if c.SmallChunks {
			o.SamplesPerChunk = 4
		}
		if c.OOOWindow {
			o.OutOfOrderTimeWindow = 1 << 40
		}
		return o
	}

	// phase 0: head data newer than every block, written through a DB on the empty directory
	var headWant []c09HeadSample
	if c.HeadSeries > 0 {
		db, err := tsdb.Open(dir, nil, nil, baseOpts(), nil)
		if err != nil {
			return err
		}
		db.DisableCompactions()
		for k := 0; k < c.HeadSamples; k++ {
			app := db.Appender(ctx)
			for s := 0; s < c.HeadSeries; s++ {
				ts := tmax + c.HeadStep*int64(k)
				if _, err := app.Append(0, labels.FromStrings("__name__", "head", "s", fmt.Sprint(s)), ts, float64(k+s)); err != nil {
					app.Rollback()
					db.Close()
					return err
				}
				headWant = append(headWant, c09HeadSample{s, ts, float64(k + s)})
			}
			if err := app.Commit(); err != nil {
				db.Close()
				return err
			}
		}
		if c.OOOWindow && c.HeadSamples >= 2 && c.HeadStep > 1 {
			app := db.Appender(ctx)
			ts := tmax + 1
			if _, err := app.Append(0, labels.FromStrings("__name__", "head", "s", "0"), ts, 77); err == nil {
				if err := app.Commit(); err != nil {
					db.Close()
					return err
				}
				headWant = append(headWant, c09HeadSample{0, ts, 77})
			} else {
				app.Rollback()
			}
		}
		if err := db.Close(); err != nil {
			return err
		}
		sort.SliceStable(headWant, func(i, j int) bool {
			if headWant[i].s != headWant[j].s {
				return headWant[i].s < headWant[j].s
			}
			return headWant[i].t < headWant[j].t
		})
	}

	// blocks
	ids := make([]ulid.ULID, len(c.Blocks))
	for i, b := range c.Blocks {
		id, err := c09WriteBlock(dir, b, i)
		if err != nil {
			return err
		}
		ids[i] = id
	}
	var all []c09Blk
	hasFamily, hasTmp := false, false
	for i, b := range c.Blocks {
		bdir := filepath.Join(dir, ids[i].String())
		m, err := c09ReadMeta(bdir)
		if err != nil {
			return err
		}
		if b.OOO {
			m.Compaction.SetOutOfOrder()
		}
		if b.Stale {
			m.Compaction.SetStaleSeries()
		}
		if b.Selected {
			m.Compaction.SetSelectedSeries()
		}
		var parents []string
		for _, p := range b.Parents {
			if p < 0 || p >= len(c.Blocks) || p == i || c.Blocks[p].Tmp != 0 {
				continue
			}
			m.Compaction.Parents = append(m.Compaction.Parents, tsdb.BlockDesc{ULID: ids[p], MinTime: c.Blocks[p].Min, MaxTime: c.Blocks[p].Max})
			m.Compaction.Sources = append(m.Compaction.Sources, ids[p])
			m.Compaction.Level = 2
			parents = append(parents, ids[p].String())
			hasFamily = true
		}
		raw, err := json.MarshalIndent(m, "", "\t")
		if err != nil {
			return err
		}
		if err := os.WriteFile(filepath.Join(bdir, "meta.json"), raw, 0o666); err != nil {
			return err
		}
		if b.Tmp != 0 {
			suffix := ".tmp-for-deletion"
			if b.Tmp == 2 {
				suffix = ".tmp-for-creation"
			}
			if err := os.Rename(bdir, bdir+suffix); err != nil {
				return err
			}
			hasTmp = true
			continue
		}
		all = append(all, c09Blk{id: ids[i].String(), min: b.Min, max: b.Max, size: c09DirSize(bdir), parents: parents})
	}
	if len(all) == 0 {
		r.Discard()
		return nil
	}
	headBefore := c09HeadSize(dir)

	// limits
	var lim c09Limits
	switch c.TimeMode {
	case 1:
		i, j := c.TimeI%len(c.Blocks), c.TimeJ%len(c.Blocks)
		d := c.Blocks[i].Max - c.Blocks[j].Max
		if d < 0 {
			d = -d
		}
		lim.retention = max(d+c.TimeDelta, 1)
	case 2:
		lim.retention = max(c.TimeAbs, 1)
	}
	superseded := map[string]bool{}
	for _, b := range all {
		for _, p := range b.parents {
			superseded[p] = true
		}
	}
	target := func(k int) int64 {
		var s []c09Blk
		for _, b := range all {
			if c.SizeOverAll || !superseded[b.id] {
				s = append(s, b)
			}
		}
		sort.SliceStable(s, func(i, j int) bool { return s[i].max > s[j].max })
		t := headBefore
		for i := 0; i < k && i < len(s); i++ {
			t += s[i].size
		}
		return t + c.SizeDelta
	}
	opts := baseOpts()
	opts.RetentionDuration = lim.retention
	var fsSize uint64
	pct := float64(c.PctQ) / 4
	switch c.SizeMode {
	case 1:
		lim.limit = target(c.SizeK)
		opts.MaxBytes = lim.limit
	case 2, 3:
		lim.limit = target(c.SizeK)
		if lim.limit > 0 && c.PctQ > 0 {
			fsSize = uint64(lim.limit) * uint64(400/c.PctQ)
			opts.MaxPercentage = pct
		} else {
			lim.limit = 0
		}
		if c.SizeMode == 3 {
			opts.MaxBytes = target(c.OtherK)
			if opts.MaxPercentage == 0 {
				lim.limit = opts.MaxBytes
			}
		}
	case 4:
		lim.limit = target(c.SizeK)
		opts.MaxBytes = lim.limit
		opts.MaxPercentage = pct
		fsSize = 0 // unknown filesystem size: the fixed limit applies
	}
	opts.FsSizeFunc = func(string) uint64 { return fsSize }
	r.Class(fmt.Sprintf("sizemode:%d", c.SizeMode))
	r.Class(fmt.Sprintf("timemode:%d", c.TimeMode))
	if hasFamily {
		r.Class("parents-on-disk")
	}
	if hasTmp {
		r.Class("tmp-leftover")
	}
	ties := false
	for i := range all {
		for j := i + 1; j < len(all); j++ {
			ties = ties || all[i].max == all[j].max
		}
	}
	if ties {
		r.Class("tie-in-max-time")
	}
	if headBefore > 0 {
		r.Class("head-data")
	}

	observe := func(stage string, db *tsdb.DB, before []c09Blk, heads []int64, lim c09Limits) (map[string]bool, error) {
		kept := map[string]bool{}
		for _, b := range db.Blocks() {
			kept[b.Meta().ULID.String()] = true
		}
		disk, tmp, err := c09DiskBlocks(dir)
		if err != nil {
			return nil, err
		}
		if len(tmp) > 0 {
			return nil, ev.Failf("%s: temporary block directories left on disk: %v", stage, tmp)
		}
		for id := range disk {
			if !kept[id] {
				return nil, ev.Failf("%s: block directory %s is on disk but not loaded (a deleted block must be removed from disk)", stage, id)
			}
		}
		for id := range kept {
			if !disk[id] {
				return nil, ev.Failf("%s: loaded block %s has no directory", stage, id)
			}
		}
		known := map[string]bool{}
		for _, b := range before {
			known[b.id] = true
		}
		for id := range kept {
			if !known[id] {
				return nil, ev.Failf("%s: unexpected block %s appeared", stage, id)
			}
		}
		if _, err := c09Validate(stage, before, kept, heads, lim); err != nil {
			return nil, err
		}
		return kept, nil
	}

	db, err := tsdb.Open(dir, nil, nil, opts, nil)
	if err != nil {
		return ev.Failf("tsdb.Open: %v", err)
	}
	db.DisableCompactions()
	closeDB := func() error {
		if db == nil {
			return nil
		}
		err := db.Close()
		db = nil
		return err
	}
	defer closeDB()
	headAfter := c09HeadSize(dir)
	heads := []int64{headBefore}
	if headAfter != headBefore {
		heads = append(heads, headAfter)
		r.Class("head-size-changed-on-open")
	}
	kept, err := observe("after Open", db, all, heads, lim)
	if err != nil {
		return err
	}
	if len(kept) < len(all) {
		r.Class("open:some-deleted")
		if len(kept) > 0 {
			r.NonTrivial()
			r.Class("open:deleted-and-retained")
		} else {
			r.Class("open:all-deleted")
		}
	}
	// head data untouched
	if len(headWant) > 0 {
		got, err := c09QueryHead(db, tmax)
		if err != nil {
			return ev.Failf("query head: %v", err)
		}
		if len(got) != len(headWant) {
			return ev.Failf("after Open: head data changed: %d samples appended at t>=%d (newer than every block), %d returned", len(headWant), tmax, len(got))
		}
		for i := range got {
			if got[i] != headWant[i] {
				return ev.Failf("after Open: head sample %d is %+v, appended %+v", i, got[i], headWant[i])
			}
		}
	}
	cur := func(kept map[string]bool, from []c09Blk) []c09Blk {
		var o []c09Blk
		for _, b := range from {
			if kept[b.id] {
				o = append(o, b)
			}
		}
		return o
	}
	state := cur(kept, all)

	if c.Grow > 0 && c.HeadSeries > 0 && c.Grow < c.HeadSamples {
		// a head compaction writes a new newest block and reloads
		hmin := tmax
		hcut := tmax + c.HeadStep*int64(c.Grow-1)
		hb := c09HeadSize(dir)
		if err := db.CompactHead(tsdb.NewRangeHead(db.Head(), hmin, hcut)); err != nil {
			return ev.Failf("CompactHead: %v", err)
		}
		ha := c09HeadSize(dir)
		disk, _, err := c09DiskBlocks(dir)
		if err != nil {
			return err
		}
		known := map[string]bool{}
		for _, b := range all {
			known[b.id] = true
		}
		var fresh []string
		for id := range disk {
			if !known[id] {
				fresh = append(fresh, id)
			}
		}
		r.Class("grow")
		switch len(fresh) {
		case 1:
			m, err := c09ReadMeta(filepath.Join(dir, fresh[0]))
			if err != nil {
				return err
			}
			if m.MinTime != hmin || m.MaxTime != hcut+1 {
				return ev.Failf("CompactHead wrote block [%d,%d), want [%d,%d)", m.MinTime, m.MaxTime, hmin, hcut+1)
			}
			nb := c09Blk{id: fresh[0], min: m.MinTime, max: m.MaxTime, size: c09DirSize(filepath.Join(dir, fresh[0]))}
			before := append(append([]c09Blk(nil), state...), nb)
			hs := []int64{hb}
			if ha != hb {
				hs = append(hs, ha)
			}
			k2, err := observe("after head compaction", db, before, hs, lim)
			if err != nil {
				return err
			}
			if len(k2) < len(before) && len(k2) > 0 {
				r.NonTrivial()
				r.Class("grow:deleted-and-retained")
			}
			state = cur(k2, before)
		case 0:
			// The new block is strictly the newest one. It can only have been removed by the size
			// rule cutting at the very first block, which removes every block; its size is unknown.
			if lim.limit <= 0 {
				return ev.Failf("after head compaction: the new head block is gone although size retention is disabled")
			}
			if len(db.Blocks()) != 0 || len(disk) != 0 {
				return ev.Failf("after head compaction: the newest block was deleted but %d older blocks are retained", len(db.Blocks()))
			}
			r.Class("grow:newest-deleted-by-size")
			state = nil
		default:
			return ev.Failf("after head compaction: %d new blocks %v", len(fresh), fresh)
		}
	}

	if c.Reopen {
		if err := closeDB(); err != nil {
			return ev.Failf("Close: %v", err)
		}
		o2 := opts
		l2 := lim
		if c.Reapply {
			o2 = baseOpts()
			l2 = c09Limits{}
			r.Class("reopen:limits-off")
		} else {
			r.Class("reopen:same-limits")
		}
		hb := c09HeadSize(dir)
		db, err = tsdb.Open(dir, nil, nil, o2, nil)
		if err != nil {
			db = nil
			return ev.Failf("reopen: %v", err)
		}
		db.DisableCompactions()
		ha := c09HeadSize(dir)
		hs := []int64{hb}
		if ha != hb {
			hs = append(hs, ha)
		}
		k3, err := observe("after reopen", db, state, hs, l2)
		if err != nil {
			return err
		}
		if len(k3) < len(state) {
			r.Class("reopen:more-deleted")
		}
	}
	if err := closeDB(); err != nil {
		return ev.Failf("Close: %v", err)
	}
	return nil
}

func TestC09(t *testing.T) {
	ev.Check(t, "C09",
		"1-10 small real blocks (max times on a coarse grid so that ties are common, lengths 50-250 so that ranges overlap, 1-3 series, 1-100 samples => different sizes; out-of-order / stale / selected hints; children listing 1-3 other on-disk blocks as parents; tmp-for-deletion/creation leftovers) plus optional WAL/WBL/chunks_head data newer than every block; RetentionDuration placed at a difference of two max times -1/0/+1, size limit placed at head+K newest blocks -1/0/+1 given as MaxBytes, MaxPercentage with an injected filesystem size, both (percentage prevails) or percentage with unknown filesystem size; observed after tsdb.Open, after a head compaction that adds a newest block, and after reopening (same limits or none). Non-trivial: an observation where at least one block is deleted and one retained; distinct by hash of the case.",
		genC09, runC09)
}
