package compact

import (
	"context"
	"encoding/json"
	"fmt"
	"os"
	"path/filepath"
	"slices"
	"sort"
	"strconv"
	"testing"

	"github.com/oklog/ulid/v2"
	"github.com/prometheus/prometheus/tsdb"
	"pgregory.net/rapid"

	"verifharness/internal/ev"
)

// C08 — compaction planning: every plan of LeveledCompactor.Plan is one of the three
// documented kinds, never mixes head-view classes, the plan/compact loop converges, and
// CompactBlockMetas propagates hints, range, level, parents and sources.
//
// Plan reads nothing but the meta.json files of the ULID-named sub-directories, so the
// directories of a case hold generated meta.json files only.

type c08Block struct {
	ID       int // position in the directory listing (ULIDs sort by ID)
	Min, Max int64
	Level    int
	Failed   bool  `json:",omitempty"`
	Series   uint64 `json:",omitempty"`
	Tombs    uint64 `json:",omitempty"`
	OOO      bool  `json:",omitempty"`
	Stale    bool  `json:",omitempty"`
	Selected bool  `json:",omitempty"`
}

type c08Case struct {
	Ranges       []int64
	Overlap      bool // LeveledCompactorOptions.EnableOverlappingCompaction
	EmptyRewrite bool // model: a single-block tombstone rewrite yields no block (everything was deleted)
	Blocks       []c08Block
	Subsets      [][]int `json:",omitempty"` // index lists for direct CompactBlockMetas calls
}

func c08ULID(id int) ulid.ULID {
	var u ulid.ULID
	// the first 6 bytes are the timestamp and dominate the string order
	v := uint64(id + 1)
	u[2] = byte(v >> 24)
	u[3] = byte(v >> 16)
	u[4] = byte(v >> 8)
	u[5] = byte(v)
	u[15] = byte(id)
	return u
}

func (b c08Block) meta() *tsdb.BlockMeta {
	m := &tsdb.BlockMeta{ULID: c08ULID(b.ID), MinTime: b.Min, MaxTime: b.Max, Version: 1}
	m.Stats.NumSeries = b.Series
	m.Stats.NumTombstones = b.Tombs
	m.Stats.NumSamples = b.Series * 3
	m.Compaction.Level = b.Level
	m.Compaction.Sources = []ulid.ULID{m.ULID}
	m.Compaction.Failed = b.Failed
	if b.OOO {
		m.Compaction.SetOutOfOrder()
	}
	if b.Stale {
		m.Compaction.SetStaleSeries()
	}
	if b.Selected {
		m.Compaction.SetSelectedSeries()
	}
	return m
}

func floorDiv(a, b int64) int64 {
	q := a / b
	if a%b != 0 && (a < 0) != (b < 0) {
		q--
	}
	return q
}

func genC08(t *rapid.T) c08Case {
	var c c08Case
	r0 := rapid.SampledFrom([]int64{1, 3, 10, 100, 7200000}).Draw(t, "r0")
	levels := rapid.SampledFrom([]int{1, 2, 2, 3, 3, 3, 4, 5}).Draw(t, "levels")
	c.Ranges = []int64{r0}
	for i := 1; i < levels; i++ {
		c.Ranges = append(c.Ranges, c.Ranges[i-1]*int64(rapid.IntRange(2, 5).Draw(t, "mult")))
	}
	c.Overlap = rapid.IntRange(0, 3).Draw(t, "overlap") > 0
	c.EmptyRewrite = rapid.IntRange(0, 4).Draw(t, "emptyrewrite") == 0
	mult := make([]int64, levels) // size of a level in r0 cells
	for i := range mult {
		mult[i] = c.Ranges[i] / r0
	}
	top := mult[levels-1]

	classMode := rapid.IntRange(0, 9).Draw(t, "classmode") // 0-4 regular only, 5-8 mixed, 9 mixed incl. blocks carrying both hints
	failMode := rapid.IntRange(0, 2).Draw(t, "failmode") == 0
	tombMode := rapid.IntRange(0, 2).Draw(t, "tombmode") == 0
	freeMode := rapid.IntRange(0, 3).Draw(t, "freemode") == 0 // add overlapping / misaligned extras
	perturb := rapid.IntRange(0, 3).Draw(t, "perturb") == 0

	n := rapid.IntRange(1, 12).Draw(t, "nblocks")
	// sequence of consecutive blocks on the r0 grid starting at a possibly negative cell
	cursor := rapid.Int64Range(-2*top, top).Draw(t, "startcell")
	if rapid.IntRange(0, 2).Draw(t, "alignstart") == 0 {
		cursor = floorDiv(cursor, top) * top
	}
	add := func(min, max int64, level int) {
		b := c08Block{Min: min, Max: max, Level: level + 1}
		if classMode >= 5 {
			switch rapid.IntRange(0, 9).Draw(t, "class") {
			case 0, 1:
				b.Stale = true
			case 2, 3:
				b.Selected = true
			case 4:
				if classMode == 9 {
					b.Stale, b.Selected = true, true
				}
			}
		}
		if rapid.IntRange(0, 5).Draw(t, "ooo") == 0 {
			b.OOO = true
		}
		if failMode && rapid.IntRange(0, 6).Draw(t, "failed") == 0 {
			b.Failed = true
		}
		b.Series = rapid.SampledFrom([]uint64{0, 1, 10, 100, 1000}).Draw(t, "nseries")
		if tombMode && rapid.IntRange(0, 2).Draw(t, "hastomb") == 0 {
			s := b.Series
			b.Tombs = rapid.SampledFrom([]uint64{1, s / 20, s/20 + 1, (s + 1) / 20, s, s + 1, 2*s + 1}).Draw(t, "ntombs")
		}
		c.Blocks = append(c.Blocks, b)
	}
	for len(c.Blocks) < n {
		switch rapid.IntRange(0, 7).Draw(t, "gap") {
		case 0:
			cursor++
		case 1:
			cursor += rapid.Int64Range(1, top).Draw(t, "gapcells")
		}
		level := 0
		if rapid.IntRange(0, 2).Draw(t, "uplevel") == 0 {
			level = rapid.IntRange(0, levels-1).Draw(t, "level")
			if floorDiv(cursor, mult[level])*mult[level] != cursor {
				if rapid.Bool().Draw(t, "realign") {
					cursor = (floorDiv(cursor, mult[level]) + 1) * mult[level]
				} else {
					level = 0
				}
			}
		}
		min, max := cursor*r0, (cursor+mult[level])*r0
		cursor += mult[level]
		if perturb && r0 >= 3 {
			// a block covering only part of its window (first sample later than the window start,
			// as head compaction produces), or sticking out of it
			switch rapid.IntRange(0, 5).Draw(t, "pert") {
			case 0:
				min += rapid.Int64Range(1, r0-2).Draw(t, "pmin")
			case 1:
				max -= rapid.Int64Range(1, r0-2).Draw(t, "pmax")
			case 2:
				max += rapid.Int64Range(1, r0).Draw(t, "pover")
			}
		}
		add(min, max, level)
		if freeMode && len(c.Blocks) < n {
			switch rapid.IntRange(0, 4).Draw(t, "extra") {
			case 0: // a block over exactly the same range (what an out-of-order compaction produces)
				add(min, max, level)
				c.Blocks[len(c.Blocks)-1].OOO = true
			case 1: // arbitrary block around the cursor
				m := (cursor + rapid.Int64Range(-top, top).Draw(t, "fmin")) * r0
				if r0 > 1 {
					m += rapid.Int64Range(0, r0-1).Draw(t, "fminoff")
				}
				l := rapid.SampledFrom([]int64{1, r0/2 + 1, r0, r0 + 1, 2 * r0, c.Ranges[levels-1]}).Draw(t, "flen")
				add(m, m+l, 0)
			}
		}
	}
	// directory order: a drawn permutation
	perm := rapid.Permutation(seqInts(len(c.Blocks))).Draw(t, "perm")
	for i := range c.Blocks {
		c.Blocks[i].ID = perm[i]
	}
	ns := rapid.IntRange(0, 3).Draw(t, "nsubsets")
	for i := 0; i < ns; i++ {
		k := rapid.IntRange(1, 4).Draw(t, "subsetsize")
		var s []int
		for j := 0; j < k; j++ {
			s = append(s, rapid.IntRange(0, len(c.Blocks)-1).Draw(t, "subsetidx"))
		}
		c.Subsets = append(c.Subsets, s)
	}
	return c
}

func seqInts(n int) []int {
	s := make([]int, n)
	for i := range s {
		s[i] = i
	}
	return s
}

// ---- reference model ---------------------------------------------------------------

func c08Overlaps(a, b *tsdb.BlockMeta) bool { return a.MinTime < b.MaxTime && b.MinTime < a.MaxTime }

const (
	clsRegular = iota
	clsStale
	clsSelected
)

var c08ClassNames = []string{"regular", "stale", "selected"}

// canBe reports whether a block may be counted in class cls. A block carrying both
// partial-view hints (never produced by prometheus itself) is accepted in either.
func c08CanBe(m *tsdb.BlockMeta, cls int) bool {
	st, se := m.Compaction.FromStaleSeries(), m.Compaction.FromSelectedSeries()
	switch cls {
	case clsRegular:
		return !st && !se
	case clsStale:
		return st
	default:
		return se
	}
}

func c08Connected(p []*tsdb.BlockMeta) bool {
	seen := make([]bool, len(p))
	stack := []int{0}
	seen[0] = true
	cnt := 1
	for len(stack) > 0 {
		i := stack[len(stack)-1]
		stack = stack[:len(stack)-1]
		for j := range p {
			if !seen[j] && c08Overlaps(p[i], p[j]) {
				seen[j] = true
				cnt++
				stack = append(stack, j)
			}
		}
	}
	return cnt == len(p)
}

func c08Tombstoned(m *tsdb.BlockMeta) bool {
	// ">5% tombstones", or entirely deleted (at least one tombstone per series)
	return m.Stats.NumTombstones > 0 && 20*m.Stats.NumTombstones > m.Stats.NumSeries
}

func c08Desc(ms []*tsdb.BlockMeta) string {
	s := ""
	for _, m := range ms {
		s += fmt.Sprintf(" {%s [%d,%d) hints=%v failed=%v series=%d tombs=%d}", m.ULID.String()[6:10], m.MinTime, m.MaxTime, m.Compaction.Hints, m.Compaction.Failed, m.Stats.NumSeries, m.Stats.NumTombstones)
	}
	return s
}

// c08ValidatePlan is the validity predicate. It returns the kind of the plan ("overlap",
// "level", "tombstone") or an error.
func c08ValidatePlan(plan, all []*tsdb.BlockMeta, ranges []int64, overlapEnabled bool) (string, error) {
	ctx := func() string {
		return fmt.Sprintf("ranges=%v overlappingCompaction=%v\n  plan:%s\n  dir: %s", ranges, overlapEnabled, c08Desc(plan), c08Desc(all))
	}
	// all planned blocks in one class
	var classes []int
	for cls := clsRegular; cls <= clsSelected; cls++ {
		ok := true
		for _, m := range plan {
			if !c08CanBe(m, cls) {
				ok = false
			}
		}
		if ok {
			classes = append(classes, cls)
		}
	}
	if len(classes) == 0 {
		return "", ev.Failf("plan mixes blocks of different head-view classes. %s", ctx())
	}
	if len(plan) == 1 {
		if c08Tombstoned(plan[0]) {
			return "tombstone", nil
		}
		return "", ev.Failf("single-block plan whose tombstones do not warrant a rewrite. %s", ctx())
	}
	pairwiseDisjoint := true
	for i := range plan {
		for j := i + 1; j < len(plan); j++ {
			if plan[i].ULID == plan[j].ULID {
				return "", ev.Failf("plan lists a block twice. %s", ctx())
			}
			if c08Overlaps(plan[i], plan[j]) {
				pairwiseDisjoint = false
			}
		}
	}
	if overlapEnabled && c08Connected(plan) {
		return "overlap", nil
	}
	// level compaction group
	mint, maxt := plan[0].MinTime, plan[0].MaxTime
	for _, m := range plan {
		mint, maxt = min(mint, m.MinTime), max(maxt, m.MaxTime)
		if m.Compaction.Failed {
			return "", ev.Failf("plan of non-overlapping blocks contains a block marked as failed. %s", ctx())
		}
	}
	inWindow := false
	for _, iv := range ranges {
		t0 := floorDiv(mint, iv) * iv
		if maxt <= t0+iv {
			inWindow = true
		}
	}
	if !inWindow {
		return "", ev.Failf("planned blocks [%d,%d) do not lie within one aligned window of a configured range. %s", mint, maxt, ctx())
	}
	newestOK := false
	for _, cls := range classes {
		var newest int64
		first := true
		for _, m := range all {
			if c08CanBe(m, cls) && (first || m.MinTime > newest) {
				newest, first = m.MinTime, false
			}
		}
		for _, m := range all {
			if c08CanBe(m, cls) && m.MinTime == newest && !slices.ContainsFunc(plan, func(p *tsdb.BlockMeta) bool { return p.ULID == m.ULID }) {
				newestOK = true
			}
		}
	}
	if !newestOK {
		return "", ev.Failf("plan contains the newest block (max MinTime) of its class. %s", ctx())
	}
	if !pairwiseDisjoint {
		if !overlapEnabled {
			return "", ev.FailSig("level-plan-overlapping-blocks-with-overlapping-compaction-disabled",
				"overlapping compaction is disabled but the planned group contains overlapping blocks (they would be merged vertically). %s", ctx())
		}
		return "", ev.Failf("planned blocks overlap but are not one connected overlapping set. %s", ctx())
	}
	return "level", nil
}

// c08MustPlan is the progress side, written from the comments of plan/selectDirs: it
// returns a reason when the planner has to return something. It only speaks when the
// layout is unambiguous: no block carries both partial-view hints and no two blocks of one
// class overlap unless overlapping compaction is on (in which case the overlap itself is the reason).
func c08MustPlan(all []*tsdb.BlockMeta, ranges []int64, overlapEnabled bool) string {
	for _, m := range all {
		if m.Compaction.FromStaleSeries() && m.Compaction.FromSelectedSeries() {
			return ""
		}
	}
	reason := ""
	for cls := clsRegular; cls <= clsSelected; cls++ {
		var ms []*tsdb.BlockMeta
		for _, m := range all {
			if c08CanBe(m, cls) {
				ms = append(ms, m)
			}
		}
		hasOverlap := false
		for i := range ms {
			for j := i + 1; j < len(ms); j++ {
				if c08Overlaps(ms[i], ms[j]) {
					hasOverlap = true
				}
			}
		}
		if hasOverlap {
			if overlapEnabled {
				return fmt.Sprintf("two %s blocks overlap and overlapping compaction is enabled", c08ClassNames[cls])
			}
			// ambiguous grouping for this class; other classes may still give a reason but the
			// planner may legitimately return a group of this one first - any non-empty plan
			// satisfies the caller, so keep looking.
			continue
		}
		if len(ms) < 3 {
			continue
		}
		sort.Slice(ms, func(i, j int) bool { return ms[i].MinTime < ms[j].MinTime })
		rest := ms[:len(ms)-1] // without the newest block
		mostRecent := rest[len(rest)-1].MinTime
		for _, iv := range ranges[1:] {
			groups := map[int64][]*tsdb.BlockMeta{}
			for _, m := range rest {
				w := floorDiv(m.MinTime, iv)
				if m.MaxTime <= w*iv+iv {
					groups[w] = append(groups[w], m)
				}
			}
			for w, g := range groups {
				if len(g) < 2 {
					continue
				}
				failed := false
				mint, maxt := g[0].MinTime, g[0].MaxTime
				for _, m := range g {
					failed = failed || m.Compaction.Failed
					mint, maxt = min(mint, m.MinTime), max(maxt, m.MaxTime)
				}
				if !failed && (maxt-mint == iv || maxt <= mostRecent) {
					reason = fmt.Sprintf("%d %s blocks without failure fill/precede within window [%d,%d] of range %d", len(g), c08ClassNames[cls], w*iv, w*iv+iv, iv)
				}
			}
		}
	}
	return reason
}

// c08CheckMerged verifies CompactBlockMetas against its documentation.
func c08CheckMerged(res *tsdb.BlockMeta, uid ulid.ULID, in []*tsdb.BlockMeta, sameClass bool) error {
	mint, maxt, level := in[0].MinTime, in[0].MaxTime, 0
	allOOO, anyStale, anySel := true, false, false
	src := map[ulid.ULID]bool{}
	for _, m := range in {
		mint, maxt, level = min(mint, m.MinTime), max(maxt, m.MaxTime), max(level, m.Compaction.Level)
		allOOO = allOOO && m.Compaction.FromOutOfOrder()
		anyStale = anyStale || m.Compaction.FromStaleSeries()
		anySel = anySel || m.Compaction.FromSelectedSeries()
		for _, s := range m.Compaction.Sources {
			src[s] = true
		}
	}
	bad := func(what string, want, got any) error {
		return ev.Failf("CompactBlockMetas: %s want %v got %v\n  inputs:%s\n  result: [%d,%d) level=%d hints=%v parents=%v sources=%v", what, want, got, c08Desc(in), res.MinTime, res.MaxTime, res.Compaction.Level, res.Compaction.Hints, res.Compaction.Parents, res.Compaction.Sources)
	}
	switch {
	case res.ULID != uid:
		return bad("ULID", uid, res.ULID)
	case res.MinTime != mint || res.MaxTime != maxt:
		return bad("time range", [2]int64{mint, maxt}, [2]int64{res.MinTime, res.MaxTime})
	case res.Compaction.Level != level+1:
		return bad("level", level+1, res.Compaction.Level)
	case res.Compaction.FromOutOfOrder() != allOOO:
		return bad("out-of-order hint (only if every input carries it)", allOOO, res.Compaction.FromOutOfOrder())
	case res.Compaction.FromStaleSeries() != anyStale:
		return bad("stale-series hint", anyStale, res.Compaction.FromStaleSeries())
	case res.Compaction.FromSelectedSeries() != anySel:
		return bad("selected-series hint", anySel, res.Compaction.FromSelectedSeries())
	case len(res.Compaction.Parents) != len(in):
		return bad("number of parents", len(in), len(res.Compaction.Parents))
	case len(res.Compaction.Sources) != len(src):
		return bad("number of sources", len(src), len(res.Compaction.Sources))
	case res.Compaction.Failed || res.Compaction.Deletable:
		return bad("failed/deletable flags", false, true)
	}
	for i, p := range res.Compaction.Parents {
		if p.ULID != in[i].ULID || p.MinTime != in[i].MinTime || p.MaxTime != in[i].MaxTime {
			return bad(fmt.Sprintf("parent[%d]", i), in[i].ULID, p)
		}
	}
	for i, s := range res.Compaction.Sources {
		if !src[s] {
			return bad("source not among the inputs' sources", "", s)
		}
		if i > 0 && res.Compaction.Sources[i-1].Compare(s) >= 0 {
			return bad("sources sorted and unique", "", res.Compaction.Sources)
		}
	}
	if len(res.Compaction.Hints) > 3 {
		return bad("hint list without duplicates", "<=3", res.Compaction.Hints)
	}
	_ = sameClass
	return nil
}

func c08WriteMeta(dir string, m *tsdb.BlockMeta) error {
	d := filepath.Join(dir, m.ULID.String())
	if err := os.Mkdir(d, 0o777); err != nil {
		return err
	}
	b, err := json.Marshal(m)
	if err != nil {
		return err
	}
	return os.WriteFile(filepath.Join(d, "meta.json"), b, 0o666)
}

func runC08(c c08Case, r *ev.Rec) error {
	if len(c.Blocks) == 0 || len(c.Ranges) == 0 {
		r.Discard()
		return nil
	}
	dir, err := caseDir("c08")
	if err != nil {
		return err
	}
	defer os.RemoveAll(dir)
	comp, err := tsdb.NewLeveledCompactorWithOptions(context.Background(), nil, nil, c.Ranges, nil, tsdb.LeveledCompactorOptions{EnableOverlappingCompaction: c.Overlap})
	if err != nil {
		return err
	}
	cur := map[string]*tsdb.BlockMeta{}
	tombstoned := 0
	classesSeen := map[int]bool{}
	negative := false
	for _, b := range c.Blocks {
		if b.Max <= b.Min {
			r.Discard()
			return nil
		}
		m := b.meta()
		if _, dup := cur[m.ULID.String()]; dup {
			r.Discard()
			return nil
		}
		if err := c08WriteMeta(dir, m); err != nil {
			return err
		}
		cur[m.ULID.String()] = m
		if m.Stats.NumTombstones > 0 {
			tombstoned++
		}
		for cls := clsRegular; cls <= clsSelected; cls++ {
			if c08CanBe(m, cls) {
				classesSeen[cls] = true
			}
		}
		if b.Min < 0 {
			negative = true
		}
	}
	if len(classesSeen) > 1 {
		r.Class("dir:mixed-classes")
	}
	if negative {
		r.Class("dir:negative-times")
	}
	// direct CompactBlockMetas checks on arbitrary subsets (in the given order)
	for _, s := range c.Subsets {
		var in []*tsdb.BlockMeta
		for _, i := range s {
			if i >= 0 && i < len(c.Blocks) {
				in = append(in, c.Blocks[i].meta())
			}
		}
		if len(in) == 0 {
			continue
		}
		uid := c08ULID(5000)
		if err := c08CheckMerged(tsdb.CompactBlockMetas(uid, in...), uid, in, false); err != nil {
			return err
		}
	}

	bound := len(c.Blocks) + tombstoned
	failedInWindow := false
	for step := 0; ; step++ {
		var all []*tsdb.BlockMeta
		for _, m := range cur {
			all = append(all, m)
		}
		sort.Slice(all, func(i, j int) bool { return all[i].ULID.Compare(all[j].ULID) < 0 })
		dirs, err := comp.Plan(dir)
		if err != nil {
			return ev.Failf("Plan returned error %v. dir:%s", err, c08Desc(all))
		}
		if len(dirs) == 0 {
			if why := c08MustPlan(all, c.Ranges, c.Overlap); why != "" {
				return ev.Failf("empty plan although %s. step=%d ranges=%v overlappingCompaction=%v\n  dir:%s", why, step, c.Ranges, c.Overlap, c08Desc(all))
			}
			if step == 0 {
				r.Class("plan0:empty")
			} else {
				r.NonTrivial()
			}
			r.Class("steps:" + strconv.Itoa(min(step, 6)))
			if failedInWindow {
				r.Class("failed-block-in-window")
			}
			return nil
		}
		if step >= bound {
			return ev.Failf("plan/compact loop did not reach the empty plan within %d steps (%d blocks + %d with tombstones). ranges=%v overlappingCompaction=%v\n  dir now:%s", bound, len(c.Blocks), tombstoned, c.Ranges, c.Overlap, c08Desc(all))
		}
		var plan []*tsdb.BlockMeta
		for _, d := range dirs {
			if filepath.Dir(d) != dir {
				return ev.Failf("plan entry %q is not a sub-directory of %q", d, dir)
			}
			m := cur[filepath.Base(d)]
			if m == nil {
				return ev.Failf("plan entry %q is not a block of the directory", d)
			}
			plan = append(plan, m)
		}
		kind, verr := c08ValidatePlan(plan, all, c.Ranges, c.Overlap)
		if verr != nil {
			return verr
		}
		if step == 0 {
			r.Class("plan0:" + kind)
			if kind == "level" && plan[0].MinTime < 0 {
				r.Class("plan0:level-negative-window")
			}
			// a failed block sitting with other blocks in a window (class distribution only)
			for _, m := range all {
				if m.Compaction.Failed {
					for _, o := range all {
						if o != m && !o.Compaction.Failed && len(c.Ranges) > 1 && floorDiv(o.MinTime, c.Ranges[1]) == floorDiv(m.MinTime, c.Ranges[1]) {
							failedInWindow = true
						}
					}
				}
			}
		}
		// metadata-level compaction
		uid := c08ULID(1000 + step)
		merged := tsdb.CompactBlockMetas(uid, plan...)
		if err := c08CheckMerged(merged, uid, plan, true); err != nil {
			return err
		}
		// class kept: the merged block belongs to the class of its inputs
		for cls := clsRegular; cls <= clsSelected; cls++ {
			allIn := true
			for _, m := range plan {
				allIn = allIn && c08CanBe(m, cls)
			}
			if allIn && !c08CanBe(merged, cls) {
				return ev.Failf("merged block left the %s class of its inputs: hints %v, inputs:%s", c08ClassNames[cls], merged.Compaction.Hints, c08Desc(plan))
			}
		}
		var series uint64
		for _, m := range plan {
			series = max(series, m.Stats.NumSeries)
			if err := os.RemoveAll(filepath.Join(dir, m.ULID.String())); err != nil {
				return err
			}
			delete(cur, m.ULID.String())
		}
		if kind == "tombstone" && c.EmptyRewrite {
			continue // everything was deleted: no block written, source removed
		}
		merged.Version = 1
		merged.Stats.NumSeries = series
		merged.Stats.NumSamples = series * 3
		if err := c08WriteMeta(dir, merged); err != nil {
			return err
		}
		cur[merged.ULID.String()] = merged
	}
}

func TestC08(t *testing.T) {
	ev.Check(t, "C08",
		"directories holding only generated meta.json files (1-12 blocks laid out on the grid of generated exponential ranges, 1-5 levels, starting at negative or positive cells, gaps, higher-level blocks, partial/misaligned blocks, duplicated ranges as out-of-order compaction leaves them, arbitrary overlapping extras, failed flags, tombstone/series stats, regular/stale/selected classes and the out-of-order hint, overlapping compaction on/off, random directory order). Plan is validated (overlap set / level group inside one aligned window without failed blocks and without the newest block of its class / single tombstoned block; one class only), must be non-empty when the documented rules select something, and plan -> CompactBlockMetas -> plan is iterated to the empty plan within #blocks+#tombstoned steps; CompactBlockMetas also checked on arbitrary subsets. Non-trivial: the first plan is non-empty; distinct by hash of the case.",
		genC08, runC08)
}

// ---- exhaustive small universe (thorough) -------------------------------------------

// Universe: ranges 10/30/90; the 9 level-1 cells, 3 level-2 windows and the level-3 window
// of [base, base+90): 13 candidate blocks, every subset, three class patterns, overlapping
// compaction on/off, base 0 and -90.
func c08UniverseBlocks(base int64) []c08Block {
	var bs []c08Block
	for i := int64(0); i < 9; i++ {
		bs = append(bs, c08Block{Min: base + i*10, Max: base + i*10 + 10, Level: 1})
	}
	for i := int64(0); i < 3; i++ {
		bs = append(bs, c08Block{Min: base + i*30, Max: base + i*30 + 30, Level: 2})
	}
	bs = append(bs, c08Block{Min: base, Max: base + 90, Level: 3})
	return bs
}

func TestC08Universe(t *testing.T) {
	shard, _ := strconv.Atoi(os.Getenv("VERIF_SHARD"))
	shards, _ := strconv.Atoi(os.Getenv("VERIF_SHARDS"))
	if shards <= 0 {
		shards = 1
	}
	const nb = 13
	total := (1 << nb) * 3 * 2 * 2
	i := shard
	next := func() (c08Case, bool) {
		for {
			if i >= total {
				return c08Case{}, false
			}
			k := i
			i += shards
			mask := k % (1 << nb)
			k /= 1 << nb
			pattern := k % 3
			k /= 3
			overlap := k%2 == 1
			k /= 2
			base := int64(0)
			if k%2 == 1 {
				base = -90
			}
			if mask == 0 {
				continue
			}
			c := c08Case{Ranges: []int64{10, 30, 90}, Overlap: overlap}
			u := c08UniverseBlocks(base)
			for j := 0; j < nb; j++ {
				if mask&(1<<j) == 0 {
					continue
				}
				b := u[j]
				b.ID = len(c.Blocks)
				b.Series = 10
				switch pattern {
				case 1: // classes by position
					b.Stale = j%3 == 1
					b.Selected = j%3 == 2
					b.OOO = j%2 == 1
				case 2: // tombstones and a failed block
					b.Failed = j%5 == 4
					if j%4 == 0 {
						b.Tombs = 10
					}
				}
				c.Blocks = append(c.Blocks, b)
			}
			return c, true
		}
	}
	ev.Enumerate(t, "C08",
		"exhaustive: every non-empty subset of the 13 aligned blocks of a 3-level universe (ranges 10/30/90) x 3 class/flag patterns x overlapping compaction on/off x base 0/-90, same oracle as the generated part",
		next, runC08, ev.Opts{Part: "universe"})
}
