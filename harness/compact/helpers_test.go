package compact

import (
	"os"
	"runtime/debug"
	"testing"
	"path/filepath"
	"strconv"
	"strings"
	"sync"
)

// Block writing fsyncs a dozen files per block; the registry fragments of C07/C09 point
// TMPDIR at a tmpfs so that a case costs milliseconds. Directories carry the pid so that
// leftovers of a killed shard can be told from live ones and swept by a later run.

var sweepOnce sync.Once

func caseDir(prefix string) (string, error) {
	sweepOnce.Do(func() {
		ents, err := os.ReadDir(os.TempDir())
		if err != nil {
			return
		}
		for _, e := range ents {
			parts := strings.Split(e.Name(), "-")
			if len(parts) < 3 || parts[0] != "verifcompact" {
				continue
			}
			pid, err := strconv.Atoi(parts[2])
			if err != nil || pid <= 0 {
				continue
			}
			if _, err := os.Stat("/proc/" + strconv.Itoa(pid)); os.IsNotExist(err) {
				os.RemoveAll(filepath.Join(os.TempDir(), e.Name()))
			}
		}
	})
	name := "verifcompact-" + prefix + "-" + strconv.Itoa(os.Getpid()) + "-"
	d, err := os.MkdirTemp("", name)
	if err != nil {
		d, err = os.MkdirTemp("/tmp", name)
	}
	return d, err
}

// Every block write allocates ~20 MiB of zeroed bufio buffers (index writer, chunk segment
// writer). With the default GC pacing the tiny live heap makes the runtime hand these
// pages back to the OS after every cycle and fault them in again for the next block, which
// dominates the cost of a case. An untouched ballast raises the heap goal to ~1.5 GiB of
// address space so that the pages are recycled inside the process instead.
var ballast []byte

func TestMain(m *testing.M) {
	ballast = make([]byte, 1<<30) // never touched: address space only, raises the GC goal
	debug.SetGCPercent(50)
	os.Exit(m.Run())
}
