package labels

import (
	"crypto/md5"
	"encoding/binary"
	"fmt"
	"regexp"
	"sort"
	"strconv"
	"strings"
	"testing"
	"unicode/utf8"

	"github.com/prometheus/common/model"
	"github.com/prometheus/prometheus/model/labels"
	"github.com/prometheus/prometheus/model/relabel"
	"pgregory.net/rapid"

	"verifharness/internal/ev"
	"verifharness/internal/gen"
)

// C38 — Relabeling follows its documented semantics.
//
// The oracle is a direct interpreter of docs/configuration/configuration.md
// (<relabel_config>) over a Go map, using the standard library regexp ("^(?s:…)$",
// Expand, ReplaceAllString) and crypto/md5; prometheus uses the grafana regexp fork and
// labels.Builder.

type c38Rule struct {
	Action       string
	Source       []string `json:",omitempty"`
	Sep          string
	SepSet       bool // separator given in the config (otherwise default ";")
	Regex        string
	RegexSet     bool // regex given in the config (otherwise the shared default "(.*)")
	Modulus      uint64 `json:",omitempty"`
	Target       string `json:",omitempty"`
	Repl         string
	ReplSet      bool   // replacement given (otherwise default "$1")
	Scheme       string `json:",omitempty"` // "", "legacy", "utf8": per-rule name validation scheme
}

type c38Case struct {
	Scheme string // global scheme: legacy | utf8
	Labels gen.Lset
	Rules  []c38Rule
	Dirty  bool // run on a builder that was used for something else before and then Reset
}

var c38Names = []string{"__name__", "a", "b", "job", "instance", "le", "__meta_a", "__meta_b", "__tmp_x", "A", "a_b", "ü"}
var c38LegacyNames = c38Names[:11]
var c38Values = []string{"a", "b", "ab", "foo", "Foo", "FOO", "foo;bar", "a;b", "1", "10", "x y", "ü", "Ünï", "__meta_a", "a\nb", "$1", "ſtraße", "İ", "a_b", "le", ";", "Σας"}
var c38Seps = []string{";", "", "-", ";;", "ü", "\n", "$", ",", "a"}
var c38Repls = []string{"$1", "${1}", "${1}_x", "$1x", "$$", "$$1", "lit", "", "${name}", "$name", "$2$1", "${2}-${1}", "$0", "${0}", "x${1}y${2}", "$3", "${rest}", "Ü$1", "$1;$2"}
var c38LegacyTargets = []string{"$1", "${1}", "x_${1}", "${1}_${2}", "$name", "${name}_y", "${2}", "a$1"}
var c38UTF8Targets = []string{"$1", "${1}", "x_${1}", "${1}_${2}", "$name", "ü${1}", "${1} ${2}", "$1$2", "${rest}", "$$x", "${0}"}
var c38MapRepls = []string{"$1", "${1}", "x_$1", "${1}_y", "lit", "${1}_${2}", "$name", "a${2}"}
var c38Moduli = []uint64{1, 2, 3, 7, 10, 16, 1000, 1 << 32, 1<<63 + 5, 1<<64 - 1}

func c38Word(t *rapid.T, label string) string {
	if rapid.Bool().Draw(t, label+"isname") {
		return rapid.SampledFrom(c38Names).Draw(t, label+"n")
	}
	return rapid.SampledFrom(c38Values).Draw(t, label+"v")
}

func c38Regex(t *rapid.T) string {
	w1 := regexp.QuoteMeta(c38Word(t, "w1"))
	w2 := regexp.QuoteMeta(c38Word(t, "w2"))
	switch rapid.IntRange(0, 24).Draw(t, "rx") {
	case 0:
		return "(.*)"
	case 1:
		return ".*"
	case 2:
		return ".+"
	case 3:
		return ""
	case 4:
		return w1
	case 5:
		return w1 + "(.*)"
	case 6:
		return "(.*)" + w1
	case 7:
		return "(.+);(.*)"
	case 8:
		return "([^;]*);(.*)"
	case 9:
		return "(?P<name>[^;_]+)[;_]?(?P<rest>.*)"
	case 10:
		return "(" + w1 + "|" + w2 + ")"
	case 11:
		return "(?i)" + w1 + ".*"
	case 12:
		return "__meta_(.+)"
	case 13:
		return "(a)|(b)"
	case 14:
		return "[ab]+"
	case 15:
		return "(.)(.*)"
	case 16:
		return w1 + ";" + w2
	case 17:
		return "(.*)" + regexp.QuoteMeta(rapid.SampledFrom(c38Seps).Draw(t, "rxsep")) + "(.*)"
	case 18:
		return "__(.*)__"
	case 19:
		return "(?i:(" + w1 + "))(.*)"
	case 20:
		return "(.*?)(" + w1 + ")?"
	case 21:
		return "(__.*|" + w1 + ")"
	case 22:
		return w1 + "|" + w2 + "|job|instance"
	default:
		// a small structural pattern from the C17 generator
		var b strings.Builder
		c17Tree(t, 2).render(&b)
		p := b.String()
		if _, err := regexp.Compile("^(?s:" + p + ")$"); err != nil || len(p) > 80 {
			return "(.*)"
		}
		return p
	}
}

func genC38(t *rapid.T) c38Case {
	c := c38Case{Scheme: rapid.SampledFrom([]string{"legacy", "utf8", "utf8"}).Draw(t, "scheme"), Dirty: rapid.IntRange(0, 3).Draw(t, "dirty") == 0}
	nl := rapid.IntRange(0, 8).Draw(t, "nlabels")
	used := map[string]bool{}
	for i := 0; i < nl; i++ {
		n := rapid.SampledFrom(c38Names).Draw(t, "lname")
		if used[n] {
			continue
		}
		used[n] = true
		v := rapid.SampledFrom(c38Values).Draw(t, "lvalue")
		if rapid.IntRange(0, 9).Draw(t, "lempty") == 0 {
			// an input label with an empty value (discovery hands such labels to relabeling):
			// documented to be the same as a missing label
			v = ""
		}
		c.Labels = append(c.Labels, [2]string{n, v})
	}
	sort.Slice(c.Labels, func(i, j int) bool { return c.Labels[i][0] < c.Labels[j][0] })

	// Two cases in three concentrate the rules on two or three "hot" label names, so that chains
	// which clear, clear again, rewrite and then read one label (every order of those) are common.
	var hot []string
	if rapid.IntRange(0, 2).Draw(t, "hot") > 0 {
		for len(hot) < 3 {
			hot = append(hot, rapid.SampledFrom(c38LegacyNames).Draw(t, "hotname"))
		}
	}
	pick := func(list []string, label string) string {
		if len(hot) > 0 && rapid.IntRange(0, 3).Draw(t, label+"hot") > 0 {
			return rapid.SampledFrom(hot).Draw(t, label+"h")
		}
		return rapid.SampledFrom(list).Draw(t, label)
	}
	nr := rapid.IntRange(1, 8).Draw(t, "nrules")
	for i := 0; i < nr; i++ {
		r := c38Rule{Action: rapid.SampledFrom([]string{
			"replace", "replace", "replace", "replace", "keep", "drop", "keepequal", "dropequal", "hashmod",
			"labelmap", "labelmap", "labeldrop", "labelkeep", "lowercase", "uppercase"}).Draw(t, "action")}
		scheme := c.Scheme
		if rapid.IntRange(0, 5).Draw(t, "rscheme") == 0 {
			r.Scheme = rapid.SampledFrom([]string{"legacy", "utf8"}).Draw(t, "rschemev")
			scheme = r.Scheme
		}
		names := c38Names
		if scheme == "legacy" {
			names = c38LegacyNames
		}
		src := func() {
			n := rapid.IntRange(0, 3).Draw(t, "nsrc")
			for j := 0; j < n; j++ {
				r.Source = append(r.Source, pick(c38Names, "src"))
			}
		}
		sep := func() {
			if rapid.IntRange(0, 2).Draw(t, "sepset") == 0 {
				r.SepSet = true
				r.Sep = rapid.SampledFrom(c38Seps).Draw(t, "sep")
			}
		}
		rx := func(pSet int) {
			if rapid.IntRange(0, 9).Draw(t, "rxset") < pSet {
				r.RegexSet = true
				r.Regex = c38Regex(t)
			}
		}
		switch r.Action {
		case "replace":
			src()
			sep()
			rx(7)
			if rapid.IntRange(0, 3).Draw(t, "tmpl") == 0 {
				if scheme == "legacy" {
					r.Target = rapid.SampledFrom(c38LegacyTargets).Draw(t, "ttarget")
				} else {
					r.Target = rapid.SampledFrom(c38UTF8Targets).Draw(t, "ttarget")
				}
			} else {
				r.Target = pick(names, "target")
			}
			if rapid.IntRange(0, 3).Draw(t, "replset") > 0 {
				r.ReplSet = true
				r.Repl = rapid.SampledFrom(c38Repls).Draw(t, "repl")
			}
		case "keep", "drop":
			src()
			sep()
			rx(9)
		case "keepequal", "dropequal":
			src()
			r.Target = pick(names, "target")
		case "hashmod":
			src()
			sep()
			r.Target = pick(names, "target")
			r.Modulus = rapid.SampledFrom(c38Moduli).Draw(t, "mod")
		case "labelmap":
			rx(9)
			r.ReplSet = true
			r.Repl = rapid.SampledFrom(c38MapRepls).Draw(t, "maprepl")
		case "labeldrop", "labelkeep":
			rx(10)
		case "lowercase", "uppercase":
			src()
			sep()
			r.Target = pick(names, "target")
		}
		c.Rules = append(c.Rules, r)
	}
	// Generator self-repair: a labelmap whose replacement yields an empty name, or maps two
	// labels with different values onto one name (the documentation does not say which
	// copy wins), is not a meaningful configuration. Rewrite such cases so that every
	// labelmap produces distinct non-empty names (${0} is the whole source name).
	if c38Simulate(c).badName {
		for i := range c.Rules {
			if c.Rules[i].Action == "labelmap" {
				c.Rules[i].Repl = rapid.SampledFrom([]string{"m_${0}", "${0}_m", "${0}"}).Draw(t, "maprepair")
			}
		}
	}
	return c
}

func c38Simulate(c c38Case) *c38Ref {
	ref := &c38Ref{m: c38Input(c), written: map[string]bool{}}
	for _, rule := range c.Rules {
		if !ref.apply(rule, c.Scheme) {
			break
		}
	}
	return ref
}

func c38Scheme(s string) model.ValidationScheme {
	switch s {
	case "legacy":
		return model.LegacyValidation
	case "utf8":
		return model.UTF8Validation
	}
	return model.UnsetValidation
}

// build turns the serialisable rule into a relabel.Config the way the YAML loader does:
// start from the defaults, override what is given, then Validate.
func (r c38Rule) build(global string) (*relabel.Config, error) {
	cfg := relabel.DefaultRelabelConfig
	cfg.Action = relabel.Action(r.Action)
	for _, s := range r.Source {
		cfg.SourceLabels = append(cfg.SourceLabels, model.LabelName(s))
	}
	if r.SepSet {
		cfg.Separator = r.Sep
	}
	if r.RegexSet {
		re, err := relabel.NewRegexp(r.Regex)
		if err != nil {
			return nil, err
		}
		cfg.Regex = re
	}
	cfg.Modulus = r.Modulus
	cfg.TargetLabel = r.Target
	if r.ReplSet {
		cfg.Replacement = r.Repl
	}
	cfg.NameValidationScheme = c38Scheme(r.Scheme)
	if err := cfg.Validate(c38Scheme(global)); err != nil {
		return nil, err
	}
	return &cfg, nil
}

// ---- reference interpreter ---------------------------------------------------------------------

var c38LegacyName = regexp.MustCompile(`^[a-zA-Z_][a-zA-Z0-9_]*$`)

func c38ValidName(scheme, name string) bool {
	if scheme == "legacy" {
		return c38LegacyName.MatchString(name)
	}
	return name != "" && utf8.ValidString(name)
}

type c38Ref struct {
	m        map[string]string
	written  map[string]bool
	chain    bool
	deletion bool
	badName  bool // a rule produced an empty label name: outside the domain
}

func (s *c38Ref) set(name, value string) {
	old, had := s.m[name]
	if value == "" {
		if had {
			s.deletion = true
			s.written[name] = true
		}
		delete(s.m, name)
		return
	}
	if name == "" {
		s.badName = true
	}
	if !had || old != value {
		s.written[name] = true
	}
	s.m[name] = value
}

func (s *c38Ref) read(names ...string) {
	for _, n := range names {
		if s.written[n] {
			s.chain = true
		}
	}
}

func (s *c38Ref) names() []string {
	out := make([]string, 0, len(s.m))
	for n := range s.m {
		out = append(out, n)
	}
	sort.Strings(out)
	return out
}

// apply interprets one rule; returns false when the target is dropped.
func (s *c38Ref) apply(r c38Rule, global string) bool {
	scheme := r.Scheme
	if scheme == "" {
		scheme = global
	}
	sep := ";"
	if r.SepSet {
		sep = r.Sep
	}
	rx := "(.*)"
	if r.RegexSet {
		rx = r.Regex
	}
	repl := "$1"
	if r.ReplSet {
		repl = r.Repl
	}
	re := regexp.MustCompile("^(?s:" + rx + ")$")
	vals := make([]string, 0, len(r.Source))
	for _, n := range r.Source {
		vals = append(vals, s.m[n]) // labels which do not exist get a blank value
	}
	val := strings.Join(vals, sep)
	switch r.Action {
	case "drop":
		s.read(r.Source...)
		return !re.MatchString(val)
	case "keep":
		s.read(r.Source...)
		return re.MatchString(val)
	case "dropequal":
		s.read(r.Source...)
		s.read(r.Target)
		return s.m[r.Target] != val
	case "keepequal":
		s.read(r.Source...)
		s.read(r.Target)
		return s.m[r.Target] == val
	case "replace":
		s.read(r.Source...)
		idx := re.FindStringSubmatchIndex(val)
		if idx == nil {
			return true // If regex does not match, no replacement takes place.
		}
		target := string(re.ExpandString(nil, r.Target, val, idx))
		if !c38ValidName(scheme, target) {
			return true
		}
		s.set(target, string(re.ExpandString(nil, repl, val, idx)))
	case "lowercase":
		s.read(r.Source...)
		s.set(r.Target, strings.ToLower(val))
	case "uppercase":
		s.read(r.Source...)
		s.set(r.Target, strings.ToUpper(val))
	case "hashmod":
		s.read(r.Source...)
		sum := md5.Sum([]byte(val))
		s.set(r.Target, strconv.FormatUint(binary.BigEndian.Uint64(sum[8:])%r.Modulus, 10))
	case "labelmap":
		names := s.names()
		s.read(names...)
		type kv struct{ n, v string }
		var out []kv
		for _, n := range names {
			if re.MatchString(n) {
				out = append(out, kv{re.ReplaceAllString(n, repl), s.m[n]})
			}
		}
		// "copy the values of the matching labels to label names given by replacement":
		// all copies read the label set as it was before the rule. When two source labels
		// map onto the same new name the documentation does not say which one wins; such
		// a rule is reported through the collision flag and the caller skips the case.
		seen := map[string]string{}
		for _, e := range out {
			if v, dup := seen[e.n]; dup && v != e.v {
				s.badName = true
			}
			seen[e.n] = e.v
		}
		for _, e := range out {
			s.set(e.n, e.v)
		}
	case "labeldrop":
		names := s.names()
		s.read(names...)
		for _, n := range names {
			if re.MatchString(n) {
				s.set(n, "")
			}
		}
	case "labelkeep":
		names := s.names()
		s.read(names...)
		for _, n := range names {
			if !re.MatchString(n) {
				s.set(n, "")
			}
		}
	}
	return true
}

func c38Render(m map[string]string) string {
	names := make([]string, 0, len(m))
	for n := range m {
		names = append(names, n)
	}
	sort.Strings(names)
	var b strings.Builder
	b.WriteByte('{')
	for i, n := range names {
		if i > 0 {
			b.WriteString(", ")
		}
		fmt.Fprintf(&b, "%q=%q", n, m[n])
	}
	b.WriteByte('}')
	return b.String()
}

// c38Compare checks a real result against the reference map: same pairs, strictly
// ascending names, no empty values.
// c38Input is the input label set as the reference sees it: a label with an empty value is the
// same as a missing label (documented in model/labels and in the relabeling documentation).
func c38Input(c c38Case) map[string]string {
	m := map[string]string{}
	for _, p := range c.Labels {
		if p[1] != "" {
			m[p[0]] = p[1]
		}
	}
	return m
}

func c38Compare(got labels.Labels, want map[string]string) string {
	var prev string
	i := 0
	problem := ""
	got.Range(func(l labels.Label) {
		if problem != "" {
			return
		}
		if i > 0 && l.Name <= prev {
			problem = fmt.Sprintf("names not strictly ascending: %q after %q", l.Name, prev)
			return
		}
		if l.Value == "" {
			problem = fmt.Sprintf("empty value for label %q", l.Name)
			return
		}
		if w, ok := want[l.Name]; !ok {
			problem = fmt.Sprintf("unexpected label %q=%q", l.Name, l.Value)
		} else if w != l.Value {
			problem = fmt.Sprintf("label %q=%q, expected %q", l.Name, l.Value, w)
		}
		prev = l.Name
		i++
	})
	if problem == "" && i != len(want) {
		problem = fmt.Sprintf("%d labels, expected %d", i, len(want))
	}
	return problem
}

func runC38(c c38Case, r *ev.Rec) error {
	cfgs := make([]*relabel.Config, 0, len(c.Rules))
	for _, rule := range c.Rules {
		cfg, err := rule.build(c.Scheme)
		if err != nil {
			r.Discard() // generator self-check: the rule does not pass Config.Validate
			return nil
		}
		cfgs = append(cfgs, cfg)
	}
	in := c.Labels.Labels()

	// reference
	ref := &c38Ref{m: c38Input(c), written: map[string]bool{}}
	wantKeep := true
	stepMaps := make([]map[string]string, 0, len(c.Rules))
	for _, rule := range c.Rules {
		if !ref.apply(rule, c.Scheme) {
			wantKeep = false
			break
		}
		cp := make(map[string]string, len(ref.m))
		for k, v := range ref.m {
			cp[k] = v
		}
		stepMaps = append(stepMaps, cp)
	}
	if ref.badName {
		// empty label name or an ambiguous labelmap collision: not a meaningful configuration
		r.Discard()
		return nil
	}
	describe := func() string {
		var b strings.Builder
		fmt.Fprintf(&b, "labels %s scheme %s rules:", c38Render(c.Labels.Map()), c.Scheme)
		for i, rule := range c.Rules {
			fmt.Fprintf(&b, "\n  [%d] %+v", i, rule)
		}
		return b.String()
	}

	// path 1: all rules on one builder
	var lb *labels.Builder
	if c.Dirty {
		lb = labels.NewBuilder(labels.FromStrings("zz", "junk", "a", "junk"))
		lb.Set("b", "junk").Del("zz").Set("__tmp_x", "junk")
		lb.Reset(in)
	} else {
		lb = labels.NewBuilder(in)
	}
	keep := relabel.ProcessBuilder(lb, cfgs...)
	if keep != wantKeep {
		return ev.Failf("ProcessBuilder keep=%v, reference keep=%v\n%s", keep, wantKeep, describe())
	}
	if keep {
		if p := c38Compare(lb.Labels(), ref.m); p != "" {
			return ev.Failf("ProcessBuilder result %s differs from reference %s: %s\n%s", lb.Labels().String(), c38Render(ref.m), p, describe())
		}
	}

	// path 2: rule by rule, materialising the label set in between (what the
	// relabel-steps API and the former relabel.Process do)
	cur := in
	for i, cfg := range cfgs {
		slb := labels.NewBuilder(cur)
		k := relabel.ProcessBuilder(slb, cfg)
		wk := i < len(stepMaps)
		if k != wk {
			return ev.Failf("stepwise: rule %d keep=%v, reference keep=%v\n%s", i, k, wk, describe())
		}
		if !k {
			break
		}
		cur = slb.Labels()
		if p := c38Compare(cur, stepMaps[i]); p != "" {
			return ev.Failf("stepwise: after rule %d result %s differs from reference %s: %s\n%s", i, cur.String(), c38Render(stepMaps[i]), p, describe())
		}
	}
	// the input label set must not have been modified
	if !labels.Equal(in, c.Labels.Labels()) {
		return ev.Failf("input label set was modified: now %s\n%s", in.String(), describe())
	}

	for _, rule := range c.Rules {
		r.Class("action:" + rule.Action)
	}
	if wantKeep {
		r.Class("kept")
	} else {
		r.Class("dropped")
	}
	if ref.chain {
		r.Class("chain")
	}
	if ref.deletion {
		r.Class("deletion")
	}
	if len(ref.written) > 0 {
		r.Class("changed-labels")
	}
	if (len(c.Rules) >= 2 && ref.chain) || ref.deletion {
		r.NonTrivial()
	}
	return nil
}

func TestC38(t *testing.T) {
	ev.Check(t, "C38",
		"0-8 labels over a small name/value alphabet (UTF-8, __ prefixes, fold-sensitive values) and 1-6 rules over all eleven actions built like the YAML loader does (defaults then overrides, Config.Validate; legacy and utf8 name validation, per-rule overrides), with generated source labels, separators, regexes with numbered/named groups (templates plus small structural patterns), replacements/targets with $1 ${1} ${name} $$ and modulus; compared with a map interpreter of the documented actions on stdlib regexp/md5, both through one ProcessBuilder call (fresh or reused builder) and rule by rule with materialised label sets. Non-trivial: >=2 rules where a later rule reads a label changed by an earlier one, or an empty result deletes an existing label; distinct by hash of the case.",
		genC38, runC38)
}
