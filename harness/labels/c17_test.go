package labels

import (
	"regexp"
	"regexp/syntax"
	"strconv"
	"strings"
	"testing"
	"unicode"
	"unicode/utf8"

	"github.com/prometheus/prometheus/model/labels"
	"golang.org/x/text/unicode/norm"
	"pgregory.net/rapid"

	"verifharness/internal/ev"
)

// C17 — Optimized regex matching equals regular-expression semantics.
//
// The oracle is the standard library engine on "^(?s:" + p + ")$" (prometheus itself
// uses the grafana fork plus a stack of string-matcher shortcuts). Patterns are generated
// structurally, so they are always well formed, and are rendered to text; subjects are
// sampled members of the pattern's language plus mutations of them.

type c17Case struct {
	Pattern  string
	Shape    string
	Subjects []string // strconv.Quote form (subjects may be invalid UTF-8)
}

// ---- pattern AST -------------------------------------------------------------------------------

const (
	nLit    = iota // literal text s
	nAny           // '.' with repetition rep ("" "*" "+" "?" "*?" "{2}" "{1,3}")
	nClass         // character class text s with sample members
	nAlt           // alternation of sub
	nCat           // concatenation of sub
	nCap           // ( sub[0] )
	nGroup         // (?: sub[0] )
	nFold          // (?i: sub[0] )
	nNoNL          // (?-s: sub[0] )  -> '.' does not match \n inside
	nRep           // sub[0] rep
	nBegin         // ^
	nEnd           // $
	nEmpty         // empty
	nUnfold        // (?-i: sub[0] )
)

type c17Node struct {
	k       int
	s       string
	rep     string
	sub     []*c17Node
	members []rune
}

func (n *c17Node) render(b *strings.Builder) {
	switch n.k {
	case nLit:
		b.WriteString(regexp.QuoteMeta(n.s))
	case nAny:
		b.WriteString(".")
		b.WriteString(n.rep)
	case nClass:
		b.WriteString(n.s)
	case nAlt:
		for i, s := range n.sub {
			if i > 0 {
				b.WriteByte('|')
			}
			s.render(b)
		}
	case nCat:
		for _, s := range n.sub {
			if s.k == nAlt {
				b.WriteString("(?:")
				s.render(b)
				b.WriteString(")")
			} else {
				s.render(b)
			}
		}
	case nCap:
		b.WriteString("(")
		n.sub[0].render(b)
		b.WriteString(")")
	case nGroup:
		b.WriteString("(?:")
		n.sub[0].render(b)
		b.WriteString(")")
	case nFold:
		b.WriteString("(?i:")
		n.sub[0].render(b)
		b.WriteString(")")
	case nUnfold:
		b.WriteString("(?-i:")
		n.sub[0].render(b)
		b.WriteString(")")
	case nNoNL:
		b.WriteString("(?-s:")
		n.sub[0].render(b)
		b.WriteString(")")
	case nRep:
		c := n.sub[0]
		if c.k == nLit && utf8.RuneCountInString(c.s) == 1 || c.k == nClass || c.k == nCap || c.k == nGroup || c.k == nFold || c.k == nNoNL {
			c.render(b)
		} else {
			b.WriteString("(?:")
			c.render(b)
			b.WriteString(")")
		}
		b.WriteString(n.rep)
	case nBegin:
		b.WriteString("^")
	case nEnd:
		b.WriteString("$")
	case nEmpty:
	}
}

// ---- alphabets ---------------------------------------------------------------------------------

// Runes whose simple case folding orbit is interesting (length-changing folds, three- and
// four-element orbits, title case, characters that only compatibility-normalise to ASCII).
var c17FoldRunes = []rune{
	'k', 'K', 'K', // Kelvin sign
	's', 'S', 'ſ', // long s
	'ß', 'ẞ',
	'σ', 'ς', 'Σ',
	'é', 'É',
	'µ', 'μ', 'Μ',
	'ǅ', 'ǆ', 'Ǆ',
	'İ', 'ı', 'i', 'I',
	'Å', 'å', 'Å',
	'θ', 'ϑ', 'ϴ',
	'β', 'ϐ',
	'ͅ', 'ι', 'Ι',
}

// Runes without case that are related to ASCII only through compatibility normalisation,
// and plain non-ASCII.
var c17OtherRunes = []rune{'ﬁ', '²', 'ａ', 'Ａ', '①', '日', '😀', 'ü', 'Ü', ' ', '́'}

var c17Meta = []rune(`.+*?()|[]{}^$\-`)

func c17Rune(t *rapid.T, label string) rune {
	switch rapid.IntRange(0, 19).Draw(t, label+"rc") {
	case 0, 1:
		return rapid.SampledFrom(c17FoldRunes).Draw(t, label+"fold")
	case 2:
		return rapid.SampledFrom(c17OtherRunes).Draw(t, label+"oth")
	case 3:
		return rapid.SampledFrom(c17Meta).Draw(t, label+"meta")
	case 4:
		return rapid.SampledFrom([]rune{'\n', ' ', '_', ':', '/', '0', '1', '9'}).Draw(t, label+"misc")
	case 5, 6, 7:
		return rapid.SampledFrom([]rune("ABFOKSZ")).Draw(t, label+"up")
	default:
		// small lower-case alphabet: words collide and share prefixes
		return rapid.SampledFrom([]rune("abfoksxz")).Draw(t, label+"lo")
	}
}

func c17Word(t *rapid.T, label string, minLen, maxLen int) string {
	n := rapid.IntRange(minLen, maxLen).Draw(t, label+"len")
	var b strings.Builder
	// plain words are the common case, so that the literal fast paths (which need
	// QuoteMeta(s)==s) are reached
	plain := rapid.IntRange(0, 3).Draw(t, label+"plain") > 0
	for i := 0; i < n; i++ {
		if plain {
			if rapid.IntRange(0, 9).Draw(t, label+"sp") == 0 {
				b.WriteRune(rapid.SampledFrom(c17FoldRunes).Draw(t, label+"pf"))
			} else {
				b.WriteRune(rapid.SampledFrom([]rune("abfoksxzABKS01-_")).Draw(t, label+"pl"))
			}
		} else {
			b.WriteRune(c17Rune(t, label))
		}
	}
	return b.String()
}

func c17Orbit(r rune) []rune {
	out := []rune{r}
	for f := unicode.SimpleFold(r); f != r; f = unicode.SimpleFold(f) {
		out = append(out, f)
	}
	return out
}

// ---- structural generator ----------------------------------------------------------------------

func c17Any(t *rapid.T, label string) *c17Node {
	rep := rapid.SampledFrom([]string{"*", "*", "*", "+", "+", "?", "", "*?", "+?", "{2}", "{1,3}", "{0,1}"}).Draw(t, label+"anyrep")
	n := &c17Node{k: nAny, rep: rep}
	if rapid.IntRange(0, 5).Draw(t, label+"nonl") == 0 {
		return &c17Node{k: nNoNL, sub: []*c17Node{n}}
	}
	return n
}

type c17ClassDef struct {
	text    string
	members []rune
}

var c17Classes = []c17ClassDef{
	{"[ab]", []rune("ab")},
	{"[a-c]", []rune("abc")},
	{"[xyz]", []rune("xyz")},
	{"[0-9]", []rune("0159")},
	{`\d`, []rune("07")},
	{`\w`, []rune("aZ_5")},
	{`\s`, []rune(" \n\t")},
	{`[^a]`, []rune("bA\nſ日")},
	{`[^\n]`, []rune("ab ſ")},
	{`[a-zA-Z]`, []rune("akKzZ")},
	{`[[:alpha:]]`, []rune("aZk")},
	{`[kK]`, []rune("kK")},
	{`[ks]`, []rune("ks")},
	{`[ſs]`, []rune("ſs")},
	{`[a-fσ]`, []rune("afσ")},
	{`\pL`, []rune("aſ日σ")},
	{`[\x{212a}k]`, []rune("kK")},
	{`\D`, []rune("a\n-")},
	{`[-_]`, []rune("-_")},
}

func c17Class(t *rapid.T, label string) *c17Node {
	d := rapid.SampledFrom(c17Classes).Draw(t, label+"class")
	return &c17Node{k: nClass, s: d.text, members: d.members}
}

func c17Lit(t *rapid.T, label string, maxLen int) *c17Node {
	return &c17Node{k: nLit, s: c17Word(t, label, 1, maxLen)}
}

// c17Tree draws a generic tree.
func c17Tree(t *rapid.T, depth int) *c17Node {
	max := 12
	if depth <= 0 {
		max = 4
	}
	switch rapid.IntRange(0, max).Draw(t, "kind") {
	case 0, 1:
		return c17Lit(t, "l", 5)
	case 2:
		return c17Any(t, "a")
	case 3:
		return c17Class(t, "c")
	case 4:
		switch rapid.IntRange(0, 5).Draw(t, "leaf") {
		case 0:
			return &c17Node{k: nEmpty}
		case 1:
			return &c17Node{k: nBegin}
		case 2:
			return &c17Node{k: nEnd}
		default:
			return c17Lit(t, "l", 2)
		}
	case 5, 6:
		n := rapid.IntRange(2, 4).Draw(t, "nalt")
		a := &c17Node{k: nAlt}
		for i := 0; i < n; i++ {
			a.sub = append(a.sub, c17Tree(t, depth-1))
		}
		// an alternation always lives in a group so that it can be concatenated
		if rapid.Bool().Draw(t, "altcap") {
			return &c17Node{k: nCap, sub: []*c17Node{a}}
		}
		return &c17Node{k: nGroup, sub: []*c17Node{a}}
	case 7, 8, 9:
		n := rapid.IntRange(2, 5).Draw(t, "ncat")
		c := &c17Node{k: nCat}
		for i := 0; i < n; i++ {
			c.sub = append(c.sub, c17Tree(t, depth-1))
		}
		return c
	case 10:
		return &c17Node{k: nCap, sub: []*c17Node{c17Tree(t, depth-1)}}
	case 11:
		k := rapid.SampledFrom([]int{nFold, nFold, nFold, nUnfold, nNoNL}).Draw(t, "flag")
		return &c17Node{k: k, sub: []*c17Node{c17Tree(t, depth-1)}}
	default:
		rep := rapid.SampledFrom([]string{"*", "+", "?", "{2}", "{0,2}", "{1,2}", "*?"}).Draw(t, "rep")
		return &c17Node{k: nRep, rep: rep, sub: []*c17Node{c17Tree(t, depth-1)}}
	}
}

// c17Words draws n distinct-ish words; with `family` they share a common stem so that the
// prefix map of the multi-matcher gets several entries per key.
func c17Words(t *rapid.T, n int) []string {
	family := rapid.IntRange(0, 3).Draw(t, "family") == 0
	stem := ""
	if family {
		stem = c17Word(t, "stem", 1, 4)
	}
	minLen := 1
	if n > 30 {
		minLen = 2
	}
	out := make([]string, 0, n)
	for i := 0; i < n; i++ {
		w := stem + c17Word(t, "w", minLen, 6)
		if n > 40 {
			// make large sets cheap to draw yet distinct
			w += strconv.Itoa(i)
		}
		out = append(out, w)
	}
	return out
}

func c17AltCount(t *rapid.T) int {
	switch rapid.IntRange(0, 9).Draw(t, "altsize") {
	case 0:
		return 1
	case 1, 2, 3, 4:
		return rapid.IntRange(2, 6).Draw(t, "nsmall")
	case 5, 6, 7:
		return rapid.IntRange(14, 40).Draw(t, "nmid")
	case 8:
		return rapid.IntRange(250, 262).Draw(t, "nedge") // around maxSetMatches
	default:
		return rapid.IntRange(41, 300).Draw(t, "nbig")
	}
}

// c17Shape draws the top level of the pattern, biased towards the forms the optimizer
// special-cases.
func c17Shape(t *rapid.T) (*c17Node, string) {
	wrapFold := func(n *c17Node) *c17Node {
		switch rapid.IntRange(0, 5).Draw(t, "wrapfold") {
		case 0, 1:
			return &c17Node{k: nFold, sub: []*c17Node{n}}
		case 2:
			return &c17Node{k: nFold, sub: []*c17Node{{k: nCap, sub: []*c17Node{n}}}}
		default:
			return n
		}
	}
	switch rapid.IntRange(0, 11).Draw(t, "shape") {
	case 0, 1:
		// a|b|c — plain literal alternation, optionally grouped / case-insensitive
		n := c17AltCount(t)
		a := &c17Node{k: nAlt}
		for _, w := range c17Words(t, n) {
			a.sub = append(a.sub, &c17Node{k: nLit, s: w})
		}
		if rapid.IntRange(0, 7).Draw(t, "emptyalt") == 0 {
			a.sub = append(a.sub, &c17Node{k: nEmpty})
		}
		switch rapid.IntRange(0, 4).Draw(t, "litaltwrap") {
		case 0:
			return a, "litalt"
		case 1:
			return &c17Node{k: nCap, sub: []*c17Node{a}}, "litalt"
		default:
			return wrapFold(a), "litalt-ci?"
		}
	case 2:
		// alternation whose members carry wildcards: x.*, .*x, .*x.*, x.+, x.?, mixed
		n := c17AltCount(t)
		if n > 80 {
			n = 80
		}
		mode := rapid.IntRange(0, 5).Draw(t, "wildmode")
		a := &c17Node{k: nAlt}
		for i, w := range c17Words(t, n) {
			lit := &c17Node{k: nLit, s: w}
			m := mode
			if mode == 5 {
				m = rapid.IntRange(0, 4).Draw(t, "wildmix")
			}
			_ = i
			var c *c17Node
			switch m {
			case 0:
				c = &c17Node{k: nCat, sub: []*c17Node{lit, c17Any(t, "wa")}}
			case 1:
				c = &c17Node{k: nCat, sub: []*c17Node{c17Any(t, "wa"), lit}}
			case 2:
				c = &c17Node{k: nCat, sub: []*c17Node{{k: nAny, rep: "*"}, lit, {k: nAny, rep: "*"}}}
			case 3:
				c = &c17Node{k: nCat, sub: []*c17Node{c17Any(t, "wa"), lit, c17Any(t, "wb")}}
			default:
				c = lit
			}
			a.sub = append(a.sub, c)
		}
		if mode == 2 && rapid.Bool().Draw(t, "bare") {
			return a, "wildalt"
		}
		return wrapFold(a), "wildalt"
	case 3, 4, 5:
		// concatenation of literals and wildcards: prefix / suffix / contains paths
		n := rapid.IntRange(2, 7).Draw(t, "ncat")
		c := &c17Node{k: nCat}
		for i := 0; i < n; i++ {
			var p *c17Node
			switch rapid.IntRange(0, 11).Draw(t, "piece") {
			case 0, 1, 2, 3:
				p = c17Lit(t, "cl", 5)
			case 4, 5, 6, 7:
				p = c17Any(t, "ca")
			case 8:
				p = c17Class(t, "cc")
			case 9:
				p = &c17Node{k: nFold, sub: []*c17Node{c17Lit(t, "cf", 4)}}
			case 10:
				a := &c17Node{k: nAlt}
				for _, w := range c17Words(t, rapid.IntRange(2, 4).Draw(t, "ncalt")) {
					a.sub = append(a.sub, &c17Node{k: nLit, s: w})
				}
				p = &c17Node{k: nCap, sub: []*c17Node{a}}
			default:
				p = c17Tree(t, 1)
			}
			if rapid.IntRange(0, 5).Draw(t, "cap") == 0 {
				p = &c17Node{k: nCap, sub: []*c17Node{p}}
				if rapid.IntRange(0, 3).Draw(t, "cap2") == 0 {
					p = &c17Node{k: nCap, sub: []*c17Node{p}}
				}
			}
			c.sub = append(c.sub, p)
		}
		var out *c17Node = c
		switch rapid.IntRange(0, 9).Draw(t, "catwrap") {
		case 0:
			out = &c17Node{k: nCat, sub: append([]*c17Node{{k: nBegin}}, c.sub...)}
		case 1:
			out = &c17Node{k: nCat, sub: append(append([]*c17Node{}, c.sub...), &c17Node{k: nEnd})}
		case 2:
			out = &c17Node{k: nCap, sub: []*c17Node{c}}
		}
		return wrapFold(out), "concat"
	case 6, 7:
		// finite sets: lit (a|b) [xy] lit …
		n := rapid.IntRange(1, 4).Draw(t, "nset")
		c := &c17Node{k: nCat}
		for i := 0; i < n; i++ {
			switch rapid.IntRange(0, 4).Draw(t, "setpiece") {
			case 0, 1:
				c.sub = append(c.sub, c17Lit(t, "sl", 4))
			case 2:
				c.sub = append(c.sub, c17Class(t, "sc"))
			default:
				a := &c17Node{k: nAlt}
				for _, w := range c17Words(t, rapid.IntRange(2, 18).Draw(t, "nsalt")) {
					a.sub = append(a.sub, &c17Node{k: nLit, s: w})
				}
				if rapid.IntRange(0, 5).Draw(t, "sempty") == 0 {
					a.sub = append(a.sub, &c17Node{k: nEmpty})
				}
				var g *c17Node = &c17Node{k: nCap, sub: []*c17Node{a}}
				if rapid.IntRange(0, 4).Draw(t, "sfold") == 0 {
					g = &c17Node{k: nFold, sub: []*c17Node{g}}
				}
				c.sub = append(c.sub, g)
			}
		}
		if len(c.sub) == 1 {
			return wrapFold(c.sub[0]), "set"
		}
		return wrapFold(c), "set"
	case 8:
		// a single leaf: bare wildcard, class, literal, empty
		switch rapid.IntRange(0, 4).Draw(t, "single") {
		case 0:
			return c17Any(t, "one"), "single"
		case 1:
			return c17Class(t, "one"), "single"
		case 2:
			return &c17Node{k: nEmpty}, "single"
		default:
			return wrapFold(c17Lit(t, "one", 8)), "single"
		}
	default:
		return c17Tree(t, 3), "tree"
	}
}

// ---- subject sampling --------------------------------------------------------------------------

func c17Filler(t *rapid.T, label string, min, max int) string {
	n := rapid.IntRange(min, max).Draw(t, label+"n")
	var b strings.Builder
	for i := 0; i < n; i++ {
		b.WriteRune(c17Rune(t, label))
	}
	return b.String()
}

// c17Sample draws a string that is (best effort) in the language of n.
func c17Sample(t *rapid.T, n *c17Node, fold bool) string {
	switch n.k {
	case nLit:
		if !fold || rapid.Bool().Draw(t, "keepcase") {
			return n.s
		}
		var b strings.Builder
		for _, r := range n.s {
			o := c17Orbit(r)
			b.WriteRune(o[rapid.IntRange(0, len(o)-1).Draw(t, "orb")])
		}
		return b.String()
	case nAny:
		switch n.rep {
		case "":
			return c17Filler(t, "f", 1, 1)
		case "?", "{0,1}":
			return c17Filler(t, "f", 0, 1)
		case "+", "+?":
			return c17Filler(t, "f", 1, 4)
		case "{2}":
			return c17Filler(t, "f", 2, 2)
		case "{1,3}":
			return c17Filler(t, "f", 1, 3)
		default:
			return c17Filler(t, "f", 0, 4)
		}
	case nClass:
		return string(n.members[rapid.IntRange(0, len(n.members)-1).Draw(t, "member")])
	case nAlt:
		return c17Sample(t, n.sub[rapid.IntRange(0, len(n.sub)-1).Draw(t, "pickalt")], fold)
	case nCat:
		var b strings.Builder
		for _, s := range n.sub {
			b.WriteString(c17Sample(t, s, fold))
		}
		return b.String()
	case nCap, nGroup, nNoNL:
		return c17Sample(t, n.sub[0], fold)
	case nFold:
		return c17Sample(t, n.sub[0], true)
	case nUnfold:
		return c17Sample(t, n.sub[0], false)
	case nRep:
		lo, hi := 0, 2
		switch n.rep {
		case "+":
			lo, hi = 1, 3
		case "?":
			hi = 1
		case "{2}":
			lo, hi = 2, 2
		case "{1,2}":
			lo = 1
		}
		k := rapid.IntRange(lo, hi).Draw(t, "times")
		var b strings.Builder
		for i := 0; i < k; i++ {
			b.WriteString(c17Sample(t, n.sub[0], fold))
		}
		return b.String()
	}
	return ""
}

var c17Compat = [][2]string{{"fi", "ﬁ"}, {"k", "K"}, {"K", "K"}, {"s", "ſ"}, {"S", "ſ"}, {"2", "²"}, {"a", "ａ"}, {"A", "Ａ"}, {"1", "①"}, {"σ", "ς"}, {"ss", "ß"}, {"å", "Å"}, {"i", "İ"}, {"i", "ı"}, {"é", "é"}}

func c17Mutate(t *rapid.T, s string) string {
	rs := []rune(s)
	pos := func(label string, extra int) int {
		return rapid.IntRange(0, len(rs)-1+extra).Draw(t, label)
	}
	switch rapid.IntRange(0, 15).Draw(t, "mut") {
	case 0, 1, 2:
		return s
	case 3:
		if len(rs) == 0 {
			return s
		}
		i := pos("flipat", 0)
		o := c17Orbit(rs[i])
		rs[i] = o[rapid.IntRange(0, len(o)-1).Draw(t, "flipto")]
		return string(rs)
	case 4:
		if rapid.Bool().Draw(t, "upper") {
			return strings.ToUpper(s)
		}
		return strings.ToLower(s)
	case 5:
		i := pos("nlat", 1)
		return string(rs[:i]) + "\n" + string(rs[i:])
	case 6:
		// chop bytes (may cut a rune in half)
		k := rapid.IntRange(1, 3).Draw(t, "chop")
		if k > len(s) {
			return ""
		}
		if rapid.Bool().Draw(t, "chopfront") {
			return s[k:]
		}
		return s[:len(s)-k]
	case 7:
		r := string(c17Rune(t, "add"))
		if rapid.Bool().Draw(t, "addfront") {
			return r + s
		}
		return s + r
	case 8:
		return ""
	case 9:
		if len(rs) == 0 {
			return s
		}
		rs[pos("replat", 0)] = c17Rune(t, "repl")
		return string(rs)
	case 10:
		return s + s
	case 11:
		return c17Filler(t, "rnd", 0, 6)
	case 12:
		c := rapid.SampledFrom(c17Compat).Draw(t, "compat")
		if rapid.Bool().Draw(t, "compatall") {
			return strings.ReplaceAll(s, c[0], c[1])
		}
		return strings.Replace(s, c[0], c[1], 1)
	case 13:
		if len(rs) == 0 {
			return s
		}
		i := pos("delat", 0)
		return string(rs[:i]) + string(rs[i+1:])
	case 14:
		i := pos("insat", 1)
		return string(rs[:i]) + c17Filler(t, "ins", 1, 3) + string(rs[i:])
	default:
		return s + rapid.SampledFrom([]string{"\xff", "\xfe", "\xc3", "\n"}).Draw(t, "bad")
	}
}

func genC17(t *rapid.T) c17Case {
	root, shape := c17Shape(t)
	if rapid.IntRange(0, 11).Draw(t, "globalfold") == 0 {
		// leading (?i) flag instead of a group
		var b strings.Builder
		b.WriteString("(?i)")
		root.render(&b)
		c := c17Case{Pattern: b.String(), Shape: shape + "+(?i)"}
		c.Subjects = c17Subjects(t, root, true)
		return c
	}
	var b strings.Builder
	root.render(&b)
	c := c17Case{Pattern: b.String(), Shape: shape}
	c.Subjects = c17Subjects(t, root, false)
	return c
}

func c17Subjects(t *rapid.T, root *c17Node, fold bool) []string {
	n := rapid.IntRange(6, 12).Draw(t, "nsubj")
	out := make([]string, 0, n)
	for i := 0; i < n; i++ {
		s := c17Sample(t, root, fold)
		s = c17Mutate(t, s)
		if rapid.IntRange(0, 9).Draw(t, "mut2") == 0 {
			s = c17Mutate(t, s)
		}
		out = append(out, strconv.Quote(s))
	}
	return out
}

// ---- oracle ------------------------------------------------------------------------------------

func runC17(c c17Case, r *ev.Rec) error {
	p := c.Pattern
	if !utf8.ValidString(p) {
		r.Discard()
		return nil
	}
	std, serr := regexp.Compile("^(?s:" + p + ")$")
	m, err := labels.NewFastRegexMatcher(p)
	if err != nil {
		// not accepted by label matchers: outside the property
		r.Class("rejected")
		return nil
	}
	if serr != nil {
		// accepted by prometheus but the reference engine cannot compile it: no oracle
		r.Discard()
		return nil
	}
	pos, perr := labels.NewMatcher(labels.MatchRegexp, "l", p)
	neg, nerr := labels.NewMatcher(labels.MatchNotRegexp, "l", p)
	if perr != nil || nerr != nil {
		return ev.Failf("pattern %q: NewFastRegexMatcher accepts but NewMatcher fails: %v / %v", p, perr, nerr)
	}
	if pos.GetRegexString() != p || m.GetRegexString() != p {
		return ev.Failf("pattern %q: GetRegexString returns %q / %q", p, m.GetRegexString(), pos.GetRegexString())
	}

	subjects := make([]string, 0, len(c.Subjects))
	for _, q := range c.Subjects {
		s, uerr := strconv.Unquote(q)
		if uerr != nil {
			r.Discard()
			return nil
		}
		subjects = append(subjects, s)
	}

	set := m.SetMatches()
	inSet := map[string]bool{}
	for _, s := range set {
		inSet[s] = true
	}
	mset := pos.SetMatches()
	if len(mset) != len(set) {
		return ev.Failf("pattern %q: FastRegexMatcher.SetMatches has %d entries, Matcher.SetMatches %d", p, len(set), len(mset))
	}
	for _, s := range mset {
		if !inSet[s] {
			return ev.Failf("pattern %q: Matcher.SetMatches contains %q, FastRegexMatcher.SetMatches does not", p, s)
		}
	}
	// every member of the exposed set is itself a subject: it must match
	nGenerated := len(subjects)
	subjects = append(subjects, set...)

	matched, unmatched := 0, 0
	for i, s := range subjects {
		want := std.MatchString(s)
		got := m.MatchString(s)
		if got != want {
			return c17Fail(p, s, "FastRegexMatcher.MatchString", got, want, false, m, set)
		}
		if g := pos.Matches(s); g != want {
			return c17Fail(p, s, "Matcher(=~).Matches", g, want, false, m, set)
		}
		if g := neg.Matches(s); g != !want {
			return c17Fail(p, s, "Matcher(!~).Matches", g, !want, true, m, set)
		}
		if len(set) > 0 && inSet[s] != want {
			return ev.Failf("pattern %q subject %q: in SetMatches=%v but the anchored expression matches=%v (set size %d)", p, s, inSet[s], want, len(set))
		}
		if i < nGenerated {
			if want {
				matched++
			} else {
				unmatched++
			}
			if strings.Contains(s, "\n") {
				r.Class("subject-with-newline")
			}
			if !utf8.ValidString(s) {
				r.Class("subject-invalid-utf8")
			}
		}
	}
	r.Count("subjects", nGenerated)
	r.Count("subjects-matching", matched)
	r.Class("shape:" + c.Shape)
	if len(set) > 0 {
		r.Class("setmatches")
		if len(set) >= 16 {
			r.Class("setmatches>=16")
		}
	}
	if strings.Contains(p, "(?i") {
		r.Class("case-insensitive")
	}
	if strings.Contains(p, "(?-s") {
		r.Class("dot-not-newline")
	}
	if n := strings.Count(p, "|"); n >= 15 {
		r.Class("alternation>=16")
	}
	opt := pos.IsRegexOptimized()
	if opt {
		r.Class("optimized")
	} else {
		r.Class("not-optimized")
	}
	if opt && matched > 0 && unmatched > 0 {
		r.NonTrivial()
	}
	return nil
}

// Known root cause "ci-multi-map-fold-key": a case-insensitive alternation of >= 16
// literals is matched through a map keyed by lower(NFKD(s)), which is not the simple case
// folding of the regexp engine. It loses members of fold orbits on which unicode.ToLower is
// not constant (ς/σ/Σ, ι/Ι/U+0345) and identifies compatibility look-alikes (ﬁ~fi, ²~2,
// é~e+U+0301). The signature is attached only when the input can reach that map (case
// insensitive, >= 16 alternatives) and carries a rune on which the two foldings disagree.
const c17SigFoldKey = "ci-multi-map-fold-key"

func c17FoldKey(s string) string {
	return strings.Map(unicode.ToLower, norm.NFKD.String(s))
}

// c17FoldKeyUnstable reports whether lower(NFKD(r)) fails to be a canonical representative
// of r's simple-folding orbit.
func c17FoldKeyUnstable(r rune) bool {
	if r < utf8.RuneSelf || r == utf8.RuneError {
		return false
	}
	key := c17FoldKey(string(r))
	kr := []rune(key)
	if len(kr) != 1 {
		return true
	}
	inOrbit := false
	for _, o := range c17Orbit(r) {
		if c17FoldKey(string(o)) != key {
			return true
		}
		if o == kr[0] {
			inOrbit = true
		}
	}
	return !inOrbit
}

// c17MinFold maps every rune to the smallest member of its folding orbit, the form in
// which the parser stores a case-insensitive literal.
func c17MinFold(s string) string {
	return strings.Map(func(r rune) rune {
		m := r
		for _, o := range c17Orbit(r) {
			if o < m {
				m = o
			}
		}
		return m
	}, s)
}

// c17IsFoldKeyCase: got/want are the values of the positive match.
func c17IsFoldKeyCase(p, s string, got, want bool) bool {
	if !strings.Contains(p, "(?i") {
		return false
	}
	if want && !got {
		// lost member: the subject and the stored (min-fold) form of the literal it equals
		// under simple folding get different map keys
		return c17FoldKey(s) != c17FoldKey(c17MinFold(s))
	}
	// spurious member: some rune only compatibility-normalises into another orbit
	for _, r := range p + s {
		if c17FoldKeyUnstable(r) {
			return true
		}
	}
	return false
}

// Known root cause "merged-charclass-fold-flag": the parser merges single-rune
// alternatives into one character class that keeps the FoldCase flag of the first
// alternative (`(?i:a)|b` -> [Aab] flagged case-insensitive); findSetMatches then matches
// the whole class with EqualFold, widening the case-sensitive member ("B" matches). The
// signature is attached only to a spurious match of a pattern whose syntax tree (standard
// library parser, same flags) holds a FoldCase class of <= 256 runes that is not closed
// under simple folding.
const c17SigMergedClass = "merged-charclass-fold-flag"

func c17HasUnclosedFoldClass(re *syntax.Regexp) bool {
	if re.Op == syntax.OpCharClass && re.Flags&syntax.FoldCase != 0 {
		total := 0
		for i := 0; i+1 < len(re.Rune); i += 2 {
			total += int(re.Rune[i+1]-re.Rune[i]) + 1
			if total > 256 {
				break
			}
		}
		if total <= 256 {
			in := func(r rune) bool {
				for i := 0; i+1 < len(re.Rune); i += 2 {
					if re.Rune[i] <= r && r <= re.Rune[i+1] {
						return true
					}
				}
				return false
			}
			for i := 0; i+1 < len(re.Rune); i += 2 {
				for r := re.Rune[i]; r <= re.Rune[i+1]; r++ {
					for _, o := range c17Orbit(r) {
						if !in(o) {
							return true
						}
					}
				}
			}
		}
	}
	for _, sub := range re.Sub {
		if c17HasUnclosedFoldClass(sub) {
			return true
		}
	}
	return false
}

func c17IsMergedClassCase(p string) bool {
	re, err := syntax.Parse(p, syntax.Perl|syntax.DotNL)
	if err != nil {
		return false
	}
	return c17HasUnclosedFoldClass(re)
}

// Known root cause "ci-prefix-map-byte-slice": a case-insensitive alternation with >= 16
// literal-prefix members (`(?i:k.*|l0.*|…)`) looks the subject up in a prefix map with
// s[:minPrefixLen], i.e. slices the subject by the byte length of the shortest pattern
// prefix. Under case folding the subject's prefix can have another byte length (U+212A
// KELVIN SIGN is 3 bytes and folds with k, U+017F LONG S is 2 bytes and folds with s), the
// slice cuts a rune and the member is lost. The signature is attached only to a lost match
// of a case-insensitive pattern with a wildcard and >= 16 alternatives when the subject or
// the pattern holds a rune whose fold orbit mixes UTF-8 lengths.
const c17SigPrefixSlice = "ci-prefix-map-byte-slice"

func c17OrbitMixesLengths(r rune) bool {
	if r == utf8.RuneError {
		return false
	}
	n := utf8.RuneLen(r)
	for _, o := range c17Orbit(r) {
		if utf8.RuneLen(o) != n {
			return true
		}
	}
	return false
}

func c17IsPrefixSliceCase(p, s string) bool {
	if !strings.Contains(p, "(?i") || !strings.Contains(p, ".") || strings.Count(p, "|") < 15 {
		return false
	}
	for _, r := range p + s {
		if c17OrbitMixesLengths(r) {
			return true
		}
	}
	return false
}

func c17Fail(p, s, what string, got, want, negated bool, m *labels.FastRegexMatcher, set []string) error {
	msg := "pattern %q subject %q: %s=%v, but regexp ^(?s:…)$ says %v (optimized=%v, %d set matches)"
	pg, pw := got, want
	if negated {
		pg, pw = !got, !want
	}
	if c17IsFoldKeyCase(p, s, pg, pw) {
		return ev.FailSig(c17SigFoldKey, msg, p, s, what, got, want, m.IsOptimized(), len(set))
	}
	if pg && !pw && c17IsMergedClassCase(p) {
		return ev.FailSig(c17SigMergedClass, msg, p, s, what, got, want, m.IsOptimized(), len(set))
	}
	if !pg && pw && c17IsPrefixSliceCase(p, s) {
		return ev.FailSig(c17SigPrefixSlice, msg, p, s, what, got, want, m.IsOptimized(), len(set))
	}
	return ev.Failf(msg, p, s, what, got, want, m.IsOptimized(), len(set))
}

func TestC17(t *testing.T) {
	ev.Check(t, "C17",
		"regex AST drawn structurally (literal alternations 1-300 wide incl. folding runes ſ K ß σ ǅ İ, wildcard-decorated alternations, literal/wildcard concatenations with captures and (?i:)/(?-s:) groups, finite sets, generic trees with classes, repeats and anchors) rendered to text; 6-12 subjects sampled from the pattern's language then mutated (case flips through the fold orbit, newline insertion, byte chops, compat look-alikes, invalid UTF-8); every exposed SetMatches entry is an extra subject. Compared with stdlib regexp ^(?s:p)$ via FastRegexMatcher.MatchString, Matcher =~ and !~, and SetMatches membership. Non-trivial: Matcher.IsRegexOptimized() and both a matching and a non-matching generated subject; distinct by hash of the case.",
		genC17, runC17)
}
