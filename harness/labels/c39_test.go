package labels

import (
	"bytes"
	"encoding/json"
	"errors"
	"fmt"
	"os"
	"sort"
	"strconv"
	"strings"
	"testing"

	"github.com/cespare/xxhash/v2"
	"github.com/prometheus/prometheus/model/labels"
	"pgregory.net/rapid"

	"verifharness/internal/ev"
)

// C39 — Label sets behave as canonical sorted maps in every build.
//
// The same test is compiled under the three label implementations (default stringlabels,
// -tags slicelabels, -tags dedupelabels). Each one is compared with a plain sorted
// (name,value) list / Go map reference, and StableHash with an independent computation
// anchored by pinned constants, which makes the variants agree with each other.

// bstr is a string that survives JSON even when it is not valid UTF-8.
type bstr string

func (b bstr) MarshalJSON() ([]byte, error) {
	return json.Marshal(strconv.QuoteToASCII(string(b)))
}

func (b *bstr) UnmarshalJSON(d []byte) error {
	var q string
	if err := json.Unmarshal(d, &q); err != nil {
		return err
	}
	s, err := strconv.Unquote(q)
	*b = bstr(s)
	return err
}

// c39Str is Lit followed by Pad filler bytes, so that 64 KiB strings stay small in JSON.
type c39Str struct {
	Lit bstr
	Pad int `json:",omitempty"`
}

func (s c39Str) String() string {
	if s.Pad == 0 {
		return string(s.Lit)
	}
	return string(s.Lit) + strings.Repeat("x", s.Pad)
}

type c39Op struct {
	K  string
	I  int   `json:",omitempty"` // source slot
	J  int   `json:",omitempty"` // destination slot
	N  []int `json:",omitempty"` // name indexes
	V  []int `json:",omitempty"` // value indexes (parallel to N where it applies)
	On bool  `json:",omitempty"`
	X  int   `json:",omitempty"` // variant selector
}

type c39Case struct {
	Names   []c39Str // distinct, non-empty
	Values  []c39Str // Values[0] is ""
	Prefill int      // symbols put into the shared symbol table before the ops
	Ops     []c39Op
}

const c39Slots = 4

// ---- reference ---------------------------------------------------------------------------------

type c39Pair struct{ n, v string }
type c39Ref []c39Pair // sorted by name

func c39FromMap(m map[string]string) c39Ref {
	out := make(c39Ref, 0, len(m))
	for n, v := range m {
		out = append(out, c39Pair{n, v})
	}
	sort.Slice(out, func(i, j int) bool { return out[i].n < out[j].n })
	return out
}

func (r c39Ref) toMap() map[string]string {
	m := make(map[string]string, len(r))
	for _, p := range r {
		m[p.n] = p.v
	}
	return m
}

func (r c39Ref) hasEmpty() bool {
	for _, p := range r {
		if p.v == "" {
			return true
		}
	}
	return false
}

func (r c39Ref) filter(keep func(c39Pair) bool) c39Ref {
	out := c39Ref{}
	for _, p := range r {
		if keep(p) {
			out = append(out, p)
		}
	}
	return out
}

func c39RefEqual(a, b c39Ref) bool {
	if len(a) != len(b) {
		return false
	}
	for i := range a {
		if a[i] != b[i] {
			return false
		}
	}
	return true
}

// lexicographic on (name,value) pairs; a proper prefix is smaller
func c39RefCompare(a, b c39Ref) int {
	for i := 0; i < len(a) && i < len(b); i++ {
		if c := strings.Compare(a[i].n, b[i].n); c != 0 {
			return c
		}
		if c := strings.Compare(a[i].v, b[i].v); c != 0 {
			return c
		}
	}
	switch {
	case len(a) < len(b):
		return -1
	case len(a) > len(b):
		return 1
	}
	return 0
}

func c39LegacyName(s string) bool {
	if s == "" {
		return false
	}
	for i := 0; i < len(s); i++ {
		c := s[i]
		if !(c == '_' || (c >= 'a' && c <= 'z') || (c >= 'A' && c <= 'Z') || (i > 0 && c >= '0' && c <= '9')) {
			return false
		}
	}
	return true
}

func (r c39Ref) String() string {
	var b strings.Builder
	b.WriteByte('{')
	for i, p := range r {
		if i > 0 {
			b.WriteString(", ")
		}
		if c39LegacyName(p.n) {
			b.WriteString(p.n)
		} else {
			b.WriteString(strconv.Quote(p.n))
		}
		b.WriteByte('=')
		b.WriteString(strconv.Quote(p.v))
	}
	b.WriteByte('}')
	return b.String()
}

func (r c39Ref) short() string {
	s := r.String()
	if len(s) > 300 {
		return s[:300] + fmt.Sprintf("...(%d bytes)", len(s))
	}
	return s
}

// the stable hash as documented: xxhash over name 0xff value 0xff for every label in order
func (r c39Ref) stableHash() uint64 {
	h := xxhash.New()
	for _, p := range r {
		_, _ = h.WriteString(p.n)
		_, _ = h.Write([]byte{0xff})
		_, _ = h.WriteString(p.v)
		_, _ = h.Write([]byte{0xff})
	}
	return h.Sum64()
}

func (r c39Ref) sepFree() bool {
	for _, p := range r {
		if strings.IndexByte(p.n, 0xff) >= 0 || strings.IndexByte(p.n, 0xfe) >= 0 || strings.IndexByte(p.v, 0xff) >= 0 || strings.IndexByte(p.v, 0xfe) >= 0 {
			return false
		}
	}
	return true
}

// build constructs the set through a ScratchBuilder (cheap under dedupelabels, where
// New allocates a whole symbol table per call).
func (r c39Ref) build(sb *labels.ScratchBuilder) labels.Labels {
	sb.Reset()
	for _, p := range r {
		sb.Add(p.n, p.v)
	}
	return sb.Labels()
}

func (r c39Ref) labelsNew() labels.Labels {
	ls := make([]labels.Label, 0, len(r))
	for _, p := range r {
		ls = append(ls, labels.Label{Name: p.n, Value: p.v})
	}
	return labels.New(ls...)
}

func c39Sign(x int) int {
	switch {
	case x < 0:
		return -1
	case x > 0:
		return 1
	}
	return 0
}

// ---- generator ---------------------------------------------------------------------------------

var c39NameLits = []string{"__name__", "a", "b", "job", "instance", "le", "A", "Z9", "_x", "__meta_k", "ü", "日本", "a\xffb", "\xfe", "ab", "aa", "b\x00", "~", "`tick", "^caret", "_", "__type__", "x y", "\"q\"", "a\nb"}
var c39ValueLits = []string{"a", "b", "ab", "m1", "x y", "ü", "0", "1", "\xff", "a\xffb\xfe", "\x00", "\"q\"\\", "日本語", "a\nb", "__name__", "v"}
var c39Pads = []int{126, 127, 128, 129, 253, 254, 255, 256, 257, 1000, 1023, 1024, 1025, 4096}

func c39GenStr(t *rapid.T, lits []string, label string, used map[string]bool, allowHuge bool) (c39Str, bool) {
	s := c39Str{Lit: bstr(rapid.SampledFrom(lits).Draw(t, label))}
	switch rapid.IntRange(0, 11).Draw(t, label+"padc") {
	case 0:
		s.Pad = rapid.SampledFrom(c39Pads).Draw(t, label+"pad") - len(s.Lit)
		if s.Pad < 0 {
			s.Pad = 0
		}
	case 1:
		if allowHuge && rapid.IntRange(0, 2).Draw(t, label+"huge") == 0 {
			s.Pad = rapid.SampledFrom([]int{65535, 65536, 70000}).Draw(t, label+"hugepad")
		}
	}
	// make it distinct deterministically (the generator must terminate on any draw sequence)
	for k := 2; used[s.String()]; k++ {
		s.Lit = bstr(string(s.Lit) + "_" + strconv.Itoa(k))
	}
	used[s.String()] = true
	return s, true
}

func genC39(t *rapid.T) c39Case {
	var c c39Case
	used := map[string]bool{}
	// 64 KiB strings make a case ~100x more expensive: allow them in about 1 case in 50
	allowHuge := rapid.IntRange(0, 49).Draw(t, "hugecase") == 0
	nn := rapid.IntRange(4, 10).Draw(t, "nnames")
	for len(c.Names) < nn {
		s, _ := c39GenStr(t, c39NameLits, "name", used, allowHuge)
		c.Names = append(c.Names, s)
	}
	c.Values = []c39Str{{}}
	usedV := map[string]bool{"": true}
	nv := rapid.IntRange(3, 8).Draw(t, "nvalues")
	for i := 0; i < nv; i++ {
		if s, ok := c39GenStr(t, c39ValueLits, "value", usedV, allowHuge); ok {
			c.Values = append(c.Values, s)
		}
	}
	// (rapid favours small numbers: the expensive choices sit at the top of the range)
	switch p := rapid.IntRange(0, 199).Draw(t, "prefill"); {
	case p >= 199:
		c.Prefill = rapid.SampledFrom([]int{32760, 32790}).Draw(t, "prefillbig")
	case p >= 185:
		c.Prefill = rapid.SampledFrom([]int{1000, 1020, 1030, 2050}).Draw(t, "prefillsmall")
	}

	name := func(label string) int { return rapid.IntRange(0, len(c.Names)-1).Draw(t, label) }
	// non-empty values are much more common than the empty one
	value := func(label string) int {
		if rapid.IntRange(0, 7).Draw(t, label+"e") == 0 {
			return 0
		}
		return rapid.IntRange(1, len(c.Values)-1).Draw(t, label)
	}
	nameSet := func(label string, min, max int) []int {
		k := rapid.IntRange(min, max).Draw(t, label+"k")
		seen := map[int]bool{}
		var out []int
		for i := 0; i < k; i++ {
			n := name(label)
			if !seen[n] {
				seen[n] = true
				out = append(out, n)
			}
		}
		return out
	}
	slot := func(label string) int { return rapid.IntRange(0, c39Slots-1).Draw(t, label) }

	nops := rapid.IntRange(10, 80).Draw(t, "nops")
	for len(c.Ops) < nops {
		var op c39Op
		// (rapid favours the first entries)
		kind := rapid.SampledFrom([]string{
			"bset", "new", "bdel", "blabels", "breset", "bset", "blabels", "bdel", "new", "match", "copy",
			"withoutempty", "dropname", "dropreserved", "bkeep", "brangemut", "observe", "rebuild", "bset",
			"blabels", "dup", "observe"}).Draw(t, "op")
		switch kind {
		case "new":
			op = c39Op{K: "new", J: slot("j"), N: nameSet("nn", 0, 7), X: rapid.IntRange(0, 5).Draw(t, "ctor")}
			for range op.N {
				op.V = append(op.V, value("nv"))
			}
		case "copy":
			op = c39Op{K: "copy", I: slot("i"), J: slot("j"), X: rapid.IntRange(0, 2).Draw(t, "copykind")}
		case "withoutempty":
			op = c39Op{K: "withoutempty", I: slot("i"), J: slot("j")}
		case "dropname":
			op = c39Op{K: "dropname", I: slot("i"), J: slot("j")}
		case "dropreserved":
			op = c39Op{K: "dropreserved", I: slot("i"), J: slot("j"), N: nameSet("dr", 0, 4)}
		case "match":
			op = c39Op{K: "match", I: slot("i"), J: slot("j"), N: nameSet("mn", 0, 4), On: rapid.Bool().Draw(t, "on")}
		case "breset":
			op = c39Op{K: "breset", I: slot("i")}
		case "bset":
			op = c39Op{K: "bset", N: []int{name("bn")}, V: []int{value("bv")}}
		case "bdel":
			op = c39Op{K: "bdel", N: nameSet("bd", 1, 3)}
		case "bkeep":
			op = c39Op{K: "bkeep", N: nameSet("bk", 0, 4)}
		case "brangemut":
			op = c39Op{K: "brangemut", N: nameSet("br", 0, 3), X: rapid.IntRange(0, 2).Draw(t, "rmode"), V: []int{name("brt")}}
		case "blabels":
			op = c39Op{K: "blabels", J: slot("j")}
		case "rebuild":
			op = c39Op{K: "rebuild", X: rapid.IntRange(0, 1).Draw(t, "rebuildbuilder")}
		case "dup":
			op = c39Op{K: "dup", N: nameSet("dn", 1, 4), X: rapid.IntRange(0, 3).Draw(t, "dupat")}
		default:
			op = c39Op{K: "observe", I: slot("i"), N: nameSet("on", 0, 4)}
		}
		c.Ops = append(c.Ops, op)
	}
	return c
}

// ---- execution ---------------------------------------------------------------------------------

type c39State struct {
	names, values []string
	slots         [c39Slots]labels.Labels
	refs          [c39Slots]c39Ref

	st *labels.SymbolTable
	sb labels.ScratchBuilder
	ow labels.Labels // only ever written through ScratchBuilder.Overwrite
	psb *labels.ScratchBuilder // oracle-side builder for projections, own symbol table

	b      *labels.Builder
	bm     map[string]string // builder model
	bbase  map[string]bool   // names of the base given to Reset
	badded map[string]bool   // names Set since the last Reset (and not deleted since)

	overwroteExisting bool
	nontrivial        bool
	r                 *ev.Rec
}

var errC39Stop = errors.New("stop")

// observe compares every single-set observable of ls with the reference. With full it
// also compares with freshly constructed sets (New / FromMap, which are expensive under
// dedupelabels because each builds its own symbol table).
func (s *c39State) observe(what string, ls labels.Labels, ref c39Ref, full bool) error {
	fail := func(format string, a ...any) error {
		return ev.Failf("[%s] %s: reference %s: %s", labels.ImplementationName, what, ref.short(), fmt.Sprintf(format, a...))
	}
	if got := ls.Len(); got != len(ref) {
		return fail("Len()=%d, expected %d", got, len(ref))
	}
	if got := ls.IsEmpty(); got != (len(ref) == 0) {
		return fail("IsEmpty()=%v", got)
	}
	var got c39Ref
	ls.Range(func(l labels.Label) { got = append(got, c39Pair{l.Name, l.Value}) })
	if !c39RefEqual(got, ref) {
		return fail("Range yields %s", got.short())
	}
	// Validate: same iteration, stops at the first error and returns it
	for _, stopAt := range []int{-1, 0, len(ref) / 2} {
		calls := 0
		err := ls.Validate(func(l labels.Label) error {
			if calls >= len(ref) || ref[calls] != (c39Pair{l.Name, l.Value}) {
				calls = 1 << 30
				return errC39Stop
			}
			calls++
			if calls-1 == stopAt {
				return errC39Stop
			}
			return nil
		})
		wantCalls, wantErr := len(ref), error(nil)
		if stopAt >= 0 && stopAt < len(ref) {
			wantCalls, wantErr = stopAt+1, errC39Stop
		}
		if calls != wantCalls || err != wantErr {
			return fail("Validate stopping at %d: %d callbacks (expected %d), err=%v (expected %v)", stopAt, calls, wantCalls, err, wantErr)
		}
	}
	m := ref.toMap()
	for _, n := range s.names {
		wv, has := m[n]
		if g := ls.Get(n); g != wv {
			return fail("Get(%q)=%q, expected %q", n, g, wv)
		}
		if g := ls.Has(n); g != has {
			return fail("Has(%q)=%v, expected %v", n, g, has)
		}
	}
	for _, n := range []string{"absent", "\x01", "zzzz", "__"} {
		if _, has := m[n]; has {
			continue
		}
		if g := ls.Get(n); g != "" {
			return fail("Get(%q)=%q for an absent name", n, g)
		}
		if ls.Has(n) {
			return fail("Has(%q)=true for an absent name", n)
		}
	}
	gm := ls.Map()
	if len(gm) != len(m) {
		return fail("Map() has %d entries", len(gm))
	}
	for k, v := range m {
		if gv, ok := gm[k]; !ok || gv != v {
			return fail("Map()[%q]=%q,%v expected %q", k, gv, ok, v)
		}
	}
	if g, w := ls.String(), ref.String(); g != w {
		return fail("String()=%.300s expected %.300s", g, w)
	}
	if n, dup := ls.HasDuplicateLabelNames(); dup || n != "" {
		return fail("HasDuplicateLabelNames()=%q,%v on a set without duplicates", n, dup)
	}
	if g, w := labels.StableHash(ls), ref.stableHash(); g != w {
		return fail("StableHash=%#x, documented construction gives %#x", g, w)
	}
	// round trips and copies
	cp := ls.Copy()
	if !labels.Equal(cp, ls) || labels.Compare(cp, ls) != 0 || cp.Hash() != ls.Hash() {
		return fail("Copy() differs from the original (Equal=%v Compare=%d)", labels.Equal(cp, ls), labels.Compare(cp, ls))
	}
	dirty := append(make([]byte, 0, 64), "junkjunk"...)
	if !bytes.Equal(ls.Bytes(nil), ls.Bytes(dirty)) {
		return fail("Bytes(buf) depends on the previous content of buf")
	}
	if !full {
		return nil
	}
	if !labels.Equal(labels.FromMap(gm), ls) {
		return fail("FromMap(x.Map()) is not Equal to x")
	}
	fresh := ref.labelsNew()
	if !labels.Equal(fresh, ls) || !labels.Equal(ls, fresh) {
		return fail("not Equal to New(<same pairs>)")
	}
	if c := labels.Compare(fresh, ls); c != 0 {
		return fail("Compare with New(<same pairs>)=%d", c)
	}
	if fresh.Hash() != ls.Hash() {
		return fail("Hash()=%#x but New(<same pairs>).Hash()=%#x", ls.Hash(), fresh.Hash())
	}
	if !bytes.Equal(ls.Bytes(nil), fresh.Bytes(nil)) {
		return fail("Bytes differs from New(<same pairs>).Bytes")
	}
	return nil
}

// observeProjection checks the name-subset observables against projections of the reference.
func (s *c39State) observeProjection(what string, ls labels.Labels, ref c39Ref, nameIdx []int) error {
	fail := func(format string, a ...any) error {
		return ev.Failf("[%s] %s: reference %s: %s", labels.ImplementationName, what, ref.short(), fmt.Sprintf(format, a...))
	}
	names := make([]string, 0, len(nameIdx))
	set := map[string]bool{}
	for _, i := range nameIdx {
		names = append(names, s.names[i])
		set[s.names[i]] = true
	}
	sort.Strings(names) // 'names' have to be sorted in ascending order
	with := ref.filter(func(p c39Pair) bool { return set[p.n] })
	without := ref.filter(func(p c39Pair) bool { return !set[p.n] })
	withoutNoName := without.filter(func(p c39Pair) bool { return p.n != labels.MetricName })
	dirty := append(make([]byte, 0, 64), "junkjunk"...)

	if s.psb == nil {
		psb := labels.NewScratchBuilderWithSymbolTable(labels.NewSymbolTable(), 8)
		s.psb = &psb
	}
	withLs, withoutLs := with.build(s.psb), without.build(s.psb)
	if g, w := ls.BytesWithLabels(nil, names...), withLs.Bytes(nil); !bytes.Equal(g, w) {
		return fail("BytesWithLabels(%q)=%q, Bytes of the projection=%q", names, g, w)
	}
	if g, w := ls.BytesWithoutLabels(dirty, names...), withoutLs.Bytes(nil); !bytes.Equal(g, w) {
		return fail("BytesWithoutLabels(%q)=%q, Bytes of the projection=%q", names, g, w)
	}
	h1, _ := ls.HashForLabels(nil, names...)
	h1d, _ := ls.HashForLabels(dirty, names...)
	h1p, _ := withLs.HashForLabels(nil, names...)
	if h1 != h1d || h1 != h1p {
		return fail("HashForLabels(%q)=%#x, with a used buffer %#x, on the projection itself %#x", names, h1, h1d, h1p)
	}
	h2, _ := ls.HashWithoutLabels(nil, names...)
	h2d, _ := ls.HashWithoutLabels(dirty, names...)
	h2p, _ := withoutNoName.build(s.psb).HashWithoutLabels(nil)
	if h2 != h2d || h2 != h2p {
		return fail("HashWithoutLabels(%q)=%#x, with a used buffer %#x, on the projection itself %#x", names, h2, h2d, h2p)
	}
	// a projection that differs must hash differently (no separators inside strings, so the
	// hashed byte string is unambiguous; 64-bit collisions are not expected)
	if ref.sepFree() && len(with) > 0 {
		other := append(c39Ref{}, with...)
		other[len(other)-1].v += "'"
		if ho, _ := other.build(s.psb).HashForLabels(nil, names...); ho == h1 {
			return fail("HashForLabels(%q) does not depend on the value of %q", names, other[len(other)-1].n)
		}
	}
	return nil
}

// relate checks the two-set observables between slots i and j.
func (s *c39State) relate(i, j int) error {
	a, b := s.slots[i], s.slots[j]
	ra, rb := s.refs[i], s.refs[j]
	fail := func(format string, x ...any) error {
		return ev.Failf("[%s] slots %d,%d: a=%s b=%s: %s", labels.ImplementationName, i, j, ra.short(), rb.short(), fmt.Sprintf(format, x...))
	}
	weq := c39RefEqual(ra, rb)
	if g := labels.Equal(a, b); g != weq {
		return fail("Equal=%v expected %v", g, weq)
	}
	wc := c39RefCompare(ra, rb)
	if g := c39Sign(labels.Compare(a, b)); g != wc {
		return fail("sign(Compare(a,b))=%d expected %d", g, wc)
	}
	if g := c39Sign(labels.Compare(b, a)); g != -wc {
		return fail("sign(Compare(b,a))=%d expected %d", g, -wc)
	}
	ha, hb := a.Hash(), b.Hash()
	if weq && ha != hb {
		return fail("equal sets hash differently: %#x %#x", ha, hb)
	}
	beq := bytes.Equal(a.Bytes(nil), b.Bytes(nil))
	if weq && !beq {
		return fail("equal sets have different Bytes")
	}
	if !weq && ra.sepFree() && rb.sepFree() {
		if beq {
			return fail("different sets have equal Bytes")
		}
		if ha == hb {
			return fail("different sets have equal Hash %#x", ha)
		}
	}
	return nil
}

func (s *c39State) put(j int, what string, ls labels.Labels, ref c39Ref) error {
	s.slots[j], s.refs[j] = ls, ref
	if err := s.observe(fmt.Sprintf("%s -> slot %d", what, j), ls, ref, false); err != nil {
		return err
	}
	for i := 0; i < c39Slots; i++ {
		if err := s.relate(j, i); err != nil {
			return err
		}
	}
	return nil
}

func (s *c39State) checkBuilder(what string) error {
	fail := func(format string, a ...any) error {
		return ev.Failf("[%s] builder after %s: model %s: %s", labels.ImplementationName, what, c39FromMap(s.bm).short(), fmt.Sprintf(format, a...))
	}
	for _, n := range s.names {
		if g := s.b.Get(n); g != s.bm[n] {
			return fail("Get(%q)=%q expected %q", n, g, s.bm[n])
		}
	}
	seen := map[string]string{}
	dup := ""
	s.b.Range(func(l labels.Label) {
		if _, ok := seen[l.Name]; ok {
			dup = l.Name
		}
		seen[l.Name] = l.Value
	})
	if dup != "" {
		return fail("Range yields %q twice", dup)
	}
	if !c39RefEqual(c39FromMap(seen), c39FromMap(s.bm)) {
		return fail("Range yields %s", c39FromMap(seen).short())
	}
	return nil
}

func (s *c39State) bset(n, v string) {
	if v == "" {
		s.bdel(n)
		return
	}
	if _, ok := s.bm[n]; ok {
		s.overwroteExisting = true
	}
	s.bm[n] = v
	s.badded[n] = true
}

func (s *c39State) bdel(n string) {
	if _, ok := s.bm[n]; ok {
		s.overwroteExisting = true
	}
	delete(s.bm, n)
	delete(s.badded, n)
}

func (s *c39State) breset(ls labels.Labels, ref c39Ref) {
	s.b.Reset(ls)
	s.bm = map[string]string{}
	s.bbase = map[string]bool{}
	s.badded = map[string]bool{}
	for _, p := range ref {
		s.bbase[p.n] = true
		if p.v != "" { // a base label with an empty value counts as absent
			s.bm[p.n] = p.v
		}
	}
}

func runC39(c c39Case, r *ev.Rec) error {
	if want := os.Getenv("VERIF_LABELS_IMPL"); want != "" && want != labels.ImplementationName {
		panic(fmt.Sprintf("harness error: built with labels implementation %s, the registry part expects %s", labels.ImplementationName, want))
	}
	// pinned constants from the documentation of StableHash (sharding_test.go)
	for _, pin := range []struct {
		h  uint64
		ls labels.Labels
	}{
		{0xef46db3751d8e999, labels.EmptyLabels()},
		{0x347c8ee7a9e29708, labels.FromStrings("hello", "world")},
		{0xcbab40540f26097d, labels.FromStrings(labels.MetricName, "metric", "label", "value")},
	} {
		if g := labels.StableHash(pin.ls); g != pin.h {
			return ev.Failf("[%s] StableHash(%s)=%#x, pinned value %#x", labels.ImplementationName, pin.ls.String(), g, pin.h)
		}
	}

	s := &c39State{r: r}
	seenN := map[string]bool{}
	for _, n := range c.Names {
		if n.String() == "" || seenN[n.String()] {
			r.Discard()
			return nil
		}
		seenN[n.String()] = true
		s.names = append(s.names, n.String())
	}
	for _, v := range c.Values {
		s.values = append(s.values, v.String())
	}
	if len(s.names) == 0 || len(s.values) < 2 || s.values[0] != "" {
		r.Discard()
		return nil
	}
	nm := func(i int) string { return s.names[i%len(s.names)] }
	vl := func(i int) string { return s.values[i%len(s.values)] }

	s.st = labels.NewSymbolTable()
	s.sb = labels.NewScratchBuilderWithSymbolTable(s.st, 4)
	s.ow = labels.EmptyLabels()
	if c.Prefill > 0 {
		// fill the shared symbol table so that later symbols get large numbers
		s.sb.Reset()
		for k := 0; k < c.Prefill/2; k++ {
			s.sb.Add("p"+strconv.Itoa(1000000+k), "q"+strconv.Itoa(k))
		}
		pre := s.sb.Labels()
		if pre.Len() != c.Prefill/2 {
			return ev.Failf("[%s] prefill label set has Len %d, expected %d", labels.ImplementationName, pre.Len(), c.Prefill/2)
		}
		r.Class("prefill")
	}
	for i := range s.slots {
		s.slots[i] = labels.EmptyLabels()
		s.refs[i] = c39Ref{}
	}
	s.b = labels.NewBuilderWithSymbolTable(s.st)
	s.breset(labels.EmptyLabels(), nil)

	pairsOf := func(op c39Op) c39Ref {
		var ps c39Ref
		seen := map[string]bool{}
		for k, ni := range op.N {
			n := nm(ni)
			if seen[n] {
				continue
			}
			seen[n] = true
			v := ""
			if k < len(op.V) {
				v = vl(op.V[k])
			}
			ps = append(ps, c39Pair{n, v})
		}
		return ps
	}
	sorted := func(ps c39Ref) c39Ref {
		out := append(c39Ref{}, ps...)
		sort.Slice(out, func(i, j int) bool { return out[i].n < out[j].n })
		return out
	}

	for oi, op := range c.Ops {
		what := fmt.Sprintf("op %d %s", oi, op.K)
		I, J := op.I%c39Slots, op.J%c39Slots
		if I < 0 || J < 0 {
			r.Discard()
			return nil
		}
		r.Class("op:" + op.K)
		switch op.K {
		case "new":
			ps := pairsOf(op) // generation order, not sorted
			ref := sorted(ps)
			var ls labels.Labels
			switch op.X % 6 {
			case 0:
				in := make([]labels.Label, 0, len(ps))
				for _, p := range ps {
					in = append(in, labels.Label{Name: p.n, Value: p.v})
				}
				ls = labels.New(in...)
				what += " New"
			case 1:
				var ss []string
				for _, p := range ps {
					ss = append(ss, p.n, p.v)
				}
				ls = labels.FromStrings(ss...)
				what += " FromStrings"
			case 2:
				ls = labels.FromMap(ref.toMap())
				what += " FromMap"
			case 3:
				s.sb.Reset()
				for _, p := range ref { // already in order, no Sort needed
					s.sb.Add(p.n, p.v)
				}
				ls = s.sb.Labels()
				what += " ScratchBuilder(sorted adds)"
			case 4:
				s.sb.Reset()
				for _, p := range ps {
					s.sb.Add(p.n, p.v)
				}
				s.sb.Sort()
				ls = s.sb.Labels()
				what += " ScratchBuilder(Sort)"
			default:
				s.sb.Reset()
				for _, p := range ps {
					s.sb.Add(p.n, p.v)
				}
				s.sb.Sort()
				s.sb.Overwrite(&s.ow)
				if err := s.observe(what+" ScratchBuilder.Overwrite target", s.ow, ref, false); err != nil {
					return err
				}
				ls = s.ow.Copy() // ow is only valid until the next Overwrite
				what += " ScratchBuilder(Overwrite)+Copy"
			}
			if ref.hasEmpty() {
				r.Class("set-with-empty-value")
			}
			if err := s.put(J, what, ls, ref); err != nil {
				return err
			}
		case "copy":
			var ls labels.Labels
			switch op.X % 3 {
			case 0:
				ls = s.slots[I].Copy()
			case 1:
				var x labels.Labels
				x.CopyFrom(s.slots[I])
				ls = x
				what += " CopyFrom"
			default:
				s.sb.Reset()
				s.sb.Assign(s.slots[I])
				ls = s.sb.Labels()
				what += " ScratchBuilder.Assign"
			}
			if err := s.put(J, what, ls, s.refs[I]); err != nil {
				return err
			}
		case "withoutempty":
			ref := s.refs[I].filter(func(p c39Pair) bool { return p.v != "" })
			if err := s.put(J, what, s.slots[I].WithoutEmpty(), ref); err != nil {
				return err
			}
		case "dropname":
			ref := s.refs[I].filter(func(p c39Pair) bool { return p.n != labels.MetricName })
			if err := s.put(J, what, s.slots[I].DropMetricName(), ref); err != nil {
				return err
			}
		case "dropreserved":
			// callers only ever select reserved names (leading underscore)
			drop := map[string]bool{}
			for _, ni := range op.N {
				if strings.HasPrefix(nm(ni), "_") {
					drop[nm(ni)] = true
				}
			}
			ref := s.refs[I].filter(func(p c39Pair) bool { return !drop[p.n] })
			src := s.refs[I]
			got := s.slots[I].DropReserved(func(n string) bool { return drop[n] })
			if err := s.put(J, what, got, ref); err != nil {
				return err
			}
			if J != I {
				if err := s.observe(what+" (source must be unchanged)", s.slots[I], src, false); err != nil {
					return err
				}
			}
		case "match":
			if s.refs[I].hasEmpty() {
				// MatchLabels on a set carrying empty values is not defined consistently
				// (such sets are only an intermediate form for WithoutEmpty / Builder)
				r.Class("skipped-op-on-set-with-empty-value")
				continue
			}
			set := map[string]bool{}
			var names []string
			for _, ni := range op.N {
				set[nm(ni)] = true
				names = append(names, nm(ni))
			}
			ref := s.refs[I].filter(func(p c39Pair) bool {
				if op.On {
					return set[p.n]
				}
				return !set[p.n] && p.n != labels.MetricName
			})
			if err := s.put(J, what, s.slots[I].MatchLabels(op.On, names...), ref); err != nil {
				return err
			}
		case "breset":
			s.breset(s.slots[I], s.refs[I])
			if err := s.checkBuilder(what); err != nil {
				return err
			}
		case "bset":
			if len(op.N) == 0 || len(op.V) == 0 {
				continue
			}
			s.b.Set(nm(op.N[0]), vl(op.V[0]))
			s.bset(nm(op.N[0]), vl(op.V[0]))
			if err := s.checkBuilder(what); err != nil {
				return err
			}
		case "bdel":
			var names []string
			for _, ni := range op.N {
				names = append(names, nm(ni))
				s.bdel(nm(ni))
			}
			s.b.Del(names...)
			if err := s.checkBuilder(what); err != nil {
				return err
			}
		case "bkeep":
			keep := map[string]bool{}
			var names []string
			for _, ni := range op.N {
				names = append(names, nm(ni))
				keep[nm(ni)] = true
			}
			s.b.Keep(names...)
			// "removes all labels from the base except those with the given names";
			// labels Set since the Reset are not from the base
			for n := range s.bbase {
				if !keep[n] && !s.badded[n] {
					delete(s.bm, n)
				}
			}
			if err := s.checkBuilder(what); err != nil {
				return err
			}
		case "brangemut":
			// Range must present the state at the time of the call even when the callback
			// calls Set/Del (what relabel's labelmap/labeldrop/labelkeep do)
			sel := map[string]bool{}
			for _, ni := range op.N {
				sel[nm(ni)] = true
			}
			target := ""
			if len(op.V) > 0 {
				target = nm(op.V[0])
			}
			snapshot := c39FromMap(s.bm)
			type act struct {
				del  bool
				n, v string
			}
			var acts []act
			seen := map[string]string{}
			s.b.Range(func(l labels.Label) {
				seen[l.Name] = l.Value
				if !sel[l.Name] {
					return
				}
				switch op.X % 3 {
				case 0:
					s.b.Del(l.Name)
					acts = append(acts, act{del: true, n: l.Name})
				case 1:
					s.b.Set(target, l.Value)
					acts = append(acts, act{n: target, v: l.Value})
				default:
					s.b.Set(l.Name, l.Value+"'")
					acts = append(acts, act{n: l.Name, v: l.Value + "'"})
				}
			})
			if !c39RefEqual(c39FromMap(seen), snapshot) {
				return ev.Failf("[%s] %s: Builder.Range with a mutating callback yields %s, state at the call was %s", labels.ImplementationName, what, c39FromMap(seen).short(), snapshot.short())
			}
			if op.X%3 == 1 && len(acts) > 1 {
				// several labels copied onto one name: the order of Range is not specified,
				// the last callback wins; replay the real order on the model
				r.Class("range-order-dependent")
			}
			for _, a := range acts {
				if a.del {
					s.bdel(a.n)
				} else {
					s.bset(a.n, a.v)
				}
			}
			if err := s.checkBuilder(what); err != nil {
				return err
			}
		case "blabels":
			ref := c39FromMap(s.bm)
			if err := s.put(J, what, s.b.Labels(), ref); err != nil {
				return err
			}
			// Labels() must leave the builder usable and unchanged
			if err := s.checkBuilder(what); err != nil {
				return err
			}
			if s.overwroteExisting && len(ref) >= 3 {
				s.nontrivial = true
			}
		case "rebuild":
			// what Head.RebuildSymbolTable does: a new table, every set rebuilt through a
			// ScratchBuilder bound to it
			old := s.slots
			s.st = labels.NewSymbolTable()
			if op.X%2 == 0 {
				s.sb = labels.NewScratchBuilderWithSymbolTable(s.st, 0)
			} else {
				s.sb.SetSymbolTable(s.st)
			}
			for i := range s.slots {
				s.sb.Reset()
				s.slots[i].Range(func(l labels.Label) { s.sb.Add(l.Name, l.Value) })
				if err := s.put(i, what, s.sb.Labels(), s.refs[i]); err != nil {
					return err
				}
				if !labels.Equal(old[i], s.slots[i]) || labels.Compare(old[i], s.slots[i]) != 0 {
					return ev.Failf("[%s] %s: slot %d %s is not Equal to itself after the rebuild", labels.ImplementationName, what, i, s.refs[i].short())
				}
			}
			s.b = labels.NewBuilderWithSymbolTable(s.st)
			s.breset(labels.EmptyLabels(), nil)
		case "dup":
			// a sorted set with one name twice is invalid, but HasDuplicateLabelNames must say so
			ps := sorted(pairsOf(op))
			if len(ps) == 0 {
				continue
			}
			d := ps[op.X%len(ps)]
			s.sb.Reset()
			for _, p := range ps {
				s.sb.Add(p.n, "v")
				if p.n == d.n {
					s.sb.Add(p.n, "w")
				}
			}
			ls := s.sb.Labels()
			if n, dup := ls.HasDuplicateLabelNames(); !dup || n != d.n {
				return ev.Failf("[%s] %s: HasDuplicateLabelNames()=%q,%v on a set with %q twice", labels.ImplementationName, what, n, dup, d.n)
			}
		case "observe":
			if err := s.observe(what, s.slots[I], s.refs[I], true); err != nil {
				return err
			}
			if !s.refs[I].hasEmpty() {
				if err := s.observeProjection(what, s.slots[I], s.refs[I], op.N); err != nil {
					return err
				}
			}
			for j := 0; j < c39Slots; j++ {
				if err := s.relate(I, j); err != nil {
					return err
				}
			}
		default:
			r.Discard()
			return nil
		}
	}
	// final sweep: every slot is still what the reference says (no aliasing damage)
	for i := range s.slots {
		if err := s.observe("final sweep slot "+strconv.Itoa(i), s.slots[i], s.refs[i], i == 0); err != nil {
			return err
		}
	}
	r.Class("impl:" + labels.ImplementationName)
	longest := 0
	for _, x := range append(append([]string{}, s.names...), s.values...) {
		if len(x) > longest {
			longest = len(x)
		}
	}
	switch {
	case longest >= 65535:
		r.Class("string>=64KiB")
	case longest >= 255:
		r.Class("string>=255")
	case longest >= 127:
		r.Class("string>=127")
	}
	if s.nontrivial {
		r.NonTrivial()
	}
	return nil
}

func TestC39(t *testing.T) {
	ev.Check(t, "C39",
		"10-80 operations over 4 label-set slots, one Builder and one ScratchBuilder sharing a symbol table (optionally pre-filled past 1024 / 32768 symbols): New/FromStrings/FromMap/ScratchBuilder Add+Sort+Labels/Overwrite/Assign, Copy/CopyFrom, WithoutEmpty, DropMetricName, DropReserved, MatchLabels, Builder Reset/Set/Del/Keep/Range (also with a mutating callback)/Labels, symbol-table rebuild; names and values from per-case pools with repeated names, empty values, bytes 0xfe/0xff, lengths around 127/255/1024 and 64 KiB. After every step the produced set is compared with a sorted-pair reference through Len/IsEmpty/Range/Validate/Get/Has/Map/String/StableHash/Bytes/Hash/Copy/FromMap and pairwise Equal/Compare/Hash/Bytes; projections through BytesWith(out)Labels and HashFor/WithoutLabels. Non-trivial: a Builder Del/overwrite of an existing name happened and a Builder.Labels() result has >=3 labels; distinct by hash of the case.",
		genC39, runC39)
}
