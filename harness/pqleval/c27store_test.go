package pqleval

// Shared helpers of the C27 / C29 / C33 checks (all identifiers carry the c27 prefix):
// a serialisable data set (float, native histogram and stale samples), a small
// in-memory storage.Queryable over it, engine construction with explicit options and
// result normalisation / comparison.

import (
	"context"
	"errors"
	"fmt"
	"log/slog"
	"math"
	"os"
	"regexp"
	"runtime"
	"sort"
	"strings"
	"time"

	"github.com/prometheus/prometheus/model/histogram"
	"github.com/prometheus/prometheus/model/labels"
	"github.com/prometheus/prometheus/model/value"
	"github.com/prometheus/prometheus/promql"
	"github.com/prometheus/prometheus/promql/parser"
	"github.com/prometheus/prometheus/storage"
	"github.com/prometheus/prometheus/tsdb/chunkenc"
	"github.com/prometheus/prometheus/util/annotations"
	"pgregory.net/rapid"

	"verifharness/internal/gen"
)

// ---- data ----

const (
	c27KFloat  = 0
	c27KHist   = 1 // float histogram
	c27KIHist  = 2 // integer histogram
	c27KStale  = 3 // float stale marker
	c27KHStale = 4 // histogram stale marker
)

type c27Sample struct {
	T  int64
	ST int64 `json:",omitempty"`
	K  uint8
	V  uint64    `json:",omitempty"`
	H  *gen.Hist `json:",omitempty"`
}

type c27Series struct {
	L gen.Lset
	S []c27Sample
}

type c27Data struct {
	Series []c27Series
}

// c27DataOpts tunes the data generator.
type c27DataOpts struct {
	MaxSeries   int
	MinT, MaxT  int64 // sample time window (ms)
	Metrics     []string
	LabelNames  []string
	LabelValues []string
	Histograms  bool
	SpecialVals bool // NaN / Inf / -0 float values
	ST          bool // draw start timestamps
	// KeepEmptyLeadingSpans keeps histograms whose first span has length zero as drawn
	// (legal, but they trip the known finding c33-histogram-add-zero-length-first-span);
	// otherwise such spans are folded into the next one.
	KeepEmptyLeadingSpans bool
}

// c27FoldLeadingSpans removes zero-length spans at the start of a span list.
func c27FoldLeadingSpans(s []gen.Span) []gen.Span {
	for len(s) > 0 && s[0].Len == 0 {
		if len(s) > 1 {
			s[1].Off += s[0].Off
		}
		s = s[1:]
	}
	return s
}

func c27HasEmptyLeadingSpan(h *gen.Hist) bool {
	return h != nil && ((len(h.PS) > 0 && h.PS[0].Len == 0) || (len(h.NS) > 0 && h.NS[0].Len == 0))
}

var c27Spacings = []int64{1000, 5000, 15000, 15000, 15000, 30000, 30000, 60000, 60000, 300000}

func c27GenValue(t *rapid.T, prev float64, special bool) float64 {
	switch rapid.IntRange(0, 11).Draw(t, "vclass") {
	case 0:
		return prev
	case 1, 2, 3:
		return prev + float64(rapid.IntRange(0, 40).Draw(t, "vinc"))
	case 4:
		return prev + float64(rapid.IntRange(0, 400).Draw(t, "vincq"))/8
	case 5:
		return float64(rapid.IntRange(0, 5).Draw(t, "vreset"))
	case 6:
		return float64(rapid.IntRange(-50, 50).Draw(t, "vsmall"))
	case 7:
		return float64(rapid.IntRange(-4000, 4000).Draw(t, "vfrac")) / 16
	case 8:
		if special {
			return gen.F(rapid.SampledFrom([]uint64{gen.NormalNaNBits, 0x7ff0000000000000, 0xfff0000000000000, 0x8000000000000000, 0, 0x7ff8000000000000}).Draw(t, "vspecial"))
		}
		return prev + 1
	case 9:
		return prev - float64(rapid.IntRange(1, 10).Draw(t, "vdec"))
	default:
		return prev + float64(rapid.IntRange(1, 5).Draw(t, "vinc1"))
	}
}

func c27GenData(t *rapid.T, o c27DataOpts) c27Data {
	n := rapid.IntRange(1, o.MaxSeries).Draw(t, "nseries")
	var d c27Data
	seen := map[string]bool{}
	for i := 0; i < n; i++ {
		var l gen.Lset
		l = append(l, [2]string{"__name__", rapid.SampledFrom(o.Metrics).Draw(t, "metric")})
		nl := rapid.IntRange(0, 4).Draw(t, "nlabels")
		used := map[string]bool{}
		for j := 0; j < nl; j++ {
			name := rapid.SampledFrom(o.LabelNames).Draw(t, "lname")
			if used[name] {
				continue
			}
			used[name] = true
			l = append(l, [2]string{name, rapid.SampledFrom(o.LabelValues).Draw(t, "lvalue")})
		}
		sort.Slice(l, func(a, b int) bool { return l[a][0] < l[b][0] })
		if seen[l.Key()] {
			continue
		}
		seen[l.Key()] = true
		s := c27Series{L: l}
		// series shape
		kind := 0 // floats
		if o.Histograms {
			kind = rapid.SampledFrom([]int{0, 0, 0, 1, 1, 2}).Draw(t, "skind") // 1 hist, 2 mixed
		}
		spacing := rapid.SampledFrom(c27Spacings).Draw(t, "spacing")
		irregular := rapid.IntRange(0, 2).Draw(t, "irregular")
		ns := rapid.IntRange(0, 100).Draw(t, "nsamples")
		ts := o.MinT + rapid.Int64Range(0, (o.MaxT-o.MinT)/6).Draw(t, "t0")
		if rapid.Bool().Draw(t, "t0aligned") {
			ts = ts / spacing * spacing // samples on multiples of the spacing: window edges get hit exactly
		}
		var st int64
		stMode := 0
		if o.ST {
			stMode = rapid.IntRange(0, 3).Draw(t, "stmode")
		}
		if stMode != 0 {
			st = ts - rapid.Int64Range(0, 120000).Draw(t, "st0")
		}
		val := float64(rapid.IntRange(0, 100).Draw(t, "v0"))
		schema := int32(rapid.IntRange(-1, 3).Draw(t, "hschema"))
		customSeries := rapid.IntRange(0, 5).Draw(t, "hcustom") == 0
		for j := 0; j < ns && ts <= o.MaxT; j++ {
			smp := c27Sample{T: ts}
			if stMode != 0 {
				if stMode >= 2 && rapid.IntRange(0, 5).Draw(t, "streset") == 0 {
					st = ts - rapid.Int64Range(0, spacing).Draw(t, "stnew")
				}
				smp.ST = st
			}
			isHist := kind == 1 || (kind == 2 && rapid.IntRange(0, 2).Draw(t, "mixh") == 0)
			stale := rapid.IntRange(0, 11).Draw(t, "stale") == 0
			switch {
			case stale && isHist:
				smp.K = c27KHStale
			case stale:
				smp.K = c27KStale
			case isHist:
				ho := gen.HistOpts{Float: rapid.Bool().Draw(t, "hfloat"), AllowGauge: true, MaxBuckets: 4, MaxCount: 20}
				if customSeries {
					cs := int32(histogram.CustomBucketsSchema)
					ho.Schema = &cs
					ho.Custom = []uint64{gen.B(0), gen.B(1), gen.B(2.5), gen.B(10)}
				} else if rapid.IntRange(0, 3).Draw(t, "hsameschema") > 0 {
					sc := schema
					ho.Schema = &sc
				} else {
					// any exponential schema, never custom (bounds of one series stay the same)
					sc := int32(rapid.IntRange(-2, 4).Draw(t, "hschema2"))
					ho.Schema = &sc
				}
				h := gen.Histogram(ho).Draw(t, "h")
				if !o.KeepEmptyLeadingSpans {
					h.PS, h.NS = c27FoldLeadingSpans(h.PS), c27FoldLeadingSpans(h.NS)
				}
				smp.H = &h
				if h.Float {
					smp.K = c27KHist
				} else {
					smp.K = c27KIHist
				}
			default:
				val = c27GenValue(t, val, o.SpecialVals)
				smp.K = c27KFloat
				smp.V = gen.B(val)
				if math.IsNaN(val) || math.IsInf(val, 0) {
					val = 0
				}
			}
			s.S = append(s.S, smp)
			// next timestamp
			step := spacing
			switch irregular {
			case 1:
				step = spacing + rapid.Int64Range(-spacing/4, spacing/4).Draw(t, "jitter")
			case 2:
				step = rapid.Int64Range(1, 2*spacing).Draw(t, "irr")
			}
			if rapid.IntRange(0, 9).Draw(t, "gap") == 0 {
				step += rapid.SampledFrom([]int64{60000, 301000, 600000, 1200000}).Draw(t, "gaplen")
			}
			if step < 1 {
				step = 1
			}
			ts += step
		}
		d.Series = append(d.Series, s)
	}
	return d
}

// ---- storage ----

type c27MemSample struct {
	t, st int64
	f     float64
	h     *histogram.Histogram
	fh    *histogram.FloatHistogram
}

type c27MemSeries struct {
	lset    labels.Labels
	samples []c27MemSample
}

func (s *c27MemSeries) Labels() labels.Labels { return s.lset }
func (s *c27MemSeries) Iterator(chunkenc.Iterator) chunkenc.Iterator {
	return &c27Iter{s: s.samples, i: -1}
}

// c27Iter hands out copies of histograms so that nothing the engine does to a returned
// sample can alter the stored data (a TSDB iterator decodes into fresh objects, too).
type c27Iter struct {
	s []c27MemSample
	i int
}

func (it *c27Iter) typ() chunkenc.ValueType {
	if it.i < 0 || it.i >= len(it.s) {
		return chunkenc.ValNone
	}
	switch {
	case it.s[it.i].h != nil:
		return chunkenc.ValHistogram
	case it.s[it.i].fh != nil:
		return chunkenc.ValFloatHistogram
	}
	return chunkenc.ValFloat
}
func (it *c27Iter) Next() chunkenc.ValueType { it.i++; return it.typ() }
func (it *c27Iter) Seek(t int64) chunkenc.ValueType {
	if it.i < 0 {
		it.i = 0
	}
	for it.i < len(it.s) && it.s[it.i].t < t {
		it.i++
	}
	return it.typ()
}
func (it *c27Iter) At() (int64, float64) { return it.s[it.i].t, it.s[it.i].f }
func (it *c27Iter) AtHistogram(h *histogram.Histogram) (int64, *histogram.Histogram) {
	s := it.s[it.i]
	if h == nil {
		return s.t, s.h.Copy()
	}
	s.h.CopyTo(h)
	return s.t, h
}
func (it *c27Iter) AtFloatHistogram(fh *histogram.FloatHistogram) (int64, *histogram.FloatHistogram) {
	s := it.s[it.i]
	if s.h != nil {
		return s.t, s.h.ToFloat(fh)
	}
	if fh == nil {
		return s.t, s.fh.Copy()
	}
	s.fh.CopyTo(fh)
	return s.t, fh
}
func (it *c27Iter) AtT() int64  { return it.s[it.i].t }
func (it *c27Iter) AtST() int64 { return it.s[it.i].st }
func (*c27Iter) Err() error     { return nil }

type c27Queryable struct {
	series     []*c27MemSeries // sorted by labels
	nHist      int
	nStale     int
	nEmptyLead int // histograms whose first span has length zero
	// onQuerier, when set, is called at the start of every query evaluation (barrier of the concurrency check)
	onQuerier func()
}

func c27NewQueryable(d c27Data) *c27Queryable {
	q := &c27Queryable{}
	for _, s := range d.Series {
		ms := &c27MemSeries{lset: s.L.Labels()}
		for _, x := range s.S {
			m := c27MemSample{t: x.T, st: x.ST}
			switch x.K {
			case c27KFloat:
				m.f = gen.F(x.V)
			case c27KStale:
				m.f = math.Float64frombits(value.StaleNaN)
				q.nStale++
			case c27KHist:
				m.fh = x.H.FloatH()
				q.nHist++
				if c27HasEmptyLeadingSpan(x.H) {
					q.nEmptyLead++
				}
			case c27KIHist:
				if x.H.Float {
					m.fh = x.H.FloatH()
				} else {
					m.h = x.H.Int()
				}
				q.nHist++
				if c27HasEmptyLeadingSpan(x.H) {
					q.nEmptyLead++
				}
			case c27KHStale:
				m.fh = &histogram.FloatHistogram{Sum: math.Float64frombits(value.StaleNaN)}
				q.nStale++
			}
			ms.samples = append(ms.samples, m)
		}
		q.series = append(q.series, ms)
	}
	sort.Slice(q.series, func(i, j int) bool { return labels.Compare(q.series[i].lset, q.series[j].lset) < 0 })
	return q
}

func (q *c27Queryable) Querier(_, _ int64) (storage.Querier, error) {
	if q.onQuerier != nil {
		q.onQuerier()
	}
	return c27Querier{q}, nil
}

type c27Querier struct{ q *c27Queryable }

func (c27Querier) LabelValues(context.Context, string, *storage.LabelHints, ...*labels.Matcher) ([]string, annotations.Annotations, error) {
	return nil, nil, nil
}

func (c27Querier) LabelNames(context.Context, *storage.LabelHints, ...*labels.Matcher) ([]string, annotations.Annotations, error) {
	return nil, nil, nil
}
func (c27Querier) Close() error { return nil }

func (m c27Querier) Select(_ context.Context, _ bool, _ *storage.SelectHints, matchers ...*labels.Matcher) storage.SeriesSet {
	var out []storage.Series
outer:
	for _, s := range m.q.series {
		for _, mt := range matchers {
			if !mt.Matches(s.lset.Get(mt.Name)) {
				continue outer
			}
		}
		out = append(out, s)
	}
	return &c27SeriesSet{series: out, i: -1}
}

type c27SeriesSet struct {
	series []storage.Series
	i      int
}

func (s *c27SeriesSet) Next() bool                      { s.i++; return s.i < len(s.series) }
func (s *c27SeriesSet) At() storage.Series              { return s.series[s.i] }
func (*c27SeriesSet) Err() error                        { return nil }
func (*c27SeriesSet) Warnings() annotations.Annotations { return nil }

// ---- engine ----

type c27EngineOpts struct {
	LookbackMs int64
	Delayed    bool // EnableDelayedNameRemoval
	UseST      bool // UseStartTimestamps
	MaxSamples int  `json:",omitempty"`
}

var c27ParserAll = parser.Options{EnableExperimentalFunctions: true, ExperimentalDurationExpr: true,
	EnableExtendedRangeSelectors: true, EnableBinopFillModifiers: true}

func c27NewEngine(o c27EngineOpts) *promql.Engine {
	ms := o.MaxSamples
	if ms == 0 {
		ms = 50_000_000
	}
	var lg *slog.Logger
	if os.Getenv("C27_DEBUG_LOG") != "" {
		lg = slog.New(slog.NewTextHandler(os.Stderr, nil))
	}
	return promql.NewEngine(promql.EngineOpts{
		Logger:                   lg,
		MaxSamples:               ms,
		Timeout:                  10 * time.Minute,
		LookbackDelta:            time.Duration(o.LookbackMs) * time.Millisecond,
		NoStepSubqueryIntervalFn: func(int64) int64 { return 60_000 },
		EnableAtModifier:         true,
		EnableNegativeOffset:     true,
		EnableDelayedNameRemoval: o.Delayed,
		UseStartTimestamps:       o.UseST,
		Parser:                   parser.NewParser(c27ParserAll),
	})
}

// ---- results ----

type c27Val struct {
	F uint64
	H *histogram.FloatHistogram
}

type c27Step map[string]c27Val // key: label set string

type c27Res struct {
	Err      error
	Steps    map[int64]c27Step
	Order    map[int64][]string // element order as returned (instant queries)
	Warnings []string
	Typ      parser.ValueType
	Dup      string // non-empty: the result held the same label set twice at one timestamp
	DupMixed bool   // ... once as float and once as histogram
}

func c27Extract(r *promql.Result) *c27Res {
	out := &c27Res{Err: r.Err, Steps: map[int64]c27Step{}, Order: map[int64][]string{}}
	for _, w := range r.Warnings.AsErrors() {
		out.Warnings = append(out.Warnings, w.Error())
	}
	sort.Strings(out.Warnings)
	if r.Err != nil || r.Value == nil {
		return out
	}
	put := func(t int64, key string, v c27Val) {
		st := out.Steps[t]
		if st == nil {
			st = c27Step{}
			out.Steps[t] = st
		}
		if prev, dup := st[key]; dup {
			out.Dup = fmt.Sprintf("%s at %d", key, t)
			if (prev.H == nil) != (v.H == nil) {
				out.DupMixed = true
			}
		}
		st[key] = v
		out.Order[t] = append(out.Order[t], key)
	}
	out.Typ = r.Value.Type()
	switch v := r.Value.(type) {
	case promql.Scalar:
		put(v.T, "{}", c27Val{F: math.Float64bits(v.V)})
	case promql.Vector:
		for _, s := range v {
			put(s.T, s.Metric.String(), c27Val{F: math.Float64bits(s.F), H: s.H})
		}
	case promql.Matrix:
		for _, s := range v {
			key := s.Metric.String()
			for _, p := range s.Floats {
				put(p.T, key, c27Val{F: math.Float64bits(p.F)})
			}
			for _, p := range s.Histograms {
				put(p.T, key, c27Val{H: p.H})
			}
		}
	case promql.String:
		put(v.T, "<string>"+v.V, c27Val{})
	}
	return out
}

func c27Instant(ng *promql.Engine, q storage.Queryable, expr string, ts int64) *c27Res {
	qry, err := ng.NewInstantQuery(context.Background(), q, nil, expr, time.UnixMilli(ts))
	if err != nil {
		return &c27Res{Err: c27ParseErr{err}}
	}
	defer qry.Close()
	return c27Extract(qry.Exec(context.Background()))
}

func c27Range(ng *promql.Engine, q storage.Queryable, expr string, start, end, step int64) *c27Res {
	qry, err := ng.NewRangeQuery(context.Background(), q, nil, expr, time.UnixMilli(start), time.UnixMilli(end), time.Duration(step)*time.Millisecond)
	if err != nil {
		return &c27Res{Err: c27ParseErr{err}}
	}
	defer qry.Close()
	return c27Extract(qry.Exec(context.Background()))
}

// c27ParseErr marks an error returned when the query was created (parse / type / option check).
type c27ParseErr struct{ error }

func (e c27ParseErr) Unwrap() error { return e.error }

var (
	c27reBraces  = regexp.MustCompile(`\{[^{}]*\}`)
	c27reBracket = regexp.MustCompile(`\[[^\[\]]*\]`)
	c27reQuoted  = regexp.MustCompile(`"(?:[^"\\]|\\.)*"`)
	c27reNum     = regexp.MustCompile(`[-+]?(?:[0-9][0-9_.:e+-]*|Inf|NaN)`)
	c27rePos     = regexp.MustCompile(`\([0-9]+:[0-9]+\)`)
)

// c27ErrClass reduces an error / annotation message to its class: label sets, series
// lists, quoted strings, positions and numbers are removed.
func c27ErrClass(err error) string {
	if err == nil {
		return ""
	}
	s := err.Error()
	s = c27rePos.ReplaceAllString(s, "")
	s = c27reQuoted.ReplaceAllString(s, `""`)
	for i := 0; i < 3; i++ {
		s = c27reBraces.ReplaceAllString(s, "{}")
		s = c27reBracket.ReplaceAllString(s, "[]")
	}
	s = c27reNum.ReplaceAllString(s, "N")
	if len(s) > 160 {
		s = s[:160]
	}
	return s
}

// c27Internal reports whether an error is an internal failure (runtime fault) rather
// than a user-facing error.
func c27Internal(err error) bool {
	if err == nil {
		return false
	}
	var re runtime.Error
	if errors.As(err, &re) {
		return true
	}
	return strings.HasPrefix(err.Error(), "unexpected error")
}

func c27SameFloat(a, b uint64) bool {
	if a == b {
		return true
	}
	fa, fb := math.Float64frombits(a), math.Float64frombits(b)
	return math.IsNaN(fa) && math.IsNaN(fb)
}

func c27CloseFloat(a, b, rel float64) bool {
	if math.Float64bits(a) == math.Float64bits(b) || (math.IsNaN(a) && math.IsNaN(b)) {
		return true
	}
	if math.IsNaN(a) || math.IsNaN(b) || math.IsInf(a, 0) || math.IsInf(b, 0) {
		return a == b
	}
	d := math.Abs(a - b)
	return d <= rel*math.Max(math.Abs(a), math.Abs(b)) || d <= 1e-300
}

// c27SameHist compares two histograms exactly (bit patterns, NaN-aware sum, hint).
func c27SameHist(a, b *histogram.FloatHistogram) string {
	if a == nil || b == nil {
		if a == b {
			return ""
		}
		return "float vs histogram"
	}
	if a.Equals(b) {
		if a.CounterResetHint != b.CounterResetHint {
			return "CounterResetHint"
		}
		return ""
	}
	// Equals is bitwise on the sum: accept two NaN sums with different payloads.
	if math.IsNaN(a.Sum) && math.IsNaN(b.Sum) {
		a2, b2 := a.Copy(), b.Copy()
		a2.Sum, b2.Sum = 0, 0
		if a2.Equals(b2) && a.CounterResetHint == b.CounterResetHint {
			return ""
		}
	}
	return "histogram differs"
}

// c27CloseHist compares two histograms bucket by bucket with a relative tolerance.
func c27CloseHist(a, b *histogram.FloatHistogram, rel float64) string {
	if a == nil || b == nil {
		if a == b {
			return ""
		}
		return "float vs histogram"
	}
	if a.Schema != b.Schema || a.ZeroThreshold != b.ZeroThreshold {
		return "schema / zero threshold"
	}
	if !c27CloseFloat(a.Count, b.Count, rel) || !c27CloseFloat(a.Sum, b.Sum, rel) || !c27CloseFloat(a.ZeroCount, b.ZeroCount, rel) {
		return "count / sum / zero count"
	}
	cmp := func(x, y map[int32]float64) bool {
		for k, v := range x {
			if !c27CloseFloat(v, y[k], rel) {
				return false
			}
		}
		for k, v := range y {
			if _, ok := x[k]; !ok && !c27CloseFloat(v, 0, rel) {
				return false
			}
		}
		return true
	}
	if !cmp(gen.BucketMap(a.PositiveSpans, a.PositiveBuckets), gen.BucketMap(b.PositiveSpans, b.PositiveBuckets)) ||
		!cmp(gen.BucketMap(a.NegativeSpans, a.NegativeBuckets), gen.BucketMap(b.NegativeSpans, b.NegativeBuckets)) {
		return "buckets"
	}
	return ""
}

func c27ValString(v c27Val) string {
	if v.H != nil {
		return v.H.String()
	}
	return fmt.Sprintf("%v (bits %x)", math.Float64frombits(v.F), v.F)
}

// c27DiffStep compares two steps; rel == 0 means bitwise (NaN-aware).
func c27DiffStep(a, b c27Step, rel float64) string {
	keys := map[string]bool{}
	for k := range a {
		keys[k] = true
	}
	for k := range b {
		keys[k] = true
	}
	ks := make([]string, 0, len(keys))
	for k := range keys {
		ks = append(ks, k)
	}
	sort.Strings(ks)
	for _, k := range ks {
		va, oka := a[k]
		vb, okb := b[k]
		switch {
		case !oka:
			return fmt.Sprintf("element %s = %s only in the second result", k, c27ValString(vb))
		case !okb:
			return fmt.Sprintf("element %s = %s only in the first result", k, c27ValString(va))
		}
		if va.H != nil || vb.H != nil {
			var d string
			if rel == 0 {
				d = c27SameHist(va.H, vb.H)
			} else {
				d = c27CloseHist(va.H, vb.H, rel)
			}
			if d != "" {
				return fmt.Sprintf("element %s: %s: %s vs %s", k, d, c27ValString(va), c27ValString(vb))
			}
			continue
		}
		if rel == 0 {
			if !c27SameFloat(va.F, vb.F) {
				return fmt.Sprintf("element %s: %s vs %s", k, c27ValString(va), c27ValString(vb))
			}
		} else if !c27CloseFloat(math.Float64frombits(va.F), math.Float64frombits(vb.F), rel) {
			return fmt.Sprintf("element %s: %s vs %s", k, c27ValString(va), c27ValString(vb))
		}
	}
	return ""
}
