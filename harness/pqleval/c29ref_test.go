package pqleval

// Reference evaluator for C29, written from docs/querying/operators.md: aggregation
// operators with by / without and binary operators with vector matching over instant
// vectors. It never imports promql; numbers are plain float64 (sums in math/big).

import (
	"fmt"
	"math"
	"math/big"
	"sort"
	"strconv"
	"strings"
)

// ---- expression tree (serialisable) ----

type c29Node struct {
	Kind string // "sel" | "agg" | "bin" | "num"
	Side int    `json:",omitempty"` // sel: 0 = left input vector, 1 = right input vector
	Num  uint64 `json:",omitempty"` // num: float bits
	Op   string `json:",omitempty"`

	// aggregation
	Clause   string   `json:",omitempty"` // "" | "by" | "without"
	Grouping []string `json:",omitempty"`
	Param    uint64   `json:",omitempty"` // k / q as float bits
	CVLabel  string   `json:",omitempty"`

	// binary operator
	Bool    bool     `json:",omitempty"`
	Match   string   `json:",omitempty"` // "" | "on" | "ignoring"
	MatchL  []string `json:",omitempty"`
	Group   string   `json:",omitempty"` // "" | "left" | "right"
	Include []string `json:",omitempty"`
	FillL   *uint64  `json:",omitempty"`
	FillR   *uint64  `json:",omitempty"`

	A *c29Node `json:",omitempty"`
	B *c29Node `json:",omitempty"`
}

func c29Num(f float64) string {
	switch {
	case math.IsNaN(f):
		return "NaN"
	case math.IsInf(f, 1):
		return "Inf"
	case math.IsInf(f, -1):
		return "-Inf"
	}
	return strconv.FormatFloat(f, 'g', -1, 64)
}

// c29Render prints the PromQL text of the tree. sel[i] is the text selecting input vector i.
func c29Render(n *c29Node, sel [2]string) string {
	switch n.Kind {
	case "sel":
		return sel[n.Side]
	case "num":
		return c29Num(math.Float64frombits(n.Num))
	case "agg":
		arg := c29Render(n.A, sel)
		switch n.Op {
		case "topk", "bottomk", "limitk", "quantile":
			arg = c29Num(math.Float64frombits(n.Param)) + ", " + arg
		case "count_values":
			arg = strconv.Quote(n.CVLabel) + ", " + arg
		}
		cl := ""
		if n.Clause != "" {
			cl = " " + n.Clause + " (" + strings.Join(n.Grouping, ", ") + ")"
		}
		return n.Op + cl + " (" + arg + ")"
	case "bin":
		var b strings.Builder
		b.WriteString("(" + c29Render(n.A, sel) + ") " + n.Op)
		if n.Bool {
			b.WriteString(" bool")
		}
		if n.Match != "" {
			b.WriteString(" " + n.Match + " (" + strings.Join(n.MatchL, ", ") + ")")
		}
		if n.Group != "" {
			// always with a label list: `group_left (expr)` would read the operand as that list
			b.WriteString(" group_" + n.Group + " (" + strings.Join(n.Include, ", ") + ")")
		}
		switch {
		case n.FillL != nil && n.FillR != nil && *n.FillL == *n.FillR:
			b.WriteString(" fill(" + c29Num(math.Float64frombits(*n.FillL)) + ")")
		default:
			if n.FillL != nil {
				b.WriteString(" fill_left(" + c29Num(math.Float64frombits(*n.FillL)) + ")")
			}
			if n.FillR != nil {
				b.WriteString(" fill_right(" + c29Num(math.Float64frombits(*n.FillR)) + ")")
			}
		}
		b.WriteString(" (" + c29Render(n.B, sel) + ")")
		return b.String()
	}
	return "?"
}

// ---- values ----

// c29H is what the reference knows about a histogram sample: count and sum of
// observations, and (while the sample is an unmodified copy of an input) its identity.
type c29H struct {
	Count, Sum float64
	ID         int // index of the input histogram it is an unmodified copy of, -1 otherwise
}

type c29V struct {
	L   map[string]string // label set, "__name__" included when present
	F   float64
	H   *c29H
	Tol float64 // absolute tolerance the documented computation leaves room for (rounding of a sum)
	Sq  bool    // compare squares (stddev: Tol is the tolerance of the variance)
	// Loose: the sum of the absolute values exceeds the float64 range, so a straightforward
	// summation may overflow on the way although the exact result is finite: +-Inf and NaN
	// are accepted besides the exact value.
	Loose bool
}

func c29Key(l map[string]string) string {
	ks := make([]string, 0, len(l))
	for k, v := range l {
		if v != "" {
			ks = append(ks, k)
		}
	}
	sort.Strings(ks)
	var b strings.Builder
	for _, k := range ks {
		b.WriteString(k + "=" + strconv.Quote(l[k]) + ",")
	}
	return b.String()
}

func c29CopyL(l map[string]string) map[string]string {
	o := make(map[string]string, len(l))
	for k, v := range l {
		if v != "" {
			o[k] = v
		}
	}
	return o
}

// c29Out is the reference result of a node.
type c29Out struct {
	Scalar   bool
	S        float64
	V        []c29V
	Err      string // "" | "match" | "dup": the documented error that must occur
	MayErr   bool   // duplicates in a match group that has no partner: an error is acceptable, so is the natural result
	Unstable bool   // a comparison / selection sits within rounding distance of its threshold
	ZeroTie  bool   // min / max over a group holding +0 and -0 returned a zero: either sign is right, a parent may tell them apart
	NameFree bool   // comparison filter with on(...) and group_left/right: the docs say the name is dropped "if on is used", the tests keep the many side's name; either is accepted
	// for checks of order-free selections
	Free *c29Free
	// bookkeeping for the non-trivial rule
	Groups, Pairs int
}

// c29Free describes a result that is not a single fixed vector: per bucket, count
// elements must be returned, Must all included, the rest taken from May.
type c29Free struct {
	Buckets []c29FreeBucket
	Op      string
}

type c29FreeBucket struct {
	Count int
	Must  []c29V
	May   []c29V
}

type c29Eval struct {
	in     [2][]c29V
	histEq func(a, b int) bool // equality of two input histograms (the check owns them)
	// Deviations of the engine from the documented semantics that are listed as findings;
	// the check uses them only to attribute a violation to its root cause.
	quirkQuantileInf bool // quantile: v[lo]*(1-w) + v[hi]*w even when w == 0 (Inf*0 = NaN)
	quirkFillInvalid bool // fill: a matched pair whose operation is invalid (float vs histogram) counts as missing
}

func c29IsArith(op string) bool {
	switch op {
	case "+", "-", "*", "/", "%", "^", "atan2":
		return true
	}
	return false
}

func c29IsCmp(op string) bool {
	switch op {
	case "==", "!=", ">", "<", ">=", "<=":
		return true
	}
	return false
}

func c29IsSet(op string) bool { return op == "and" || op == "or" || op == "unless" }

func c29Arith(op string, l, r float64) float64 {
	switch op {
	case "+":
		return l + r
	case "-":
		return l - r
	case "*":
		return l * r
	case "/":
		return l / r
	case "%":
		return math.Mod(l, r)
	case "^":
		return math.Pow(l, r)
	case "atan2":
		return math.Atan2(l, r)
	}
	panic("op " + op)
}

func c29Cmp(op string, l, r float64) bool {
	switch op {
	case "==":
		return l == r
	case "!=":
		return l != r
	case ">":
		return l > r
	case "<":
		return l < r
	case ">=":
		return l >= r
	case "<=":
		return l <= r
	}
	panic("op " + op)
}

func c29Near(l, r float64) bool {
	if l == r || math.IsNaN(l) || math.IsNaN(r) || math.IsInf(l, 0) || math.IsInf(r, 0) {
		return false
	}
	return math.Abs(l-r) <= 1e-9*math.Max(math.Abs(l), math.Abs(r))
}

// c29Elem applies a binary operator to two matched samples (docs: "Arithmetic binary
// operators", "Comparison binary operators"). keep=false: the element is removed.
// For comparisons the returned value is the left-hand value (the filter keeps it).
func (e *c29Eval) elem(op string, l, r c29V, out *c29Out) (f float64, h *c29H, keep, valid bool) {
	switch {
	case l.H == nil && r.H == nil:
		if c29IsArith(op) {
			return c29Arith(op, l.F, r.F), nil, true, true
		}
		if c29Near(l.F, r.F) {
			out.Unstable = true
		}
		return l.F, nil, c29Cmp(op, l.F, r.F), true
	case l.H == nil && r.H != nil:
		if op == "*" {
			return 0, &c29H{Count: r.H.Count * l.F, Sum: r.H.Sum * l.F, ID: -1}, true, true
		}
		return 0, nil, false, false
	case l.H != nil && r.H == nil:
		switch op {
		case "*":
			return 0, &c29H{Count: l.H.Count * r.F, Sum: l.H.Sum * r.F, ID: -1}, true, true
		case "/":
			return 0, &c29H{Count: l.H.Count / r.F, Sum: l.H.Sum / r.F, ID: -1}, true, true
		}
		return 0, nil, false, false
	default:
		switch op {
		case "+":
			return 0, &c29H{Count: l.H.Count + r.H.Count, Sum: l.H.Sum + r.H.Sum, ID: -1}, true, true
		case "-":
			return 0, &c29H{Count: l.H.Count - r.H.Count, Sum: l.H.Sum - r.H.Sum, ID: -1}, true, true
		case "==", "!=":
			if l.H.ID < 0 || r.H.ID < 0 {
				out.Unstable = true // equality of computed histograms is not modelled
				return 0, nil, false, true
			}
			eq := e.histEq(l.H.ID, r.H.ID)
			return 0, l.H, eq == (op == "=="), true
		}
		return 0, nil, false, false
	}
}

func c29Sig(l map[string]string, match string, names []string) string {
	m := map[string]string{}
	if match == "on" {
		for _, n := range names {
			if v := l[n]; v != "" {
				m[n] = v
			}
		}
	} else {
		for k, v := range l {
			m[k] = v
		}
		delete(m, "__name__")
		for _, n := range names {
			delete(m, n)
		}
	}
	return c29Key(m)
}

func c29MatchLabels(l map[string]string, match string, names []string) map[string]string {
	m := map[string]string{}
	if match == "on" {
		for _, n := range names {
			if v := l[n]; v != "" {
				m[n] = v
			}
		}
		return m
	}
	for k, v := range l {
		m[k] = v
	}
	delete(m, "__name__")
	for _, n := range names {
		delete(m, n)
	}
	return m
}

func (e *c29Eval) eval(n *c29Node) c29Out {
	switch n.Kind {
	case "sel":
		v := make([]c29V, len(e.in[n.Side]))
		for i, x := range e.in[n.Side] {
			v[i] = c29V{L: c29CopyL(x.L), F: x.F, H: x.H}
		}
		return c29Out{V: v}
	case "num":
		return c29Out{Scalar: true, S: math.Float64frombits(n.Num)}
	case "agg":
		in := e.eval(n.A)
		if in.Err != "" {
			return in
		}
		out := e.agg(n, in.V)
		out.MayErr = out.MayErr || in.MayErr
		out.Unstable = out.Unstable || in.Unstable || in.Free != nil || in.ZeroTie
		return out
	case "bin":
		a, b := e.eval(n.A), e.eval(n.B)
		if a.Err != "" || b.Err != "" {
			o := c29Out{Err: a.Err, MayErr: a.MayErr || b.MayErr}
			if o.Err == "" {
				o.Err = b.Err
			}
			if a.Err != "" && b.Err != "" && a.Err != b.Err {
				o.Err = "any"
			}
			return o
		}
		var out c29Out
		switch {
		case a.Scalar && b.Scalar:
			out = c29Out{Scalar: true}
			if c29IsArith(n.Op) {
				out.S = c29Arith(n.Op, a.S, b.S)
			} else {
				if c29Near(a.S, b.S) {
					out.Unstable = true
				}
				if c29Cmp(n.Op, a.S, b.S) {
					out.S = 1
				}
			}
		case a.Scalar:
			out = e.vecScalar(n, b.V, a.S, true)
		case b.Scalar:
			out = e.vecScalar(n, a.V, b.S, false)
		case c29IsSet(n.Op):
			out = e.setOp(n, a.V, b.V)
		default:
			out = e.vecVec(n, a.V, b.V)
		}
		out.MayErr = out.MayErr || a.MayErr || b.MayErr
		out.Unstable = out.Unstable || a.Unstable || b.Unstable || a.Free != nil || b.Free != nil || a.ZeroTie || b.ZeroTie
		return out
	}
	panic("kind " + n.Kind)
}

// c29Dup reports whether a vector holds the same label set twice ("Every time series of
// the result vector must be uniquely identifiable").
func c29Dup(v []c29V) bool {
	seen := map[string]bool{}
	for _, x := range v {
		k := c29Key(x.L)
		if seen[k] {
			return true
		}
		seen[k] = true
	}
	return false
}

func (e *c29Eval) vecScalar(n *c29Node, v []c29V, s float64, scalarLeft bool) c29Out {
	var out c29Out
	sv := c29V{F: s}
	for _, x := range v {
		l, r := x, sv
		if scalarLeft {
			l, r = sv, x
		}
		f, h, keep, valid := e.elem(n.Op, l, r, &out)
		if !valid {
			continue
		}
		lbl := c29CopyL(x.L)
		if c29IsArith(n.Op) {
			delete(lbl, "__name__")
			out.V = append(out.V, c29V{L: lbl, F: f, H: h})
			continue
		}
		// comparison: the vector element's value is kept whatever side it is on
		if n.Bool {
			delete(lbl, "__name__")
			val := 0.0
			if keep {
				val = 1
			}
			out.V = append(out.V, c29V{L: lbl, F: val})
			continue
		}
		if keep {
			out.V = append(out.V, c29V{L: lbl, F: x.F, H: x.H})
		}
	}
	out.Pairs = len(v)
	if c29Dup(out.V) {
		return c29Out{Err: "dup"}
	}
	return out
}

func (e *c29Eval) setOp(n *c29Node, a, b []c29V) c29Out {
	var out c29Out
	inA, inB := map[string]bool{}, map[string]bool{}
	for _, x := range a {
		inA[c29Sig(x.L, n.Match, n.MatchL)] = true
	}
	for _, x := range b {
		inB[c29Sig(x.L, n.Match, n.MatchL)] = true
	}
	switch n.Op {
	case "and":
		for _, x := range a {
			if inB[c29Sig(x.L, n.Match, n.MatchL)] {
				out.V = append(out.V, x)
				out.Pairs++
			}
		}
	case "unless":
		for _, x := range a {
			if !inB[c29Sig(x.L, n.Match, n.MatchL)] {
				out.V = append(out.V, x)
			} else {
				out.Pairs++
			}
		}
	case "or":
		out.V = append(out.V, a...)
		for _, x := range b {
			if !inA[c29Sig(x.L, n.Match, n.MatchL)] {
				out.V = append(out.V, x)
			} else {
				out.Pairs++
			}
		}
	}
	if c29Dup(out.V) {
		return c29Out{Err: "dup"}
	}
	return out
}

func (e *c29Eval) vecVec(n *c29Node, a, b []c29V) c29Out {
	var out c29Out
	type grp struct{ l, r []c29V }
	groups := map[string]*grp{}
	var order []string
	get := func(s string) *grp {
		g := groups[s]
		if g == nil {
			g = &grp{}
			groups[s] = g
			order = append(order, s)
		}
		return g
	}
	for _, x := range a {
		g := get(c29Sig(x.L, n.Match, n.MatchL))
		g.l = append(g.l, x)
	}
	for _, x := range b {
		g := get(c29Sig(x.L, n.Match, n.MatchL))
		g.r = append(g.r, x)
	}
	sort.Strings(order)
	dropName := c29IsArith(n.Op) || n.Bool
	if !dropName && n.Match == "on" && n.Group != "" {
		out.NameFree = true
	}
	for _, s := range order {
		g := groups[s]
		ls, rs := g.l, g.r
		genuine := len(ls) > 0 && len(rs) > 0
		if len(ls) == 0 && len(rs) > 0 && n.FillL != nil {
			ls = []c29V{{L: c29MatchLabels(rs[0].L, n.Match, n.MatchL), F: math.Float64frombits(*n.FillL)}}
		}
		if len(rs) == 0 && len(ls) > 0 && n.FillR != nil {
			rs = []c29V{{L: c29MatchLabels(ls[0].L, n.Match, n.MatchL), F: math.Float64frombits(*n.FillR)}}
		}
		dupOne := false
		switch n.Group {
		case "":
			dupOne = len(ls) > 1 || len(rs) > 1
		case "left":
			dupOne = len(rs) > 1
		case "right":
			dupOne = len(ls) > 1
		}
		if len(ls) == 0 || len(rs) == 0 {
			if dupOne {
				out.MayErr = true
			}
			continue
		}
		if dupOne {
			// Several elements on a side that may hold only one. Certainly an error when the
			// "one" side of a many-to-one match is not unique, or when two pairs of a
			// one-to-one match are valid operations; when at most one pair is a valid
			// operation (the others are float/histogram combinations without result) the
			// docs leave it open: error or the valid pair.
			certain := true
			if n.Group == "" && (len(ls) == 1 || len(rs) == 1) {
				valid := 0
				var probe c29Out
				for _, l := range ls {
					for _, r := range rs {
						if _, _, _, ok := e.elem(n.Op, l, r, &probe); ok {
							valid++
						}
					}
				}
				certain = valid >= 2
			}
			if certain {
				return c29Out{Err: "match", MayErr: out.MayErr}
			}
			out.MayErr = true
			// natural result: every valid pair
			if len(rs) > 1 {
				// keep the single left element, pair it with the right elements one by one
				for _, r := range rs {
					if f, h, keep, ok := e.elem(n.Op, ls[0], r, &out); ok {
						if v, kept := c29OneToOneResult(n, ls[0], f, h, keep); kept {
							out.V = append(out.V, v)
						}
					}
				}
				continue
			}
		}
		many, one := ls, rs[0]
		if n.Group == "right" {
			many, one = rs, ls[0]
		}
		type res struct {
			v    c29V
			kept bool
		}
		var rr []res
		if e.quirkFillInvalid && genuine {
			anyValid := false
			var probe c29Out
			for _, m := range many {
				l, r := m, one
				if n.Group == "right" {
					l, r = one, m
				}
				if _, _, _, valid := e.elem(n.Op, l, r, &probe); valid {
					anyValid = true
				}
			}
			manyFill := n.FillL
			if n.Group == "right" {
				manyFill = n.FillR
			}
			if !anyValid && manyFill != nil {
				many = append(append([]c29V(nil), many...), c29V{L: c29MatchLabels(one.L, n.Match, n.MatchL), F: math.Float64frombits(*manyFill)})
			}
		}
		for _, m := range many {
			l, r := m, one
			if n.Group == "right" {
				l, r = one, m
			}
			f, h, keep, valid := e.elem(n.Op, l, r, &out)
			out.Pairs++
			lbl := c29CopyL(m.L)
			if dropName {
				delete(lbl, "__name__")
			}
			if n.Group == "" {
				if n.Match == "on" {
					kept := map[string]string{}
					for _, name := range n.MatchL {
						if v := lbl[name]; v != "" {
							kept[name] = v
						}
					}
					lbl = kept
				} else {
					for _, name := range n.MatchL {
						delete(lbl, name)
					}
				}
			}
			for _, name := range n.Include {
				if v := one.L[name]; v != "" {
					lbl[name] = v
				} else {
					delete(lbl, name)
				}
			}
			switch {
			case !valid:
				rr = append(rr, res{c29V{L: lbl}, false})
			case c29IsArith(n.Op):
				rr = append(rr, res{c29V{L: lbl, F: f, H: h}, true})
			case n.Bool:
				val := 0.0
				if keep {
					val = 1
				}
				rr = append(rr, res{c29V{L: lbl, F: val}, true})
			default:
				// filter: the left-hand value is kept
				rr = append(rr, res{c29V{L: lbl, F: l.F, H: l.H}, keep})
			}
		}
		seen := map[string]bool{}
		for _, x := range rr {
			k := c29Key(x.v.L)
			if prev, ok := seen[k]; ok {
				if prev && x.kept {
					return c29Out{Err: "match", MayErr: true}
				}
				out.MayErr = true
			}
			seen[k] = seen[k] || x.kept
			if x.kept {
				out.V = append(out.V, x.v)
			}
		}
	}
	if c29Dup(out.V) {
		return c29Out{Err: "any", MayErr: out.MayErr}
	}
	return out
}

// c29OneToOneResult builds the output element of a valid one-to-one pair.
func c29OneToOneResult(n *c29Node, l c29V, f float64, h *c29H, keep bool) (c29V, bool) {
	lbl := c29CopyL(l.L)
	if c29IsArith(n.Op) || n.Bool {
		delete(lbl, "__name__")
	}
	if n.Match == "on" {
		kept := map[string]string{}
		for _, name := range n.MatchL {
			if v := lbl[name]; v != "" {
				kept[name] = v
			}
		}
		lbl = kept
	} else {
		for _, name := range n.MatchL {
			delete(lbl, name)
		}
	}
	switch {
	case c29IsArith(n.Op):
		return c29V{L: lbl, F: f, H: h}, true
	case n.Bool:
		if keep {
			return c29V{L: lbl, F: 1}, true
		}
		return c29V{L: lbl, F: 0}, true
	}
	return c29V{L: lbl, F: l.F, H: l.H}, keep
}

// ---- aggregations ----

func c29ExactSum(xs []float64) (sum float64, absSum float64, finite bool) {
	nan, pinf, ninf := false, false, false
	acc := new(big.Float).SetPrec(2200)
	for _, x := range xs {
		switch {
		case math.IsNaN(x):
			nan = true
		case math.IsInf(x, 1):
			pinf = true
		case math.IsInf(x, -1):
			ninf = true
		default:
			acc.Add(acc, new(big.Float).SetPrec(2200).SetFloat64(x))
			absSum += math.Abs(x)
		}
	}
	switch {
	case nan || (pinf && ninf):
		return math.NaN(), absSum, false
	case pinf:
		return math.Inf(1), absSum, false
	case ninf:
		return math.Inf(-1), absSum, false
	}
	f, _ := acc.Float64()
	return f, absSum, true
}

func c29ExactMean(xs []float64) float64 {
	acc := new(big.Float).SetPrec(2200)
	for _, x := range xs {
		acc.Add(acc, new(big.Float).SetPrec(2200).SetFloat64(x))
	}
	acc.Quo(acc, new(big.Float).SetPrec(2200).SetInt64(int64(len(xs))))
	f, _ := acc.Float64()
	return f
}

// c29Quantile: the value at rank q*(n-1) of the ascending values (NaN smallest), linearly
// interpolated between the two neighbouring ranks.
func c29Quantile(q float64, xs []float64, quirkInf bool) float64 {
	if len(xs) == 0 || math.IsNaN(q) {
		return math.NaN()
	}
	if q < 0 {
		return math.Inf(-1)
	}
	if q > 1 {
		return math.Inf(1)
	}
	v := append([]float64(nil), xs...)
	sort.Slice(v, func(i, j int) bool {
		if math.IsNaN(v[i]) {
			return !math.IsNaN(v[j])
		}
		return v[i] < v[j]
	})
	rank := q * float64(len(v)-1)
	lo := int(math.Floor(rank))
	if lo < 0 {
		lo = 0
	}
	hi := lo + 1
	if hi > len(v)-1 {
		hi = len(v) - 1
	}
	w := rank - math.Floor(rank)
	if w == 0 && !quirkInf {
		return v[lo]
	}
	return v[lo]*(1-w) + v[hi]*w
}

func (e *c29Eval) agg(n *c29Node, in []c29V) c29Out {
	var out c29Out
	type grp struct {
		lbl   map[string]string
		elems []c29V
	}
	groups := map[string]*grp{}
	var order []string
	cv := n.Op == "count_values"
	for _, x := range in {
		src := x.L
		if cv {
			// the value label is part of the element before grouping
			src = c29CopyL(x.L)
			src[n.CVLabel] = strconv.FormatFloat(x.F, 'f', -1, 64)
		}
		var gl map[string]string
		switch n.Clause {
		case "by":
			gl = map[string]string{}
			names := n.Grouping
			if cv {
				names = append(append([]string(nil), names...), n.CVLabel)
			}
			for _, name := range names {
				if v := src[name]; v != "" {
					gl[name] = v
				}
			}
		case "without":
			gl = c29CopyL(src)
			delete(gl, "__name__")
			for _, name := range n.Grouping {
				delete(gl, name)
			}
		default:
			gl = map[string]string{}
			if cv {
				gl[n.CVLabel] = src[n.CVLabel]
			}
		}
		k := c29Key(gl)
		g := groups[k]
		if g == nil {
			g = &grp{lbl: gl}
			groups[k] = g
			order = append(order, k)
		}
		g.elems = append(g.elems, x)
	}
	sort.Strings(order)
	param := math.Float64frombits(n.Param)
	for _, k := range order {
		g := groups[k]
		var fs []float64
		var hs []*c29H
		for _, x := range g.elems {
			if x.H != nil {
				hs = append(hs, x.H)
			} else {
				fs = append(fs, x.F)
			}
		}
		emit := func(f float64) { out.V = append(out.V, c29V{L: g.lbl, F: f}) }
		switch n.Op {
		case "sum", "avg":
			if len(fs) > 0 && len(hs) > 0 {
				continue // mix of floats and histograms: element removed
			}
			if len(hs) > 0 {
				var cs, ss []float64
				for _, h := range hs {
					cs = append(cs, h.Count)
					ss = append(ss, h.Sum)
				}
				c, _, _ := c29ExactSum(cs)
				s, _, _ := c29ExactSum(ss)
				if n.Op == "avg" {
					c /= float64(len(hs))
					s /= float64(len(hs))
				}
				id := -1
				if len(hs) == 1 {
					id = -2 // a single histogram: sum and average equal the input up to representation
				}
				out.V = append(out.V, c29V{L: g.lbl, H: &c29H{Count: c, Sum: s, ID: id}})
				continue
			}
			s, abs, finite := c29ExactSum(fs)
			tol := 1e-12 * abs
			if n.Op == "avg" {
				if finite {
					s = c29ExactMean(fs)
				}
				// non finite sum: NaN / ±Inf divided by the count stays what it is
				tol /= float64(len(fs))
			}
			out.V = append(out.V, c29V{L: g.lbl, F: s, Tol: tol, Loose: math.IsInf(abs, 0)})
		case "min", "max":
			if len(fs) == 0 {
				continue
			}
			best := math.NaN()
			for _, f := range fs {
				if math.IsNaN(best) || (n.Op == "min" && f < best) || (n.Op == "max" && f > best) {
					if !math.IsNaN(f) || math.IsNaN(best) {
						best = f
					}
				}
			}
			if best == 0 {
				pos, neg := false, false
				for _, f := range fs {
					if f == 0 {
						if math.Signbit(f) {
							neg = true
						} else {
							pos = true
						}
					}
				}
				if pos && neg {
					out.ZeroTie = true
				}
			}
			emit(best)
		case "count":
			emit(float64(len(g.elems)))
		case "group":
			emit(1)
		case "stddev", "stdvar":
			if len(fs) == 0 {
				continue
			}
			mean := 0.0
			for _, f := range fs {
				mean += f
			}
			mean /= float64(len(fs))
			v := 0.0
			for _, f := range fs {
				v += (f - mean) * (f - mean)
			}
			v /= float64(len(fs))
			maxAbs := 0.0
			for _, f := range fs {
				if a := math.Abs(f); a > maxAbs && !math.IsInf(a, 0) {
					maxAbs = a
				}
			}
			if n.Op == "stddev" {
				out.V = append(out.V, c29V{L: g.lbl, F: math.Sqrt(v), Tol: 1e-12 * maxAbs * maxAbs, Sq: true})
			} else {
				out.V = append(out.V, c29V{L: g.lbl, F: v, Tol: 1e-12 * maxAbs * maxAbs})
			}
		case "quantile":
			if len(fs) == 0 {
				continue
			}
			qv := c29Quantile(param, fs, e.quirkQuantileInf)
			if qv == 0 {
				pos, neg := false, false
				for _, f := range fs {
					if f == 0 {
						if math.Signbit(f) {
							neg = true
						} else {
							pos = true
						}
					}
				}
				if pos && neg {
					out.ZeroTie = true // the order of equal zeros in the sort decides the sign
				}
			}
			emit(qv)
		case "count_values":
			emit(float64(len(g.elems)))
		case "topk", "bottomk", "limitk":
			if out.Free == nil {
				out.Free = &c29Free{Op: n.Op}
			}
			kk := int64(param)
			if kk < 1 {
				return c29Out{}
			}
			cand := g.elems
			if n.Op != "limitk" {
				cand = nil
				for _, x := range g.elems {
					if x.H == nil {
						cand = append(cand, x)
					}
				}
			}
			if len(cand) == 0 {
				continue
			}
			cnt := len(cand)
			if int64(cnt) > kk {
				cnt = int(kk)
			}
			b := c29FreeBucket{Count: cnt}
			if n.Op == "limitk" {
				b.May = cand
			} else {
				// rank: NaN farthest from the top (topk) / bottom (bottomk)
				s := append([]c29V(nil), cand...)
				better := func(x, y float64) bool { // x strictly ahead of y
					if math.IsNaN(x) {
						return false
					}
					if math.IsNaN(y) {
						return true
					}
					if n.Op == "topk" {
						return x > y
					}
					return x < y
				}
				sort.SliceStable(s, func(i, j int) bool { return better(s[i].F, s[j].F) })
				if cnt == len(s) {
					b.Must = s
				} else {
					edge := s[cnt-1].F
					same := func(x float64) bool { return x == edge || (math.IsNaN(x) && math.IsNaN(edge)) }
					for _, x := range s {
						switch {
						case same(x.F):
							b.May = append(b.May, x)
						case better(x.F, edge):
							b.Must = append(b.Must, x)
						case c29Near(x.F, edge):
							out.Unstable = true
						}
					}
					for _, x := range s[:cnt] {
						if !same(x.F) && c29Near(x.F, edge) {
							out.Unstable = true
						}
					}
				}
			}
			out.Free.Buckets = append(out.Free.Buckets, b)
		default:
			panic("agg " + n.Op)
		}
	}
	out.Groups = len(out.V)
	if out.Free != nil {
		out.Groups = len(out.Free.Buckets)
	}
	return out
}

func c29Describe(v []c29V) string {
	var parts []string
	for _, x := range v {
		val := fmt.Sprintf("%v", x.F)
		if x.H != nil {
			val = fmt.Sprintf("hist{count:%v sum:%v}", x.H.Count, x.H.Sum)
		}
		parts = append(parts, "{"+c29Key(x.L)+"} "+val)
	}
	sort.Strings(parts)
	return "[" + strings.Join(parts, "; ") + "]"
}
