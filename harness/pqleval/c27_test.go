package pqleval

import (
	"fmt"
	"math"
	"os"
	"regexp"
	"sort"
	"strings"
	"testing"
	"time"

	"github.com/prometheus/prometheus/model/labels"
	"github.com/prometheus/prometheus/promql/parser"
	"pgregory.net/rapid"

	"verifharness/internal/ev"
	"verifharness/internal/pqlgen"
)

// C27 — A range query equals instant queries at each step; `expr offset d` at t equals
// `expr` at t-d.
//
// Differential inside the real engine. The expression comes from the shared structural
// generator (internal/pqlgen) restricted to expressions that do not mention the query
// range. Two engine facts that are not part of the property are encoded as guards:
//   - the order in which an inner node hands its series to its parent differs between a
//     range evaluation (Go map order) and an instant evaluation (input order). Every
//     aggregation whose result depends on that order (floating point accumulation order
//     for sum / avg / stddev / stdvar, ±0 and tie handling for min / max / quantile) is
//     classified: input order deterministic (selector or range-vector function over a
//     selector) → compared bitwise; otherwise only accepted by the generator when nothing
//     above it can amplify a last-bit difference, and then compared with rel. 1e-9;
//   - topk / bottomk / limitk pick among equal elements by input order: they are only
//     generated as the outermost node and compared as value multisets / subsets of the
//     inner vector unless the inner vector has no ties.

type c27Case struct {
	Rel    string // "range" | "offset"
	Data   c27Data
	Eng    c27EngineOpts
	Expr   string
	Inner  string `json:",omitempty"` // operand of an outermost topk / bottomk / limitk
	Start  int64
	Step   int64
	N      int
	Offset int64 `json:",omitempty"` // offset relation: d in ms (may be negative)
}

var (
	c27Metrics = []string{"m1", "m2", "m3"}
	c27Labels  = []string{"a", "b", "job", "le"}
	c27Values  = []string{"a", "b", "1"}
	c27Steps   = []int64{1, 1000, 7000, 15000, 15000, 30000, 60000, 60000, 120000, 300000, 1020000}
	c27Offsets = []int64{1, 1000, 15000, 30000, 60000, 300000, 600000, 3600000, 90000, 7001}
	// functions of the evaluation time (offset relation only)
	c27TimeFns = []string{"time", "timestamp", "start_timestamp", "predict_linear", "ts_of_first_over_time", "ts_of_last_over_time",
		"ts_of_max_over_time", "ts_of_min_over_time", "info"}
	c27OrderAggs = []string{"topk", "bottomk", "limitk"}
)

// ---- expression classification ----

const (
	c27ModeBitwise = iota
	c27ModeTolerant
	c27ModeReject
)

func c27UnwrapParen(e parser.Expr) parser.Expr {
	for {
		p, ok := e.(*parser.ParenExpr)
		if !ok {
			return e
		}
		e = p.Expr
	}
}

// c27Ordered reports whether the series order of e's result is the same function of the
// data in a range and in an instant evaluation.
func c27Ordered(e parser.Expr) bool {
	switch n := c27UnwrapParen(e).(type) {
	case *parser.VectorSelector:
		return true
	case *parser.Call:
		switch n.Func.Name {
		case "label_replace", "label_join", "info", "absent_over_time":
			return false
		case "timestamp", "start_timestamp":
			_, ok := c27UnwrapParen(n.Args[0]).(*parser.VectorSelector)
			return ok
		}
		for _, a := range n.Args {
			switch m := a.(type) {
			case *parser.MatrixSelector:
				return true
			case *parser.SubqueryExpr:
				return c27Ordered(m.Expr)
			}
		}
	}
	return false
}

func c27OrderSensitiveAgg(op parser.ItemType) bool {
	switch op {
	case parser.SUM, parser.AVG, parser.STDDEV, parser.STDVAR, parser.MIN, parser.MAX, parser.QUANTILE:
		return true
	}
	return false
}

// c27Classify walks the expression. benign tracks whether every ancestor so far passes
// a last-bit difference through without amplifying it.
func c27Classify(e parser.Expr) int {
	mode := c27ModeBitwise
	var walk func(e parser.Expr, benign bool)
	up := func(m int) {
		if m > mode {
			mode = m
		}
	}
	walk = func(e parser.Expr, benign bool) {
		switch n := e.(type) {
		case *parser.ParenExpr:
			walk(n.Expr, benign)
		case *parser.UnaryExpr:
			walk(n.Expr, benign)
		case *parser.AggregateExpr:
			if n.Op == parser.TOPK || n.Op == parser.BOTTOMK || n.Op == parser.LIMITK {
				up(c27ModeReject) // only generated as the outermost node, handled by the caller
			}
			if c27OrderSensitiveAgg(n.Op) && !c27Ordered(n.Expr) {
				switch {
				case !benign, n.Op == parser.STDDEV, n.Op == parser.STDVAR:
					up(c27ModeReject)
				default:
					up(c27ModeTolerant)
				}
			}
			childBenign := benign
			switch n.Op {
			case parser.SUM, parser.AVG, parser.MIN, parser.MAX, parser.GROUP, parser.COUNT:
			default:
				childBenign = false
			}
			if n.Param != nil {
				walk(n.Param, false)
			}
			walk(n.Expr, childBenign)
		case *parser.BinaryExpr:
			walk(n.LHS, false)
			walk(n.RHS, false)
		case *parser.Call:
			for _, a := range n.Args {
				walk(a, false)
			}
		case *parser.SubqueryExpr:
			walk(n.Expr, false)
		case *parser.MatrixSelector, *parser.VectorSelector, *parser.NumberLiteral, *parser.StringLiteral:
		case *parser.StepInvariantExpr:
			walk(n.Expr, benign)
		}
	}
	walk(e, true)
	return mode
}

type c27Feat struct {
	rangeSel, subq, agg, at, offset, ext, binop, hfn bool
	depth                                            int
}

func c27Features(e parser.Expr) c27Feat {
	var f c27Feat
	var walk func(n parser.Node, d int)
	walk = func(n parser.Node, d int) {
		if d > f.depth {
			f.depth = d
		}
		switch x := n.(type) {
		case *parser.MatrixSelector:
			f.rangeSel = true
		case *parser.SubqueryExpr:
			f.subq = true
			if x.Timestamp != nil || x.StartOrEnd != 0 {
				f.at = true
			}
			if x.OriginalOffset != 0 || x.OriginalOffsetExpr != nil {
				f.offset = true
			}
		case *parser.AggregateExpr:
			f.agg = true
		case *parser.BinaryExpr:
			f.binop = true
		case *parser.Call:
			if strings.HasPrefix(x.Func.Name, "histogram_") {
				f.hfn = true
			}
		case *parser.VectorSelector:
			if x.Timestamp != nil || x.StartOrEnd != 0 {
				f.at = true
			}
			if x.OriginalOffset != 0 || x.OriginalOffsetExpr != nil {
				f.offset = true
			}
			if x.Anchored || x.Smoothed {
				f.ext = true
			}
		}
		for c := range parser.ChildrenIter(n) {
			walk(c, d+1)
		}
	}
	walk(e, 1)
	return f
}

// c27AddOffset adds d to the offset of every outermost selector / subquery.
func c27AddOffset(e parser.Expr, d time.Duration) {
	switch n := e.(type) {
	case *parser.ParenExpr:
		c27AddOffset(n.Expr, d)
	case *parser.UnaryExpr:
		c27AddOffset(n.Expr, d)
	case *parser.AggregateExpr:
		if n.Param != nil {
			c27AddOffset(n.Param, d)
		}
		c27AddOffset(n.Expr, d)
	case *parser.BinaryExpr:
		c27AddOffset(n.LHS, d)
		c27AddOffset(n.RHS, d)
	case *parser.Call:
		for _, a := range n.Args {
			c27AddOffset(a, d)
		}
	case *parser.SubqueryExpr:
		n.OriginalOffset += d
	case *parser.MatrixSelector:
		c27AddOffset(n.VectorSelector, d)
	case *parser.VectorSelector:
		n.OriginalOffset += d
	}
}

// ---- known finding ----

// Second finding (experimental --enable-feature=promql-delayed-name-removal only): a range
// evaluation collects the output samples of a node into series keyed by the hash of the
// full label set (the name is still attached), while "drop the name at the end" is a flag
// of the series taken from its first sample. `rate(m[1m]) or m` therefore yields one
// output series whose name is kept or dropped for all steps alike, whereas the instant
// query keeps it at the steps that come from `m` and drops it at the steps that come from
// rate(). Input predicate: delayed name removal on and the two results are identical once
// __name__ is removed from the label sets.
const c27SigDelayedMerge = "c27-delayed-name-removal-series-merge"

// Same option, different spot: cleanupMetricLabels -> mergeSeriesWithSameLabelset looks for
// equal timestamps among the floats and among the histograms of the merged series, not
// across the two: a float series and a histogram series that end up with the same label
// set yield one series with two samples at one timestamp (the instant query fails with
// "vector cannot contain metrics with the same labelset").
const c27SigDelayedMixed = "c27-delayed-name-removal-float-and-histogram-at-one-timestamp"

// Third finding: PreprocessExpr decides whether an aggregation is step invariant from its
// operand only (`case *parser.AggregateExpr: return preprocessExprHelper(n.Expr, ...)`); a
// parameter that changes with time (`quantile(scalar(q), m @ 0)`, `topk(scalar(k), m @ 0)`)
// is then evaluated once at the range start and used for every step. Input predicate: some
// aggregation has a parameter that reads a selector without @ (or time()), while every
// selector of its operand is pinned with @ and the operand calls no function of the
// evaluation time.
const c27SigAggParam = "c27-aggregation-param-not-step-invariant"

var c27TimeDependentFns = map[string]bool{"time": true, "timestamp": true, "start_timestamp": true, "days_in_month": true, "day_of_month": true,
	"day_of_week": true, "day_of_year": true, "hour": true, "minute": true, "month": true, "year": true, "predict_linear": true,
	"ts_of_first_over_time": true, "ts_of_last_over_time": true, "ts_of_max_over_time": true, "ts_of_min_over_time": true}

func c27KnownAggParam(e parser.Expr) bool {
	hit := false
	parser.Inspect(e, func(n parser.Node, _ []parser.Node) error {
		a, ok := n.(*parser.AggregateExpr)
		if !ok || a.Param == nil {
			return nil
		}
		paramVaries := false
		parser.Inspect(a.Param, func(m parser.Node, _ []parser.Node) error {
			switch x := m.(type) {
			case *parser.VectorSelector:
				if x.Timestamp == nil {
					paramVaries = true
				}
			case *parser.Call:
				if c27TimeDependentFns[x.Func.Name] {
					paramVaries = true
				}
			}
			return nil
		})
		pinned, sels := true, 0
		parser.Inspect(a.Expr, func(m parser.Node, path []parser.Node) error {
			switch x := m.(type) {
			case *parser.VectorSelector:
				sels++
				if x.Timestamp == nil {
					// pinned through an enclosing subquery with @?
					under := false
					for _, p := range path {
						if sq, ok := p.(*parser.SubqueryExpr); ok && sq.Timestamp != nil {
							under = true
						}
					}
					if !under {
						pinned = false
					}
				}
			case *parser.Call:
				if c27TimeDependentFns[x.Func.Name] {
					pinned = false
				}
			}
			return nil
		})
		if paramVaries && pinned && sels > 0 {
			hit = true
		}
		return nil
	})
	return hit
}

var c27reName = regexp.MustCompile(`__name__="(?:[^"\\]|\\.)*"(?:, )?`)

func c27StripName(s c27Step) (c27Step, bool) {
	out := c27Step{}
	for k, v := range s {
		k2 := c27reName.ReplaceAllString(k, "")
		if _, dup := out[k2]; dup {
			return nil, false
		}
		out[k2] = v
	}
	return out, true
}

func c27NameOnlyDiff(a, b c27Step, rel float64) bool {
	a2, ok1 := c27StripName(a)
	b2, ok2 := c27StripName(b)
	return ok1 && ok2 && c27DiffStep(a2, b2, rel) == ""
}

func c27ContainsAt(e parser.Expr) bool {
	found := false
	parser.Inspect(e, func(n parser.Node, _ []parser.Node) error {
		switch x := n.(type) {
		case *parser.VectorSelector:
			if x.Timestamp != nil {
				found = true
			}
		case *parser.SubqueryExpr:
			if x.Timestamp != nil {
				found = true
			}
		}
		return nil
	})
	return found
}

// c27KnownSubqAt is the input predicate of the finding: evaluated with an enclosing
// evaluator start evStart, some subquery that carries its own offset or @ and encloses an
// @ selector gets a first (step aligned) evaluation time equal to evStart. runSubquery
// then skips re-deriving the inner @ offsets (`if subqStart != ev.startTimestamp`) although
// they were computed relative to evStart minus the subquery's offset, and the inner @
// selectors are evaluated shifted by the subquery's offset.
func c27KnownSubqAt(e parser.Expr, evStart int64) bool {
	hit := false
	var walk func(n parser.Node, start int64)
	walk = func(n parser.Node, start int64) {
		if sq, ok := n.(*parser.SubqueryExpr); ok {
			off := sq.OriginalOffset.Milliseconds()
			if sq.Timestamp != nil {
				off += start - *sq.Timestamp
			}
			rng := sq.Range.Milliseconds()
			iv := sq.Step.Milliseconds()
			if iv <= 0 {
				iv = 60_000
			}
			st := iv * ((start - off - rng) / iv)
			if st <= start-off-rng {
				st += iv
			}
			if (sq.Timestamp != nil || sq.OriginalOffset != 0) && st == start && c27ContainsAt(sq.Expr) {
				hit = true
			}
			walk(sq.Expr, st)
			return
		}
		for c := range parser.ChildrenIter(n) {
			walk(c, start)
		}
	}
	walk(e, evStart)
	return hit
}

// ---- generator ----

func c27PqlOpts(rel string) pqlgen.Options {
	o := pqlgen.Options{
		Metrics: c27Metrics, Labels: c27Labels, Values: append([]string{"x y"}, c27Values...),
		MaxDepth:              3,
		AtTimestamps:          []string{"0", "10", "100.5", "1e3", "600", "1800", "-5"},
		NoQueryRangeDependent: true,
		ExcludeAggregations:   c27OrderAggs,
	}
	if rel == "offset" {
		o.NoAt = true
		o.NoTimeFunctions = true
		o.NoDurationExpr = true
		o.ExcludeFunctions = c27TimeFns
	}
	return o
}

var c27RangeFns = []string{"rate", "increase", "delta", "irate", "idelta", "deriv", "changes", "resets", "avg_over_time", "sum_over_time",
	"min_over_time", "max_over_time", "count_over_time", "last_over_time", "first_over_time", "present_over_time", "stddev_over_time",
	"stdvar_over_time", "mad_over_time", "quantile_over_time", "absent_over_time", "double_exponential_smoothing", "predict_linear",
	"ts_of_max_over_time", "ts_of_min_over_time", "ts_of_last_over_time", "ts_of_first_over_time", "rate", "increase", "sum_over_time", "avg_over_time"}

var c27HistFns = []string{"histogram_count", "histogram_sum", "histogram_avg", "histogram_stddev", "histogram_stdvar", "histogram_quantile", "histogram_fraction"}

// c27RangeCall renders fn(<matrix>) with the extra parameters the function needs; "" when
// the function is excluded for the relation.
func c27RangeCall(t *rapid.T, rel, matrix string) string {
	fn := rapid.SampledFrom(c27RangeFns).Draw(t, "rangefn")
	if rel == "offset" {
		for _, x := range c27TimeFns {
			if x == fn {
				fn = "rate"
			}
		}
	}
	switch fn {
	case "quantile_over_time":
		return fmt.Sprintf("quantile_over_time(%s, %s)", rapid.SampledFrom([]string{"0", "0.5", "0.9", "1", "-1", "2"}).Draw(t, "qot"), matrix)
	case "double_exponential_smoothing":
		return fmt.Sprintf("double_exponential_smoothing(%s, 0.5, 0.1)", matrix)
	case "predict_linear":
		return fmt.Sprintf("predict_linear(%s, %d)", matrix, rapid.IntRange(-60, 600).Draw(t, "plsecs"))
	}
	return fn + "(" + matrix + ")"
}

func c27HistCall(t *rapid.T, vec string) string {
	fn := rapid.SampledFrom(c27HistFns).Draw(t, "histfn")
	switch fn {
	case "histogram_quantile":
		return fmt.Sprintf("histogram_quantile(%s, %s)", rapid.SampledFrom([]string{"0", "0.5", "0.9", "1", "-1", "2", "NaN"}).Draw(t, "hq"), vec)
	case "histogram_fraction":
		return fmt.Sprintf("histogram_fraction(%s, %s, %s)", rapid.SampledFrom([]string{"0", "-Inf", "1", "-2"}).Draw(t, "hflo"), rapid.SampledFrom([]string{"1", "+Inf", "2.5", "10"}).Draw(t, "hfhi"), vec)
	}
	return fn + "(" + vec + ")"
}

var c27AggMods = []string{"", "", " by (a)", " by (b, job)", " without (a)", " without (le, job)", " by (job)", " without (b)"}

// c27Compose draws one expression string: either straight from the structural generator
// or a template around it that forces the node kinds the property is about (range
// selectors, subqueries, aggregations) to appear often.
func c27Compose(t *rapid.T, rel string, o pqlgen.Options) string {
	if len(o.Durations) == 0 {
		o.Durations = []string{"30s", "1m", "5m", "10m", "1h", "90s"}
	}
	// half of the operands are plain selectors that match whole metrics, so that vectors
	// with several (float and histogram) elements are common
	simpleSel := func() string {
		m := rapid.SampledFrom(o.Metrics).Draw(t, "smetric")
		switch rapid.IntRange(0, 5).Draw(t, "smatch") {
		case 0:
			return m + `{a!="b"}`
		case 1:
			return m + `{job=~".*"}`
		case 2:
			return `{__name__=~"m[12]"}`
		}
		return m
	}
	vec := func() string {
		if rapid.Bool().Draw(t, "simplevec") {
			return simpleSel()
		}
		return pqlgen.Expr(o, pqlgen.Vector).Draw(t, "vec")
	}
	mat := func() string {
		if rapid.Bool().Draw(t, "simplemat") {
			s := simpleSel() + "[" + rapid.SampledFrom(o.Durations).Draw(t, "srange") + "]"
			if !o.NoOffset && rapid.IntRange(0, 4).Draw(t, "soff") == 0 {
				s += " offset " + rapid.SampledFrom([]string{"30s", "1m", "-1m", "5m"}).Draw(t, "soffd")
			}
			return s
		}
		return pqlgen.Expr(o, pqlgen.Matrix).Draw(t, "mat")
	}
	subq := func() string {
		s := fmt.Sprintf("(%s)[%s:%s]", vec(), rapid.SampledFrom([]string{"1m", "5m", "10m", "90s", "1h"}).Draw(t, "sqrange"),
			rapid.SampledFrom([]string{"15s", "30s", "1m", "7s", "5m", "1s"}).Draw(t, "sqstep"))
		if rapid.IntRange(0, 4).Draw(t, "sqoff") == 0 {
			s += " offset " + rapid.SampledFrom([]string{"30s", "1m", "-1m", "5m", "7s"}).Draw(t, "sqoffd")
		}
		if rel != "offset" && rapid.IntRange(0, 5).Draw(t, "sqat") == 0 {
			s += " @ " + rapid.SampledFrom(o.AtTimestamps).Draw(t, "sqatts")
		}
		return s
	}
	agg := func(inner string) string {
		op := rapid.SampledFrom([]string{"sum", "avg", "count", "min", "max", "group", "stddev", "stdvar", "quantile", "count_values", "limit_ratio", "sum", "avg"}).Draw(t, "aggop")
		mod := rapid.SampledFrom(c27AggMods).Draw(t, "aggmod")
		switch op {
		case "quantile":
			return fmt.Sprintf("quantile%s (%s, %s)", mod, rapid.SampledFrom([]string{"0", "0.5", "0.9", "1", "-1", "2"}).Draw(t, "aggq"), inner)
		case "limit_ratio":
			return fmt.Sprintf("limit_ratio%s (%s, %s)", mod, rapid.SampledFrom([]string{"0.5", "-0.5", "1", "0.1", "-0.9"}).Draw(t, "aggr"), inner)
		case "count_values":
			return fmt.Sprintf("count_values%s (\"v\", %s)", mod, inner)
		}
		return op + mod + " (" + inner + ")"
	}
	binop := func(l, r string) string {
		op := rapid.SampledFrom([]string{"+", "-", "*", "/", "==", "!=", ">", "<", ">= bool", "and", "or", "unless", "%", "^", "atan2"}).Draw(t, "binop")
		m := rapid.SampledFrom([]string{"", "", " on (a)", " ignoring (b)", " on (job, a)", " ignoring (le)", " on ()"}).Draw(t, "binmatch")
		return "(" + l + ") " + op + m + " (" + r + ")"
	}
	switch rapid.IntRange(0, 11).Draw(t, "template") {
	case 0, 1, 2:
		return pqlgen.Expr(o, pqlgen.VectorOrScalar).Draw(t, "expr")
	case 3, 4:
		return c27RangeCall(t, rel, mat())
	case 5:
		return agg(c27RangeCall(t, rel, mat()))
	case 6:
		return c27RangeCall(t, rel, subq())
	case 7:
		return binop(c27RangeCall(t, rel, mat()), vec())
	case 8:
		return agg(vec())
	case 9:
		inner := vec()
		if rapid.Bool().Draw(t, "histrate") {
			inner = c27RangeCall(t, rel, mat())
		}
		return c27HistCall(t, inner)
	case 10:
		return binop(agg(vec()), agg(c27RangeCall(t, rel, mat())))
	default:
		return agg(binop(vec(), c27RangeCall(t, rel, subq())))
	}
}

func c27GenExpr(t *rapid.T, rel string) (expr, inner string) {
	o := c27PqlOpts(rel)
	o.MaxDepth = rapid.IntRange(1, 3).Draw(t, "depth")
	p := parser.NewParser(c27ParserAll)
	for try := 0; try < 8; try++ {
		s := c27Compose(t, rel, o)
		e, err := p.ParseExpr(s)
		if err != nil {
			continue // generator self-check
		}
		mode := c27Classify(e)
		if mode == c27ModeReject {
			continue
		}
		if mode == c27ModeBitwise && e.Type() == parser.ValueTypeVector && rapid.IntRange(0, 7).Draw(t, "wrapk") == 0 {
			op := rapid.SampledFrom(c27OrderAggs).Draw(t, "kop")
			k := rapid.SampledFrom([]int{0, 1, 1, 2, 3, 5}).Draw(t, "k")
			mod := rapid.SampledFrom(c27AggMods).Draw(t, "kmod")
			return fmt.Sprintf("%s%s (%d, %s)", op, mod, k, s), s
		}
		return s, ""
	}
	return rapid.SampledFrom(c27Metrics).Draw(t, "fallback"), ""
}

func genC27(t *rapid.T) c27Case {
	c := c27Case{Rel: "range"}
	if rapid.IntRange(0, 3).Draw(t, "rel") == 0 {
		c.Rel = "offset"
	}
	c.Eng = c27EngineOpts{
		LookbackMs: rapid.SampledFrom([]int64{1000, 30000, 300000, 300000, 600000}).Draw(t, "lookback"),
		Delayed:    rapid.IntRange(0, 5).Draw(t, "delayed") == 5,
		UseST:      rapid.IntRange(0, 3).Draw(t, "usest") == 3,
	}
	c.Data = c27GenData(t, c27DataOpts{MaxSeries: 8, MinT: -600_000, MaxT: 3_600_000, Metrics: c27Metrics, LabelNames: c27Labels,
		LabelValues: c27Values, Histograms: true, SpecialVals: true, ST: c.Eng.UseST,
		KeepEmptyLeadingSpans: rapid.IntRange(0, 9).Draw(t, "emptyleadingspans") == 0})
	c.Expr, c.Inner = c27GenExpr(t, c.Rel)
	c.Start = rapid.Int64Range(0, 1_200_000).Draw(t, "start")
	if rapid.IntRange(0, 2).Draw(t, "aligned") == 0 {
		c.Start = c.Start / 15000 * 15000
	}
	c.Step = rapid.SampledFrom(c27Steps).Draw(t, "step")
	c.N = rapid.IntRange(1, 50).Draw(t, "nsteps")
	if rapid.IntRange(0, 2).Draw(t, "fewsteps") == 0 {
		c.N = rapid.IntRange(1, 8).Draw(t, "nsteps2")
	}
	if c.Rel == "offset" {
		c.N = rapid.IntRange(1, 6).Draw(t, "noffsetpoints")
		c.Offset = rapid.SampledFrom(c27Offsets).Draw(t, "offset")
		if rapid.IntRange(0, 3).Draw(t, "negoffset") == 0 {
			c.Offset = -c.Offset
		}
	}
	return c
}

// ---- oracle ----

func c27AnnotClasses(ws []string) map[string]bool {
	m := map[string]bool{}
	for _, w := range ws {
		m[c27ErrClass(fmt.Errorf("%s", w))] = true
	}
	return m
}

func c27EqZero(a, b float64) bool { return a == b || (math.IsNaN(a) && math.IsNaN(b)) }

// c27TieAware compares the result of an outermost topk / bottomk / limitk: r and i must
// be equally large sub-vectors of x (bitwise equal values) with the same multiset of
// values; they must be identical when x has no ties.
func c27TieAware(op string, r, i, x c27Step) string {
	if len(r) != len(i) {
		return fmt.Sprintf("%d elements in the range query step, %d in the instant query", len(r), len(i))
	}
	for name, st := range map[string]c27Step{"range": r, "instant": i} {
		if x == nil {
			break // operand not available: sizes and value multisets only
		}
		for k, v := range st {
			xv, ok := x[k]
			if !ok {
				return fmt.Sprintf("%s result element %s is not an element of the operand vector", name, k)
			}
			if v.H != nil || xv.H != nil {
				if d := c27SameHist(v.H, xv.H); d != "" {
					return fmt.Sprintf("%s result element %s differs from the operand element (%s)", name, k, d)
				}
			} else if !c27SameFloat(v.F, xv.F) {
				return fmt.Sprintf("%s result element %s = %s, operand element = %s", name, k, c27ValString(v), c27ValString(xv))
			}
		}
	}
	if op == "limitk" {
		return "" // any k elements per group
	}
	vals := func(s c27Step) []float64 {
		var o []float64
		for _, v := range s {
			o = append(o, math.Float64frombits(v.F))
		}
		sort.Slice(o, func(a, b int) bool {
			if math.IsNaN(o[a]) {
				return !math.IsNaN(o[b])
			}
			return o[a] < o[b]
		})
		return o
	}
	rv, iv := vals(r), vals(i)
	for j := range rv {
		if !c27EqZero(rv[j], iv[j]) {
			return fmt.Sprintf("value multisets differ: range %v instant %v", rv, iv)
		}
	}
	// ties in the operand?
	xv := vals(x)
	ties := x == nil
	for j := 1; j < len(xv); j++ {
		if c27EqZero(xv[j-1], xv[j]) {
			ties = true
		}
	}
	if !ties {
		return c27DiffStep(r, i, 0)
	}
	return ""
}

func runC27(c c27Case, r *ev.Rec) error {
	if c.N < 1 || c.Step < 1 {
		r.Discard()
		return nil
	}
	p := parser.NewParser(c27ParserAll)
	ast, perr := p.ParseExpr(c.Expr)
	if perr != nil {
		// generator self-check: the generator only emits parseable, well-typed expressions
		r.Discard()
		return nil
	}
	q := c27NewQueryable(c.Data)
	ng := c27NewEngine(c.Eng)
	defer ng.Close()
	r.Class("rel:" + c.Rel)
	var classifyOn parser.Expr = ast
	kop := ""
	if c.Inner != "" {
		a, ok := ast.(*parser.AggregateExpr)
		if !ok {
			r.Discard()
			return nil
		}
		kop = a.Op.String()
		classifyOn = a.Expr
	}
	mode := c27Classify(classifyOn)
	if mode == c27ModeReject || (kop != "" && mode != c27ModeBitwise) {
		r.Discard()
		return nil
	}
	rel := 0.0
	if mode == c27ModeTolerant {
		rel = 1e-9
		r.Class("mode:tolerant")
	} else {
		r.Class("mode:bitwise")
	}
	feat := c27Features(ast)
	for name, on := range map[string]bool{"feat:range-selector": feat.rangeSel, "feat:subquery": feat.subq, "feat:aggregation": feat.agg, "feat:at": feat.at,
		"feat:offset": feat.offset, "feat:anchored/smoothed": feat.ext, "feat:binop": feat.binop, "feat:histogram-fn": feat.hfn, "feat:outer-topk/bottomk/limitk": kop != ""} {
		if on {
			r.Class(name)
		}
	}
	if c.Eng.Delayed {
		r.Class("eng:delayed-name-removal")
	}
	if c.Eng.UseST {
		r.Class("eng:start-timestamps")
	}
	if q.nHist > 0 {
		r.Class("data:histograms")
	}
	if q.nStale > 0 {
		r.Class("data:stale")
	}

	if c.Rel == "offset" {
		return runC27Offset(c, r, q, rel, feat, kop)
	}

	end := c.Start + int64(c.N-1)*c.Step
	rng := c27Range(ng, q, c.Expr, c.Start, end, c.Step)
	if rng.Err != nil {
		if _, isParse := rng.Err.(c27ParseErr); isParse {
			// rejected before evaluation (type / option check): the instant query must be rejected, too
			in := c27Instant(ng, q, c.Expr, c.Start)
			if _, ok := in.Err.(c27ParseErr); !ok {
				return ev.Failf("query %q: range query rejected at creation (%v) but the instant query is accepted (err=%v)", c.Expr, rng.Err, in.Err)
			}
			r.Class("res:rejected")
			return nil
		}
		if c27Internal(rng.Err) {
			r.Class("res:internal-error") // C33's business; here only the agreement of both forms is checked
		}
	}
	if rng.Dup != "" {
		if c.Eng.Delayed && rng.DupMixed {
			return ev.FailSig(c27SigDelayedMixed, "query %q (delayed name removal): the range result holds a float and a histogram sample for the same label set at the same time: %s", c.Expr, rng.Dup)
		}
		return ev.Failf("query %q: range result holds the same label set twice: %s", c.Expr, rng.Dup)
	}
	nonEmpty := 0
	instErr := map[string]int64{}
	var firstInstErr error
	unionWarn := map[string]bool{}
	for i := 0; i < c.N; i++ {
		ts := c.Start + int64(i)*c.Step
		in := c27Instant(ng, q, c.Expr, ts)
		if in.Err != nil {
			cl := c27ErrClass(in.Err)
			if _, ok := instErr[cl]; !ok {
				instErr[cl] = ts
			}
			if firstInstErr == nil {
				firstInstErr = in.Err
			}
			if rng.Err == nil && c27LazyValidation(in.Err) {
				r.Class("res:lazy-validation-error")
				return nil
			}
			if rng.Err == nil {
				msg := fmt.Sprintf("query %q (lookback %dms): the instant query at %d fails with %q but the range query [%d,%d] step %d succeeds", c.Expr, c.Eng.LookbackMs, ts, in.Err, c.Start, end, c.Step)
				if c27KnownAggParam(ast) {
					return ev.FailSig(c27SigAggParam, "%s", msg) // the parameter is only evaluated at the range start
				}
				return ev.Failf("%s", msg)
			}
			continue
		}
		for k := range c27AnnotClasses(in.Warnings) {
			unionWarn[k] = true
		}
		if rng.Err != nil {
			continue
		}
		is := in.Steps[ts]
		rs := rng.Steps[ts]
		if len(is) > 0 {
			nonEmpty++
		}
		var d string
		if kop != "" {
			x := c27Instant(ng, q, c.Inner, ts)
			switch {
			case x.Err != nil && c.Eng.Delayed:
				// with delayed name removal the duplicate check runs on the final result only: the
				// operand alone may fail where the selection of k elements does not
				d = c27TieAware(kop, rs, is, nil)
			case x.Err != nil:
				return ev.Failf("query %q at %d succeeds but its operand %q fails: %v", c.Expr, ts, c.Inner, x.Err)
			default:
				d = c27TieAware(kop, rs, is, x.Steps[ts])
			}
		} else {
			d = c27DiffStep(rs, is, rel)
		}
		if d != "" {
			msg := fmt.Sprintf("query %q (lookback %dms, delayed name removal %v, start timestamps %v): range query [%d,%d] step %d differs from the instant query at step %d (t=%d): %s (first = range, second = instant)\nrange step:   %s\ninstant: %s",
				c.Expr, c.Eng.LookbackMs, c.Eng.Delayed, c.Eng.UseST, c.Start, end, c.Step, i, ts, d, c27StepString(rs), c27StepString(is))
			if c.Eng.Delayed && c27NameOnlyDiff(rs, is, rel) {
				return ev.FailSig(c27SigDelayedMerge, "%s", msg)
			}
			if c27KnownAggParam(ast) {
				return ev.FailSig(c27SigAggParam, "%s", msg)
			}
			return ev.Failf("%s", msg)
		}
	}
	if rng.Err != nil {
		cl := c27ErrClass(rng.Err)
		if _, ok := instErr[cl]; !ok && c27LazyValidation(rng.Err) {
			r.Class("res:lazy-validation-error")
			return nil
		}
		if _, ok := instErr[cl]; !ok {
			sig := ""
			if cl == "vector cannot contain metrics with the same labelset" && (len(instErr) == 0 || c27MultiNameRangeCall(ast)) {
				// listed finding: a range-vector function checks its whole output matrix for equal
				// label sets (after dropping the name), not each step
				sig = "c27-range-same-labelset-across-steps"
			}
			if cl == "vector cannot contain metrics with the same labelset" && strings.Contains(c.Expr, "histogram_quantiles(") {
				// listed finding: histogram_quantiles with a repeated quantile value yields several
				// elements with one label set; the range evaluation rejects them, the instant
				// evaluation hands them on (e.g. to an aggregation) without complaint
				sig = "c27-histogram-quantiles-repeated-quantile-range-only-error"
			}
			msg := fmt.Sprintf("query %q (lookback %dms): the range query [%d,%d] step %d fails with %q but no step's instant query fails that way (instant errors: %v)", c.Expr, c.Eng.LookbackMs, c.Start, end, c.Step, rng.Err, firstInstErr)
			if sig == "" && c27KnownAggParam(ast) {
				sig = c27SigAggParam
			}
			if sig != "" {
				return ev.FailSig(sig, "%s", msg)
			}
			return ev.Failf("%s", msg)
		}
		r.Class("res:user-error")
		if c.N >= 3 {
			r.NonTrivial()
		}
		return nil
	}
	// timestamps outside the steps?
	for ts := range rng.Steps {
		if ts < c.Start || ts > end || (ts-c.Start)%c.Step != 0 {
			return ev.Failf("query %q: range result holds a sample at %d which is not a step of [%d,%d] step %d", c.Expr, ts, c.Start, end, c.Step)
		}
	}
	// annotation classes: the range query reports what the steps report (+ the documented sort warning)
	rw := c27AnnotClasses(rng.Warnings)
	for _, m := range []map[string]bool{rw, unionWarn} {
		for k := range m {
			if strings.Contains(k, "sort is ineffective") {
				delete(m, k) // documented: sorting has no effect in range evaluations (incl. subqueries)
			}
		}
	}
	if d := c27AnnotDiff(rw, unionWarn); d != "" {
		if os.Getenv("C27_ANNOT_DEBUG") != "" {
			fmt.Printf("ANNOT %q [%d..] step %d n %d: %s\n", c.Expr, c.Start, c.Step, c.N, d)
		}
		r.Class("annot:differ")
	} else if len(rw) > 0 {
		r.Class("annot:equal-nonempty")
	}
	if nonEmpty > 0 {
		r.Class("res:nonempty")
	} else {
		r.Class("res:all-empty")
	}
	if c.N >= 3 && (feat.rangeSel || feat.subq || feat.agg) && nonEmpty > 0 {
		r.NonTrivial()
	}
	return nil
}

// c27MultiNameRangeCall: some range-vector function is applied to a selector that can match
// several metric names (no equality matcher on __name__) or to a subquery.
func c27MultiNameRangeCall(e parser.Expr) bool {
	hit := false
	parser.Inspect(e, func(n parser.Node, _ []parser.Node) error {
		c, ok := n.(*parser.Call)
		if !ok {
			return nil
		}
		for _, a := range c.Args {
			switch m := a.(type) {
			case *parser.SubqueryExpr:
				hit = true
			case *parser.MatrixSelector:
				vs := m.VectorSelector.(*parser.VectorSelector)
				eq := false
				for _, lm := range vs.LabelMatchers {
					if lm.Name == "__name__" && lm.Type == labels.MatchEqual {
						eq = true
					}
				}
				if !eq {
					hit = true
				}
			}
		}
		return nil
	})
	return hit
}

// c27LazyValidation: the engine checks "anchored / smoothed modifier can only be used with
// ..." when the call is evaluated, not when the query is created. Inside a subquery the
// call is evaluated only if the subquery has a step to evaluate, which depends on the
// evaluation time (and a range evaluation may evaluate subquery steps no outer step
// consumes). The query is invalid either way; which evaluations notice is not this
// property's business.
func c27LazyValidation(err error) bool {
	return err != nil && strings.Contains(err.Error(), "modifier can only be used with")
}

func c27AnnotDiff(a, b map[string]bool) string {
	for k := range a {
		if !b[k] {
			return "only range: " + k
		}
	}
	for k := range b {
		if !a[k] {
			return "only instant: " + k
		}
	}
	return ""
}

func c27StepString(s c27Step) string {
	ks := make([]string, 0, len(s))
	for k := range s {
		ks = append(ks, k)
	}
	sort.Strings(ks)
	var b strings.Builder
	for i, k := range ks {
		if i > 0 {
			b.WriteString("; ")
		}
		if i >= 12 {
			b.WriteString("...")
			break
		}
		b.WriteString(k + " => " + c27ValString(s[k]))
	}
	return "[" + b.String() + "]"
}

// runC27Offset: instant `expr offset d` at t vs `expr` at t-d.
func runC27Offset(c c27Case, r *ev.Rec, q *c27Queryable, rel float64, feat c27Feat, kop string) error {
	ng := c27NewEngine(c.Eng)
	defer ng.Close()
	if feat.at {
		r.Discard()
		return nil
	}
	p := parser.NewParser(c27ParserAll)
	shifted, err := p.ParseExpr(c.Expr)
	if err != nil {
		r.Discard()
		return nil
	}
	// Both forms are printed from the AST so that they differ in the offsets only (the
	// printer sorts matchers, and absent() derives its labels from the matcher order).
	base := shifted.String()
	c27AddOffset(shifted, time.Duration(c.Offset)*time.Millisecond)
	sq := shifted.String()
	if _, err := p.ParseExpr(base); err != nil {
		r.Discard()
		return nil
	}
	if _, err := p.ParseExpr(sq); err != nil {
		// printing is C26's business; do not blame it on this property
		r.Discard()
		return nil
	}
	nonEmpty := 0
	for i := 0; i < c.N; i++ {
		ts := c.Start + int64(i)*c.Step
		a := c27Instant(ng, q, sq, ts)
		b := c27Instant(ng, q, base, ts-c.Offset)
		if c27LazyValidation(a.Err) || c27LazyValidation(b.Err) {
			r.Class("res:lazy-validation-error")
			continue
		}
		if (a.Err == nil) != (b.Err == nil) || c27ErrClass(a.Err) != c27ErrClass(b.Err) {
			return ev.Failf("%q at %d => err %v, but %q at %d => err %v (lookback %dms)", sq, ts, a.Err, base, ts-c.Offset, b.Err, c.Eng.LookbackMs)
		}
		if a.Err != nil {
			r.Class("res:user-error")
			continue
		}
		as, bs := a.Steps[ts], b.Steps[ts-c.Offset]
		if len(as) > 0 {
			nonEmpty++
		}
		var d string
		if kop != "" {
			inner := c.Inner
			if ie, err := p.ParseExpr(c.Inner); err == nil {
				inner = ie.String() // printed like the two compared forms (matcher order matters to absent())
			}
			x := c27Instant(ng, q, inner, ts-c.Offset)
			switch {
			case x.Err != nil && c.Eng.Delayed:
				d = c27TieAware(kop, as, bs, nil)
			case x.Err != nil:
				return ev.Failf("query %q at %d succeeds but its operand %q fails: %v", base, ts-c.Offset, inner, x.Err)
			default:
				d = c27TieAware(kop, as, bs, x.Steps[ts-c.Offset])
			}
		} else {
			d = c27DiffStep(as, bs, rel)
		}
		if d != "" {
			return ev.Failf("%q at %d differs from %q at %d (lookback %dms, delayed name removal %v, start timestamps %v): %s (first = with offset)\nwith offset: %s\nshifted time: %s",
				sq, ts, base, ts-c.Offset, c.Eng.LookbackMs, c.Eng.Delayed, c.Eng.UseST, d, c27StepString(as), c27StepString(bs))
		}
	}
	if nonEmpty > 0 {
		r.Class("res:nonempty")
		if feat.rangeSel || feat.subq || feat.agg {
			r.NonTrivial()
		}
	} else {
		r.Class("res:all-empty")
	}
	return nil
}

func TestC27(t *testing.T) {
	ev.Check(t, "C27",
		"1-8 generated series (floats incl. NaN/Inf/-0, float and integer native histograms incl. custom buckets, mixed series, gaps, irregular spacing, stale markers, optional start timestamps) in an in-memory queryable; a well-typed expression from the structural PromQL generator (no start()/end()/range()/step(), @ <fixed number> allowed, anchored/smoothed, subqueries, every function and aggregation; topk/bottomk/limitk only as outermost node); engine lookback / delayed name removal / start timestamps drawn. Relation 'range' (3/4): range query over 1-50 steps (step 1ms..17min, smaller and larger than the sample spacing and the ranges) vs one instant query per step: same label sets, floats bitwise (NaN-aware), histograms Equals + hint, errors of the same class; relation 'offset' (1/4, no @, no function of the evaluation time): instant `expr offset d` at t vs `expr` at t-d. Non-trivial: >=3 steps (range) and the expression contains a range selector, subquery or aggregation and at least one step has a non-empty result (or the query fails with the same user error in both forms); distinct by hash of the case.",
		genC27, runC27)
}
