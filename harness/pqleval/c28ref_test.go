package pqleval

import (
	"fmt"
	"sort"
	"strings"

	"verifharness/internal/gen"
)

// Reference evaluator for selector expressions, written from docs/querying/basics.md
// (instant vector selectors, range vector selectors, offset and @ modifiers, subquery,
// staleness). It never touches the promql engine.

// c28Mod is the offset / @ modifier pair of a selector or subquery.
type c28Mod struct {
	Off     int64  `json:",omitempty"` // ms, may be negative
	HasAt   bool   `json:",omitempty"`
	At      int64  `json:",omitempty"` // ms
	SE      string `json:",omitempty"` // "start" / "end": @ start() / @ end()
	AtFirst bool   `json:",omitempty"` // print "@ x offset d" instead of "offset d @ x"
}

// c28Query models
//
//	Sel   := Metric [offset][@]
//	Inner := Sel | InnerFn(Sel[InnerRng])
//	Top   := Inner                       (Top "inner")
//	       | Sel[InnerRng]               (Top "mat")
//	       | Inner[SubRng:SubStep] Sub   (Top "sub")
//	       | TopFn(Inner[SubRng:SubStep] Sub)  (Top "fnsub")
type c28Query struct {
	Metric   string
	Sel      c28Mod
	InnerFn  string `json:",omitempty"` // "", count_over_time, last_over_time, first_over_time
	InnerRng int64  `json:",omitempty"`
	Top      string
	TopFn    string `json:",omitempty"`
	SubRng   int64  `json:",omitempty"`
	SubStep  int64  `json:",omitempty"` // 0: default resolution
	Sub      c28Mod
}

func c28Dur(ms int64) string {
	if ms < 0 {
		return fmt.Sprintf("-%dms", -ms)
	}
	return fmt.Sprintf("%dms", ms)
}

func c28AtLit(ms int64) string {
	sign := ""
	if ms < 0 {
		sign = "-"
		ms = -ms
	}
	return fmt.Sprintf("%s%d.%03d", sign, ms/1000, ms%1000)
}

func (m c28Mod) String() string {
	at, off := "", ""
	switch {
	case m.SE != "":
		at = " @ " + m.SE + "()"
	case m.HasAt:
		at = " @ " + c28AtLit(m.At)
	}
	if m.Off != 0 {
		off = " offset " + c28Dur(m.Off)
	}
	if m.AtFirst {
		return at + off
	}
	return off + at
}

func (m c28Mod) any() bool { return m.Off != 0 || m.HasAt || m.SE != "" }

func (q c28Query) innerString() string {
	if q.InnerFn == "" {
		return q.Metric + q.Sel.String()
	}
	return fmt.Sprintf("%s(%s[%s]%s)", q.InnerFn, q.Metric, c28Dur(q.InnerRng), q.Sel.String())
}

func (q c28Query) subString() string {
	in := q.innerString()
	if q.InnerFn == "" && q.Sel.any() {
		in = "(" + in + ")"
	}
	step := ""
	if q.SubStep != 0 {
		step = c28Dur(q.SubStep)
	}
	return fmt.Sprintf("%s[%s:%s]%s", in, c28Dur(q.SubRng), step, q.Sub.String())
}

func (q c28Query) String() string {
	switch q.Top {
	case "inner":
		return q.innerString()
	case "mat":
		return fmt.Sprintf("%s[%s]%s", q.Metric, c28Dur(q.InnerRng), q.Sel.String())
	case "sub":
		return q.subString()
	case "fnsub":
		return fmt.Sprintf("%s(%s)", q.TopFn, q.subString())
	}
	return "?"
}

// vectorTyped reports whether the expression is an instant vector (usable in range queries).
func (q c28Query) vectorTyped() bool { return q.Top == "inner" || q.Top == "fnsub" }

// dropsName: every range-vector function except last_over_time/first_over_time removes
// the metric name (functions.md / operators: "the metric name is dropped").
func (q c28Query) dropsName() bool {
	switch q.Top {
	case "inner", "sub":
		return q.InnerFn == "count_over_time"
	case "fnsub":
		return q.InnerFn == "count_over_time" || q.TopFn == "count_over_time"
	}
	return false
}

type c28Window struct{ Lo, Hi int64 } // (Lo, Hi]

type c28RefEval struct {
	lookback, defStep int64
	qStart, qEnd      int64
	edge, stale       int
	collect           bool
	windows           []c28Window
}

func (e *c28RefEval) note(lo, hi int64) {
	if e.collect && len(e.windows) < 48 {
		e.windows = append(e.windows, c28Window{lo, hi})
	}
}

// modTime: the time a selector (or subquery) with modifiers m looks at when its
// expression is evaluated at tau: "@" overrides the evaluation time, offset is applied
// relative to it, the order of the two modifiers does not matter.
func (e *c28RefEval) modTime(m c28Mod, tau int64) int64 {
	base := tau
	switch {
	case m.SE == "start":
		base = e.qStart
	case m.SE == "end":
		base = e.qEnd
	case m.HasAt:
		base = m.At
	}
	return base - m.Off
}

// instant: the most recent sample at or before t, provided it is less than the lookback
// period old and not a staleness marker.
func (e *c28RefEval) instant(s []c28Smp, t int64) (c28Smp, bool) {
	e.note(t-e.lookback, t)
	i := sort.Search(len(s), func(i int) bool { return s[i].T > t }) - 1
	if i < 0 {
		return c28Smp{}, false
	}
	if s[i].T == t || s[i].T == t-e.lookback {
		e.edge++
	}
	if s[i].T <= t-e.lookback {
		return c28Smp{}, false
	}
	if s[i].c28Stale() {
		e.stale++
		return c28Smp{}, false
	}
	return s[i], true
}

// window: the non-stale samples with t-r < T <= t.
func (e *c28RefEval) window(s []c28Smp, t, r int64) []c28Smp {
	e.note(t-r, t)
	var out []c28Smp
	for _, x := range s {
		if x.T == t-r || x.T == t {
			e.edge++
		}
		if x.T <= t-r || x.T > t {
			continue
		}
		if x.c28Stale() {
			e.stale++
			continue
		}
		out = append(out, x)
	}
	return out
}

func c28PtOf(s c28Smp, t int64) c28Pt {
	if s.K != 0 {
		return c28Pt{T: t, H: c28FloatHist(s)}
	}
	return c28Pt{T: t, F: gen.F(s.V)}
}

// c28OverTime applies count/last/first_over_time to the points of one range.
func c28OverTime(fn string, pts []c28Pt, t int64) (c28Pt, bool) {
	if len(pts) == 0 {
		return c28Pt{}, false
	}
	switch fn {
	case "count_over_time":
		return c28Pt{T: t, F: float64(len(pts))}, true
	case "last_over_time":
		p := pts[len(pts)-1]
		p.T = t
		return p, true
	case "first_over_time":
		p := pts[0]
		p.T = t
		return p, true
	}
	panic("c28: unknown function " + fn)
}

func (e *c28RefEval) inner(q c28Query, s []c28Smp, tau int64) (c28Pt, bool) {
	st := e.modTime(q.Sel, tau)
	if q.InnerFn == "" {
		x, ok := e.instant(s, st)
		if !ok {
			return c28Pt{}, false
		}
		return c28PtOf(x, tau), true
	}
	var pts []c28Pt
	for _, x := range e.window(s, st, q.InnerRng) {
		pts = append(pts, c28PtOf(x, x.T))
	}
	return c28OverTime(q.InnerFn, pts, tau)
}

func c28FloorDiv(a, b int64) int64 {
	d := a / b
	if a%b != 0 && (a < 0) != (b < 0) {
		d--
	}
	return d
}

// subquery: the inner expression evaluated at every multiple of the step inside
// (tsq-range, tsq], where tsq is the (modifier-shifted) time of the subquery.
func (e *c28RefEval) subquery(q c28Query, s []c28Smp, t int64) []c28Pt {
	tsq := e.modTime(q.Sub, t)
	step := q.SubStep
	if step == 0 {
		step = e.defStep
	}
	lo := tsq - q.SubRng
	e.note(lo, tsq)
	first := (c28FloorDiv(lo, step) + 1) * step // smallest multiple > lo
	var pts []c28Pt
	for tau := first; tau <= tsq; tau += step {
		if p, ok := e.inner(q, s, tau); ok {
			pts = append(pts, p)
		}
	}
	return pts
}

// top evaluates the whole expression for one series at evaluation time t. Vector-typed
// expressions return zero or one point (at T=t), matrix-typed ones a list of points.
func (e *c28RefEval) top(q c28Query, s []c28Smp, t int64) []c28Pt {
	switch q.Top {
	case "inner":
		if p, ok := e.inner(q, s, t); ok {
			return []c28Pt{p}
		}
		return nil
	case "mat":
		var pts []c28Pt
		for _, x := range e.window(s, e.modTime(q.Sel, t), q.InnerRng) {
			pts = append(pts, c28PtOf(x, x.T))
		}
		return pts
	case "sub":
		return e.subquery(q, s, t)
	case "fnsub":
		if p, ok := c28OverTime(q.TopFn, e.subquery(q, s, t), t); ok {
			return []c28Pt{p}
		}
		return nil
	}
	panic("c28: unknown top " + q.Top)
}

func c28DescribePts(pts []c28Pt) string {
	var b strings.Builder
	for i, p := range pts {
		if i > 0 {
			b.WriteString(" ")
		}
		if i >= 12 {
			fmt.Fprintf(&b, "...(%d more)", len(pts)-i)
			break
		}
		if p.H != nil {
			fmt.Fprintf(&b, "%d:H(sum=%v,cnt=%v)", p.T, p.H.Sum, p.H.Count)
		} else {
			fmt.Fprintf(&b, "%d:%v", p.T, p.F)
		}
	}
	return b.String()
}
