package pqleval

import (
	"context"
	"fmt"
	"math"
	"sort"
	"strconv"
	"strings"
	"testing"
	"time"

	"github.com/prometheus/prometheus/model/histogram"
	"github.com/prometheus/prometheus/model/labels"
	"github.com/prometheus/prometheus/promql"
	"pgregory.net/rapid"

	"verifharness/internal/ev"
	"verifharness/internal/gen"
)

// C29 — Aggregations and binary operators follow the documented semantics.
//
// Two generated instant vectors (stored as one sample per series at the evaluation time)
// and a generated expression tree of depth <= 2 over them; the engine's instant query is
// compared with the reference evaluator of c29ref_test.go.

type c29Elem struct {
	L gen.Lset // with __name__ (m0..m2 left vector, n0..n2 right vector)
	F uint64
	H *gen.Hist `json:",omitempty"`
}

type c29Case struct {
	In    [2][]c29Elem
	Strip [2]bool // present the m0 / n0 elements without metric name
	Tree  *c29Node
}

const c29T = 1000 // evaluation time (ms) = sample time

var (
	c29LabelNames = []string{"a", "b", "c"}
	c29LabelVals  = []string{"1", "2"}
	c29Floats     = []float64{0, 1, 1, 2, 2, 3, 5, -1, -2, 0.5, 0.125, 7.25, 100, -100, 4096, math.NaN(), math.NaN(), math.Inf(1), math.Inf(-1), math.Copysign(0, -1)}
	c29AggOps     = []string{"sum", "avg", "min", "max", "count", "group", "stddev", "stdvar", "quantile", "topk", "bottomk", "limitk", "count_values"}
	c29BinArith   = []string{"+", "-", "*", "/", "%", "^", "atan2"}
	c29BinCmp     = []string{"==", "!=", ">", "<", ">=", "<="}
	c29BinSet     = []string{"and", "or", "unless"}
)

func c29GenLset(t *rapid.T, side int) gen.Lset {
	prefix := "m"
	if side == 1 {
		prefix = "n"
	}
	l := gen.Lset{{"__name__", prefix + strconv.Itoa(rapid.IntRange(0, 2).Draw(t, "metric"))}}
	for _, n := range c29LabelNames {
		if rapid.IntRange(0, 2).Draw(t, "has"+n) > 0 {
			l = append(l, [2]string{n, rapid.SampledFrom(c29LabelVals).Draw(t, "val"+n)})
		}
	}
	return l
}

func c29GenHist(t *rapid.T) *gen.Hist {
	var sc int32
	// few distinct histograms so that == / != see equal operands
	h := gen.Histogram(gen.HistOpts{Float: true, Schema: &sc, MaxBuckets: 3, MaxCount: 4}).Draw(t, "hist")
	h.Hint = uint8(histogram.GaugeType)
	// zero-length leading spans trip a listed finding of C33 (histogram Add); not this property's business
	h.PS, h.NS = c27FoldLeadingSpans(h.PS), c27FoldLeadingSpans(h.NS)
	return &h
}

func c29GenVector(t *rapid.T, side int, other []c29Elem, allowHist, allowZeroNeg, huge bool) []c29Elem {
	max := 8
	if side == 1 {
		max = 6
	}
	n := rapid.IntRange(0, max).Draw(t, "nelems")
	var out []c29Elem
	seen := map[string]bool{}
	for i := 0; i < n; i++ {
		var l gen.Lset
		if len(other) > 0 && rapid.IntRange(0, 9).Draw(t, "copy") < 6 {
			// derive from an element of the other vector so that match groups are populated
			src := other[rapid.IntRange(0, len(other)-1).Draw(t, "copyfrom")].L
			l = gen.Lset{{"__name__", "n" + strconv.Itoa(rapid.IntRange(0, 2).Draw(t, "metric"))}}
			for _, p := range src[1:] {
				if rapid.IntRange(0, 5).Draw(t, "keep") > 0 {
					l = append(l, p)
				}
			}
			if rapid.IntRange(0, 3).Draw(t, "extra") == 0 {
				name := rapid.SampledFrom(c29LabelNames).Draw(t, "extraname")
				has := false
				for _, p := range l {
					if p[0] == name {
						has = true
					}
				}
				if !has {
					l = append(l, [2]string{name, rapid.SampledFrom(c29LabelVals).Draw(t, "extraval")})
					sort.Slice(l[1:], func(a, b int) bool { return l[1+a][0] < l[1+b][0] })
				}
			}
		} else {
			l = c29GenLset(t, side)
		}
		if seen[l.Key()] {
			continue
		}
		seen[l.Key()] = true
		e := c29Elem{L: l}
		if allowHist && rapid.IntRange(0, 6).Draw(t, "ishist") == 0 {
			e.H = c29GenHist(t)
		} else {
			f := rapid.SampledFrom(c29Floats).Draw(t, "f")
			if huge && rapid.IntRange(0, 2).Draw(t, "huge") == 0 {
				f = rapid.SampledFrom([]float64{1e308, 1.7e308, -1e308, 1e300, 9.007199254740993e15, 1e-300}).Draw(t, "hugef")
			}
			if !allowZeroNeg && f == 0 && math.Signbit(f) {
				f = 0
			}
			e.F = math.Float64bits(f)
		}
		out = append(out, e)
	}
	return out
}

func c29Subset(t *rapid.T, label string, from []string, maxLen int) []string {
	var out []string
	for _, n := range from {
		if len(out) < maxLen && rapid.IntRange(0, 2).Draw(t, label+n) == 0 {
			out = append(out, n)
		}
	}
	if out == nil {
		out = []string{}
	}
	return out
}

func c29GenAgg(t *rapid.T, child *c29Node, root bool, exactOnly bool) *c29Node {
	ops := c29AggOps
	if !root {
		ops = []string{"sum", "avg", "min", "max", "count", "group", "quantile"}
	}
	if exactOnly {
		ops = []string{"sum", "min", "max", "count", "group"}
	}
	n := &c29Node{Kind: "agg", Op: rapid.SampledFrom(ops).Draw(t, "aggop"), A: child}
	switch rapid.IntRange(0, 4).Draw(t, "clause") {
	case 0:
	case 1, 2:
		n.Clause = "by"
		from := c29LabelNames
		if rapid.IntRange(0, 5).Draw(t, "byname") == 0 {
			from = append([]string{"__name__"}, from...)
		}
		n.Grouping = c29Subset(t, "by", from, 3)
	default:
		n.Clause = "without"
		n.Grouping = c29Subset(t, "wo", c29LabelNames, 3)
	}
	switch n.Op {
	case "topk", "bottomk", "limitk":
		n.Param = math.Float64bits(float64(rapid.SampledFrom([]int{0, 1, 1, 2, 3, 3, 100, -1}).Draw(t, "k")))
	case "quantile":
		n.Param = math.Float64bits(rapid.SampledFrom([]float64{-1, 0, 0.5, 0.5, 1, 2, math.NaN(), 0.25, 0.9, 0.3333}).Draw(t, "q"))
	case "count_values":
		n.CVLabel = rapid.SampledFrom([]string{"v", "v", "value", "a", "c"}).Draw(t, "cvlabel")
		if n.Clause == "without" {
			// the docs do not say what `without (l)` means for the value label l itself
			var g []string
			for _, x := range n.Grouping {
				if x != n.CVLabel {
					g = append(g, x)
				}
			}
			if g == nil {
				g = []string{}
			}
			n.Grouping = g
		}
	}
	return n
}

func c29GenBin(t *rapid.T, a, b *c29Node, vv bool) *c29Node {
	n := &c29Node{Kind: "bin", A: a, B: b}
	class := rapid.IntRange(0, 9).Draw(t, "opclass")
	switch {
	case class < 4:
		n.Op = rapid.SampledFrom(c29BinArith).Draw(t, "arith")
	case class < 8 || !vv:
		n.Op = rapid.SampledFrom(c29BinCmp).Draw(t, "cmp")
		n.Bool = rapid.IntRange(0, 2).Draw(t, "bool") == 0
	default:
		n.Op = rapid.SampledFrom(c29BinSet).Draw(t, "set")
	}
	if !vv {
		return n
	}
	switch rapid.IntRange(0, 3).Draw(t, "matching") {
	case 1:
		n.Match = "on"
		from := c29LabelNames
		if (c29IsArith(n.Op) || c29IsSet(n.Op)) && rapid.IntRange(0, 7).Draw(t, "onname") == 0 {
			from = append([]string{"__name__"}, from...)
		}
		n.MatchL = c29Subset(t, "on", from, 3)
	case 2:
		n.Match = "ignoring"
		n.MatchL = c29Subset(t, "ign", c29LabelNames, 3)
	}
	if c29IsSet(n.Op) {
		return n
	}
	if rapid.IntRange(0, 2).Draw(t, "group") == 0 {
		n.Group = rapid.SampledFrom([]string{"left", "right"}).Draw(t, "groupside")
		if n.Match == "" {
			// group modifiers need an on / ignoring clause
			n.Match, n.MatchL = "ignoring", []string{}
		}
		if rapid.Bool().Draw(t, "include") {
			var cand []string
			for _, l := range c29LabelNames {
				in := false
				for _, m := range n.MatchL {
					if m == l {
						in = true
					}
				}
				if !(n.Match == "on" && in) {
					cand = append(cand, l)
				}
			}
			n.Include = c29Subset(t, "inc", cand, 2)
		}
	}
	fv := func(label string) *uint64 {
		b := math.Float64bits(rapid.SampledFrom([]float64{0, 1, -1, 0.5, math.NaN(), math.Inf(1), 1000}).Draw(t, label))
		return &b
	}
	switch rapid.IntRange(0, 9).Draw(t, "fill") {
	case 0:
		v := fv("fillboth")
		v2 := *v
		n.FillL, n.FillR = v, &v2
	case 1:
		n.FillL = fv("filll")
	case 2:
		n.FillR = fv("fillr")
	case 3:
		n.FillL, n.FillR = fv("filll"), fv("fillr")
	}
	return n
}

func c29HasOp(n *c29Node, ops ...string) bool {
	if n == nil {
		return false
	}
	if n.Kind == "agg" || n.Kind == "bin" {
		for _, o := range ops {
			if n.Op == o {
				return true
			}
		}
	}
	return c29HasOp(n.A, ops...) || c29HasOp(n.B, ops...)
}

func genC29(t *rapid.T) c29Case {
	var c c29Case
	sel := func(side int) *c29Node { return &c29Node{Kind: "sel", Side: side} }
	num := func() *c29Node {
		return &c29Node{Kind: "num", Num: math.Float64bits(rapid.SampledFrom([]float64{0, 1, 2, -1, 0.5, 3, 100, math.NaN(), math.Inf(1), math.Inf(-1), 2.5}).Draw(t, "scalar"))}
	}
	simple := false
	switch kind := rapid.IntRange(0, 19).Draw(t, "root"); {
	case kind < 9: // aggregation
		var child *c29Node
		switch rapid.IntRange(0, 9).Draw(t, "aggchild") {
		case 0:
			child = c29GenBin(t, sel(0), num(), false)
		case 1:
			child = c29GenBin(t, sel(0), sel(1), true)
		case 2:
			child = c29GenAgg(t, sel(0), false, false)
		default:
			child = sel(0)
			simple = true
		}
		c.Tree = c29GenAgg(t, child, true, false)
		switch c.Tree.Op {
		case "topk", "bottomk", "limitk":
			if c29HasOp(child, "avg", "quantile") {
				// a selection among computed values: keep ties exact
				c.Tree.A = sel(0)
				simple = true
			}
		case "count_values", "stddev", "stdvar":
			if child.Kind != "sel" {
				c.Tree.A = sel(0)
				simple = true
			}
		}
	case kind < 16: // vector <op> vector
		a, b := sel(0), sel(1)
		if rapid.IntRange(0, 3).Draw(t, "lagg") == 0 {
			a = c29GenAgg(t, sel(0), false, true)
		}
		if rapid.IntRange(0, 3).Draw(t, "ragg") == 0 {
			b = c29GenAgg(t, sel(1), false, true)
		}
		c.Tree = c29GenBin(t, a, b, true)
	default: // vector <op> scalar
		var v *c29Node = sel(0)
		if rapid.IntRange(0, 3).Draw(t, "vsagg") == 0 {
			v = c29GenAgg(t, sel(0), false, true)
		}
		if rapid.Bool().Draw(t, "scalarleft") {
			c.Tree = c29GenBin(t, num(), v, false)
		} else {
			c.Tree = c29GenBin(t, v, num(), false)
		}
	}
	allowHist := !c29HasOp(c.Tree, "count_values") && rapid.IntRange(0, 2).Draw(t, "hists") == 0
	negZero := !c29HasOp(c.Tree, "count_values")
	huge := simple && c.Tree.Kind == "agg" && !c29HasOp(c.Tree, "stddev", "stdvar", "count_values") && rapid.IntRange(0, 5).Draw(t, "hugevals") == 0
	c.In[0] = c29GenVector(t, 0, nil, allowHist, negZero, huge)
	c.In[1] = c29GenVector(t, 1, c.In[0], allowHist, negZero, false)
	c.Strip[0] = rapid.IntRange(0, 2).Draw(t, "strip0") == 0
	c.Strip[1] = rapid.IntRange(0, 2).Draw(t, "strip1") == 0
	return c
}

// ---- running ----

func c29EngineKey(l labels.Labels) string {
	m := map[string]string{}
	l.Range(func(x labels.Label) { m[x.Name] = x.Value })
	return c29Key(m)
}

func c29ErrKind(err error) string {
	s := err.Error()
	switch {
	case strings.Contains(s, "many-to-many matching not allowed"), strings.Contains(s, "multiple matches for labels"):
		return "match"
	case strings.Contains(s, "vector cannot contain metrics with the same labelset"):
		return "dup"
	}
	return "other"
}

func c29Close(got, want c29V, gotF float64) bool {
	w := want.F
	if want.Sq {
		return c27CloseFloat(gotF*gotF, w*w, 1e-9) || math.Abs(gotF*gotF-w*w) <= want.Tol
	}
	if c27CloseFloat(gotF, w, 1e-9) {
		return true
	}
	if want.Loose && (math.IsInf(gotF, 0) || math.IsNaN(gotF)) {
		return true
	}
	if gotF == w { // +0 / -0
		return true
	}
	return want.Tol > 0 && !math.IsNaN(gotF) && !math.IsInf(gotF, 0) && math.Abs(gotF-w) <= want.Tol
}

func runC29(c c29Case, r *ev.Rec) error {
	if c.Tree == nil {
		r.Discard()
		return nil
	}
	// data + reference inputs
	var d c27Data
	var hists []*histogram.FloatHistogram
	e := &c29Eval{}
	e.histEq = func(a, b int) bool { return hists[a].Equals(hists[b]) }
	stripName := [2]string{"m0", "n0"}
	nHist, nSpecial := 0, 0
	for side := 0; side < 2; side++ {
		for _, x := range c.In[side] {
			smp := c27Sample{T: c29T, K: c27KFloat, V: x.F}
			v := c29V{L: x.L.Map(), F: math.Float64frombits(x.F)}
			if x.H != nil {
				smp = c27Sample{T: c29T, K: c27KHist, H: x.H}
				fh := x.H.FloatH()
				hists = append(hists, fh)
				v = c29V{L: x.L.Map(), H: &c29H{Count: fh.Count, Sum: fh.Sum, ID: len(hists) - 1}}
				nHist++
			} else if math.IsNaN(v.F) || math.IsInf(v.F, 0) {
				nSpecial++
			}
			if c.Strip[side] && v.L["__name__"] == stripName[side] {
				delete(v.L, "__name__")
			}
			d.Series = append(d.Series, c27Series{L: x.L, S: []c27Sample{smp}})
			e.in[side] = append(e.in[side], v)
		}
	}
	sel := [2]string{`{__name__=~"m.+"}`, `{__name__=~"n.+"}`}
	for side := 0; side < 2; side++ {
		if c.Strip[side] {
			sel[side] = fmt.Sprintf(`label_replace(%s, "__name__", "", "__name__", "%s")`, sel[side], stripName[side])
		}
	}
	expr := c29Render(c.Tree, sel)
	want := e.eval(c.Tree)
	if want.Unstable {
		r.Discard()
		return nil
	}
	r.Class("root:" + c.Tree.Kind + ":" + c.Tree.Op)
	if c.Tree.Kind == "agg" && c.Tree.Clause != "" {
		r.Class("agg:" + c.Tree.Clause)
	}
	if c.Tree.Kind == "bin" {
		if c.Tree.Match != "" {
			r.Class("bin:" + c.Tree.Match)
		}
		if c.Tree.Group != "" {
			r.Class("bin:group_" + c.Tree.Group)
		}
		if c.Tree.FillL != nil || c.Tree.FillR != nil {
			r.Class("bin:fill")
		}
		if c.Tree.Bool {
			r.Class("bin:bool")
		}
	}
	if nHist > 0 {
		r.Class("data:histograms")
	}
	if nSpecial > 0 {
		r.Class("data:nan/inf")
	}
	if c.Strip[0] || c.Strip[1] {
		r.Class("data:nameless-elements")
	}

	q := c27NewQueryable(d)
	ng := c27NewEngine(c27EngineOpts{LookbackMs: 300000})
	defer ng.Close()
	qry, err := ng.NewInstantQuery(context.Background(), q, nil, expr, time.UnixMilli(c29T))
	if err != nil {
		return ev.Failf("query %q is rejected: %v", expr, err)
	}
	defer qry.Close()
	res := qry.Exec(context.Background())
	in := fmt.Sprintf("left vector %s, right vector %s", c29Describe(e.in[0]), c29Describe(e.in[1]))
	verr := c29Compare(c.Tree, expr, in, want, res, hists, r)
	if verr == nil {
		if want.Err == "" && (want.Groups >= 2 || want.Pairs >= 2) {
			r.NonTrivial()
		}
		return nil
	}
	// Known findings: attribute the violation to a root cause only if the engine result is
	// exactly what the reference yields with that deviation switched on.
	sw, canSwap := c29SwapFills(c.Tree)
	for mask := 2; mask < 8; mask += 2 { // the quantile deviation is fixed in /repo: no longer attributed (bit 0 stays off)
		qinf, swap, finv := mask&1 != 0, mask&2 != 0, mask&4 != 0
		if (swap && !canSwap) || (qinf && !c29HasOp(c.Tree, "quantile")) || (finv && !c29HasFill(c.Tree)) {
			continue
		}
		e2 := &c29Eval{in: e.in, histEq: e.histEq, quirkQuantileInf: qinf, quirkFillInvalid: finv}
		tree := c.Tree
		if swap {
			tree = sw
		}
		want2 := e2.eval(tree)
		if want2.Unstable || c29Compare(tree, expr, in, want2, res, hists, &ev.Rec{}) != nil {
			continue
		}
		sig := c29SigQuantileInf
		switch {
		case qinf:
		case swap:
			sig = c29SigFillSwap
		default:
			sig = c29SigFillInvalid
		}
		return ev.FailSig(sig, "%s\n(the result equals the reference with these listed deviations switched on: quantile Inf*0=%v, group_right fill sides exchanged=%v, invalid histogram operation treated as missing match=%v)", verr.Error(), qinf, swap, finv)
	}
	return verr
}

func c29HasFill(n *c29Node) bool {
	if n == nil {
		return false
	}
	return (n.Kind == "bin" && (n.FillL != nil || n.FillR != nil)) || c29HasFill(n.A) || c29HasFill(n.B)
}

const (
	// quantile(q, v) computes v[lo]*(1-w) + v[hi]*w with w = 0 when the rank is an
	// integer: an infinite v[hi] turns the result into NaN (quantile(1, {1, +Inf}) = NaN).
	c29SigQuantileInf = "c29-quantile-inf-times-zero-weight"
	// fill modifiers: a matched pair whose operation is invalid (float + histogram) is
	// treated like a missing match and filled.
	c29SigFillInvalid = "c29-fill-after-invalid-histogram-operation"
)

const c29SigFillSwap = "c29-group-right-fill-sides-swapped"

// c29SwapFills returns a copy of the tree in which every group_right operator with
// different left / right fill values has them exchanged.
func c29SwapFills(n *c29Node) (*c29Node, bool) {
	if n == nil {
		return nil, false
	}
	cp := *n
	changed := false
	if n.Kind == "bin" && n.Group == "right" && (n.FillL != nil || n.FillR != nil) {
		if n.FillL == nil || n.FillR == nil || *n.FillL != *n.FillR {
			cp.FillL, cp.FillR = n.FillR, n.FillL
			changed = true
		}
	}
	var c1, c2 bool
	cp.A, c1 = c29SwapFills(n.A)
	cp.B, c2 = c29SwapFills(n.B)
	return &cp, changed || c1 || c2
}

// c29Compare checks an engine result against a reference result.
func c29Compare(tree *c29Node, expr, in string, want c29Out, res *promql.Result, hists []*histogram.FloatHistogram, r *ev.Rec) error {
	err := c29CompareExact(tree, expr, in, want, res, hists, r)
	if err == nil || !want.NameFree || want.Err != "" {
		return err
	}
	// second accepted reading: the metric name is dropped
	w2 := want
	w2.V = nil
	for _, v := range want.V {
		l := c29CopyL(v.L)
		delete(l, "__name__")
		v.L = l
		w2.V = append(w2.V, v)
	}
	if c29Dup(w2.V) {
		return err
	}
	if c29CompareExact(tree, expr, in, w2, res, hists, r) == nil {
		return nil
	}
	return err
}

func c29CompareExact(tree *c29Node, expr, in string, want c29Out, res *promql.Result, hists []*histogram.FloatHistogram, r *ev.Rec) error {
	if res.Err != nil {
		if c27Internal(res.Err) {
			return ev.Failf("query %q fails internally: %v (%s)", expr, res.Err, in)
		}
		kind := c29ErrKind(res.Err)
		switch {
		case want.Err != "" && (want.Err == "any" || want.Err == kind):
			r.Class("res:expected-error:" + kind)
			r.NonTrivial()
			return nil
		case want.Err == "" && want.MayErr && kind == "match":
			r.Class("res:optional-error")
			return nil
		}
		return ev.Failf("query %q fails with %q; the documented semantics give error=%q result %s (%s)", expr, res.Err, want.Err, c29Describe(want.V), in)
	}
	if want.Err != "" && !want.MayErr {
		return ev.Failf("query %q succeeds with %v; the documented semantics demand a %q error (%s)", expr, res.Value, want.Err, in)
	}
	if want.Err != "" {
		r.Class("res:optional-error")
		return nil
	}
	// scalar result
	if want.Scalar {
		sc, ok := res.Value.(promql.Scalar)
		if !ok || !c27CloseFloat(sc.V, want.S, 1e-9) {
			return ev.Failf("query %q = %v, expected scalar %v", expr, res.Value, want.S)
		}
		return nil
	}
	vec, ok := res.Value.(promql.Vector)
	if !ok {
		return ev.Failf("query %q returns %T, expected a vector", expr, res.Value)
	}
	got := map[string]promql.Sample{}
	var gotOrder []string
	for _, s := range vec {
		k := c29EngineKey(s.Metric)
		if _, dup := got[k]; dup {
			return ev.Failf("query %q: result holds the label set {%s} twice: %v", expr, k, vec)
		}
		got[k] = s
		gotOrder = append(gotOrder, k)
	}
	fail := func(format string, a ...any) error {
		return ev.Failf("query %q: %s\n engine:   %v\n expected: %s\n %s", expr, fmt.Sprintf(format, a...), vec, c29Describe(want.V), in)
	}
	checkVal := func(k string, w c29V, s promql.Sample) error {
		if (w.H != nil) != (s.H != nil) {
			return fail("element {%s}: float vs histogram", k)
		}
		if w.H != nil {
			if w.H.ID >= 0 {
				if !hists[w.H.ID].Equals(s.H) {
					return fail("element {%s}: histogram %v is not the (unmodified) input histogram %v", k, s.H, hists[w.H.ID])
				}
				return nil
			}
			if !(c27CloseFloat(s.H.Count, w.H.Count, 1e-9) || math.Abs(s.H.Count-w.H.Count) < 1e-9) ||
				!(c27CloseFloat(s.H.Sum, w.H.Sum, 1e-9) || math.Abs(s.H.Sum-w.H.Sum) < 1e-9) {
				return fail("element {%s}: histogram count/sum %v/%v, expected %v/%v", k, s.H.Count, s.H.Sum, w.H.Count, w.H.Sum)
			}
			return nil
		}
		if !c29Close(c29V{}, w, s.F) {
			return fail("element {%s}: value %v, expected %v", k, s.F, w.F)
		}
		return nil
	}
	if want.Free != nil {
		if err := c29CheckFree(tree, want.Free, got, gotOrder, fail); err != nil {
			return err
		}
	} else {
		wantKeys := map[string]c29V{}
		for _, w := range want.V {
			wantKeys[c29Key(w.L)] = w
		}
		for k, w := range wantKeys {
			s, ok := got[k]
			if !ok {
				return fail("element {%s} is missing", k)
			}
			if err := checkVal(k, w, s); err != nil {
				return err
			}
		}
		for k := range got {
			if _, ok := wantKeys[k]; !ok {
				return fail("unexpected element {%s}", k)
			}
		}
	}
	if len(vec) == 0 {
		r.Class("res:empty")
	} else {
		r.Class("res:nonempty")
	}
	return nil
}

// c29SameVal: equal floats; +0 and -0 are the same value (min / max may return either of
// two tied zeros), all NaNs are the same.
func c29SameVal(a, b float64) bool { return a == b || (math.IsNaN(a) && math.IsNaN(b)) }

// c29CheckFree checks a topk / bottomk / limitk result: per bucket the documented number
// of elements, all elements strictly ahead of the k-th, the rest among the ones tied with
// it; values and labels are those of the input elements; for an instant query the
// elements of a bucket are consecutive and ordered by value (topk / bottomk).
func c29CheckFree(root *c29Node, f *c29Free, got map[string]promql.Sample, order []string, fail func(string, ...any) error) error {
	used := map[string]bool{}
	bucketOf := map[string]int{}
	for bi, b := range f.Buckets {
		n := 0
		for _, m := range b.Must {
			k := c29Key(m.L)
			s, ok := got[k]
			if !ok {
				return fail("element {%s} = %v must be selected (bucket of %d, %d ahead of the k-th value)", k, m.F, b.Count, len(b.Must))
			}
			if (m.H == nil) != (s.H == nil) || (m.H == nil && !c29SameVal(s.F, m.F)) {
				return fail("element {%s}: value %v, input value %v", k, s.F, m.F)
			}
			used[k] = true
			bucketOf[k] = bi
			n++
		}
		for _, m := range b.May {
			k := c29Key(m.L)
			if s, ok := got[k]; ok {
				if (m.H == nil) != (s.H == nil) || (m.H == nil && !c29SameVal(s.F, m.F)) {
					return fail("element {%s}: value %v, input value %v", k, s.F, m.F)
				}
				used[k] = true
				bucketOf[k] = bi
				n++
			}
		}
		if n != b.Count {
			return fail("bucket %d: %d elements selected, expected %d (must %d, tied candidates %d)", bi, n, b.Count, len(b.Must), len(b.May))
		}
	}
	for k := range got {
		if !used[k] {
			return fail("unexpected element {%s}", k)
		}
	}
	if f.Op == "limitk" {
		return nil
	}
	// order: buckets consecutive, values sorted within a bucket, NaN last
	seenBucket := map[int]bool{}
	prevB := -1
	var prev float64
	for i, k := range order {
		b := bucketOf[k]
		v := got[k].F
		if b != prevB {
			if seenBucket[b] {
				return fail("elements of one bucket are not returned consecutively (position %d)", i)
			}
			seenBucket[b] = true
			prevB = b
			prev = v
			continue
		}
		bad := false
		switch {
		case math.IsNaN(prev) && !math.IsNaN(v):
			bad = true
		case math.IsNaN(v):
		case f.Op == "topk" && v > prev, f.Op == "bottomk" && v < prev:
			bad = true
		}
		if bad {
			return fail("instant query result of %s is not ordered by value within its bucket: %v after %v", f.Op, v, prev)
		}
		prev = v
	}
	return nil
}

func TestC29(t *testing.T) {
	ev.Check(t, "C29",
		"two generated instant vectors (left 0-8, right 0-6 elements over label names a,b,c with absent labels, metric names m0..m2 / n0..n2, optionally presented without name; values with ties, NaN, +-Inf, -0, optionally float histograms and values near the float64 range) and an expression tree of depth <= 2: every aggregation (sum avg min max count group stddev stdvar quantile topk bottomk limitk count_values) x {none, by, without} x label subsets x parameters (k in {-1,0,1,2,3,100}, q in {-1,0,.25,.3333,.5,.9,1,2,NaN}), every arithmetic / comparison / set operator x bool x on / ignoring x group_left / group_right (+ include labels) x fill / fill_left / fill_right, vector-scalar in both orders, and nestings (aggregation of a binary operation or of an aggregation; binary operation of aggregations); instant query of the real engine vs the reference evaluator written from docs/querying/operators.md (groups, output labels, counts, selected elements exactly; float values rel. 1e-9 plus the rounding room of a sum; documented matching errors). Non-trivial: >= 2 output groups or >= 2 matched pairs, or an expected error; distinct by hash of the case.",
		genC29, runC29)
}
