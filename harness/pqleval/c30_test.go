package pqleval

import (
	"context"
	"fmt"
	"math"
	"sort"
	"testing"
	"time"

	"github.com/prometheus/prometheus/promql"
	"pgregory.net/rapid"

	"verifharness/internal/ev"
	"verifharness/internal/gen"
)

// C30 — Counter and delta functions follow the documented algorithms.

type c30Case struct {
	S       []c28Smp // one float series, sorted by T; ST = start timestamp (0: none)
	UseST   bool     // engine option UseStartTimestamps
	RangeMs int64
	OffMs   int64 `json:",omitempty"`
	EvalMs  int64
	Steps   int   `json:",omitempty"` // >1: range query
	StepMs  int64 `json:",omitempty"`
	Trim    bool
}

var c30Funcs = []string{"rate", "increase", "delta", "irate", "idelta", "resets", "changes"}

// c30GenGap draws a boundary distance around the 1.1x threshold of the window.
func c30GenGap(t *rapid.T, label string, span int64, nMinus1 int, allowZero bool) int64 {
	avg := float64(span) / float64(nMinus1)
	thr := avg * 1.1
	var d int64
	switch rapid.IntRange(0, 11).Draw(t, label+"class") {
	case 0:
		d = int64(math.Floor(thr)) - 1
	case 1, 2:
		d = int64(math.Floor(thr))
	case 3, 4:
		d = int64(math.Ceil(thr))
	case 5:
		d = int64(math.Ceil(thr)) + 1
	case 6:
		d = int64(math.Round(avg))
	case 7:
		d = int64(math.Round(avg / 2))
	case 8:
		d = 1
	case 9:
		d = int64(2 * avg)
	case 10:
		d = 0
	default:
		d = rapid.Int64Range(0, int64(3*avg)+2).Draw(t, label+"any")
	}
	if d < 0 {
		d = 0
	}
	if d == 0 && !allowZero {
		d = 1
	}
	return d
}

func genC30(t *rapid.T) c30Case {
	var c c30Case
	c.UseST = rapid.IntRange(0, 2).Draw(t, "usest") == 0
	c.Trim = rapid.Bool().Draw(t, "trim")
	n := rapid.IntRange(2, 8).Draw(t, "n")
	switch rapid.IntRange(0, 9).Draw(t, "nclass") {
	case 0:
		n = rapid.IntRange(9, 40).Draw(t, "nbig")
	case 1:
		n = rapid.IntRange(0, 1).Draw(t, "nsmall")
	}
	// the divisor 10*(n-1) of an exact tie needs intervals that are multiples of 10
	interval := rapid.SampledFrom([]int64{1000, 1000, 15000, 60000, 10, 7, 997, 30000}).Draw(t, "interval")
	jitter := rapid.IntRange(0, 4).Draw(t, "jitter")
	rel := make([]int64, 0, n)
	var cur int64
	for i := 0; i < n; i++ {
		if i > 0 {
			g := interval
			switch jitter {
			case 1:
				g += int64(rapid.IntRange(-3, 3).Draw(t, "gjit"))
			case 2:
				g = interval * int64(rapid.IntRange(1, 3).Draw(t, "gmul"))
			case 3:
				if rapid.IntRange(0, 4).Draw(t, "gmiss") == 0 {
					g = 2 * interval
				}
			case 4:
				g = rapid.Int64Range(1, 2*interval).Draw(t, "gany")
			}
			if g < 1 {
				g = 1
			}
			cur += g
		}
		rel = append(rel, cur)
	}
	var ds, de int64 = 1, 0
	if n >= 2 {
		span := rel[n-1] - rel[0]
		ds = c30GenGap(t, "ds", span, n-1, false)
		de = c30GenGap(t, "de", span, n-1, true)
	} else {
		ds = rapid.Int64Range(1, 3*interval).Draw(t, "ds1")
		de = rapid.Int64Range(0, 3*interval).Draw(t, "de1")
	}
	c.RangeMs = ds + cur + de
	c.EvalMs = rapid.SampledFrom([]int64{0, 1_000_000, 1_700_000_000_000, -500_000, 12345}).Draw(t, "evalbase")
	if rapid.IntRange(0, 3).Draw(t, "hasoff") == 0 {
		c.OffMs = rapid.SampledFrom([]int64{1, -1, 1000, -1000, 60000, -60000, 12345}).Draw(t, "off")
	}
	hi := c.EvalMs - c.OffMs
	lo := hi - c.RangeMs
	// timestamps: in-window samples, plus samples outside / exactly on the edges
	var ts []int64
	for _, r := range rel {
		ts = append(ts, lo+ds+r)
	}
	for i, k := 0, rapid.IntRange(0, 2).Draw(t, "nbefore"); i < k; i++ {
		ts = append(ts, lo-int64(i)*interval-rapid.SampledFrom([]int64{0, 0, 1, interval}).Draw(t, "before"))
	}
	for i, k := 0, rapid.IntRange(0, 2).Draw(t, "nafter"); i < k; i++ {
		ts = append(ts, hi+int64(i)*interval+rapid.SampledFrom([]int64{1, 1, interval}).Draw(t, "after"))
	}
	sort.Slice(ts, func(i, j int) bool { return ts[i] < ts[j] })
	uniq := ts[:0]
	for i, x := range ts {
		if i == 0 || x != ts[i-1] {
			uniq = append(uniq, x)
		}
	}
	ts = uniq

	// values
	mode := rapid.SampledFrom([]string{"counter", "counter", "counter", "counter", "gauge", "equal", "special"}).Draw(t, "vmode")
	v := rapid.SampledFrom([]float64{0, 0, 1, 5, 100, 1e6, 0.5, 1e9}).Draw(t, "v0")
	incs := rapid.SampledFrom([][]float64{{1}, {0, 1, 2, 10}, {0.25, 0.5}, {1000, 5000}, {0, 0, 1}, {0.01, 0.1}}).Draw(t, "incs")
	resetP := rapid.SampledFrom([]int{0, 0, 5, 15, 40}).Draw(t, "resetp")
	firstIn := sort.Search(len(ts), func(i int) bool { return ts[i] > lo })
	lastIn := sort.Search(len(ts), func(i int) bool { return ts[i] > hi }) - 1
	forceReset := rapid.SampledFrom([]string{"", "", "", "first", "last", "both"}).Draw(t, "forcereset")
	vals := make([]float64, len(ts))
	for i := range ts {
		if i > 0 {
			switch mode {
			case "counter", "special":
				reset := rapid.IntRange(0, 99).Draw(t, "reset") < resetP
				if (forceReset == "first" || forceReset == "both") && i == firstIn+1 {
					reset = true
				}
				if (forceReset == "last" || forceReset == "both") && i == lastIn {
					reset = true
				}
				if reset && v > 0 {
					v = rapid.SampledFrom([]float64{0, 0, 1, v / 2, math.Floor(v * 0.9)}).Draw(t, "resetto")
					if v >= vals[i-1] {
						v = 0
					}
				} else {
					v += rapid.SampledFrom(incs).Draw(t, "inc")
				}
			case "gauge":
				v += float64(rapid.IntRange(-50, 50).Draw(t, "gstep")) / 4
			}
		}
		vals[i] = v
	}
	for i, x := range ts {
		s := c28Smp{T: x, V: gen.B(vals[i])}
		if mode == "special" && rapid.IntRange(0, 5).Draw(t, "special") == 0 {
			s.V = rapid.SampledFrom([]uint64{gen.NormalNaNBits, gen.StaleNaNBits, gen.StaleNaNBits, 0x7ff0000000000000, 0xfff0000000000000, 0x8000000000000000}).Draw(t, "specialv")
		}
		c.S = append(c.S, s)
	}

	// start timestamps (also generated when the engine option is off: they must be ignored then)
	stMode := rapid.SampledFrom([]string{"none", "none", "constant", "constant-inside", "resets", "delta", "mixed"}).Draw(t, "stmode")
	if len(c.S) > 0 {
		constST := c.S[0].T - 1 - rapid.Int64Range(0, 2*interval).Draw(t, "stconst")
		if stMode == "constant-inside" && firstIn < len(c.S) {
			// inside (lo, firstT), on its edges or just outside
			constST = rapid.SampledFrom([]int64{lo, lo + 1, c.S[firstIn].T - 1, c.S[firstIn].T, lo - 1, (lo + c.S[firstIn].T) / 2}).Draw(t, "stinside")
		}
		curST := constST
		for i := range c.S {
			switch stMode {
			case "none":
			case "constant", "constant-inside":
				c.S[i].ST = constST
			case "delta":
				if i > 0 {
					c.S[i].ST = c.S[i-1].T
				} else {
					c.S[i].ST = c.S[i].T - interval
				}
			case "resets", "mixed":
				if i > 0 {
					switch rapid.IntRange(0, 9).Draw(t, "stev") {
					case 0:
						curST = rapid.Int64Range(c.S[i-1].T, c.S[i].T).Draw(t, "stnew") // incl. == prevT and == T
					case 1:
						curST = c.S[i-1].T + 1
					case 2:
						if stMode == "mixed" {
							curST = rapid.SampledFrom([]int64{0, c.S[i].T, c.S[i].T + 5, c.S[i-1].T, c.S[i-1].T - 1}).Draw(t, "stodd")
						}
					}
				}
				c.S[i].ST = curST
			}
		}
	}
	if rapid.IntRange(0, 4).Draw(t, "rangequery") == 0 {
		c.Steps = rapid.IntRange(2, 5).Draw(t, "steps")
		c.StepMs = rapid.SampledFrom([]int64{1, interval, interval / 2, c.RangeMs, c.RangeMs / 2, 2 * interval}).Draw(t, "stepms")
		if c.StepMs <= 0 {
			c.StepMs = 1
		}
	}
	return c
}

const c30Labels = `m_total{a="x"}`

func c30Query(fn string, c c30Case) string {
	q := fmt.Sprintf("%s(m_total[%s]", fn, c28Dur(c.RangeMs))
	if c.OffMs != 0 {
		q += " offset " + c28Dur(c.OffMs)
	}
	return q + ")"
}

// c30Exec returns step time -> value for the single expected output series.
func c30Exec(c c30Case, store *c28Store, qs string) (map[int64]float64, error) {
	ng := c28Engine(c28EngineOpts{LookbackMs: 300_000, DefStepMs: 60_000, UseST: c.UseST})
	ctx := context.Background()
	var (
		qry promql.Query
		err error
	)
	if c.Steps > 1 {
		qry, err = ng.NewRangeQuery(ctx, store, nil, qs, time.UnixMilli(c.EvalMs), time.UnixMilli(c.EvalMs+int64(c.Steps-1)*c.StepMs), time.Duration(c.StepMs)*time.Millisecond)
	} else {
		qry, err = ng.NewInstantQuery(ctx, store, nil, qs, time.UnixMilli(c.EvalMs))
	}
	if err != nil {
		return nil, fmt.Errorf("creating query: %w", err)
	}
	defer qry.Close()
	res := qry.Exec(ctx)
	if res.Err != nil {
		return nil, fmt.Errorf("executing query: %w", res.Err)
	}
	conv, msg := c28FromEngine(res.Value)
	if msg != "" {
		return nil, fmt.Errorf("%s", msg)
	}
	out := map[int64]float64{}
	for _, k := range conv.keys {
		if k != `{a="x"}` {
			return nil, fmt.Errorf("unexpected output series %s", k)
		}
		for _, p := range conv.m[k] {
			if p.H != nil {
				return nil, fmt.Errorf("histogram result from float input")
			}
			out[p.T] = p.F
		}
	}
	return out, nil
}

func c30DescribeWindow(w []c30Smp, useST bool) string {
	s := ""
	for i, x := range w {
		if i >= 45 {
			s += " ..."
			break
		}
		if useST && x.ST != 0 {
			s += fmt.Sprintf(" %d(st %d)=%v", x.T, x.ST, x.V)
		} else {
			s += fmt.Sprintf(" %d=%v", x.T, x.V)
		}
	}
	return s
}

func runC30(c c30Case, r *ev.Rec) error {
	if c.RangeMs <= 0 {
		r.Discard()
		return nil
	}
	for i := 1; i < len(c.S); i++ {
		if c.S[i].T <= c.S[i-1].T {
			r.Discard()
			return nil
		}
	}
	store := &c28Store{series: []c28Ser{{L: gen.Lset{{"__name__", "m_total"}, {"a", "x"}}, S: c.S}}, trim: c.Trim}
	steps := max(1, c.Steps)
	got := map[string]map[int64]float64{}
	for _, fn := range c30Funcs {
		res, err := c30Exec(c, store, c30Query(fn, c))
		if err != nil {
			return ev.Failf("%s at %d (steps %d x %dms): unexpected error: %v", c30Query(fn, c), c.EvalMs, steps, c.StepMs, err)
		}
		got[fn] = res
	}
	nontrivial := false
	for si := 0; si < steps; si++ {
		ts := c.EvalMs + int64(si)*c.StepMs
		hi := ts - c.OffMs
		lo := hi - c.RangeMs
		w := c30Window(c.S, lo, hi)
		finite, nonneg := true, true
		for _, x := range w {
			if math.IsNaN(x.V) || math.IsInf(x.V, 0) {
				finite = false
			}
			if !(x.V >= 0) {
				nonneg = false
			}
		}
		where := func(fn string) string {
			return fmt.Sprintf("%s evaluated at %d (window (%d,%d], UseStartTimestamps=%v, storage trims: %v), samples in window:%s", c30Query(fn, c), ts, lo, hi, c.UseST, c.Trim, c30DescribeWindow(w, c.UseST))
		}
		for _, fn := range c30Funcs {
			if !finite && (fn == "rate" || fn == "increase") {
				// the order in which non-finite values enter the sums is not specified
				r.Class("skipped-nonfinite-counter")
				continue
			}
			want := c30Reference(fn, w, lo, hi, c.UseST)
			g, present := got[fn][ts]
			if want.Present != present {
				if present {
					return ev.Failf("%s: expected no result, got %v", where(fn), g)
				}
				return ev.Failf("%s: expected %v, got no result", where(fn), want.Vals)
			}
			if !present {
				r.Class("absent:" + fn)
				continue
			}
			ok := false
			for _, v := range want.Vals {
				if c30Close(g, v, want.AbsTol) {
					ok = true
				}
			}
			if !ok {
				return ev.Failf("%s: expected %v (tolerance rel 1e-9 + %g), got %v", where(fn), want.Vals, want.AbsTol, g)
			}
			if fn == "rate" || fn == "increase" || fn == "delta" {
				if want.Near {
					r.Class("near-threshold:" + fn)
					nontrivial = true
				}
				if want.Tie {
					r.Class("exact-tie:" + fn)
				}
				if want.ZeroPt {
					r.Class("zero-point-clamp:" + fn)
				}
				if want.STZero {
					r.Class("st-zero-start:" + fn)
				}
			}
			if want.Resets > 0 && fn != "delta" {
				r.Class("reset:" + fn)
				nontrivial = true
			}
		}
		// metamorphic relations between the engine's own results (independent of the reference)
		if finite && nonneg {
			rate, okR := got["rate"][ts]
			incr, okI := got["increase"][ts]
			if okR != okI {
				return ev.Failf("%s: rate present=%v but increase present=%v", where("rate"), okR, okI)
			}
			if okR {
				r.Class("metamorphic-checked")
				if !(rate >= 0) || !(incr >= 0) {
					return ev.Failf("%s: non-negative counter but rate=%v increase=%v", where("rate"), rate, incr)
				}
				rs := float64(c.RangeMs) / 1000
				if math.Abs(incr-rate*rs) > 1e-12*math.Abs(incr) {
					return ev.Failf("%s: increase=%v differs from rate*range = %v*%v = %v", where("increase"), incr, rate, rs, rate*rs)
				}
			}
		}
	}
	if c.UseST {
		r.Class("use-start-timestamps")
	}
	if c.Steps > 1 {
		r.Class("range-query")
	}
	if c.OffMs != 0 {
		r.Class("offset")
	}
	if nontrivial {
		r.NonTrivial()
	}
	return nil
}

func TestC30(t *testing.T) {
	ev.Check(t, "C30",
		"one float series (0-40 samples in the window, regular/jittered/irregular spacing, extra samples outside and exactly on the window edges, counter values with resets forced at the first/last pair or drawn, gauges, equal values, rare NaN/Inf/stale; start timestamps none/constant/inside the window/resets/delta-style/invalid, with UseStartTimestamps on or off) whose first and last in-window samples are placed at distances around 1.1x the average interval from the window boundaries; rate, increase, delta, irate, idelta, resets and changes are all evaluated (instant or 2-5 step range query, optional offset) and compared with a reference written from functions.md / the property text (exact integer threshold comparison, both branches accepted only on an exact tie), plus engine-only relations for non-negative counters (rate>=0, increase>=0, increase==rate*range). Non-trivial: >=1 counter reset in the window or a boundary distance within 2% of the threshold; distinct by hash of the case.",
		genC30, runC30)
}
