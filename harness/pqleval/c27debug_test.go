package pqleval

import (
	"encoding/json"
	"fmt"
	"os"
	"sort"
	"strings"
	"testing"
)

// TestC27Debug is a development aid: C27_DEBUG=<replay.json> [C27_DEBUG_Q="q1;;q2"] prints the
// range result and the per-step instant results of the case's (or the given) queries.
func TestC27Debug(t *testing.T) {
	f := os.Getenv("C27_DEBUG")
	if f == "" {
		t.Skip("development aid")
	}
	b, err := os.ReadFile(f)
	if err != nil {
		t.Fatal(err)
	}
	var c c27Case
	if err := json.Unmarshal(b, &c); err != nil {
		t.Fatal(err)
	}
	qs := []string{c.Expr}
	if s := os.Getenv("C27_DEBUG_Q"); s != "" {
		qs = strings.Split(s, ";;")
	}
	q := c27NewQueryable(c.Data)
	ng := c27NewEngine(c.Eng)
	end := c.Start + int64(c.N-1)*c.Step
	for _, expr := range qs {
		fmt.Printf("== %s  range [%d,%d] step %d\n", expr, c.Start, end, c.Step)
		rng := c27Range(ng, q, expr, c.Start, end, c.Step)
		fmt.Printf("range err=%v warnings=%v\n", rng.Err, rng.Warnings)
		var tss []int64
		for ts := range rng.Steps {
			tss = append(tss, ts)
		}
		sort.Slice(tss, func(i, j int) bool { return tss[i] < tss[j] })
		for _, ts := range tss {
			fmt.Printf("  range   %8d %s\n", ts, c27StepString(rng.Steps[ts]))
		}
		for i := 0; i < c.N; i++ {
			ts := c.Start + int64(i)*c.Step
			in := c27Instant(ng, q, expr, ts)
			fmt.Printf("  instant %8d err=%v %s %v\n", ts, in.Err, c27StepString(in.Steps[ts]), in.Warnings)
		}
	}
}
