package pqleval

import (
	"context"
	"fmt"
	"log/slog"
	"runtime"
	"strings"
	"sync"
	"sync/atomic"
	"testing"
	"time"

	"github.com/prometheus/prometheus/promql"
	"github.com/prometheus/prometheus/promql/parser"
	"pgregory.net/rapid"

	"verifharness/internal/ev"
	"verifharness/internal/pqlgen"
)

// C33 — Query evaluation never fails internally; results do not depend on other queries
// evaluated concurrently in the same engine.

// ---- stack capturing logger ----

// c33Log keeps the stack trace the engine logs when it recovers from a runtime panic
// ("runtime panic during query evaluation").
type c33Log struct {
	mu    sync.Mutex
	stack string
}

func (l *c33Log) Enabled(context.Context, slog.Level) bool { return true }
func (l *c33Log) Handle(_ context.Context, r slog.Record) error {
	if r.Level < slog.LevelError {
		return nil
	}
	r.Attrs(func(a slog.Attr) bool {
		if a.Key == "stacktrace" {
			l.mu.Lock()
			l.stack = a.Value.String()
			l.mu.Unlock()
		}
		return true
	})
	return nil
}
func (l *c33Log) WithAttrs([]slog.Attr) slog.Handler { return l }
func (l *c33Log) WithGroup(string) slog.Handler      { return l }
func (l *c33Log) take() string {
	l.mu.Lock()
	defer l.mu.Unlock()
	s := l.stack
	l.stack = ""
	return s
}

func c33NewEngine(o c27EngineOpts, timeout time.Duration, lg *c33Log) *promql.Engine {
	ms := o.MaxSamples
	if ms == 0 {
		ms = 2_000_000
	}
	var logger *slog.Logger
	if lg != nil {
		logger = slog.New(lg)
	}
	return promql.NewEngine(promql.EngineOpts{
		Logger:                   logger,
		MaxSamples:               ms,
		Timeout:                  timeout,
		LookbackDelta:            time.Duration(o.LookbackMs) * time.Millisecond,
		NoStepSubqueryIntervalFn: func(int64) int64 { return 60_000 },
		EnableAtModifier:         true,
		EnableNegativeOffset:     true,
		EnableDelayedNameRemoval: o.Delayed,
		UseStartTimestamps:       o.UseST,
		EnablePerStepStats:       true,
		Parser:                   parser.NewParser(c27ParserAll),
	})
}

// Known finding: FloatHistogram.Add / KahanAdd index the receiver's bucket slice through
// its first span without checking the span's length; a (valid) histogram whose first
// span has length zero makes addBuckets / kahanAddBuckets panic. Signature only when the
// data holds such a histogram and the recovered stack is inside those functions.
const c33SigEmptySpan = "c33-histogram-add-zero-length-first-span"

func c33KnownSig(q *c27Queryable, stack string) string {
	if q.nEmptyLead > 0 && (strings.Contains(stack, "histogram.addBuckets") || strings.Contains(stack, "histogram.kahanAddBuckets")) {
		return c33SigEmptySpan
	}
	return ""
}

// ---- part a: generated queries ----

type c33Case struct {
	Data    c27Data
	Eng     c27EngineOpts
	Expr    string
	Kind    string // "typed" | "mistyped" | "mutated"
	Range   bool
	Start   int64
	Step    int64
	N       int
	Extreme bool
}

var c33ExtremeDurations = []string{"1ms", "1s", "30s", "5m", "1h", "100y", "1s1ms", "292y", "1w"}

func c33PqlOpts(extreme bool) pqlgen.Options {
	o := pqlgen.Options{Metrics: c27Metrics, Labels: c27Labels, Values: append([]string{"x y"}, c27Values...), MaxDepth: 3,
		AtTimestamps: []string{"0", "10", "100.5", "1e3", "600", "-5"}}
	if extreme {
		o.Durations = c33ExtremeDurations
		o.AtTimestamps = []string{"0", "1e3", "-1e9", "1e10", "9.2e15", "-9.2e15", "0.001"}
		o.NoSubquery = true // a 100y subquery at a 1ms step only ever times out
	}
	return o
}

// c33Mistyped builds an expression that parses but must be rejected by the type check.
func c33Mistyped(t *rapid.T, o pqlgen.Options) string {
	vec := func() string { return pqlgen.Expr(o, pqlgen.Vector).Draw(t, "vec") }
	mat := func() string { return pqlgen.Expr(o, pqlgen.Matrix).Draw(t, "mat") }
	sc := func() string { return pqlgen.Expr(o, pqlgen.Scalar).Draw(t, "scalar") }
	str := func() string { return pqlgen.Expr(o, pqlgen.String).Draw(t, "str") }
	switch rapid.IntRange(0, 11).Draw(t, "mistype") {
	case 0:
		return "rate(" + vec() + ")"
	case 1:
		return "(" + mat() + ") + 1"
	case 2:
		return "sum(" + sc() + ")"
	case 3:
		return "topk(" + vec() + ", " + vec() + ")"
	case 4:
		return "abs(" + str() + ")"
	case 5:
		return "(" + vec() + ") and (" + sc() + ")"
	case 6:
		return "(" + sc() + ") == (" + sc() + ")"
	case 7:
		return "sum_over_time(" + sc() + ")"
	case 8:
		return "count_values(" + sc() + ", " + vec() + ")"
	case 9:
		return "histogram_quantile(" + vec() + ", " + vec() + ")"
	case 10:
		return "-(" + mat() + ")"
	default:
		return "label_replace(" + vec() + ", " + sc() + `, "", "a", "")`
	}
}

// c33Mutate damages a generated query on the byte level (it may still parse, or not).
func c33Mutate(t *rapid.T, s string) string {
	if len(s) == 0 {
		return s
	}
	b := []byte(s)
	for i, n := 0, rapid.IntRange(1, 3).Draw(t, "nmut"); i < n && len(b) > 0; i++ {
		pos := rapid.IntRange(0, len(b)-1).Draw(t, "mutpos")
		switch rapid.IntRange(0, 3).Draw(t, "mutkind") {
		case 0:
			b = append(b[:pos], b[pos+1:]...)
		case 1:
			b = append(b[:pos], append([]byte{b[pos]}, b[pos:]...)...)
		case 2:
			b[pos] = rapid.SampledFrom([]byte("()[]{},:@+-*/%^<>=!\"' 0159abmx")).Draw(t, "mutbyte")
		default:
			end := pos + rapid.IntRange(1, 6).Draw(t, "mutlen")
			if end > len(b) {
				end = len(b)
			}
			b = append(b[:pos], b[end:]...)
		}
	}
	return string(b)
}

func genC33(t *rapid.T) c33Case {
	c := c33Case{Kind: "typed"}
	switch rapid.IntRange(0, 9).Draw(t, "kind") {
	case 0:
		c.Kind = "mistyped"
	case 1:
		c.Kind = "mutated"
	}
	c.Extreme = rapid.IntRange(0, 4).Draw(t, "extreme") == 0
	c.Eng = c27EngineOpts{
		LookbackMs: rapid.SampledFrom([]int64{1, 1000, 300000, 300000, 600000, 86400000}).Draw(t, "lookback"),
		Delayed:    rapid.IntRange(0, 3).Draw(t, "delayed") == 3,
		UseST:      rapid.IntRange(0, 3).Draw(t, "usest") == 3,
		MaxSamples: rapid.SampledFrom([]int{2_000_000, 2_000_000, 2_000_000, 50, 1000}).Draw(t, "maxsamples"),
	}
	c.Data = c27GenData(t, c27DataOpts{MaxSeries: 8, MinT: -600_000, MaxT: 3_600_000, Metrics: c27Metrics, LabelNames: c27Labels,
		LabelValues: c27Values, Histograms: true, SpecialVals: true, ST: c.Eng.UseST,
		KeepEmptyLeadingSpans: rapid.IntRange(0, 9).Draw(t, "emptyleadingspans") == 0})
	o := c33PqlOpts(c.Extreme)
	o.MaxDepth = rapid.IntRange(1, 4).Draw(t, "depth")
	switch c.Kind {
	case "typed":
		if rapid.IntRange(0, 1).Draw(t, "composed") == 0 {
			c.Expr = c27Compose(t, "range", o)
		} else {
			c.Expr = pqlgen.Expr(o, pqlgen.VectorOrScalar).Draw(t, "expr")
		}
	case "mistyped":
		c.Expr = c33Mistyped(t, o)
	default:
		c.Expr = c33Mutate(t, pqlgen.Expr(o, pqlgen.VectorOrScalar).Draw(t, "expr"))
	}
	c.Range = rapid.Bool().Draw(t, "rangequery")
	c.Start = rapid.Int64Range(-60_000, 1_200_000).Draw(t, "start")
	c.Step = rapid.SampledFrom([]int64{1, 1, 1000, 15000, 60000, 300000, 3600000}).Draw(t, "step")
	c.N = rapid.IntRange(1, 40).Draw(t, "nsteps")
	return c
}

func runC33(c c33Case, r *ev.Rec) error {
	if c.N < 1 || c.Step < 1 {
		r.Discard()
		return nil
	}
	q := c27NewQueryable(c.Data)
	lg := &c33Log{}
	ng := c33NewEngine(c.Eng, 2*time.Second, lg)
	defer ng.Close()
	r.Class("kind:" + c.Kind)
	if c.Extreme {
		r.Class("extreme-parameters")
	}
	p := parser.NewParser(c27ParserAll)
	_, perr := p.ParseExpr(c.Expr)

	var qry promql.Query
	var err error
	end := c.Start + int64(c.N-1)*c.Step
	if c.Range {
		r.Class("query:range")
		qry, err = ng.NewRangeQuery(context.Background(), q, nil, c.Expr, time.UnixMilli(c.Start), time.UnixMilli(end), time.Duration(c.Step)*time.Millisecond)
	} else {
		r.Class("query:instant")
		qry, err = ng.NewInstantQuery(context.Background(), q, nil, c.Expr, time.UnixMilli(c.Start))
	}
	if err != nil {
		if c27Internal(err) {
			return ev.Failf("creating the query %q fails internally: %v", c.Expr, err)
		}
		if c.Kind == "typed" {
			r.Class("res:typed-but-rejected") // value checks (duration / timestamp out of range, matrix result in a range query)
		}
		r.Class("res:rejected-at-creation")
		return nil
	}
	defer qry.Close()
	if c.Kind == "mistyped" {
		return ev.Failf("query %q must be rejected by the type check, but the engine accepts it (statement %v)", c.Expr, qry.Statement())
	}
	res := qry.Exec(context.Background())
	stack := lg.take()
	if res.Err != nil {
		if c27Internal(res.Err) {
			msg := fmt.Sprintf("query %q (range=%v start=%d end=%d step=%d, lookback %dms, delayed name removal %v, start timestamps %v, max samples %d) fails internally: %v\n%s",
				c.Expr, c.Range, c.Start, end, c.Step, c.Eng.LookbackMs, c.Eng.Delayed, c.Eng.UseST, c.Eng.MaxSamples, res.Err, c33TrimStack(stack))
			if sig := c33KnownSig(q, stack); sig != "" {
				return ev.FailSig(sig, "%s", msg)
			}
			return ev.Failf("%s", msg)
		}
		switch res.Err.(type) {
		case promql.ErrQueryTimeout:
			r.Class("res:timeout")
		case promql.ErrTooManySamples:
			r.Class("res:too-many-samples")
		default:
			r.Class("res:user-error")
		}
	} else {
		if stack != "" {
			return ev.Failf("query %q succeeded although the engine recovered from a runtime panic:\n%s", c.Expr, c33TrimStack(stack))
		}
		ex := c27Extract(res)
		if ex.Dup != "" && c.Eng.Delayed && ex.DupMixed {
			// listed under C27 (c27-delayed-name-removal-float-and-histogram-at-one-timestamp); not an internal failure
			r.Class("res:c27-delayed-mixed-merge")
		} else if ex.Dup != "" {
			return ev.Failf("query %q: the result holds the same label set twice: %s", c.Expr, ex.Dup)
		}
		if c.Range {
			for ts := range ex.Steps {
				if ts < c.Start || ts > end || (ts-c.Start)%c.Step != 0 {
					return ev.Failf("query %q: range result holds a sample at %d which is not a step of [%d,%d] step %d", c.Expr, ts, c.Start, end, c.Step)
				}
			}
		}
		nonEmpty := false
		for _, st := range ex.Steps {
			if len(st) > 0 {
				nonEmpty = true
			}
		}
		if nonEmpty {
			r.Class("res:nonempty")
		} else {
			r.Class("res:empty")
		}
	}
	if q.nHist > 0 {
		r.Class("data:histograms")
	}
	if q.nStale > 0 {
		r.Class("data:stale")
	}
	if perr == nil && (q.nHist > 0 || q.nStale > 0) {
		r.NonTrivial()
	}
	return nil
}

func c33TrimStack(s string) string {
	lines := strings.Split(s, "\n")
	var keep []string
	for _, l := range lines {
		if strings.Contains(l, "prometheus/") && !strings.Contains(l, "recover(") {
			keep = append(keep, strings.TrimSpace(l))
		}
		if len(keep) >= 12 {
			break
		}
	}
	return strings.Join(keep, "\n")
}

func TestC33(t *testing.T) {
	ev.Check(t, "C33",
		"1-8 generated series (floats incl. NaN/Inf/-0, float and integer native histograms incl. custom buckets and zero-length spans, mixed series, stale markers, gaps) and one query string: 80% well-typed from the structural generator (every node kind and function, start()/end()/step()/range(), @, negative offsets, anchored/smoothed, fill modifiers, duration expressions; 1/5 with extreme parameters: 100y/292y/1ms durations, @ +-9.2e15, k/q out of range), 10% built to fail the type check (must be rejected when the query is created), 10% byte-level mutations; evaluated as instant or range query (1-40 steps, step 1ms..1h, lookback 1ms..1d, max samples 50..2e6, delayed name removal, start timestamps). Oracle: no panic escapes, Result.Err is never a runtime error / 'unexpected error', the engine logs no recovered panic, results hold each label set once per timestamp and only step timestamps. Non-trivial: the query passed parsing and type checking and the data holds histogram or stale samples; distinct by hash of the case.",
		genC33, runC33, ev.Opts{Part: "eval"})
}

// ---- part b: concurrent vs serial ----

type c33Query struct {
	Expr  string
	Range bool
	Start int64
	Step  int64
	N     int
}

type c33ConcCase struct {
	Data    c27Data
	Eng     c27EngineOpts
	Queries []c33Query
	Procs   int
}

func genC33Conc(t *rapid.T) c33ConcCase {
	var c c33ConcCase
	c.Eng = c27EngineOpts{
		LookbackMs: rapid.SampledFrom([]int64{1000, 300000, 300000, 600000}).Draw(t, "lookback"),
		Delayed:    rapid.IntRange(0, 4).Draw(t, "delayed") == 4,
		UseST:      rapid.IntRange(0, 3).Draw(t, "usest") == 3,
	}
	c.Data = c27GenData(t, c27DataOpts{MaxSeries: 8, MinT: -600_000, MaxT: 3_600_000, Metrics: c27Metrics, LabelNames: c27Labels,
		LabelValues: c27Values, Histograms: true, SpecialVals: true, ST: c.Eng.UseST})
	n := rapid.IntRange(8, 32).Draw(t, "nqueries")
	for i := 0; i < n; i++ {
		expr, _ := c27GenExpr(t, "range")
		qu := c33Query{Expr: expr, Range: rapid.IntRange(0, 2).Draw(t, "rangequery") > 0}
		qu.Start = rapid.Int64Range(0, 1_200_000).Draw(t, "start")
		qu.Step = rapid.SampledFrom(c27Steps).Draw(t, "step")
		qu.N = rapid.IntRange(1, 30).Draw(t, "nsteps")
		c.Queries = append(c.Queries, qu)
		if i > 0 && rapid.IntRange(0, 3).Draw(t, "repeat") == 0 {
			// the same query several times: shared pooled buffers of equal size
			c.Queries[i] = c.Queries[rapid.IntRange(0, i-1).Draw(t, "repeatof")]
		}
	}
	c.Procs = rapid.SampledFrom([]int{2, 4, 8, 16}).Draw(t, "gomaxprocs")
	return c
}

type c33Prepared struct {
	q    c33Query
	rel  float64
	kop  string
	skip bool
}

func runC33Conc(c c33ConcCase, r *ev.Rec) error {
	if len(c.Queries) == 0 {
		r.Discard()
		return nil
	}
	p := parser.NewParser(c27ParserAll)
	prep := make([]c33Prepared, len(c.Queries))
	for i, qu := range c.Queries {
		prep[i].q = qu
		ast, err := p.ParseExpr(qu.Expr)
		if err != nil || qu.N < 1 || qu.Step < 1 {
			prep[i].skip = true
			continue
		}
		var classifyOn parser.Expr = ast
		if a, ok := ast.(*parser.AggregateExpr); ok && (a.Op == parser.TOPK || a.Op == parser.BOTTOMK || a.Op == parser.LIMITK) {
			// ties are broken by an order that differs from run to run: compare the operand instead
			prep[i].q.Expr = a.Expr.String()
			classifyOn = a.Expr
		}
		switch c27Classify(classifyOn) {
		case c27ModeReject:
			prep[i].skip = true
		case c27ModeTolerant:
			prep[i].rel = 1e-9
		}
	}
	q := c27NewQueryable(c.Data)
	lg := &c33Log{}
	ng := c33NewEngine(c27EngineOpts{LookbackMs: c.Eng.LookbackMs, Delayed: c.Eng.Delayed, UseST: c.Eng.UseST, MaxSamples: 50_000_000}, 5*time.Minute, lg)
	defer ng.Close()
	mk := func(pq c33Prepared) (promql.Query, error) {
		if pq.q.Range {
			return ng.NewRangeQuery(context.Background(), q, nil, pq.q.Expr, time.UnixMilli(pq.q.Start), time.UnixMilli(pq.q.Start+int64(pq.q.N-1)*pq.q.Step), time.Duration(pq.q.Step)*time.Millisecond)
		}
		return ng.NewInstantQuery(context.Background(), q, nil, pq.q.Expr, time.UnixMilli(pq.q.Start))
	}
	// serial pass
	serial := make([]*c27Res, len(prep))
	for i := range prep {
		if prep[i].skip {
			continue
		}
		qry, err := mk(prep[i])
		if err != nil {
			prep[i].skip = true
			continue
		}
		serial[i] = c27Extract(qry.Exec(context.Background()))
		qry.Close()
		if c27Internal(serial[i].Err) {
			// C33 part "eval" owns this; do not compare
			prep[i].skip = true
		}
	}
	// concurrent pass: all queries are created first, every evaluation blocks in
	// Queryable.Querier until all of them have started.
	var queries []promql.Query
	var idx []int
	for i := range prep {
		if prep[i].skip {
			continue
		}
		qry, err := mk(prep[i])
		if err != nil {
			return ev.Failf("query %q was accepted in the serial pass and is rejected now: %v", prep[i].q.Expr, err)
		}
		queries = append(queries, qry)
		idx = append(idx, i)
	}
	if len(queries) < 2 {
		r.Discard()
		return nil
	}
	old := runtime.GOMAXPROCS(c.Procs)
	defer runtime.GOMAXPROCS(old)
	var arrived, running, maxRunning int32
	total := int32(len(queries))
	barrier := make(chan struct{})
	q.onQuerier = func() {
		if atomic.AddInt32(&arrived, 1) == total {
			close(barrier)
		}
		select {
		case <-barrier:
		case <-time.After(20 * time.Second): // never deadlock the check; the overlap is measured below
		}
	}
	conc := make([]*c27Res, len(queries))
	var wg sync.WaitGroup
	for j := range queries {
		wg.Add(1)
		go func(j int) {
			defer wg.Done()
			n := atomic.AddInt32(&running, 1)
			for {
				m := atomic.LoadInt32(&maxRunning)
				if n <= m || atomic.CompareAndSwapInt32(&maxRunning, m, n) {
					break
				}
			}
			conc[j] = c27Extract(queries[j].Exec(context.Background()))
			atomic.AddInt32(&running, -1)
		}(j)
	}
	wg.Wait()
	q.onQuerier = nil
	for _, qry := range queries {
		qry.Close()
	}
	overlapped := int(atomic.LoadInt32(&arrived))
	r.Count("queries", len(queries))
	for j, i := range idx {
		s, cc := serial[i], conc[j]
		pq := prep[i]
		desc := fmt.Sprintf("query %d/%d %q (range=%v start=%d step=%d n=%d; %d queries in flight, GOMAXPROCS %d)", j, len(queries), pq.q.Expr, pq.q.Range, pq.q.Start, pq.q.Step, pq.q.N, overlapped, c.Procs)
		if c27Internal(cc.Err) {
			return ev.Failf("%s fails internally when evaluated concurrently: %v (serial: err=%v)\n%s", desc, cc.Err, s.Err, c33TrimStack(lg.take()))
		}
		if (s.Err == nil) != (cc.Err == nil) || c27ErrClass(s.Err) != c27ErrClass(cc.Err) {
			return ev.Failf("%s: serial error %v, concurrent error %v", desc, s.Err, cc.Err)
		}
		if s.Err != nil {
			continue
		}
		keys := map[int64]bool{}
		for ts := range s.Steps {
			keys[ts] = true
		}
		for ts := range cc.Steps {
			keys[ts] = true
		}
		for ts := range keys {
			d := c27DiffStep(s.Steps[ts], cc.Steps[ts], pq.rel)
			if d != "" && c.Eng.Delayed && c27NameOnlyDiff(s.Steps[ts], cc.Steps[ts], pq.rel) {
				// listed finding of C27 (c27-delayed-name-removal-series-merge): which sample comes first
				// in the merged series depends on map order, so it also differs from run to run
				r.Class("delayed-name-removal-merge")
				continue
			}
			if d != "" {
				return ev.Failf("%s: result at %d differs between the serial (first) and the concurrent (second) evaluation: %s\nserial:     %s\nconcurrent: %s", desc, ts, d, c27StepString(s.Steps[ts]), c27StepString(cc.Steps[ts]))
			}
		}
		if d := c27AnnotDiff(c27AnnotClasses(s.Warnings), c27AnnotClasses(cc.Warnings)); d != "" {
			return ev.Failf("%s: annotation classes differ between serial and concurrent evaluation: %s", desc, d)
		}
	}
	r.Class(fmt.Sprintf("gomaxprocs:%d", c.Procs))
	if overlapped >= 8 && overlapped == len(queries) {
		r.Class("overlap>=8")
		r.NonTrivial()
	} else {
		r.Class("overlap<8")
	}
	return nil
}

func TestC33Concurrent(t *testing.T) {
	ev.Check(t, "C33",
		"one data set and 8-32 generated queries (C27 generator: instant and range, repeats of the same query included) in one engine: evaluated one after the other, then all at once from one goroutine each with GOMAXPROCS 2-16; a barrier inside Queryable.Querier holds every evaluation until all have started. Oracle: no internal failure, same error class, same label sets, floats bitwise (NaN-aware; rel 1e-9 where the accumulation order is not fixed), histograms Equals, same annotation classes as in the serial pass. Non-trivial: all queries (>= 8) were in flight at the same time; distinct by hash of the case.",
		genC33Conc, runC33Conc, ev.Opts{Part: "conc"})
}
