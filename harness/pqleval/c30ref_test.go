package pqleval

import (
	"math"

	"verifharness/internal/gen"
)

// Reference for rate/increase/delta/irate/idelta/resets/changes on float samples, written
// from docs/querying/functions.md and the C30 property text: counter-reset correction,
// start-timestamp resets, extrapolation towards the window boundaries limited by 1.1x the
// average sample interval and by the counter's zero point. Never touches the engine.

type c30Smp struct {
	T, ST int64
	V     float64
}

// c30Window: the non-stale samples with lo < T <= hi (left-open, right-closed).
func c30Window(s []c28Smp, lo, hi int64) []c30Smp {
	var out []c30Smp
	for _, x := range s {
		if x.T <= lo || x.T > hi || x.c28Stale() {
			continue
		}
		out = append(out, c30Smp{T: x.T, ST: x.ST, V: gen.F(x.V)})
	}
	return out
}

// c30Want is the set of acceptable results of one function at one evaluation time.
type c30Want struct {
	Present bool
	Vals    []float64 // any of these (more than one only on an exact threshold tie / NaN ambiguity)
	AbsTol  float64   // absolute slack added to the relative 1e-9
	Resets  int       // resets seen in the window (value or start-timestamp)
	Near    bool      // a boundary distance within 2% of the extrapolation threshold
	Tie     bool
	ZeroPt  bool // the zero-point clamp limited the extrapolation
	STZero  bool // the first sample's start timestamp replaced the left extrapolation
}

// c30STReset: with start timestamps in use, a sample whose (valid) start timestamp lies
// after the previous sample belongs to a new counter stream. A start timestamp equal to
// the previous sample's timestamp is a reset only for delta-style streams, i.e. when the
// previous sample has a known start timestamp before its own timestamp. Unset (0),
// ST == T (unknown) and ST > T (invalid) never signal a reset.
func c30STReset(useST bool, prev, cur c30Smp) bool {
	if !useST || cur.ST == 0 || cur.ST >= cur.T {
		return false
	}
	switch {
	case cur.ST < prev.T:
		return false
	case cur.ST > prev.T:
		return true
	}
	return prev.ST != 0 && prev.ST < prev.T
}

func c30IsReset(useST bool, prev, cur c30Smp) bool {
	return cur.V < prev.V || c30STReset(useST, prev, cur)
}

// c30ThresholdCmp compares the boundary distance d (ms) with 1.1 x the average interval
// span/(n-1) exactly: -1 below, 0 tie, +1 at-or-above... (tie reported separately).
func c30ThresholdCmp(d, span int64, nMinus1 int) int {
	// d ? 1.1*span/nMinus1  <=>  10*d*nMinus1 ? 11*span
	l := 10 * d * int64(nMinus1)
	r := 11 * span
	switch {
	case l < r:
		return -1
	case l > r:
		return 1
	}
	return 0
}

// c30Extrapolated implements rate (counter,rate), increase (counter,!rate), delta (!counter,!rate)
// over window w of the range (lo, hi], rangeMs = hi-lo.
func c30Extrapolated(w []c30Smp, lo, hi int64, counter, rate, useST bool) c30Want {
	var out c30Want
	n := len(w)
	if n == 0 {
		return out
	}
	first, last := w[0], w[n-1]
	maxAbs := 0.0
	for _, x := range w {
		if !math.IsNaN(x.V) && !math.IsInf(x.V, 0) {
			maxAbs = math.Max(maxAbs, math.Abs(x.V))
		}
	}
	// total increase: sum of the increments; after a reset the counter restarted from zero,
	// so the increment is the new value itself.
	var inc float64
	if counter {
		for i := 1; i < n; i++ {
			if c30IsReset(useST, w[i-1], w[i]) {
				out.Resets++
				inc += w[i].V
			} else {
				inc += w[i].V - w[i-1].V
			}
		}
	} else {
		inc = last.V - first.V
	}
	spanMs := last.T - first.T
	var avgMs float64
	if n > 1 {
		avgMs = float64(spanMs) / float64(n-1)
	}
	ds, de := first.T-lo, hi-last.T

	type gap struct {
		v   float64
		ext bool // extrapolated all the way to the boundary
	}
	choose := func(d int64) []gap {
		if n == 1 {
			return []gap{{0, false}} // no interval known: threshold 0, half an interval is 0
		}
		if 100*abs64(10*d*int64(n-1)-11*spanMs) <= 2*11*spanMs {
			out.Near = true
		}
		switch c30ThresholdCmp(d, spanMs, n-1) {
		case -1:
			return []gap{{float64(d), true}}
		case 1:
			return []gap{{avgMs / 2, false}}
		}
		out.Tie = true
		return []gap{{float64(d), true}, {avgMs / 2, false}}
	}

	sampledMs := float64(spanMs)
	var starts []gap
	if counter && useST && first.ST != 0 && first.ST > lo && first.ST < first.T {
		// the counter is known to have started (at zero) inside the range
		out.STZero = true
		inc += first.V
		sampledMs = float64(last.T - first.ST)
		starts = []gap{{0, false}}
	} else {
		if n < 2 {
			return c30Want{}
		}
		starts = choose(ds)
		if counter && inc > 0 && first.V >= 0 {
			// a counter cannot be negative: do not extrapolate beyond its zero point
			dz := sampledMs * (first.V / inc)
			for i := range starts {
				if dz < starts[i].v {
					starts[i].v = dz
					out.ZeroPt = true
				}
			}
		}
	}
	ends := choose(de)
	out.Present = true
	for _, s := range starts {
		for _, e := range ends {
			factor := (sampledMs + s.v + e.v) / sampledMs
			if rate {
				factor /= float64(hi-lo) / 1000
			}
			out.Vals = append(out.Vals, inc*factor)
			out.AbsTol = math.Max(out.AbsTol, 1e-12*maxAbs*float64(n)*math.Abs(factor))
		}
	}
	return out
}

func abs64(x int64) int64 {
	if x < 0 {
		return -x
	}
	return x
}

// c30Instant implements irate (rate=true) and idelta (rate=false): the last two samples.
func c30Instant(w []c30Smp, rate, useST bool) c30Want {
	n := len(w)
	if n < 2 {
		return c30Want{}
	}
	p, q := w[n-2], w[n-1]
	out := c30Want{Present: true}
	v := q.V - p.V
	if rate {
		if c30IsReset(useST, p, q) {
			out.Resets = 1
			v = q.V
		}
		v /= float64(q.T-p.T) / 1000
	}
	out.Vals = []float64{v}
	if rate && !math.IsNaN(v) && !math.IsInf(v, 0) {
		m := 0.0
		for _, x := range []float64{p.V, q.V} {
			if !math.IsNaN(x) && !math.IsInf(x, 0) {
				m = math.Max(m, math.Abs(x))
			}
		}
		out.AbsTol = 1e-12 * m * 1000 / float64(q.T-p.T)
	}
	return out
}

// c30Resets counts decreases (and start-timestamp resets) between consecutive samples.
func c30Resets(w []c30Smp, useST bool) c30Want {
	if len(w) == 0 {
		return c30Want{}
	}
	k := 0
	for i := 1; i < len(w); i++ {
		if c30IsReset(useST, w[i-1], w[i]) {
			k++
		}
	}
	return c30Want{Present: true, Vals: []float64{float64(k)}, Resets: k}
}

// c30Changes counts value changes between consecutive samples. Whether NaN followed by
// NaN "changed" is not specified: both counts are accepted.
func c30Changes(w []c30Smp) c30Want {
	if len(w) == 0 {
		return c30Want{}
	}
	lo, hi := 0, 0
	for i := 1; i < len(w); i++ {
		a, b := w[i-1].V, w[i].V
		switch {
		case math.IsNaN(a) && math.IsNaN(b):
			hi++
		case a != b:
			lo++
			hi++
		}
	}
	out := c30Want{Present: true}
	for k := lo; k <= hi; k++ {
		out.Vals = append(out.Vals, float64(k))
	}
	return out
}

func c30Reference(fn string, w []c30Smp, lo, hi int64, useST bool) c30Want {
	switch fn {
	case "rate":
		return c30Extrapolated(w, lo, hi, true, true, useST)
	case "increase":
		return c30Extrapolated(w, lo, hi, true, false, useST)
	case "delta":
		return c30Extrapolated(w, lo, hi, false, false, false)
	case "irate":
		return c30Instant(w, true, useST)
	case "idelta":
		return c30Instant(w, false, false)
	case "resets":
		return c30Resets(w, useST)
	case "changes":
		return c30Changes(w)
	}
	panic("c30: unknown function " + fn)
}

// c30Close: relative 1e-9 plus abs slack, NaN==NaN, infinities must match exactly.
func c30Close(got, want, abs float64) bool {
	if math.IsNaN(got) || math.IsNaN(want) {
		return math.IsNaN(got) && math.IsNaN(want)
	}
	if math.IsInf(got, 0) || math.IsInf(want, 0) {
		return got == want
	}
	return math.Abs(got-want) <= 1e-9*math.Max(math.Abs(got), math.Abs(want))+abs
}
