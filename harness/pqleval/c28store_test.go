package pqleval

import (
	"context"
	"sort"
	"sync"
	"time"

	"github.com/prometheus/prometheus/model/histogram"
	"github.com/prometheus/prometheus/model/labels"
	"github.com/prometheus/prometheus/promql"
	"github.com/prometheus/prometheus/storage"
	"github.com/prometheus/prometheus/tsdb/chunkenc"
	"github.com/prometheus/prometheus/util/annotations"

	"verifharness/internal/gen"
)

// In-memory storage.Queryable shared by the C28 and C30 checks: sorted series with
// explicit samples (float / float histogram / integer histogram, optional start
// timestamp), no TSDB. With trim on, Select returns only the samples inside the
// intersection of the querier's [mint,maxt] and the select hints' [Start,End] - this is
// what a TSDB block querier does, so a too narrow time range computed by the engine
// becomes visible as a wrong result.

// c28Smp is one stored sample. K: 0 float, 1 float histogram, 2 integer histogram.
// V is the float64 bit pattern of the value (floats) or of the histogram's Sum.
type c28Smp struct {
	T  int64
	ST int64  `json:",omitempty"`
	K  int    `json:",omitempty"`
	V  uint64 // float bits
	G  bool   `json:",omitempty"` // gauge histogram
}

func (s c28Smp) c28Stale() bool { return s.V == gen.StaleNaNBits }

// c28Ser is one series: label set and samples sorted by strictly increasing T.
type c28Ser struct {
	L gen.Lset
	S []c28Smp
}

// c28IntHist builds the integer histogram of a K==2 sample: the bucket counts depend on
// the low bits of V so that different samples carry different histograms.
func c28IntHist(s c28Smp) *histogram.Histogram {
	a := int64(s.V>>3&7) + 1
	h := &histogram.Histogram{
		Schema: 1, ZeroThreshold: 0.001, ZeroCount: 1,
		PositiveSpans:   []histogram.Span{{Offset: 0, Length: 2}},
		PositiveBuckets: []int64{a, 1}, // absolute a, a+1
		Count:           uint64(1 + a + a + 1),
		Sum:             gen.F(s.V),
	}
	if s.G {
		h.CounterResetHint = histogram.GaugeType
	}
	return h
}

// c28FloatHist builds the float histogram the engine is expected to see for a K!=0 sample.
func c28FloatHist(s c28Smp) *histogram.FloatHistogram {
	if s.K == 2 {
		return c28IntHist(s).ToFloat(nil)
	}
	a := float64(s.V>>3&7) + 0.5
	h := &histogram.FloatHistogram{
		Schema: 0, ZeroThreshold: 0.001, ZeroCount: 1.5,
		PositiveSpans:   []histogram.Span{{Offset: -1, Length: 1}, {Offset: 1, Length: 1}},
		PositiveBuckets: []float64{a, 2},
		Count:           1.5 + a + 2,
		Sum:             gen.F(s.V),
	}
	if s.G {
		h.CounterResetHint = histogram.GaugeType
	}
	return h
}

type c28Iter struct {
	s []c28Smp
	i int
}

func (it *c28Iter) typ() chunkenc.ValueType {
	if it.i < 0 || it.i >= len(it.s) {
		return chunkenc.ValNone
	}
	switch it.s[it.i].K {
	case 1:
		return chunkenc.ValFloatHistogram
	case 2:
		return chunkenc.ValHistogram
	}
	return chunkenc.ValFloat
}

func (it *c28Iter) Next() chunkenc.ValueType {
	if it.i < len(it.s) {
		it.i++
	}
	return it.typ()
}

func (it *c28Iter) Seek(t int64) chunkenc.ValueType {
	if it.i < 0 {
		it.i = 0
	}
	for it.i < len(it.s) && it.s[it.i].T < t {
		it.i++
	}
	return it.typ()
}

func (it *c28Iter) At() (int64, float64) { return it.s[it.i].T, gen.F(it.s[it.i].V) }

func (it *c28Iter) AtHistogram(*histogram.Histogram) (int64, *histogram.Histogram) {
	return it.s[it.i].T, c28IntHist(it.s[it.i])
}

func (it *c28Iter) AtFloatHistogram(fh *histogram.FloatHistogram) (int64, *histogram.FloatHistogram) {
	s := it.s[it.i]
	h := c28FloatHist(s)
	if fh == nil {
		return s.T, h
	}
	h.CopyTo(fh)
	return s.T, fh
}

func (it *c28Iter) AtT() int64  { return it.s[it.i].T }
func (it *c28Iter) AtST() int64 { return it.s[it.i].ST }
func (*c28Iter) Err() error     { return nil }

type c28StSeries struct {
	l labels.Labels
	s []c28Smp
}

func (s *c28StSeries) Labels() labels.Labels { return s.l }
func (s *c28StSeries) Iterator(chunkenc.Iterator) chunkenc.Iterator {
	return &c28Iter{s: s.s, i: -1}
}

type c28Store struct {
	series []c28Ser
	trim   bool
	mu     sync.Mutex
	nsel   int
}

func (q *c28Store) Querier(mint, maxt int64) (storage.Querier, error) {
	return &c28Querier{q: q, mint: mint, maxt: maxt}, nil
}

type c28Querier struct {
	q          *c28Store
	mint, maxt int64
}

func (*c28Querier) LabelValues(context.Context, string, *storage.LabelHints, ...*labels.Matcher) ([]string, annotations.Annotations, error) {
	return nil, nil, nil
}

func (*c28Querier) LabelNames(context.Context, *storage.LabelHints, ...*labels.Matcher) ([]string, annotations.Annotations, error) {
	return nil, nil, nil
}
func (*c28Querier) Close() error { return nil }

func (m *c28Querier) Select(_ context.Context, _ bool, hints *storage.SelectHints, matchers ...*labels.Matcher) storage.SeriesSet {
	m.q.mu.Lock()
	m.q.nsel++
	m.q.mu.Unlock()
	lo, hi := m.mint, m.maxt
	if hints != nil {
		if hints.Start > lo {
			lo = hints.Start
		}
		if hints.End < hi {
			hi = hints.End
		}
	}
	var out []storage.Series
outer:
	for _, s := range m.q.series {
		ls := s.L.Labels()
		for _, mt := range matchers {
			if !mt.Matches(ls.Get(mt.Name)) {
				continue outer
			}
		}
		smp := s.S
		if m.q.trim {
			a := sort.Search(len(smp), func(i int) bool { return smp[i].T >= lo })
			b := sort.Search(len(smp), func(i int) bool { return smp[i].T > hi })
			if b < a {
				b = a
			}
			smp = smp[a:b]
		}
		out = append(out, &c28StSeries{l: ls, s: smp})
	}
	sort.Slice(out, func(i, j int) bool { return labels.Compare(out[i].Labels(), out[j].Labels()) < 0 })
	return &c28SeriesSet{series: out, i: -1}
}

type c28SeriesSet struct {
	series []storage.Series
	i      int
}

func (s *c28SeriesSet) Next() bool                      { s.i++; return s.i < len(s.series) }
func (s *c28SeriesSet) At() storage.Series              { return s.series[s.i] }
func (*c28SeriesSet) Err() error                        { return nil }
func (*c28SeriesSet) Warnings() annotations.Annotations { return nil }

// c28EngineOpts are the per-case engine settings.
type c28EngineOpts struct {
	LookbackMs int64
	DefStepMs  int64 // default subquery resolution
	UseST      bool
}

func c28NewEngine(o c28EngineOpts) *promql.Engine {
	def := o.DefStepMs
	if def <= 0 {
		def = 60_000
	}
	return promql.NewEngine(promql.EngineOpts{
		MaxSamples:               5_000_000,
		Timeout:                  5 * time.Minute,
		LookbackDelta:            time.Duration(o.LookbackMs) * time.Millisecond,
		NoStepSubqueryIntervalFn: func(int64) int64 { return def },
		EnableAtModifier:         true,
		EnableNegativeOffset:     true,
		UseStartTimestamps:       o.UseST,
	})
}

var (
	c28EngMu    sync.Mutex
	c28EngCache = map[c28EngineOpts]*promql.Engine{}
)

// c28Engine returns a cached engine for the option set (engines are stateless between
// queries; creating one allocates a dozen metric vectors, which dominates tiny cases).
func c28Engine(o c28EngineOpts) *promql.Engine {
	c28EngMu.Lock()
	defer c28EngMu.Unlock()
	if e, ok := c28EngCache[o]; ok {
		return e
	}
	if len(c28EngCache) > 4096 {
		c28EngCache = map[c28EngineOpts]*promql.Engine{}
	}
	e := c28NewEngine(o)
	c28EngCache[o] = e
	return e
}

// c28Pt is one value point of a result (float or histogram).
type c28Pt struct {
	T int64
	F float64
	H *histogram.FloatHistogram
}

// c28Result is a query result in a uniform shape: label-set key -> points sorted by T.
type c28Result struct {
	keys []string // sorted
	m    map[string][]c28Pt
	lset map[string]labels.Labels
}

func c28NewResult() *c28Result {
	return &c28Result{m: map[string][]c28Pt{}, lset: map[string]labels.Labels{}}
}

func (r *c28Result) add(ls labels.Labels, pts []c28Pt) (dup bool) {
	k := ls.String()
	if _, ok := r.m[k]; ok {
		return true
	}
	r.m[k] = pts
	r.lset[k] = ls
	r.keys = append(r.keys, k)
	sort.Strings(r.keys)
	return false
}

// c28FromEngine converts an engine result (vector, matrix) into c28Result.
func c28FromEngine(v any) (*c28Result, string) {
	out := c28NewResult()
	switch val := v.(type) {
	case promql.Vector:
		for _, s := range val {
			if out.add(s.Metric, []c28Pt{{T: s.T, F: s.F, H: s.H}}) {
				return nil, "duplicate label set in vector result: " + s.Metric.String()
			}
		}
	case promql.Matrix:
		for _, s := range val {
			pts := make([]c28Pt, 0, len(s.Floats)+len(s.Histograms))
			for _, p := range s.Floats {
				pts = append(pts, c28Pt{T: p.T, F: p.F})
			}
			for _, p := range s.Histograms {
				pts = append(pts, c28Pt{T: p.T, H: p.H})
			}
			sort.SliceStable(pts, func(i, j int) bool { return pts[i].T < pts[j].T })
			if out.add(s.Metric, pts) {
				return nil, "duplicate label set in matrix result: " + s.Metric.String()
			}
		}
	default:
		return nil, "unexpected result type"
	}
	return out, ""
}
