package pqleval

import (
	"context"
	"fmt"
	"sort"
	"testing"
	"time"

	"github.com/prometheus/prometheus/model/labels"
	"github.com/prometheus/prometheus/promql"
	"pgregory.net/rapid"

	"verifharness/internal/ev"
	"verifharness/internal/gen"
)

// C28 — Selectors implement lookback, staleness and range windows.

type c28Case struct {
	Series     []c28Ser
	LookbackMs int64
	DefStepMs  int64
	PerQueryLB bool // lookback passed as per-query option instead of engine option
	Trim       bool // storage returns only samples inside the requested time range
	EvalMs     int64
	Steps      int   `json:",omitempty"` // >1: range query with Steps steps starting at EvalMs
	StepMs     int64 `json:",omitempty"`
	Q          c28Query
}

func (c c28Case) end() int64 {
	if c.Steps > 1 {
		return c.EvalMs + int64(c.Steps-1)*c.StepMs
	}
	return c.EvalMs
}

var c28OverFns = []string{"count_over_time", "last_over_time", "count_over_time", "last_over_time", "first_over_time"}

func c28GenDur(t *rapid.T, label string, lookback int64) int64 {
	switch rapid.IntRange(0, 9).Draw(t, label+"class") {
	case 0:
		return lookback
	case 1:
		return int64(rapid.IntRange(1, 120000).Draw(t, label+"any"))
	case 2:
		return int64(rapid.IntRange(1, 3).Draw(t, label+"tiny"))
	default:
		return rapid.SampledFrom([]int64{999, 1000, 1001, 2000, 5000, 10000, 15000, 30000, 60000}).Draw(t, label+"std")
	}
}

func c28GenMod(t *rapid.T, label string, eval, lookback int64, pMod int) c28Mod {
	var m c28Mod
	if rapid.IntRange(0, 99).Draw(t, label+"hasoff") < pMod {
		m.Off = c28GenDur(t, label+"off", lookback)
		if rapid.IntRange(0, 2).Draw(t, label+"neg") == 0 {
			m.Off = -m.Off
		}
	}
	if rapid.IntRange(0, 99).Draw(t, label+"hasat") < pMod {
		switch rapid.IntRange(0, 7).Draw(t, label+"atclass") {
		case 0:
			m.SE = "start"
		case 1:
			m.SE = "end"
		case 2:
			m.HasAt = true
			m.At = rapid.SampledFrom([]int64{0, -1, 1, -1000, 1000, -60000}).Draw(t, label+"atabs")
		default:
			m.HasAt = true
			d := c28GenDur(t, label+"atd", lookback)
			switch rapid.IntRange(0, 2).Draw(t, label+"atsign") {
			case 0:
				d = -d
			case 1:
				d = 0
			}
			m.At = eval + d
		}
		m.AtFirst = rapid.Bool().Draw(t, label+"atfirst")
	}
	return m
}

func genC28(t *rapid.T) c28Case {
	var c c28Case
	switch rapid.IntRange(0, 7).Draw(t, "lbclass") {
	case 0:
		c.LookbackMs = int64(rapid.IntRange(1, 3).Draw(t, "lbtiny"))
	case 1:
		c.LookbackMs = int64(rapid.IntRange(1, 600000).Draw(t, "lbany"))
	default:
		c.LookbackMs = rapid.SampledFrom([]int64{1000, 5000, 15000, 60000, 300000, 600000}).Draw(t, "lbstd")
	}
	c.DefStepMs = rapid.SampledFrom([]int64{1000, 7000, 15000, 60000}).Draw(t, "defstep")
	c.PerQueryLB = rapid.IntRange(0, 3).Draw(t, "perquerylb") == 0
	c.Trim = rapid.IntRange(0, 2).Draw(t, "trim") > 0
	base := rapid.SampledFrom([]int64{0, 100_000, 100_000, 1_700_000_000_000, -100_000, 3}).Draw(t, "base")
	switch rapid.IntRange(0, 2).Draw(t, "evaljit") {
	case 0:
		c.EvalMs = base
	case 1:
		c.EvalMs = base + 1000*int64(rapid.IntRange(-30, 30).Draw(t, "evals"))
	default:
		c.EvalMs = base + int64(rapid.IntRange(-30000, 30000).Draw(t, "evalms"))
	}

	q := c28Query{Metric: "m"}
	q.Top = rapid.SampledFrom([]string{"inner", "inner", "inner", "mat", "mat", "sub", "sub", "fnsub"}).Draw(t, "top")
	q.Sel = c28GenMod(t, "sel", c.EvalMs, c.LookbackMs, 45)
	switch q.Top {
	case "mat":
		q.InnerRng = c28GenDur(t, "rng", c.LookbackMs)
	default:
		if rapid.IntRange(0, 1).Draw(t, "innerfn") == 1 {
			q.InnerFn = rapid.SampledFrom(c28OverFns).Draw(t, "innerfnname")
			q.InnerRng = c28GenDur(t, "rng", c.LookbackMs)
		}
	}
	if q.Top == "sub" || q.Top == "fnsub" {
		q.SubRng = c28GenDur(t, "subrng", c.LookbackMs)
		switch rapid.IntRange(0, 5).Draw(t, "substepclass") {
		case 0:
			q.SubStep = 0
		case 1:
			q.SubStep = c.LookbackMs
		default:
			q.SubStep = c28GenDur(t, "substep", c.LookbackMs)
		}
		eff := q.SubStep
		if eff == 0 {
			eff = c.DefStepMs
		}
		if q.SubRng/eff > 40 { // bound the number of subquery steps
			q.SubRng = eff * int64(rapid.IntRange(1, 40).Draw(t, "subrngclamp"))
		}
		q.Sub = c28GenMod(t, "sub", c.EvalMs, c.LookbackMs, 35)
		if q.Top == "fnsub" {
			q.TopFn = rapid.SampledFrom(c28OverFns).Draw(t, "topfn")
		}
	}
	c.Q = q
	if q.vectorTyped() && rapid.IntRange(0, 3).Draw(t, "rangequery") == 0 {
		c.Steps = rapid.IntRange(2, 7).Draw(t, "steps")
		switch rapid.IntRange(0, 3).Draw(t, "stepclass") {
		case 0:
			c.StepMs = c.LookbackMs
		case 1:
			if q.InnerRng > 0 {
				c.StepMs = q.InnerRng + int64(rapid.IntRange(-1, 1).Draw(t, "stepjit"))
			}
		}
		if c.StepMs <= 0 {
			c.StepMs = c28GenDur(t, "step", c.LookbackMs)
		}
		if q.Top == "fnsub" {
			// in a range query the subquery is evaluated once over the whole query range
			// at its own resolution: bound the number of inner evaluations
			eff := q.SubStep
			if eff == 0 {
				eff = c.DefStepMs
			}
			if int64(c.Steps)*c.StepMs/eff > 300 {
				c.StepMs = eff*int64(rapid.IntRange(1, 40).Draw(t, "stepclamp")) + int64(rapid.IntRange(-1, 1).Draw(t, "stepclampjit"))
				if c.StepMs <= 0 {
					c.StepMs = eff
				}
			}
		}
	}

	// Collect the windows the reference will look at, then place samples on and around
	// their edges.
	col := &c28RefEval{lookback: c.LookbackMs, defStep: c.DefStepMs, qStart: c.EvalMs, qEnd: c.end(), collect: true}
	for i, ts := 0, c.EvalMs; i < max(1, c.Steps); i, ts = i+1, ts+c.StepMs {
		col.top(q, nil, ts)
	}
	w := col.windows
	gmin, gmax := w[0].Lo, w[0].Hi
	for _, x := range w {
		gmin, gmax = min(gmin, x.Lo), max(gmax, x.Hi)
	}
	span := gmax - gmin
	mixed := rapid.IntRange(0, 2).Draw(t, "mixed") == 0
	nser := rapid.IntRange(1, 3).Draw(t, "nseries")
	for si := 0; si < nser; si++ {
		n := rapid.IntRange(0, 10).Draw(t, "nsamples")
		if rapid.IntRange(0, 15).Draw(t, "many") == 0 {
			n = rapid.IntRange(20, 40).Draw(t, "nmany")
		}
		seen := map[int64]bool{}
		var ts []int64
		for i := 0; i < n; i++ {
			var x int64
			switch rapid.IntRange(0, 9).Draw(t, "tclass") {
			case 0, 1:
				x = rapid.Int64Range(gmin-span/4-5, gmax+span/4+5).Draw(t, "tglobal")
			case 2:
				wi := w[rapid.IntRange(0, len(w)-1).Draw(t, "twin")]
				x = rapid.Int64Range(wi.Lo, wi.Hi).Draw(t, "tinside")
			default:
				wi := w[rapid.IntRange(0, len(w)-1).Draw(t, "twin")]
				x = wi.Lo
				if rapid.Bool().Draw(t, "thi") {
					x = wi.Hi
				}
				x += rapid.SampledFrom([]int64{-1, 0, 0, 0, 1}).Draw(t, "tdelta")
			}
			if !seen[x] {
				seen[x] = true
				ts = append(ts, x)
			}
		}
		sort.Slice(ts, func(i, j int) bool { return ts[i] < ts[j] })
		ser := c28Ser{L: gen.Lset{{"__name__", "m"}, {"a", fmt.Sprint(si)}}}
		for i, x := range ts {
			s := c28Smp{T: x, V: gen.B(float64(si*1000 + i + 1))}
			switch rapid.IntRange(0, 19).Draw(t, "vclass") {
			case 0, 1, 2:
				s.V = gen.StaleNaNBits
			case 3:
				s.V = rapid.SampledFrom([]uint64{gen.NormalNaNBits, 0x7ff0000000000000, 0x8000000000000000, 0xfff8000000000001, 0}).Draw(t, "vspecial")
			}
			if mixed && rapid.IntRange(0, 3).Draw(t, "hist") == 0 {
				s.K = rapid.IntRange(1, 2).Draw(t, "histkind")
				s.G = rapid.Bool().Draw(t, "gauge")
				if s.V != gen.StaleNaNBits {
					s.V = gen.B(float64(si*1000+i+1) + 0.5)
				}
			}
			ser.S = append(ser.S, s)
		}
		c.Series = append(c.Series, ser)
	}
	if rapid.IntRange(0, 3).Draw(t, "decoy") == 0 {
		d := c28Ser{L: gen.Lset{{"__name__", "other"}, {"a", "0"}}}
		if gmin+1 < c.EvalMs {
			d.S = append(d.S, c28Smp{T: gmin + 1, V: gen.B(8)})
		}
		d.S = append(d.S, c28Smp{T: c.EvalMs, V: gen.B(7)})
		c.Series = append(c.Series, d)
	}
	return c
}

func c28SamePt(a, b c28Pt) string {
	if a.T != b.T {
		return "timestamp"
	}
	if (a.H == nil) != (b.H == nil) {
		return "sample type"
	}
	if a.H == nil {
		if gen.B(a.F) != gen.B(b.F) {
			return "value"
		}
		return ""
	}
	if d := gen.FloatHistExact(a.H, b.H); d != "" {
		return "histogram " + d
	}
	return ""
}

// c28Exec runs the query of the case on the real engine.
func c28Exec(c c28Case, qs string) (*c28Result, error) {
	store := &c28Store{series: c.Series, trim: c.Trim}
	eo := c28EngineOpts{LookbackMs: c.LookbackMs, DefStepMs: c.DefStepMs}
	var qo promql.QueryOpts
	if c.PerQueryLB {
		eo.LookbackMs = 300_000
		qo = promql.NewPrometheusQueryOpts(false, time.Duration(c.LookbackMs)*time.Millisecond)
	}
	ng := c28Engine(eo)
	ctx := context.Background()
	var (
		qry promql.Query
		err error
	)
	if c.Steps > 1 {
		qry, err = ng.NewRangeQuery(ctx, store, qo, qs, time.UnixMilli(c.EvalMs), time.UnixMilli(c.end()), time.Duration(c.StepMs)*time.Millisecond)
	} else {
		qry, err = ng.NewInstantQuery(ctx, store, qo, qs, time.UnixMilli(c.EvalMs))
	}
	if err != nil {
		return nil, fmt.Errorf("creating query: %w", err)
	}
	defer qry.Close()
	res := qry.Exec(ctx)
	if res.Err != nil {
		return nil, fmt.Errorf("executing query: %w", res.Err)
	}
	out, msg := c28FromEngine(res.Value)
	if msg != "" {
		return nil, fmt.Errorf("%s", msg)
	}
	return out, nil
}

func runC28(c c28Case, r *ev.Rec) error {
	if len(c.Series) == 0 || c.LookbackMs <= 0 {
		r.Discard()
		return nil
	}
	qs := c.Q.String()
	// reference
	ref := &c28RefEval{lookback: c.LookbackMs, defStep: c.DefStepMs, qStart: c.EvalMs, qEnd: c.end()}
	want := c28NewResult()
	for _, s := range c.Series {
		ls := s.L.Labels()
		if ls.Get(labels.MetricName) != c.Q.Metric {
			continue
		}
		var pts []c28Pt
		if c.Steps > 1 {
			for i, ts := 0, c.EvalMs; i < c.Steps; i, ts = i+1, ts+c.StepMs {
				pts = append(pts, ref.top(c.Q, s.S, ts)...)
			}
		} else {
			pts = ref.top(c.Q, s.S, c.EvalMs)
		}
		if len(pts) == 0 {
			continue
		}
		if c.Q.dropsName() {
			ls = labels.NewBuilder(ls).Del(labels.MetricName).Labels()
		}
		want.add(ls, pts)
	}

	got, err := c28Exec(c, qs)
	desc := func() string {
		mode := fmt.Sprintf("instant at %d", c.EvalMs)
		if c.Steps > 1 {
			mode = fmt.Sprintf("range %d..%d step %d", c.EvalMs, c.end(), c.StepMs)
		}
		return fmt.Sprintf("query %q %s, lookback %dms (per-query option: %v), default subquery step %dms, storage trims to requested range: %v", qs, mode, c.LookbackMs, c.PerQueryLB, c.DefStepMs, c.Trim)
	}
	if err != nil {
		return ev.Failf("%s: unexpected error: %v", desc(), err)
	}

	// classes
	r.Class("top:" + c.Q.Top)
	if c.Q.InnerFn != "" {
		r.Class("inner:" + c.Q.InnerFn)
	}
	if c.Steps > 1 {
		r.Class("range-query")
	}
	for _, m := range []c28Mod{c.Q.Sel, c.Q.Sub} {
		if m.Off > 0 {
			r.Class("offset-positive")
		}
		if m.Off < 0 {
			r.Class("offset-negative")
		}
		if m.HasAt {
			r.Class("at-number")
		}
		if m.SE != "" {
			r.Class("at-start-end")
		}
	}
	if c.Q.Sub.any() {
		r.Class("subquery-modifier")
	}
	if c.Trim {
		r.Class("trimmed-storage")
	}
	if c.EvalMs < 0 {
		r.Class("negative-eval-time")
	}
	if ref.edge > 0 {
		r.Class("sample-on-edge")
	}
	if ref.stale > 0 {
		r.Class("stale-in-window")
	}
	if len(want.keys) > 0 {
		r.Class("nonempty-result")
	}
	nh := 0
	for _, k := range want.keys {
		for _, p := range want.m[k] {
			if p.H != nil {
				nh++
			}
		}
	}
	if nh > 0 {
		r.Class("histogram-in-result")
	}
	if ref.edge > 0 || ref.stale > 0 {
		r.NonTrivial()
	}

	// compare
	return c28Compare(c, want, got, desc())
}

func c28Compare(c c28Case, want, got *c28Result, desc string) error {
	for _, k := range want.keys {
		g, ok := got.m[k]
		if !ok {
			return ev.Failf("%s: series %s missing from the result; expected points [%s]; result has series %v\nseries data: %s", desc, k, c28DescribePts(want.m[k]), got.keys, c28DescribeSeries(c))
		}
		w := want.m[k]
		if len(g) != len(w) {
			return ev.Failf("%s: series %s: expected %d points [%s], got %d points [%s]\nseries data: %s", desc, k, len(w), c28DescribePts(w), len(g), c28DescribePts(g), c28DescribeSeries(c))
		}
		for i := range w {
			if d := c28SamePt(w[i], g[i]); d != "" {
				return ev.Failf("%s: series %s point %d differs in %s: expected [%s], got [%s]\nseries data: %s", desc, k, i, d, c28DescribePts(w), c28DescribePts(g), c28DescribeSeries(c))
			}
		}
	}
	for _, k := range got.keys {
		if _, ok := want.m[k]; !ok {
			return ev.Failf("%s: unexpected series %s in the result with points [%s]; expected series %v\nseries data: %s", desc, k, c28DescribePts(got.m[k]), want.keys, c28DescribeSeries(c))
		}
	}
	return nil
}

func c28DescribeSeries(c c28Case) string {
	out := ""
	for _, s := range c.Series {
		out += s.L.Labels().String() + ":"
		for i, x := range s.S {
			if i >= 45 {
				out += " ..."
				break
			}
			v := fmt.Sprint(gen.F(x.V))
			if x.c28Stale() {
				v = "STALE"
			}
			if x.K != 0 {
				v = "H(" + v + ")"
			}
			out += fmt.Sprintf(" %d=%s", x.T, v)
		}
		out += "; "
	}
	return out
}

func TestC28(t *testing.T) {
	ev.Check(t, "C28",
		"a selector expression (m / m[r] / count|last|first_over_time(m[r]) with offset (incl. negative) and @ number|start()|end(); optionally inside a subquery [r:s] with its own offset/@, optionally wrapped in *_over_time) is evaluated as instant query or 2-7 step range query over 1-3 series (floats, float/int histograms, stale markers of both kinds) whose timestamps are drawn on and +-1ms around the edges of every window the reference looks at; lookback 1ms-10min given as engine or per-query option; storage optionally trims to the requested time range. Result compared exactly with a reference written from basics.md. Non-trivial: a sample lies exactly on an edge of an evaluated window or a stale marker lies inside one; distinct by hash of the case.",
		genC28, runC28)
}
