// Package ev is the shared property runner and evidence recorder of the
// verification harness.
//
// Every property is written as a generator `gen(*rapid.T) C` producing a plain
// JSON-serialisable case and a pure oracle `run(C, *Rec) error`. Check wires the two
// into rapid.Check, replays the committed corpus first, saves every failing case as a
// JSON replay file (the last one written is the shrunk one), classifies failures
// against /verif/known_findings.json and writes a per-shard evidence file that the
// python driver merges into /verif/evidence/<ID>.json.
package ev

import (
	"encoding/json"
	"errors"
	"fmt"
	"hash/fnv"
	"os"
	"path/filepath"
	"runtime/debug"
	"sort"
	"strings"
	"sync"
	"testing"
	"time"

	"pgregory.net/rapid"
)

// Violation is returned by an oracle when the property is broken.
// Sig, when non-empty, is a root-cause signature that is compared with the `sig`
// fields of known_findings.json; it must be derived from the specific failing
// input/history, never from the property id alone.
type Violation struct {
	Msg string
	Sig string
}

func (v *Violation) Error() string { return v.Msg }

// Failf builds a Violation without signature.
func Failf(format string, a ...any) error { return &Violation{Msg: fmt.Sprintf(format, a...)} }

// FailSig builds a Violation with a root-cause signature.
func FailSig(sig, format string, a ...any) error {
	return &Violation{Msg: fmt.Sprintf(format, a...), Sig: sig}
}

// Rec collects what one case exercised.
type Rec struct {
	nontrivial bool
	classes    map[string]int
	skip       bool
}

// NonTrivial marks the case as non-trivial by the property's stated rule.
func (r *Rec) NonTrivial() { r.nontrivial = true }

// Class increments a class counter (generator distribution report).
func (r *Rec) Class(name string) { r.Count(name, 1) }

// Count adds n to a class counter.
func (r *Rec) Count(name string, n int) {
	if r.classes == nil {
		r.classes = map[string]int{}
	}
	r.classes[name] += n
}

// Discard marks the case as not counting at all (generator self-check failed,
// precondition not met); it is reported in the `discarded` counter.
func (r *Rec) Discard() { r.skip = true }

type knownFinding struct {
	Property string `json:"property"`
	Sig      string `json:"sig"`
	Text     string `json:"text"`
	Replay   string `json:"replay"`
	Fixed    string `json:"fixed"`
}

type shardEvidence struct {
	ID            string         `json:"id"`
	Part          string         `json:"part"`
	Rule          string         `json:"rule"`
	Requested     int            `json:"requested"`
	Evaluations   int            `json:"evaluations"`
	Nontrivial    int            `json:"nontrivial"`
	Discarded     int            `json:"discarded"`
	Replayed      int            `json:"replayed"`
	ExcludedKnown int            `json:"excluded_known"`
	Classes       map[string]int `json:"classes"`
	Samples       []any          `json:"samples"`
	Hashes        []uint64       `json:"hashes"`
	Violations    []violationOut `json:"violations"`
	Known         []string       `json:"known"`
	Exhaustive    bool           `json:"exhaustive"`
	Notes         []string       `json:"notes,omitempty"`
	WallS         float64        `json:"wall_s"`
}

type violationOut struct {
	Msg    string `json:"msg"`
	Replay string `json:"replay"`
	Sig    string `json:"sig,omitempty"`
}

// Opts tunes a Check.
type Opts struct {
	// Part distinguishes several checks contributing to one property.
	Part string
	// MaxHashes caps the number of distinct hashes kept (default 1<<21).
	MaxHashes int
}

type runner[C any] struct {
	id, part, rule string
	run            func(C, *Rec) error
	mu             sync.Mutex
	ev             shardEvidence
	hashes         map[uint64]struct{}
	maxHashes      int
	failed         bool // first failure seen: stop counting (shrinking phase)
	known          map[string]knownFinding
	knownPrinted   map[string]bool
	replayDir      string
	seed           string
	start          time.Time
	sampleAt       int
}

func verifRoot() string {
	if r := os.Getenv("VERIF_ROOT"); r != "" {
		return r
	}
	return "/verif"
}

func loadKnown(id string) map[string]knownFinding {
	out := map[string]knownFinding{}
	b, err := os.ReadFile(filepath.Join(verifRoot(), "known_findings.json"))
	if err != nil {
		return out
	}
	var doc struct {
		Findings []knownFinding `json:"findings"`
	}
	if json.Unmarshal(b, &doc) != nil {
		return out
	}
	for _, f := range doc.Findings {
		if f.Property == id && f.Fixed == "" && f.Sig != "" {
			out[f.Sig] = f
		}
	}
	return out
}

func hashJSON(b []byte) uint64 {
	h := fnv.New64a()
	h.Write(b)
	return h.Sum64()
}

// Tier returns "quick" or "thorough".
func Tier() string {
	if os.Getenv("VERIF_TIER") == "thorough" {
		return "thorough"
	}
	return "quick"
}

// Thorough reports whether the thorough tier is running.
func Thorough() bool { return Tier() == "thorough" }

func newRunner[C any](id, rule string, run func(C, *Rec) error, o Opts) *runner[C] {
	r := &runner[C]{id: id, part: o.Part, rule: rule, run: run, hashes: map[uint64]struct{}{}, maxHashes: o.MaxHashes}
	if r.maxHashes == 0 {
		r.maxHashes = 1 << 21
	}
	r.ev = shardEvidence{ID: id, Part: o.Part, Rule: rule, Classes: map[string]int{}}
	r.known = loadKnown(id)
	r.knownPrinted = map[string]bool{}
	r.replayDir = filepath.Join(verifRoot(), "replays", id)
	r.seed = os.Getenv("VERIF_SHARD_TAG")
	if r.seed == "" {
		r.seed = "local"
	}
	r.start = time.Now()
	r.sampleAt = 1
	return r
}

// safeRun converts a panic of the oracle or of the code under test into a violation:
// none of the listed properties allows a panic to escape for a generated (valid) case.
func (r *runner[C]) safeRun(c C, rec *Rec) (err error) {
	defer func() {
		if p := recover(); p != nil {
			err = &Violation{Msg: fmt.Sprintf("panic: %v\n%s", p, debug.Stack())}
		}
	}()
	return r.run(c, rec)
}

func truncSample(b []byte) any {
	if len(b) <= 6000 {
		var v any
		if json.Unmarshal(b, &v) == nil {
			return v
		}
	}
	s := string(b)
	if len(s) > 6000 {
		s = s[:6000] + "...(truncated)"
	}
	return s
}

// account records one executed case; returns error to report (nil when the case passed
// or hit a known finding).
func (r *runner[C]) account(c C, counted bool) error {
	rec := &Rec{}
	err := r.safeRun(c, rec)
	r.mu.Lock()
	defer r.mu.Unlock()
	if rec.skip && err == nil {
		if counted && !r.failed {
			r.ev.Discarded++
		}
		return nil
	}
	var js []byte
	if counted && !r.failed {
		r.ev.Evaluations++
		for k, v := range rec.classes {
			r.ev.Classes[k] += v
		}
		if rec.nontrivial {
			js, _ = json.Marshal(c)
			h := hashJSON(js)
			if _, dup := r.hashes[h]; !dup && len(r.hashes) < r.maxHashes {
				r.hashes[h] = struct{}{}
				r.ev.Nontrivial++
				if r.ev.Nontrivial == r.sampleAt && len(r.ev.Samples) < 6 {
					r.ev.Samples = append(r.ev.Samples, truncSample(js))
					r.sampleAt *= 7
				}
			}
		}
	}
	if err == nil {
		return nil
	}
	var v *Violation
	if !errors.As(err, &v) {
		v = &Violation{Msg: err.Error()}
	}
	if v.Sig != "" {
		if kf, ok := r.known[v.Sig]; ok {
			r.ev.ExcludedKnown++
			if !r.knownPrinted[v.Sig] {
				r.knownPrinted[v.Sig] = true
				r.ev.Known = append(r.ev.Known, v.Sig)
				fmt.Printf("KNOWN-FINDING: property=%s %s [sig=%s]\n", r.id, kf.Text, v.Sig)
			}
			return nil
		}
	}
	// genuine, unlisted failure: save replay (overwritten while shrinking; the last is minimal)
	r.failed = true
	if js == nil {
		js, _ = json.Marshal(c)
	}
	_ = os.MkdirAll(r.replayDir, 0o755)
	name := fmt.Sprintf("fail-%s%s.json", r.partPrefix(), r.seed)
	path := filepath.Join(r.replayDir, name)
	_ = os.WriteFile(path, js, 0o644)
	if len(r.ev.Violations) == 0 {
		r.ev.Violations = append(r.ev.Violations, violationOut{})
	}
	r.ev.Violations[0] = violationOut{Msg: v.Msg, Replay: path, Sig: v.Sig}
	return v
}

func (r *runner[C]) partPrefix() string {
	if r.part == "" {
		return ""
	}
	return r.part + "-"
}

func (r *runner[C]) flush() {
	r.mu.Lock()
	defer r.mu.Unlock()
	out := os.Getenv("VERIF_OUT")
	if out == "" {
		return
	}
	r.ev.WallS = time.Since(r.start).Seconds()
	r.ev.Hashes = r.ev.Hashes[:0]
	for h := range r.hashes {
		r.ev.Hashes = append(r.ev.Hashes, h)
	}
	sort.Slice(r.ev.Hashes, func(i, j int) bool { return r.ev.Hashes[i] < r.ev.Hashes[j] })
	b, _ := json.Marshal(&r.ev)
	tmp := out + ".tmp"
	if os.WriteFile(tmp, b, 0o644) == nil {
		_ = os.Rename(tmp, out)
	}
}

// replayFile runs one saved case. expectSig "" means the case must pass.
func (r *runner[C]) replayFile(t *testing.T, path string) {
	b, err := os.ReadFile(path)
	if err != nil {
		t.Fatalf("replay: %v", err)
	}
	var c C
	if err := json.Unmarshal(b, &c); err != nil {
		// a replay file of another part of the same property: ignore
		return
	}
	r.mu.Lock()
	r.ev.Replayed++
	r.mu.Unlock()
	if verr := r.account(c, true); verr != nil {
		fmt.Printf("VIOLATION property=%s replay=%s\n", r.id, path)
		fmt.Printf("  detail: %s\n", firstLines(verr.Error(), 400))
		r.mu.Lock()
		if len(r.ev.Violations) > 0 {
			r.ev.Violations[0].Replay = path
		}
		r.failed = false
		r.mu.Unlock()
		t.Fail()
	}
}

func firstLines(s string, n int) string {
	l := strings.Split(s, "\n")
	if len(l) > n {
		l = append(l[:n], "...")
	}
	return strings.Join(l, "\n    ")
}

func (r *runner[C]) corpus(t *testing.T) {
	// explicit replay of one file
	if f := os.Getenv("VERIF_REPLAY"); f != "" {
		r.replayFile(t, f)
		return
	}
	if os.Getenv("VERIF_SHARD") != "" && os.Getenv("VERIF_SHARD") != "0" {
		return
	}
	files, _ := filepath.Glob(filepath.Join(r.replayDir, "*.json"))
	sort.Strings(files)
	for _, f := range files {
		base := filepath.Base(f)
		if strings.HasPrefix(base, "fail-") {
			continue // scratch output of an earlier failing run, not part of the corpus
		}
		if r.part != "" && !strings.HasPrefix(base, r.part+"-") {
			continue
		}
		if r.part == "" && strings.Contains(base, "--") {
			continue
		}
		r.replayFile(t, f)
	}
}

// Check runs the property: corpus replay, then generated search.
func Check[C any](t *testing.T, id, rule string, gen func(*rapid.T) C, run func(C, *Rec) error, opts ...Opts) {
	var o Opts
	if len(opts) > 0 {
		o = opts[0]
	}
	r := newRunner(id, rule, run, o)
	defer r.flush()
	r.corpus(t)
	if os.Getenv("VERIF_REPLAY") != "" {
		return
	}
	if t.Failed() {
		return
	}
	r.ev.Requested = requestedChecks()
	sub := func(rt *rapid.T) {
		c := gen(rt)
		if err := r.account(c, true); err != nil {
			rt.Fatalf("%s", firstLines(err.Error(), 40))
		}
	}
	ok := t.Run("search", func(st *testing.T) { rapid.Check(st, sub) })
	if !ok {
		r.mu.Lock()
		path := ""
		if len(r.ev.Violations) > 0 {
			path = r.ev.Violations[0].Replay
		} else {
			// rapid itself failed (e.g. generator exhaustion): not a property violation
			r.ev.Notes = append(r.ev.Notes, "rapid reported a failure without a property violation (generator problem)")
		}
		r.mu.Unlock()
		if path != "" {
			fmt.Printf("VIOLATION property=%s replay=%s\n", r.id, path)
		} else {
			fmt.Printf("HARNESS-ERROR property=%s rapid failed without violation\n", r.id)
		}
	}
}

// Enumerate runs the oracle over an explicitly enumerated finite list of cases
// (exhaustive small-universe parts). next returns false when the space is exhausted.
func Enumerate[C any](t *testing.T, id, rule string, next func() (C, bool), run func(C, *Rec) error, opts ...Opts) {
	var o Opts
	if len(opts) > 0 {
		o = opts[0]
	}
	r := newRunner(id, rule, run, o)
	defer r.flush()
	r.corpus(t)
	if os.Getenv("VERIF_REPLAY") != "" || t.Failed() {
		return
	}
	r.ev.Exhaustive = true
	for {
		c, ok := next()
		if !ok {
			break
		}
		r.ev.Requested++
		if err := r.account(c, true); err != nil {
			path := ""
			if len(r.ev.Violations) > 0 {
				path = r.ev.Violations[0].Replay
			}
			fmt.Printf("VIOLATION property=%s replay=%s\n", r.id, path)
			fmt.Printf("  detail: %s\n", firstLines(err.Error(), 30))
			t.Fail()
			return
		}
	}
}

func requestedChecks() int {
	for i, a := range os.Args {
		if strings.HasPrefix(a, "-rapid.checks=") {
			var n int
			fmt.Sscanf(strings.TrimPrefix(a, "-rapid.checks="), "%d", &n)
			return n
		}
		if a == "-rapid.checks" && i+1 < len(os.Args) {
			var n int
			fmt.Sscanf(os.Args[i+1], "%d", &n)
			return n
		}
	}
	return 100
}
